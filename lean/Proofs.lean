import Proofs.Hex
import Proofs.Monad
