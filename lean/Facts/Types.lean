/-
  Facts/Types.lean — types of the regenerated lock-discipline facts (hand-written; the values are
  regenerated into Facts/Generated.lean on every run).
-/
namespace Facts

inductive Ev
  | lock | rlock | unlock | runlock | deferUnlock | deferRUnlock
  | r (field : Nat) | w (field : Nat) | call (method : Nat) | ret | unknown
deriving DecidableEq, Repr

structure Method where
  name : String
  entry : Bool            -- exported method: callable by anyone, without any lock held
  events : List Ev
deriving Repr

structure LockType where
  name : String
  guarded : List Nat      -- ids of the fields the lock protects
  methods : List Method
deriving Repr

end Facts
