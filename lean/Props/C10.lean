/-
  Props/C10.lean — C10: cross-shard messages and the transfer parser agree with the ledger.
-/
import Proofs.Emit
import Proofs.Parsers
import Proofs.Metadata
import Props.C08
import Proofs.ParserMulti
import Proofs.Accept
import Proofs.Accept2
import Proofs.Accept3
import Facts.Generated
namespace C10
open Esdt

/-- FULL (part 1a): every data string a built-in function emits in an output transfer is empty or the one
    encoder's output `fn@hex(arg)@…` for a protocol function name or the attached name given in the arguments -/
theorem emitted_data_form (f : FnId) (env : Env) (c : Call) (ctx ctx' : Ctx) (out : VMOutput)
    (h : exec env f c ctx = .ok (out, ctx')) : EmittedOK c out := by
  unfold exec at h
  cases f <;> simp only [runFn] at h
  · exact (emit_claimDeveloperRewards env c ctx).elim h
  · exact EmittedOK.of_noOutput _ _ ((noout_changeOwnerAddress env c ctx).elim h)
  · exact (emit_setUserName env c ctx).elim h
  · exact EmittedOK.of_noOutput _ _ ((noout_saveKeyValue env c ctx).elim h)
  · exact EmittedOK.of_noOutput _ _ ((noout_esdtPause true env c ctx).elim h)
  · exact EmittedOK.of_noOutput _ _ ((noout_esdtPause false env c ctx).elim h)
  · exact (emit_esdtTransfer env c ctx).elim h
  · exact (emit_esdtBurn env c ctx).elim h
  · exact EmittedOK.of_noOutput _ _ ((noout_esdtFreezeWipe .freeze env c ctx).elim h)
  · exact EmittedOK.of_noOutput _ _ ((noout_esdtFreezeWipe .unfreeze env c ctx).elim h)
  · exact EmittedOK.of_noOutput _ _ ((noout_esdtFreezeWipe .wipe env c ctx).elim h)
  · exact EmittedOK.of_noOutput _ _ ((noout_esdtRoles false env c ctx).elim h)
  · exact EmittedOK.of_noOutput _ _ ((noout_esdtRoles true env c ctx).elim h)
  · exact EmittedOK.of_noOutput _ _ ((noout_esdtLocalBurn env c ctx).elim h)
  · exact EmittedOK.of_noOutput _ _ ((noout_esdtLocalMint env c ctx).elim h)
  · exact EmittedOK.of_noOutput _ _ ((noout_esdtNFTAddQuantity env c ctx).elim h)
  · exact EmittedOK.of_noOutput _ _ ((noout_esdtNFTBurn env c ctx).elim h)
  · exact EmittedOK.of_noOutput _ _ ((noout_esdtNFTCreate env c ctx).elim h)
  · exact (emit_esdtNFTTransfer env c ctx).elim h
  · exact (emit_esdtNFTCreateRoleTransfer env c ctx).elim h
  · exact EmittedOK.of_noOutput _ _ ((noout_esdtNFTUpdateAttributes env c ctx).elim h)
  · exact EmittedOK.of_noOutput _ _ ((noout_esdtNFTAddURI env c ctx).elim h)
  · exact (emit_multiTransfer env c ctx).elim h

/-- names the call-arguments parser can give back: non-empty, without the separator (C12's domain) -/
def GoodName (fn : Bytes) : Prop := fn ≠ [] ∧ at' ∉ fn

/-- the protocol's own names are good names (spec literals, checked against the regenerated constants) -/
theorem protocol_names_good : ∀ n ∈ protoNames, GoodName n := by
  intro n hn
  simp only [protoNames, List.mem_cons, List.mem_singleton, List.not_mem_nil, or_false] at hn
  rcases hn with rfl | rfl | rfl | rfl | rfl | rfl <;> exact ⟨by decide, by decide⟩
theorem protocol_names_as_in_code :
    protoNames = [Facts.fnESDTTransfer, Facts.fnESDTBurn, Facts.fnESDTNFTTransfer, Facts.fnMultiESDTNFTTransfer,
                  Facts.fnESDTNFTCreateRoleTransfer, Facts.fnSetUserName] := by decide

/-- FULL (part 1b): every non-empty emitted data string parses with the call-arguments parser into exactly the
    function name and the arguments that were encoded (attached names: under C12's carve-out `GoodName`) -/
theorem emitted_parses (f : FnId) (env : Env) (c : Call) (ctx ctx' : Ctx) (out : VMOutput)
    (h : exec env f c ctx = .ok (out, ctx'))
    (oa : OutAcct) (hoa : oa ∈ out.outAccts) (tr : OutTransfer) (htr : tr ∈ oa.transfers) (hne : tr.data ≠ []) :
    ∃ fn args, tr.data = encodeCall fn args ∧ (GoodName fn → parseCall tr.data = .ok (fn, args)) ∧
      (fn ∈ protoNames ∨ fn ∈ c.args) := by
  rcases emitted_data_form f env c ctx ctx' out h oa hoa tr htr with he | ⟨fn, args, he, hfn⟩
  · exact absurd he hne
  · exact ⟨fn, args, he, fun hg => he ▸ parseCall_encodeCall fn args hg.1 hg.2, hfn⟩

/-- protocol continuations always parse -/
theorem continuation_parses (fn : Bytes) (args : List Bytes) (h : fn ∈ protoNames) :
    parseCall (encodeCall fn args) = .ok (fn, args) :=
  parseCall_encodeCall fn args (protocol_names_good fn h).1 (protocol_names_good fn h).2

/-- argument index conventions shared by parser and functions (regenerated from both packages) -/
theorem index_conventions :
    Facts.parserMinArgsESDTTransfer = Facts.minLenArgumentsESDTTransfer ∧
    Facts.parserMinArgsESDTNFTTransfer = Facts.minLenArgumentsESDTNFTTransfer ∧
    Facts.parserMinArgsMulti = 4 ∧ Facts.parserArgsPerTransfer = 3 ∧
    Facts.minLenArgumentsESDTTransfer = 2 ∧ Facts.minLenArgumentsESDTNFTTransfer = 4 := by decide

/-- the parser's report for a single fungible transfer: receiver, token = args[0], value = args[1] (big-endian),
    attached call = args[2] with arguments args[3:] — exactly the positions `esdtTransfer` reads -/
theorem parser_single_positions (snd rcv tok val : Bytes) (rest : List Bytes) :
    parseESDTTransfers snd rcv (ascii "ESDTTransfer") (tok :: val :: rest) =
      .ok { transfers := [{ value := beNat val, token := tok, type := 0, nonce := 0 }], rcv := rcv,
            callFn := rest.headD [], callArgs := rest.drop 1 } := by
  cases rest <;> simp [parseESDTTransfers, pArg, bind, PRes.bind, pure]

/-- sender-form NFT transfer: the receiver reported is the destination argument -/
theorem parser_nft_sender_positions (snd tok nonce qty dst : Bytes) (rest : List Bytes) :
    parseESDTTransfers snd snd (ascii "ESDTNFTTransfer") (tok :: nonce :: qty :: dst :: rest) =
      .ok { transfers := [{ value := beNat qty, token := tok, type := 1, nonce := u64 (beNat nonce) }], rcv := dst,
            callFn := rest.headD [], callArgs := rest.drop 1 } := by
  cases rest <;> simp [parseESDTTransfers, pArg, bind, PRes.bind, pure, ascii]

/-! ### the parser's report is what the ledger moves -/

theorem args_cons2 {args : List Bytes} {a b : Bytes} (h0 : args[0]? = some a) (h1 : args[1]? = some b) :
    ∃ rest, args = a :: b :: rest := by
  match args, h0, h1 with
  | x :: y :: rest, h0, h1 => simp at h0 h1; subst h0; subst h1; exact ⟨rest, rfl⟩
  | [_], _, h1 => simp at h1
  | [], h0, _ => simp at h0

/-- FULL (ESDTTransfer, sender side): what the parser reports for the transaction — token, amount — is exactly what
    the function debits from the sender -/
theorem parser_matches_debit (env : Env) (c : Call) (ctx ctx' : Ctx) (out : VMOutput)
    (hs : present env.nshards env.self c.caller = true) (hd : present env.nshards env.self c.rcv = false)
    (h : esdtTransfer env c ctx = .ok (out, ctx')) :
    ∃ tok amt rest t v, c.args = tok :: amt :: rest ∧
      parseESDTTransfers c.caller c.rcv (ascii "ESDTTransfer") c.args =
        .ok { transfers := [{ value := beNat amt, token := tok, type := 0, nonce := 0 }], rcv := c.rcv,
              callFn := rest.headD [], callArgs := rest.drop 1 } ∧
      OneWrite ctx.accts ctx'.accts c.caller (esdtKeyPrefix ++ tok) t v (- (beNat amt : Int)) := by
  obtain ⟨tok, amt, t, v, h0, h1, _, hw, _⟩ := (esdtTransfer_senderOnly_effect env c ctx hs hd).elim h
  obtain ⟨rest, hargs⟩ := args_cons2 h0 h1
  exact ⟨tok, amt, rest, t, v, hargs, by rw [hargs]; exact parser_single_positions _ _ _ _ _, hw⟩

/-- FULL (ESDTTransfer, destination side — delivery or refund): … is exactly what the function credits -/
theorem parser_matches_credit (env : Env) (c : Call) (ctx ctx' : Ctx) (out : VMOutput)
    (hs : present env.nshards env.self c.caller = false) (hd : present env.nshards env.self c.rcv = true)
    (h : esdtTransfer env c ctx = .ok (out, ctx')) :
    ∃ tok amt rest t v, c.args = tok :: amt :: rest ∧
      parseESDTTransfers c.caller c.rcv (ascii "ESDTTransfer") c.args =
        .ok { transfers := [{ value := beNat amt, token := tok, type := 0, nonce := 0 }], rcv := c.rcv,
              callFn := rest.headD [], callArgs := rest.drop 1 } ∧
      OneWrite ctx.accts ctx'.accts c.rcv (esdtKeyPrefix ++ tok) t v (beNat amt) := by
  obtain ⟨tok, amt, t, v, h0, h1, _, hw, _⟩ := (esdtTransfer_destOnly_effect env c ctx hs hd).elim h
  obtain ⟨rest, hargs⟩ := args_cons2 h0 h1
  exact ⟨tok, amt, rest, t, v, hargs, by rw [hargs]; exact parser_single_positions _ _ _ _ _, hw⟩

/-- FULL (ESDTNFTTransfer, sender side, cross-shard): token, nonce and quantity reported by the parser are the ones of
    the entry the function debits, and the receiver it reports is the destination argument -/
theorem parser_matches_nft_debit (env : Env) (c : Call) (ctx ctx' : Ctx) (out : VMOutput)
    (hs : present env.nshards env.self c.caller = true)
    (hx : ∀ d, c.args[3]? = some d → env.self ≠ shardOf env.nshards d)
    (h : esdtNFTTransferSender env c ctx = .ok (out, ctx')) :
    ∃ tok nb qb dst rest t v, c.args = tok :: nb :: qb :: dst :: rest ∧
      parseESDTTransfers c.caller c.caller (ascii "ESDTNFTTransfer") c.args =
        .ok { transfers := [{ value := beNat qb, token := tok, type := 1, nonce := u64 (beNat nb) }], rcv := dst,
              callFn := rest.headD [], callArgs := rest.drop 1 } ∧
      NftWrite ctx.accts ctx'.accts c.caller (esdtKeyPrefix ++ tok) (u64 (beNat nb)) t v (v - beNat qb) := by
  obtain ⟨tok, nb, qb, dst, t, v, h0, h1, h2, h3, _, _, hw, _⟩ :=
    (nftTransferSender_crossShard_effect env c ctx hs hx).elim h
  have hargs : ∃ rest, c.args = tok :: nb :: qb :: dst :: rest := by
    match hc : c.args, h0, h1, h2, h3 with
    | a :: b :: d :: e :: rest, h0, h1, h2, h3 =>
      simp at h0 h1 h2 h3; subst h0; subst h1; subst h2; subst h3; exact ⟨rest, rfl⟩
    | [_, _, _], _, _, _, h3 => simp at h3
    | [_, _], _, _, h2, _ => simp at h2
    | [_], _, h1, _, _ => simp at h1
    | [], h0, _, _, _ => simp at h0
  obtain ⟨rest, hargs⟩ := hargs
  exact ⟨tok, nb, qb, dst, rest, t, v, hargs, by rw [hargs]; exact parser_nft_sender_positions _ _ _ _ _ _, hw⟩

/-- FULL (ESDTNFTTransfer, delivery): the quantity the parser reports for the delivered message (its 3rd argument) is the
    quantity the destination is credited with (the `Value` of the payload the sender side built): the destination entry
    becomes the sender's entry with `Value := that quantity + existing` (C08.cross_shard_hop) -/
theorem parser_matches_nft_delivery (envS envD : Env) (cS cD : Call) (ctxS ctxS' ctxD ctxD' : Ctx) (outS outD : VMOutput)
    (hself : cS.caller = cS.rcv) (hpres : present envS.nshards envS.self cS.caller = true)
    (hx : ∀ d, cS.args[3]? = some d → envS.self ≠ shardOf envS.nshards d)
    (hS : esdtNFTTransfer envS cS ctxS = .ok (outS, ctxS'))
    (hne : cD.caller ≠ cD.rcv)
    (hdeliver : ∀ dst tr, outS.outAccts = [{ addr := dst, transfers := [tr] }] →
      cD.rcv = dst ∧ parseCall tr.data = .ok (cD.fn, cD.args))
    (hD : esdtNFTTransfer envD cD ctxD = .ok (outD, ctxD'))
    (hok : ∀ t q, decToken (ctxS.accts.read cS.caller
        (nftKey (esdtKeyPrefix ++ (cS.args[0]?).getD []) (u64 (beNat ((cS.args[1]?).getD []))))) = some t →
        TokenOK { t with value := some q }) :
    ∃ tok nb qb t cv, cS.args[0]? = some tok ∧ cS.args[1]? = some nb ∧ cS.args[2]? = some qb ∧
      decToken (ctxS.accts.read cS.caller (nftKey (esdtKeyPrefix ++ tok) (u64 (beNat nb)))) = some t ∧
      ctxD'.accts.read cD.rcv (nftKey (esdtKeyPrefix ++ tok) (mdNonce t)) =
        nftStoredForm { t with value := some ((beNat qb : Int) + cv) } :=
  C08.cross_shard_hop envS envD cS cD ctxS ctxS' ctxD ctxD' outS outD hself hpres hx hS hne hdeliver hD hok

/-- FULL (MultiESDTNFTTransfer, what the destination contract is told = what the ledger moved): a successful sender-side
    multi transfer towards another shard, on a well-formed shard state (`SInv`), emits ONE output transfer whose data
      * parses with the call-arguments parser into the function's own name and the argument list
        `count :: payload ++ attached call`,
      * is accepted by the ESDT-transfer parser as seen on the destination shard (sender ≠ receiver), with receiver = the
        destination and ONE REPORT PER TRANSFERRED TOKEN, in order (`reportOf`: identifier, the nonce of the entry's own
        metadata — 0 for a fungible token —, and the transferred quantity, type by kind),
      * and for EVERY storage key the quantities the parser reports for that key add up to exactly what the sender's
        shard lost under that key (`parsedContrib … + balance after = balance before`) — repeated items, mixed kinds and
        aliasing identifiers included.
    With C01.multi_conservation_history (the same message, read by the destination loop, credits exactly that) a contract
    is never told it received more or other tokens than the ledger moved. -/
theorem parser_matches_multi_message (env : Env) (c : Call) (ctx ctx' : Ctx) (out : VMOutput) (hI : SInv ctx.accts)
    (hpres : present env.nshards env.self c.caller = true)
    (hdsys : ∀ d, c.args[0]? = some d → d ≠ systemAccountAddress)
    (hphys : c.args.length < 2 ^ 63)
    (h : multiTransferSender env c ctx = .ok (out, ctx'))
    (dst : Bytes) (h0 : c.args[0]? = some dst) (hx : env.self ≠ shardOf env.nshards dst) :
    ∃ tr args p, out.outAccts = [{ addr := dst, transfers := [tr] }] ∧
      parseCall tr.data = .ok (fnMultiESDTNFTTransfer, args) ∧
      parseESDTTransfers c.caller dst fnMultiESDTNFTTransfer args = .ok p ∧ p.rcv = dst ∧
      ∀ k, balAt ctx'.accts k + parsedContrib p.transfers k = balAt ctx.accts k := by
  obtain ⟨hne, toks, rest, tr, a1, h1, hlen, hn0, hn3, hout, hdata, hok, hlens, hb⟩ :=
    (multiTransferSender_message env c ctx hI hpres hdsys).elim h dst h0 hx
  have hlt : 3 * toks.length + 1 < two64 := by
    rw [hlen]; unfold two64; omega
  obtain ⟨p, hp, htr, hrcv⟩ := parse_emitted_multi c.caller dst toks rest (fun e => hne e.symm) (by rw [hlen]; exact hn0)
    hlt hok hlens
  refine ⟨tr, _, p, hout, by rw [hdata, parseCall_encodeCall _ _ (by decide) (by decide)], hp, hrcv, fun k => ?_⟩
  rw [htr, parsedContrib_reports]
  exact hb k

/-- non-vacuity: the multi transfer of C01's example (2 of an SFT, 5 of a fungible token, 1 more of the SFT) — the emitted
    data, parsed by the two parsers, reports exactly these three items -/
example : (match multiTransferSender C01.nvEnv C01.nvMXfer { accts := C01.nvMA0 } with
    | .ok (out, _) =>
      (match out.outAccts with
       | [oa] =>
         (match oa.transfers with
          | [tr] =>
            (match parseCall tr.data with
             | .ok (_, args) =>
               (match parseESDTTransfers C01.nvAlice C01.nvBob fnMultiESDTNFTTransfer args with
                | .ok p => p.transfers.map (fun t => (t.token, t.nonce, t.value))
                | _ => [])
             | _ => [])
          | _ => [])
       | _ => [])
    | _ => []) = [(C01.nvNFT, 1, 2), (C01.nvFT, 0, 5), (C01.nvNFT, 1, 1)] := by decide +kernel

/-- FULL for the create-role hand-over ("when it continues a built-in operation on another shard, that shard's built-in
    function of the same name accepts it"): the message a successful current-holder step emits towards another shard —
    token and the OLD counter, an EMPTY argument when nothing was created yet — delivered on the next holder's shard with
    the previous holder as caller, SUCCEEDS, whatever the destination account holds: total correctness, not "if it
    succeeds".  The only premises are that the destination's role list for the token decodes and, extended by one role,
    still fits a Go slice (both hold on every state the functions themselves wrote: C14 / the marshal guard), and that no
    dependency fault is injected. -/
theorem handover_continuation_accepted (envS envD : Env) (cS : Call) (ctxS ctxS' ctxD : Ctx) (outS : VMOutput)
    (hsys : cS.caller = esdtSCAddress)
    (hS : esdtNFTCreateRoleTransfer envS cS ctxS = .ok (outS, ctxS'))
    (tok dest : Bytes) (hargs : cS.args = [tok, dest])
    (hprev : cS.rcv ≠ esdtSCAddress)
    (hsnd : present envD.nshards envD.self cS.rcv = false) (hdst : present envD.nshards envD.self dest = true)
    (hnf : ctxD.failAt = none) (roles : List Bytes)
    (hroles : rolesOf (ctxD.accts.read dest (roleKeyPrefix ++ tok)) = some roles)
    (hlen : (encRoles (roles ++ [roleNFTCreate])).length < two63) :
    ∃ tr nb, outS.outAccts = [{ addr := dest, balance := some 0, delta := some 0, transfers := [tr] }] ∧
      parseCall tr.data = .ok (fnESDTNFTCreateRoleTransfer, [tok, nb]) ∧
      ∃ outD ctxD', esdtNFTCreateRoleTransfer envD
        { fn := fnESDTNFTCreateRoleTransfer, caller := cS.rcv, rcv := dest, args := [tok, nb] } ctxD = .ok (outD, ctxD') ∧
        outD.rc = 0 := by
  obtain ⟨tok1, dest1, _, hargs1, _, _, _, tr, hout, hdata⟩ := (handover_current_x envS cS ctxS hsys).elim hS
  rw [hargs] at hargs1
  injection hargs1 with e1 e2
  injection e2 with e2 _
  subst e1; subst e2
  refine ⟨tr, _, hout, by rw [hdata, parseCall_encodeCall _ _ (by decide) (by decide)], ?_⟩
  exact handover_delivery_accepted envD _ ctxD tok _ hnf rfl rfl hprev hsnd hdst roles hroles hlen

/-- FULL (ESDTTransfer; "… and the other shard's function of the same name accepts the continuation", with the
    property's own exceptions): a cross-shard ESDTTransfer that succeeded on the sender's shard — the user's
    transaction itself, or the message a contract's call emitted: in both cases caller, receiver and ARGUMENTS of the
    sender-side call (`emitted_data_form`, `delivery_carries_debited_amount`) — when executed on the destination's shard
    SUCCEEDS and credits exactly the debited amount, provided the destination's entry is a well-formed fungible entry
    (C15), the gate passes (entry not frozen, token not paused) and, where payability has to be verified, the oracle says
    yes.  Total correctness: not "if it succeeds".  The converse — frozen / paused / not payable DO refuse — is
    C04.gate_blocks and C09.esdtTransfer_credit_admissible; a refused delivery is refunded, and the refund never refused
    (C01.refund_never_rejected).  Any call type, any gas, with or without an attached call. -/
theorem esdtTransfer_continuation_accepted (envS envD : Env) (cS cD : Call) (ctxS ctxS' ctxD : Ctx) (outS : VMOutput)
    (hs : present envS.nshards envS.self cS.caller = true) (hd : present envS.nshards envS.self cS.rcv = false)
    (hS : esdtTransfer envS cS ctxS = .ok (outS, ctxS'))
    (hcaller : cD.caller = cS.caller) (hrcv : cD.rcv = cS.rcv) (hargs : cD.args = cS.args) (hval : cD.callValue = 0)
    (hnet : envD.nshards = envS.nshards)
    (hsndD : present envD.nshards envD.self cD.caller = false) (hdstD : present envD.nshards envD.self cD.rcv = true)
    (hnf : ctxD.failAt = none)
    (t : Token) (v : Int)
    (ht : ∀ tok, cS.args[0]? = some tok → tokenOf (ctxD.accts.read cD.rcv (esdtKeyPrefix ++ tok)) = some t ∧
      GatePasses ctxD.accts cD.rcv (esdtKeyPrefix ++ tok) t cD.rae)
    (hty : t.type = 0) (hv : t.value = some v) (hv0 : 0 ≤ v)
    (hpay : mustVerifyPayable cD 2 = true → envD.payable cD.rcv = .yes)
    (hlen : ∀ q : Int, (encToken { t with value := some q }).length < two63) :
    ∃ tok amt outD ctxD', cS.args[0]? = some tok ∧ cS.args[1]? = some amt ∧
      esdtTransfer envD cD ctxD = .ok (outD, ctxD') ∧ outD.rc = 0 ∧
      ctxD'.accts = ctxD.accts.write cD.rcv (esdtKeyPrefix ++ tok)
        (storedForm { t with value := some (v + (beNat amt : Int)) }) := by
  obtain ⟨tok, amt, _, _, h0, h1, hz, _, _⟩ := C01.esdtTransfer_sender_exact envS cS ctxS ctxS' outS hs hd hS
  have hmeta : shardOf envD.nshards cD.rcv ≠ metaShard := by
    rw [hnet, hrcv]; exact (esdtTransfer_not_to_metachain envS cS ctxS).elim hS
  obtain ⟨rest, hshape⟩ := args_cons2 h0 h1
  obtain ⟨htok, hgate⟩ := ht tok h0
  obtain ⟨outD, ctxD', hD, hrc, hw⟩ := esdtTransfer_delivery_accepted envD cD ctxD tok amt rest (by rw [hargs, hshape]) hz hval
    hsndD hdstD hmeta hnf t v htok hty hv hv0 hgate hpay (hlen _)
  exact ⟨tok, amt, outD, ctxD', h0, h1, hD, hrc, hw⟩

/-- FULL (ESDTNFTTransfer; same clause): the message a successful cross-shard sender-side ESDTNFTTransfer emitted —
    parsed back from its data with the call parser — when executed on the destination's shard SUCCEEDS and stores the
    SENDER's entry with `Value := carried + held`, provided the destination's slot under that (token, nonce) is empty or
    decodes (C15), the gates pass for what the destination holds and for the arriving entry (not frozen, not paused),
    payability is confirmed where it has to be verified, and the destination does not hold the same nonce with ANOTHER
    hash (the property's list of legitimate refusals, nothing else).  `t` is the sender's entry before the call; sizes
    within Go's limits (`TokenOK`, as for every codec round trip). -/
theorem nftTransfer_continuation_accepted (envS envD : Env) (cS cD : Call) (ctxS ctxS' ctxD : Ctx) (outS : VMOutput)
    (hself : cS.caller = cS.rcv) (hpres : present envS.nshards envS.self cS.caller = true)
    (hx : ∀ d, cS.args[3]? = some d → envS.self ≠ shardOf envS.nshards d)
    (hS : esdtNFTTransfer envS cS ctxS = .ok (outS, ctxS'))
    (hne : cD.caller ≠ cD.rcv) (hval : cD.callValue = 0)
    (hdeliver : ∀ dst tr, outS.outAccts = [{ addr := dst, transfers := [tr] }] →
      cD.rcv = dst ∧ parseCall tr.data = .ok (cD.fn, cD.args))
    (hsndD : present envD.nshards envD.self cD.caller = false) (hdstD : present envD.nshards envD.self cD.rcv = true)
    (hnf : ctxD.failAt = none)
    (hok : ∀ t q, decToken (ctxS.accts.read cS.caller
        (nftKey (esdtKeyPrefix ++ (cS.args[0]?).getD []) (u64 (beNat ((cS.args[1]?).getD []))))) = some t →
        TokenOK { t with value := some q })
    (hpay : mustVerifyPayable cD 4 = true → envD.payable cD.rcv = .yes)
    (cur : Token) (cv : Int) (hcv : cur.value = some cv)
    (hdest : ∀ tok nb qb t m, cS.args[0]? = some tok → cS.args[1]? = some nb → cS.args[2]? = some qb →
      decToken (ctxS.accts.read cS.caller (nftKey (esdtKeyPrefix ++ tok) (u64 (beNat nb)))) = some t → t.md = some m →
      tokenOf (ctxD.accts.read cD.rcv (nftKey (esdtKeyPrefix ++ tok) m.nonce)) = some cur ∧
      (∀ cm, cur.md = some cm → cm.hash = m.hash) ∧
      GatePasses ctxD.accts cD.rcv (esdtKeyPrefix ++ tok) cur cD.rae ∧
      GatePasses ctxD.accts cD.rcv (esdtKeyPrefix ++ tok) t cD.rae ∧
      GatePasses ctxD.accts cD.rcv (nftKey (esdtKeyPrefix ++ tok) m.nonce) t cD.rae ∧
      0 < (beNat qb : Int) + cv ∧
      (encToken { t with value := some ((beNat qb : Int) + cv) }).length < two63) :
    ∃ tok nb qb t m outD ctxD', cS.args[0]? = some tok ∧ cS.args[1]? = some nb ∧ cS.args[2]? = some qb ∧
      decToken (ctxS.accts.read cS.caller (nftKey (esdtKeyPrefix ++ tok) (u64 (beNat nb)))) = some t ∧ t.md = some m ∧
      esdtNFTTransfer envD cD ctxD = .ok (outD, ctxD') ∧ outD.rc = 0 ∧
      ctxD'.accts = ctxD.accts.write cD.rcv (nftKey (esdtKeyPrefix ++ tok) m.nonce)
        (encToken { t with value := some ((beNat qb : Int) + cv) }) := by
  have hS' : esdtNFTTransferSender envS cS ctxS = .ok (outS, ctxS') :=
    (nftTransfer_sender_path envS cS ctxS hself).elim hS
  obtain ⟨tok, nb, qb, dst, t, v, h0, h1, h2, h3, _, _, hw, tr, hout, hdata⟩ :=
    (nftTransferSender_crossShard_effect envS cS ctxS hpres hx).elim hS'
  obtain ⟨hrcv, hparse⟩ := hdeliver dst tr hout
  rw [hdata, parseCall_encodeCall _ _ (by decide) (by decide)] at hparse
  injection hparse with hparse
  have hargs : cD.args = cS.args.take 3 ++ [encToken { t with value := some (beNat qb : Int) }] ++
      (if cS.args.length > 4 then cS.args.drop 4 else []) := (Prod.mk.inj hparse).2.symm
  -- the sender's entry carries metadata (the sender-side lookup refuses an entry without, nonce > 0)
  obtain ⟨rest3, hshape⟩ : ∃ rest, cS.args = tok :: nb :: qb :: rest := args_cons3' h0 h1 h2
  have hargs' : cD.args = tok :: nb :: qb :: encToken { t with value := some (beNat qb : Int) } ::
      (if cS.args.length > 4 then cS.args.drop 4 else []) := by
    rw [hargs, hshape]; rfl
  have htok : TokenOK { t with value := some (beNat qb : Int) } := by
    apply hok; rw [h0, h1]; exact hw.old
  have hdec := C08.wire_roundtrip t (beNat qb : Int) htok
  obtain ⟨m, hm⟩ : ∃ m, t.md = some m := Option.isSome_iff_exists.mp hw.hasMeta
  obtain ⟨hcur, hhash, hg1, hg2, hg3, hpos, hlen⟩ := hdest tok nb qb t m h0 h1 h2 hw.old hm
  obtain ⟨outD, ctxD', hD, hrc, hwr⟩ := esdtNFTTransfer_delivery_accepted envD cD ctxD tok nb qb _ _ hargs' hval hne hsndD hdstD
    hnf { t with value := some (beNat qb : Int) } cur m (beNat qb : Int) cv hdec hm hpay hcur hhash hg1 hg2 hg3 rfl hcv hpos hlen
  exact ⟨tok, nb, qb, t, m, outD, ctxD', h0, h1, h2, hw.old, hm, hD, hrc, hwr⟩

/-- non-vacuity of the destination-side premises: on a destination that holds nothing and a shard where nothing is
    paused the gate passes and the slot reads as the empty fungible entry -/
example (a k : Bytes) : GatePasses [] a k fungibleDefault false ∧ tokenOf (Accts.read [] a k) = some fungibleDefault :=
  ⟨Or.inr (Or.inr ⟨rfl, rfl⟩), rfl⟩

/-- FULL (MultiESDTNFTTransfer; same clause): the destination half of a multi transfer — the delivered message: count,
    three arguments per item, optionally an attached call — SUCCEEDS and leaves exactly the storage the items state,
    whenever the count fits the argument list and EVERY item is accepted at the state it meets (`DestItemsOK`,
    Proofs/Accept3.lean — per item exactly the property's list: an NFT / SFT item's payload decodes to an entry with
    metadata, the destination's slot is empty or decodes, the gates pass for what is held and for what arrives, no OTHER
    hash is held, the merged quantity is positive and fits; a fungible item meets a well-formed fungible entry whose gate
    passes; payability confirmed wherever it has to be verified — threshold: the bare message's own argument count).
    Repeated and mixed items included; any call type. Total correctness. That the message a successful sender-side call
    emitted HAS this form (count :: payload ++ attached call, every NFT payload the sender's entry with the transferred
    quantity) is `parser_matches_multi_message` / C01.multi_conservation_history. -/
theorem multi_delivery_accepted (env : Env) (c : Call) (ctx : Ctx) (cnt : Bytes)
    (h0 : c.args[0]? = some cnt) (hval : c.callValue = 0) (hne : c.caller ≠ c.rcv)
    (hsnd : present env.nshards env.self c.caller = false) (hdst : present env.nshards env.self c.rcv = true)
    (hnf : ctx.failAt = none)
    (n : Nat) (hn : n = u64 (beNat cnt)) (hn0 : n ≠ 0) (hfit : 3 * n + 1 ≤ c.args.length) (hphys : c.args.length < two64)
    (A' : Accts) (hitems : DestItemsOK env c (mustVerifyPayable c (3 * n + 1)) n 1 ctx.accts A') :
    ∃ out ctx', multiTransfer env c ctx = .ok (out, ctx') ∧ out.rc = 0 ∧ ctx'.accts = A' :=
  multiTransfer_delivery_accepted env c ctx cnt h0 hval hne hsnd hdst hnf n hn hn0 hfit hphys A' hitems

/-- non-vacuity: one fungible item arriving at a destination that holds nothing, nothing paused, no payability question
    (a callback): the item is accepted -/
example (env : Env) (c : Call) (tok : Bytes) (hrcv : c.rcv ≠ esdtSCAddress) :
    DestItemOK env c false tok [] [5] [] (Accts.write [] c.rcv (esdtKeyPrefix ++ tok)
      (storedForm { fungibleDefault with value := some ((0 : Int) + (beNat [5] : Int)) })) :=
  DestItemOK.fungible fungibleDefault 0 (by decide) (fun h => by cases h) rfl rfl rfl (by decide)
    (Or.inr (Or.inr ⟨rfl, rfl⟩)) (by decide +kernel)

end C10
