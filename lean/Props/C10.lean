/-
  Props/C10.lean — C10: cross-shard messages and the transfer parser agree with the ledger.
-/
import Proofs.Emit
import Proofs.Parsers
import Facts.Generated
namespace C10
open Esdt

/-- FULL (part 1a): every data string a built-in function emits in an output transfer is empty or the one
    encoder's output `fn@hex(arg)@…` for a protocol function name or the attached name given in the arguments -/
theorem emitted_data_form (f : FnId) (env : Env) (c : Call) (ctx ctx' : Ctx) (out : VMOutput)
    (h : exec env f c ctx = .ok (out, ctx')) : EmittedOK c out := by
  unfold exec at h
  cases f <;> simp only [runFn] at h
  · exact (emit_claimDeveloperRewards env c ctx).elim h
  · exact EmittedOK.of_noOutput _ _ ((noout_changeOwnerAddress env c ctx).elim h)
  · exact (emit_setUserName env c ctx).elim h
  · exact EmittedOK.of_noOutput _ _ ((noout_saveKeyValue env c ctx).elim h)
  · exact EmittedOK.of_noOutput _ _ ((noout_esdtPause true env c ctx).elim h)
  · exact EmittedOK.of_noOutput _ _ ((noout_esdtPause false env c ctx).elim h)
  · exact (emit_esdtTransfer env c ctx).elim h
  · exact (emit_esdtBurn env c ctx).elim h
  · exact EmittedOK.of_noOutput _ _ ((noout_esdtFreezeWipe .freeze env c ctx).elim h)
  · exact EmittedOK.of_noOutput _ _ ((noout_esdtFreezeWipe .unfreeze env c ctx).elim h)
  · exact EmittedOK.of_noOutput _ _ ((noout_esdtFreezeWipe .wipe env c ctx).elim h)
  · exact EmittedOK.of_noOutput _ _ ((noout_esdtRoles false env c ctx).elim h)
  · exact EmittedOK.of_noOutput _ _ ((noout_esdtRoles true env c ctx).elim h)
  · exact EmittedOK.of_noOutput _ _ ((noout_esdtLocalBurn env c ctx).elim h)
  · exact EmittedOK.of_noOutput _ _ ((noout_esdtLocalMint env c ctx).elim h)
  · exact EmittedOK.of_noOutput _ _ ((noout_esdtNFTAddQuantity env c ctx).elim h)
  · exact EmittedOK.of_noOutput _ _ ((noout_esdtNFTBurn env c ctx).elim h)
  · exact EmittedOK.of_noOutput _ _ ((noout_esdtNFTCreate env c ctx).elim h)
  · exact (emit_esdtNFTTransfer env c ctx).elim h
  · exact (emit_esdtNFTCreateRoleTransfer env c ctx).elim h
  · exact EmittedOK.of_noOutput _ _ ((noout_esdtNFTUpdateAttributes env c ctx).elim h)
  · exact EmittedOK.of_noOutput _ _ ((noout_esdtNFTAddURI env c ctx).elim h)
  · exact (emit_multiTransfer env c ctx).elim h

/-- names the call-arguments parser can give back: non-empty, without the separator (C12's domain) -/
def GoodName (fn : Bytes) : Prop := fn ≠ [] ∧ at' ∉ fn

/-- the protocol's own names are good names (spec literals, checked against the regenerated constants) -/
theorem protocol_names_good : ∀ n ∈ protoNames, GoodName n := by
  intro n hn
  simp only [protoNames, List.mem_cons, List.mem_singleton, List.not_mem_nil, or_false] at hn
  rcases hn with rfl | rfl | rfl | rfl | rfl | rfl <;> exact ⟨by decide, by decide⟩
theorem protocol_names_as_in_code :
    protoNames = [Facts.fnESDTTransfer, Facts.fnESDTBurn, Facts.fnESDTNFTTransfer, Facts.fnMultiESDTNFTTransfer,
                  Facts.fnESDTNFTCreateRoleTransfer, Facts.fnSetUserName] := by decide

/-- FULL (part 1b): every non-empty emitted data string parses with the call-arguments parser into exactly the
    function name and the arguments that were encoded (attached names: under C12's carve-out `GoodName`) -/
theorem emitted_parses (f : FnId) (env : Env) (c : Call) (ctx ctx' : Ctx) (out : VMOutput)
    (h : exec env f c ctx = .ok (out, ctx'))
    (oa : OutAcct) (hoa : oa ∈ out.outAccts) (tr : OutTransfer) (htr : tr ∈ oa.transfers) (hne : tr.data ≠ []) :
    ∃ fn args, tr.data = encodeCall fn args ∧ (GoodName fn → parseCall tr.data = .ok (fn, args)) ∧
      (fn ∈ protoNames ∨ fn ∈ c.args) := by
  rcases emitted_data_form f env c ctx ctx' out h oa hoa tr htr with he | ⟨fn, args, he, hfn⟩
  · exact absurd he hne
  · exact ⟨fn, args, he, fun hg => he ▸ parseCall_encodeCall fn args hg.1 hg.2, hfn⟩

/-- protocol continuations always parse -/
theorem continuation_parses (fn : Bytes) (args : List Bytes) (h : fn ∈ protoNames) :
    parseCall (encodeCall fn args) = .ok (fn, args) :=
  parseCall_encodeCall fn args (protocol_names_good fn h).1 (protocol_names_good fn h).2

/-- argument index conventions shared by parser and functions (regenerated from both packages) -/
theorem index_conventions :
    Facts.parserMinArgsESDTTransfer = Facts.minLenArgumentsESDTTransfer ∧
    Facts.parserMinArgsESDTNFTTransfer = Facts.minLenArgumentsESDTNFTTransfer ∧
    Facts.parserMinArgsMulti = 4 ∧ Facts.parserArgsPerTransfer = 3 ∧
    Facts.minLenArgumentsESDTTransfer = 2 ∧ Facts.minLenArgumentsESDTNFTTransfer = 4 := by decide

/-- the parser's report for a single fungible transfer: receiver, token = args[0], value = args[1] (big-endian),
    attached call = args[2] with arguments args[3:] — exactly the positions `esdtTransfer` reads -/
theorem parser_single_positions (snd rcv tok val : Bytes) (rest : List Bytes) :
    parseESDTTransfers snd rcv (ascii "ESDTTransfer") (tok :: val :: rest) =
      .ok { transfers := [{ value := beNat val, token := tok, type := 0, nonce := 0 }], rcv := rcv,
            callFn := rest.headD [], callArgs := rest.drop 1 } := by
  cases rest <;> simp [parseESDTTransfers, pArg, bind, PRes.bind, pure]

/-- sender-form NFT transfer: the receiver reported is the destination argument -/
theorem parser_nft_sender_positions (snd tok nonce qty dst : Bytes) (rest : List Bytes) :
    parseESDTTransfers snd snd (ascii "ESDTNFTTransfer") (tok :: nonce :: qty :: dst :: rest) =
      .ok { transfers := [{ value := beNat qty, token := tok, type := 1, nonce := u64 (beNat nonce) }], rcv := dst,
            callFn := rest.headD [], callArgs := rest.drop 1 } := by
  cases rest <;> simp [parseESDTTransfers, pArg, bind, PRes.bind, pure, ascii]

-- FULL (remaining part, stated): "the parser's report equals exactly what the function debits on the sender side and
-- credits on the destination side" for all three functions incl. destination-form payloads and multi-transfers, and
-- "the destination shard's function of the same name accepts the continuation".  Decided today by the C10 oracle
-- (real parser run on every accepted transfer call and compared with the ledger diff; every emitted message delivered)
-- and the correspondence check; the positional theorems above and `emitted_parses` are the proved part (`_partial`).

end C10
