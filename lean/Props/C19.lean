/-
  Props/C19.lean — C19: the container, the atomics and gas reconfiguration are safe under concurrency (PARTIAL: a data
  race is an event of the Go memory model that no Lean model exhibits; races are searched with `-race` stress and
  recorded histories are checked for linearizability by harness/cmd/conc — see DESIGN §8 C19).
  Proved here: (1) an abstract readers-writer lock: mutual exclusion, and "the protected data only changes while exactly
  one thread is inside a write section and nobody is inside a read section" — so every critical section is atomic with
  respect to the data, for any number of threads and any interleaving; (2) the lock discipline `D` that makes (1)
  applicable — every access of a guarded field under the lock, writes under the write lock, every method ONE critical
  section (no check-then-act across two sections, no schedule read in two sections) — decided by the kernel on the lock
  facts regenerated from the source of every mutex-protected type on every run.
-/
import Facts.Generated
import Proofs.Linearizable
namespace C19

/-! ### (1) the readers-writer lock as a transition system (counter abstraction: thread identities do not matter) -/

inductive Lock
  | free
  | readers (n : Nat)     -- n ≥ 1 threads hold the read lock
  | writer
deriving DecidableEq, Repr

/-- `r` / `w`: number of threads inside a read / write critical section; `data`: the protected state -/
structure St (σ : Type) where
  lock : Lock
  r : Nat
  w : Nat
  data : σ

inductive Step {σ : Type} : St σ → St σ → Prop
  | acqR_free (s : St σ) : s.lock = .free → Step s { s with lock := .readers 1, r := s.r + 1 }
  | acqR_more (s : St σ) (n : Nat) : s.lock = .readers n → Step s { s with lock := .readers (n + 1), r := s.r + 1 }
  | acqW (s : St σ) : s.lock = .free → Step s { s with lock := .writer, w := s.w + 1 }
  | relR_last (s : St σ) : s.lock = .readers 1 → Step s { s with lock := .free, r := s.r - 1 }
  | relR_more (s : St σ) (n : Nat) : s.lock = .readers (n + 2) → Step s { s with lock := .readers (n + 1), r := s.r - 1 }
  | relW (s : St σ) : s.lock = .writer → Step s { s with lock := .free, w := s.w - 1 }
  /-- a thread inside a WRITE section mutates the data (what discipline `D` guarantees about writes) -/
  | write (s : St σ) (f : σ → σ) : 1 ≤ s.w → Step s { s with data := f s.data }
  /-- a thread inside a read or write section reads -/
  | read (s : St σ) : 1 ≤ s.r ∨ 1 ≤ s.w → Step s s

inductive Reach {σ : Type} (d0 : σ) : St σ → Prop
  | init : Reach d0 { lock := .free, r := 0, w := 0, data := d0 }
  | step {s s' : St σ} : Reach d0 s → Step s s' → Reach d0 s'

def Inv {σ : Type} (s : St σ) : Prop :=
  match s.lock with
  | .free => s.r = 0 ∧ s.w = 0
  | .readers n => 1 ≤ n ∧ s.r = n ∧ s.w = 0
  | .writer => s.r = 0 ∧ s.w = 1

theorem inv_step {σ : Type} (s s' : St σ) (h : Inv s) (st : Step s s') : Inv s' := by
  cases st with
  | acqR_free hl => simp only [Inv, hl] at h ⊢; omega
  | acqR_more n hl => simp only [Inv, hl] at h ⊢; omega
  | acqW hl => simp only [Inv, hl] at h ⊢; omega
  | relR_last hl => simp only [Inv, hl] at h ⊢; omega
  | relR_more n hl => simp only [Inv, hl] at h ⊢; omega
  | relW hl => simp only [Inv, hl] at h ⊢; omega
  | write f hw => exact h
  | read hr => exact h

theorem inv_reach {σ : Type} (d0 : σ) (s : St σ) (h : Reach d0 s) : Inv s := by
  induction h with
  | init => simp [Inv]
  | step _ st ih => exact inv_step _ _ ih st

/-- mutual exclusion, for every reachable state of every execution with any number of threads:
    at most one writer, and a writer excludes every reader -/
theorem mutual_exclusion {σ : Type} (d0 : σ) (s : St σ) (h : Reach d0 s) : s.w ≤ 1 ∧ (s.w = 1 → s.r = 0) := by
  have hi := inv_reach d0 s h
  unfold Inv at hi
  cases hl : s.lock <;> simp only [hl] at hi <;> omega

/-- data-race freedom at the model level: whenever the data changes, exactly one thread is inside a write section
    and no thread is inside a read section -/
theorem writes_are_exclusive {σ : Type} (d0 : σ) (s s' : St σ) (h : Reach d0 s) (st : Step s s')
    (hchg : s'.data ≠ s.data) : s.w = 1 ∧ s.r = 0 := by
  have hm := mutual_exclusion d0 s h
  cases st with
  | write f hw => constructor <;> omega
  | acqR_free _ => exact absurd rfl hchg
  | acqR_more _ _ => exact absurd rfl hchg
  | acqW _ => exact absurd rfl hchg
  | relR_last _ => exact absurd rfl hchg
  | relR_more _ _ => exact absurd rfl hchg
  | relW _ => exact absurd rfl hchg
  | read _ => exact absurd rfl hchg

/-- a read section sees ONE value of the data (so a function execution reads its cost and the base costs from one
    schedule, and Get/Len/Keys observe one map state): while some thread is inside a read section no step changes the data -/
theorem data_stable_while_reading {σ : Type} (d0 : σ) (s s' : St σ) (h : Reach d0 s) (st : Step s s') (hr : 1 ≤ s.r) :
    s'.data = s.data := by
  by_cases hc : s'.data = s.data
  · exact hc
  · have := writes_are_exclusive d0 s s' h st hc; omega

/-- a write section is atomic: while a writer is inside, nobody else is, so its effect can be placed at any point of
    the section (the linearization point) -/
theorem writer_is_alone {σ : Type} (d0 : σ) (s : St σ) (h : Reach d0 s) (hw : 1 ≤ s.w) : s.w = 1 ∧ s.r = 0 := by
  have := mutual_exclusion d0 s h; omega

/-! ### (1b) explicit threads: one critical section per operation ⟹ linearizable (Proofs/Linearizable.lean) -/

/-- LINEARIZABILITY (any object whose every operation is ONE critical section of a readers-writer lock — the shape
    `discipline_holds` establishes below for `MutexMap` and the priced function objects; any number of threads, any
    interleaving, every reachable state): the accesses in the order they happened are a legal sequential history of the
    specification that yields the current state and exactly the returned outputs; every thread's events read call ·
    access · return in this order, so each access lies between its operation's call and its return (the sequential
    history respects real-time order); and a thread inside a write section is alone inside any section. -/
theorem one_section_objects_linearizable {σ ι ο : Type} (S : Lin.Spec σ ι ο) (d0 : σ) (s : Lin.St σ ι ο)
    (h : Lin.Reach S d0 s) :
    Lin.Legal S d0 (Lin.lins s.evs) s.data ∧ (∀ t, Lin.parse t s.evs .idle = some (s.pcs t).view) ∧ Lin.Excl S s :=
  Lin.linearizable S d0 s h

/-- … for the map beneath the container: Get / Len / Keys (read lock), Insert as test-and-set, Set, Remove (write lock) -/
theorem mutexMap_linearizable {κ ν : Type} [DecidableEq κ] (s : Lin.St (List (κ × ν)) (Lin.MapOp κ ν) (Lin.MapOut κ ν))
    (h : Lin.Reach Lin.mapSpec [] s) : Lin.Legal Lin.mapSpec [] (Lin.lins s.evs) s.data :=
  (Lin.linearizable Lin.mapSpec [] s h).1

/-- … for a priced function object: whatever schedule an execution reads (its own cost AND the base costs, inside one
    read section) is ONE schedule — the initial one or one that some `SetNewGasConfig` installed — never a mixture of two -/
theorem one_schedule {γ : Type} (g0 : γ) (s : Lin.St γ (Lin.CfgOp γ) γ) (h : Lin.Reach (Lin.cfgSpec γ) g0 s) :
    ∀ p ∈ Lin.lins s.evs, p.2 = g0 ∨ ∃ q ∈ Lin.lins s.evs, q.1 = .install p.2 :=
  Lin.legal_cfg_outputs g0 s.data _ (Lin.linearizable (Lin.cfgSpec γ) g0 s h).1

/-- the data of a `MutexMap` / a function object's schedule changes ONLY at the access of an operation that holds the
    WRITE lock (read operations are pure in both specifications) — with `one_section_objects_linearizable` (3): at that
    moment no other thread is inside any section -/
theorem data_changes_only_under_write_lock {κ ν : Type} [DecidableEq κ]
    (s s' : Lin.St (List (κ × ν)) (Lin.MapOp κ ν) (Lin.MapOut κ ν)) (st : Lin.Step Lin.mapSpec s s')
    (hchg : s'.data ≠ s.data) : ∃ t op, s.pcs t = .locked op ∧ Lin.mapSpec.isWrite op = true :=
  Lin.reader_access_keeps_data Lin.mapSpec Lin.mapSpec_reads_pure s s' st hchg

/-- the sequential specification of `Insert` is test-and-set: a second insert of a key is refused and changes nothing
    (kernel-evaluated; the non-atomic variant is what seeded change C19-1 / C19-f13 introduce) -/
example : ((Lin.mapSpec (κ := Nat) (ν := Nat)).apply ((Lin.mapSpec.apply [] (.insert 1 10)).1) (.insert 1 20)).1 = [(1, 10)] := by
  decide

/-! ### (2) the lock discipline `D`, decided on regenerated facts -/

open Facts

inductive Held | none | rd | wr
deriving DecidableEq

structure Scan where
  held : Held := .none
  deferred : Bool := false
  sections : Nat := 0          -- lock acquisitions so far
  unlocked : Bool := false     -- touched a guarded field (or called a method that does) without holding the lock
  wroteUnderRead : Bool := false
  bad : Bool := false          -- unbalanced / unrecognised shape
  touches : Bool := false      -- touches guarded data at all (directly or through callees)

/-- callee summary: (touches guarded data without holding a lock itself, writes guarded data, acquires a lock) -/
structure Summary where
  needsLock : Bool
  writes : Bool
  locks : Bool
  touches : Bool

def scanEv (guarded : List Nat) (callee : Nat → Summary) (s : Scan) : Ev → Scan
  | .lock => if s.held == .none then { s with held := .wr, sections := s.sections + 1 } else { s with bad := true }
  | .rlock => if s.held == .none then { s with held := .rd, sections := s.sections + 1 } else { s with bad := true }
  | .unlock => if s.held == .wr && !s.deferred then { s with held := .none } else { s with bad := true }
  | .runlock => if s.held == .rd && !s.deferred then { s with held := .none } else { s with bad := true }
  | .deferUnlock => if s.held == .wr then { s with deferred := true } else { s with bad := true }
  | .deferRUnlock => if s.held == .rd then { s with deferred := true } else { s with bad := true }
  | .r f => if guarded.contains f then
      { s with touches := true, unlocked := s.unlocked || s.held == .none } else s
  | .w f => if guarded.contains f then
      { s with touches := true, unlocked := s.unlocked || s.held == .none, wroteUnderRead := s.wroteUnderRead || s.held == .rd } else s
  | .call m =>
      let c := callee m
      if c.needsLock then
        { s with touches := true, unlocked := s.unlocked || s.held == .none,
                 wroteUnderRead := s.wroteUnderRead || (c.writes && s.held == .rd),
                 -- a callee that locks by itself while we hold the lock would nest sections
                 bad := s.bad || (c.locks && s.held != .none) }
      else if c.locks then
        -- callee has its own critical section(s): counts as a separate section of this method
        { s with sections := s.sections + 1, touches := s.touches || c.touches, bad := s.bad || s.held != .none }
      else s
  | .ret => if s.held != .none && !s.deferred then { s with bad := true } else s
  | .unknown => { s with bad := true }

def scanMethod (guarded : List Nat) (callee : Nat → Summary) (m : Method) : Scan :=
  let s := m.events.foldl (scanEv guarded callee) {}
  if s.held != .none && !s.deferred then { s with bad := true } else s

def summarize (guarded : List Nat) (callee : Nat → Summary) (m : Method) : Summary :=
  let s := scanMethod guarded callee m
  { needsLock := s.unlocked, writes := m.events.any (fun e => match e with | .w f => guarded.contains f | _ => false),
    locks := s.sections > 0, touches := s.touches }

/-- summaries of all methods of a type, iterated to a fixed point over the intra-type call graph -/
def summaries (t : LockType) : Nat → (Nat → Summary)
  | 0 => fun _ => { needsLock := false, writes := false, locks := false, touches := false }
  | fuel + 1 => fun i =>
      match t.methods[i]? with
      | some m => summarize t.guarded (summaries t fuel) m
      | none => { needsLock := false, writes := false, locks := false, touches := false }

/-- `D` for one method: balanced locks, no write under the read lock, and — for exported (entry) methods, which anyone
    may call without holding anything — every access of guarded data under the lock and ALL of them in ONE critical section -/
def methodOK (t : LockType) (m : Method) : Bool :=
  let s := scanMethod t.guarded (summaries t 4) m   -- intra-type call depth in this code base is ≤ 3
  !s.bad && !s.wroteUnderRead && (!m.entry || (!s.unlocked && (!s.touches || s.sections ≤ 1)))

def typeOK (t : LockType) : Bool := t.methods.all (methodOK t) && !t.guarded.isEmpty

def disciplineOK (ts : List LockType) : Bool := ts.all typeOK

/-- the discipline holds for every mutex-protected type of the current tree (the map, and each priced function object
    with its `SetNewGasConfig` / `ProcessBuiltinFunction` pair and helpers) -/
theorem discipline_holds : disciplineOK Facts.lockTypes = true := by decide +kernel

/-- which types are covered: the map beneath the container and the 15 function objects that copy schedule entries -/
theorem covered_types : Facts.lockTypes.map (·.name) =
    ["MutexMap", "changeOwnerAddress", "claimDeveloperRewards", "esdtBurn", "esdtLocalBurn", "esdtLocalMint",
     "esdtNFTAddQuantity", "esdtNFTAddUri", "esdtNFTBurn", "esdtNFTCreate", "esdtNFTMultiTransfer", "esdtNFTTransfer",
     "esdtNFTupdate", "esdtTransfer", "saveKeyValueStorage", "saveUserName"] := by decide

/-- executions of one function object overlap under its READ lock, and each builds its storage keys by appending the
    token identifier to the object's key-prefix slice: that is free of shared writes exactly when no prefix slice has spare
    capacity (`C13.append_full_writes_nothing_shared` is the slice-level statement). Regenerated on every run from the real
    function objects through the `verif` hook (per-object and package-level prefixes, len and cap). -/
theorem no_shared_key_buffer : Facts.prefixesWithSpareCapacity = [] := by decide

/-! sensitivity of `D` (these are the shapes the discipline must reject) -/

/-- check-then-act in two sections (non-atomic insert) is rejected -/
example : methodOK { name := "M", guarded := [0], methods := [] }
    { name := "Insert", entry := true, events := [.rlock, .r 0, .runlock, .lock, .w 0, .unlock, .ret] } = false := by decide
/-- a guarded read outside the lock is rejected -/
example : methodOK { name := "F", guarded := [0], methods := [] }
    { name := "Process", entry := true, events := [.r 0, .rlock, .deferRUnlock, .ret] } = false := by decide
/-- reading the schedule through two separately locked getters (two sections in one execution) is rejected -/
example : typeOK { name := "F", guarded := [0, 1], methods := [
    { name := "Process", entry := true, events := [.call 1, .call 2, .ret] },
    { name := "getCost", entry := false, events := [.rlock, .r 0, .runlock, .ret] },
    { name := "getBase", entry := false, events := [.rlock, .r 1, .runlock, .ret] }] } = false := by decide
/-- a setter without the lock is rejected -/
example : methodOK { name := "F", guarded := [0], methods := [] }
    { name := "SetNewGasConfig", entry := true, events := [.ret, .w 0] } = false := by decide

end C19
