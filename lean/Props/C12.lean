/-
  Props/C12.lean — C12: transaction-data parsers are total and inverse to the builders.
  Spec-side constants are literals here; the model's definitions are in Model/Parsers.lean.
-/
import Proofs.Parsers
namespace C12
open Esdt

/-- the separator and the alphabet of the builder, as documented: '@' (0x40), lower-case hex -/
def sep : UInt8 := 0x40

/-- FULL (part 1): every parser returns a result or an error for every input and never panics. -/
theorem call_parser_total (data : Bytes) : parseCall data ≠ .panic := parseCall_no_panic data
theorem deploy_parser_total (data : Bytes) : parseDeploy data ≠ .panic := parseDeploy_no_panic data
theorem storage_parser_total (data : Bytes) : parseStorage data ≠ .panic := parseStorage_no_panic data
/-- includes all numeric arguments, in particular the 64-bit wrap-around residues of 3n+c: the count is
    compared with the argument list before any multiplication -/
theorem esdt_parser_total (snd rcv fn : Bytes) (args : List Bytes) (h : args.length < 2 ^ 63) :
    parseESDTTransfers snd rcv fn args ≠ .panic :=
  parseESDTTransfers_no_panic snd rcv fn args (by simpa [two63] using h)

/-- FULL (part 2): for every function name without '@' (and non-empty: an empty name is rejected by the
    tokenizer — covered by `empty_name_rejected`) and every argument list — empty arguments included —
    parsing the string produced by the tx-data builder yields the same function and arguments. -/
theorem parse_build (fn : Bytes) (args : List Bytes) (hne : fn ≠ []) (hat : sep ∉ fn) :
    parseCall (buildCall fn args) = .ok (fn, args) :=
  parseCall_encodeCall fn args hne hat

/-- the built-in functions' own message encoder produces the same string as the builder (in the model they
    are one function; the correspondence check compares both Go encoders with it: ops `build` / `enccall`) -/
theorem parse_encode (fn : Bytes) (args : List Bytes) (hne : fn ≠ []) (hat : sep ∉ fn) :
    parseCall (encodeCall fn args) = .ok (fn, args) :=
  parseCall_encodeCall fn args hne hat

/-- error branch of the guard: an empty function name never parses -/
theorem empty_name_rejected (args : List Bytes) : parseCall (buildCall [] args) = .err .TokenizeFailed := by
  cases args with
  | nil => simp [buildCall, encodeCall, parseCall, tokenize, splitAt]
  | cons a rest => simp [buildCall, encodeCall, parseCall, tokenize, splitAt]

/-- upper-case hex is accepted by the decoder, odd length is rejected -/
theorem hex_upper_accepted : hexDecode (ascii "AbCdEF") = some [0xab, 0xcd, 0xef] := by decide
theorem hex_odd_rejected : ∀ (n : Nat) (s : Bytes), s.length = 2 * n + 1 → hexDecode s = none := by
  intro n
  induction n with
  | zero =>
    intro s h
    match s, h with
    | [_], _ => rfl
  | succ n ih =>
    intro s h
    match s, h with
    | a :: b :: rest, h =>
      have := ih rest (by simp at h; omega)
      simp only [hexDecode, this]
      split <;> rfl

/-- deploy data survives the round trip -/
theorem deploy_roundtrip (d : DeployArgs) (hc : d.code ≠ []) (hv : d.vmType ≠ []) :
    parseDeploy (buildDeploy d) = .ok d := parseDeploy_buildDeploy d hc hv

/-- storage-update lists survive the round trip exactly on the stated domain (non-empty list, non-empty
    first offset) … -/
theorem storage_roundtrip (o d : Bytes) (rest : List (Bytes × Bytes)) (ho : o ≠ []) :
    parseStorage (buildStorage ((o, d) :: rest)) = .ok ((o, d) :: rest) := parseStorage_buildStorage o d rest ho
/-- … and the empty list is rejected rather than mis-parsed -/
theorem storage_empty_rejected : parseStorage (buildStorage []) = .err .TokenizeFailed := parseStorage_buildStorage_nil

-- non-vacuity: a concrete call, with an empty argument, meets the hypotheses and round-trips
example : parseCall (buildCall (ascii "ESDTTransfer") [ascii "TOK-123456", [], [0x0a]]) =
    .ok (ascii "ESDTTransfer", [ascii "TOK-123456", [], [0x0a]]) :=
  parse_build _ _ (by decide) (by decide)
-- the wrap-around residue (3n+2 ≡ 4 mod 2^64) is an ordinary, rejected input
example : parseESDTTransfers [1] [1] (ascii "MultiESDTNFTTransfer")
    [[2], [0x55,0x55,0x55,0x55,0x55,0x55,0x55,0x56], [], []] = .err .NotEnoughArguments := by
  simp [parseESDTTransfers, ascii, pArg, bind, PRes.bind, beNat, u64]

end C12
