/-
  Props/C18.lean — C18: activation follows confirmed epochs; registry complete and correctly bound.
-/
import Model.World
import Facts.Generated
namespace C18
open Esdt

/-- flag after a sequence of notifications (initially unset) -/
def activeAfter (activation : Nat) (epochs : List Nat) : Bool :=
  epochs.foldl (fun _ e => epochConfirmed activation e) false

/-- FULL: a function with an activation epoch reports active exactly when the most recently confirmed
    epoch is ≥ its activation epoch — for every sequence, including regressions and repeats. -/
theorem active_iff (activation : Nat) (epochs : List Nat) (last : Nat) :
    activeAfter activation (epochs ++ [last]) = decide (last ≥ activation) := by
  simp [activeAfter, epochConfirmed]

/-- before any notification the gated functions are inactive -/
theorem inactive_initially (activation : Nat) : activeAfter activation [] = false := rfl

/-- exactly three functions are gated; every other function is always active -/
theorem gated_functions :
    FnId.all.filter FnId.epochGated = [.nftUpdateAttributes, .nftAddURI, .multiTransfer] := by decide

theorem ungated_always_active (f : FnId) (env : Env) (h : f.epochGated = false) : f.isActive env = true := by
  simp [FnId.isActive, h]

theorem gated_follows_flag (f : FnId) (env : Env) (h : f.epochGated = true) : f.isActive env = env.active := by
  simp [FnId.isActive, h]

/-- the protocol's 23 built-in function names (spec literals) -/
def protocolNames : List String :=
  ["ChangeOwnerAddress", "ClaimDeveloperRewards", "ESDTBurn", "ESDTFreeze", "ESDTLocalBurn", "ESDTLocalMint",
   "ESDTNFTAddQuantity", "ESDTNFTAddURI", "ESDTNFTBurn", "ESDTNFTCreate", "ESDTNFTCreateRoleTransfer",
   "ESDTNFTTransfer", "ESDTNFTUpdateAttributes", "ESDTPause", "ESDTSetRole", "ESDTTransfer", "ESDTUnFreeze",
   "ESDTUnPause", "ESDTUnSetRole", "ESDTWipe", "MultiESDTNFTTransfer", "SaveKeyValue", "SetUserName"]

theorem protocol_names_count : protocolNames.length = 23 ∧ protocolNames.Nodup := by decide

/-- the container built by the REAL factory (regenerated fact: sorted key set of `container.Keys()`)
    contains exactly the 23 protocol names -/
theorem registry_complete : Facts.registry = protocolNames.map ascii := by decide

/-- the model dispatches exactly these names, each to one function, and a name determines the function -/
theorem model_registry : (FnId.all.map fun f => f.name) = [
    ascii "ClaimDeveloperRewards", ascii "ChangeOwnerAddress", ascii "SetUserName", ascii "SaveKeyValue",
    ascii "ESDTPause", ascii "ESDTUnPause", ascii "ESDTTransfer", ascii "ESDTBurn", ascii "ESDTFreeze",
    ascii "ESDTUnFreeze", ascii "ESDTWipe", ascii "ESDTUnSetRole", ascii "ESDTSetRole", ascii "ESDTLocalBurn",
    ascii "ESDTLocalMint", ascii "ESDTNFTAddQuantity", ascii "ESDTNFTBurn", ascii "ESDTNFTCreate",
    ascii "ESDTNFTTransfer", ascii "ESDTNFTCreateRoleTransfer", ascii "ESDTNFTUpdateAttributes", ascii "ESDTNFTAddURI",
    ascii "MultiESDTNFTTransfer"] := by decide

theorem model_names_distinct : (FnId.all.map fun f => f.name).Nodup := by decide

theorem model_covers_registry : ∀ n ∈ Facts.registry, (FnId.ofName n).isSome = true := by decide

/-- each name is bound to an object of the type that implements it (regenerated: dynamic type per key);
    behaviour of each binding is tied by the correspondence check, which dispatches every call through
    `container.Get(name)` -/
theorem registry_binding : Facts.registryBinding = [
    "ChangeOwnerAddress=*builtInFunctions.changeOwnerAddress", "ClaimDeveloperRewards=*builtInFunctions.claimDeveloperRewards",
    "ESDTBurn=*builtInFunctions.esdtBurn", "ESDTFreeze=*builtInFunctions.esdtFreezeWipe", "ESDTLocalBurn=*builtInFunctions.esdtLocalBurn",
    "ESDTLocalMint=*builtInFunctions.esdtLocalMint", "ESDTNFTAddQuantity=*builtInFunctions.esdtNFTAddQuantity",
    "ESDTNFTAddURI=*builtInFunctions.esdtNFTAddUri", "ESDTNFTBurn=*builtInFunctions.esdtNFTBurn", "ESDTNFTCreate=*builtInFunctions.esdtNFTCreate",
    "ESDTNFTCreateRoleTransfer=*builtInFunctions.esdtNFTCreateRoleTransfer", "ESDTNFTTransfer=*builtInFunctions.esdtNFTTransfer",
    "ESDTNFTUpdateAttributes=*builtInFunctions.esdtNFTupdate", "ESDTPause=*builtInFunctions.esdtPause", "ESDTSetRole=*builtInFunctions.esdtRoles",
    "ESDTTransfer=*builtInFunctions.esdtTransfer", "ESDTUnFreeze=*builtInFunctions.esdtFreezeWipe", "ESDTUnPause=*builtInFunctions.esdtPause",
    "ESDTUnSetRole=*builtInFunctions.esdtRoles", "ESDTWipe=*builtInFunctions.esdtFreezeWipe",
    "MultiESDTNFTTransfer=*builtInFunctions.esdtNFTMultiTransfer", "SaveKeyValue=*builtInFunctions.saveKeyValueStorage",
    "SetUserName=*builtInFunctions.saveUserName"] := by decide

-- non-vacuity / regression and repeat sequences
example : activeAfter 2 [5, 1] = false ∧ activeAfter 2 [1, 5, 5] = true ∧ activeAfter 0 [0] = true ∧
    activeAfter 4294967295 [4294967294, 4294967295] = true := by decide

/-- FULL (binding of the price, regenerated from the factory's source by go/ast on every run): each constructor call in
    the factory passes the `BuiltInCost` entry of the function's own name -/
theorem factory_price_binding : Facts.factoryGasField =
    [("NewClaimDeveloperRewardsFunc", "ClaimDeveloperRewards"),
     ("NewChangeOwnerAddressFunc", "ChangeOwnerAddress"),
     ("NewSaveUserNameFunc", "SaveUserName"),
     ("NewSaveKeyValueStorageFunc", "SaveKeyValue"),
     ("NewESDTTransferFunc", "ESDTTransfer"),
     ("NewESDTBurnFunc", "ESDTBurn"),
     ("NewESDTLocalBurnFunc", "ESDTLocalBurn"),
     ("NewESDTLocalMintFunc", "ESDTLocalMint"),
     ("NewESDTNFTAddQuantityFunc", "ESDTNFTAddQuantity"),
     ("NewESDTNFTBurnFunc", "ESDTNFTBurn"),
     ("NewESDTNFTCreateFunc", "ESDTNFTCreate"),
     ("NewESDTNFTTransferFunc", "ESDTNFTTransfer"),
     ("NewESDTNFTUpdateAttributesFunc", "ESDTNFTUpdateAttributes"),
     ("NewESDTNFTAddUriFunc", "ESDTNFTAddURI"),
     ("NewESDTNFTMultiTransferFunc", "ESDTNFTMultiTransfer")] := by decide

end C18
