/-
  Props/C13.lean — C13: execution is deterministic and does not modify its input  (PARTIAL: the runtime part —
  map iteration order, goroutines, aliasing of the caller's slices — is decided by run-vs-run comparison on the
  implementation, profile `determinism`; see DESIGN §8 C13).
  Proved here: (1) in the model a call's result is a function of (own configuration of the function object, flag,
  call, pre-state) — no other part of the schedule, no history; (2) a model of Go slices in which `append` on a
  slice without spare capacity writes nothing that is reachable from it, instantiated with the regenerated fact
  that no key prefix of any function object has spare capacity.
-/
import Model.World
import Facts.Generated
namespace C13
open Esdt

/-! ### (1) dependence only on the function's own configuration -/

/-- the part of the schedule a function object copies (`SetNewGasConfig`): its own entry and, for the functions
    with per-byte components, the base costs; everything else is zeroed -/
def ownGas (f : FnId) (g : GasCost) : GasCost :=
  match f with
  | .changeOwnerAddress => { fn := { changeOwnerAddress := g.fn.changeOwnerAddress } }
  | .claimDeveloperRewards => { fn := { claimDeveloperRewards := g.fn.claimDeveloperRewards } }
  | .setUserName => { fn := { saveUserName := g.fn.saveUserName } }
  | .saveKeyValue => { fn := { saveKeyValue := g.fn.saveKeyValue }, base := g.base }
  | .esdtTransfer => { fn := { esdtTransfer := g.fn.esdtTransfer } }
  | .esdtBurn => { fn := { esdtBurn := g.fn.esdtBurn } }
  | .localMint => { fn := { esdtLocalMint := g.fn.esdtLocalMint } }
  | .localBurn => { fn := { esdtLocalBurn := g.fn.esdtLocalBurn } }
  | .nftCreate => { fn := { esdtNFTCreate := g.fn.esdtNFTCreate }, base := g.base }
  | .nftAddQuantity => { fn := { esdtNFTAddQuantity := g.fn.esdtNFTAddQuantity } }
  | .nftBurn => { fn := { esdtNFTBurn := g.fn.esdtNFTBurn } }
  | .nftTransfer => { fn := { esdtNFTTransfer := g.fn.esdtNFTTransfer }, base := g.base }
  | .multiTransfer => { fn := { esdtNFTMultiTransfer := g.fn.esdtNFTMultiTransfer }, base := g.base }
  | .nftAddURI => { fn := { esdtNFTAddURI := g.fn.esdtNFTAddURI }, base := g.base }
  | .nftUpdateAttributes => { fn := { esdtNFTUpdateAttributes := g.fn.esdtNFTUpdateAttributes }, base := g.base }
  | _ => {}

/-- environments that differ only in the gas schedule, with equal base costs -/
def SameButFn (env env' : Env) : Prop :=
  env' = { env with gas := env'.gas } ∧ env'.gas.base = env.gas.base

theorem verifyPayable_congr (env : Env) (g : GasCost) (a : Bytes) :
    verifyPayable { env with gas := g } a = verifyPayable env a := by unfold verifyPayable; rfl
theorem verifyPayableIf_congr (env : Env) (g : GasCost) (b : Bool) (a : Bytes) :
    verifyPayableIf { env with gas := g } b a = verifyPayableIf env b a := by unfold verifyPayableIf; rw [verifyPayable_congr]
theorem addNFTToDestination_congr (env : Env) (g : GasCost) (d : Bytes) (t : Token) (k : Bytes) (v r : Bool) :
    addNFTToDestination { env with gas := g } d t k v r = addNFTToDestination env d t k v r := by
  unfold addNFTToDestination; rw [verifyPayableIf_congr]
theorem transferOne_congr (env : Env) (g : GasCost) (c : Call) (l : Bool) (d t : Bytes) (n q : Nat) (v : Bool) :
    transferOne { env with gas := g } c l d t n q v = transferOne env c l d t n q v := by
  unfold transferOne; simp only [addNFTToDestination_congr]
theorem multiSenderLoop_congr (env : Env) (g : GasCost) (c : Call) (l : Bool) (d : Bytes) (v : Bool) :
    ∀ n idx, multiSenderLoop { env with gas := g } c l d v n idx = multiSenderLoop env c l d v n idx := by
  intro n
  induction n with
  | zero => intro idx; unfold multiSenderLoop; rfl
  | succ n ih => intro idx; unfold multiSenderLoop; simp only [transferOne_congr, ih]
theorem multiDestLoop_congr (env : Env) (g : GasCost) (c : Call) (m : Nat) :
    ∀ n idx, multiDestLoop { env with gas := g } c m n idx = multiDestLoop env c m n idx := by
  intro n
  induction n with
  | zero => intro idx; unfold multiDestLoop; rfl
  | succ n ih => intro idx; unfold multiDestLoop; simp only [addNFTToDestination_congr, verifyPayableIf_congr, ih]
theorem multiPayloadLoop_congr (env : Env) (g : GasCost) (hb : g.base = env.gas.base) :
    ∀ toks gr, multiPayloadLoop { env with gas := g } toks gr = multiPayloadLoop env toks gr := by
  intro toks
  induction toks with
  | nil => intro gr; unfold multiPayloadLoop; rfl
  | cons p rest ih => intro gr; obtain ⟨tk, t⟩ := p; unfold multiPayloadLoop; simp only [ih, hb]
theorem skvLoop_congr (env : Env) (g : GasCost) (c : Call) (hb : g.base = env.gas.base) :
    ∀ (n : Nat) (l : List Bytes) (u : Nat), l.length ≤ n → skvLoop { env with gas := g } c l u = skvLoop env c l u := by
  intro n
  induction n with
  | zero =>
    intro l u hl
    have : l = [] := List.eq_nil_of_length_eq_zero (by omega)
    subst this; unfold skvLoop; rfl
  | succ n ih =>
    intro l u hl
    match l, hl with
    | [], _ => unfold skvLoop; rfl
    | [_], _ => unfold skvLoop; rfl
    | k :: v :: rest, hl =>
      unfold skvLoop
      simp only [hb]
      simp only [ih rest _ (by simp at hl; omega)]

/-- the result of a call depends on the schedule only through the function's own copied fields -/
theorem depends_only_on_own_config (f : FnId) (env : Env) (c : Call) :
    runFn f env c = runFn f { env with gas := ownGas f env.gas } c := by
  cases f <;> simp only [runFn]
  · unfold claimDeveloperRewards; rfl
  · unfold changeOwnerAddress; rfl
  · unfold setUserName; rfl
  · unfold saveKeyValue
    rw [skvLoop_congr env (ownGas .saveKeyValue env.gas) c rfl _ _ _ (Nat.le_refl _)]; rfl
  · unfold esdtPause; rfl
  · unfold esdtPause; rfl
  · unfold esdtTransfer; simp only [verifyPayableIf_congr env (ownGas .esdtTransfer env.gas)]; rfl
  · unfold esdtBurn; rfl
  · unfold esdtFreezeWipe; rfl
  · unfold esdtFreezeWipe; rfl
  · unfold esdtFreezeWipe; rfl
  · unfold esdtRoles; rfl
  · unfold esdtRoles; rfl
  · unfold esdtLocalBurn; rfl
  · unfold esdtLocalMint; rfl
  · unfold esdtNFTAddQuantity; rfl
  · unfold esdtNFTBurn; rfl
  · unfold esdtNFTCreate; rfl
  · unfold esdtNFTTransfer esdtNFTTransferSender; simp only [addNFTToDestination_congr env (ownGas .nftTransfer env.gas)]; rfl
  · unfold esdtNFTCreateRoleTransfer; rfl
  · unfold esdtNFTUpdateAttributes; rfl
  · unfold esdtNFTAddURI; rfl
  · unfold multiTransfer multiTransferSender
    simp only [multiSenderLoop_congr env (ownGas .multiTransfer env.gas), multiDestLoop_congr env (ownGas .multiTransfer env.gas),
      multiPayloadLoop_congr env (ownGas .multiTransfer env.gas) rfl]
    rfl

/-- … hence two function objects that received different schedules with the same own entry behave identically, for
    every call and pre-state (no hidden per-object state, no dependence on earlier unrelated calls) -/
theorem same_own_config_same_behaviour (f : FnId) (env : Env) (g1 g2 : GasCost) (c : Call) (ctx : Ctx)
    (h : ownGas f g1 = ownGas f g2) :
    exec { env with gas := g1 } f c ctx = exec { env with gas := g2 } f c ctx := by
  unfold exec
  rw [depends_only_on_own_config f { env with gas := g1 } c, depends_only_on_own_config f { env with gas := g2 } c]
  simp only [h]

/-- determinism of the model: equal inputs, equal result (results are values; nothing is mutated in place) -/
theorem exec_deterministic (env : Env) (f : FnId) (c1 c2 : Call) (ctx1 ctx2 : Ctx)
    (hc : c1 = c2) (hx : ctx1 = ctx2) : exec env f c1 ctx1 = exec env f c2 ctx2 := by rw [hc, hx]

/-! ### (2) Go slices: `append` on a full slice does not write shared memory -/

/-- a Go byte slice: backing array id, offset, length, capacity (remaining from offset) -/
structure Slice where
  arr : Nat
  off : Nat
  len : Nat
  cap : Nat

/-- memory: backing arrays by id (id < next are allocated) -/
structure Mem where
  arrays : Nat → List UInt8
  next : Nat

def writeAt (l : List UInt8) (pos : Nat) (xs : List UInt8) : List UInt8 :=
  l.take pos ++ xs ++ l.drop (pos + xs.length)

/-- `append(s, xs...)` -/
def goAppend (m : Mem) (s : Slice) (xs : List UInt8) : Mem × Slice :=
  if s.len + xs.length ≤ s.cap then
    -- room in the backing array: written in place (visible to every slice sharing the array)
    ({ m with arrays := fun i => if i = s.arr then writeAt (m.arrays i) (s.off + s.len) xs else m.arrays i },
     { s with len := s.len + xs.length })
  else
    -- reallocation: fresh array holding a copy
    ({ arrays := fun i => if i = m.next then ((m.arrays s.arr).drop s.off).take s.len ++ xs else m.arrays i, next := m.next + 1 },
     { arr := m.next, off := 0, len := s.len + xs.length, cap := s.len + xs.length })

/-- with no spare capacity, a non-empty append leaves EVERY allocated array — in particular the prefix's — unchanged -/
theorem append_full_writes_nothing_shared (m : Mem) (s : Slice) (xs : List UInt8) (hfull : s.cap = s.len)
    (hne : xs ≠ []) (i : Nat) (hi : i < m.next) : (goAppend m s xs).1.arrays i = m.arrays i := by
  have hlen : 0 < xs.length := List.length_pos_iff.mpr hne
  have : ¬ s.len + xs.length ≤ s.cap := by omega
  simp only [goAppend, this, if_false]
  have : i ≠ m.next := by omega
  simp [this]

/-- appending nothing writes nothing (either branch) -/
theorem append_nil_writes_nothing (m : Mem) (s : Slice) (i : Nat) (hi : i < m.next) (hs : s.off + s.len ≤ (m.arrays s.arr).length) :
    (goAppend m s []).1.arrays i = m.arrays i := by
  unfold goAppend
  split
  · simp only []
    split
    · rename_i he; subst he; simp [writeAt]
    · rfl
  · have : i ≠ m.next := by omega
    simp [this]

/-- necessity of the fact: WITH spare capacity the append writes into the shared array (two appends on the same
    prefix would overwrite each other — the data race C19 is about) -/
example : (goAppend { arrays := fun _ => [1, 2, 0, 0], next := 1 } { arr := 0, off := 0, len := 2, cap := 4 } [9]).1.arrays 0
    = [1, 2, 9, 0] := by decide

/-- regenerated on every run by inspecting the real function objects through the `verif` hook: no key prefix
    (per object or package level) has cap > len -/
theorem no_prefix_has_spare_capacity : Facts.prefixesWithSpareCapacity = [] := by decide

end C13
