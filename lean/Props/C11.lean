/-
  Props/C11.lean — C11: built-in functions are total on transaction-reachable input.
  The model has an explicit `panic` outcome for every Go panic site (index out of range, nil dereference of an absent
  account / `Value` / `TokenMetaData`, makeslice with a wrapped count).  Theorems: no function reaches it.
-/
import Proofs.NoPanic
import Proofs.NoPanicMulti
import Proofs.Shape
namespace C11
open Esdt

/-- accounts a call can make the function look into -/
def Touched (c : Call) (a : Bytes) : Prop := a = c.caller ∨ a = c.rcv ∨ a ∈ c.args

/-- every token-keyed slot of every touched account holds nothing or the canonical encoding of a token with a
    non-negative `Value`, within the codec's size limits: what the protocol's own writes produce (C15) -/
def StoreOK (c : Call) (A : Accts) : Prop := ∀ a, Touched c a → ∀ s, GoodAt A a (esdtKeyPrefix ++ s)

theorem StoreOK.acct {c : Call} {A : Accts} (h : StoreOK c A) {a : Bytes} (ha : Touched c a) : AcctVal A a :=
  fun s => (h a ha s).valAt

/-- transaction reachability (Appendix C, E1): the sender-side path runs on the sender's shard; a destination-side
    execution carries a protocol-generated payload (every NFT payload has `Value` and metadata: `cross_shard_hop`) -/
structure Reach (env : Env) (c : Call) : Prop where
  sender : c.caller = c.rcv → present env.nshards env.self c.caller = true
  payload : c.caller ≠ c.rcv → ∀ b ∈ c.args, PayloadOK b

/-- FULL for 22 of the 23 functions: for every environment, call (any argument bytes / counts / gas / call type /
    addresses) and state whose touched token slots are protocol-written, the function does not panic.
    (ESDTPause / ESDTUnPause address the system account, whose token-keyed slots hold pause flags: they need no store
    hypothesis at all.) -/
theorem no_panic (f : FnId) (hf : f ≠ .multiTransfer) (env : Env) (c : Call) (ctx : Ctx)
    (hreach : Reach env c) (hstore : f = .esdtPause ∨ f = .esdtUnPause ∨ StoreOK c ctx.accts) :
    exec env f c ctx ≠ .panic := by
  unfold exec
  have st : f ≠ .esdtPause → f ≠ .esdtUnPause → StoreOK c ctx.accts := by
    intro h1 h2; rcases hstore with h | h | h
    · exact absurd h h1
    · exact absurd h h2
    · exact h
  have hc : Touched c c.caller := Or.inl rfl
  have hr : Touched c c.rcv := Or.inr (Or.inl rfl)
  have harg : ∀ {i : Nat} {a : Bytes}, c.args[i]? = some a → Touched c a :=
    fun h => Or.inr (Or.inr (List.mem_of_getElem? h))
  cases f <;> simp only [runFn]
  · exact (np_claimDeveloperRewards env c ctx).elim
  · exact (np_changeOwnerAddress env c ctx).elim
  · exact (np_setUserName env c ctx).elim
  · exact (np_saveKeyValue env c ctx).elim
  · exact (np_esdtPause true env c ctx).elim
  · exact (np_esdtPause false env c ctx).elim
  · have s := st (by decide) (by decide)
    exact (np_esdtTransfer env c ctx (fun tok _ _ => s _ hc _) (fun tok _ _ => s _ hr _)).elim
  · have s := st (by decide) (by decide)
    exact (np_esdtBurn env c ctx (fun tok _ => (s _ hc _).valAt)).elim
  · have s := st (by decide) (by decide)
    exact (np_esdtFreezeWipe .freeze env c ctx (fun tok _ => (s _ hr _).valAt)).elim
  · have s := st (by decide) (by decide)
    exact (np_esdtFreezeWipe .unfreeze env c ctx (fun tok _ => (s _ hr _).valAt)).elim
  · have s := st (by decide) (by decide)
    exact (np_esdtFreezeWipe .wipe env c ctx (fun tok _ => (s _ hr _).valAt)).elim
  · exact (np_esdtRoles false env c ctx).elim
  · exact (np_esdtRoles true env c ctx).elim
  · have s := st (by decide) (by decide)
    exact (np_esdtLocalBurn env c ctx (fun tok _ => (s _ hc _).valAt)).elim
  · have s := st (by decide) (by decide)
    exact (np_esdtLocalMint env c ctx (fun tok _ => (s _ hc _).valAt)).elim
  · have s := st (by decide) (by decide)
    exact (np_esdtNFTAddQuantity env c ctx (fun tok nb _ _ => (s.acct hc).nft tok _)).elim
  · have s := st (by decide) (by decide)
    exact (np_esdtNFTBurn env c ctx (fun tok nb _ _ => (s.acct hc).nft tok _)).elim
  · exact (np_esdtNFTCreate env c ctx).elim
  · have s := st (by decide) (by decide)
    exact (np_esdtNFTTransfer env c ctx hreach.sender (fun _ => s.acct hc) (fun d hd _ _ => s.acct (harg hd))
      (fun _ => s.acct hr) (fun hne b hb => hreach.payload hne b (List.mem_of_getElem? hb))).elim
  · exact (np_esdtNFTCreateRoleTransfer env c ctx).elim
  · have s := st (by decide) (by decide)
    exact (np_esdtNFTUpdateAttributes env c ctx (fun tok nb _ _ => (s.acct hc).nft tok _)).elim
  · have s := st (by decide) (by decide)
    exact (np_esdtNFTAddURI env c ctx (fun tok nb _ _ => (s.acct hc).nft tok _)).elim
  · exact absurd rfl hf

/-- FULL (result shape): a result is an output with return code Ok, or an error (the model's `Res` has no third
    non-panic outcome: `ok` carries the output, `err` carries no output) — all 23 functions -/
theorem ok_means_rc_ok (f : FnId) (env : Env) (c : Call) (ctx ctx' : Ctx) (out : VMOutput)
    (h : exec env f c ctx = .ok (out, ctx')) : out.rc = 0 := by
  unfold exec at h
  cases f <;> simp only [runFn] at h
  · exact (rc_claimDeveloperRewards env c ctx).elim h
  · exact (rc_changeOwnerAddress env c ctx).elim h
  · exact (rc_setUserName env c ctx).elim h
  · exact (rc_saveKeyValue env c ctx).elim h
  · exact (rc_esdtPause true env c ctx).elim h
  · exact (rc_esdtPause false env c ctx).elim h
  · exact (rc_esdtTransfer env c ctx).elim h
  · exact (rc_esdtBurn env c ctx).elim h
  · exact (rc_esdtFreezeWipe .freeze env c ctx).elim h
  · exact (rc_esdtFreezeWipe .unfreeze env c ctx).elim h
  · exact (rc_esdtFreezeWipe .wipe env c ctx).elim h
  · exact (rc_esdtRoles false env c ctx).elim h
  · exact (rc_esdtRoles true env c ctx).elim h
  · exact (rc_esdtLocalBurn env c ctx).elim h
  · exact (rc_esdtLocalMint env c ctx).elim h
  · exact (rc_esdtNFTAddQuantity env c ctx).elim h
  · exact (rc_esdtNFTBurn env c ctx).elim h
  · exact (rc_esdtNFTCreate env c ctx).elim h
  · exact (rc_esdtNFTTransfer env c ctx).elim h
  · exact (rc_esdtNFTCreateRoleTransfer env c ctx).elim h
  · exact (rc_esdtNFTUpdateAttributes env c ctx).elim h
  · exact (rc_esdtNFTAddURI env c ctx).elim h
  · exact (rc_multiTransfer env c ctx).elim h

/-- MultiESDTNFTTransfer: no index-out-of-range, no wrapped count, no allocation panic — relative to any state invariant
    `I` that keeps the per-item ledger helpers panic-free and is preserved by them (they run on intermediate states of the
    same call); instantiated below (`multi_no_panic`) with the well-formedness invariant -/
theorem multi_no_panic_relative (env : Env) (c : Call) (ctx : Ctx) (I : Accts → Prop)
    (hI : c.caller = c.rcv → ItemsSafe env c I) (hD : c.caller ≠ c.rcv → DestItemsSafe env c I)
    (h0 : I ctx.accts) (hphys : c.args.length < 2 ^ 63) (hreach : Reach env c) :
    exec env .multiTransfer c ctx ≠ .panic := by
  unfold exec; simp only [runFn]
  exact (np_multiTransfer env c ctx I hI hD h0 (by simpa [two63] using hphys) hreach.sender
    (fun hne => hreach.payload hne)).elim

/-- FULL for MultiESDTNFTTransfer (both sides, any number of items, repeated items included): on a well-formed state
    (the C15 invariant `Canon`, stored values shorter than 2^63 bytes), under transaction reachability, with none of the
    involved accounts being the system account: no panic — no index out of range, no wrapped count, no nil `Value` or
    metadata dereference, on any intermediate state of the call (the per-item invariant `MInv2` is preserved item by item:
    `itemsSafe2`, `destItemsSafe2`).  No assumption on token identifiers: since the repair F9 (a credit of an entry
    without metadata onto an entry with metadata is refused instead of dereferencing nil) aliasing identifiers are covered
    — the hypothesis `Kind` ("one kind of entry per key") this theorem needed before is gone. -/
theorem multi_no_panic (env : Env) (c : Call) (ctx : Ctx) (hreach : Reach env c)
    (hC : Canon ctx.accts) (hS : Short ctx.accts)
    (hsys : c.caller ≠ systemAccountAddress ∧ c.rcv ≠ systemAccountAddress ∧
      ∀ dst, c.args[0]? = some dst → dst ≠ systemAccountAddress)
    (hphys : c.args.length < 2 ^ 63) :
    exec env .multiTransfer c ctx ≠ .panic :=
  multi_no_panic_relative env c ctx (MInv2 c)
    (fun hs => itemsSafe2 env c hs hsys.1 hsys.2.2) (fun hs => destItemsSafe2 env c hs hsys.2.1)
    ⟨hC, hS⟩ hphys hreach

/-- one sender-side item on a concrete state -/
theorem item_no_panic (env : Env) (c : Call) (l : Bool) (dst tok : Bytes) (n q : Nat) (v : Bool) (ctx : Ctx)
    (hS : AcctVal ctx.accts c.caller) (hne : dst ≠ c.caller) (hD : l = true → AcctVal ctx.accts dst) :
    transferOne env c l dst tok n q v ctx ≠ .panic :=
  (np_transferOne env c l dst tok n q v ctx hS hne hD).elim

/-- F9 (repaired): crediting an entry WITHOUT metadata onto a destination entry WITH metadata (possible only when token
    identifiers alias: fungible `T‖n` arriving where NFT `(T, n)` is held) is refused, for every input -/
theorem credit_without_metadata_refused (cur t : Token) (cm : MetaData) (hc : cur.md = some cm) (ht : t.md = none)
    (ctx : Ctx) : checkSameHash cur t ctx = .err .WrongNFTOnDestination := by
  simp [checkSameHash, hc, ht, fail]

/-- FULL (argument-derived counts): a successful sender-side multi transfer ran its loops, sized its lists and indexed
    its arguments with a token count that is at most a third of the argument count — the count is never trusted before
    it is compared WITHOUT multiplication (3n+2 wraps for n = (2^64+2)/3: that input is rejected) -/
theorem multi_count_bounded (env : Env) (c : Call) (ctx ctx' : Ctx) (out : VMOutput) (a1 : Bytes)
    (h1 : c.args[1]? = some a1) (h : multiTransferSender env c ctx = .ok (out, ctx')) :
    u64 (beNat a1) ≤ c.args.length / 3 ∧ u64 (beNat a1) ≠ 0 :=
  multiTransferSender_count_guard env c ctx ctx' out a1 h1 h

/-- the wrap-around witness itself is refused, whatever else the call contains -/
theorem wrapped_count_rejected (env : Env) (c : Call) (ctx ctx' : Ctx) (out : VMOutput)
    (h1 : c.args[1]? = some (beBytes ((2 ^ 64 + 2) / 3))) (hlen : c.args.length < 2 ^ 32) :
    multiTransferSender env c ctx ≠ .ok (out, ctx') := by
  intro h
  have := (multi_count_bounded env c ctx ctx' out _ h1 h).1
  rw [beNat_beBytes] at this
  simp only [u64] at this
  omega

end C11

namespace C11
open Esdt

/-! non-vacuity: a concrete state with a protocol-written entry meets `StoreOK`, a plain sender-side call meets `Reach`,
    and the call succeeds -/
def sampleEnv : Env := { self := 0, nshards := 1, payable := fun _ => .yes, dns := [], nameChange := false, gas := {}, active := true }
def alice : Bytes := List.replicate 32 1
def bob : Bytes := List.replicate 32 2
def tk : Bytes := [84, 79, 75]
def five : Token := { type := 0, value := some 5 }
def w0 : Accts := Accts.write [] alice (esdtKeyPrefix ++ tk) (encToken five)
def xfer : Call := { fn := fnESDTTransfer, caller := alice, rcv := bob, args := [tk, [3]], gas := 100 }

theorem five_good : GoodTok five := by
  have hb : beBytes 5 = [5] := by simp [beBytes, leBytes]
  refine ⟨⟨by decide, ?_, by decide, by decide, ?_⟩, 5, rfl, by decide⟩
  · simp [five, encBigInt, hb, two63]
  · intro m hm; simp [five] at hm

example : StoreOK xfer w0 := by
  intro a _ s
  unfold GoodAt w0
  rw [Accts.read_write]
  split
  · exact Or.inr ⟨five, rfl, five_good⟩
  · exact Or.inl rfl

example : Reach sampleEnv xfer := ⟨fun h => by simp [xfer, alice, bob] at h, fun _ b hb t ht => by
  simp only [xfer, List.mem_cons, List.not_mem_nil, or_false] at hb
  rcases hb with rfl | rfl <;> simp [decToken, tk, decLoop, decTokenStep, decTag, decVarint, decVarintAux, fieldNum, two64, two32, two31] at ht⟩

def isOk {α} : Res α → Bool
  | .ok _ => true
  | _ => false
example : isOk (exec sampleEnv .esdtTransfer xfer { accts := w0 }) = true := by decide +kernel

/-! non-vacuity of `multi_no_panic`: the state of the examples above, a same-shard multi transfer of 3 of the 5 tokens
    from alice to bob (whose storage is empty): the call succeeds -/
def multiCall : Call :=
  { fn := fnMultiESDTNFTTransfer, caller := alice, rcv := alice, args := [bob, [1], tk, [], [3]], gas := 100 }
example : isOk (exec sampleEnv .multiTransfer multiCall { accts := w0 }) = true := by decide +kernel

end C11
