/-
  Props/C07.lean — C07: NFT nonces are unique and strictly increasing per token.
  Per-step theorems (all inputs, all pre-states) + the counter-frame theorem; the statement over histories with message
  delivery (exactly-once, single-creator discipline: DESIGN App. C) is composed from them by the nonce oracle, see the end.
-/
import Proofs.NetworkNonce
namespace C07
open Esdt

/-- FULL (create): each successful ESDTNFTCreate returns nonce = stored counter + 1, stores it as the new counter, records
    it in the metadata and uses it as the key suffix of the new entry -/
theorem create_succ (env : Env) (c : Call) (ctx ctx' : Ctx) (out : VMOutput)
    (h : esdtNFTCreate env c ctx = .ok (out, ctx')) :
    ∃ tok n, c.args[0]? = some tok ∧ n = u64 (counterOf (ctx.accts.read c.caller (nonceKeyPrefix ++ tok)) + 1) ∧
      out.ret = [beBytes n] ∧
      ctx'.accts.read c.caller (nonceKeyPrefix ++ tok) = beBytes n ∧
      ∃ qb name roy hash attrs, ctx'.accts.read c.caller (nftKey (esdtKeyPrefix ++ tok) n) =
        nftStoredForm (createdToken c qb name roy hash attrs n) ∧ mdNonce (createdToken c qb name roy hash attrs n) = n :=
  Esdt.create_succ env c ctx ctx' out h

/-- strictly increasing: below the 64-bit limit the new counter is exactly old + 1 and reads back as such -/
theorem create_increments (env : Env) (c : Call) (ctx ctx' : Ctx) (out : VMOutput)
    (h : esdtNFTCreate env c ctx = .ok (out, ctx')) (tok : Bytes) (h0 : c.args[0]? = some tok)
    (hlim : counterOf (ctx.accts.read c.caller (nonceKeyPrefix ++ tok)) + 1 < 2 ^ 64) :
    counterOf (ctx'.accts.read c.caller (nonceKeyPrefix ++ tok)) =
      counterOf (ctx.accts.read c.caller (nonceKeyPrefix ++ tok)) + 1 :=
  Esdt.create_increments env c ctx ctx' out h tok h0 hlim

/-- counters change only through the holder's own creates and through hand-overs: every other function leaves every
    nonce counter of every account untouched -/
theorem counters_change_only_through (f : FnId) (hf : f ≠ .nftCreate ∧ f ≠ .nftCreateRoleTransfer)
    (env : Env) (c : Call) (ctx ctx' : Ctx) (out : VMOutput) (h : exec env f c ctx = .ok (out, ctx')) (a tok : Bytes) :
    ctx'.accts.read a (nonceKeyPrefix ++ tok) = ctx.accts.read a (nonceKeyPrefix ++ tok) :=
  counters_only_through f hf env c ctx ctx' out h a tok

/-- a create only moves the creator's OWN counter of the token it names -/
theorem create_touches_only_own_counter (env : Env) (c : Call) (ctx ctx' : Ctx) (out : VMOutput)
    (h : esdtNFTCreate env c ctx = .ok (out, ctx')) (a tok : Bytes) (hne : a ≠ c.caller) :
    ctx'.accts.read a (nonceKeyPrefix ++ tok) = ctx.accts.read a (nonceKeyPrefix ++ tok) :=
  Esdt.create_touches_only_own_counter env c ctx ctx' out h a tok hne

/-- FULL (hand-over, current holder, next holder on another shard): the old holder's counter is zeroed and its create
    role removed, and the emitted message carries the token and the OLD counter … -/
theorem handover_strips_and_ships (env : Env) (c : Call) (ctx ctx' : Ctx) (out : VMOutput)
    (hsys : c.caller = esdtSCAddress) (h : esdtNFTCreateRoleTransfer env c ctx = .ok (out, ctx')) :
    ∃ tok dest roles n A1, c.args = [tok, dest] ∧ n = counterOf (ctx.accts.read c.rcv (nonceKeyPrefix ++ tok)) ∧
      A1 = ctx.accts.write c.rcv (nonceKeyPrefix ++ tok) (beBytes 0) ∧
      rolesOf (A1.read c.rcv (roleKeyPrefix ++ tok)) = some roles ∧
      (shardOf env.nshards dest ≠ env.self →
        ctx'.accts = A1.write c.rcv (roleKeyPrefix ++ tok) (encRoles (deleteRoles roles [roleNFTCreate]))) ∧
      ∃ tr, out.outAccts = [{ addr := dest, balance := some 0, delta := some 0, transfers := [tr] }] ∧
        tr.data = encodeCall fnESDTNFTCreateRoleTransfer [tok, beBytes n] :=
  (handover_currentOwner_crossShard env c ctx hsys).elim h

/-- … and its delivery at the new holder installs exactly the counter carried by the message and adds the create role
    (once): the new holder continues after the highest nonce the old holder ever issued -/
theorem handover_installs (env : Env) (c : Call) (ctx ctx' : Ctx) (out : VMOutput)
    (hsys : c.caller ≠ esdtSCAddress) (h : esdtNFTCreateRoleTransfer env c ctx = .ok (out, ctx')) :
    ∃ tok nb, c.args = [tok, nb] ∧
      ctx'.accts.read c.rcv (nonceKeyPrefix ++ tok) = beBytes (u64 (beNat nb)) := by
  obtain ⟨tok, nb, A1, roles, hargs, hA1, _, hw⟩ := (handover_nextOwner env c ctx hsys).elim h
  refine ⟨tok, nb, hargs, ?_⟩
  rw [hw]
  have hne : ¬ (c.rcv = c.rcv ∧ roleKeyPrefix ++ tok = nonceKeyPrefix ++ tok) := by
    rintro ⟨_, he⟩
    have := congrArg (List.take 7) he
    simp [nonceKeyPrefix, roleKeyPrefix, ascii] at this
  split
  · rw [hA1, Accts.read_write, if_pos ⟨rfl, rfl⟩]
  · rw [Accts.read_write, if_neg hne, hA1, Accts.read_write, if_pos ⟨rfl, rfl⟩]

/-- the counter survives the round trip through the message (sender encodes `beBytes n`, receiver decodes it) -/
theorem message_counter_roundtrip (n : Nat) (h : n < 2 ^ 64) : u64 (beNat (beBytes n)) = n := by
  rw [beNat_beBytes, u64_of_lt _ (by simpa [two64] using h)]

/-- redelivering the same hand-over message immediately is idempotent on the counter -/
theorem redelivery_same_counter (nb : Bytes) : beBytes (u64 (beNat (beBytes (u64 (beNat nb))))) = beBytes (u64 (beNat nb)) := by
  rw [beNat_beBytes, u64_of_lt _ (u64_lt _)]

-- FULL (history level, stated): under single-creator discipline and exactly-once delivery no two NFTs of one token share a
-- nonce.  From the theorems above: the holder's counter only grows by its own creates (`create_increments`,
-- `counters_change_only_through`, `create_touches_only_own_counter`), every issued nonce equals the counter after its
-- create (`create_succ`), a hand-over ships the counter with the role and installs it at the new holder
-- (`handover_strips_and_ships`, `handover_installs`, `message_counter_roundtrip`).  The induction over reachable worlds of
-- the environment model is not formalised; the nonce oracle (returned nonces never repeat per token; stored counter =
-- returned nonce; hand-over strips / ships / installs) decides it on every generated history.

end C07

namespace C07
open Esdt
/-! non-vacuity: a role holder creates twice; the returned nonces are 1 and 2 -/
def sampleEnv : Env := { self := 0, nshards := 1, payable := fun _ => .yes, dns := [], nameChange := false, gas := {}, active := true }
def alice : Bytes := List.replicate 32 1
def tk : Bytes := [84, 79, 75]
def w0 : Accts := Accts.write [] alice (roleKeyPrefix ++ tk) (encRoles [roleNFTCreate])
def createCall : Call :=
  { fn := fnESDTNFTCreate, caller := alice, rcv := alice, args := [tk, [1], [110], [0], [104], [97], [117]], gas := 100 }
def retsOfTwo : Option (List Bytes × List Bytes) :=
  match esdtNFTCreate sampleEnv createCall { accts := w0 } with
  | .ok (o1, c1) =>
    match esdtNFTCreate sampleEnv createCall { accts := c1.accts } with
    | .ok (o2, _) => some (o1.ret, o2.ret)
    | _ => none
  | _ => none
example : retsOfTwo = some ([[1]], [[2]]) := by decide +kernel
end C07

namespace C07
open Esdt

/-- FULL (history level, one holder): along ANY sequence of built-in calls by anyone — all 23 functions, any arguments,
    failed calls rolled back — that contains no hand-over, the nonces returned to holder `h` for token `tok` are strictly
    increasing (hence pairwise distinct), all above the counter the history started with and at most the final counter.
    With single-creator discipline (only `h` holds the create role of `tok`: C03.role_gate refuses everybody else) this is
    "no two NFTs of the token share a nonce" for histories without hand-over; hand-overs: `handover_strips_and_ships`,
    `handover_installs` (the new holder continues from the shipped counter). -/
theorem nonces_increasing_history (h tok : Bytes) (steps : List HStep) (A : Accts)
    (hno : ∀ s ∈ steps, s.f ≠ .nftCreateRoleTransfer) (hw : NoWrapAlong h tok steps A) :
    List.Pairwise (· < ·) (hrun h tok steps A).1 ∧
    (∀ n ∈ (hrun h tok steps A).1, ctr A h tok < n ∧ n ≤ ctr (hrun h tok steps A).2 h tok) :=
  ⟨(hrun_increasing h tok steps A hno hw).1, (hrun_increasing h tok steps A hno hw).2.1⟩

/-- non-vacuity: create, an unrelated SaveKeyValue by someone else, create again: nonces [1, 2] -/
def bob : Bytes := List.replicate 32 2
def skvCall : Call := { fn := fnSaveKeyValue, caller := bob, rcv := bob, args := [[107], [118]], gas := 100 }
example : (hrun alice tk [⟨.nftCreate, sampleEnv, createCall⟩, ⟨.saveKeyValue, sampleEnv, skvCall⟩,
    ⟨.nftCreate, sampleEnv, createCall⟩] w0).1 = [1, 2] := by decide +kernel

end C07

/-! ### history level, the whole network, with hand-overs of the create role (Proofs/NetworkNonce.lean) -/

namespace C07
open Esdt

/-- FULL (history level, across hand-overs): in a world of any number of shards, along ANY history of built-in calls by
    anyone on any shard (all 23 functions, any arguments, failed calls rolled back) and deliveries of hand-over messages
    (any delay, each once) that respects the single-creator discipline `CStepOK` (a transaction runs on its sender's
    shard; the create role of the token moves only by hand-over, issued by the system contract at the current holder —
    next holder on the same shard or on another one; no counter reaches 2^64 − 1), the nonces returned by ALL successful
    ESDTNFTCreate calls for the token — whoever made them, on whichever shard, before or after any number of hand-overs —
    are strictly increasing in time, hence no two NFTs of the token share a nonce; and the create authority stays at
    exactly one place (`Loc`: one account listing the role once, or one message in flight, or nowhere) -/
theorem nonces_unique_across_handovers (e : Env) (tok : Bytes) (steps : List CStep) (w : CWorld)
    (hI : CInv e tok w) (hok : CStepsOK e tok steps w) :
    (crun e tok steps w).issued.Pairwise (· > ·) ∧ (crun e tok steps w).issued.Nodup ∧
    Loc e tok (crun e tok steps w) := by
  have h := crun_inv e tok steps w hI hok
  exact ⟨h.sorted, h.sorted.imp (fun hab => Nat.ne_of_gt hab), h.loc⟩

/-- what `CStepOK` is there for: set the create role twice on one account, hand it over once — the hand-over erases the
    first occurrence only (`deleteRoles`, as in the code) and the old holder keeps creating -/
example : deleteRoles [roleNFTCreate, roleNFTCreate] [roleNFTCreate] = [roleNFTCreate] := by decide

/-! non-vacuity: two shards; alice (shard 1) creates, the system contract hands the role over to bob (shard 0), the message
    is delivered, bob creates, alice tries again and is refused: nonces 1 then 2 -/
def env2 : Env := { sampleEnv with nshards := 2 }
def W0 : CWorld := { shards := [[], w0], flight := [], issued := [] }
def handoverCall : Call := { fn := fnESDTNFTCreateRoleTransfer, caller := esdtSCAddress, rcv := alice, args := [tk, bob] }
def bobCreate : Call := { createCall with caller := bob, rcv := bob }
def st1 : CStep := .call 1 .nftCreate createCall
def st2 : CStep := .call 1 .nftCreateRoleTransfer handoverCall
def st3 : CStep := .deliver 0
def st4 : CStep := .call 0 .nftCreate bobCreate
def st5 : CStep := .call 1 .nftCreate createCall
example : (crun env2 tk [st1, st2, st3, st4, st5] W0).issued = [2, 1] := by decide +kernel
example : (crun env2 tk [st1, st2] W0).flight.length = 1 := by decide +kernel

/-- same-shard hand-over (alice → carol, both on shard 1): one call does both halves, no message; carol continues at 2 -/
def carol : Bytes := List.replicate 32 3
def st2s : CStep := .call 1 .nftCreateRoleTransfer { handoverCall with args := [tk, carol] }
def st4s : CStep := .call 1 .nftCreate { createCall with caller := carol, rcv := carol }
example : (crun env2 tk [st1, st2s, st4s, st5] W0).issued = [2, 1] ∧ (crun env2 tk [st1, st2s] W0).flight = [] := by
  decide +kernel
example : CStepsOK env2 tk [st1, st2s, st4s, st5] W0 := cstepsOKb_sound _ _ _ _ (by decide +kernel)

/-- why delivery must be exactly-once (the property's quantifier names "delivered twice"): the SAME hand-over message
    delivered a second time after the new holder has created re-installs the stale counter, and the next create re-issues
    a nonce — kernel-evaluated on the model (alice creates 1, hands over to bob with counter 1, delivery, bob creates 2,
    the same message is delivered again, bob creates: 2 again).  An immediate redelivery is harmless
    (`redelivery_same_counter`); exactly-once delivery is the protocol's guarantee (DESIGN App. C, E4). -/
def bobCreateOn (A : Accts) : Option (Bytes × Accts) :=
  match exec { env2 with self := 0 } .nftCreate bobCreate { accts := A } with
  | .ok (out, c') => (match out.ret with | [b] => some (b, c'.accts) | _ => none)
  | _ => none
def deliverOn (A : Accts) (m : HMsg) : Option Accts :=
  match exec { env2 with self := 0 } .nftCreateRoleTransfer (deliverCall tk m) { accts := A } with
  | .ok (_, c') => some c'.accts
  | _ => none
example :
    let w := crun env2 tk [st1, st2] W0
    (match w.flight, w.shards[0]? with
     | [m], some A0 =>
       (match deliverOn A0 m with
        | some A1 =>
          (match bobCreateOn A1 with
           | some (n1, A2) =>
             (match deliverOn A2 m with          -- the same message, a second time
              | some A3 => (match bobCreateOn A3 with | some (n2, _) => some (n1, n2) | none => none)
              | none => none)
           | none => none)
        | none => none)
     | _, _ => none) = some ([2], [2]) := by decide +kernel

/-- the output transfer a same-shard hand-over still emits is not a message: its delivery is refused in every state -/
theorem same_shard_output_refused (e : Env) (tok : Bytes) (m : HMsg) (A : Accts) (out : VMOutput) (ctx' : Ctx)
    (hp : present e.nshards (shardOf e.nshards m.dest) m.prev = true) :
    exec { e with self := shardOf e.nshards m.dest } .nftCreateRoleTransfer (deliverCall tok m) { accts := A } ≠
      .ok (out, ctx') := same_shard_message_dead e tok m A out ctx' hp

/-- the hypotheses of `nonces_unique_across_handovers` hold of this world and this history -/
theorem crCnt_empty (a t : Bytes) : crCnt [] a t = 0 := by
  simp [crCnt, rolesOf, Accts.read, Accts.get, Store.get]

example : CInv env2 tk W0 := by
  refine ⟨Loc.held 1 alice w0 rfl (by decide +kernel) ?_ rfl (by intro n hn; cases hn), List.Pairwise.nil⟩
  intro s' A' a hs hne
  match s', hs with
  | 0, hs => simp [W0] at hs; subst hs; exact crCnt_empty a tk
  | 1, hs =>
    simp [W0] at hs; subst hs
    have ha : ¬ a = alice := fun h => hne ⟨rfl, h⟩
    apply (crCnt_congr (A := []) _).trans (crCnt_empty a tk)
    unfold w0
    rw [Accts.read_write, if_neg (fun h => ha h.1.symm)]
  | n + 2, hs => simp [W0] at hs

example : CStepsOK env2 tk [st1, st2, st3, st4, st5] W0 :=
  cstepsOKb_sound _ _ _ _ (by decide +kernel)

end C07
