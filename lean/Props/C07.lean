/-
  Props/C07.lean — C07: NFT nonces are unique and strictly increasing per token.
  Per-step theorems (all inputs, all pre-states) + the counter-frame theorem; the statement over histories with message
  delivery (exactly-once, single-creator discipline: DESIGN App. C) is composed from them by the nonce oracle, see the end.
-/
import Proofs.Nonce
namespace C07
open Esdt

/-- FULL (create): each successful ESDTNFTCreate returns nonce = stored counter + 1, stores it as the new counter, records
    it in the metadata and uses it as the key suffix of the new entry -/
theorem create_succ (env : Env) (c : Call) (ctx ctx' : Ctx) (out : VMOutput)
    (h : esdtNFTCreate env c ctx = .ok (out, ctx')) :
    ∃ tok n, c.args[0]? = some tok ∧ n = u64 (counterOf (ctx.accts.read c.caller (nonceKeyPrefix ++ tok)) + 1) ∧
      out.ret = [beBytes n] ∧
      ctx'.accts.read c.caller (nonceKeyPrefix ++ tok) = beBytes n ∧
      ∃ qb name roy hash attrs, ctx'.accts.read c.caller (nftKey (esdtKeyPrefix ++ tok) n) =
        nftStoredForm (createdToken c qb name roy hash attrs n) ∧ mdNonce (createdToken c qb name roy hash attrs n) = n := by
  obtain ⟨tok, qb, name, roy, hash, attrs, n, A1, h0, _, _, _, _, _, hn, _, _, hret, hA1, hw⟩ := (nftCreate_effect env c ctx).elim h
  refine ⟨tok, n, h0, hn, hret, ?_, qb, name, roy, hash, attrs, ?_, rfl⟩
  · rw [hw, Accts.read_write]; simp
  · have hne : ¬ (c.caller = c.caller ∧ nonceKeyPrefix ++ tok = nftKey (esdtKeyPrefix ++ tok) n) := by
      rintro ⟨_, he⟩
      have := congrArg (List.take 7) he
      simp [nonceKeyPrefix, esdtKeyPrefix, nftKey, ascii] at this
    rw [hw, Accts.read_write, if_neg hne, hA1, Accts.read_write, if_pos ⟨rfl, rfl⟩]

/-- strictly increasing: below the 64-bit limit the new counter is exactly old + 1 and reads back as such -/
theorem create_increments (env : Env) (c : Call) (ctx ctx' : Ctx) (out : VMOutput)
    (h : esdtNFTCreate env c ctx = .ok (out, ctx')) (tok : Bytes) (h0 : c.args[0]? = some tok)
    (hlim : counterOf (ctx.accts.read c.caller (nonceKeyPrefix ++ tok)) + 1 < 2 ^ 64) :
    counterOf (ctx'.accts.read c.caller (nonceKeyPrefix ++ tok)) =
      counterOf (ctx.accts.read c.caller (nonceKeyPrefix ++ tok)) + 1 := by
  obtain ⟨tok', n, h0', hn, _, hread, _⟩ := create_succ env c ctx ctx' out h
  rw [h0] at h0'; cases h0'
  have hlt : counterOf (ctx.accts.read c.caller (nonceKeyPrefix ++ tok)) + 1 < two64 := by simpa [two64] using hlim
  rw [hread, hn, u64_of_lt _ hlt, counterOf_beBytes _ hlt]

/-- counters change only through the holder's own creates and through hand-overs: every other function leaves every
    nonce counter of every account untouched -/
theorem counters_change_only_through (f : FnId) (hf : f ≠ .nftCreate ∧ f ≠ .nftCreateRoleTransfer)
    (env : Env) (c : Call) (ctx ctx' : Ctx) (out : VMOutput) (h : exec env f c ctx = .ok (out, ctx')) (a tok : Bytes) :
    ctx'.accts.read a (nonceKeyPrefix ++ tok) = ctx.accts.read a (nonceKeyPrefix ++ tok) := by
  unfold exec at h
  have r := Frame.refl
  have nokey : ∀ (t s : Bytes), nonceKeyPrefix ++ tok ≠ esdtKeyPrefix ++ t ++ s := by
    intro t s he
    have := congrArg (List.take 7) he
    simp [esdtKeyPrefix, nonceKeyPrefix, ascii] at this
  have norole : ∀ t : Bytes, nonceKeyPrefix ++ tok ≠ roleKeyPrefix ++ t := by
    intro t he
    have := congrArg (List.take 7) he
    simp [nonceKeyPrefix, roleKeyPrefix, ascii] at this
  have tf : ∀ rr, ¬ tokenFootprint rr false c a (.key (nonceKeyPrefix ++ tok)) := by
    rintro rr ⟨_, t, _, ⟨s, hs⟩ | ⟨_, hr⟩ | ⟨hn, _⟩⟩
    · exact nokey t s hs
    · exact norole t hr
    · cases hn
  obtain ⟨h1, h2⟩ := hf
  cases f <;> simp only [runFn] at h
  · exact (frame_claimDeveloperRewards env c ctx _ (r _ _)).elim h a (.key _) (by simp [acctFootprint])
  · exact (frame_changeOwnerAddress env c ctx _ (r _ _)).elim h a (.key _) (by simp [acctFootprint])
  · exact (frame_setUserName env c ctx _ (r _ _)).elim h a (.key _) (by simp [acctFootprint])
  · apply (frame_saveKeyValue env c ctx _ (r _ _)).elim h a (.key _)
    simp only [skvFootprint]; rintro ⟨_, _, hal⟩
    simp [isAllowedToSaveUnderKey, protectedPrefix, nonceKeyPrefix, ascii] at hal; omega
  · exact (frame_esdtPause true env c ctx _ (r _ _)).elim h a (.key _) (tf _)
  · exact (frame_esdtPause false env c ctx _ (r _ _)).elim h a (.key _) (tf _)
  · exact (frame_esdtTransfer env c ctx _ (r _ _)).elim h a (.key _) (tf _)
  · exact (frame_esdtBurn env c ctx _ (r _ _)).elim h a (.key _) (tf _)
  · exact (frame_esdtFreezeWipe .freeze env c ctx _ (r _ _)).elim h a (.key _) (tf _)
  · exact (frame_esdtFreezeWipe .unfreeze env c ctx _ (r _ _)).elim h a (.key _) (tf _)
  · exact (frame_esdtFreezeWipe .wipe env c ctx _ (r _ _)).elim h a (.key _) (tf _)
  · exact (frame_esdtRoles false env c ctx _ (r _ _)).elim h a (.key _) (tf _)
  · exact (frame_esdtRoles true env c ctx _ (r _ _)).elim h a (.key _) (tf _)
  · exact (frame_esdtLocalBurn env c ctx _ (r _ _)).elim h a (.key _) (tf _)
  · exact (frame_esdtLocalMint env c ctx _ (r _ _)).elim h a (.key _) (tf _)
  · exact (frame_esdtNFTAddQuantity env c ctx _ (r _ _)).elim h a (.key _) (tf _)
  · exact (frame_esdtNFTBurn env c ctx _ (r _ _)).elim h a (.key _) (tf _)
  · exact absurd rfl h1
  · exact (frame_esdtNFTTransfer env c ctx _ (r _ _)).elim h a (.key _) (tf _)
  · exact absurd rfl h2
  · exact (frame_esdtNFTUpdateAttributes env c ctx _ (r _ _)).elim h a (.key _) (tf _)
  · exact (frame_esdtNFTAddURI env c ctx _ (r _ _)).elim h a (.key _) (tf _)
  · exact (frame_multiTransfer env c ctx _ (r _ _)).elim h a (.key _) (tf _)

/-- a create only moves the creator's OWN counter of the token it names -/
theorem create_touches_only_own_counter (env : Env) (c : Call) (ctx ctx' : Ctx) (out : VMOutput)
    (h : esdtNFTCreate env c ctx = .ok (out, ctx')) (a tok : Bytes) (hne : a ≠ c.caller) :
    ctx'.accts.read a (nonceKeyPrefix ++ tok) = ctx.accts.read a (nonceKeyPrefix ++ tok) := by
  obtain ⟨tok', qb, name, roy, hash, attrs, n, A1, _, _, _, _, _, _, _, _, _, _, hA1, hw⟩ := (nftCreate_effect env c ctx).elim h
  have h1 : ¬ (c.caller = a ∧ nonceKeyPrefix ++ tok' = nonceKeyPrefix ++ tok) := fun ⟨e, _⟩ => hne e.symm
  have h2 : ¬ (c.caller = a ∧ nftKey (esdtKeyPrefix ++ tok') n = nonceKeyPrefix ++ tok) := fun ⟨e, _⟩ => hne e.symm
  rw [hw, Accts.read_write, if_neg h1, hA1, Accts.read_write, if_neg h2]

/-- FULL (hand-over, current holder, next holder on another shard): the old holder's counter is zeroed and its create
    role removed, and the emitted message carries the token and the OLD counter … -/
theorem handover_strips_and_ships (env : Env) (c : Call) (ctx ctx' : Ctx) (out : VMOutput)
    (hsys : c.caller = esdtSCAddress) (h : esdtNFTCreateRoleTransfer env c ctx = .ok (out, ctx')) :
    ∃ tok dest roles n A1, c.args = [tok, dest] ∧ n = counterOf (ctx.accts.read c.rcv (nonceKeyPrefix ++ tok)) ∧
      A1 = ctx.accts.write c.rcv (nonceKeyPrefix ++ tok) (beBytes 0) ∧
      rolesOf (A1.read c.rcv (roleKeyPrefix ++ tok)) = some roles ∧
      (shardOf env.nshards dest ≠ env.self →
        ctx'.accts = A1.write c.rcv (roleKeyPrefix ++ tok) (encRoles (deleteRoles roles [roleNFTCreate]))) ∧
      ∃ tr, out.outAccts = [{ addr := dest, balance := some 0, delta := some 0, transfers := [tr] }] ∧
        tr.data = encodeCall fnESDTNFTCreateRoleTransfer [tok, beBytes n] :=
  (handover_currentOwner_crossShard env c ctx hsys).elim h

/-- … and its delivery at the new holder installs exactly the counter carried by the message and adds the create role
    (once): the new holder continues after the highest nonce the old holder ever issued -/
theorem handover_installs (env : Env) (c : Call) (ctx ctx' : Ctx) (out : VMOutput)
    (hsys : c.caller ≠ esdtSCAddress) (h : esdtNFTCreateRoleTransfer env c ctx = .ok (out, ctx')) :
    ∃ tok nb, c.args = [tok, nb] ∧
      ctx'.accts.read c.rcv (nonceKeyPrefix ++ tok) = beBytes (u64 (beNat nb)) := by
  obtain ⟨tok, nb, A1, roles, hargs, hA1, _, hw⟩ := (handover_nextOwner env c ctx hsys).elim h
  refine ⟨tok, nb, hargs, ?_⟩
  rw [hw]
  have hne : ¬ (c.rcv = c.rcv ∧ roleKeyPrefix ++ tok = nonceKeyPrefix ++ tok) := by
    rintro ⟨_, he⟩
    have := congrArg (List.take 7) he
    simp [nonceKeyPrefix, roleKeyPrefix, ascii] at this
  split
  · rw [hA1, Accts.read_write, if_pos ⟨rfl, rfl⟩]
  · rw [Accts.read_write, if_neg hne, hA1, Accts.read_write, if_pos ⟨rfl, rfl⟩]

/-- the counter survives the round trip through the message (sender encodes `beBytes n`, receiver decodes it) -/
theorem message_counter_roundtrip (n : Nat) (h : n < 2 ^ 64) : u64 (beNat (beBytes n)) = n := by
  rw [beNat_beBytes, u64_of_lt _ (by simpa [two64] using h)]

/-- redelivering the same hand-over message immediately is idempotent on the counter -/
theorem redelivery_same_counter (nb : Bytes) : beBytes (u64 (beNat (beBytes (u64 (beNat nb))))) = beBytes (u64 (beNat nb)) := by
  rw [beNat_beBytes, u64_of_lt _ (u64_lt _)]

-- FULL (history level, stated): under single-creator discipline and exactly-once delivery no two NFTs of one token share a
-- nonce.  From the theorems above: the holder's counter only grows by its own creates (`create_increments`,
-- `counters_change_only_through`, `create_touches_only_own_counter`), every issued nonce equals the counter after its
-- create (`create_succ`), a hand-over ships the counter with the role and installs it at the new holder
-- (`handover_strips_and_ships`, `handover_installs`, `message_counter_roundtrip`).  The induction over reachable worlds of
-- the environment model is not formalised; the nonce oracle (returned nonces never repeat per token; stored counter =
-- returned nonce; hand-over strips / ships / installs) decides it on every generated history.

end C07

namespace C07
open Esdt
/-! non-vacuity: a role holder creates twice; the returned nonces are 1 and 2 -/
def sampleEnv : Env := { self := 0, nshards := 1, payable := fun _ => .yes, dns := [], nameChange := false, gas := {}, active := true }
def alice : Bytes := List.replicate 32 1
def tk : Bytes := [84, 79, 75]
def w0 : Accts := Accts.write [] alice (roleKeyPrefix ++ tk) (encRoles [roleNFTCreate])
def createCall : Call :=
  { fn := fnESDTNFTCreate, caller := alice, rcv := alice, args := [tk, [1], [110], [0], [104], [97], [117]], gas := 100 }
def retsOfTwo : Option (List Bytes × List Bytes) :=
  match esdtNFTCreate sampleEnv createCall { accts := w0 } with
  | .ok (o1, c1) =>
    match esdtNFTCreate sampleEnv createCall { accts := c1.accts } with
    | .ok (o2, _) => some (o1.ret, o2.ret)
    | _ => none
  | _ => none
example : retsOfTwo = some ([[1]], [[2]]) := by decide +kernel
end C07

/-! ### history level: one holder, any calls by anyone, no hand-over in the history -/

namespace Esdt

structure HStep where
  f : FnId
  env : Env
  c : Call

/-- is this step a create by `h` for `tok`? -/
def HStep.isCreate (s : HStep) (h tok : Bytes) : Bool :=
  s.f == .nftCreate && s.c.caller == h && s.c.args[0]? == some tok

def nonceOfRet (out : VMOutput) : Nat := match out.ret with | [b] => beNat b | _ => 0

/-- run the steps from `A`; collect the nonces returned to `h` for `tok` (oldest first) -/
def hrun (h tok : Bytes) : List HStep → Accts → List Nat × Accts
  | [], A => ([], A)
  | s :: rest, A =>
    match exec s.env s.f s.c { accts := A } with
    | .ok (out, ctx') =>
      let r := hrun h tok rest ctx'.accts
      if s.isCreate h tok then (nonceOfRet out :: r.1, r.2) else r
    | _ => hrun h tok rest A

def ctr (A : Accts) (h tok : Bytes) : Nat := counterOf (A.read h (nonceKeyPrefix ++ tok))

/-- no counter of `h` for `tok` reaches 2^64 − 1 along the run (Go's uint64 would wrap to 0 there) -/
def NoWrapAlong (h tok : Bytes) : List HStep → Accts → Prop
  | [], A => ctr A h tok + 1 < 2 ^ 64
  | s :: rest, A =>
    ctr A h tok + 1 < 2 ^ 64 ∧
    match exec s.env s.f s.c { accts := A } with
    | .ok (_, ctx') => NoWrapAlong h tok rest ctx'.accts
    | _ => NoWrapAlong h tok rest A

theorem NoWrapAlong.head {h tok : Bytes} {steps : List HStep} {A : Accts} (hw : NoWrapAlong h tok steps A) :
    ctr A h tok + 1 < 2 ^ 64 := by
  cases steps with
  | nil => exact hw
  | cons s rest => exact hw.1

/-- one successful step: the counter of (h, tok) is unchanged, or the step is a create by `h` for `tok`, the counter rose
    by exactly one and the returned nonce is the new counter -/
theorem hstep_counter (h tok : Bytes) (s : HStep) (hno : s.f ≠ .nftCreateRoleTransfer) (A : Accts) (out : VMOutput)
    (ctx' : Ctx) (he : exec s.env s.f s.c { accts := A } = .ok (out, ctx')) (hw : ctr A h tok + 1 < 2 ^ 64) :
    (s.isCreate h tok = false ∧ ctr ctx'.accts h tok = ctr A h tok) ∨
    (s.isCreate h tok = true ∧ ctr ctx'.accts h tok = ctr A h tok + 1 ∧ nonceOfRet out = ctr A h tok + 1) := by
  by_cases hc : s.f = .nftCreate
  · have he' : esdtNFTCreate s.env s.c { accts := A } = .ok (out, ctx') := by
      unfold exec at he; rw [hc] at he; simpa [runFn] using he
    by_cases hcaller : s.c.caller = h
    · obtain ⟨tok', n, h0, hn, hret, hread, _⟩ := C07.create_succ s.env s.c { accts := A } ctx' out he'
      by_cases htok : tok' = tok
      · subst htok
        refine Or.inr ⟨by simp [HStep.isCreate, hc, hcaller, h0], ?_, ?_⟩
        · have := C07.create_increments s.env s.c { accts := A } ctx' out he' tok' h0 (by rw [hcaller]; exact hw)
          rw [hcaller] at this; exact this
        · have hlt : counterOf (A.read s.c.caller (nonceKeyPrefix ++ tok')) + 1 < two64 := by
            rw [hcaller]; simpa [two64, ctr] using hw
          simp only [nonceOfRet, hret, beNat_beBytes, hn, u64_of_lt _ hlt]
          rw [hcaller]; rfl
      · refine Or.inl ⟨by simp [HStep.isCreate, h0, htok], ?_⟩
        -- a create for another token writes (caller, nftKey tok' n) and (caller, nonce‖tok') only
        obtain ⟨tok2, qb, name, roy, hash, attrs, n2, A1, h0', _, _, _, _, _, _, _, _, _, hA1, hwr⟩ :=
          (nftCreate_effect s.env s.c { accts := A }).elim he'
        rw [h0] at h0'; cases h0'
        simp only [ctr]
        rw [hwr, Accts.read_write, hA1, Accts.read_write]
        have h1 : ¬ (s.c.caller = h ∧ nonceKeyPrefix ++ tok' = nonceKeyPrefix ++ tok) := by
          rintro ⟨_, e⟩; exact htok (List.append_cancel_left e)
        have h2 : ¬ (s.c.caller = h ∧ nftKey (esdtKeyPrefix ++ tok') n2 = nonceKeyPrefix ++ tok) := by
          rintro ⟨_, e⟩
          have := congrArg (List.take 7) e
          simp [nonceKeyPrefix, esdtKeyPrefix, nftKey, ascii] at this
        rw [if_neg h1, if_neg h2]
    · refine Or.inl ⟨by simp [HStep.isCreate, hcaller], ?_⟩
      simp only [ctr]
      rw [C07.create_touches_only_own_counter s.env s.c { accts := A } ctx' out he' h tok (fun e => hcaller e.symm)]
  · refine Or.inl ⟨by simp [HStep.isCreate, hc], ?_⟩
    simp only [ctr]
    rw [C07.counters_change_only_through s.f ⟨hc, hno⟩ s.env s.c { accts := A } ctx' out he h tok]

/-- FULL (history level, one holder, no hand-over in the history): the nonces returned to `h` for `tok` are all above the
    initial counter, strictly increasing, and bounded by the final counter -/
theorem hrun_increasing (h tok : Bytes) : ∀ (steps : List HStep) (A : Accts),
    (∀ s ∈ steps, s.f ≠ .nftCreateRoleTransfer) → NoWrapAlong h tok steps A →
    List.Pairwise (· < ·) (hrun h tok steps A).1 ∧
    (∀ n ∈ (hrun h tok steps A).1, ctr A h tok < n ∧ n ≤ ctr (hrun h tok steps A).2 h tok) ∧
    ctr A h tok ≤ ctr (hrun h tok steps A).2 h tok := by
  intro steps
  induction steps with
  | nil => intro A _ _; simp [hrun]
  | cons s rest ih =>
    intro A hno hw
    have hno' : ∀ s' ∈ rest, s'.f ≠ .nftCreateRoleTransfer := fun s' hs' => hno s' (by simp [hs'])
    obtain ⟨hw0, hwrest⟩ := hw
    simp only [hrun]
    cases he : exec s.env s.f s.c { accts := A } with
    | ok p =>
      obtain ⟨out, ctx'⟩ := p
      simp only [he] at hwrest ⊢
      obtain ⟨ih1, ih2, ih3⟩ := ih ctx'.accts hno' hwrest
      rcases hstep_counter h tok s (hno s (by simp)) A out ctx' he hw0 with ⟨hc, hsame⟩ | ⟨hc, hinc, hret⟩
      · simp only [hc, Bool.false_eq_true, if_false]
        rw [hsame] at ih2 ih3
        exact ⟨ih1, ih2, ih3⟩
      · simp only [hc, if_true]
        refine ⟨?_, ?_, by omega⟩
        · refine List.pairwise_cons.mpr ⟨?_, ih1⟩
          intro n hn
          have := (ih2 n hn).1
          omega
        · intro n hn
          rcases List.mem_cons.mp hn with rfl | hn
          · omega
          · have := ih2 n hn
            omega
    | err e' =>
      simp only [he] at hwrest ⊢
      exact ih A hno' hwrest
    | panic =>
      simp only [he] at hwrest ⊢
      exact ih A hno' hwrest

end Esdt


namespace C07
open Esdt

/-- FULL (history level, one holder): along ANY sequence of built-in calls by anyone — all 23 functions, any arguments,
    failed calls rolled back — that contains no hand-over, the nonces returned to holder `h` for token `tok` are strictly
    increasing (hence pairwise distinct), all above the counter the history started with and at most the final counter.
    With single-creator discipline (only `h` holds the create role of `tok`: C03.role_gate refuses everybody else) this is
    "no two NFTs of the token share a nonce" for histories without hand-over; hand-overs: `handover_strips_and_ships`,
    `handover_installs` (the new holder continues from the shipped counter). -/
theorem nonces_increasing_history (h tok : Bytes) (steps : List HStep) (A : Accts)
    (hno : ∀ s ∈ steps, s.f ≠ .nftCreateRoleTransfer) (hw : NoWrapAlong h tok steps A) :
    List.Pairwise (· < ·) (hrun h tok steps A).1 ∧
    (∀ n ∈ (hrun h tok steps A).1, ctr A h tok < n ∧ n ≤ ctr (hrun h tok steps A).2 h tok) :=
  ⟨(hrun_increasing h tok steps A hno hw).1, (hrun_increasing h tok steps A hno hw).2.1⟩

/-- non-vacuity: create, an unrelated SaveKeyValue by someone else, create again: nonces [1, 2] -/
def bob : Bytes := List.replicate 32 2
def skvCall : Call := { fn := fnSaveKeyValue, caller := bob, rcv := bob, args := [[107], [118]], gas := 100 }
example : (hrun alice tk [⟨.nftCreate, sampleEnv, createCall⟩, ⟨.saveKeyValue, sampleEnv, skvCall⟩,
    ⟨.nftCreate, sampleEnv, createCall⟩] w0).1 = [1, 2] := by decide +kernel

end C07
