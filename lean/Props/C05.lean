/-
  Props/C05.lean — C05: the protocol storage namespace is protected; every function has a bounded footprint.
-/
import Proofs.FrameFn
import Proofs.SkvExact
import Facts.Generated
namespace C05
open Esdt

/-- the protected prefix (spec literal), as in the code and in the model -/
def protectedLit : Bytes := [69, 76, 82, 79, 78, 68]    -- "ELROND"

theorem prefix_as_in_code :
    Facts.protectedKeyPrefix = protectedLit ∧ Esdt.protectedPrefix = protectedLit ∧
    Esdt.esdtKeyPrefix = protectedLit ++ Facts.esdtKeyIdentifier ∧
    Esdt.roleKeyPrefix = protectedLit ++ Facts.esdtRoleIdentifier ++ Facts.esdtKeyIdentifier ∧
    Esdt.nonceKeyPrefix = protectedLit ++ Facts.esdtNonceIdentifier := by decide

/-- footprint of each function (spec): token functions / account-level functions / SaveKeyValue -/
def footprint (f : FnId) (c : Call) : Bytes → Slot → Prop :=
  match f with
  | .changeOwnerAddress | .claimDeveloperRewards | .setUserName => acctFootprint f c
  | .saveKeyValue => skvFootprint c
  | .setRole | .unSetRole => tokenFootprint true false c          -- balance + role-list namespace … only the role key is written
  | .nftCreateRoleTransfer => tokenFootprint true true c          -- role list and nonce counter
  | .nftCreate => tokenFootprint false true c                     -- the new entry and the creator's nonce counter
  | _ => tokenFootprint false false c                             -- balance entries (and the pause flag) only

/-- FULL (part 2): every built-in function changes only the protocol entries of the tokens named in its input —
    or, for the three account-level functions, only the owner / user-name / developer-reward / balance fields;
    for SaveKeyValue only listed, unprotected keys of the caller — and only in the sender, destination, an
    address argument or the system account; nothing else in the shard's state changes.
    (A failing call changes nothing at all: the node rolls back, Appendix C.) -/
theorem bounded_footprint (f : FnId) (env : Env) (c : Call) (ctx ctx' : Ctx) (out : VMOutput)
    (h : exec env f c ctx = .ok (out, ctx')) : Frame (footprint f c) ctx.accts ctx'.accts := by
  unfold exec at h
  have r := Frame.refl
  cases f <;> simp only [runFn] at h <;> simp only [footprint]
  · exact (frame_claimDeveloperRewards env c ctx _ (r _ _)).elim h
  · exact (frame_changeOwnerAddress env c ctx _ (r _ _)).elim h
  · exact (frame_setUserName env c ctx _ (r _ _)).elim h
  · exact (frame_saveKeyValue env c ctx _ (r _ _)).elim h
  · exact (frame_esdtPause true env c ctx _ (r _ _)).elim h
  · exact (frame_esdtPause false env c ctx _ (r _ _)).elim h
  · exact (frame_esdtTransfer env c ctx _ (r _ _)).elim h
  · exact (frame_esdtBurn env c ctx _ (r _ _)).elim h
  · exact (frame_esdtFreezeWipe .freeze env c ctx _ (r _ _)).elim h
  · exact (frame_esdtFreezeWipe .unfreeze env c ctx _ (r _ _)).elim h
  · exact (frame_esdtFreezeWipe .wipe env c ctx _ (r _ _)).elim h
  · exact (frame_esdtRoles false env c ctx _ (r _ _)).elim h
  · exact (frame_esdtRoles true env c ctx _ (r _ _)).elim h
  · exact (frame_esdtLocalBurn env c ctx _ (r _ _)).elim h
  · exact (frame_esdtLocalMint env c ctx _ (r _ _)).elim h
  · exact (frame_esdtNFTAddQuantity env c ctx _ (r _ _)).elim h
  · exact (frame_esdtNFTBurn env c ctx _ (r _ _)).elim h
  · exact (frame_esdtNFTCreate env c ctx _ (r _ _)).elim h
  · exact (frame_esdtNFTTransfer env c ctx _ (r _ _)).elim h
  · exact (frame_esdtNFTCreateRoleTransfer env c ctx _ (r _ _)).elim h
  · exact (frame_esdtNFTUpdateAttributes env c ctx _ (r _ _)).elim h
  · exact (frame_esdtNFTAddURI env c ctx _ (r _ _)).elim h
  · exact (frame_multiTransfer env c ctx _ (r _ _)).elim h

/-- a key that begins with the protected prefix is never allowed (any length ≥ 6, any continuation) … -/
theorem protected_not_allowed (rest : Bytes) : isAllowedToSaveUnderKey (protectedLit ++ rest) = false := by
  simp [isAllowedToSaveUnderKey, protectedPrefix, ascii, protectedLit]

/-- … keys shorter than the prefix, and keys that merely resemble it (case variants, shifted), are ordinary keys -/
theorem short_keys_allowed (k : Bytes) (h : k.length < 6) : isAllowedToSaveUnderKey k = true := by
  simp [isAllowedToSaveUnderKey, protectedPrefix, ascii, h]
theorem lookalikes_allowed :
    isAllowedToSaveUnderKey (ascii "elrondesdt") = true ∧ isAllowedToSaveUnderKey (ascii "ELRONd") = true ∧
    isAllowedToSaveUnderKey (ascii "XELROND") = true ∧ isAllowedToSaveUnderKey (ascii "ELRON") = true ∧
    isAllowedToSaveUnderKey (ascii "ELROND") = false ∧ isAllowedToSaveUnderKey (ascii "ELROND!") = false := by decide

/-- FULL (part 1a): SaveKeyValue never creates, changes or deletes a storage key that begins with "ELROND" —
    in any account, for any arguments, whatever else the call does -/
theorem skv_never_touches_protected (env : Env) (c : Call) (ctx ctx' : Ctx) (out : VMOutput)
    (h : exec env .saveKeyValue c ctx = .ok (out, ctx')) (a rest : Bytes) :
    (ctx'.accts.get a).store.get (protectedLit ++ rest) = (ctx.accts.get a).store.get (protectedLit ++ rest) := by
  have hf := bounded_footprint .saveKeyValue env c ctx ctx' out h a (.key (protectedLit ++ rest))
  apply hf
  simp only [footprint, skvFootprint]
  rintro ⟨_, _, hallowed⟩
  rw [protected_not_allowed] at hallowed
  cases hallowed

/-- … and it leaves every other account, and the non-storage fields of every account, untouched -/
theorem skv_only_own_storage (env : Env) (c : Call) (ctx ctx' : Ctx) (out : VMOutput)
    (h : exec env .saveKeyValue c ctx = .ok (out, ctx')) (a k : Bytes) (ha : a ≠ c.caller) :
    (ctx'.accts.get a).store.get k = (ctx.accts.get a).store.get k := by
  have hf := bounded_footprint .saveKeyValue env c ctx ctx' out h a (.key k)
  apply hf
  simp only [footprint, skvFootprint]
  rintro ⟨he, _⟩
  exact ha he

/-- FULL (part 1b): SaveKeyValue is accepted only when a non-contract account, present on the shard, writes to itself -/
theorem skv_guard (env : Env) (c : Call) (ctx : Ctx) :
    Post (saveKeyValue env c) ctx (fun _ _ =>
      c.caller = c.rcv ∧ isSmartContractAddress c.caller = false ∧ present env.nshards env.self c.caller = true ∧
      c.callValue = 0 ∧ c.args.length % 2 = 0 ∧ 2 ≤ c.args.length) := by
  unfold saveKeyValue
  wp
  all_goals (simp only [decide_eq_false_iff_not, Bool.not_eq_false', Decidable.not_not, Nat.not_lt] at *; simp_all)

/-- the three protocol namespaces are pairwise disjoint and all extend the protected prefix -/
theorem namespaces_disjoint (t1 t2 : Bytes) :
    esdtKeyPrefix ++ t1 ≠ roleKeyPrefix ++ t2 ∧ esdtKeyPrefix ++ t1 ≠ nonceKeyPrefix ++ t2 ∧
    roleKeyPrefix ++ t1 ≠ nonceKeyPrefix ++ t2 := by
  refine ⟨?_, ?_, ?_⟩ <;> intro h <;>
    (have := congrArg (List.take 7) h; simp [esdtKeyPrefix, roleKeyPrefix, nonceKeyPrefix, ascii] at this)

theorem namespaces_protected (t : Bytes) :
    isAllowedToSaveUnderKey (esdtKeyPrefix ++ t) = false ∧ isAllowedToSaveUnderKey (roleKeyPrefix ++ t) = false ∧
    isAllowedToSaveUnderKey (nonceKeyPrefix ++ t) = false := by
  simp [isAllowedToSaveUnderKey, protectedPrefix, esdtKeyPrefix, roleKeyPrefix, nonceKeyPrefix, ascii]

/-! ### "… and writes exactly the listed key/value pairs" -/

/-- spec: the (key, value) pairs a SaveKeyValue call lists, in order -/
def pairsOf : List Bytes → List (Bytes × Bytes)
  | k :: v :: rest => (k, v) :: pairsOf rest
  | _ => []

/-- spec: the value the list assigns to key `k` — that of the LAST pair naming `k`, if any pair does -/
def assigned : List (Bytes × Bytes) → Bytes → Option Bytes
  | [], _ => none
  | (k', v) :: rest, k =>
    match assigned rest k with
    | some x => some x
    | none => if k' = k then some v else none

/-- spec: storage after writing the pairs in order (`put` with an empty value deletes the key) -/
def writePairs (s : Store) (ps : List (Bytes × Bytes)) : Store := ps.foldl (fun s p => s.put p.1 p.2) s

theorem putPairs_eq_writePairs : ∀ (l : List Bytes) (s : Store), putPairs s l = writePairs s (pairsOf l)
  | [], s => rfl
  | [_], s => rfl
  | k :: v :: rest, s => by
    simp only [putPairs, pairsOf, writePairs, List.foldl_cons]
    exact putPairs_eq_writePairs rest (s.put k v)

theorem writePairs_get (ps : List (Bytes × Bytes)) : ∀ (s : Store) (k : Bytes),
    (writePairs s ps).get k = (assigned ps k).getD (s.get k) := by
  induction ps with
  | nil => intro s k; rfl
  | cons p ps ih =>
    intro s k
    obtain ⟨k', v⟩ := p
    have h := ih (s.put k' v) k
    simp only [writePairs, List.foldl_cons] at h ⊢
    rw [h, Store.get_put]
    simp only [assigned]
    cases assigned ps k with
    | some x => rfl
    | none => by_cases hk : k' = k <;> simp [hk]

/-- FULL (part 1c): a successful SaveKeyValue writes exactly the listed key/value pairs: afterwards every key of the
    caller's storage holds the value of the LAST pair that names it (an empty value: the key is gone), and every key no
    pair names holds what it held before. (Other accounts and the non-storage fields: `skv_only_own_storage`,
    `bounded_footprint`.) The implementation skips the trie write of a pair whose value is already stored and stops at
    gas guards in between; neither shows in the result. -/
theorem skv_writes_exactly_the_pairs (env : Env) (c : Call) (ctx ctx' : Ctx) (out : VMOutput)
    (h : exec env .saveKeyValue c ctx = .ok (out, ctx')) (k : Bytes) :
    (ctx'.accts.get c.caller).store.get k =
      (assigned (pairsOf c.args) k).getD ((ctx.accts.get c.caller).store.get k) := by
  have := (saveKeyValue_exact env c ctx).elim h k
  rw [putPairs_eq_writePairs, writePairs_get] at this
  exact this

/-- the same as one storage: the left fold of `put` over the pairs -/
theorem skv_result_is_fold (env : Env) (c : Call) (ctx ctx' : Ctx) (out : VMOutput)
    (h : exec env .saveKeyValue c ctx = .ok (out, ctx')) (k : Bytes) :
    (ctx'.accts.get c.caller).store.get k = (writePairs (ctx.accts.get c.caller).store (pairsOf c.args)).get k := by
  have := (saveKeyValue_exact env c ctx).elim h k
  rwa [putPairs_eq_writePairs] at this

/-- non-vacuity, kernel-evaluated: one key listed twice — first a new value, then the value it had before the call —
    ends with the LATER pair's value; a key written and then deleted in the same call is gone; an untouched key stays -/
def xvAlice : Bytes := List.replicate 32 1
def xvEnv : Env := { self := 0, nshards := 1, payable := fun _ => .yes, dns := [], nameChange := false, gas := {}, active := true }
def xvK : Bytes := [107]
def xvF : Bytes := [102]
def xvZ : Bytes := [122]
def xvCtx : Ctx := { accts := [(xvAlice, { store := [(xvK, [111, 108, 100]), (xvZ, [1, 2])] })] }
def xvCall : Call :=
  { fn := fnSaveKeyValue, caller := xvAlice, rcv := xvAlice, gas := 1000000,
    args := [xvK, [110, 101, 119], xvK, [111, 108, 100], xvF, [5], xvF, []] }
example : (match exec xvEnv .saveKeyValue xvCall xvCtx with
    | .ok (_, c') => c'.accts.read xvAlice xvK == [111, 108, 100] && c'.accts.read xvAlice xvF == [] &&
        c'.accts.read xvAlice xvZ == [1, 2]
    | _ => false) = true := by decide +kernel

end C05
