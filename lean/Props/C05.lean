/-
  Props/C05.lean — C05: the protocol storage namespace is protected; every function has a bounded footprint.
-/
import Proofs.FrameFn
import Facts.Generated
namespace C05
open Esdt

/-- the protected prefix (spec literal), as in the code and in the model -/
def protectedLit : Bytes := [69, 76, 82, 79, 78, 68]    -- "ELROND"

theorem prefix_as_in_code :
    Facts.protectedKeyPrefix = protectedLit ∧ Esdt.protectedPrefix = protectedLit ∧
    Esdt.esdtKeyPrefix = protectedLit ++ Facts.esdtKeyIdentifier ∧
    Esdt.roleKeyPrefix = protectedLit ++ Facts.esdtRoleIdentifier ++ Facts.esdtKeyIdentifier ∧
    Esdt.nonceKeyPrefix = protectedLit ++ Facts.esdtNonceIdentifier := by decide

/-- footprint of each function (spec): token functions / account-level functions / SaveKeyValue -/
def footprint (f : FnId) (c : Call) : Bytes → Slot → Prop :=
  match f with
  | .changeOwnerAddress | .claimDeveloperRewards | .setUserName => acctFootprint f c
  | .saveKeyValue => skvFootprint c
  | .setRole | .unSetRole => tokenFootprint true false c          -- balance + role-list namespace … only the role key is written
  | .nftCreateRoleTransfer => tokenFootprint true true c          -- role list and nonce counter
  | .nftCreate => tokenFootprint false true c                     -- the new entry and the creator's nonce counter
  | _ => tokenFootprint false false c                             -- balance entries (and the pause flag) only

/-- FULL (part 2): every built-in function changes only the protocol entries of the tokens named in its input —
    or, for the three account-level functions, only the owner / user-name / developer-reward / balance fields;
    for SaveKeyValue only listed, unprotected keys of the caller — and only in the sender, destination, an
    address argument or the system account; nothing else in the shard's state changes.
    (A failing call changes nothing at all: the node rolls back, Appendix C.) -/
theorem bounded_footprint (f : FnId) (env : Env) (c : Call) (ctx ctx' : Ctx) (out : VMOutput)
    (h : exec env f c ctx = .ok (out, ctx')) : Frame (footprint f c) ctx.accts ctx'.accts := by
  unfold exec at h
  have r := Frame.refl
  cases f <;> simp only [runFn] at h <;> simp only [footprint]
  · exact (frame_claimDeveloperRewards env c ctx _ (r _ _)).elim h
  · exact (frame_changeOwnerAddress env c ctx _ (r _ _)).elim h
  · exact (frame_setUserName env c ctx _ (r _ _)).elim h
  · exact (frame_saveKeyValue env c ctx _ (r _ _)).elim h
  · exact (frame_esdtPause true env c ctx _ (r _ _)).elim h
  · exact (frame_esdtPause false env c ctx _ (r _ _)).elim h
  · exact (frame_esdtTransfer env c ctx _ (r _ _)).elim h
  · exact (frame_esdtBurn env c ctx _ (r _ _)).elim h
  · exact (frame_esdtFreezeWipe .freeze env c ctx _ (r _ _)).elim h
  · exact (frame_esdtFreezeWipe .unfreeze env c ctx _ (r _ _)).elim h
  · exact (frame_esdtFreezeWipe .wipe env c ctx _ (r _ _)).elim h
  · exact (frame_esdtRoles false env c ctx _ (r _ _)).elim h
  · exact (frame_esdtRoles true env c ctx _ (r _ _)).elim h
  · exact (frame_esdtLocalBurn env c ctx _ (r _ _)).elim h
  · exact (frame_esdtLocalMint env c ctx _ (r _ _)).elim h
  · exact (frame_esdtNFTAddQuantity env c ctx _ (r _ _)).elim h
  · exact (frame_esdtNFTBurn env c ctx _ (r _ _)).elim h
  · exact (frame_esdtNFTCreate env c ctx _ (r _ _)).elim h
  · exact (frame_esdtNFTTransfer env c ctx _ (r _ _)).elim h
  · exact (frame_esdtNFTCreateRoleTransfer env c ctx _ (r _ _)).elim h
  · exact (frame_esdtNFTUpdateAttributes env c ctx _ (r _ _)).elim h
  · exact (frame_esdtNFTAddURI env c ctx _ (r _ _)).elim h
  · exact (frame_multiTransfer env c ctx _ (r _ _)).elim h

/-- a key that begins with the protected prefix is never allowed (any length ≥ 6, any continuation) … -/
theorem protected_not_allowed (rest : Bytes) : isAllowedToSaveUnderKey (protectedLit ++ rest) = false := by
  simp [isAllowedToSaveUnderKey, protectedPrefix, ascii, protectedLit]

/-- … keys shorter than the prefix, and keys that merely resemble it (case variants, shifted), are ordinary keys -/
theorem short_keys_allowed (k : Bytes) (h : k.length < 6) : isAllowedToSaveUnderKey k = true := by
  simp [isAllowedToSaveUnderKey, protectedPrefix, ascii, h]
theorem lookalikes_allowed :
    isAllowedToSaveUnderKey (ascii "elrondesdt") = true ∧ isAllowedToSaveUnderKey (ascii "ELRONd") = true ∧
    isAllowedToSaveUnderKey (ascii "XELROND") = true ∧ isAllowedToSaveUnderKey (ascii "ELRON") = true ∧
    isAllowedToSaveUnderKey (ascii "ELROND") = false ∧ isAllowedToSaveUnderKey (ascii "ELROND!") = false := by decide

/-- FULL (part 1a): SaveKeyValue never creates, changes or deletes a storage key that begins with "ELROND" —
    in any account, for any arguments, whatever else the call does -/
theorem skv_never_touches_protected (env : Env) (c : Call) (ctx ctx' : Ctx) (out : VMOutput)
    (h : exec env .saveKeyValue c ctx = .ok (out, ctx')) (a rest : Bytes) :
    (ctx'.accts.get a).store.get (protectedLit ++ rest) = (ctx.accts.get a).store.get (protectedLit ++ rest) := by
  have hf := bounded_footprint .saveKeyValue env c ctx ctx' out h a (.key (protectedLit ++ rest))
  apply hf
  simp only [footprint, skvFootprint]
  rintro ⟨_, _, hallowed⟩
  rw [protected_not_allowed] at hallowed
  cases hallowed

/-- … and it leaves every other account, and the non-storage fields of every account, untouched -/
theorem skv_only_own_storage (env : Env) (c : Call) (ctx ctx' : Ctx) (out : VMOutput)
    (h : exec env .saveKeyValue c ctx = .ok (out, ctx')) (a k : Bytes) (ha : a ≠ c.caller) :
    (ctx'.accts.get a).store.get k = (ctx.accts.get a).store.get k := by
  have hf := bounded_footprint .saveKeyValue env c ctx ctx' out h a (.key k)
  apply hf
  simp only [footprint, skvFootprint]
  rintro ⟨he, _⟩
  exact ha he

/-- FULL (part 1b): SaveKeyValue is accepted only when a non-contract account, present on the shard, writes to itself -/
theorem skv_guard (env : Env) (c : Call) (ctx : Ctx) :
    Post (saveKeyValue env c) ctx (fun _ _ =>
      c.caller = c.rcv ∧ isSmartContractAddress c.caller = false ∧ present env.nshards env.self c.caller = true ∧
      c.callValue = 0 ∧ c.args.length % 2 = 0 ∧ 2 ≤ c.args.length) := by
  unfold saveKeyValue
  wp
  all_goals (simp only [decide_eq_false_iff_not, Bool.not_eq_false', Decidable.not_not, Nat.not_lt] at *; simp_all)

/-- the three protocol namespaces are pairwise disjoint and all extend the protected prefix -/
theorem namespaces_disjoint (t1 t2 : Bytes) :
    esdtKeyPrefix ++ t1 ≠ roleKeyPrefix ++ t2 ∧ esdtKeyPrefix ++ t1 ≠ nonceKeyPrefix ++ t2 ∧
    roleKeyPrefix ++ t1 ≠ nonceKeyPrefix ++ t2 := by
  refine ⟨?_, ?_, ?_⟩ <;> intro h <;>
    (have := congrArg (List.take 7) h; simp [esdtKeyPrefix, roleKeyPrefix, nonceKeyPrefix, ascii] at this)

theorem namespaces_protected (t : Bytes) :
    isAllowedToSaveUnderKey (esdtKeyPrefix ++ t) = false ∧ isAllowedToSaveUnderKey (roleKeyPrefix ++ t) = false ∧
    isAllowedToSaveUnderKey (nonceKeyPrefix ++ t) = false := by
  simp [isAllowedToSaveUnderKey, protectedPrefix, esdtKeyPrefix, roleKeyPrefix, nonceKeyPrefix, ascii]

-- FULL (remaining part, stated): "writes exactly the listed key/value pairs" (the resulting storage is the left fold of
-- `put` over the pairs).  The model's loop (`skvLoop`) is that fold with the gas guards; exactness is decided today by
-- the C05 oracle (diff = fold of the pairs) and by correspondence on the full diff (`skv_exact` not yet a theorem).

end C05
