/-
  Props/C04.lean — C04: frozen accounts and paused tokens cannot move funds.
  `Gate`: what the property calls "frozen for the token" / "token paused on the shard", read from the state.
-/
import Proofs.Ledger
namespace C04
open Esdt

/-- the account's fungible entry of `tok` carries the frozen flag (bit 0 of a 2-byte properties field: spec literal) -/
def Frozen (A : Accts) (a tok : Bytes) : Prop :=
  ∃ t, tokenOf (A.read a (esdtKeyPrefix ++ tok)) = some t ∧ frozenOf t.properties = true

/-- the token is paused on this shard: the system account holds a 2-byte flag with bit 0 under ELRONDesdt‖tok -/
def Paused (A : Accts) (tok : Bytes) : Prop := pausedIn A (esdtKeyPrefix ++ tok) = true

/-- exemptions named by the property: refunds flagged return-after-error, and the system contract's own account -/
def Exempt (c : Call) (a : Bytes) : Prop := c.rae = true ∨ a = esdtSCAddress

theorem gate_blocks {A : Accts} {a tok : Bytes} {t : Token} {rae : Bool}
    (hg : GateOpen A a (esdtKeyPrefix ++ tok) t rae) (ht : tokenOf (A.read a (esdtKeyPrefix ++ tok)) = some t)
    (hne : rae = false) (ha : a ≠ esdtSCAddress) : ¬ Frozen A a tok ∧ ¬ Paused A tok := by
  obtain ⟨hf, hp⟩ := hg hne ha
  constructor
  · rintro ⟨t', ht', hfr⟩
    rw [ht] at ht'; cases ht'
    rw [hf] at hfr; cases hfr
  · intro hpa; unfold Paused at hpa; rw [hp] at hpa; cases hpa

/-- FULL (fungible part, caller side): while the caller is frozen for the token, or the token is paused on the shard,
    local mint, local burn, global burn and sending all fail (unless exempt) -/
theorem frozen_or_paused_blocks_caller (env : Env) (c : Call) (ctx ctx' : Ctx) (out : VMOutput)
    (hex : ¬ Exempt c c.caller) :
    (esdtLocalMint env c ctx = .ok (out, ctx') ∨ esdtLocalBurn env c ctx = .ok (out, ctx') ∨
     esdtBurn env c ctx = .ok (out, ctx')) →
    ∃ tok, c.args[0]? = some tok ∧ ¬ Frozen ctx.accts c.caller tok ∧ ¬ Paused ctx.accts tok := by
  have hr : c.rae = false := by cases h : c.rae <;> simp [Exempt, h] at hex ⊢
  have ha : c.caller ≠ esdtSCAddress := fun h => hex (Or.inr h)
  rintro (h | h | h)
  · obtain ⟨tok, _, t, v, h0, _, hw, hg⟩ := (localMint_effect env c ctx).elim h
    exact ⟨tok, h0, gate_blocks hg hw.old hr ha⟩
  · obtain ⟨tok, _, t, v, h0, _, hw, hg⟩ := (localBurn_effect env c ctx).elim h
    exact ⟨tok, h0, gate_blocks hg hw.old hr ha⟩
  · obtain ⟨tok, _, t, v, h0, _, hw, hg⟩ := (esdtBurn_effect env c ctx).elim h
    exact ⟨tok, h0, gate_blocks hg hw.old hr ha⟩

/-- sending: the sender-side ESDTTransfer of a frozen sender / paused token fails -/
theorem frozen_or_paused_blocks_sending (env : Env) (c : Call) (ctx ctx' : Ctx) (out : VMOutput)
    (hs : present env.nshards env.self c.caller = true) (hd : present env.nshards env.self c.rcv = false)
    (hex : ¬ Exempt c c.caller) (h : esdtTransfer env c ctx = .ok (out, ctx')) :
    ∃ tok, c.args[0]? = some tok ∧ ¬ Frozen ctx.accts c.caller tok ∧ ¬ Paused ctx.accts tok := by
  have hr : c.rae = false := by cases h : c.rae <;> simp [Exempt, h] at hex ⊢
  have ha : c.caller ≠ esdtSCAddress := fun h => hex (Or.inr h)
  obtain ⟨tok, _, t, v, h0, _, _, hw, hg, _⟩ := (esdtTransfer_senderOnly_effect env c ctx hs hd).elim h
  exact ⟨tok, h0, gate_blocks hg hw.old hr ha⟩

/-- receiving: a cross-shard arrival at a frozen destination / for a paused token fails — unless it is the refund
    flagged return-after-error (which must restore the sender) -/
theorem frozen_or_paused_blocks_receiving (env : Env) (c : Call) (ctx ctx' : Ctx) (out : VMOutput)
    (hs : present env.nshards env.self c.caller = false) (hd : present env.nshards env.self c.rcv = true)
    (hex : ¬ Exempt c c.rcv) (h : esdtTransfer env c ctx = .ok (out, ctx')) :
    ∃ tok, c.args[0]? = some tok ∧ ¬ Frozen ctx.accts c.rcv tok ∧ ¬ Paused ctx.accts tok := by
  have hr : c.rae = false := by cases h : c.rae <;> simp [Exempt, h] at hex ⊢
  have ha : c.rcv ≠ esdtSCAddress := fun h => hex (Or.inr h)
  obtain ⟨tok, _, t, v, h0, _, _, hw, hg, _⟩ := (esdtTransfer_destOnly_effect env c ctx hs hd).elim h
  exact ⟨tok, h0, gate_blocks hg hw.old hr ha⟩

/-- NFT / SFT quantities: add-quantity and burn fail while the token is paused (the gate is evaluated on the token
    key, so every nonce of the token is covered) -/
theorem paused_blocks_nft_quantity (env : Env) (c : Call) (ctx ctx' : Ctx) (out : VMOutput) (hex : ¬ Exempt c c.caller) :
    (esdtNFTAddQuantity env c ctx = .ok (out, ctx') ∨ esdtNFTBurn env c ctx = .ok (out, ctx')) →
    ∃ tok, c.args[0]? = some tok ∧ ¬ Paused ctx.accts tok := by
  have hr : c.rae = false := by cases h : c.rae <;> simp [Exempt, h] at hex ⊢
  have ha : c.caller ≠ esdtSCAddress := fun h => hex (Or.inr h)
  rintro (h | h)
  · obtain ⟨tok, _, _, t, v, h0, _, _, _, _, hg⟩ := (addQuantity_effect env c ctx).elim h
    refine ⟨tok, h0, ?_⟩
    intro hp; have := (hg hr ha).2; unfold Paused at hp; rw [this] at hp; cases hp
  · obtain ⟨tok, _, _, t, v, h0, _, _, _, _, _, hg⟩ := (nftBurn_effect env c ctx).elim h
    refine ⟨tok, h0, ?_⟩
    intro hp; have := (hg hr ha).2; unfold Paused at hp; rw [this] at hp; cases hp

/-- the toggles themselves preserve balances: freeze / unfreeze rewrite only the flag bytes of the entry … -/
theorem freeze_unfreeze_preserve_balance (kind : FreezeKind) (hk : kind ≠ .wipe) (env : Env) (c : Call) (ctx ctx' : Ctx)
    (out : VMOutput) (h : esdtFreezeWipe kind env c ctx = .ok (out, ctx')) :
    ∃ tok t, c.args[0]? = some tok ∧ c.caller = esdtSCAddress ∧
      tokenOf (ctx.accts.read c.rcv (esdtKeyPrefix ++ tok)) = some t ∧
      ctx'.accts = ctx.accts.write c.rcv (esdtKeyPrefix ++ tok)
        (storedForm { t with properties := flagBytes (kind == .freeze) }) := by
  obtain ⟨tok, t, h0, hc, ht, _, hw⟩ := (toggleFreeze_effect kind hk env c ctx).elim h
  exact ⟨tok, t, h0, hc, ht, hw⟩

/-- … and unfreezing restores exactly the unfrozen entry: freeze followed by unfreeze stores the same bytes as an
    unfreeze alone (value, type, metadata, reserved untouched; flag bytes `00 00`) -/
theorem unfreeze_after_freeze (t : Token) :
    storedForm { ({ t with properties := flagBytes true } : Token) with properties := flagBytes false } =
    storedForm { t with properties := flagBytes false } := rfl

/-- a frozen-flag carrier keeps the flag even with a zero balance, an unfrozen zero entry is deleted -/
theorem zero_entry_forms (t : Token) (h : t.value = some 0) :
    storedForm { t with properties := flagBytes false } = [] ∧
    storedForm { t with properties := flagBytes true } ≠ [] := by
  constructor
  · simp [storedForm, h, flagBytes, allZero]
  · simp [storedForm, flagBytes, allZero, encToken_ne_nil]

-- FULL (remaining parts, stated): the same blocking for ESDTNFTCreate / AddURI / UpdateAttributes / NFT and multi transfers
-- (all go through `saveNFT` / `addNFTToDestination`, whose specifications `spec_saveNFT` / `spec_addNFTToDestination`
-- carry the gate facts) and for the destination side of NFT and multi transfers; pause / unpause preserve every balance
-- (they write only the 2-byte flag in the system account: `C05.bounded_footprint` + `Esdt.frame_esdtPause`).
-- Decided today by the C04 oracle (no entry of a frozen account / paused token changes under a non-exempt op) and by
-- correspondence on the full diff in the `gates` profile.

end C04
