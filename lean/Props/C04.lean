/-
  Props/C04.lean — C04: frozen accounts and paused tokens cannot move funds.
  `Gate`: what the property calls "frozen for the token" / "token paused on the shard", read from the state.
-/
import Proofs.Ledger
import Proofs.Gates
import Proofs.WF
import Proofs.FrozenHistory
import Proofs.UnifiedFrozen
import Proofs.PausedHistory
import Proofs.UnifiedPaused
import Proofs.UnifiedPausedNFT
import Proofs.UnifiedPausedMulti
import Proofs.UnifiedFrozenMulti
namespace C04
open Esdt

/-- the account's fungible entry of `tok` carries the frozen flag (bit 0 of a 2-byte properties field: spec literal) -/
def Frozen (A : Accts) (a tok : Bytes) : Prop :=
  ∃ t, tokenOf (A.read a (esdtKeyPrefix ++ tok)) = some t ∧ frozenOf t.properties = true

/-- the token is paused on this shard: the system account holds a 2-byte flag with bit 0 under ELRONDesdt‖tok -/
def Paused (A : Accts) (tok : Bytes) : Prop := pausedIn A (esdtKeyPrefix ++ tok) = true

/-- exemptions named by the property: refunds flagged return-after-error, and the system contract's own account -/
def Exempt (c : Call) (a : Bytes) : Prop := c.rae = true ∨ a = esdtSCAddress

theorem gate_blocks {A : Accts} {a tok : Bytes} {t : Token} {rae : Bool}
    (hg : GateOpen A a (esdtKeyPrefix ++ tok) t rae) (ht : tokenOf (A.read a (esdtKeyPrefix ++ tok)) = some t)
    (hne : rae = false) (ha : a ≠ esdtSCAddress) : ¬ Frozen A a tok ∧ ¬ Paused A tok := by
  obtain ⟨hf, hp⟩ := hg hne ha
  constructor
  · rintro ⟨t', ht', hfr⟩
    rw [ht] at ht'; cases ht'
    rw [hf] at hfr; cases hfr
  · intro hpa; unfold Paused at hpa; rw [hp] at hpa; cases hpa

/-- FULL (fungible part, caller side): while the caller is frozen for the token, or the token is paused on the shard,
    local mint, local burn, global burn and sending all fail (unless exempt) -/
theorem frozen_or_paused_blocks_caller (env : Env) (c : Call) (ctx ctx' : Ctx) (out : VMOutput)
    (hex : ¬ Exempt c c.caller) :
    (esdtLocalMint env c ctx = .ok (out, ctx') ∨ esdtLocalBurn env c ctx = .ok (out, ctx') ∨
     esdtBurn env c ctx = .ok (out, ctx')) →
    ∃ tok, c.args[0]? = some tok ∧ ¬ Frozen ctx.accts c.caller tok ∧ ¬ Paused ctx.accts tok := by
  have hr : c.rae = false := by cases h : c.rae <;> simp [Exempt, h] at hex ⊢
  have ha : c.caller ≠ esdtSCAddress := fun h => hex (Or.inr h)
  rintro (h | h | h)
  · obtain ⟨tok, _, t, v, h0, _, hw, hg⟩ := (localMint_effect env c ctx).elim h
    exact ⟨tok, h0, gate_blocks hg hw.old hr ha⟩
  · obtain ⟨tok, _, t, v, h0, _, hw, hg⟩ := (localBurn_effect env c ctx).elim h
    exact ⟨tok, h0, gate_blocks hg hw.old hr ha⟩
  · obtain ⟨tok, _, t, v, h0, _, hw, hg⟩ := (esdtBurn_effect env c ctx).elim h
    exact ⟨tok, h0, gate_blocks hg hw.old hr ha⟩

/-- sending: the sender-side ESDTTransfer of a frozen sender / paused token fails -/
theorem frozen_or_paused_blocks_sending (env : Env) (c : Call) (ctx ctx' : Ctx) (out : VMOutput)
    (hs : present env.nshards env.self c.caller = true) (hd : present env.nshards env.self c.rcv = false)
    (hex : ¬ Exempt c c.caller) (h : esdtTransfer env c ctx = .ok (out, ctx')) :
    ∃ tok, c.args[0]? = some tok ∧ ¬ Frozen ctx.accts c.caller tok ∧ ¬ Paused ctx.accts tok := by
  have hr : c.rae = false := by cases h : c.rae <;> simp [Exempt, h] at hex ⊢
  have ha : c.caller ≠ esdtSCAddress := fun h => hex (Or.inr h)
  obtain ⟨tok, _, t, v, h0, _, _, hw, hg, _⟩ := (esdtTransfer_senderOnly_effect env c ctx hs hd).elim h
  exact ⟨tok, h0, gate_blocks hg hw.old hr ha⟩

/-- receiving: a cross-shard arrival at a frozen destination / for a paused token fails — unless it is the refund
    flagged return-after-error (which must restore the sender) -/
theorem frozen_or_paused_blocks_receiving (env : Env) (c : Call) (ctx ctx' : Ctx) (out : VMOutput)
    (hs : present env.nshards env.self c.caller = false) (hd : present env.nshards env.self c.rcv = true)
    (hex : ¬ Exempt c c.rcv) (h : esdtTransfer env c ctx = .ok (out, ctx')) :
    ∃ tok, c.args[0]? = some tok ∧ ¬ Frozen ctx.accts c.rcv tok ∧ ¬ Paused ctx.accts tok := by
  have hr : c.rae = false := by cases h : c.rae <;> simp [Exempt, h] at hex ⊢
  have ha : c.rcv ≠ esdtSCAddress := fun h => hex (Or.inr h)
  obtain ⟨tok, _, t, v, h0, _, _, hw, hg, _⟩ := (esdtTransfer_destOnly_effect env c ctx hs hd).elim h
  exact ⟨tok, h0, gate_blocks hg hw.old hr ha⟩

/-- NFT / SFT quantities: add-quantity and burn fail while the token is paused (the gate is evaluated on the token
    key, so every nonce of the token is covered) -/
theorem paused_blocks_nft_quantity (env : Env) (c : Call) (ctx ctx' : Ctx) (out : VMOutput) (hex : ¬ Exempt c c.caller) :
    (esdtNFTAddQuantity env c ctx = .ok (out, ctx') ∨ esdtNFTBurn env c ctx = .ok (out, ctx')) →
    ∃ tok, c.args[0]? = some tok ∧ ¬ Paused ctx.accts tok := by
  have hr : c.rae = false := by cases h : c.rae <;> simp [Exempt, h] at hex ⊢
  have ha : c.caller ≠ esdtSCAddress := fun h => hex (Or.inr h)
  rintro (h | h)
  · obtain ⟨tok, _, _, t, v, h0, _, _, _, _, hg⟩ := (addQuantity_effect env c ctx).elim h
    refine ⟨tok, h0, ?_⟩
    intro hp; have := (hg hr ha).2; unfold Paused at hp; rw [this] at hp; cases hp
  · obtain ⟨tok, _, _, t, v, h0, _, _, _, _, _, hg⟩ := (nftBurn_effect env c ctx).elim h
    refine ⟨tok, h0, ?_⟩
    intro hp; have := (hg hr ha).2; unfold Paused at hp; rw [this] at hp; cases hp

/-- the toggles themselves preserve balances: freeze / unfreeze rewrite only the flag bytes of the entry … -/
theorem freeze_unfreeze_preserve_balance (kind : FreezeKind) (hk : kind ≠ .wipe) (env : Env) (c : Call) (ctx ctx' : Ctx)
    (out : VMOutput) (h : esdtFreezeWipe kind env c ctx = .ok (out, ctx')) :
    ∃ tok t, c.args[0]? = some tok ∧ c.caller = esdtSCAddress ∧
      tokenOf (ctx.accts.read c.rcv (esdtKeyPrefix ++ tok)) = some t ∧
      ctx'.accts = ctx.accts.write c.rcv (esdtKeyPrefix ++ tok)
        (storedForm { t with properties := flagBytes (kind == .freeze) }) := by
  obtain ⟨tok, t, h0, hc, ht, _, hw⟩ := (toggleFreeze_effect kind hk env c ctx).elim h
  exact ⟨tok, t, h0, hc, ht, hw⟩

/-- … and unfreezing restores exactly the unfrozen entry: freeze followed by unfreeze stores the same bytes as an
    unfreeze alone (value, type, metadata, reserved untouched; flag bytes `00 00`) -/
theorem unfreeze_after_freeze (t : Token) :
    storedForm { ({ t with properties := flagBytes true } : Token) with properties := flagBytes false } =
    storedForm { t with properties := flagBytes false } := rfl

/-- a frozen-flag carrier keeps the flag even with a zero balance, an unfrozen zero entry is deleted -/
theorem zero_entry_forms (t : Token) (h : t.value = some 0) :
    storedForm { t with properties := flagBytes false } = [] ∧
    storedForm { t with properties := flagBytes true } ≠ [] := by
  constructor
  · simp [storedForm, h, flagBytes, allZero]
  · simp [storedForm, flagBytes, allZero, encToken_ne_nil]

/-- NFT / SFT create, metadata updates and transfers: every one of them fails while the token is paused on the shard
    (all write through `saveESDTNFTToken`, which evaluates the gate on the token key — every nonce is covered) -/
theorem paused_blocks_nft_functions (env : Env) (c : Call) (ctx ctx' : Ctx) (out : VMOutput) (hex : ¬ Exempt c c.caller)
    (hs : present env.nshards env.self c.caller = true) :
    (esdtNFTCreate env c ctx = .ok (out, ctx') ∨ esdtNFTAddURI env c ctx = .ok (out, ctx') ∨
     esdtNFTUpdateAttributes env c ctx = .ok (out, ctx') ∨ esdtNFTTransferSender env c ctx = .ok (out, ctx')) →
    ∃ tok, c.args[0]? = some tok ∧ ¬ Paused ctx.accts tok := by
  have hr : c.rae = false := by cases h : c.rae <;> simp [Exempt, h] at hex ⊢
  have ha : c.caller ≠ esdtSCAddress := fun h => hex (Or.inr h)
  have fin : (∃ tok, c.args[0]? = some tok ∧ PauseOpen ctx.accts c c.caller tok) →
      ∃ tok, c.args[0]? = some tok ∧ ¬ Paused ctx.accts tok := by
    rintro ⟨tok, h0, hp⟩
    refine ⟨tok, h0, ?_⟩
    intro hpa; unfold Paused at hpa; rw [hp hr ha] at hpa; cases hpa
  rintro (h | h | h | h)
  · exact fin ((pause_nftCreate env c ctx).elim h)
  · exact fin ((pause_addURI env c ctx).elim h)
  · exact fin ((pause_updateAttributes env c ctx).elim h)
  · exact fin ((pause_nftTransferSender env c ctx hs).elim h)

/-- … the arrival of an NFT at its destination shard too (unless it is the refund flagged return-after-error) -/
theorem paused_blocks_nft_receiving (env : Env) (c : Call) (ctx ctx' : Ctx) (out : VMOutput) (hne : c.caller ≠ c.rcv)
    (hex : ¬ Exempt c c.rcv) (h : esdtNFTTransfer env c ctx = .ok (out, ctx')) :
    ∃ tok, c.args[0]? = some tok ∧ ¬ Paused ctx.accts tok := by
  have hr : c.rae = false := by cases h : c.rae <;> simp [Exempt, h] at hex ⊢
  have ha : c.rcv ≠ esdtSCAddress := fun h => hex (Or.inr h)
  obtain ⟨tok, h0, hp⟩ := (pause_nftTransferDest env c ctx hne).elim h
  refine ⟨tok, h0, ?_⟩
  intro hpa; unfold Paused at hpa; rw [hp hr ha] at hpa; cases hpa

/-- … and each sender-side item of a multi transfer -/
theorem paused_blocks_multi_item (env : Env) (c : Call) (l : Bool) (dst tok : Bytes) (n q : Nat) (v : Bool)
    (ctx ctx' : Ctx) (t : Token) (hex : ¬ Exempt c c.caller)
    (h : transferOne env c l dst tok n q v ctx = .ok (t, ctx')) : ¬ Paused ctx.accts tok := by
  have hr : c.rae = false := by cases h : c.rae <;> simp [Exempt, h] at hex ⊢
  have ha : c.caller ≠ esdtSCAddress := fun h => hex (Or.inr h)
  have hp := (pause_transferOne env c l dst tok n q v ctx).elim h
  intro hpa; unfold Paused at hpa; rw [hp hr ha] at hpa; cases hpa

/-- pause / unpause change nothing outside the system account: every balance of every account is untouched, so
    unpausing restores exactly the earlier behaviour -/
theorem pause_unpause_preserve_balances (p : Bool) (env : Env) (c : Call) (ctx ctx' : Ctx) (out : VMOutput)
    (h : esdtPause p env c ctx = .ok (out, ctx')) (a k : Bytes) (ha : a ≠ systemAccountAddress) :
    ctx'.accts.read a k = ctx.accts.read a k :=
  ((frame_sys_esdtPause p env c ctx _ (Frame.refl _ _)).elim h).read_eq a k ha

/-- FULL (one call, the supply operations): while account `a` is frozen for fungible token `tok`, a successful local mint,
    local burn, burn, NFT create, add-quantity, NFT burn or re-freeze — by ANY caller with ANY arguments, not flagged
    return-after-error — leaves `a`'s balance of `tok` as it was and `a` frozen (wipe and unfreeze are the exceptions the
    property names).  Aliasing spellings are covered for the functions that read before they write (their gate is evaluated
    on the very entry they rewrite); NFT create writes a fresh entry, hence `hnoalias`. -/
theorem frozen_balance_unchanged (op : SupplyOp) (hop : op ≠ .wipe ∧ op ≠ .unfreeze) (env : Env) (c : Call) (A : Accts)
    (out : VMOutput) (ctx' : Ctx) (hI : SInv A) (hrsys : c.rcv ≠ systemAccountAddress)
    (h : op.run env c { accts := A } = .ok (out, ctx')) (a tok : Bytes) (hfz : FrozenAt A a tok)
    (hrae : c.rae = false) (hsc : a ≠ esdtSCAddress)
    (hnoalias : op = .create → ∀ tok' n, c.args[0]? = some tok' →
      nftKey (esdtKeyPrefix ++ tok') n ≠ esdtKeyPrefix ++ tok) :
    balOf (ctx'.accts.read a (esdtKeyPrefix ++ tok)) = balOf (A.read a (esdtKeyPrefix ++ tok)) ∧
      FrozenAt ctx'.accts a tok :=
  frozen_step op hop env c A out ctx' hI hrsys h a tok hfz hrae hsc hnoalias

/-- FULL (operation sequences, the supply operations): along ANY sequence of those operations (failed ones rolled back)
    that contains no wipe / unfreeze and no return-after-error call, an account that is frozen for a token at the start
    holds exactly the same balance of it at the end, and is still frozen. -/
theorem frozen_balance_history (a tok : Bytes) (hsc : a ≠ esdtSCAddress) (steps : List SStep) (A : Accts) (hI : SInv A)
    (hok : SStepsOK steps A) (hfs : ∀ s ∈ steps, FStepOK tok s) (hfz : FrozenAt A a tok) :
    balOf ((srun steps A).1.read a (esdtKeyPrefix ++ tok)) = balOf (A.read a (esdtKeyPrefix ++ tok)) ∧
      FrozenAt (srun steps A).1 a tok :=
  frozen_history_run a tok hsc steps A hI hok hfs hfz

/-! non-vacuity: alice holds 5 of a token and is frozen for it, bob holds the mint role: `FrozenAt` holds of that state, a
    mint by bob (another account, same token) succeeds on it, and alice's entry is bit-for-bit what it was -/
def fzAlice : Bytes := List.replicate 32 1
def fzBob : Bytes := List.replicate 32 2
def fzTok : Bytes := [70, 84]
def fzEntry : Token := { type := 0, value := some 5, properties := [1, 0] }
def fzA : Accts :=
  Accts.write (Accts.write [] fzBob (roleKeyPrefix ++ fzTok) (encRoles [roleLocalMint])) fzAlice (esdtKeyPrefix ++ fzTok)
    (encToken fzEntry)
def fzEnv : Env := { self := 0, nshards := 1, payable := fun _ => .yes, dns := [], nameChange := false, gas := {}, active := true }
def fzMint : Call := { fn := fnESDTLocalMint, caller := fzBob, rcv := fzBob, args := [fzTok, [9]], gas := 100 }
example : FrozenAt fzA fzAlice fzTok := ⟨fzEntry, by decide +kernel, by decide⟩
example : (match SupplyOp.mint.run fzEnv fzMint { accts := fzA } with
    | .ok (_, c') => c'.accts.read fzAlice (esdtKeyPrefix ++ fzTok) == encToken fzEntry &&
        balOf (c'.accts.read fzBob (esdtKeyPrefix ++ fzTok)) == 9
    | _ => false) = true := by decide +kernel

/-- `FrozenAt` is the `Frozen` of this file -/
theorem frozenAt_iff (A : Accts) (a tok : Bytes) : FrozenAt A a tok ↔ Frozen A a tok := Iff.rfl

/-! ### the mixed world (Proofs/UnifiedFrozen.lean): ESDTTransfer traffic and the 20 non-transfer functions -/

/-- FULL, frozen half, ALL 23 functions (histories; any number of shards; any interleaving): while `a` is frozen for the
    fungible token `tok` on shard `i` and holds `v`, no history of ESDTTransfer, ESDTNFTTransfer and MultiESDTNFTTransfer
    user transactions, deliveries, refusals and refunds — of any tokens, any number of repeated / mixed items, between any
    accounts, `a` included as sender or receiver — mixed with calls of the 20 other functions by anybody on any shard moves
    that balance or lifts the freeze; excluded are exactly the steps the property names — a wipe / unfreeze of (a, tok), a
    flagged refund of `tok`, calls flagged return-after-error — and, as everywhere, token identifiers that alias
    (`NoAliasTok` / `NoAliasArgs`; on the SENDER side of an NFT / multi transfer also `FungOnly`: no item names the
    fungible `tok` with a non-zero nonce — an entry whose metadata carries nonce 0 would otherwise be saved under the
    fungible key, the legacy layout the existing tests rely on). Proofs/UnifiedFrozen.lean, UnifiedFrozenMulti.lean: the
    gate of every credit looks at the entry the account HOLDS (`spec_addNFTToDestination`, `spec_addToESDTBalance`), a
    fungible item of a multi transfer writes the entry it read (`fzn_transferOne_tok`), loops by induction. -/
theorem frozen_balance_in_mixed_world (a tok : Bytes) (v : Int) (e : Env) (i : Nat) (hsc : a ≠ esdtSCAddress)
    (hsys : a ≠ systemAccountAddress) (steps : List UStep) (w : UWorld) (hI : UInv e w) (hok : UStepsOK e steps w)
    (hfz : UFzStepsOK2 e a tok steps w) (hF : FzW a tok v i w) : FzW a tok v i (urun e steps w).1 :=
  unified_fz_history2 e i hsc hsys steps w hI hok hfz hF

/-! non-vacuity: one shard; alice frozen with 5; bob mints 9, tries to send 4 to alice (refused: the world is unchanged),
    sends 3 to carol, the system contract pauses and un-pauses another token: alice still holds 5, frozen -/
def fzCarol : Bytes := List.replicate 32 3
def fzW0 : UWorld := { shards := [fzA], ft := [], nft := [], multi := [] }
def fzToAlice : Call := { fn := fnESDTTransfer, caller := fzBob, rcv := fzAlice, args := [fzTok, [4]], gas := 100 }
def fzToCarol : Call := { fn := fnESDTTransfer, caller := fzBob, rcv := fzCarol, args := [fzTok, [3]], gas := 100 }
def fzPause : Call := { fn := fnESDTPause, caller := esdtSCAddress, rcv := systemAccountAddress, args := [[88]], gas := 100 }
def fzSteps : List UStep :=
  [.call 0 .localMint fzMint, .ft (.user fzToAlice), .ft (.user fzToCarol), .call 0 .esdtPause fzPause]
def fzFinal : UWorld := (urun fzEnv fzSteps fzW0).1

example : (fzFinal.shards[0]?.map fun A => (A.read fzAlice (esdtKeyPrefix ++ fzTok) == encToken fzEntry,
    balOf (A.read fzBob (esdtKeyPrefix ++ fzTok)), balOf (A.read fzCarol (esdtKeyPrefix ++ fzTok)))) =
    some (true, 6, 3) := by decide +kernel

example : FzW fzAlice fzTok 5 0 fzW0 :=
  ⟨fzA, rfl, ⟨fzEntry, by decide +kernel, by decide⟩, by decide +kernel⟩

theorem fzA_sinv : SInv fzA := by
  have hread : ∀ a k, TokKey k → fzA.read a k =
      if fzAlice = a ∧ esdtKeyPrefix ++ fzTok = k then encToken fzEntry else [] := by
    intro a k hk
    unfold fzA
    rw [Accts.read_write]
    split
    · rfl
    · have hne : ¬ (fzBob = a ∧ roleKeyPrefix ++ fzTok = k) := fun h => not_tokKey_role fzTok (h.2 ▸ hk)
      rw [Accts.read_write, if_neg hne]; rfl
  refine ⟨by unfold Accts.Nodup; decide, ?_, ?_, ?_⟩
  · intro a k hk _
    rw [hread a k hk]
    split
    · rename_i he
      refine Or.inr ⟨fzEntry, by decide +kernel, ⟨5, rfl, Or.inl (by decide)⟩, fun m hm => by simp [fzEntry] at hm⟩
    · exact Or.inl rfl
  · intro a k
    unfold fzA
    rw [Accts.read_write]
    split
    · decide +kernel
    · rw [Accts.read_write]
      split
      · decide +kernel
      · show ([] : Bytes).length < two63; decide
  · intro a k t m hk hne hdec hm
    rw [hread a k hk] at hne hdec
    split at hne
    · rename_i he
      rw [if_pos he] at hdec
      have : decToken (encToken fzEntry) = some fzEntry := by decide +kernel
      rw [this] at hdec; cases hdec
      simp [fzEntry] at hm
    · exact absurd rfl hne

example : UInv fzEnv fzW0 := by
  refine ⟨?_, fun _ h => (by cases h), fun _ h => (by cases h), fun _ h => (by cases h)⟩
  intro A hA
  simp only [fzW0, List.mem_cons, List.mem_nil_iff, or_false] at hA
  subst hA
  exact fzA_sinv

example : UStepsOK fzEnv fzSteps fzW0 := by
  refine ⟨fun A _ => ⟨rfl, ?_, fun _ => (by decide), fun _ => ⟨by decide, by decide⟩, fun h => (by cases h)⟩,
    ⟨by decide, by decide⟩, ⟨by decide, by decide⟩,
    fun A _ => ⟨rfl, ?_, fun h => (by revert h; decide), fun h => (by cases h), fun h => (by cases h)⟩, trivial⟩
  all_goals
    intro a ha
    simp only [fzMint, fzPause, List.mem_cons, List.mem_nil_iff, or_false] at ha
    rcases ha with rfl | rfl <;> decide

example : UFzStepsOK2 fzEnv fzAlice fzTok fzSteps fzW0 :=
  show UFzStepsOK fzEnv fzAlice fzTok fzSteps fzW0 from
  ⟨⟨rfl, fun h => (by rcases h with h | h <;> cases h), fun h => (by rcases h with h | h | h <;> cases h)⟩,
   rfl, rfl,
   ⟨rfl, fun h => (by rcases h with h | h <;> cases h), fun h => (by rcases h with h | h | h <;> cases h)⟩, trivial⟩

/-! ### the pause half over histories (Proofs/PausedHistory.lean, Proofs/UnifiedPaused.lean) -/

/-- `PausedAt` is the `Paused` of this file -/
theorem pausedAt_iff (A : Accts) (tok : Bytes) : PausedAt A tok ↔ Paused A tok := Iff.rfl

/-- FULL (one supply operation while the token is paused): no mint / local burn / burn / NFT create / add quantity /
    NFT burn — by anybody, any arguments — changes ANY entry of the paused token (the fungible entry and the entry of
    every nonce, byte for byte: value, flags, metadata) of any account other than the ESDT system contract's own, and the
    token stays paused. No assumption on the state at all. -/
theorem paused_entries_unchanged (op : SupplyOp) (hop : op ≠ .wipe ∧ op ≠ .freeze ∧ op ≠ .unfreeze) (env : Env) (c : Call)
    (A : Accts) (out : VMOutput) (ctx' : Ctx) (h : op.run env c { accts := A } = .ok (out, ctx')) (tok : Bytes)
    (hp : Paused A tok) (hrae : c.rae = false) (hsys : c.caller ≠ systemAccountAddress) (hna : NoAliasCall tok c) :
    (∀ a n, a ≠ esdtSCAddress →
      ctx'.accts.read a (nftKey (esdtKeyPrefix ++ tok) n) = A.read a (nftKey (esdtKeyPrefix ++ tok) n)) ∧
    Paused ctx'.accts tok :=
  paused_step op hop env c A out ctx' h tok hp hrae hsys hna

/-- FULL (operation sequences): along ANY sequence of supply operations (failed ones rolled back) without the system
    contract's wipe / freeze / unfreeze and without return-after-error calls, every entry of a token that is paused at
    the start is byte for byte the same at the end, and the token is still paused -/
theorem paused_entries_history (tok : Bytes) (steps : List SStep) (A : Accts) (hps : ∀ s ∈ steps, PStepOK tok s)
    (hp : Paused A tok) :
    (∀ a n, a ≠ esdtSCAddress →
      (srun steps A).1.read a (nftKey (esdtKeyPrefix ++ tok) n) = A.read a (nftKey (esdtKeyPrefix ++ tok) n)) ∧
    Paused (srun steps A).1 tok :=
  paused_history_run tok steps A hps hp

/-- FULL, pause half, ALL 23 functions (histories; any number of shards; any interleaving): while `tok` is paused on
    shard `i`, no history of ESDTTransfer, ESDTNFTTransfer and MultiESDTNFTTransfer user transactions, deliveries,
    refusals and refunds — of any tokens, any number of items, between any accounts — mixed with calls of the 20 other
    functions by anybody on any shard changes any entry of `tok` on that shard (every account but the ESDT system
    contract's own; the fungible entry and the entry of every nonce; byte for byte: value, flags, metadata) or lifts the
    pause; excluded are exactly the steps the property names — the system contract's wipe / freeze / unfreeze / pause /
    un-pause of that very token, a flagged refund of `tok`, calls flagged return-after-error — and token identifiers
    that alias (`NoAliasTok`, `NoAliasArgs`). Proofs/UnifiedPaused.lean, UnifiedPausedNFT.lean, UnifiedPausedMulti.lean:
    every write goes through a gate that reads the pause flag of the token key (`spec_addToESDTBalance`, `spec_saveNFT`,
    `spec_addNFTToDestination`), the loops of the multi transfer by induction. -/
theorem paused_entries_in_mixed_world (tok : Bytes) (f : Bytes → Nat → Bytes) (e : Env) (i : Nat) (steps : List UStep)
    (w : UWorld) (hI : UInv e w) (hok : UStepsOK e steps w) (hpz : UPzStepsOK3 e tok steps w) (hF : PzW tok f i w) :
    PzW tok f i (urun e steps w).1 :=
  unified_pz_history3 e i steps w hI hok hpz hF

/-! non-vacuity: the world of the frozen example with `fzTok` PAUSED on the shard: bob's mint of it is refused, his transfer
    too, the system contract pauses another token: alice's entry is bit for bit what it was and `fzTok` is still paused -/
def pzA : Accts := fzA.write systemAccountAddress (esdtKeyPrefix ++ fzTok) [1, 0]
def pzW0 : UWorld := { shards := [pzA], ft := [], nft := [], multi := [] }
def pzFinal : UWorld := (urun fzEnv fzSteps pzW0).1

example : (pzFinal.shards[0]?.map fun A => (A.read fzAlice (esdtKeyPrefix ++ fzTok) == encToken fzEntry,
    balOf (A.read fzBob (esdtKeyPrefix ++ fzTok)), pausedIn A (esdtKeyPrefix ++ fzTok), pausedIn A (esdtKeyPrefix ++ [88]))) =
    some (true, 0, true, true) := by decide +kernel

example : PzW fzTok (fun a n => pzA.read a (nftKey (esdtKeyPrefix ++ fzTok) n)) 0 pzW0 :=
  ⟨pzA, rfl, (by show pausedIn pzA (esdtKeyPrefix ++ fzTok) = true; decide +kernel), fun _ _ _ => rfl⟩

theorem noAlias_self (tok : Bytes) : NoAliasTok tok tok := fun h => absurd rfl h

theorem noAlias_88 : NoAliasTok fzTok [88] := by
  intro _ n n' h
  have := congrArg (fun l => l[10]?) h
  simp [nftKey, esdtKeyPrefix, ascii, fzTok] at this

example : UPzStepsOK3 fzEnv fzTok fzSteps pzW0 := by
  show UPzStepsOK fzEnv fzTok fzSteps pzW0
  refine ⟨⟨rfl, ?_, fun h => (by rcases h with h | h | h | h | h <;> cases h)⟩, ⟨rfl, ?_⟩, ⟨rfl, ?_⟩,
    ⟨rfl, ?_, fun _ t0 h0 => ?_⟩, trivial⟩
  · intro t0 h0; simp [fzMint] at h0; subst h0; exact noAlias_self _
  · intro t0 h0; simp [fzToAlice] at h0; subst h0; exact noAlias_self _
  · intro t0 h0; simp [fzToCarol] at h0; subst h0; exact noAlias_self _
  · intro t0 h0; simp [fzPause] at h0; subst h0; exact noAlias_88
  · simp [fzPause] at h0; subst h0; decide

-- Both halves are FULL over histories of all 23 functions (above). What stays with the C04 oracle and the correspondence
-- check: steps outside `UStepOK` (forged destination-form calls, the system account as an ordinary account) and aliasing
-- token identifiers (the adversarial profile).

end C04
