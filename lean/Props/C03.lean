/-
  Props/C03.lean — C03: privileged operations require the right authority.
  Role names and the system-contract address are spec literals, checked against the regenerated constants.
-/
import Proofs.Only
import Facts.Generated
import Proofs.PauseFlagOnly
namespace C03
open Esdt

/-- role literals (spec) and their equality with the code's constants and the model's -/
theorem role_literals :
    Facts.roleLocalMint = ascii "ESDTRoleLocalMint" ∧ Facts.roleLocalBurn = ascii "ESDTRoleLocalBurn" ∧
    Facts.roleNFTCreate = ascii "ESDTRoleNFTCreate" ∧ Facts.roleNFTAddQuantity = ascii "ESDTRoleNFTAddQuantity" ∧
    Facts.roleNFTBurn = ascii "ESDTRoleNFTBurn" ∧ Facts.roleNFTAddURI = ascii "ESDTRoleNFTAddURI" ∧
    Facts.roleNFTUpdateAttributes = ascii "ESDTRoleNFTUpdateAttributes" ∧
    Esdt.roleLocalMint = Facts.roleLocalMint ∧ Esdt.roleLocalBurn = Facts.roleLocalBurn ∧
    Esdt.roleNFTCreate = Facts.roleNFTCreate ∧ Esdt.roleNFTAddQuantity = Facts.roleNFTAddQuantity ∧
    Esdt.roleNFTBurn = Facts.roleNFTBurn ∧ Esdt.roleNFTAddURI = Facts.roleNFTAddURI ∧
    Esdt.roleNFTUpdateAttributes = Facts.roleNFTUpdateAttributes ∧ Esdt.esdtSCAddress = Facts.esdtSCAddress := by decide

/-- the role each role-gated function requires (spec table) -/
def requiredRole : FnId → Option Bytes
  | .localMint => some (ascii "ESDTRoleLocalMint")
  | .localBurn => some (ascii "ESDTRoleLocalBurn")
  | .nftCreate => some (ascii "ESDTRoleNFTCreate")
  | .nftAddQuantity => some (ascii "ESDTRoleNFTAddQuantity")
  | .nftBurn => some (ascii "ESDTRoleNFTBurn")
  | .nftAddURI => some (ascii "ESDTRoleNFTAddURI")
  | .nftUpdateAttributes => some (ascii "ESDTRoleNFTUpdateAttributes")
  | _ => none

/-- FULL (role gate): a role-gated operation succeeds only when the calling account currently holds that specific role
    for that specific token (argument 0) — the role list stored under ELRONDroleesdt‖token in the caller's own account
    decodes and contains the literal; holding every other role, or the role for another token, does not help -/
theorem role_gate (f : FnId) (role : Bytes) (hreq : requiredRole f = some role) (env : Env) (c : Call) (ctx ctx' : Ctx)
    (out : VMOutput) (h : exec env f c ctx = .ok (out, ctx')) :
    ∃ tok, c.args[0]? = some tok ∧ HasRole ctx.accts c.caller tok role := by
  unfold exec at h
  cases f <;> simp only [requiredRole] at hreq <;> try cases hreq
  all_goals simp only [runFn] at h
  · exact (gate_localBurn env c ctx).elim h
  · exact (gate_localMint env c ctx).elim h
  · exact (gate_nftAddQuantity env c ctx).elim h
  · exact (gate_nftBurn env c ctx).elim h
  · exact (gate_nftCreate env c ctx).elim h
  · exact (gate_nftUpdateAttributes env c ctx).elim h
  · exact (gate_nftAddURI env c ctx).elim h

/-- NFT create with quantity > 1 additionally needs the add-quantity role -/
theorem create_quantity_needs_add_role (env : Env) (c : Call) (ctx ctx' : Ctx) (out : VMOutput)
    (h : esdtNFTCreate env c ctx = .ok (out, ctx')) (q : Bytes) (hq : c.args[1]? = some q) (hgt : 1 < beNat q) :
    ∃ tok, c.args[0]? = some tok ∧ HasRole ctx.accts c.caller tok (ascii "ESDTRoleNFTAddQuantity") :=
  (gate_nftCreate_quantity env c ctx).elim h q hq hgt

/-- FULL (system-only): roles, freeze state, wipes and pause state change only through calls whose caller is the ESDT
    system contract address -/
theorem system_only (f : FnId)
    (hf : f = .setRole ∨ f = .unSetRole ∨ f = .esdtFreeze ∨ f = .esdtUnFreeze ∨ f = .esdtWipe ∨ f = .esdtPause ∨ f = .esdtUnPause)
    (env : Env) (c : Call) (ctx ctx' : Ctx) (out : VMOutput) (h : exec env f c ctx = .ok (out, ctx')) :
    c.caller = esdtSCAddress := by
  unfold exec at h
  rcases hf with rfl | rfl | rfl | rfl | rfl | rfl | rfl <;> simp only [runFn] at h
  · exact (sys_esdtRoles true env c ctx).elim h
  · exact (sys_esdtRoles false env c ctx).elim h
  · exact (sys_esdtFreezeWipe .freeze env c ctx).elim h
  · exact (sys_esdtFreezeWipe .unfreeze env c ctx).elim h
  · exact (sys_esdtFreezeWipe .wipe env c ctx).elim h
  · exact (sys_esdtPause true env c ctx).elim h
  · exact (sys_esdtPause false env c ctx).elim h

/-- hand-over of the create role: never when the sender account is local; the step that strips the current holder
    (the one that emits the hand-over message) only for the system contract -/
theorem handover_authority (env : Env) (c : Call) (ctx ctx' : Ctx) (out : VMOutput)
    (h : esdtNFTCreateRoleTransfer env c ctx = .ok (out, ctx')) :
    present env.nshards env.self c.caller = false ∧ present env.nshards env.self c.rcv = true ∧
    (out.outAccts ≠ [] → c.caller = esdtSCAddress) := (handover_guard env c ctx).elim h

/-- a role list can only change through set-role / unset-role / hand-over: every other function leaves every role key
    of every account untouched, whoever calls it -/
theorem roles_change_only_through (f : FnId) (hf : f ≠ .setRole ∧ f ≠ .unSetRole ∧ f ≠ .nftCreateRoleTransfer)
    (env : Env) (c : Call) (ctx ctx' : Ctx) (out : VMOutput) (h : exec env f c ctx = .ok (out, ctx')) (a tok : Bytes) :
    ctx'.accts.read a (roleKeyPrefix ++ tok) = ctx.accts.read a (roleKeyPrefix ++ tok) :=
  roles_only_through f hf env c ctx ctx' out h a tok

/-- ChangeOwnerAddress and ClaimDeveloperRewards take effect (on the shard of the contract) only for the contract's
    current owner; SetUserName only for a configured DNS address.  An attempt by anyone else is an error, hence — with the
    node's rollback — changes no state. -/
theorem owner_only (env : Env) (c : Call) (ctx ctx' : Ctx) (out : VMOutput)
    (hd : present env.nshards env.self c.rcv = true) :
    (changeOwnerAddress env c ctx = .ok (out, ctx') → c.caller = (ctx.accts.get c.rcv).owner) ∧
    (claimDeveloperRewards env c ctx = .ok (out, ctx') → c.caller = (ctx.accts.get c.rcv).owner) :=
  ⟨fun h => (owner_changeOwner env c ctx).elim h hd, fun h => (owner_claim env c ctx).elim h hd⟩

theorem dns_only (env : Env) (c : Call) (ctx ctx' : Ctx) (out : VMOutput)
    (h : setUserName env c ctx = .ok (out, ctx')) : c.caller ∈ env.dns := (dns_setUserName env c ctx).elim h

/-- where the contract does not live (sender shard of a cross-shard call) these three functions change no state at all -/
theorem remote_account_functions_change_nothing (f : FnId)
    (hf : f = .changeOwnerAddress ∨ f = .claimDeveloperRewards ∨ f = .setUserName) (env : Env) (c : Call) (ctx ctx' : Ctx)
    (out : VMOutput) (h : exec env f c ctx = .ok (out, ctx')) (a k : Bytes) :
    ctx'.accts.read a k = ctx.accts.read a k := by
  unfold exec at h
  have r := Frame.refl
  rcases hf with rfl | rfl | rfl <;> simp only [runFn] at h
  · exact (frame_changeOwnerAddress env c ctx _ (r _ _)).elim h a (.key k) (by simp [acctFootprint])
  · exact (frame_claimDeveloperRewards env c ctx _ (r _ _)).elim h a (.key k) (by simp [acctFootprint])
  · exact (frame_setUserName env c ctx _ (r _ _)).elim h a (.key k) (by simp [acctFootprint])

/-- FULL (binding, regenerated from the source by go/ast on every run): the role literal each function passes to
    `CheckAllowedToExecute` is the one `role_gate` assigns to it (create checks the create role, then — for quantity > 1 —
    the add-quantity role) -/
theorem role_checks_as_in_code : Facts.roleChecks =
    [("esdtLocalBurn", "ESDTRoleLocalBurn"),
     ("esdtLocalMint", "ESDTRoleLocalMint"),
     ("esdtNFTAddQuantity", "ESDTRoleNFTAddQuantity"),
     ("esdtNFTAddUri", "ESDTRoleNFTAddURI"),
     ("esdtNFTBurn", "ESDTRoleNFTBurn"),
     ("esdtNFTCreate", "ESDTRoleNFTCreate"),
     ("esdtNFTCreate", "ESDTRoleNFTAddQuantity"),
     ("esdtNFTupdate", "ESDTRoleNFTUpdateAttributes")] := by decide

/-- FULL ("global settings change only through the system contract"): the pause flag of every token — and every other
    token-key slot of the system account — is changed by NO function other than ESDTPause / ESDTUnPause (which succeed
    only for the ESDT system contract: `system_only`): all 21 other functions, any caller, any arguments, transfers with
    any number of items, on every state; the one premise is App. C E6 — the system account is the global-settings store
    and is not used as caller, receiver or destination (Proofs/PauseFlagOnly.lean: a preservation calculus through every
    helper that writes, the multi-transfer loops by induction). -/
theorem pause_flag_changes_only_through (f : FnId) (hf : f ≠ .esdtPause ∧ f ≠ .esdtUnPause) (env : Env) (c : Call)
    (A : Accts) (out : VMOutput) (ctx' : Ctx) (hs : SysUntouched c) (h : exec env f c { accts := A } = .ok (out, ctx'))
    (tok : Bytes) :
    ctx'.accts.read systemAccountAddress (esdtKeyPrefix ++ tok) = A.read systemAccountAddress (esdtKeyPrefix ++ tok) ∧
    pausedIn ctx'.accts (esdtKeyPrefix ++ tok) = pausedIn A (esdtKeyPrefix ++ tok) := by
  have hr : ctx'.accts.read systemAccountAddress (esdtKeyPrefix ++ tok) = A.read systemAccountAddress (esdtKeyPrefix ++ tok) :=
    sys_slot_step f hf env c A out ctx' hs (tokKey_esdt tok) rfl h
  exact ⟨hr, by unfold pausedIn; rw [hr]⟩

/-- non-vacuity of E6 for an ordinary call -/
example : SysUntouched { fn := fnESDTLocalMint, caller := List.replicate 32 1, rcv := List.replicate 32 1, args := [[70, 84], [9]] } := by
  refine ⟨by decide, by decide, fun a ha => ?_⟩
  simp only [List.mem_cons, List.mem_nil_iff, or_false] at ha
  rcases ha with rfl | rfl <;> decide

end C03
