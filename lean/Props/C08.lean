/-
  Props/C08.lean — C08: NFT metadata travels intact with the tokens.
  Creation records exactly the given metadata; every hop (sender debit, wire encoding with the production layout, decoding,
  destination merge) keeps the whole entry except `Value`; a different hash at the destination rejects; AddURI and
  UpdateAttributes change exactly one metadata field.  The statement over chains is the composition of the per-hop
  theorems (each hop's output entry is the next hop's input entry); the metadata oracle follows the decoded TokenMetaData
  along generated chains on the implementation.
-/
import Proofs.Metadata
import Proofs.Parsers
import Proofs.NetworkMeta
import Proofs.NetworkMultiMeta
import Proofs.MetaHistory
import Proofs.UnifiedMeta
import Props.C01
namespace C08
open Esdt

/-- metadata of a stored entry (`none` when the slot is empty or undecodable) -/
def mdOf (raw : Bytes) : Option MetaData := if raw = [] then none else (decToken raw).bind (·.md)

/-- FULL (creation): the entry stored under token‖new nonce carries nonce = new nonce, name, creator = the creating
    account, royalties (≤ 10000), hash, attributes and URIs exactly as given -/
theorem create_records (env : Env) (c : Call) (ctx ctx' : Ctx) (out : VMOutput)
    (h : esdtNFTCreate env c ctx = .ok (out, ctx')) :
    ∃ tok qb name roy hash attrs n t m, c.args[0]? = some tok ∧ c.args[1]? = some qb ∧ c.args[2]? = some name ∧
      c.args[3]? = some roy ∧ c.args[4]? = some hash ∧ c.args[5]? = some attrs ∧ out.ret = [beBytes n] ∧
      ctx'.accts.read c.caller (nftKey (esdtKeyPrefix ++ tok) n) = nftStoredForm t ∧
      t.type = 1 ∧ t.value = some (beNat qb : Int) ∧ 0 < beNat qb ∧ t.md = some m ∧
      m = { nonce := n, name := name, creator := c.caller, royalties := u32 (u64 (beNat roy)), hash := hash,
            attributes := attrs, uris := c.args.drop 6 } ∧
      m.royalties ≤ 10000 := by
  obtain ⟨tok, qb, name, roy, hash, attrs, n, A1, h0, h1, h2, h3, h4, h5, _, hq, hroy, hret, hA1, hw⟩ :=
    (nftCreate_effect env c ctx).elim h
  refine ⟨tok, qb, name, roy, hash, attrs, n, createdToken c qb name roy hash attrs n, _, h0, h1, h2, h3, h4, h5, hret, ?_,
    rfl, rfl, Nat.pos_of_ne_zero hq, rfl, rfl, hroy⟩
  have hne : ¬ (c.caller = c.caller ∧ nonceKeyPrefix ++ tok = nftKey (esdtKeyPrefix ++ tok) n) := by
    rintro ⟨_, he⟩
    have := congrArg (List.take 7) he
    simp [nonceKeyPrefix, esdtKeyPrefix, nftKey, ascii] at this
  rw [hw, Accts.read_write, if_neg hne, hA1, Accts.read_write, if_pos ⟨rfl, rfl⟩]

/-- royalties above 10000 (also 2^32+1-style wrap-arounds: the comparison is on the truncated 32-bit value the entry would
    store) never create -/
theorem create_rejects_royalties (env : Env) (c : Call) (ctx ctx' : Ctx) (out : VMOutput) (roy : Bytes)
    (h3 : c.args[3]? = some roy) (hbig : 10000 < u32 (u64 (beNat roy))) :
    esdtNFTCreate env c ctx ≠ .ok (out, ctx') := by
  intro h
  obtain ⟨_, _, _, roy', _, _, _, _, _, _, _, _, h3', _, _, _, _, _, _, _, _, hm, hle⟩ := create_records env c ctx ctx' out h
  rw [h3] at h3'; cases h3'
  rw [hm] at hle
  exact absurd hle (by simp only; omega)

/-- reading an entry back: whatever `saveESDTNFTToken` stored with a positive value decodes to the same token,
    metadata included (production wire layout, Proofs/Codec) -/
theorem stored_reads_back (t : Token) (v : Int) (hv : t.value = some v) (hpos : 0 < v) (hok : TokenOK t) :
    decToken (nftStoredForm t) = some t ∧ mdOf (nftStoredForm t) = t.md := by
  have hs : nftStoredForm t = encToken t := by
    unfold nftStoredForm; rw [hv]; simp only; rw [if_neg (by omega)]
  rw [hs]
  refine ⟨decToken_encToken t hok, ?_⟩
  simp [mdOf, encToken_ne_nil, decToken_encToken t hok]

/-- the wire: the 4th argument of a cross-shard message decodes to the sender's whole entry with only `Value` replaced -/
theorem wire_roundtrip (t : Token) (q : Int) (hok : TokenOK { t with value := some q }) :
    decToken (encToken { t with value := some q }) = some { t with value := some q } :=
  decToken_encToken _ hok

/-- FULL (one cross-shard hop, single transfer): if the sender-side call succeeds and the destination-side call executes
    the message it emitted (arguments parsed back from the message data), then the destination's entry after the hop is the
    SENDER's entry before the hop with only `Value` changed (quantity + what the destination held) — every metadata
    field, type, properties and reserved bytes unchanged — or the slot is empty when that sum is not positive -/
theorem cross_shard_hop (envS envD : Env) (cS cD : Call) (ctxS ctxS' ctxD ctxD' : Ctx) (outS outD : VMOutput)
    (hself : cS.caller = cS.rcv) (hpres : present envS.nshards envS.self cS.caller = true)
    (hx : ∀ d, cS.args[3]? = some d → envS.self ≠ shardOf envS.nshards d)
    (hS : esdtNFTTransfer envS cS ctxS = .ok (outS, ctxS'))
    (hne : cD.caller ≠ cD.rcv)
    (hdeliver : ∀ dst tr, outS.outAccts = [{ addr := dst, transfers := [tr] }] →
      cD.rcv = dst ∧ parseCall tr.data = .ok (cD.fn, cD.args))
    (hD : esdtNFTTransfer envD cD ctxD = .ok (outD, ctxD'))
    (hok : ∀ t q, decToken (ctxS.accts.read cS.caller
        (nftKey (esdtKeyPrefix ++ (cS.args[0]?).getD []) (u64 (beNat ((cS.args[1]?).getD []))))) = some t →
        TokenOK { t with value := some q }) :
    ∃ tok nb qb t cv, cS.args[0]? = some tok ∧ cS.args[1]? = some nb ∧ cS.args[2]? = some qb ∧
      decToken (ctxS.accts.read cS.caller (nftKey (esdtKeyPrefix ++ tok) (u64 (beNat nb)))) = some t ∧
      ctxD'.accts.read cD.rcv (nftKey (esdtKeyPrefix ++ tok) (mdNonce t)) =
        nftStoredForm { t with value := some ((beNat qb : Int) + cv) } := by
  -- sender side
  have hS' : esdtNFTTransferSender envS cS ctxS = .ok (outS, ctxS') :=
    (nftTransfer_sender_path envS cS ctxS hself).elim hS
  obtain ⟨tok, nb, qb, dst, t, v, h0, h1, h2, h3, _, _, hw, tr, hout, hdata⟩ :=
    (nftTransferSender_crossShard_effect envS cS ctxS hpres hx).elim hS'
  obtain ⟨hrcv, hparse⟩ := hdeliver dst tr hout
  rw [hdata, parseCall_encodeCall _ _ (by decide) (by decide)] at hparse
  injection hparse with hparse
  have hargs : cD.args = cS.args.take 3 ++ [encToken { t with value := some (beNat qb : Int) }] ++
      (if cS.args.length > 4 then cS.args.drop 4 else []) := (Prod.mk.inj hparse).2.symm
  have hlen : 4 ≤ cS.args.length := by
    have := (List.getElem?_eq_some_iff.mp h3).1; omega
  have hd0 : cD.args[0]? = some tok := by
    rw [hargs, List.append_assoc, List.getElem?_append_left (by simp; omega), List.getElem?_take_of_lt (by omega)]
    exact h0
  have hd3 : cD.args[3]? = some (encToken { t with value := some (beNat qb : Int) }) := by
    rw [hargs, List.append_assoc, List.getElem?_append_right (by simp; omega)]
    simp [Nat.min_eq_left (by omega : 3 ≤ cS.args.length)]
  -- destination side
  obtain ⟨tok', payload, t2, cur, tv, cv, h0', h3', hdec, _, _, _, _, _, _, htv, _, hwD⟩ :=
    (nftTransfer_dest_effect envD cD ctxD hne).elim hD
  rw [hd0] at h0'; cases h0'
  rw [hd3] at h3'; cases h3'
  have htok : TokenOK { t with value := some (beNat qb : Int) } := by
    apply hok; rw [h0, h1]; exact hw.old
  rw [wire_roundtrip t _ htok] at hdec
  cases hdec
  injection htv with htv
  subst htv
  refine ⟨tok, nb, qb, t, cv, h0, h1, h2, hw.old, ?_⟩
  rw [hwD, Accts.read_write, if_pos ⟨rfl, rfl⟩]

/-- FULL (hash comparison): a successful arrival implies that whatever the destination held under the same token and
    nonce carried the same hash; contrapositive: a different hash rejects the transfer — whatever the call's type and
    flags: a refund flagged return-after-error that comes home to ANOTHER NFT is refused too (the flag lifts the freeze /
    pause gate, not the identity of the token; cf. seeded change C08-h) -/
theorem different_hash_rejected (env : Env) (c : Call) (ctx ctx' : Ctx) (out : VMOutput) (hne : c.caller ≠ c.rcv)
    (tok payload : Bytes) (t cur : Token) (cm tm : MetaData)
    (h0 : c.args[0]? = some tok) (h3 : c.args[3]? = some payload) (hdec : decToken payload = some t)
    (hcur : tokenOf (ctx.accts.read c.rcv (nftKey (esdtKeyPrefix ++ tok) (mdNonce t))) = some cur)
    (hcm : cur.md = some cm) (htm : t.md = some tm) (hdiff : cm.hash ≠ tm.hash) :
    esdtNFTTransfer env c ctx ≠ .ok (out, ctx') := by
  intro h
  obtain ⟨tok', payload', t', cur', _, _, h0', h3', hdec', _, _, hcur', _, _, hh, _⟩ :=
    (nftTransfer_dest_effect env c ctx hne).elim h
  rw [h0] at h0'; cases h0'
  rw [h3] at h3'; cases h3'
  rw [hdec] at hdec'; cases hdec'
  rw [hcur] at hcur'; cases hcur'
  obtain ⟨tm', htm', heq⟩ := hh cm hcm
  rw [htm] at htm'; cases htm'
  exact hdiff heq

/-- same-shard single transfer: sender debited with all other fields kept, destination receives the sender's whole entry
    with `Value := quantity + existing`, same-hash check included -/
theorem same_shard_hop (env : Env) (c : Call) (ctx ctx' : Ctx) (out : VMOutput)
    (hs : present env.nshards env.self c.caller = true)
    (hx : ∀ d, c.args[3]? = some d → env.self = shardOf env.nshards d)
    (h : esdtNFTTransferSender env c ctx = .ok (out, ctx')) :
    ∃ tok nb qb dst t v A1 cur cv, c.args[0]? = some tok ∧ c.args[1]? = some nb ∧ c.args[2]? = some qb ∧
      c.args[3]? = some dst ∧
      NftWrite ctx.accts A1 c.caller (esdtKeyPrefix ++ tok) (u64 (beNat nb)) t v (v - beNat qb) ∧
      tokenOf (A1.read dst (nftKey (esdtKeyPrefix ++ tok) (mdNonce t))) = some cur ∧
      (∀ cm, cur.md = some cm → ∃ tm, t.md = some tm ∧ cm.hash = tm.hash) ∧ cur.value = some cv ∧
      ctx'.accts = A1.write dst (nftKey (esdtKeyPrefix ++ tok) (mdNonce t))
        (nftStoredForm { t with value := some ((beNat qb : Int) + cv) }) := by
  obtain ⟨tok, nb, qb, dst, t, v, A1, cur, cv, h0, h1, h2, h3, _, _, hw, hcur, hh, hcv, hfin⟩ :=
    (nftTransferSender_sameShard_effect env c ctx hs hx).elim h
  exact ⟨tok, nb, qb, dst, t, v, A1, cur, cv, h0, h1, h2, h3, hw, hcur, hh, hcv, hfin⟩

/-- one item of a multi transfer on the sender's shard: same shape as the single transfer (entry kept except `Value`;
    local destination merged after the hash check, remote destination gets the whole entry with `Value := quantity`) -/
theorem multi_item (env : Env) (c : Call) (l : Bool) (dst tok : Bytes) (n q : Nat) (verify : Bool) (ctx ctx' : Ctx) (t' : Token)
    (h : transferOne env c l dst tok n q verify ctx = .ok (t', ctx')) :
    ∃ t v, decToken (ctx.accts.read c.caller (nftKey (esdtKeyPrefix ++ tok) n)) = some t ∧ t.value = some v ∧
      t'.md = t.md ∧ t'.type = t.type ∧ t'.properties = t.properties ∧ t'.reserved = t.reserved := by
  obtain ⟨t, v, A1, _, _, _, hdec, hv, _, hf, ht⟩ := (transferOne_effect env c l dst tok n q verify ctx).elim h
  refine ⟨t, v, hdec, hv, ?_⟩
  cases l
  · obtain ⟨e, _⟩ := hf rfl; subst e; exact ⟨rfl, rfl, rfl, rfl⟩
  · obtain ⟨_, _, _, _, _, e, _⟩ := ht rfl; subst e; exact ⟨rfl, rfl, rfl, rfl⟩

/-- … and what the multi transfer puts on the wire for an NFT item is (token, metadata nonce, encoding of that token) -/
theorem multi_payload (env : Env) (tok : Bytes) (t : Token) (m : MetaData) (hm : t.md = some m)
    (rest : List (Bytes × Token)) (g : Nat) (ctx ctx' : Ctx) (r : List Bytes × Nat)
    (h : multiPayloadLoop env ((tok, t) :: rest) g ctx = .ok (r, ctx')) :
    ∃ args, r.1 = tok :: beBytes m.nonce :: encToken t :: args :=
  (multiPayloadLoop_head env tok t m hm rest g ctx).elim h

/-- FULL (only two functions alter metadata — positive half): ESDTNFTAddURI appends exactly the given URIs … -/
theorem addURI_exact (env : Env) (c : Call) (ctx ctx' : Ctx) (out : VMOutput)
    (h : esdtNFTAddURI env c ctx = .ok (out, ctx')) :
    ∃ tok nb t m, c.args[0]? = some tok ∧ c.args[1]? = some nb ∧
      decToken (ctx.accts.read c.caller (nftKey (esdtKeyPrefix ++ tok) (u64 (beNat nb)))) = some t ∧ t.md = some m ∧
      ctx'.accts = ctx.accts.write c.caller (nftKey (esdtKeyPrefix ++ tok) m.nonce)
        (nftStoredForm { t with md := some { m with uris := m.uris ++ c.args.drop 2 } }) := by
  obtain ⟨tok, nb, t, m, h0, h1, _, hw⟩ := (addURI_effect env c ctx).elim h
  exact ⟨tok, nb, t, m, h0, h1, hw.old, hw.hasMeta, hw.written⟩

/-- … and ESDTNFTUpdateAttributes replaces exactly the attributes -/
theorem updateAttributes_exact (env : Env) (c : Call) (ctx ctx' : Ctx) (out : VMOutput)
    (h : esdtNFTUpdateAttributes env c ctx = .ok (out, ctx')) :
    ∃ tok nb attrs t m, c.args[0]? = some tok ∧ c.args[1]? = some nb ∧ c.args[2]? = some attrs ∧
      decToken (ctx.accts.read c.caller (nftKey (esdtKeyPrefix ++ tok) (u64 (beNat nb)))) = some t ∧ t.md = some m ∧
      ctx'.accts = ctx.accts.write c.caller (nftKey (esdtKeyPrefix ++ tok) m.nonce)
        (nftStoredForm { t with md := some { m with attributes := attrs } }) := by
  obtain ⟨tok, nb, attrs, t, m, h0, h1, h2, _, hw⟩ := (updateAttributes_effect env c ctx).elim h
  exact ⟨tok, nb, attrs, t, m, h0, h1, h2, hw.old, hw.hasMeta, hw.written⟩

/-- (negative half, quantity functions) ESDTNFTAddQuantity and ESDTNFTBurn rewrite the entry with only `Value` changed -/
theorem quantity_functions_keep_metadata (env : Env) (c : Call) (ctx ctx' : Ctx) (out : VMOutput)
    (h : esdtNFTAddQuantity env c ctx = .ok (out, ctx') ∨ esdtNFTBurn env c ctx = .ok (out, ctx')) :
    ∃ tok nb t v v', c.args[0]? = some tok ∧ c.args[1]? = some nb ∧
      NftWrite ctx.accts ctx'.accts c.caller (esdtKeyPrefix ++ tok) (u64 (beNat nb)) t v v' := by
  rcases h with h | h
  · obtain ⟨tok, nb, _, t, v, h0, h1, _, _, hw, _⟩ := (addQuantity_effect env c ctx).elim h
    exact ⟨tok, nb, t, v, _, h0, h1, hw⟩
  · obtain ⟨tok, nb, _, t, v, h0, h1, _, _, _, hw, _⟩ := (nftBurn_effect env c ctx).elim h
    exact ⟨tok, nb, t, v, _, h0, h1, hw⟩

-- PARTIAL (what is not a theorem): chains through MultiESDTNFTTransfer at history level; and for the remaining functions
-- (fungible ledger functions, freeze/wipe/pause/roles, account-level functions,
-- SaveKeyValue) are shown not to write outside their footprint (C05) and, where they write token entries, to write
-- `storedForm` of the decoded entry with only value/properties changed (Proofs/Ledger `OneWrite`); that none of them
-- rewrites an NFT entry's metadata on ANY history additionally needs the well-formedness invariant of C15 (fungible keys
-- hold no metadata) and is decided by the metadata oracle on generated histories.

/-- FULL (history level, single NFT / SFT transfers): along ANY history of ESDTNFTTransfer transactions (same-shard or
    cross-shard), deliveries of the emitted messages in any order, failed deliveries turned into refunds, and refunds —
    whatever else is transferred in between, aliasing token identifiers included — every copy of an NFT keeps the metadata
    it started with: if every entry stored under key `k` (in any account of any shard) and every payload in flight for
    `k` carries metadata `m0` in the initial world, so does every one in every reachable world.  (ESDTNFTAddURI /
    ESDTNFTUpdateAttributes are not steps of this world: they are the two functions that change metadata, `addURI_exact`,
    `updateAttributes_exact`.)  Hypotheses on the initial world only (`NWorldInv`, see C01.nft_conservation_history). -/
theorem metadata_intact_history (m0 : MetaData) (k : Bytes) (e : Env) (steps : List NStep) (w : NFTWorld)
    (hI : NWorldInv e w) (hM : MdInv m0 k w) (hok : ∀ s ∈ steps, NFTStepOK s) :
    MdInv m0 k (nftRun e steps w) :=
  nftRun_md m0 k e steps w hI hM hok

/-- what `MdInv` says, spelled out for a stored entry of a reachable world -/
theorem metadata_intact_entry (m0 : MetaData) (k : Bytes) (e : Env) (steps : List NStep) (w : NFTWorld)
    (hI : NWorldInv e w) (hM : MdInv m0 k w) (hok : ∀ s ∈ steps, NFTStepOK s)
    (A : Accts) (hA : A ∈ (nftRun e steps w).shards) (a : Bytes) (t : Token)
    (hne : A.read a k ≠ []) (hdec : decToken (A.read a k) = some t) : t.md = some m0 :=
  (metadata_intact_history m0 k e steps w hI hM hok).shards A hA a t hne hdec

/-- FULL (history level, MultiESDTNFTTransfer): along ANY history of multi-transfer transactions (any mix of fungible, SFT
    and NFT items, repeated items, same-shard or cross-shard), deliveries in any order, failed deliveries turned into
    refunds, and refunds — aliasing token identifiers included — every copy of an NFT keeps the metadata it started with:
    if every entry stored under key `k` (any account, any shard) and every item in flight that will be credited under `k`
    carries metadata `m0` in the initial world, so does every one in every reachable world; and no fungible item is ever
    credited under `k` (`loopMd`).  Hypotheses on the initial world only (`MWorldInv`, see C01.multi_conservation_history). -/
theorem multi_metadata_intact_history (m0 : MetaData) (k : Bytes) (e : Env) (steps : List NStep) (w : MWorld)
    (hI : MWorldInv e w) (hM : MMdInv m0 k w) (hok : ∀ s ∈ steps, MultiStepOK s) :
    MMdInv m0 k (multiRun e steps w) :=
  multiRun_md m0 k e steps w hI hM hok

/-- spelled out for a stored entry of a reachable world -/
theorem multi_metadata_intact_entry (m0 : MetaData) (k : Bytes) (e : Env) (steps : List NStep) (w : MWorld)
    (hI : MWorldInv e w) (hM : MMdInv m0 k w) (hok : ∀ s ∈ steps, MultiStepOK s)
    (A : Accts) (hA : A ∈ (multiRun e steps w).shards) (a : Bytes) (t : Token)
    (hne : A.read a k ≠ []) (hdec : decToken (A.read a k) = some t) : t.md = some m0 :=
  (multi_metadata_intact_history m0 k e steps w hI hM hok).shards A hA a t hne hdec

/-- non-vacuity: the two-shard world of C01's multi-transfer example meets `MMdInv` for the SFT's key and metadata (its
    `MWorldInv` is proved there), and after the transfer and the delivery bob's copy decodes with that metadata -/
example : MMdInv { nonce := 1, name := [110], creator := C01.nvAlice, hash := [104] } C01.nvKey C01.nvMW0 := by
  refine ⟨?_, fun m hm => (by cases hm)⟩
  intro A hA
  simp only [C01.nvMW0, List.mem_cons, List.not_mem_nil, or_false] at hA
  rcases hA with rfl | rfl
  · intro a t hne hdec
    have hread : C01.nvMA0.read a C01.nvKey =
        if C01.nvAlice = a ∧ C01.nvFKey = C01.nvKey then encToken C01.nvFEntry
        else if C01.nvAlice = a ∧ C01.nvKey = C01.nvKey then encToken C01.nvEntry else [] := by
      unfold C01.nvMA0; rw [Accts.read_write, Accts.read_write]; rfl
    have hk : ¬ (C01.nvFKey = C01.nvKey) := by decide
    rw [hread, if_neg (fun h => hk h.2)] at hne hdec
    split at hne
    · rename_i h
      rw [if_pos h, C01.nvEntry_dec] at hdec
      cases hdec; rfl
    · exact absurd rfl hne
  · intro a t hne _; exact absurd rfl hne

example : (match ((multiRun C01.nvEnv [.user C01.nvMXfer, .deliver 0] C01.nvMW0).shards[1]?).map
      (fun A => decToken (A.read C01.nvBob C01.nvKey)) with
    | some (some t) => t.md == some { nonce := 1, name := [110], creator := C01.nvAlice, hash := [104] } && t.value == some 3
    | _ => false) = true := by decide +kernel

/-- FULL ("no other function rewrites metadata", the supply operations): along ANY sequence of local mints, local burns,
    burns, NFT creates, add-quantities, NFT burns, wipes, freezes and unfreezes by anyone with any arguments (failed ones
    rolled back), every entry stored under an NFT's key `k` keeps the metadata it had — under the hypothesis `MStepOK`
    that token identifiers do not alias (`k` is not the fungible key of a token a fungible operation names) and that a
    create does not issue the nonce of `k` again (C07).  With `metadata_intact_history` / `multi_metadata_intact_history`
    (the three transfer functions) the only functions that change an NFT's metadata are ESDTNFTAddURI and
    ESDTNFTUpdateAttributes (`addURI_exact`, `updateAttributes_exact`); the remaining ten functions write no token key of a
    user account at all (C02.role_pause_handover_leave_balances, account_functions_touch_no_token,
    saveKeyValue_touches_no_token). -/
theorem supply_operations_keep_metadata (m0 : MetaData) (k : Bytes) (hk : TokKey k) (steps : List SStep) (A : Accts)
    (hI : SInv A) (hok : SStepsOK steps A) (hms : ∀ s ∈ steps, MStepOK k s) (hM : AllMd m0 k A) :
    AllMd m0 k (srun steps A).1 :=
  meta_history_run m0 k hk steps A hI hok hms hM

/-! ### metadata in the ONE world that mixes all 23 functions (Proofs/UnifiedMeta.lean) -/

/-- FULL (histories; every function, every interleaving, any number of shards): in the world where the three transfer
    functions (user transactions, deliveries, refusals, refunds — each kind of message in flight) are interleaved in any
    order with calls of the 20 other functions by anybody on any shard, every copy of the NFT stored under key `k` — on any
    shard, as the payload of an ESDTNFTTransfer message, as an item of a MultiESDTNFTTransfer message — has the metadata
    `m0` after the history if every copy had it before.  Hypotheses: the world invariant and `UMdInv` of the INITIAL world,
    the admissibility of each step (`UStepOK`), and for the NFT under `k` (`UMdStepOK`): token identifiers do not alias
    (no fungible operation or ESDTTransfer is aimed at `k`), a create does not issue the nonce of `k` again (C07), and
    ESDTNFTAddURI / ESDTNFTUpdateAttributes — the two functions that DO change metadata (`addURI_exact`,
    `updateAttributes_exact`) — are aimed at other entries. -/
theorem metadata_intact_in_mixed_world (m0 : MetaData) (k : Bytes) (hk : TokKey k) (e : Env) (steps : List UStep)
    (w : UWorld) (hI : UInv e w) (hok : UStepsOK e steps w) (hmk : UMdStepsOK e k steps) (hM : UMdInv m0 k w) :
    UMdInv m0 k (urun e steps w).1 :=
  unified_md_history m0 k hk e steps w hI hok hmk hM

/-- what the invariant gives for one stored entry -/
theorem mixed_world_entry (m0 : MetaData) (k : Bytes) (hk : TokKey k) (e : Env) (steps : List UStep)
    (w : UWorld) (hI : UInv e w) (hok : UStepsOK e steps w) (hmk : UMdStepsOK e k steps) (hM : UMdInv m0 k w)
    (A : Accts) (hA : A ∈ (urun e steps w).1.shards) (a : Bytes) (t : Token)
    (hne : A.read a k ≠ []) (hdec : decToken (A.read a k) = some t) : t.md = some m0 :=
  (metadata_intact_in_mixed_world m0 k hk e steps w hI hok hmk hM).shards A hA a t hne hdec

/-! non-vacuity: the two-shard world of C01's multi-transfer example; alice sends her 3 SFT pieces and 5 fungible tokens to
    bob in one multi transfer, 2 more fungible tokens by ESDTTransfer while that message is in flight; bob sends one piece
    back by ESDTNFTTransfer; all three messages are delivered: alice holds 1 piece, bob 2, both with the metadata -/
def uvMd : MetaData := { nonce := 1, name := [110], creator := C01.nvAlice, hash := [104] }
def uvW0 : UWorld := { shards := C01.nvMW0.shards, ft := [], nft := [], multi := [] }
def uvFtx : Call := { fn := fnESDTTransfer, caller := C01.nvAlice, rcv := C01.nvBob, args := [C01.nvFT, [2]], gas := 100 }
def uvBack : Call :=
  { fn := fnESDTNFTTransfer, caller := C01.nvBob, rcv := C01.nvBob, args := [C01.nvNFT, [1], [1], C01.nvAlice], gas := 1000 }
def uvSteps : List UStep :=
  [.multi (.user C01.nvMXfer), .ft (.user uvFtx), .multi (.deliver 0), .nft (.user uvBack), .ft (.deliver 0), .nft (.deliver 0)]

def uvFinal : UWorld := (urun C01.nvEnv uvSteps uvW0).1
example : uvFinal.shards.map (fun A => (balAt A C01.nvKey, balAt A C01.nvFKey)) = [(1, 3), (2, 7)] ∧
    uvFinal.ft.length = 0 ∧ uvFinal.nft.length = 0 ∧ uvFinal.multi.length = 0 ∧
    (uvFinal.shards[0]?.map fun A => (decToken (A.read C01.nvAlice C01.nvKey)).map (·.md == some uvMd)) = some (some true) ∧
    (uvFinal.shards[1]?.map fun A => (decToken (A.read C01.nvBob C01.nvKey)).map (·.md == some uvMd)) = some (some true) := by
  decide +kernel

example : UInv C01.nvEnv uvW0 :=
  ⟨C01.nvMW0_inv.shards, fun _ h => (by cases h), fun _ h => (by cases h), fun _ h => (by cases h)⟩

example : UStepsOK C01.nvEnv uvSteps uvW0 :=
  ⟨⟨rfl, by decide, fun d hd => by simp [C01.nvMXfer] at hd; subst hd; decide⟩,
   ⟨by decide, by decide⟩, trivial,
   ⟨rfl, by decide, fun d hd => by simp [uvBack] at hd; subst hd; decide⟩, trivial, trivial, trivial⟩

example : UMdStepsOK C01.nvEnv C01.nvKey uvSteps := by
  intro st hst
  simp only [uvSteps, List.mem_cons, List.mem_nil_iff, or_false] at hst
  rcases hst with rfl | rfl | rfl | rfl | rfl | rfl <;> try trivial
  intro tok h
  simp [uvFtx] at h
  subst h
  decide

end C08
