/-
  Props/C20.lean — C20: shared VM helper types obey their algebraic laws.
  Mask constants and documented addresses are spec literals here; `Facts.*` are regenerated from /repo.
-/
import Model.Helpers
import Proofs.Merge
import Facts.Generated
namespace C20
open Esdt

theorem forall_byte (P : UInt8 → Prop) (h : ∀ i : Fin 256, P (UInt8.ofNat i.val)) : ∀ b : UInt8, P b := by
  intro b
  have := h ⟨b.toNat, b.toNat_lt⟩
  simpa using this

/-! ### code metadata: documented masks upgradeable = 1, readable = 4 (byte 0), payable = 2 (byte 1) -/

theorem code_masks : Facts.metadataUpgradeable = 1 ∧ Facts.metadataReadable = 4 ∧ Facts.metadataPayable = 2 := by decide

/-- value → bytes → value, for every value -/
theorem codeMetadata_from_to : ∀ (u p r : Bool),
    codeMetadataFromBytes (CodeMetadata.toBytes { payable := p, upgradeable := u, readable := r }) =
      { payable := p, upgradeable := u, readable := r } := by decide

theorem byte0_code : ∀ b : UInt8, (codeMetadataFromBytes [b, 0]).toBytes = [b &&& 5, 0] := by
  apply forall_byte; decide +kernel
theorem byte1_code : ∀ b : UInt8, (codeMetadataFromBytes [0, b]).toBytes = [0, b &&& 2] := by
  apply forall_byte; decide +kernel

/-- bytes → value → bytes keeps exactly the documented bits, for all 65,536 byte pairs
    (each output byte depends on one input byte only: 2 × 256 kernel-checked cases) -/
theorem codeMetadata_to_from (b0 b1 : UInt8) :
    (codeMetadataFromBytes [b0, b1]).toBytes = [b0 &&& 5, b1 &&& 2] := by
  have h0 := byte0_code b0
  have h1 := byte1_code b1
  simp only [codeMetadataFromBytes, CodeMetadata.toBytes, List.cons.injEq] at h0 h1 ⊢
  exact ⟨h0.1, h1.2.1, trivial⟩

/-- inputs of any other length decode to the empty value -/
theorem codeMetadata_other_length (b : Bytes) (h : b.length ≠ 2) : codeMetadataFromBytes b = {} := by
  match b, h with
  | [], _ => rfl
  | [_], _ => rfl
  | _ :: _ :: _ :: _, _ => rfl

/-! ### ESDT freeze / pause flag bytes: documented mask 1 in byte 0 -/

theorem esdt_masks : Facts.metadataFrozen = 1 ∧ Facts.metadataPaused = 1 := by decide

theorem frozen_from_to (f : Bool) : frozenOf (flagBytes f) = f := by cases f <;> decide
theorem paused_from_to (f : Bool) : pausedOf (flagBytes f) = f := by cases f <;> decide

theorem byte0_frozen : ∀ b : UInt8, flagBytes (frozenOf [b, 0]) = [b &&& 1, 0] := by
  apply forall_byte; decide +kernel
theorem byte0_paused : ∀ b : UInt8, flagBytes (pausedOf [b, 0]) = [b &&& 1, 0] := by
  apply forall_byte; decide +kernel

theorem frozen_to_from (b0 b1 : UInt8) : flagBytes (frozenOf [b0, b1]) = [b0 &&& 1, 0] := byte0_frozen b0
theorem paused_to_from (b0 b1 : UInt8) : flagBytes (pausedOf [b0, b1]) = [b0 &&& 1, 0] := byte0_paused b0

theorem flags_other_length (b : Bytes) (h : b.length ≠ 2) : frozenOf b = false ∧ pausedOf b = false := by
  match b, h with
  | [], _ => exact ⟨rfl, rfl⟩
  | [_], _ => exact ⟨rfl, rfl⟩
  | _ :: _ :: _ :: _, _ => exact ⟨rfl, rfl⟩

/-! ### address classification: total (the model's slicing is `take`/`drop`, guarded like the Go code —
    the correspondence check reports a panic of the real classifiers on any length 0..40) and consistent -/

/-- a metachain contract address is a contract address -/
theorem metachain_sc_is_sc (id a : Bytes) (h : isSmartContractOnMetachain id a = true) :
    isSmartContractAddress a = true := by
  unfold isSmartContractOnMetachain at h
  split at h
  · simp at h
  · split at h
    · simp at h
    · split at h
      · simp at h
      · rename_i hsc; simpa using hsc

/-- documented addresses (spec literals) and their classification -/
def systemAccount : Bytes := List.replicate 32 255
def esdtSystemContract : Bytes := [0,0,0,0,0,0,0,0,0,1,0,0,0,0,0,0,0,0,0,0,0,0,0,0,0,0,0,0,0,2,255,255]

theorem addresses_as_documented :
    Facts.systemAccountAddress = systemAccount ∧ Facts.esdtSCAddress = esdtSystemContract ∧
    Esdt.systemAccountAddress = systemAccount ∧ Esdt.esdtSCAddress = esdtSystemContract := by decide

theorem system_account_classification :
    isSystemAccountAddress systemAccount = true ∧ isSmartContractAddress systemAccount = false ∧
    isSmartContractOnMetachain [255] systemAccount = false ∧ isEmptyAddress systemAccount = false := by decide

theorem esdt_sc_classification :
    isSmartContractAddress esdtSystemContract = true ∧ isSmartContractOnMetachain [255] esdtSystemContract = true ∧
    isSystemAccountAddress esdtSystemContract = false ∧ isMetachainIdentifier [255, 255] = true ∧
    isMetachainIdentifier [] = false := by decide

/-- short inputs are classified, not sliced out of range -/
theorem short_addresses (a : Bytes) (h : a.length ≤ 10) :
    isSmartContractAddress a = false ∧ isSmartContractOnMetachain [255] a = false ∧ isSystemAccountAddress a = false := by
  refine ⟨by simp [isSmartContractAddress, h], ?_, ?_⟩
  · have : a.length ≤ 25 := by omega
    simp [isSmartContractOnMetachain, this]
  · have : a.length < 30 := by omega
    simp [isSystemAccountAddress, this]

/-- the protected-prefix test on keys shorter than the prefix, equal to it, and extending it -/
theorem allowed_key_cases (k : Bytes) :
    (k.length < 6 → isAllowedToSaveUnderKey k = true) ∧
    (isAllowedToSaveUnderKey (protectedPrefix ++ k) = false) := by
  constructor
  · intro h; simp [isAllowedToSaveUnderKey, protectedPrefix, ascii, h]
  · simp [isAllowedToSaveUnderKey, protectedPrefix, ascii]

/-! ### checked subtraction errors exactly on underflow -/

theorem safeSub_error_iff (a b : Nat) : safeSubUint64 a b = none ↔ a < b := by
  unfold safeSubUint64; split <;> simp_all
theorem safeSub_value (a b : Nat) (h : b ≤ a) : safeSubUint64 a b = some (a - b) := by
  unfold safeSubUint64; split <;> simp_all; omega

/-! ### merging output accounts (pointer heap for the big integers) -/

/-- adds balance deltas (nil counts as zero) -/
theorem merge_adds_deltas (h : Heap) (o src : OA) (ha : src.Alloc h) (hsep : o.DeltaSep src) :
    optGet (mergeOA h o src).1 (mergeOA h o src).2.delta = optGet h o.delta + optGet h src.delta :=
  mergeOA_delta_value h o src ha hsep
/-- keeps the highest nonce -/
theorem merge_highest_nonce (h : Heap) (o src : OA) : (mergeOA h o src).2.nonce = max o.nonce src.nonce :=
  mergeOA_nonce h o src
/-- later storage updates win -/
theorem merge_later_storage_wins (h : Heap) (o src : OA) (k : Bytes) :
    storageLookup (mergeOA h o src).2.storage k =
      match storageLookup src.storage k with | some v => some v | none => storageLookup o.storage k := by
  rw [mergeOA_storage]; exact mergeStorage_lookup _ _ k
/-- appends only the new output transfers -/
theorem merge_appends_new_transfers (h : Heap) (o src : OA) :
    (mergeOA h o src).2.transfers = o.transfers ++ src.transfers.drop o.transfers.length :=
  mergeOA_transfers h o src
/-- never mutates the account merged in … -/
theorem merge_src_unchanged (h : Heap) (o src : OA) (ha : src.Alloc h) (hsep : o.DeltaSep src) :
    src.cells (mergeOA h o src).1 = src.cells h := mergeOA_src_unchanged h o src ha hsep
/-- … not even through later merges into the same result -/
theorem merge_src_unchanged_later (srcs : List OA) (h : Heap) (o s : OA) (ha : s.Alloc h) (hsep : o.DeltaSep s) :
    s.cells (mergeSeq h o srcs).1 = s.cells h := mergeSeq_unchanged srcs h o s ha hsep

-- non-vacuity: result with nil delta, merged-in account with its own allocated cells
example : (OA.Alloc { delta := some 0, balance := some 1 } { cells := [(0, 5), (1, 7)], next := 2 }) ∧
    (OA.DeltaSep {} { delta := some 0, balance := some 1 }) := by
  refine ⟨⟨?_, ?_⟩, ?_⟩ <;> simp [OA.DeltaSep]

end C20
