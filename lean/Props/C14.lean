/-
  Props/C14.lean — C14: token-data serialisation is lossless, canonical and format-stable.
  The wire format is re-stated here with an independent protobuf writer (`Spec`): field numbers and wire
  types are given as numbers, not as the tag bytes the model's encoder uses.
-/
import Proofs.Codec
namespace C14
open Esdt

/-! ### lossless for every value -/

theorem amount_roundtrip (v : Option Int) : decBigInt (encBigInt v) = some v := decBigInt_encBigInt v
theorem amount_size (v : Option Int) : sizeBigInt v = (encBigInt v).length := sizeBigInt_eq_length v
theorem roles_roundtrip (rs : List Bytes) (h : ∀ r ∈ rs, r.length < 2 ^ 63) : decRoles (encRoles rs) = some rs :=
  decRoles_encRoles rs (by intro r hr; have := h r hr; simpa [two63] using this)
theorem metadata_roundtrip (m : MetaData) (h : MetaOK m) : decMeta (encMeta m) = some m := decMeta_encMeta m h
/-- zero, huge and negative amounts, nil amount, absent and empty fields: all are values of `Token` -/
theorem token_roundtrip (t : Token) (h : TokenOK t) : decToken (encToken t) = some t := decToken_encToken t h

/-! ### documented wire format, stated independently -/

namespace Spec

inductive Field
  | varint (num : Nat) (v : Nat)
  | bytes (num : Nat) (b : Bytes)

/-- base-128 varint, least significant group first, continuation bit 0x80 -/
def varint (n : Nat) : Bytes :=
  if h : n < 128 then [UInt8.ofNat n] else UInt8.ofNat (128 + n % 128) :: varint (n / 128)
termination_by n
decreasing_by omega

/-- tag = (field number << 3) | wire type -/
def tag (num wireType : Nat) : Bytes := varint (num * 8 + wireType)

def encField : Field → Bytes
  | .varint num v => tag num 0 ++ varint v
  | .bytes num b => tag num 2 ++ varint b.length ++ b

def write (fs : List Field) : Bytes := fs.flatMap encField

def optVarint (num v : Nat) : List Field := if v = 0 then [] else [.varint num v]
def optBytes (num : Nat) (b : Bytes) : List Field := if b = [] then [] else [.bytes num b]

/-- MetaData: fields 1–7 -/
def metaFields (m : MetaData) : List Field :=
  optVarint 1 m.nonce ++ optBytes 2 m.name ++ optBytes 3 m.creator ++ optVarint 4 m.royalties ++
  optBytes 5 m.hash ++ m.uris.map (Field.bytes 6) ++ optBytes 7 m.attributes

/-- ESDigitalToken: fields 1–5; the amount (field 2) is always written -/
def tokenFields (t : Token) : List Field :=
  optVarint 1 t.type ++ [.bytes 2 (encBigInt t.value)] ++ optBytes 3 t.properties ++
  (match t.md with | none => [] | some m => [.bytes 4 (write (metaFields m))]) ++ optBytes 5 t.reserved

/-- ESDTRoles: field 1, repeated -/
def rolesFields (rs : List Bytes) : List Field := rs.map (Field.bytes 1)

end Spec

theorem spec_varint_eq (n : Nat) : Spec.varint n = encVarint n := by
  induction n using Nat.strongRecOn with
  | _ n ih =>
    unfold Spec.varint encVarint
    split
    · rfl
    · rw [ih (n / 128) (by omega), Nat.add_comm]

theorem tag_small (num wt : Nat) (h : num * 8 + wt < 128) : Spec.tag num wt = [UInt8.ofNat (num * 8 + wt)] := by
  unfold Spec.tag Spec.varint; simp [h]

theorem write_append (a b : List Spec.Field) : Spec.write (a ++ b) = Spec.write a ++ Spec.write b := by
  simp [Spec.write]

theorem write_optVarint (num : Nat) (tagb : UInt8) (v : Nat) (h : num * 8 < 128) (ht : tagb = UInt8.ofNat (num * 8)) :
    Spec.write (Spec.optVarint num v) = encVarintField tagb v := by
  unfold Spec.optVarint encVarintField
  split
  · simp [Spec.write]
  · have := tag_small num 0 (by omega)
    simp [Spec.write, Spec.encField, this, spec_varint_eq, ht]

theorem write_optBytes (num : Nat) (tagb : UInt8) (b : Bytes) (h : num * 8 + 2 < 128) (ht : tagb = UInt8.ofNat (num * 8 + 2)) :
    Spec.write (Spec.optBytes num b) = encBytesField tagb b := by
  unfold Spec.optBytes encBytesField
  split
  · simp [Spec.write]
  · have := tag_small num 2 h
    simp [Spec.write, Spec.encField, this, spec_varint_eq, ht, encLenDelim]

theorem write_bytes (num : Nat) (tagb : UInt8) (b : Bytes) (h : num * 8 + 2 < 128) (ht : tagb = UInt8.ofNat (num * 8 + 2)) :
    Spec.write [Spec.Field.bytes num b] = encLenDelim tagb b := by
  have := tag_small num 2 h
  simp [Spec.write, Spec.encField, this, spec_varint_eq, ht, encLenDelim]

theorem write_repeated (num : Nat) (tagb : UInt8) (bs : List Bytes) (h : num * 8 + 2 < 128) (ht : tagb = UInt8.ofNat (num * 8 + 2)) :
    Spec.write (bs.map (Spec.Field.bytes num)) = bs.flatMap (fun b => encLenDelim tagb b) := by
  induction bs with
  | nil => simp [Spec.write]
  | cons b rest ih =>
    have e : (b :: rest).map (Spec.Field.bytes num) = [Spec.Field.bytes num b] ++ rest.map (Spec.Field.bytes num) := by simp
    rw [e, write_append, ih, write_bytes num tagb b h ht]; simp

/-- the bytes of encoded metadata are exactly protobuf fields 1–7 with wire types varint / bytes -/
theorem metadata_wire_format (m : MetaData) : encMeta m = Spec.write (Spec.metaFields m) := by
  unfold Spec.metaFields encMeta
  simp only [write_append]
  rw [write_optVarint 1 0x08 _ (by decide) (by decide), write_optBytes 2 0x12 _ (by decide) (by decide),
    write_optBytes 3 0x1a _ (by decide) (by decide), write_optVarint 4 0x20 _ (by decide) (by decide),
    write_optBytes 5 0x2a _ (by decide) (by decide), write_repeated 6 0x32 _ (by decide) (by decide),
    write_optBytes 7 0x3a _ (by decide) (by decide)]

/-- the bytes of encoded token data are exactly protobuf fields 1–5 -/
theorem token_wire_format (t : Token) : encToken t = Spec.write (Spec.tokenFields t) := by
  unfold Spec.tokenFields encToken
  simp only [write_append]
  rw [write_optVarint 1 0x08 _ (by decide) (by decide), write_bytes 2 0x12 _ (by decide) (by decide),
    write_optBytes 3 0x1a _ (by decide) (by decide), write_optBytes 5 0x2a _ (by decide) (by decide)]
  cases t.md with
  | none => simp [Spec.write]
  | some m => simp only []; rw [write_bytes 4 0x22 _ (by decide) (by decide), metadata_wire_format]

theorem roles_wire_format (rs : List Bytes) : encRoles rs = Spec.write (Spec.rolesFields rs) := by
  unfold Spec.rolesFields encRoles
  rw [write_repeated 1 0x0a _ (by decide) (by decide)]

/-- amounts: one sign byte (0 / 1) followed by the big-endian, minimal magnitude; nil is the single byte 0,
    zero is `00 00` -/
theorem amount_wire_format (v : Int) (h : v ≠ 0) :
    ∃ m : Bytes, encBigInt (some v) = (if v < 0 then 1 else 0) :: m ∧ beNat m = v.natAbs ∧ m ≠ [] ∧ m.head? ≠ some 0 := by
  refine ⟨beBytes v.natAbs, by simp [encBigInt, h], beNat_beBytes _, beBytes_ne_nil _ (by omega), ?_⟩
  intro hh
  -- a leading zero byte would contradict minimality: beBytes is the reverse of the little-endian digits,
  -- whose last digit is non-zero
  have hn : v.natAbs ≠ 0 := by omega
  have key : ∀ n, n ≠ 0 → (leBytes n).getLast? ≠ some 0 := by
    intro n
    induction n using Nat.strongRecOn with
    | _ n ih =>
      intro hn0
      rw [leBytes_pos n hn0]
      by_cases hq : n / 256 = 0
      · rw [hq, leBytes_zero]
        simp only [List.getLast?_singleton, ne_eq, Option.some.injEq]
        intro h0
        have : (UInt8.ofNat (n % 256)).toNat = 0 := by rw [h0]; rfl
        rw [toNat_ofNat_lt _ (Nat.mod_lt _ (by decide))] at this
        omega
      · have := ih (n / 256) (by omega) hq
        rw [List.getLast?_cons_of_ne_nil]
        · exact this
        · intro he; rw [leBytes_pos _ hq] at he; simp at he
  have := key v.natAbs hn
  apply this
  rw [← List.head?_reverse]
  exact hh

theorem amount_nil_and_zero : encBigInt none = [0] ∧ encBigInt (some 0) = [0, 0] := by decide

/-! ### encoding is a function (deterministic) and the reported size is the encoded length
    (the model's `Size` of a message *is* the length of its encoding; the generated `Size()` is compared with
    it byte for byte by the correspondence check, ops `enctoken` / `encmeta` / `encroles`). -/

/-- decoding arbitrary bytes returns a value or an error: the model decoders are total functions into
    `Option` (the generated Go loops have no indexing that is not preceded by a bounds check; the
    correspondence check reports any `panic` observed on the implementation). -/
theorem decode_total (bs : Bytes) :
    (decToken bs = none ∨ ∃ t, decToken bs = some t) ∧ (decMeta bs = none ∨ ∃ m, decMeta bs = some m) ∧
    (decRoles bs = none ∨ ∃ r, decRoles bs = some r) := by
  refine ⟨?_, ?_, ?_⟩
  · cases decToken bs <;> simp
  · cases decMeta bs <;> simp
  · cases decRoles bs <;> simp

-- non-vacuity: a concrete NFT entry with a negative amount, an empty and an absent field meets `TokenOK`
def sampleMeta : MetaData := { nonce := 7, name := [], creator := [9], royalties := 10000, uris := [[], [5]] }
def sampleToken : Token := { type := 1, value := some (-300), properties := [1, 0] }
example : MetaOK sampleMeta := by
  refine ⟨by decide, by decide, by decide, by decide, by decide, by decide, ?_⟩
  intro u hu; simp [sampleMeta] at hu; rcases hu with rfl | rfl <;> decide
example : TokenOK sampleToken := by
  have hb : beBytes 300 = [1, 44] := by simp [beBytes, leBytes]
  refine ⟨by decide, ?_, by decide, by decide, ?_⟩
  · simp [sampleToken, encBigInt, hb, two63]
  · intro m hm; simp [sampleToken] at hm

end C14
