/-
  Props/C17.lean — C17: a failing dependency is never reported as success.
  Counted dependency calls (`Dep`): data-trie write, adapter load / save of a modified account, marshal,
  unmarshal, payable query, balance / owner / reward operation.  Storage reads and the pause lookup are not
  counted (fail-soft by interface design, as the property says).
-/
import Proofs.Fault
namespace C17
open Esdt

/-- a fresh execution context: pre-state `accts`, empty dependency trace, fault plan `plan` -/
def start (accts : Accts) (plan : Option Nat) : Ctx := { accts := accts, deps := [], failAt := plan }

/-- FULL: for every function, input and pre-state — if the unfaulted execution succeeds and performs `n`
    counted dependency calls, then for every k < n the execution in which the k-th call fails returns an error
    (the injected one); it never returns Ok after a failed dependency. -/
theorem fault_never_ok (f : FnId) (env : Env) (c : Call) (accts : Accts) (out : VMOutput) (ctx' : Ctx) (k : Nat)
    (hok : exec env f c (start accts none) = .ok (out, ctx'))
    (hk : k < ctx'.deps.length) :
    exec env f c (start accts (some k)) = .err .Injected := by
  have h := fs_runFn f env c (start accts none) k (by simp [start]) rfl
  unfold exec at hok ⊢
  unfold SimRes at h
  rw [hok] at h
  dsimp only at h
  have hgt : ¬ ctx'.deps.length ≤ k := by omega
  rw [if_neg hgt] at h
  exact h.2.2

/-- and when the failing call is never reached, the result (output and state) is the unfaulted one -/
theorem fault_unreached_same (f : FnId) (env : Env) (c : Call) (accts : Accts) (out : VMOutput) (ctx' : Ctx) (k : Nat)
    (hok : exec env f c (start accts none) = .ok (out, ctx'))
    (hk : ctx'.deps.length ≤ k) :
    exec env f c (start accts (some k)) = .ok (out, ctx'.withFail (some k)) := by
  have h := fs_runFn f env c (start accts none) k (by simp [start]) rfl
  unfold exec at hok ⊢
  unfold SimRes at h
  rw [hok] at h
  dsimp only at h
  rw [if_pos hk] at h
  exact h.2.2

/-- a fault can only turn a failing call into a (possibly different) failing call -/
theorem fault_keeps_errors (f : FnId) (env : Env) (c : Call) (accts : Accts) (e : ErrKind) (k : Nat)
    (herr : exec env f c (start accts none) = .err e) :
    exec env f c (start accts (some k)) = .err e ∨ exec env f c (start accts (some k)) = .err .Injected := by
  have h := fs_runFn f env c (start accts none) k (by simp [start]) rfl
  unfold exec at herr ⊢
  unfold SimRes at h
  rw [herr] at h
  exact h

/-- the primitive that makes the above true: a counted call made under a tripped plan fails -/
theorem tripped_call_fails (d : Dep) (c : Ctx) (h : c.failAt = some c.deps.length) : tick d c = .err .Injected := by
  simp [tick, h]

end C17

namespace C17
open Esdt
/-! non-vacuity: a concrete successful call (ESDTPause by the system contract) performs three counted
    dependency calls, so `fault_never_ok` applies to it with k = 0, 1, 2 -/
def sampleEnv : Env := { self := 0, nshards := 1, payable := fun _ => .yes, dns := [], nameChange := false, gas := {}, active := true }
def sampleCall : Call := { fn := fnESDTPause, caller := esdtSCAddress, rcv := systemAccountAddress, args := [[84, 79, 75]] }
def depsOf {α} : Res (α × Ctx) → Option Nat
  | .ok (_, c) => some c.deps.length
  | _ => none
example : depsOf (exec sampleEnv .esdtPause sampleCall (start [] none)) = some 3 := by decide
def isInjected {α} : Res (α × Ctx) → Bool
  | .err .Injected => true
  | _ => false
example : isInjected (exec sampleEnv .esdtPause sampleCall (start [] (some 1))) = true := by decide
end C17
