/-
  Props/C15.lean — C15: the token state is well-formed after every history.
  The representation invariant `Canon` (every token-keyed slot outside the system account holds nothing or the canonical
  encoding of a token with a strictly positive balance — zero only to carry a flag — whose metadata nonce is the key's
  suffix) is preserved by every successful call; over a history this is induction over the call list.
-/
import Proofs.WF
import Facts.Generated
namespace C15
open Esdt

/-- FULL (key layout): the three key families are built from the constants of constants.go (regenerated) and an NFT
    key is exactly ELRONDesdt ‖ token ‖ big-endian minimal nonce -/
theorem key_layout (tok : Bytes) (n : Nat) :
    Esdt.esdtKeyPrefix = Facts.protectedKeyPrefix ++ Facts.esdtKeyIdentifier ∧
    Esdt.roleKeyPrefix = Facts.protectedKeyPrefix ++ Facts.esdtRoleIdentifier ++ Facts.esdtKeyIdentifier ∧
    Esdt.nonceKeyPrefix = Facts.protectedKeyPrefix ++ Facts.esdtNonceIdentifier ∧
    nftKey (esdtKeyPrefix ++ tok) n = esdtKeyPrefix ++ tok ++ beBytes n ∧ beBytes 0 = [] :=
  ⟨by decide, by decide, by decide, rfl, by simp [beBytes, leBytes]⟩

/-- what the invariant says about an entry: it decodes, its balance is strictly positive or it is a zero-balance
    carrier of a flag, and its metadata nonce is the key's suffix -/
theorem canon_entry_decodes (A : Accts) (hC : Canon A) (a k : Bytes) (hk : TokKey k)
    (ha : a ≠ systemAccountAddress) (hne : A.read a k ≠ []) :
    ∃ t v, decToken (A.read a k) = some t ∧ t.value = some v ∧
      (0 < v ∨ (v = 0 ∧ allZero t.properties = false)) ∧
      ∀ m, t.md = some m → ∃ tok, k = esdtKeyPrefix ++ tok ++ beBytes m.nonce := by
  rcases hC a k hk ha with h | ⟨t, h, hwf⟩
  · exact absurd h hne
  · obtain ⟨v, hv, hpos⟩ := hwf.value
    exact ⟨t, v, h, hv, hpos, hwf.key⟩

/-- FULL for 22 of the 23 functions (one step of any history): a successful call on a well-formed state leaves a
    well-formed state, provided the values it leaves in storage are shorter than 2^63 bytes (Go slices cannot be longer;
    the bound is what lets the freshly written canonical encodings be read back).
    (Self-transfers of ESDTTransfer on one shard are excepted: see `Esdt.canon_esdtTransfer`.) -/
theorem wf_step (f : FnId) (hf : f ≠ .multiTransfer) (env : Env) (c : Call) (ctx ctx' : Ctx) (out : VMOutput)
    (hC : Canon ctx.accts) (hS : Short ctx'.accts)
    (hself : f = .esdtTransfer → c.caller ≠ c.rcv)
    (hreach : c.caller = c.rcv → present env.nshards env.self c.caller = true)
    (h : exec env f c ctx = .ok (out, ctx')) : Canon ctx'.accts := by
  refine CanonM.toCanon ?_ hS
  unfold exec at h
  cases f <;> simp only [runFn] at h
  · exact canon_claimDeveloperRewards env c ctx ctx' out hC h
  · exact canon_changeOwnerAddress env c ctx ctx' out hC h
  · exact canon_setUserName env c ctx ctx' out hC h
  · exact canon_saveKeyValue env c ctx ctx' out hC h
  · exact canon_esdtPause env c ctx ctx' out true hC h
  · exact canon_esdtPause env c ctx ctx' out false hC h
  · exact canon_esdtTransfer env c ctx ctx' out hC (hself rfl) h
  · exact canon_esdtBurn env c ctx ctx' out hC h
  · exact canon_toggleFreeze env c ctx ctx' out .freeze (by decide) hC h
  · exact canon_toggleFreeze env c ctx ctx' out .unfreeze (by decide) hC h
  · exact canon_wipe env c ctx ctx' out hC h
  · exact canon_esdtRoles env c ctx ctx' out false hC h
  · exact canon_esdtRoles env c ctx ctx' out true hC h
  · exact canon_localBurn env c ctx ctx' out hC h
  · exact canon_localMint env c ctx ctx' out hC h
  · exact canon_addQuantity env c ctx ctx' out hC h
  · exact canon_nftBurn env c ctx ctx' out hC h
  · exact canon_nftCreate env c ctx ctx' out hC h
  · exact canon_nftTransfer env c ctx ctx' out hC hreach h
  · exact canon_createRoleTransfer env c ctx ctx' out hC h
  · exact canon_updateAttributes env c ctx ctx' out hC h
  · exact canon_addURI env c ctx ctx' out hC h
  · exact absurd rfl hf

/-- PARTIAL for MultiESDTNFTTransfer: the sender-side path (all items, same-shard and cross-shard destination) preserves
    the invariant — every item writes through `saveESDTNFTToken`, whose stored form is well-formed by construction.
    Not a theorem: the destination-side path with fungible items (`addToESDTBalance` re-reads entries written earlier in
    the same call); decided by the well-formedness oracle on generated histories. -/
theorem wf_step_multi_sender_partial (env : Env) (c : Call) (ctx ctx' : Ctx) (out : VMOutput) (hC : Canon ctx.accts)
    (hS : Short ctx'.accts) (hself : c.caller = c.rcv) (h : exec env .multiTransfer c ctx = .ok (out, ctx')) :
    Canon ctx'.accts := by
  unfold exec at h; simp only [runFn] at h
  exact ((canon_multiTransfer_senderPath env c ctx hC.toM hself).elim h).toCanon hS

/-- the empty state is well-formed -/
theorem wf_init : Canon [] := fun _ _ _ _ => Or.inl rfl

/-- histories of the 22 functions -/
structure Step where
  f : FnId
  env : Env
  c : Call

def StepOK (s : Step) : Prop :=
  s.f ≠ .multiTransfer ∧ (s.f = .esdtTransfer → s.c.caller ≠ s.c.rcv) ∧
  (s.c.caller = s.c.rcv → present s.env.nshards s.env.self s.c.caller = true)

/-- state after running the steps in order, failed calls rolled back (Appendix C) -/
def run : List Step → Accts → Accts
  | [], A => A
  | s :: rest, A =>
    match exec s.env s.f s.c { accts := A } with
    | .ok (_, ctx') => run rest ctx'.accts
    | _ => run rest A

/-- every state the run passes through keeps its stored values shorter than 2^63 bytes -/
def ShortAlong : List Step → Accts → Prop
  | [], A => Short A
  | s :: rest, A =>
    Short A ∧
    match exec s.env s.f s.c { accts := A } with
    | .ok (_, ctx') => ShortAlong rest ctx'.accts
    | _ => ShortAlong rest A

theorem ShortAlong.head {steps : List Step} {A : Accts} (h : ShortAlong steps A) : Short A := by
  cases steps with
  | nil => exact h
  | cons s rest => exact h.1

/-- FULL (history level, 22 functions): every reachable state is well-formed -/
theorem wf_history (steps : List Step) (hok : ∀ s ∈ steps, StepOK s) :
    ∀ A, Canon A → ShortAlong steps A → Canon (run steps A) := by
  induction steps with
  | nil => intro A h _; exact h
  | cons s rest ih =>
    intro A h hr
    have ih' := ih (fun s' hs' => hok s' (by simp [hs']))
    obtain ⟨h1, h2, h3⟩ := hok s (by simp)
    unfold ShortAlong at hr
    obtain ⟨_, hrest⟩ := hr
    unfold run
    split
    · rename_i out ctx' he
      rw [he] at hrest
      exact ih' _ (wf_step s.f h1 s.env s.c { accts := A } ctx' out h hrest.head h2 h3 he) hrest
    · rename_i hne
      have : ShortAlong rest A := by
        revert hrest
        cases hx : exec s.env s.f s.c { accts := A } with
        | ok p => exact absurd hx (hne p.1 p.2)
        | err e => intro hh; exact hh
        | panic => intro hh; exact hh
      exact ih' _ h this

/-! non-vacuity: a state with one protocol-written entry is well-formed and short; a mint on it succeeds -/
def sampleEnv : Env := { self := 0, nshards := 1, payable := fun _ => .yes, dns := [], nameChange := false, gas := {}, active := true }
def alice : Bytes := List.replicate 32 1
def tk : Bytes := [84, 79, 75]
def five : Token := { type := 0, value := some 5 }
def w0 : Accts := Accts.write [] alice (esdtKeyPrefix ++ tk) (encToken five)
example : Canon w0 := by
  intro a k _ _
  unfold w0
  rw [Accts.read_write]
  split
  · exact Or.inr ⟨five, by decide +kernel, ⟨5, rfl, Or.inl (by decide)⟩, fun m hm => by simp [five] at hm⟩
  · exact Or.inl rfl
example : Short w0 := by
  intro a k
  unfold w0
  rw [Accts.read_write]
  split
  · show (encToken five).length < two63
    decide +kernel
  · show ([] : Bytes).length < two63
    decide

-- Not part of the Lean invariant (decided by the well-formedness oracle after every op of every generated history):
-- role lists without duplicates under system-contract discipline, counter ≥ every issued nonce (C07's per-step theorems
-- give the latter), fungible entries without metadata (token-identifier discipline).

end C15
