/-
  Props/C15.lean — C15: the token state is well-formed after every history.
  The representation invariant `Canon` (every token-keyed slot outside the system account holds nothing or the canonical
  encoding of a token with a strictly positive balance — zero only to carry a flag — whose metadata nonce is the key's
  suffix) is preserved by every successful call; over a history this is induction over the call list.
-/
import Proofs.WF
import Proofs.Short
import Proofs.Base
import Proofs.RolesNodup
import Facts.Generated
namespace C15
open Esdt

/-- FULL (key layout): the three key families are built from the constants of constants.go (regenerated) and an NFT
    key is exactly ELRONDesdt ‖ token ‖ big-endian minimal nonce -/
theorem key_layout (tok : Bytes) (n : Nat) :
    Esdt.esdtKeyPrefix = Facts.protectedKeyPrefix ++ Facts.esdtKeyIdentifier ∧
    Esdt.roleKeyPrefix = Facts.protectedKeyPrefix ++ Facts.esdtRoleIdentifier ++ Facts.esdtKeyIdentifier ∧
    Esdt.nonceKeyPrefix = Facts.protectedKeyPrefix ++ Facts.esdtNonceIdentifier ∧
    nftKey (esdtKeyPrefix ++ tok) n = esdtKeyPrefix ++ tok ++ beBytes n ∧ beBytes 0 = [] :=
  ⟨by decide, by decide, by decide, rfl, by simp [beBytes, leBytes]⟩

/-- what the invariant says about an entry: it decodes, its balance is strictly positive or it is a zero-balance
    carrier of a flag, and its metadata nonce is the key's suffix -/
theorem canon_entry_decodes (A : Accts) (hC : Canon A) (a k : Bytes) (hk : TokKey k)
    (ha : a ≠ systemAccountAddress) (hne : A.read a k ≠ []) :
    ∃ t v, decToken (A.read a k) = some t ∧ t.value = some v ∧
      (0 < v ∨ (v = 0 ∧ allZero t.properties = false)) ∧
      ∀ m, t.md = some m → ∃ tok, k = esdtKeyPrefix ++ tok ++ beBytes m.nonce := by
  rcases hC a k hk ha with h | ⟨t, h, hwf⟩
  · exact absurd h hne
  · obtain ⟨v, hv, hpos⟩ := hwf.value
    exact ⟨t, v, h, hv, hpos, hwf.key⟩

/-- FULL (one step of any history, all 23 functions): a successful call on a well-formed state whose stored values are
    shorter than 2^63 bytes, with arguments shorter than 2^63 bytes (Go slices cannot be longer), leaves such a state
    (`short_step`: every value a function stores is a marshalled entry, a flag pair, a counter, an empty value or one of
    the call's own arguments).  Entries re-read inside one call (same-shard self-transfers, repeated items of a multi
    transfer) are covered: the intermediate states are short as well, so what was just written reads back. -/
theorem wf_step (f : FnId) (env : Env) (c : Call) (ctx ctx' : Ctx) (out : VMOutput)
    (hC : Canon ctx.accts) (hS0 : Short ctx.accts) (ha : ArgsShort c)
    (hreach : c.caller = c.rcv → present env.nshards env.self c.caller = true)
    (h : exec env f c ctx = .ok (out, ctx')) : Canon ctx'.accts ∧ Short ctx'.accts :=
  canon_short_step f env c ctx ctx' out hC hS0 ha hreach h

/-- the empty state is well-formed -/
theorem wf_init : Canon [] := fun _ _ _ _ => Or.inl rfl

/-- histories of built-in calls (all 23 functions) -/
structure Step where
  f : FnId
  env : Env
  c : Call

/-- transaction reachability (sender-side paths run on the sender's shard) and arguments that are Go slices -/
def StepOK (s : Step) : Prop :=
  (s.c.caller = s.c.rcv → present s.env.nshards s.env.self s.c.caller = true) ∧ ArgsShort s.c

/-- state after running the steps in order, failed calls rolled back (Appendix C) -/
def run : List Step → Accts → Accts
  | [], A => A
  | s :: rest, A =>
    match exec s.env s.f s.c { accts := A } with
    | .ok (_, ctx') => run rest ctx'.accts
    | _ => run rest A

/-- FULL (history level, all 23 functions): every reachable state is well-formed (and keeps its stored values shorter
    than 2^63 bytes) — hypotheses on the initial state and on the calls only -/
theorem wf_history (steps : List Step) (hok : ∀ s ∈ steps, StepOK s) :
    ∀ A, Canon A → Short A → Canon (run steps A) ∧ Short (run steps A) := by
  induction steps with
  | nil => intro A h hs; exact ⟨h, hs⟩
  | cons s rest ih =>
    intro A h hs
    have ih' := ih (fun s' hs' => hok s' (by simp [hs']))
    obtain ⟨h3, h4⟩ := hok s (by simp)
    unfold run
    split
    · rename_i out ctx' he
      obtain ⟨hc', hs'⟩ := wf_step s.f s.env s.c { accts := A } ctx' out h hs h4 h3 he
      exact ih' _ hc' hs'
    · exact ih' _ h hs

/-- FULL (all 23 functions, any interleaving): every successful call keeps one record per address (`Accts.Nodup`,
    which is what makes the per-key sums `balAt` of C01/C02 well defined), well-formedness and short values — three of
    the four parts of the world invariant `SInv` of the history theorems of C01/C02/C04/C07/C08, so that foreign calls of
    ANY function between the steps of those histories cannot break them (the fourth, `MdPos`, is per-world: a forged
    destination-form payload may carry metadata with nonce 0) -/
theorem base_invariant_step (f : FnId) (env : Env) (c : Call) (ctx ctx' : Ctx) (out : VMOutput)
    (hN : ctx.accts.Nodup) (hC : Canon ctx.accts) (hS0 : Short ctx.accts) (ha : ArgsShort c)
    (hreach : c.caller = c.rcv → present env.nshards env.self c.caller = true)
    (h : exec env f c ctx = .ok (out, ctx')) : ctx'.accts.Nodup ∧ Canon ctx'.accts ∧ Short ctx'.accts :=
  ⟨nodup_step f env c ctx ctx' out hN h, wf_step f env c ctx ctx' out hC hS0 ha hreach h⟩

/-- FULL (history level): the same over every history of calls of all 23 functions -/
theorem base_invariant_history (steps : List Step) (hok : ∀ s ∈ steps, StepOK s) :
    ∀ A, A.Nodup → Canon A → Short A → (run steps A).Nodup ∧ Canon (run steps A) ∧ Short (run steps A) := by
  induction steps with
  | nil => intro A hn h hs; exact ⟨hn, h, hs⟩
  | cons s rest ih =>
    intro A hn h hs
    have ih' := ih (fun s' hs' => hok s' (by simp [hs']))
    obtain ⟨h3, h4⟩ := hok s (by simp)
    unfold run
    split
    · rename_i out ctx' he
      obtain ⟨hn', hc', hs'⟩ := base_invariant_step s.f s.env s.c { accts := A } ctx' out hn h hs h4 h3 he
      exact ih' _ hn' hc' hs'
    · exact ih' _ hn h hs

/-- any invariant closed under replacing one account's record survives every history (the model changes the account
    table in no other way) -/
theorem set_closed_history (I : Accts → Prop) (hI : SetClosed I) (steps : List Step) :
    ∀ A, I A → I (run steps A) := by
  induction steps with
  | nil => intro A h; exact h
  | cons s rest ih =>
    intro A h
    unfold run
    split
    · rename_i out ctx' he
      exact ih _ (setClosed_step hI s.f s.env s.c { accts := A } ctx' out h he)
    · exact ih _ h

/-! non-vacuity: a state with one protocol-written entry is well-formed and short; a mint on it succeeds -/
def sampleEnv : Env := { self := 0, nshards := 1, payable := fun _ => .yes, dns := [], nameChange := false, gas := {}, active := true }
def alice : Bytes := List.replicate 32 1
def tk : Bytes := [84, 79, 75]
def five : Token := { type := 0, value := some 5 }
def w0 : Accts := Accts.write [] alice (esdtKeyPrefix ++ tk) (encToken five)
example : Canon w0 := by
  intro a k _ _
  unfold w0
  rw [Accts.read_write]
  split
  · exact Or.inr ⟨five, by decide +kernel, ⟨5, rfl, Or.inl (by decide)⟩, fun m hm => by simp [five] at hm⟩
  · exact Or.inl rfl
example : Short w0 := by
  intro a k
  unfold w0
  rw [Accts.read_write]
  split
  · show (encToken five).length < two63
    decide +kernel
  · show ([] : Bytes).length < two63
    decide

/-! ### "role lists hold no duplicates under system-contract discipline" (Proofs/RolesNodup.lean) -/

/-- FULL (one call): every call of every one of the 23 functions — any caller, any arguments — keeps every stored role list
    free of duplicates; the only premise beyond the invariant itself is the system contract's discipline for ESDTSetRole
    (App. C E5: what it sets is new for the account and listed once). ESDTUnSetRole erases; the hand-over erases the create
    role at the old holder and appends it at the new one only when it is absent; no other function writes a role key
    (`C03.roles_change_only_through`). -/
theorem roles_have_no_duplicates_step (f : FnId) (env : Env) (c : Call) (A : Accts) (out : VMOutput) (ctx' : Ctx)
    (hI : RolesNodup A) (hd : SetRoleDisciplined f c A) (h : exec env f c { accts := A } = .ok (out, ctx')) :
    RolesNodup ctx'.accts :=
  roles_nodup_step f env c A out ctx' hI hd h

/-- FULL (histories): along ANY list of calls (failed calls rolled back) whose ESDTSetRole calls keep that discipline, no
    role list of any account ever holds a duplicate -/
theorem roles_have_no_duplicates_history (env : Env) (calls : List (FnId × Call)) (A : Accts) (hI : RolesNodup A)
    (hd : CallsDisciplined env calls A) : RolesNodup (runCalls env calls A) :=
  roles_nodup_history env calls A hI hd

/-- the discipline is necessary: ESDTSetRole appends without looking — setting a held role again stores it twice
    (kernel-evaluated; cf. the duplicated create role of Props/C07) -/
def rnEnv : Env := { self := 0, nshards := 1, payable := fun _ => .yes, dns := [], nameChange := false, gas := {}, active := true }
def rnSet : Call := { fn := fnSetESDTRole, caller := esdtSCAddress, rcv := alice, args := [tk, roleLocalMint] }
example : RolesNodup [] := fun a t roles h => by
  have h' : rolesOf (Accts.read [] a (roleKeyPrefix ++ t)) = some [] := rfl
  rw [h'] at h; cases h; exact List.nodup_nil
example : (rolesOf ((runCalls rnEnv [(.setRole, rnSet)] []).read alice (roleKeyPrefix ++ tk)) == some [roleLocalMint] &&
    rolesOf ((runCalls rnEnv [(.setRole, rnSet), (.setRole, rnSet)] []).read alice (roleKeyPrefix ++ tk)) ==
      some [roleLocalMint, roleLocalMint]) = true := by decide +kernel

-- Not part of the Lean invariant (decided by the well-formedness oracle after every op of every generated history):
-- counter ≥ every issued nonce (C07's world theorem `nonces_unique_across_handovers` carries it in its invariant),
-- fungible entries without metadata (token-identifier discipline).

end C15
