/-
  Props/C02.lean — C02: supply changes only by the stated amount; no overdraft, never negative.
  (Theorems about one call; `Frame`/footprint theorems of C05 give "nothing else changes" for the functions not listed.)
-/
import Proofs.Ledger
import Proofs.FrameFn
import Proofs.WF
import Proofs.SupplyHistory
import Proofs.Unified
namespace C02
open Esdt

/-- ESDTLocalMint: exactly one storage slot — the caller's entry of the token — is rewritten, with
    `Value := old + amount`; every other slot of every account is untouched -/
theorem localMint_exact (env : Env) (c : Call) (ctx ctx' : Ctx) (out : VMOutput)
    (h : esdtLocalMint env c ctx = .ok (out, ctx')) :
    ∃ tok amt t v, c.args[0]? = some tok ∧ c.args[1]? = some amt ∧
      OneWrite ctx.accts ctx'.accts c.caller (esdtKeyPrefix ++ tok) t v (beNat amt) := by
  obtain ⟨tok, amt, t, v, h0, h1, hw, _⟩ := (localMint_effect env c ctx).elim h
  exact ⟨tok, amt, t, v, h0, h1, hw⟩

/-- ESDTLocalBurn / ESDTBurn: `Value := old − amount`, refused when the amount exceeds the holding (`nonneg`) -/
theorem localBurn_exact (env : Env) (c : Call) (ctx ctx' : Ctx) (out : VMOutput)
    (h : esdtLocalBurn env c ctx = .ok (out, ctx')) :
    ∃ tok amt t v, c.args[0]? = some tok ∧ c.args[1]? = some amt ∧ (beNat amt : Int) ≤ v ∧
      OneWrite ctx.accts ctx'.accts c.caller (esdtKeyPrefix ++ tok) t v (- (beNat amt : Int)) := by
  obtain ⟨tok, amt, t, v, h0, h1, hw, _⟩ := (localBurn_effect env c ctx).elim h
  exact ⟨tok, amt, t, v, h0, h1, by have := hw.nonneg; omega, hw⟩

theorem esdtBurn_exact (env : Env) (c : Call) (ctx ctx' : Ctx) (out : VMOutput)
    (h : esdtBurn env c ctx = .ok (out, ctx')) :
    ∃ tok amt t v, c.args[0]? = some tok ∧ c.args[1]? = some amt ∧ (beNat amt : Int) ≤ v ∧
      OneWrite ctx.accts ctx'.accts c.caller (esdtKeyPrefix ++ tok) t v (- (beNat amt : Int)) := by
  obtain ⟨tok, amt, t, v, h0, h1, hw, _⟩ := (esdtBurn_effect env c ctx).elim h
  exact ⟨tok, amt, t, v, h0, h1, by have := hw.nonneg; omega, hw⟩

/-- the decoded balance of the rewritten slot moves by exactly the amount (through the production codec), and every
    other balance of every account, token and nonce is unchanged -/
theorem oneWrite_balances {A A' : Accts} {a k : Bytes} {t : Token} {v d : Int} (h : OneWrite A A' a k t v d)
    (hok : TokenOK { t with value := some (v + d) }) :
    balOf (A'.read a k) = balOf (A.read a k) + d ∧ 0 ≤ balOf (A'.read a k) ∧
    ∀ a2 k2, ¬ (a = a2 ∧ k = k2) → balOf (A'.read a2 k2) = balOf (A.read a2 k2) := by
  refine ⟨h.balance hok, ?_, fun a2 k2 hne => by rw [h.others a2 k2 hne]⟩
  rw [h.written, Accts.read_write]; simp only [and_self, if_true]
  rw [balOf_storedForm _ (v + d) rfl hok]; exact h.nonneg

/-- ESDTNFTAddQuantity / ESDTNFTBurn: the caller's own entry under token‖nonce, same metadata, value ± amount;
    burn refuses more than the holding -/
theorem addQuantity_exact (env : Env) (c : Call) (ctx ctx' : Ctx) (out : VMOutput)
    (h : esdtNFTAddQuantity env c ctx = .ok (out, ctx')) :
    ∃ tok nb qb t v, c.args[0]? = some tok ∧ c.args[1]? = some nb ∧ c.args[2]? = some qb ∧ u64 (beNat nb) ≠ 0 ∧
      NftWrite ctx.accts ctx'.accts c.caller (esdtKeyPrefix ++ tok) (u64 (beNat nb)) t v (v + beNat qb) := by
  obtain ⟨tok, nb, qb, t, v, h0, h1, h2, hn, hw, _⟩ := (addQuantity_effect env c ctx).elim h
  exact ⟨tok, nb, qb, t, v, h0, h1, h2, hn, hw⟩

theorem nftBurn_exact (env : Env) (c : Call) (ctx ctx' : Ctx) (out : VMOutput)
    (h : esdtNFTBurn env c ctx = .ok (out, ctx')) :
    ∃ tok nb qb t v, c.args[0]? = some tok ∧ c.args[1]? = some nb ∧ c.args[2]? = some qb ∧ u64 (beNat nb) ≠ 0 ∧
      (beNat qb : Int) ≤ v ∧
      NftWrite ctx.accts ctx'.accts c.caller (esdtKeyPrefix ++ tok) (u64 (beNat nb)) t v (v - beNat qb) := by
  obtain ⟨tok, nb, qb, t, v, h0, h1, h2, hn, hle, hw, _⟩ := (nftBurn_effect env c ctx).elim h
  exact ⟨tok, nb, qb, t, v, h0, h1, h2, hn, hle, hw⟩

/-- ESDTWipe removes exactly the fungible entry of the addressed account, and only when it is frozen -/
theorem wipe_exact (env : Env) (c : Call) (ctx ctx' : Ctx) (out : VMOutput)
    (h : esdtFreezeWipe .wipe env c ctx = .ok (out, ctx')) :
    ∃ tok t, c.args[0]? = some tok ∧ c.caller = esdtSCAddress ∧
      tokenOf (ctx.accts.read c.rcv (esdtKeyPrefix ++ tok)) = some t ∧ frozenOf t.properties = true ∧
      ctx'.accts = ctx.accts.write c.rcv (esdtKeyPrefix ++ tok) [] :=
  (wipe_effect env c ctx).elim h

/-- freezing / unfreezing preserves the balance: only the flag bytes of the entry change -/
theorem freeze_preserves_value (kind : FreezeKind) (hk : kind ≠ .wipe) (env : Env) (c : Call) (ctx ctx' : Ctx) (out : VMOutput)
    (h : esdtFreezeWipe kind env c ctx = .ok (out, ctx')) :
    ∃ tok t, c.args[0]? = some tok ∧ tokenOf (ctx.accts.read c.rcv (esdtKeyPrefix ++ tok)) = some t ∧
      ctx'.accts = ctx.accts.write c.rcv (esdtKeyPrefix ++ tok) (storedForm { t with properties := flagBytes (kind == .freeze) }) ∧
      ({ t with properties := flagBytes (kind == .freeze) } : Token).value = t.value := by
  obtain ⟨tok, t, h0, _, ht, _, hw⟩ := (toggleFreeze_effect kind hk env c ctx).elim h
  exact ⟨tok, t, h0, ht, hw, rfl⟩

/-- functions that touch no token balance at all: account-level functions and SaveKeyValue never write a key of the
    token namespace (footprints of C05) -/
theorem account_functions_touch_no_token (f : FnId) (hf : f = .changeOwnerAddress ∨ f = .claimDeveloperRewards ∨ f = .setUserName)
    (env : Env) (c : Call) (ctx ctx' : Ctx) (out : VMOutput) (h : exec env f c ctx = .ok (out, ctx')) (a k : Bytes) :
    ctx'.accts.read a k = ctx.accts.read a k := by
  unfold exec at h
  have r := Frame.refl
  rcases hf with rfl | rfl | rfl <;> simp only [runFn] at h
  · exact (frame_changeOwnerAddress env c ctx _ (r _ _)).elim h a (.key k) (by simp [acctFootprint])
  · exact (frame_claimDeveloperRewards env c ctx _ (r _ _)).elim h a (.key k) (by simp [acctFootprint])
  · exact (frame_setUserName env c ctx _ (r _ _)).elim h a (.key k) (by simp [acctFootprint])

theorem saveKeyValue_touches_no_token (env : Env) (c : Call) (ctx ctx' : Ctx) (out : VMOutput)
    (h : saveKeyValue env c ctx = .ok (out, ctx')) (a tok rest : Bytes) :
    ctx'.accts.read a (esdtKeyPrefix ++ tok ++ rest) = ctx.accts.read a (esdtKeyPrefix ++ tok ++ rest) := by
  apply (frame_saveKeyValue env c ctx _ (Frame.refl _ _)).elim h a (.key _)
  simp only [skvFootprint]
  rintro ⟨_, _, hal⟩
  simp [isAllowedToSaveUnderKey, protectedPrefix, esdtKeyPrefix, ascii] at hal
  omega

/-- ESDTNFTCreate creates exactly the given quantity under the fresh nonce (the nonce itself: C07.create_succ), and the
    only other slot it writes is the nonce counter -/
theorem nftCreate_exact (env : Env) (c : Call) (ctx ctx' : Ctx) (out : VMOutput)
    (h : esdtNFTCreate env c ctx = .ok (out, ctx')) :
    ∃ tok qb n t, c.args[0]? = some tok ∧ c.args[1]? = some qb ∧ out.ret = [beBytes n] ∧ beNat qb ≠ 0 ∧
      t.value = some (beNat qb : Int) ∧
      ctx'.accts = (ctx.accts.write c.caller (nftKey (esdtKeyPrefix ++ tok) n) (nftStoredForm t)).write
        c.caller (nonceKeyPrefix ++ tok) (beBytes n) := by
  obtain ⟨tok, qb, name, roy, hash, attrs, n, A1, h0, h1, _, _, _, _, _, hq, _, hret, hA1, hw⟩ :=
    (nftCreate_effect env c ctx).elim h
  exact ⟨tok, qb, n, createdToken c qb name roy hash attrs n, h0, h1, hret, hq, rfl, by rw [hw, hA1]⟩

/-- FULL (every other function): role, pause and hand-over functions leave every token-keyed slot of every account other
    than the system account (whose token-keyed slots are pause flags, not balances) unchanged — whoever calls them -/
theorem role_pause_handover_leave_balances (f : FnId)
    (hf : f = .setRole ∨ f = .unSetRole ∨ f = .esdtPause ∨ f = .esdtUnPause ∨ f = .nftCreateRoleTransfer)
    (env : Env) (c : Call) (ctx ctx' : Ctx) (out : VMOutput) (h : exec env f c ctx = .ok (out, ctx'))
    (a s : Bytes) (ha : a ≠ systemAccountAddress) :
    ctx'.accts.read a (esdtKeyPrefix ++ s) = ctx.accts.read a (esdtKeyPrefix ++ s) := by
  unfold exec at h
  have hk : TokKey (esdtKeyPrefix ++ s) := ⟨s, rfl⟩
  rcases hf with rfl | rfl | rfl | rfl | rfl <;> simp only [runFn] at h
  · exact ((frame_rn_esdtRoles true env c ctx _ (Frame.refl _ _)).elim h).read_eq a _ (rn_not_tokKey a _ hk)
  · exact ((frame_rn_esdtRoles false env c ctx _ (Frame.refl _ _)).elim h).read_eq a _ (rn_not_tokKey a _ hk)
  · exact ((frame_sys_esdtPause true env c ctx _ (Frame.refl _ _)).elim h).read_eq a _ ha
  · exact ((frame_sys_esdtPause false env c ctx _ (Frame.refl _ _)).elim h).read_eq a _ ha
  · exact ((frame_rn_createRoleTransfer env c ctx _ (Frame.refl _ _)).elim h).read_eq a _ (rn_not_tokKey a _ hk)

/-- metadata updates leave the quantity unchanged -/
theorem metadata_updates_keep_value (env : Env) (c : Call) (ctx ctx' : Ctx) (out : VMOutput)
    (h : esdtNFTAddURI env c ctx = .ok (out, ctx') ∨ esdtNFTUpdateAttributes env c ctx = .ok (out, ctx')) :
    ∃ tok nb t m m', c.args[0]? = some tok ∧ c.args[1]? = some nb ∧
      MetaWrite ctx.accts ctx'.accts c.caller (esdtKeyPrefix ++ tok) (u64 (beNat nb)) t m m' := by
  rcases h with h | h
  · obtain ⟨tok, nb, t, m, h0, h1, _, hw⟩ := (addURI_effect env c ctx).elim h
    exact ⟨tok, nb, t, m, _, h0, h1, hw⟩
  · obtain ⟨tok, nb, _, t, m, h0, h1, _, _, hw⟩ := (updateAttributes_effect env c ctx).elim h
    exact ⟨tok, nb, t, m, _, h0, h1, hw⟩

/-- FULL (one call, as ONE sum over all accounts of the shard): for each supply operation — ESDTLocalMint, ESDTLocalBurn,
    ESDTBurn, ESDTNFTCreate, ESDTNFTAddQuantity, ESDTNFTBurn, ESDTWipe — and the toggles ESDTFreeze / ESDTUnFreeze, a
    successful call on a well-formed shard state changes, for EVERY token storage key, the sum of the balances held under
    that key by all accounts of the shard by exactly the stated amount (`supplyDelta`: + the given amount for mint / add
    quantity, − it for the burns, the given quantity under the returned fresh nonce for create, − the frozen account's
    holding for wipe, nothing for the toggles) and by nothing under any other key; the state stays well-formed. -/
theorem supply_changes_by_stated_amount (op : SupplyOp) (env : Env) (c : Call) (A : Accts) (out : VMOutput) (ctx' : Ctx)
    (hI : SInv A) (hcsys : c.caller ≠ systemAccountAddress) (hrsys : c.rcv ≠ systemAccountAddress)
    (hwrap : op = .create → ∀ tok, c.args[0]? = some tok →
      counterOf (A.read c.caller (nonceKeyPrefix ++ tok)) + 1 < two64)
    (h : op.run env c { accts := A } = .ok (out, ctx')) :
    SInv ctx'.accts ∧ ∀ k, TokKey k → balAt ctx'.accts k = balAt A k + supplyDelta op c A out k :=
  supply_step op env c A out ctx' hI hcsys hrsys hwrap h

/-- FULL (operation sequences): along ANY sequence of those operations by anyone with any arguments (failed ones rolled
    back), for every token storage key the shard's sum of balances is the initial sum plus the sum of the stated amounts
    of the successful operations — nothing is created or destroyed on the side; every intermediate state is well-formed
    (so no stored balance is negative: C15.canon_entry_decodes).  Hypotheses on the initial state (`SInv`) and, per
    operation, that neither account is the system account and no create finds its counter at 2^64 − 1. -/
theorem supply_history (steps : List SStep) (A : Accts) (hI : SInv A) (hok : SStepsOK steps A) :
    SInv (srun steps A).1 ∧ ∀ k, TokKey k → balAt (srun steps A).1 k = balAt A k + (srun steps A).2 k :=
  supply_history_run steps A hI hok

/-! non-vacuity: alice holds the mint and burn roles of a fungible token and nothing else; mint 5, burn 2 locally, a mint by
    bob (no role: refused): the shard's sum under the token's key is 3 = 0 + (5 − 2 + 0) -/
def svEnv : Env := { self := 0, nshards := 1, payable := fun _ => .yes, dns := [], nameChange := false, gas := {}, active := true }
def svAlice : Bytes := List.replicate 32 1
def svBob : Bytes := List.replicate 32 2
def svTok : Bytes := [70, 84]
def svA0 : Accts := Accts.write [] svAlice (roleKeyPrefix ++ svTok) (encRoles [roleLocalMint, roleLocalBurn])
def svMint (a : Bytes) (n : UInt8) : SStep :=
  ⟨.mint, svEnv, { fn := fnESDTLocalMint, caller := a, rcv := a, args := [svTok, [n]], gas := 100 }⟩
def svBurn (a : Bytes) (n : UInt8) : SStep :=
  ⟨.localBurn, svEnv, { fn := fnESDTLocalBurn, caller := a, rcv := a, args := [svTok, [n]], gas := 100 }⟩
example : (srun [svMint svAlice 5, svBurn svAlice 2, svMint svBob 9] svA0).2 (esdtKeyPrefix ++ svTok) = 3 ∧
    balAt (srun [svMint svAlice 5, svBurn svAlice 2, svMint svBob 9] svA0).1 (esdtKeyPrefix ++ svTok) = 3 ∧
    balAt svA0 (esdtKeyPrefix ++ svTok) = 0 := by decide +kernel

example : SInv svA0 := by
  have hread : ∀ a k, TokKey k → svA0.read a k = [] := by
    intro a k hk
    unfold svA0
    have hne : ¬ (svAlice = a ∧ roleKeyPrefix ++ svTok = k) := fun h => not_tokKey_role svTok (h.2 ▸ hk)
    rw [Accts.read_write, if_neg hne]
    rfl
  refine ⟨by simp [Accts.Nodup, svA0, Accts.write, Accts.set], fun a k hk _ => Or.inl (hread a k hk), ?_, ?_⟩
  · intro a k
    unfold svA0
    rw [Accts.read_write]
    split
    · decide +kernel
    · show ([] : Bytes).length < two63; decide
  · intro a k t m hk hne _ _
    exact absurd (hread a k hk) hne

/-! ### ONE world, all 23 functions (Proofs/Unified.lean) -/

/-- FULL (per call, the 20 functions that are not transfers, any caller, any arguments): a successful call keeps the shard
    invariant and moves the shard's sum of balances under every token key by `localDelta`: the stated amount for the nine
    supply operations, nothing for claim / change owner / user name / SaveKeyValue / set role / unset role / hand-over /
    add URI / update attributes, and for pause / un-pause minus whatever the system account's own slot was worth (it is
    overwritten by the flag pair: 0 unless tokens had been sent to the system account itself) -/
theorem call_moves_ledger_by_stated_amount (f : FnId) (env : Env) (c : Call) (A : Accts) (out : VMOutput) (ctx' : Ctx)
    (hI : SInv A) (ok : LocalOK env f c A) (h : exec env f c { accts := A } = .ok (out, ctx')) :
    SInv ctx'.accts ∧ ∀ k, TokKey k → balAt ctx'.accts k = balAt A k + localDelta f c A out k :=
  local_step f env c A out ctx' hI ok h

/-- FULL (per step of the mixed world): user transactions, deliveries, refusals and refunds of the three transfer
    functions and calls of the 20 other functions on any shard -/
theorem step_moves_ledger_by_issued_amount (e : Env) (w : UWorld) (st : UStep) (hI : UInv e w) (hok : UStepOK e w st) :
    (∀ k, TokKey k → usupply (ustep e w st) k = usupply w k + issued e w st k) ∧ UInv e (ustep e w st) :=
  ustep_ledger e w st hI hok

/-- FULL (histories; every function, every interleaving, any number of shards): in the world where all 23 functions are
    mixed — messages of the three transfer functions sent, delivered, refused and refunded in any order, and between any
    two such steps calls of the other functions by anybody on any shard — the ledger of every token key (every balance on
    every shard plus everything in flight) is, after the history, what it was plus the stated amounts of the supply
    operations that succeeded.  Hypotheses: the invariant of the INITIAL world and the admissibility of each step
    (`UStepOK`: sender-side transfer forms by ordinary accounts, the system account neither sender nor destination,
    arguments that are Go slices, no counter at 2^64 − 1), nothing about intermediate states. -/
theorem ledger_over_all_histories (e : Env) (steps : List UStep) (w : UWorld) (hI : UInv e w) (hok : UStepsOK e steps w) :
    (∀ k, TokKey k → usupply (urun e steps w).1 k = usupply w k + (urun e steps w).2 k) ∧ UInv e (urun e steps w).1 :=
  unified_history e steps w hI hok

/-! non-vacuity: two shards; Alice (shard 0) mints 5, sends 3 to Bob (shard 1); the system contract gives Bob the burn
    role while the message is in flight; the message is delivered; Bob burns 1: issued 5 − 1, shards hold 2 and 2 -/
def uvEnv : Env := { self := 0, nshards := 2, payable := fun _ => .yes, dns := [], nameChange := false, gas := {}, active := true }
def uvAlice : Bytes := List.replicate 32 2
def uvBob : Bytes := List.replicate 32 1
def uvA0 : Accts := Accts.write [] uvAlice (roleKeyPrefix ++ svTok) (encRoles [roleLocalMint, roleLocalBurn])
def uvW0 : UWorld := { shards := [uvA0, []], ft := [], nft := [], multi := [] }
def uvMint : Call := { fn := fnESDTLocalMint, caller := uvAlice, rcv := uvAlice, args := [svTok, [5]], gas := 100 }
def uvXfer : Call := { fn := fnESDTTransfer, caller := uvAlice, rcv := uvBob, args := [svTok, [3]], gas := 100 }
def uvSetRole : Call := { fn := fnSetESDTRole, caller := esdtSCAddress, rcv := uvBob, args := [svTok, roleLocalBurn], gas := 100 }
def uvBurn : Call := { fn := fnESDTLocalBurn, caller := uvBob, rcv := uvBob, args := [svTok, [1]], gas := 100 }
def uvSteps : List UStep :=
  [.call 0 .localMint uvMint, .ft (.user uvXfer), .call 1 .setRole uvSetRole, .ft (.deliver 0), .call 1 .localBurn uvBurn]

example : (urun uvEnv uvSteps uvW0).2 (esdtKeyPrefix ++ svTok) = 4 ∧
    usupply (urun uvEnv uvSteps uvW0).1 (esdtKeyPrefix ++ svTok) = 4 ∧
    (urun uvEnv uvSteps uvW0).1.shards.map (balAt · (esdtKeyPrefix ++ svTok)) = [2, 2] ∧
    (urun uvEnv uvSteps uvW0).1.ft.length = 0 ∧ usupply uvW0 (esdtKeyPrefix ++ svTok) = 0 := by decide +kernel

theorem sinv_nil : SInv [] :=
  ⟨by simp [Accts.Nodup], (fun _ _ _ _ => Or.inl rfl), fun _ _ => by show ([] : Bytes).length < two63; decide,
   fun _ _ _ _ _ hne _ _ => absurd rfl hne⟩

example : UInv uvEnv uvW0 := by
  have hread : ∀ a k, TokKey k → uvA0.read a k = [] := by
    intro a k hk
    unfold uvA0
    have hne : ¬ (uvAlice = a ∧ roleKeyPrefix ++ svTok = k) := fun h => not_tokKey_role svTok (h.2 ▸ hk)
    rw [Accts.read_write, if_neg hne]
    rfl
  have h0 : SInv uvA0 := by
    refine ⟨by simp [Accts.Nodup, uvA0, Accts.write, Accts.set], fun a k hk _ => Or.inl (hread a k hk), ?_, ?_⟩
    · intro a k
      unfold uvA0
      rw [Accts.read_write]
      split
      · decide +kernel
      · show ([] : Bytes).length < two63; decide
    · intro a k t m hk hne _ _
      exact absurd (hread a k hk) hne
  refine ⟨?_, fun _ h => (by cases h), fun _ h => (by cases h), fun _ h => (by cases h)⟩
  intro A hA
  simp only [uvW0, List.mem_cons, List.mem_nil_iff, or_false] at hA
  rcases hA with rfl | rfl
  · exact h0
  · exact sinv_nil

example : UStepsOK uvEnv uvSteps uvW0 := by
  have short1 : ∀ (x : UInt8), ([x] : Bytes).length < two63 := fun _ => by show 1 < two63; decide
  refine ⟨fun A _ => ⟨rfl, ?_, fun _ => (by decide), fun _ => ⟨by decide, by decide⟩, fun h => (by cases h)⟩,
    ⟨by decide, by decide⟩,
    fun A _ => ⟨rfl, ?_, fun h => (by revert h; decide), fun _ => ⟨by decide, by decide⟩, fun h => (by cases h)⟩,
    trivial,
    fun A _ => ⟨rfl, ?_, fun _ => (by decide), fun _ => ⟨by decide, by decide⟩, fun h => (by cases h)⟩, trivial⟩
  all_goals
    intro a ha
    simp only [uvMint, uvSetRole, uvBurn, List.mem_cons, List.mem_nil_iff, or_false] at ha
    rcases ha with rfl | rfl <;> decide

-- "Never negative" over histories: C15.wf_history (every stored entry decodes to a strictly positive balance or a flagged
-- zero).

end C02
