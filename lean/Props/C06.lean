/-
  Props/C06.lean — C06: built-in functions never create gas.
-/
import Proofs.Gas
import Model.World
namespace C06
open Esdt

/-- the schedules the property quantifies over: non-zero 32-bit costs -/
def ScheduleOK (g : GasCost) : Prop :=
  (∀ x ∈ BaseCost.fields g.base, 0 < x ∧ x < 2 ^ 32) ∧ (∀ x ∈ BuiltInCost.fields g.fn, 0 < x ∧ x < 2 ^ 32)

/-- FULL: for every built-in function and every input, a successful result satisfies
    GasRemaining + Σ gasLimit(emitted output transfers) ≤ GasProvided — sender-side and destination-side
    executions alike (the side is determined by `env`/`c`). -/
theorem no_gas_creation (f : FnId) (env : Env) (c : Call) (ctx ctx' : Ctx) (out : VMOutput)
    (hgas : c.gas < 2 ^ 64) (hsched : ScheduleOK env.gas) (hargs : totalLen c.args < 2 ^ 31)
    (h : exec env f c ctx = .ok (out, ctx')) :
    out.gasRemaining + fwd out ≤ c.gas := by
  have hg : c.gas < two64 := by simpa [two64] using hgas
  have hstore : env.gas.base.storePerByte < 2 ^ 32 := (hsched.1 _ (by simp [BaseCost.fields])).2
  have huri : env.gas.fn.esdtNFTAddURI < 2 ^ 32 := (hsched.2 _ (by simp [BuiltInCost.fields])).2
  have hupd : env.gas.fn.esdtNFTUpdateAttributes < 2 ^ 32 := (hsched.2 _ (by simp [BuiltInCost.fields])).2
  have bound : ∀ n cost, n ≤ totalLen c.args → cost < 2 ^ 32 → cost + n * env.gas.base.storePerByte < two64 := by
    intro n cost hn hc
    have h1 : n * env.gas.base.storePerByte < 2 ^ 31 * 2 ^ 32 :=
      Nat.mul_lt_mul'' (Nat.lt_of_le_of_lt hn hargs) hstore
    unfold two64; omega
  unfold exec at h
  cases f <;> simp only [runFn] at h
  · exact (gas_claimDeveloperRewards env c ctx).elim h
  · exact (gas_changeOwnerAddress env c ctx).elim h
  · exact (gas_setUserName env c ctx).elim h
  · exact (gas_saveKeyValue env c ctx).elim h
  · exact (gas_esdtPause true env c ctx).elim h
  · exact (gas_esdtPause false env c ctx).elim h
  · exact (gas_esdtTransfer env c ctx).elim h
  · exact (gas_esdtBurn env c ctx).elim h
  · exact (gas_esdtFreezeWipe .freeze env c ctx).elim h
  · exact (gas_esdtFreezeWipe .unfreeze env c ctx).elim h
  · exact (gas_esdtFreezeWipe .wipe env c ctx).elim h
  · exact (gas_esdtRoles false env c ctx).elim h
  · exact (gas_esdtRoles true env c ctx).elim h
  · exact (gas_esdtLocalBurn env c ctx).elim h
  · exact (gas_esdtLocalMint env c ctx).elim h
  · exact (gas_esdtNFTAddQuantity env c ctx).elim h
  · exact (gas_esdtNFTBurn env c ctx).elim h
  · exact (gas_esdtNFTCreate env c ctx).elim h
  · exact (gas_esdtNFTTransfer env c ctx).elim h
  · exact (gas_esdtNFTCreateRoleTransfer env c ctx).elim h
  · refine (gas_esdtNFTUpdateAttributes env c ctx hg ?_).elim h
    intro a2 ha2
    apply bound _ _ _ hupd
    -- one argument's length is at most the total
    have : a2 ∈ c.args := List.mem_of_getElem? ha2
    unfold totalLen
    exact le_sum_of_mem _ _ (List.mem_map.mpr ⟨a2, this, rfl⟩)
  · refine (gas_esdtNFTAddURI env c ctx hg ?_).elim h
    apply bound _ _ _ huri
    unfold totalLen
    rw [List.map_drop]
    exact sum_drop_le _ _
  · exact (gas_multiTransfer env c ctx).elim h

/-- the saturating helpers never wrap -/
theorem computeGasRemaining_no_wrap (p : Bool) (g cost : Nat) : computeGasRemaining p g cost ≤ g :=
  computeGasRemaining_le p g cost

/-- forwarded gas is moved, not copied: whenever the generic message encoder forwards gas, nothing remains -/
theorem moved_not_copied (s fn : Bytes) (a : List Bytes) (r : Bytes) (gl ct : Nat) (out : VMOutput) :
    (addOutputTransfer s fn a r gl ct out).gasRemaining = 0 ∧ fwd (addOutputTransfer s fn a r gl ct out) = out.gasRemaining := by
  simp

-- non-vacuity: a schedule of distinct primes satisfies `ScheduleOK`
def sampleSchedule : GasCost :=
  { base := ⟨2, 3, 5, 7, 11, 13⟩, fn := ⟨17, 19, 23, 29, 31, 37, 41, 43, 47, 53, 59, 61, 67, 71, 73, 79⟩ }
example : ScheduleOK sampleSchedule := by
  unfold sampleSchedule
  constructor <;> intro x hx <;> simp [BaseCost.fields, BuiltInCost.fields] at hx <;> omega

end C06
