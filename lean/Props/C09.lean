/-
  Props/C09.lean — C09: tokens are only credited to admissible destinations.
-/
import Proofs.Ledger
import Proofs.Gates
namespace C09
open Esdt

/-- when must payability be verified (spec): not for callbacks (2) / transfer-and-execute (3), not for the ESDT system
    contract as caller, not when the transfer carries a contract call (more arguments than the bare transfer) -/
def MustVerify (c : Call) (minArgs : Nat) : Prop :=
  c.callType ≠ 2 ∧ c.callType ≠ 3 ∧ c.caller ≠ esdtSCAddress ∧ c.args.length ≤ minArgs

theorem mustVerify_spec (c : Call) (n : Nat) : mustVerifyPayable c n = true ↔ MustVerify c n := by
  unfold mustVerifyPayable MustVerify
  constructor
  · intro h
    split at h
    · cases h
    · rename_i h1
      split at h
      · cases h
      · rename_i h2
        split at h
        · cases h
        · rename_i h3; exact ⟨fun e => h1 (Or.inl e), fun e => h1 (Or.inr e), h2, by omega⟩
  · rintro ⟨h1, h2, h3, h4⟩
    have : ¬ (c.callType = 2 ∨ c.callType = 3) := by rintro (e | e) <;> contradiction
    have h5 : ¬ c.args.length > n := by omega
    simp [this, h3, h5]

/-- FULL (ESDTTransfer, both sides): whenever an ESDTTransfer credits an account on the executing shard, that account is
    the destination and — unless the transfer carries a call, is a callback / transfer-and-execute, or comes from the
    system contract — the payability oracle answered `yes` for it (an erroring oracle fails the call) -/
theorem esdtTransfer_credit_admissible (env : Env) (c : Call) (ctx ctx' : Ctx) (out : VMOutput)
    (hd : present env.nshards env.self c.rcv = true) (h : esdtTransfer env c ctx = .ok (out, ctx')) :
    MustVerify c 2 → env.payable c.rcv = .yes := by
  intro hm
  have hmv := (mustVerify_spec c 2).mpr hm
  cases hs : present env.nshards env.self c.caller
  · obtain ⟨_, _, _, _, _, _, _, _, _, hp⟩ := (esdtTransfer_destOnly_effect env c ctx hs hd).elim h
    exact hp hmv
  · obtain ⟨_, _, _, _, _, _, _, _, _, _, _, _, hp⟩ := (esdtTransfer_sameShard_effect env c ctx hs hd).elim h
    exact hp hmv

/-- ESDTNFTTransfer arriving on the destination shard -/
theorem nftTransfer_credit_admissible (env : Env) (c : Call) (ctx ctx' : Ctx) (out : VMOutput) (hne : c.caller ≠ c.rcv)
    (h : esdtNFTTransfer env c ctx = .ok (out, ctx')) : MustVerify c 4 → env.payable c.rcv = .yes := by
  intro hm
  obtain ⟨_, _, _, _, _, _, _, _, _, _, _, _, hp, _⟩ := (nftTransfer_dest_effect env c ctx hne).elim h
  exact hp ((mustVerify_spec c 4).mpr hm)

/-- every helper that credits an NFT / SFT (single transfer same-shard and destination side, multi-transfer same-shard
    and destination side — one call site each) verifies payability of the credited address when told to -/
theorem nft_credit_site (env : Env) (dst : Bytes) (t : Token) (tk : Bytes) (rae : Bool) (ctx ctx' : Ctx) (t' : Token)
    (h : addNFTToDestination env dst t tk true rae ctx = .ok (t', ctx')) : env.payable dst = .yes := by
  obtain ⟨_, _, _, _, hp, _⟩ := (spec_addNFTToDestination env dst t tk true rae ctx).elim h
  exact hp rfl

/-- transfers addressed to the metachain are rejected; NFT and multi transfers addressed to the sender itself or to an
    address of a different length are rejected -/
theorem metachain_rejected (env : Env) (c : Call) (ctx ctx' : Ctx) (out : VMOutput)
    (h : esdtTransfer env c ctx = .ok (out, ctx')) : shardOf env.nshards c.rcv ≠ metaShard :=
  (esdtTransfer_not_to_metachain env c ctx).elim h

theorem nft_destination_rejections (env : Env) (c : Call) (ctx ctx' : Ctx) (out : VMOutput)
    (h : esdtNFTTransferSender env c ctx = .ok (out, ctx')) :
    ∃ dst, c.args[3]? = some dst ∧ dst.length = c.caller.length ∧ dst ≠ c.caller ∧ shardOf env.nshards dst ≠ metaShard :=
  (nftTransferSender_destination_ok env c ctx).elim h

theorem multi_destination_rejections (env : Env) (c : Call) (ctx ctx' : Ctx) (out : VMOutput)
    (h : multiTransferSender env c ctx = .ok (out, ctx')) :
    ∃ dst, c.args[0]? = some dst ∧ dst.length = c.caller.length ∧ dst ≠ c.caller ∧ shardOf env.nshards dst ≠ metaShard :=
  (multiTransferSender_destination_ok env c ctx).elim h

/-- FULL (destination side of MultiESDTNFTTransfer, every token kind): a successful execution asked the payability oracle
    about the destination — and got `yes` — whenever verification is required; the threshold is the bare multi transfer's
    own argument count (3n+1) -/
theorem multi_dest_credit_admissible (env : Env) (c : Call) (ctx ctx' : Ctx) (out : VMOutput) (hne : c.caller ≠ c.rcv)
    (h : multiTransfer env c ctx = .ok (out, ctx')) :
    ∃ a0, c.args[0]? = some a0 ∧ (MustVerify c (u64 (u64 (u64 (beNat a0) * 3) + 1)) → env.payable c.rcv = .yes) := by
  obtain ⟨a0, h0, hp⟩ := (multiTransfer_dest_payable env c ctx hne).elim h
  exact ⟨a0, h0, fun hm => hp ((mustVerify_spec c _).mpr hm)⟩

/-- FULL (sender side of MultiESDTNFTTransfer with the destination on the executing shard) -/
theorem multi_sameShard_credit_admissible (env : Env) (c : Call) (ctx ctx' : Ctx) (out : VMOutput)
    (hs : present env.nshards env.self c.caller = true)
    (hx : ∀ d, c.args[0]? = some d → env.self = shardOf env.nshards d)
    (h : multiTransferSender env c ctx = .ok (out, ctx')) :
    ∃ dst a1, c.args[0]? = some dst ∧ c.args[1]? = some a1 ∧
      (MustVerify c (u64 (u64 (u64 (beNat a1) * 3) + 2)) → env.payable dst = .yes) := by
  obtain ⟨dst, a1, h0, h1, hp⟩ := (multiTransferSender_sameShard_payable env c ctx hs hx).elim h
  exact ⟨dst, a1, h0, h1, fun hm => hp ((mustVerify_spec c _).mpr hm)⟩

-- "The credited account is the destination" for NFT / multi transfers: `C05.bounded_footprint` bounds the written accounts
-- and the exact-effect theorems (C01 / C08) name the one written slot of the destination.

end C09
