/-
  Props/C01.lean — C01: transfers conserve tokens, on one shard and across shards.
  Per-call exactness of ESDTTransfer on every execution side and of the destination side of ESDTNFTTransfer, and the
  supply invariant over ALL histories of fungible transfers, deliveries and refunds (world model: Proofs/Network.lean,
  the node's message handling of DESIGN App. C made explicit) and of single NFT / SFT transfers (Proofs/NetworkNFT.lean) are
  proved; PARTIAL: the history-level statement for multi transfers is decided by the conservation oracle (per storage key:
  Σ balances over all shards + Σ in-flight quantities is invariant under every transfer, delivery and refund) and by
  correspondence on the full diff + emitted payloads.
-/
import Proofs.Network
import Proofs.NetworkNFT
import Proofs.NetworkMulti
import Proofs.Unified
import Proofs.Accept
import Proofs.Accept3
import Proofs.Ledger
import Proofs.Hex
namespace C01
open Esdt

/-- FULL (ESDTTransfer, both accounts on the executing shard): the sender's entry is debited and the destination's entry
    credited by exactly the requested amount; the only storage slots that change are these two (one, for a self-transfer) -/
theorem esdtTransfer_sameShard_exact (env : Env) (c : Call) (ctx ctx' : Ctx) (out : VMOutput)
    (hs : present env.nshards env.self c.caller = true) (hd : present env.nshards env.self c.rcv = true)
    (h : esdtTransfer env c ctx = .ok (out, ctx')) :
    ∃ tok amt t v A1 t2 v2, c.args[0]? = some tok ∧ c.args[1]? = some amt ∧ beNat amt ≠ 0 ∧
      OneWrite ctx.accts A1 c.caller (esdtKeyPrefix ++ tok) t v (- (beNat amt : Int)) ∧
      OneWrite A1 ctx'.accts c.rcv (esdtKeyPrefix ++ tok) t2 v2 (beNat amt) := by
  obtain ⟨tok, amt, t, v, A1, t2, v2, h0, h1, hz, hw1, hw2, _⟩ := (esdtTransfer_sameShard_effect env c ctx hs hd).elim h
  exact ⟨tok, amt, t, v, A1, t2, v2, h0, h1, hz, hw1, hw2⟩

/-- conservation for such a call, through the production codec: if the two rewritten entries are within the codec's
    domain (`TokenOK`: every byte string shorter than 2^63 — always true of Go slices), the two balances move by
    −amount / +amount (their sum is unchanged when sender ≠ destination), and every other balance of every account,
    token and nonce is unchanged -/
theorem debit_credit_conserves {A A1 A' : Accts} {snd rcv k : Bytes} {t t2 : Token} {v v2 : Int} {amt : Nat}
    (hw1 : OneWrite A A1 snd k t v (- (amt : Int))) (hw2 : OneWrite A1 A' rcv k t2 v2 amt) (hne : snd ≠ rcv)
    (hok1 : TokenOK { t with value := some (v + - (amt : Int)) }) (hok2 : TokenOK { t2 with value := some (v2 + amt) }) :
    balOf (A'.read snd k) = balOf (A.read snd k) - amt ∧ balOf (A'.read rcv k) = balOf (A.read rcv k) + amt ∧
    balOf (A'.read snd k) + balOf (A'.read rcv k) = balOf (A.read snd k) + balOf (A.read rcv k) ∧
    ∀ a k2, ¬ (a = snd ∧ k2 = k) → ¬ (a = rcv ∧ k2 = k) → A'.read a k2 = A.read a k2 := by
  have e1 : balOf (A'.read snd k) = balOf (A.read snd k) - amt := by
    rw [hw2.others snd _ (by intro ⟨e, _⟩; exact hne e.symm), hw1.balance hok1]; omega
  have e2 : balOf (A'.read rcv k) = balOf (A.read rcv k) + amt := by
    rw [hw2.balance hok2, hw1.others rcv _ (by intro ⟨e, _⟩; exact hne e)]
  refine ⟨e1, e2, by omega, ?_⟩
  intro a k2 n1 n2
  rw [hw2.others a k2 (by intro ⟨x, y⟩; exact n2 ⟨x.symm, y.symm⟩), hw1.others a k2 (by intro ⟨x, y⟩; exact n1 ⟨x.symm, y.symm⟩)]

-- non-vacuity: a plain fungible entry with a small value is within the codec's domain
example : TokenOK { type := 0, value := some 5 } := by
  have hb : beBytes 5 = [5] := by simp [beBytes, leBytes]
  refine ⟨by decide, ?_, by decide, by decide, ?_⟩
  · simp [encBigInt, hb, two63]
  · intro m hm; simp at hm

/-- sender shard of a cross-shard ESDTTransfer: exactly the debit; a contract caller's continuation message carries
    exactly the call's arguments (token and amount included) to the destination -/
theorem esdtTransfer_sender_exact (env : Env) (c : Call) (ctx ctx' : Ctx) (out : VMOutput)
    (hs : present env.nshards env.self c.caller = true) (hd : present env.nshards env.self c.rcv = false)
    (h : esdtTransfer env c ctx = .ok (out, ctx')) :
    ∃ tok amt t v, c.args[0]? = some tok ∧ c.args[1]? = some amt ∧ beNat amt ≠ 0 ∧
      OneWrite ctx.accts ctx'.accts c.caller (esdtKeyPrefix ++ tok) t v (- (beNat amt : Int)) ∧
      (isSmartContractAddress c.caller = true →
        ∃ tr, out.outAccts = [{ addr := c.rcv, transfers := [tr] }] ∧ tr.data = encodeCall fnESDTTransfer c.args) := by
  obtain ⟨tok, amt, t, v, h0, h1, hz, hw, _, hm⟩ := (esdtTransfer_senderOnly_effect env c ctx hs hd).elim h
  exact ⟨tok, amt, t, v, h0, h1, hz, hw, hm⟩

/-- destination shard (delivery, refund): exactly the credit -/
theorem esdtTransfer_dest_exact (env : Env) (c : Call) (ctx ctx' : Ctx) (out : VMOutput)
    (hs : present env.nshards env.self c.caller = false) (hd : present env.nshards env.self c.rcv = true)
    (h : esdtTransfer env c ctx = .ok (out, ctx')) :
    ∃ tok amt t2 v2, c.args[0]? = some tok ∧ c.args[1]? = some amt ∧ beNat amt ≠ 0 ∧
      OneWrite ctx.accts ctx'.accts c.rcv (esdtKeyPrefix ++ tok) t2 v2 (beNat amt) := by
  obtain ⟨tok, amt, t2, v2, h0, h1, hz, hw, _⟩ := (esdtTransfer_destOnly_effect env c ctx hs hd).elim h
  exact ⟨tok, amt, t2, v2, h0, h1, hz, hw⟩

/-- what a delivery credits is what the sender side debited: the forwarded message parses back to the same arguments -/
theorem delivery_carries_debited_amount (c : Call) :
    parseCall (encodeCall fnESDTTransfer c.args) = .ok (fnESDTTransfer, c.args) :=
  parseCall_encodeCall _ _ (by decide) (by decide)

/-- destination side of ESDTNFTTransfer: the entry under token‖nonce of the PAYLOAD becomes the payload (metadata and
    all) with `Value := carried + existing`; a different hash at the destination rejects the transfer -/
theorem nftTransfer_dest_exact (env : Env) (c : Call) (ctx ctx' : Ctx) (out : VMOutput) (hne : c.caller ≠ c.rcv)
    (h : esdtNFTTransfer env c ctx = .ok (out, ctx')) :
    ∃ tok payload t cur tv cv, c.args[0]? = some tok ∧ c.args[3]? = some payload ∧ decToken payload = some t ∧
      tokenOf (ctx.accts.read c.rcv (nftKey (esdtKeyPrefix ++ tok) (mdNonce t))) = some cur ∧
      (∀ cm, cur.md = some cm → ∃ tm, t.md = some tm ∧ cm.hash = tm.hash) ∧
      t.value = some tv ∧ cur.value = some cv ∧
      ctx'.accts = ctx.accts.write c.rcv (nftKey (esdtKeyPrefix ++ tok) (mdNonce t))
        (nftStoredForm { t with value := some (tv + cv) }) := by
  obtain ⟨tok, payload, t, cur, tv, cv, h0, h3, hdec, _, _, hcur, _, _, hh, htv, hcv, hw⟩ :=
    (nftTransfer_dest_effect env c ctx hne).elim h
  exact ⟨tok, payload, t, cur, tv, cv, h0, h3, hdec, hcur, hh, htv, hcv, hw⟩

/-- FULL (history level, fungible transfers): in a world of any number of shards, under ANY sequence of ESDTTransfer
    transactions (executed on the sender's shard; failed calls rolled back), deliveries of the emitted cross-shard messages
    in any order (a failed delivery turns the message into a refund message) and refunds (flagged return-after-error,
    executed on the origin shard), the per-key supply
        Σ_shards Σ_accounts decoded balance under the key  +  Σ_in-flight messages for the key, amount
    is invariant — for every storage-level token key, well-formed or not.  Hypotheses, all on the INITIAL world and on the
    transactions: account lists without duplicate addresses, messages between different shards (the invariant `WorldInv`,
    preserved), stored values shorter than 2^63 bytes (preserved: `nstep_short`), transactions not sent by the system
    account nor to oneself. -/
theorem conservation_history (e : Env) (steps : List NStep) (w : NWorld) (hI : WorldInv e w)
    (hok : ∀ s ∈ steps, NStepOK s) (hS : ShortW w) (k : Bytes) :
    supply (nrun e steps w) k = supply w k :=
  (nrun_supply e steps w hI hok hS k).1

/-- non-vacuity: two shards, 5 tokens at an account of shard 0; transfer 3 to an account of shard 1, deliver: the supply
    stays 5, and in between 3 of them are in flight -/
def nvEnv : Env := { self := 0, nshards := 2, payable := fun _ => .yes, dns := [], nameChange := false, gas := {}, active := true }
def nvAlice : Bytes := List.replicate 32 2     -- last byte 2 ⇒ shard 0
def nvBob : Bytes := List.replicate 32 3       -- last byte 3 ⇒ shard 1
def nvTok : Bytes := [84, 79, 75]
def nvW0 : NWorld :=
  { shards := [Accts.write [] nvAlice (esdtKeyPrefix ++ nvTok) (encToken { type := 0, value := some 5 }), []], inflight := [] }
def nvXfer : Call := { fn := fnESDTTransfer, caller := nvAlice, rcv := nvBob, args := [nvTok, [3]] }
example : supply nvW0 (esdtKeyPrefix ++ nvTok) = 5 ∧
    flightAt (nrun nvEnv [.user nvXfer] nvW0).inflight (esdtKeyPrefix ++ nvTok) = 3 ∧
    supply (nrun nvEnv [.user nvXfer, .deliver 0] nvW0) (esdtKeyPrefix ++ nvTok) = 5 ∧
    (nrun nvEnv [.user nvXfer, .deliver 0] nvW0).inflight = [] := by decide +kernel

/-- FULL (history level, single NFT / SFT transfers): the same invariant for ESDTNFTTransfer — under ANY sequence of
    sender-side transactions (same-shard or cross-shard destination), deliveries of the emitted messages (the message is
    read off the output transfer the function emits: parsed back with the call parser, payload decoded with the production
    layout) in any order, failed deliveries turned into refund messages, and refunds on the origin shard, the per-key
    supply  Σ_shards Σ_accounts quantity + Σ_in-flight payload quantity  is invariant.  Hypotheses on the INITIAL world only
    (`NWorldInv`, preserved): per shard no duplicate addresses, the C15 invariant, stored values shorter than 2^63 bytes,
    stored metadata with a non-zero nonce (what ESDTNFTCreate produces — an entry whose metadata said nonce 0 would be
    re-saved under the key without the nonce suffix); transactions in the sender-side form, neither from nor to the
    system account. -/
theorem nft_conservation_history (e : Env) (steps : List NStep) (w : NFTWorld) (hI : NWorldInv e w)
    (hok : ∀ s ∈ steps, NFTStepOK s) (k : Bytes) :
    nsupply (nftRun e steps w) k = nsupply w k :=
  (nftRun_supply e steps w hI hok k).1

/-- non-vacuity: an SFT entry (nonce 1, quantity 3) at an account of shard 0; transfer 2 to an account of shard 1, deliver:
    the supply under the entry's key stays 3; in between 2 of them are in flight -/
def nvNFT : Bytes := [78, 70, 84]
def nvEntry : Token :=
  { type := 1, value := some 3, md := some { nonce := 1, name := [110], creator := nvAlice, hash := [104] } }
def nvKey : Bytes := nftKey (esdtKeyPrefix ++ nvNFT) 1
def nvNW0 : NFTWorld := { shards := [Accts.write [] nvAlice nvKey (encToken nvEntry), []], inflight := [] }
def nvNXfer : Call := { fn := fnESDTNFTTransfer, caller := nvAlice, rcv := nvAlice, args := [nvNFT, [1], [2], nvBob] }
example : nsupply nvNW0 nvKey = 3 ∧
    nflightAt (nftRun nvEnv [.user nvNXfer] nvNW0).inflight nvKey = 2 ∧
    nsupply (nftRun nvEnv [.user nvNXfer, .deliver 0] nvNW0) nvKey = 3 ∧
    (nftRun nvEnv [.user nvNXfer, .deliver 0] nvNW0).inflight.length = 0 := by decide +kernel

theorem nvEntry_dec : decToken (encToken nvEntry) = some nvEntry := by decide +kernel

/-- … and that initial world meets the hypothesis `NWorldInv` -/
example : NWorldInv nvEnv nvNW0 := by
  have hread : ∀ a k, (Accts.write [] nvAlice nvKey (encToken nvEntry)).read a k =
      if nvAlice = a ∧ nvKey = k then encToken nvEntry else [] := by
    intro a k; rw [Accts.read_write]; rfl
  refine ⟨?_, fun m hm => (by cases hm), trivial⟩
  intro A hA
  simp only [nvNW0, List.mem_cons, List.not_mem_nil, or_false] at hA
  rcases hA with rfl | rfl
  · refine ⟨by simp [Accts.Nodup, Accts.write, Accts.set], ?_, ?_, ?_⟩
    · intro a k _ _
      rw [hread]
      split
      · rename_i h
        refine Or.inr ⟨nvEntry, nvEntry_dec, ⟨3, rfl, Or.inl (by decide)⟩, ?_⟩
        intro m hm
        cases hm
        exact ⟨nvNFT, by rw [← h.2]; rfl⟩
      · exact Or.inl rfl
    · intro a k
      rw [hread]
      split
      · decide +kernel
      · decide
    · intro a k t m _ hne hdec hm
      rw [hread] at hne hdec
      split at hne
      · rename_i h
        rw [if_pos h, nvEntry_dec] at hdec
        cases hdec; cases hm; decide
      · exact absurd rfl hne
  · exact ⟨by simp [Accts.Nodup], fun _ _ _ _ => Or.inl rfl, fun _ _ => (by show ([] : Bytes).length < two63; decide),
      fun _ _ _ _ _ h => absurd rfl h⟩

/-- FULL (history level, MultiESDTNFTTransfer): in a world of any number of shards with messages in flight, along ANY
    sequence of multi-transfer transactions (any number of items; fungible, SFT and NFT items mixed; the same entry listed
    several times; attached calls; destination on the same or on another shard), deliveries in any order and refunds of
    failed deliveries, for EVERY storage key the quantity held on all shards plus the quantity carried by the messages in
    flight is constant.  What a message carries is read off its arguments by `loopContrib`, item by item exactly as the
    destination loop reads them (token, nonce, then an encoded entry for nonce > 0 or an amount for nonce 0), so the
    theorem contains "the sender debits exactly what the destination will credit, through encoder, call parser and
    decoder".  Hypotheses as for `nft_conservation_history` (`MWorldInv`, preserved by every step). -/
theorem multi_conservation_history (e : Env) (steps : List NStep) (w : MWorld) (hI : MWorldInv e w)
    (hok : ∀ s ∈ steps, MultiStepOK s) (k : Bytes) :
    msupply (multiRun e steps w) k = msupply w k :=
  (multiRun_supply e steps w hI hok k).1

/-- non-vacuity: alice (shard 0) holds 3 of an SFT (nonce 1) and 10 of a fungible token; one multi transfer moves 2 + 5 of
    them — and 1 more of the SFT as a third item — to bob (shard 1); the delivery credits them: both supplies are
    unchanged, in between 3 and 5 are in flight -/
def nvFT : Bytes := [70, 84]
def nvFKey : Bytes := esdtKeyPrefix ++ nvFT
def nvFEntry : Token := { type := 0, value := some 10 }
def nvMA0 : Accts := Accts.write (Accts.write [] nvAlice nvKey (encToken nvEntry)) nvAlice nvFKey (encToken nvFEntry)
def nvMW0 : MWorld := { shards := [nvMA0, []], inflight := [] }
def nvMXfer : Call :=
  { fn := fnMultiESDTNFTTransfer, caller := nvAlice, rcv := nvAlice,
    args := [nvBob, [3], nvNFT, [1], [2], nvFT, [], [5], nvNFT, [1], [1]], gas := 1000 }
example : msupply nvMW0 nvKey = 3 ∧ msupply nvMW0 nvFKey = 10 ∧
    mflightAt (multiRun nvEnv [.user nvMXfer] nvMW0).inflight nvKey = 3 ∧
    mflightAt (multiRun nvEnv [.user nvMXfer] nvMW0).inflight nvFKey = 5 ∧
    msupply (multiRun nvEnv [.user nvMXfer, .deliver 0] nvMW0) nvKey = 3 ∧
    msupply (multiRun nvEnv [.user nvMXfer, .deliver 0] nvMW0) nvFKey = 10 ∧
    (multiRun nvEnv [.user nvMXfer, .deliver 0] nvMW0).inflight.length = 0 := by decide +kernel

theorem nvFEntry_dec : decToken (encToken nvFEntry) = some nvFEntry := by decide +kernel

/-- … and that initial world meets the hypothesis `MWorldInv` -/
theorem nvMW0_inv : MWorldInv nvEnv nvMW0 := by
  have hread : ∀ a k, nvMA0.read a k =
      if nvAlice = a ∧ nvFKey = k then encToken nvFEntry else if nvAlice = a ∧ nvKey = k then encToken nvEntry else [] := by
    intro a k; unfold nvMA0; rw [Accts.read_write, Accts.read_write]; rfl
  refine ⟨?_, fun m hm => (by cases hm)⟩
  intro A hA
  simp only [nvMW0, List.mem_cons, List.not_mem_nil, or_false] at hA
  rcases hA with rfl | rfl
  · refine ⟨by simp [Accts.Nodup, nvMA0, Accts.write, Accts.set], ?_, ?_, ?_⟩
    · intro a k _ _
      rw [hread]
      split
      · exact Or.inr ⟨nvFEntry, nvFEntry_dec, ⟨10, rfl, Or.inl (by decide)⟩, fun m hm => by cases hm⟩
      · split
        · rename_i h
          refine Or.inr ⟨nvEntry, nvEntry_dec, ⟨3, rfl, Or.inl (by decide)⟩, ?_⟩
          intro m hm
          cases hm
          exact ⟨nvNFT, by rw [← h.2]; rfl⟩
        · exact Or.inl rfl
    · intro a k
      rw [hread]
      split
      · decide +kernel
      · split
        · decide +kernel
        · decide
    · intro a k t m _ hne hdec hm
      rw [hread] at hne hdec
      split at hne
      · rename_i h
        rw [if_pos h, nvFEntry_dec] at hdec
        cases hdec; cases hm
      · rename_i h1
        rw [if_neg h1] at hdec
        split at hne
        · rename_i h
          rw [if_pos h, nvEntry_dec] at hdec
          cases hdec; cases hm; decide
        · exact absurd rfl hne
  · exact ⟨by simp [Accts.Nodup], fun _ _ _ _ => Or.inl rfl, fun _ _ => (by show ([] : Bytes).length < two63; decide),
      fun _ _ _ _ _ h => absurd rfl h⟩

/-- FULL ("a refund is never rejected", ESDTTransfer): the refund of a failed delivery — callback call type, return-after-error
    flag, the transfer arguments only, executed on the origin shard where the sender lives — SUCCEEDS on every state in
    which the sender's slot for the token is empty or a well-formed fungible entry (what C15 guarantees of every slot the
    sender could have been debited from), and credits exactly the refunded amount: total correctness, not "if it
    succeeds".  No gate, no payability, no gas is consulted; the premises besides well-formedness are that the encoding of
    the new entry fits a Go slice and that no dependency fault is injected.  (In `conservation_history` a refund that did
    fail would simply stay in flight: the supply invariant needs no such theorem; THIS theorem is why refunds do not stay
    in flight.) -/
theorem refund_never_rejected (env : Env) (c : Call) (ctx : Ctx) (tok amt : Bytes)
    (hct : c.callType = 2) (hrae : c.rae = true) (hargs : c.args = [tok, amt]) (hamt : beNat amt ≠ 0)
    (hval : c.callValue = 0)
    (hsnd : present env.nshards env.self c.caller = false) (hdst : present env.nshards env.self c.rcv = true)
    (hmeta : shardOf env.nshards c.rcv ≠ metaShard) (hnf : ctx.failAt = none)
    (t : Token) (v : Int) (ht : tokenOf (ctx.accts.read c.rcv (esdtKeyPrefix ++ tok)) = some t) (hty : t.type = 0)
    (hv : t.value = some v) (hv0 : 0 ≤ v)
    (hlen : (encToken { t with value := some (v + (beNat amt : Int)) }).length < two63) :
    ∃ out ctx', esdtTransfer env c ctx = .ok (out, ctx') ∧ out.rc = 0 ∧
      ctx'.accts = ctx.accts.write c.rcv (esdtKeyPrefix ++ tok) (storedForm { t with value := some (v + (beNat amt : Int)) }) :=
  esdtTransfer_refund_accepted env c ctx tok amt hct hrae hargs hamt hval hsnd hdst hmeta hnf t v ht hty hv hv0 hlen

/-- FULL ("a refund is never rejected", ESDTNFTTransfer; all inputs, all pre-states satisfying the stated premises): the
    refund of a refused NFT / SFT message — the library's own destination-side call with the four arguments of that
    message, call type callback, return-after-error flag, executed on the origin shard — SUCCEEDS and writes exactly the
    payload with `Value` := returned + kept, whenever the payload decodes to an entry with metadata and the returned plus
    kept quantity is positive, the origin's slot under that (token, nonce) is empty or decodes, and whatever the origin
    kept carries the payload's hash.  The last two are what the world invariants give for every reachable state (C15
    `Canon`; C08 `metadata_intact_in_mixed_world`: every copy of an NFT — stored or in flight — has the same metadata);
    no payability, no freeze, no pause, no gas is consulted; the remaining premises are the physical size bound and
    "no dependency fault injected". -/
theorem nft_refund_never_rejected (env : Env) (c : Call) (ctx : Ctx) (tok nb qb payload : Bytes)
    (hct : c.callType = 2) (hrae : c.rae = true) (hargs : c.args = [tok, nb, qb, payload]) (hval : c.callValue = 0)
    (hne : c.caller ≠ c.rcv)
    (hsnd : present env.nshards env.self c.caller = false) (hdst : present env.nshards env.self c.rcv = true)
    (hnf : ctx.failAt = none)
    (t cur : Token) (m : MetaData) (tv cv : Int) (hdec : decToken payload = some t) (hmd : t.md = some m)
    (hcur : tokenOf (ctx.accts.read c.rcv (nftKey (esdtKeyPrefix ++ tok) m.nonce)) = some cur)
    (hhash : ∀ cm, cur.md = some cm → cm.hash = m.hash)
    (htv : t.value = some tv) (hcv : cur.value = some cv) (hpos : 0 < tv + cv)
    (hlen : (encToken { t with value := some (tv + cv) }).length < two63) :
    ∃ out ctx', esdtNFTTransfer env c ctx = .ok (out, ctx') ∧ out.rc = 0 ∧
      ctx'.accts = ctx.accts.write c.rcv (nftKey (esdtKeyPrefix ++ tok) m.nonce)
        (encToken { t with value := some (tv + cv) }) :=
  esdtNFTTransfer_refund_accepted env c ctx tok nb qb payload hct hrae hargs hval hne hsnd hdst hnf t cur m tv cv hdec hmd
    hcur hhash htv hcv hpos hlen

/-- non-vacuity: in the two-shard NFT world above alice sent 2 of her 3 pieces to bob; the refund of that message on her
    shard (she kept 1) succeeds and she holds 3 again -/
example : (match ((nftRun nvEnv [.user nvNXfer] nvNW0).inflight[0]?) with
    | some msg =>
      (match esdtNFTTransfer { nvEnv with self := 0 } (nRefundCall msg)
          { accts := ((nftRun nvEnv [.user nvNXfer] nvNW0).shards[0]?).getD [] } with
       | .ok (out, c') => out.rc == 0 && balOf (c'.accts.read nvAlice nvKey) == 3
       | _ => false)
    | none => false) = true := by decide +kernel

/-! ### conservation in the ONE world that mixes all 23 functions (Proofs/Unified.lean) -/

/-- steps that issue nothing: every step of the three transfer functions (user transaction, delivery, refusal, refund), and
    calls of the functions that are neither supply operations nor pause / un-pause -/
def Neutral : UStep → Prop
  | .call _ f _ => supplyOpOf f = none ∧ isPauseFn f = false
  | _ => True

theorem issued_neutral (e : Env) (w : UWorld) (st : UStep) (h : Neutral st) (k : Bytes) : issued e w st k = 0 := by
  cases st with
  | call s f c =>
    obtain ⟨hn, hp⟩ := h
    simp only [issued]
    split
    · rfl
    · split
      · simp only [localDelta, hn, hp]; simp
      · rfl
  | ft _ => rfl
  | nft _ => rfl
  | multi _ => rfl

/-- FULL (histories; the three transfer functions mixed with each other AND with every function that is not a supply
    operation, on any number of shards, in any interleaving, messages delivered / refused / refunded in any order): the
    ledger of every token key — every balance on every shard plus everything in flight, of all three message kinds — is
    constant.  (With supply operations in the history the ledger moves by their stated amounts: C02.ledger_over_all_histories.) -/
theorem conservation_in_mixed_world (e : Env) : ∀ (steps : List UStep) (w : UWorld), UInv e w → UStepsOK e steps w →
    (∀ st ∈ steps, Neutral st) → ∀ k, TokKey k → usupply (urun e steps w).1 k = usupply w k := by
  intro steps w hI hok hn k hk
  have h := (unified_history e steps w hI hok).1 k hk
  have hz : ∀ (steps : List UStep) (w : UWorld), (∀ st ∈ steps, Neutral st) → (urun e steps w).2 k = 0 := by
    intro steps
    induction steps with
    | nil => intro _ _; rfl
    | cons st rest ih =>
      intro w hn
      simp only [urun]
      rw [issued_neutral e w st (hn st (by simp)), ih _ (fun s hs => hn s (by simp [hs]))]
      rfl
  rw [h, hz steps w hn]; omega

/-- the conditions a REFUND of a multi transfer leaves to check, per item at the state it meets: the payload decodes (NFT
    items), the origin's slot is empty or decodes, what the origin kept carries the payload's hash, the merged quantity is
    positive and fits. Gates and payability are not consulted: the call is flagged return-after-error and is a callback. -/
theorem refund_gate (A : Accts) (a k : Bytes) (t : Token) : GatePasses A a k t true := Or.inl rfl

/-- FULL ("a refund is never rejected", MultiESDTNFTTransfer; total correctness): the refund of a refused multi-transfer
    message — the library's own destination-side call with the message's transfer arguments (count, then three per item),
    call type callback, return-after-error flag, executed on the origin shard — SUCCEEDS and leaves exactly the storage the
    items state, whenever every item is accepted at the state it meets (`DestItemsOK`, Proofs/Accept3.lean: with the
    refund's flags that is — the payload decodes to an entry with metadata, the origin's slot is empty or decodes (C15),
    what the origin kept carries the payload's hash (C08), returned + kept is positive and fits; for a fungible item: the
    origin's slot is a well-formed fungible entry). Any number of items, repeated and mixed items included (each item is
    judged at the state the earlier items of the same call left). -/
theorem multi_refund_never_rejected (env : Env) (c : Call) (ctx : Ctx) (cnt : Bytes)
    (hct : c.callType = 2) (h0 : c.args[0]? = some cnt) (hval : c.callValue = 0) (hne : c.caller ≠ c.rcv)
    (hsnd : present env.nshards env.self c.caller = false) (hdst : present env.nshards env.self c.rcv = true)
    (hnf : ctx.failAt = none)
    (n : Nat) (hn : n = u64 (beNat cnt)) (hn0 : n ≠ 0) (hfit : 3 * n + 1 ≤ c.args.length) (hphys : c.args.length < two64)
    (A' : Accts) (hitems : DestItemsOK env c false n 1 ctx.accts A') :
    ∃ out ctx', multiTransfer env c ctx = .ok (out, ctx') ∧ out.rc = 0 ∧ ctx'.accts = A' := by
  have hmv : mustVerifyPayable c (3 * n + 1) = false := by simp [mustVerifyPayable, hct]
  exact multiTransfer_delivery_accepted env c ctx cnt h0 hval hne hsnd hdst hnf n hn hn0 hfit hphys A' (by rw [hmv]; exact hitems)

/-- non-vacuity, kernel-evaluated: the refund of a two-item message (5 units of a fungible token, then 2 more of the same)
    on an origin that holds nothing: both items are accepted — the second at the state the first left — and the origin
    holds 7 -/
def mrTok : Bytes := [84, 75]
def mrAlice : Bytes := List.replicate 32 2
def mrBob : Bytes := List.replicate 32 3
def mrEnv : Env := { self := 0, nshards := 2, payable := fun _ => .yes, dns := [], nameChange := false, gas := {}, active := true }
def mrCall : Call :=
  { fn := fnMultiESDTNFTTransfer, caller := mrBob, rcv := mrAlice, callType := 2, rae := true,
    args := [[2], mrTok, [], [5], mrTok, [], [2]] }
example : (match multiTransfer mrEnv mrCall { accts := [] } with
    | .ok (out, c') => out.rc == 0 && balOf (c'.accts.read mrAlice (esdtKeyPrefix ++ mrTok)) == 7
    | _ => false) = true := by decide +kernel

end C01
