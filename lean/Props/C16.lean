/-
  Props/C16.lean — C16: every function is priced by its own entry of the current gas schedule.
  The table function ↦ schedule field is a spec literal here.
-/
import Proofs.Charge
import Proofs.Charge2
import Model.World
import Facts.Generated
import Proofs.SkvBound
namespace C16
open Esdt

/-! ### schedule decoding: rejected as a whole, or each field from its own entry -/

/-- field names of the two tables, in declaration order (spec literals, compared with reflection facts) -/
def builtInFields : List String :=
  ["ChangeOwnerAddress", "ClaimDeveloperRewards", "SaveUserName", "SaveKeyValue", "ESDTTransfer", "ESDTBurn",
   "ESDTLocalMint", "ESDTLocalBurn", "ESDTNFTCreate", "ESDTNFTAddQuantity", "ESDTNFTBurn", "ESDTNFTTransfer",
   "ESDTNFTChangeCreateOwner", "ESDTNFTMultiTransfer", "ESDTNFTAddURI", "ESDTNFTUpdateAttributes"]
def baseFields : List String :=
  ["StorePerByte", "ReleasePerByte", "DataCopyPerByte", "PersistPerByte", "CompilePerByte", "AoTPreparePerByte"]

theorem schedule_fields_as_in_code :
    Facts.builtInCostFields = builtInFields.map (· ++ ":uint64") ∧
    Facts.baseOperationCostFields = baseFields.map (· ++ ":uint64") ∧
    Esdt.builtInFieldNames = builtInFields ∧ Esdt.baseFieldNames = baseFields ∧
    Facts.builtInCostString = ascii "BuiltInCost" ∧ Facts.baseOperationCostString = ascii "BaseOperationCost" := by decide

/-- a schedule with any zero or missing entry (a missing entry decodes to zero) is rejected as a whole … -/
theorem reject_iff (m : GasMap) :
    createGasConfig m = none ↔
      (∃ x ∈ (decodeBase m).fields, x = 0) ∨ (∃ x ∈ (decodeBuiltIn m).fields, x = 0) := by
  unfold createGasConfig
  simp only [List.all_eq_true, decide_eq_true_eq]
  constructor
  · intro h
    split at h
    · simp at h
    · rename_i hn
      by_cases hb : ∀ x ∈ (decodeBase m).fields, x ≠ 0
      · right
        have : ¬ ∀ x ∈ (decodeBuiltIn m).fields, x ≠ 0 := fun hf => hn ⟨hb, hf⟩
        simpa using this
      · left; simpa using hb
  · intro h
    split
    · rename_i hp
      rcases h with ⟨x, hx, h0⟩ | ⟨x, hx, h0⟩
      · exact absurd h0 (hp.1 x hx)
      · exact absurd h0 (hp.2 x hx)
    · rfl

/-- … and leaves the previous prices in force -/
theorem rejected_keeps_previous (cur : GasCost) (m : GasMap) (h : createGasConfig m = none) :
    gasScheduleChange cur m = cur := by simp [gasScheduleChange, h]

/-- an accepted schedule installs, for every entry, the value given under that entry's own name -/
theorem accepted_installs_own_entries (cur : GasCost) (m : GasMap) (g : GasCost) (h : createGasConfig m = some g) :
    gasScheduleChange cur m = g ∧
    BuiltInCost.fields g.fn = builtInFields.map (fun f => u64 (m.lookup ("BuiltInCost." ++ f))) ∧
    BaseCost.fields g.base = baseFields.map (fun f => u64 (m.lookup ("BaseOperationCost." ++ f))) := by
  refine ⟨by simp [gasScheduleChange, h], ?_, ?_⟩
  · unfold createGasConfig at h
    dsimp only at h
    split at h
    · cases h; rfl
    · cases h
  · unfold createGasConfig at h
    dsimp only at h
    split at h
    · cases h; rfl
    · cases h

/-- after any sequence of schedule changes the schedule in force is the last accepted one -/
def inForce (init : GasCost) (changes : List GasMap) : GasCost := changes.foldl gasScheduleChange init

theorem schedule_in_force (init : GasCost) (changes : List GasMap) (m : GasMap) :
    inForce init (changes ++ [m]) =
      match createGasConfig m with
      | some g => g
      | none => inForce init changes := by
  simp only [inForce, List.foldl_append, List.foldl_cons, List.foldl_nil]
  unfold gasScheduleChange
  cases createGasConfig m <;> rfl

theorem in_force_all_rejected (init : GasCost) (changes : List GasMap)
    (h : ∀ m ∈ changes, createGasConfig m = none) : inForce init changes = init := by
  induction changes generalizing init with
  | nil => rfl
  | cons m rest ih =>
    simp only [inForce, List.foldl_cons]
    rw [rejected_keeps_previous init m (h m (by simp))]
    exact ih init (fun x hx => h x (by simp [hx]))

/-! ### exact charge of a successful sender-side execution: own cost + documented per-byte components -/

/-- own schedule entry of each priced function (spec table) -/
def ownCost (g : GasCost) : FnId → Option Nat
  | .changeOwnerAddress => some g.fn.changeOwnerAddress
  | .claimDeveloperRewards => some g.fn.claimDeveloperRewards
  | .setUserName => some g.fn.saveUserName
  | .saveKeyValue => some g.fn.saveKeyValue
  | .esdtTransfer => some g.fn.esdtTransfer
  | .esdtBurn => some g.fn.esdtBurn
  | .localMint => some g.fn.esdtLocalMint
  | .localBurn => some g.fn.esdtLocalBurn
  | .nftCreate => some g.fn.esdtNFTCreate
  | .nftAddQuantity => some g.fn.esdtNFTAddQuantity
  | .nftBurn => some g.fn.esdtNFTBurn
  | .nftTransfer => some g.fn.esdtNFTTransfer
  | .multiTransfer => some g.fn.esdtNFTMultiTransfer
  | .nftAddURI => some g.fn.esdtNFTAddURI
  | .nftUpdateAttributes => some g.fn.esdtNFTUpdateAttributes
  | _ => none          -- freeze / unfreeze / wipe / pause / unpause / set / unset role / hand-over are free

/-- functions whose charge is exactly their own entry -/
theorem charged_own_cost (env : Env) (c : Call) (ctx ctx' : Ctx) (out : VMOutput) (hg : c.gas < 2 ^ 64)
    (hsnd : present env.nshards env.self c.caller = true) :
    (esdtTransfer env c ctx = .ok (out, ctx') → charge c.gas out = env.gas.fn.esdtTransfer) ∧
    (esdtBurn env c ctx = .ok (out, ctx') → charge c.gas out = env.gas.fn.esdtBurn) ∧
    (esdtLocalMint env c ctx = .ok (out, ctx') → charge c.gas out = env.gas.fn.esdtLocalMint) ∧
    (esdtLocalBurn env c ctx = .ok (out, ctx') → charge c.gas out = env.gas.fn.esdtLocalBurn) ∧
    (esdtNFTAddQuantity env c ctx = .ok (out, ctx') → charge c.gas out = env.gas.fn.esdtNFTAddQuantity) ∧
    (esdtNFTBurn env c ctx = .ok (out, ctx') → charge c.gas out = env.gas.fn.esdtNFTBurn) ∧
    (changeOwnerAddress env c ctx = .ok (out, ctx') → charge c.gas out = env.gas.fn.changeOwnerAddress) := by
  have hg' : c.gas < two64 := by simpa [two64] using hg
  exact ⟨(charge_esdtTransfer env c ctx hsnd).elim, (charge_esdtBurn env c ctx hg').elim,
    (charge_esdtLocalMint env c ctx hg').elim, (charge_esdtLocalBurn env c ctx hg').elim,
    (charge_esdtNFTAddQuantity env c ctx hg').elim, (charge_esdtNFTBurn env c ctx hg').elim,
    (charge_changeOwnerAddress env c ctx hsnd).elim⟩

/-- SetUserName is charged where the user account lives (on the sender shard everything is forwarded) -/
theorem charged_setUserName (env : Env) (c : Call) (ctx ctx' : Ctx) (out : VMOutput)
    (hdst : present env.nshards env.self c.rcv = true) (h : setUserName env c ctx = .ok (out, ctx')) :
    charge c.gas out = env.gas.fn.saveUserName := (charge_setUserName env c ctx hdst).elim h

theorem charged_claim (env : Env) (c : Call) (ctx ctx' : Ctx) (out : VMOutput)
    (hsnd : present env.nshards env.self c.caller = true) (hdst : present env.nshards env.self c.rcv = true)
    (hnot : ¬ (c.callType = 1 ∧ isSmartContractAddress c.caller = true))
    (h : claimDeveloperRewards env c ctx = .ok (out, ctx')) :
    charge c.gas out = env.gas.fn.claimDeveloperRewards :=
  (charge_claimDeveloperRewards env c ctx hsnd hdst hnot).elim h

/-- K1 — KNOWN FINDING (KNOWN_FINDINGS.txt, DESIGN §7.4): the case `charged_claim` excludes is a real deviation from the
    property, not a gap of the proof.  Claimed by a smart contract through an asynchronous call, both accounts on the
    executing shard, a successful ClaimDeveloperRewards consumes ALL provided gas: GasRemaining is 0 and the output
    transfer that carried the remaining gas has been dropped with the output accounts.  (Proved of the model; the
    correspondence and the C16 oracle show the same on the real code: replayable with `corpus/K1-claim-async-contract.ops`.) -/
theorem claim_by_contract_async_consumes_all (env : Env) (c : Call) (ctx ctx' : Ctx) (out : VMOutput)
    (hsnd : present env.nshards env.self c.caller = true) (hdst : present env.nshards env.self c.rcv = true)
    (hct : c.callType = 1) (hsc : isSmartContractAddress c.caller = true)
    (h : claimDeveloperRewards env c ctx = .ok (out, ctx')) :
    out.gasRemaining = 0 ∧ out.outAccts = [] ∧ charge c.gas out = c.gas :=
  (charge_claim_async_contract env c ctx hsnd hdst hct hsc).elim h

/-- stored bytes for NFT create: all argument bytes at StorePerByte -/
theorem charged_nftCreate (env : Env) (c : Call) (ctx ctx' : Ctx) (out : VMOutput) (hg : c.gas < 2 ^ 64)
    (hlen : totalLen c.args < 2 ^ 31) (hstore : env.gas.base.storePerByte < 2 ^ 32) (hcost : env.gas.fn.esdtNFTCreate < 2 ^ 32)
    (h : esdtNFTCreate env c ctx = .ok (out, ctx')) :
    charge c.gas out = env.gas.fn.esdtNFTCreate + totalLen c.args * env.gas.base.storePerByte := by
  have h1 : totalLen c.args * env.gas.base.storePerByte < 2 ^ 31 * 2 ^ 32 := Nat.mul_lt_mul'' hlen hstore
  exact (charge_esdtNFTCreate env c ctx (by simpa [two64] using hg) (by unfold two64; omega) (by unfold two64; omega)).elim h

/-- URIs at StorePerByte -/
theorem charged_addURI (env : Env) (c : Call) (ctx ctx' : Ctx) (out : VMOutput) (hg : c.gas < 2 ^ 64)
    (hsum : env.gas.fn.esdtNFTAddURI + totalLen (c.args.drop 2) * env.gas.base.storePerByte < 2 ^ 64)
    (h : esdtNFTAddURI env c ctx = .ok (out, ctx')) :
    charge c.gas out = env.gas.fn.esdtNFTAddURI + totalLen (c.args.drop 2) * env.gas.base.storePerByte :=
  (charge_esdtNFTAddURI env c ctx (by simpa [two64] using hg) (by simpa [two64] using hsum)).elim h

/-- attributes at StorePerByte -/
theorem charged_updateAttributes (env : Env) (c : Call) (ctx ctx' : Ctx) (out : VMOutput) (hg : c.gas < 2 ^ 64)
    (hsum : ∀ a2, c.args[2]? = some a2 →
      env.gas.fn.esdtNFTUpdateAttributes + a2.length * env.gas.base.storePerByte < 2 ^ 64)
    (h : esdtNFTUpdateAttributes env c ctx = .ok (out, ctx')) :
    ∃ a2, c.args[2]? = some a2 ∧
      charge c.gas out = env.gas.fn.esdtNFTUpdateAttributes + a2.length * env.gas.base.storePerByte :=
  (charge_esdtNFTUpdateAttributes env c ctx (by simpa [two64] using hg)
    (by intro a2 ha; have := hsum a2 ha; simpa [two64] using this)).elim h

/-- SaveKeyValue: own cost + PersistPerByte × (key + value) for every pair + StorePerByte × growth of the stored value
    for every pair that changes it (`skvCost`), all priced by the schedule in force -/
theorem charged_saveKeyValue (env : Env) (c : Call) (ctx ctx' : Ctx) (out : VMOutput)
    (hb : env.gas.fn.saveKeyValue + skvCost env c.caller c.args.length ctx.accts c.args < 2 ^ 64)
    (h : saveKeyValue env c ctx = .ok (out, ctx')) :
    charge c.gas out = env.gas.fn.saveKeyValue + skvCost env c.caller c.args.length ctx.accts c.args :=
  (charge_saveKeyValue env c ctx (by simpa [two64] using hb)).elim h

/-- … and under the property's own size assumptions (32-bit schedule entries, fewer than 2^31 argument bytes: C06) the
    "no 64-bit wrap" premise is a theorem, not a hypothesis: `skvCost ≤ (PersistPerByte + StorePerByte) × argument bytes`
    (Proofs/SkvBound.lean) -/
theorem charged_saveKeyValue_sized (env : Env) (c : Call) (ctx ctx' : Ctx) (out : VMOutput)
    (hp : env.gas.base.persistPerByte < 2 ^ 32) (hs : env.gas.base.storePerByte < 2 ^ 32)
    (hf : env.gas.fn.saveKeyValue < 2 ^ 32) (hargs : totalLen c.args < 2 ^ 31)
    (h : saveKeyValue env c ctx = .ok (out, ctx')) :
    charge c.gas out = env.gas.fn.saveKeyValue + skvCost env c.caller c.args.length ctx.accts c.args :=
  (charge_saveKeyValue env c ctx (skv_no_wrap env c ctx.accts hp hs hf hargs)).elim h

/-- the first pair of `skvCost`, spelled out (the definition is the recursion over the pairs) -/
theorem skvCost_pair (env : Env) (a : Bytes) (A : Accts) (k v : Bytes) (rest : List Bytes) (n : Nat) :
    skvCost env a (n + 1) A (k :: v :: rest) =
      (v.length + k.length) * env.gas.base.persistPerByte +
      (if A.read a k = v then skvCost env a n A rest
       else env.gas.base.storePerByte * (v.length - (A.read a k).length) + skvCost env a n (A.write a k v) rest) := rfl

/-- ESDTNFTTransfer, sender side with the destination on another shard: own cost + DataCopyPerByte × length of the NFT
    payload put on the wire (the encoding of the sender's whole entry with `Value := quantity`: C08.cross_shard_hop) -/
theorem charged_nftTransfer_crossShard (env : Env) (c : Call) (ctx ctx' : Ctx) (out : VMOutput)
    (hs : present env.nshards env.self c.caller = true)
    (hx : ∀ d, c.args[3]? = some d → env.self ≠ shardOf env.nshards d)
    (h : esdtNFTTransferSender env c ctx = .ok (out, ctx')) :
    ∃ tok nb qb t, c.args[0]? = some tok ∧ c.args[1]? = some nb ∧ c.args[2]? = some qb ∧
      decToken (ctx.accts.read c.caller (nftKey (esdtKeyPrefix ++ tok) (u64 (beNat nb)))) = some t ∧
      charge c.gas out = env.gas.fn.esdtNFTTransfer +
        u64 ((encToken { t with value := some (beNat qb : Int) }).length * env.gas.base.dataCopyPerByte) :=
  (charge_nftTransferSender_crossShard env c ctx hs hx).elim h

/-- MultiESDTNFTTransfer, sender side (any destination shard): own cost × number of tokens + DataCopyPerByte × encoded
    length of every transferred token that carries metadata (`payloadCost`; what is put on the wire for each: C08.multi_payload) -/
theorem charged_multiTransfer (env : Env) (c : Call) (ctx ctx' : Ctx) (out : VMOutput)
    (hs : present env.nshards env.self c.caller = true)
    (h : multiTransferSender env c ctx = .ok (out, ctx')) :
    ∃ a1 toks, c.args[1]? = some a1 ∧ toks.length = u64 (beNat a1) ∧
      charge c.gas out = u64 (u64 (beNat a1) * env.gas.fn.esdtNFTMultiTransfer) + payloadCost env toks :=
  (charge_multiTransferSender env c ctx hs).elim h

/-- ESDTNFTTransfer, sender side with the destination on the executing shard: own cost + DataCopyPerByte × length of the
    encoding of one token (the entry as merged into the destination, which the code marshals although no message leaves the
    shard: a quirk, but still a whole-schedule charge of the documented shape) -/
theorem charged_nftTransfer_sameShard (env : Env) (c : Call) (ctx ctx' : Ctx) (out : VMOutput)
    (hs : present env.nshards env.self c.caller = true)
    (hx : ∀ d, c.args[3]? = some d → env.self = shardOf env.nshards d)
    (h : esdtNFTTransferSender env c ctx = .ok (out, ctx')) :
    ∃ t' : Token, charge c.gas out = env.gas.fn.esdtNFTTransfer +
      u64 ((encToken t').length * env.gas.base.dataCopyPerByte) :=
  (charge_nftTransferSender_sameShard env c ctx hs hx).elim h

-- `toks` of `charged_multiTransfer` are the tokens returned by the item loop (their wire form: `C08.multi_item` /
-- `multi_payload`); the equation itself does not name them.  All 16 priced functions now have their charge theorem
-- (ESDTNFTChangeCreateOwner is priced in the schedule but charged by no function: `gas_*` of C06 show the hand-over
-- function returns GasRemaining 0 and forwards nothing).

/-- FULL (binding, regenerated from the source by go/ast on every run): every function object's price field is refreshed
    in `SetNewGasConfig` from the `BuiltInCost` entry of its OWN name … -/
theorem setter_bindings : Facts.setterGasField =
    [("changeOwnerAddress.gasCost", "ChangeOwnerAddress"),
     ("claimDeveloperRewards.gasCost", "ClaimDeveloperRewards"),
     ("esdtBurn.funcGasCost", "ESDTBurn"),
     ("esdtLocalBurn.funcGasCost", "ESDTLocalBurn"),
     ("esdtLocalMint.funcGasCost", "ESDTLocalMint"),
     ("esdtNFTAddQuantity.funcGasCost", "ESDTNFTAddQuantity"),
     ("esdtNFTAddUri.funcGasCost", "ESDTNFTAddURI"),
     ("esdtNFTBurn.funcGasCost", "ESDTNFTBurn"),
     ("esdtNFTCreate.funcGasCost", "ESDTNFTCreate"),
     ("esdtNFTTransfer.funcGasCost", "ESDTNFTTransfer"),
     ("esdtTransfer.funcGasCost", "ESDTTransfer"),
     ("saveKeyValueStorage.funcGasCost", "SaveKeyValue"),
     ("esdtNFTMultiTransfer.funcGasCost", "ESDTNFTMultiTransfer"),
     ("saveUserName.gasCost", "SaveUserName"),
     ("esdtNFTupdate.funcGasCost", "ESDTNFTUpdateAttributes")] := by decide

/-- … and the factory constructs every function object with the `BuiltInCost` entry of its own name (so the price is right
    from the first call on, before any schedule change) -/
theorem factory_bindings : Facts.factoryGasField =
    [("NewClaimDeveloperRewardsFunc", "ClaimDeveloperRewards"),
     ("NewChangeOwnerAddressFunc", "ChangeOwnerAddress"),
     ("NewSaveUserNameFunc", "SaveUserName"),
     ("NewSaveKeyValueStorageFunc", "SaveKeyValue"),
     ("NewESDTTransferFunc", "ESDTTransfer"),
     ("NewESDTBurnFunc", "ESDTBurn"),
     ("NewESDTLocalBurnFunc", "ESDTLocalBurn"),
     ("NewESDTLocalMintFunc", "ESDTLocalMint"),
     ("NewESDTNFTAddQuantityFunc", "ESDTNFTAddQuantity"),
     ("NewESDTNFTBurnFunc", "ESDTNFTBurn"),
     ("NewESDTNFTCreateFunc", "ESDTNFTCreate"),
     ("NewESDTNFTTransferFunc", "ESDTNFTTransfer"),
     ("NewESDTNFTUpdateAttributesFunc", "ESDTNFTUpdateAttributes"),
     ("NewESDTNFTAddUriFunc", "ESDTNFTAddURI"),
     ("NewESDTNFTMultiTransferFunc", "ESDTNFTMultiTransfer")] := by decide

-- non-vacuity: a complete map of distinct primes is accepted; dropping one entry rejects it
def sampleMap : GasMap :=
  [("BuiltInCost.ChangeOwnerAddress", 11), ("BuiltInCost.ClaimDeveloperRewards", 13), ("BuiltInCost.SaveUserName", 17),
   ("BuiltInCost.SaveKeyValue", 19), ("BuiltInCost.ESDTTransfer", 23), ("BuiltInCost.ESDTBurn", 29), ("BuiltInCost.ESDTLocalMint", 31),
   ("BuiltInCost.ESDTLocalBurn", 37), ("BuiltInCost.ESDTNFTCreate", 41), ("BuiltInCost.ESDTNFTAddQuantity", 43),
   ("BuiltInCost.ESDTNFTBurn", 47), ("BuiltInCost.ESDTNFTTransfer", 53), ("BuiltInCost.ESDTNFTChangeCreateOwner", 59),
   ("BuiltInCost.ESDTNFTMultiTransfer", 61), ("BuiltInCost.ESDTNFTAddURI", 67), ("BuiltInCost.ESDTNFTUpdateAttributes", 71),
   ("BaseOperationCost.StorePerByte", 2), ("BaseOperationCost.ReleasePerByte", 3), ("BaseOperationCost.DataCopyPerByte", 5),
   ("BaseOperationCost.PersistPerByte", 7), ("BaseOperationCost.CompilePerByte", 73), ("BaseOperationCost.AoTPreparePerByte", 79)]
example : (createGasConfig sampleMap).isSome = true ∧ (createGasConfig (sampleMap.drop 1)).isSome = false ∧
    (createGasConfig (sampleMap ++ [("BuiltInCost.ESDTNFTChangeCreateOwner", 0)])).isSome = false := by decide

end C16
