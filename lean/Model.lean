import Model.Basic
import Model.Codec
import Model.State
import Model.Helpers
import Model.Fn
import Model.Parsers
import Model.World
import Model.Merge
