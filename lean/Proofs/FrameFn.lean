/-
  Proofs/FrameFn.lean — the footprint of each of the 23 functions.
-/
import Proofs.Frame
namespace Esdt

/-- account-level functions: only owner / user name / developer reward / balance fields -/
def acctFootprint (f : FnId) (c : Call) (a : Bytes) : Slot → Prop
  | .owner => f = .changeOwnerAddress ∧ a = c.rcv
  | .name => f = .setUserName ∧ a = c.rcv
  | .reward => f = .claimDeveloperRewards ∧ a = c.rcv
  | .balance => f = .claimDeveloperRewards ∧ a = c.caller
  | .key _ => False

/-- SaveKeyValue: only listed keys of the caller's own account that do not carry the protected prefix -/
def skvFootprint (c : Call) (a : Bytes) : Slot → Prop
  | .key k => a = c.caller ∧ k ∈ c.args ∧ isAllowedToSaveUnderKey k = true
  | _ => False

macro_rules | `(tactic| fr_spec $F) => `(tactic| fr_w1 (FrameStep.setOwner $F _ _ _ (by simp [acctFootprint])))
macro_rules | `(tactic| fr_spec $F) => `(tactic| fr_w1 (FrameStep.setName $F _ _ _ (by simp [acctFootprint])))
macro_rules | `(tactic| fr_spec $F) => `(tactic| fr_w1 (FrameStep.setReward $F _ _ _ (by simp [acctFootprint])))
macro_rules | `(tactic| fr_spec $F) => `(tactic| fr_w1 (FrameStep.setBalance $F _ _ _ (by simp [acctFootprint])))

theorem frame_esdtTransfer (env : Env) (c : Call) : Framed (tokenFootprint false false c) (esdtTransfer env c) := by
  intro ctx A0 h0; unfold esdtTransfer; fr (tokenFootprint false false c)
theorem frame_esdtLocalMint (env : Env) (c : Call) : Framed (tokenFootprint false false c) (esdtLocalMint env c) := by
  intro ctx A0 h0; unfold esdtLocalMint; fr (tokenFootprint false false c)
theorem frame_esdtLocalBurn (env : Env) (c : Call) : Framed (tokenFootprint false false c) (esdtLocalBurn env c) := by
  intro ctx A0 h0; unfold esdtLocalBurn; fr (tokenFootprint false false c)
theorem frame_esdtBurn (env : Env) (c : Call) : Framed (tokenFootprint false false c) (esdtBurn env c) := by
  intro ctx A0 h0; unfold esdtBurn; fr (tokenFootprint false false c)
theorem frame_esdtNFTCreate (env : Env) (c : Call) : Framed (tokenFootprint false true c) (esdtNFTCreate env c) := by
  intro ctx A0 h0; unfold esdtNFTCreate; fr (tokenFootprint false true c)
theorem frame_esdtNFTAddQuantity (env : Env) (c : Call) : Framed (tokenFootprint false false c) (esdtNFTAddQuantity env c) := by
  intro ctx A0 h0; unfold esdtNFTAddQuantity; fr (tokenFootprint false false c)
theorem frame_esdtNFTBurn (env : Env) (c : Call) : Framed (tokenFootprint false false c) (esdtNFTBurn env c) := by
  intro ctx A0 h0; unfold esdtNFTBurn; fr (tokenFootprint false false c)
theorem frame_esdtNFTAddURI (env : Env) (c : Call) : Framed (tokenFootprint false false c) (esdtNFTAddURI env c) := by
  intro ctx A0 h0; unfold esdtNFTAddURI; fr (tokenFootprint false false c)
theorem frame_esdtNFTUpdateAttributes (env : Env) (c : Call) :
    Framed (tokenFootprint false false c) (esdtNFTUpdateAttributes env c) := by
  intro ctx A0 h0; unfold esdtNFTUpdateAttributes; fr (tokenFootprint false false c)
theorem frame_esdtFreezeWipe (k : FreezeKind) (env : Env) (c : Call) :
    Framed (tokenFootprint false false c) (esdtFreezeWipe k env c) := by
  intro ctx A0 h0; unfold esdtFreezeWipe; fr (tokenFootprint false false c)
theorem frame_esdtPause (p : Bool) (env : Env) (c : Call) : Framed (tokenFootprint false false c) (esdtPause p env c) := by
  intro ctx A0 h0; unfold esdtPause; fr (tokenFootprint false false c)
theorem frame_esdtRoles (s : Bool) (env : Env) (c : Call) : Framed (tokenFootprint true false c) (esdtRoles s env c) := by
  intro ctx A0 h0; unfold esdtRoles; fr (tokenFootprint true false c)
theorem frame_esdtNFTCreateRoleTransfer (env : Env) (c : Call) :
    Framed (tokenFootprint true true c) (esdtNFTCreateRoleTransfer env c) := by
  intro ctx A0 h0; unfold esdtNFTCreateRoleTransfer; fr (tokenFootprint true true c)
theorem frame_esdtNFTTransferSender (env : Env) (c : Call) :
    Framed (tokenFootprint false false c) (esdtNFTTransferSender env c) := by
  intro ctx A0 h0; unfold esdtNFTTransferSender; fr (tokenFootprint false false c)
theorem frame_esdtNFTTransfer (env : Env) (c : Call) : Framed (tokenFootprint false false c) (esdtNFTTransfer env c) := by
  intro ctx A0 h0; unfold esdtNFTTransfer; fr (tokenFootprint false false c)
  exact frame_esdtNFTTransferSender env c _ A0 (by assumption)

theorem frame_transferOne (env : Env) (c : Call) (l : Bool) (d t : Bytes) (n q : Nat) (v : Bool)
    (hd : d ∈ c.args) (ht : t ∈ c.args) : Framed (tokenFootprint false false c) (transferOne env c l d t n q v) := by
  intro ctx A0 h0; unfold transferOne; fr (tokenFootprint false false c)
macro_rules | `(tactic| fr_spec $F) => `(tactic|
  fr_w1 ((frame_transferOne _ _ _ _ _ _ _ _ (by fp_aux) (by fp_aux)).step _))

theorem frame_multiSenderLoop (env : Env) (c : Call) (l : Bool) (d : Bytes) (v : Bool) (hd : d ∈ c.args) :
    ∀ n idx, Framed (tokenFootprint false false c) (multiSenderLoop env c l d v n idx) := by
  intro n
  induction n with
  | zero => intro idx ctx A0 h0; unfold multiSenderLoop; fr (tokenFootprint false false c)
  | succ n ih =>
    intro idx ctx A0 h0; unfold multiSenderLoop; fr (tokenFootprint false false c)
    all_goals (refine Post.mono (ih _ _ A0 (by assumption)) ?_; intro _ _ hfr; fr (tokenFootprint false false c))

theorem frame_multiDestLoop (env : Env) (c : Call) (m : Nat) :
    ∀ n idx, Framed (tokenFootprint false false c) (multiDestLoop env c m n idx) := by
  intro n
  induction n with
  | zero => intro idx ctx A0 h0; unfold multiDestLoop; fr (tokenFootprint false false c)
  | succ n ih =>
    intro idx ctx A0 h0; unfold multiDestLoop; fr (tokenFootprint false false c)
    all_goals (refine Post.mono (ih _ _ A0 (by assumption)) ?_; intro _ _ hfr; fr (tokenFootprint false false c))

theorem ro_multiPayloadLoop (env : Env) : ∀ toks g, RO (multiPayloadLoop env toks g) := by
  intro toks
  induction toks with
  | nil => intro g; unfold multiPayloadLoop; ro
  | cons p rest ih =>
    intro g; obtain ⟨tokenID, t⟩ := p
    unfold multiPayloadLoop; ro <;> exact ih _

theorem frame_multiTransferSender (env : Env) (c : Call) :
    Framed (tokenFootprint false false c) (multiTransferSender env c) := by
  intro ctx A0 h0; unfold multiTransferSender; fr (tokenFootprint false false c)
  all_goals first
    | (refine Post.mono ((frame_multiSenderLoop env c _ _ _ (List.mem_of_getElem? ‹_›) _ _).step _) ?_
       intro _ _ hs; have hfr := hs _ (by assumption); clear hs; fr (tokenFootprint false false c)
       all_goals (refine Post.mono (ro_multiPayloadLoop env _ _ _) ?_
                  intro _ _ he; have hfr2 := Frame.of_accts_eq he (by assumption); clear he; fr (tokenFootprint false false c)))
    | skip

theorem frame_multiTransfer (env : Env) (c : Call) : Framed (tokenFootprint false false c) (multiTransfer env c) := by
  intro ctx A0 h0; unfold multiTransfer; fr (tokenFootprint false false c)
  · exact frame_multiTransferSender env c _ A0 (by assumption)
  all_goals (refine Post.mono ((frame_multiDestLoop env c _ _ _).step _) ?_
             intro _ _ hs; have hfr := hs _ (by assumption); clear hs; fr (tokenFootprint false false c))

/-! ### account-level functions and SaveKeyValue -/

theorem frame_changeOwnerAddress (env : Env) (c : Call) :
    Framed (acctFootprint .changeOwnerAddress c) (changeOwnerAddress env c) := by
  intro ctx A0 h0; unfold changeOwnerAddress; fr (acctFootprint .changeOwnerAddress c)
theorem frame_claimDeveloperRewards (env : Env) (c : Call) :
    Framed (acctFootprint .claimDeveloperRewards c) (claimDeveloperRewards env c) := by
  intro ctx A0 h0; unfold claimDeveloperRewards; fr (acctFootprint .claimDeveloperRewards c)
theorem frame_setUserName (env : Env) (c : Call) :
    Framed (acctFootprint .setUserName c) (setUserName env c) := by
  intro ctx A0 h0; unfold setUserName; fr (acctFootprint .setUserName c)

theorem frame_skvLoop (env : Env) (c : Call) : ∀ (n : Nat) (l : List Bytes) (g : Nat), l.length ≤ n →
    (∀ x ∈ l, x ∈ c.args) → Framed (skvFootprint c) (skvLoop env c l g) := by
  intro n
  induction n with
  | zero =>
    intro l g hl _
    have : l = [] := List.eq_nil_of_length_eq_zero (by omega)
    subst this; intro ctx A0 h0; unfold skvLoop; fr (skvFootprint c)
  | succ n ih =>
    intro l g hl hmem
    match l, hl, hmem with
    | [], _, _ => intro ctx A0 h0; unfold skvLoop; fr (skvFootprint c)
    | [_], _, _ => intro ctx A0 h0; unfold skvLoop; fr (skvFootprint c)
    | k :: v :: rest, hl, hmem =>
      have hrest : ∀ x ∈ rest, x ∈ c.args := fun x hx => hmem x (by simp [hx])
      have hk : k ∈ c.args := hmem k (by simp)
      intro ctx A0 h0; unfold skvLoop; fr (skvFootprint c)
      all_goals first
        | exact ih _ _ (by simp at hl; omega) hrest _ A0 (by assumption)
        | (refine Post.mono (FrameStep.writeKey (skvFootprint c) _ _ _ _ ⟨rfl, hk, by simpa using ‹(!isAllowedToSaveUnderKey k) = false›⟩) ?_
           intro _ _ hs; have hfr := hs _ (by assumption); clear hs; fr (skvFootprint c)
           all_goals exact ih _ _ (by simp at hl; omega) hrest _ A0 (by assumption))

theorem frame_saveKeyValue (env : Env) (c : Call) : Framed (skvFootprint c) (saveKeyValue env c) := by
  intro ctx A0 h0; unfold saveKeyValue; fr (skvFootprint c)
  refine Post.mono ((frame_skvLoop env c _ _ _ (Nat.le_refl _) (fun x hx => hx)).step _) ?_
  intro _ _ hs; have hfr := hs _ (by assumption); clear hs; fr (skvFootprint c)

end Esdt
