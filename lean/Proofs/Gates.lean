/-
  Proofs/Gates.lean — the freeze / pause gate facts of the NFT functions (C04): every write goes through
  `saveESDTNFTToken`, which evaluates the gate on the token key.
-/
import Proofs.Metadata
namespace Esdt

/-- the token of key `ELRONDesdt‖tok` is not paused on this shard — unless the call is exempt for account `a` -/
def PauseOpen (A : Accts) (c : Call) (a tok : Bytes) : Prop :=
  c.rae = false → a ≠ esdtSCAddress → pausedIn A (esdtKeyPrefix ++ tok) = false

theorem GateOpen.pause {A : Accts} {a tok : Bytes} {t : Token} {c : Call}
    (h : GateOpen A a (esdtKeyPrefix ++ tok) t c.rae) : PauseOpen A c a tok :=
  fun hr ha => (h hr ha).2

theorem pause_nftCreate (env : Env) (c : Call) (ctx : Ctx) :
    Post (esdtNFTCreate env c) ctx (fun _ _ => ∃ tok, c.args[0]? = some tok ∧ PauseOpen ctx.accts c c.caller tok) := by
  unfold esdtNFTCreate checkCreateBurnAdd checkBasic
  xsteps
  apply Post.mono (ro_checkAllowed _ _ _ ctx)
  intro _ c1 h1
  xsteps
  apply Post.mono (spec_getLatestNonce _ _ c1)
  intro nonce c2 ⟨h2, _⟩
  xsteps
  apply Post.mono (ro_checkAllowedIf _ _ _ _ c2)
  intro _ c3 h3
  xsteps
  apply Post.mono (spec_saveNFT _ _ _ _ c3)
  intro bytes c4 ⟨_, hg, _, _, _⟩
  rw [h3, h2, h1] at hg
  apply Post.intro
  intro _ _
  exact ⟨_, ‹c.args[0]? = some _›, hg.pause⟩

theorem pause_addURI (env : Env) (c : Call) (ctx : Ctx) :
    Post (esdtNFTAddURI env c) ctx (fun _ _ => ∃ tok, c.args[0]? = some tok ∧ PauseOpen ctx.accts c c.caller tok) := by
  unfold esdtNFTAddURI checkCreateBurnAdd checkBasic
  xsteps
  apply Post.mono (ro_checkAllowed _ _ _ ctx)
  intro _ c1 h1
  xsteps
  apply Post.mono (spec_getNFTOnSender _ _ _ c1)
  intro t c2 ⟨h2, _⟩
  xsteps
  apply Post.mono (spec_saveNFT _ _ _ _ c2)
  intro _ c3 ⟨_, hg, _⟩
  rw [h2, h1] at hg
  apply Post.pure
  exact ⟨_, ‹c.args[0]? = some _›, hg.pause⟩

theorem pause_updateAttributes (env : Env) (c : Call) (ctx : Ctx) :
    Post (esdtNFTUpdateAttributes env c) ctx (fun _ _ => ∃ tok, c.args[0]? = some tok ∧ PauseOpen ctx.accts c c.caller tok) := by
  unfold esdtNFTUpdateAttributes checkCreateBurnAdd checkBasic
  xsteps
  apply Post.mono (ro_checkAllowed _ _ _ ctx)
  intro _ c1 h1
  xsteps
  apply Post.mono (spec_getNFTOnSender _ _ _ c1)
  intro t c2 ⟨h2, _⟩
  xsteps
  apply Post.mono (spec_saveNFT _ _ _ _ c2)
  intro _ c3 ⟨_, hg, _⟩
  rw [h2, h1] at hg
  apply Post.pure
  exact ⟨_, ‹c.args[0]? = some _›, hg.pause⟩

/-- sender side of ESDTNFTTransfer (debit): token not paused, and the sender's NFT entry itself not flagged frozen -/
theorem pause_nftTransferSender (env : Env) (c : Call) (ctx : Ctx) (hs : present env.nshards env.self c.caller = true) :
    Post (esdtNFTTransferSender env c) ctx (fun _ _ => ∃ tok, c.args[0]? = some tok ∧ PauseOpen ctx.accts c c.caller tok) := by
  unfold esdtNFTTransferSender
  simp only [hs, Bool.not_true, Bool.false_eq_true, if_false]
  xsteps
  apply Post.mono (spec_getNFTOnSender _ _ _ ctx)
  intro t c1 ⟨h1, _⟩
  xsteps
  apply Post.mono (spec_saveNFT _ _ _ _ c1)
  intro _ c2 ⟨_, hg, _⟩
  rw [h1] at hg
  apply Post.intro
  intro _ _
  exact ⟨_, ‹c.args[0]? = some _›, hg.pause⟩

/-- destination side of ESDTNFTTransfer (credit) -/
theorem pause_nftTransferDest (env : Env) (c : Call) (ctx : Ctx) (hne : c.caller ≠ c.rcv) :
    Post (esdtNFTTransfer env c) ctx (fun _ _ => ∃ tok, c.args[0]? = some tok ∧ PauseOpen ctx.accts c c.rcv tok) := by
  apply Post.mono (nftTransfer_dest_effect env c ctx hne)
  intro _ _ ⟨tok, _, t, cur, _, _, h0, _, _, _, _, _, _, hg, _⟩
  exact ⟨tok, h0, hg.pause⟩

/-- one sender-side item of a multi transfer -/
theorem pause_transferOne (env : Env) (c : Call) (l : Bool) (dst tok : Bytes) (n q : Nat) (v : Bool) (ctx : Ctx) :
    Post (transferOne env c l dst tok n q v) ctx (fun _ _ => PauseOpen ctx.accts c c.caller tok) := by
  unfold transferOne
  xsteps
  apply Post.mono (spec_getNFTOnSender _ _ _ ctx)
  intro t c1 ⟨h1, _⟩
  xsteps
  apply Post.mono (spec_saveNFT _ _ _ _ c1)
  intro _ c2 ⟨_, hg, _⟩
  rw [h1] at hg
  apply Post.intro
  intro _ _
  exact hg.pause

end Esdt

namespace Esdt

/-! ### payability at the destination side of a multi transfer (C09) -/

/-- the first item of the destination loop already asks the payability oracle (fungible items through
    `verifyPayableIf`, NFT items inside `addNFTToDestination`) -/
theorem multiDestLoop_payable (env : Env) (c : Call) (m n idx : Nat) (ctx : Ctx) :
    Post (multiDestLoop env c m (n + 1) idx) ctx (fun _ _ => mustVerifyPayable c m = true → env.payable c.rcv = .yes) := by
  unfold multiDestLoop
  xsteps
  split
  · xsteps
    apply Post.mono (spec_unmarshalToken _ ctx)
    intro t c1 _
    xsteps
    apply Post.mono (spec_addNFTToDestination env c.rcv t _ _ _ c1)
    intro _ c2 ⟨_, _, _, _, hp, _⟩
    apply Post.intro; intro _ _; exact hp
  · xsteps
    apply Post.mono (spec_verifyPayableIf env _ c.rcv ctx)
    intro _ c1 ⟨_, hp⟩
    apply Post.intro; intro _ _; exact hp

/-- destination side of MultiESDTNFTTransfer: a successful execution verified the payability of the destination whenever
    verification is required (threshold = the bare multi transfer's argument count 3n+1) -/
theorem multiTransfer_dest_payable (env : Env) (c : Call) (ctx : Ctx) (hne : c.caller ≠ c.rcv) :
    Post (multiTransfer env c) ctx (fun _ _ => ∃ a0, c.args[0]? = some a0 ∧
      (mustVerifyPayable c (u64 (u64 (u64 (beNat a0) * 3) + 1)) = true → env.payable c.rcv = .yes)) := by
  unfold multiTransfer checkBasic
  simp only [hne, if_false]
  xsteps
  rename_i a0 h0 hz _ _
  have hpos : u64 (beNat a0) ≠ 0 := of_decide_eq_false hz
  obtain ⟨k, hk⟩ := Nat.exists_eq_succ_of_ne_zero hpos
  rw [hk]
  apply Post.mono (multiDestLoop_payable env c _ k 1 ctx)
  intro _ _ hp
  apply Post.intro; intro _ _
  exact ⟨a0, h0, by rw [← hk] at hp; exact hp⟩

end Esdt

namespace Esdt

/-- one sender-side item with the destination on the same shard: the credit asks the oracle when told to -/
theorem payable_transferOne (env : Env) (c : Call) (dst tok : Bytes) (n q : Nat) (v : Bool) (ctx : Ctx) :
    Post (transferOne env c true dst tok n q v) ctx (fun _ _ => v = true → env.payable dst = .yes) := by
  unfold transferOne
  xsteps
  apply Post.mono (spec_getNFTOnSender _ _ _ ctx)
  intro t c1 _
  xsteps
  apply Post.mono (spec_saveNFT _ _ _ _ c1)
  intro _ c2 _
  simp only [if_true]
  apply Post.mono (spec_addNFTToDestination env dst _ _ _ _ c2)
  intro _ c3 ⟨_, _, _, _, hp, _⟩
  exact hp

theorem multiSenderLoop_payable (env : Env) (c : Call) (dst : Bytes) (v : Bool) (n idx : Nat) (ctx : Ctx) :
    Post (multiSenderLoop env c true dst v (n + 1) idx) ctx (fun _ _ => v = true → env.payable dst = .yes) := by
  unfold multiSenderLoop
  xsteps
  apply Post.mono (payable_transferOne env c dst _ _ _ v ctx)
  intro _ c1 hp
  apply Post.intro; intro _ _; exact hp

/-- sender side of MultiESDTNFTTransfer with the destination on the executing shard -/
theorem multiTransferSender_sameShard_payable (env : Env) (c : Call) (ctx : Ctx)
    (hs : present env.nshards env.self c.caller = true)
    (hx : ∀ d, c.args[0]? = some d → env.self = shardOf env.nshards d) :
    Post (multiTransferSender env c) ctx (fun _ _ => ∃ dst a1, c.args[0]? = some dst ∧ c.args[1]? = some a1 ∧
      (mustVerifyPayable c (u64 (u64 (u64 (beNat a1) * 3) + 2)) = true → env.payable dst = .yes)) := by
  unfold multiTransferSender
  simp only [hs, Bool.not_true, Bool.false_eq_true, if_false]
  xsteps
  rename_i dst h0 _ _ _ a1 h1 hz _ _ _
  have hxx := hx dst h0
  simp only [hxx, decide_true, if_true]
  have hpos : u64 (beNat a1) ≠ 0 := of_decide_eq_false hz
  obtain ⟨k, hk⟩ := Nat.exists_eq_succ_of_ne_zero hpos
  xsteps
  apply Post.mono (ro_loadAcct ctx)
  intro _ c1 _
  xsteps
  rw [hk]
  apply Post.mono (multiSenderLoop_payable env c dst _ k 2 c1)
  intro _ _ hp
  apply Post.intro; intro _ _
  exact ⟨dst, a1, h0, h1, by rw [← hk] at hp; exact hp⟩

end Esdt
