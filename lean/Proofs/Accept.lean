/-
  Proofs/Accept.lean — total-correctness triples (`Tot P m Q`: from every context satisfying `P` the computation SUCCEEDS
  and its result satisfies `Q`) and, with them, C10's "the other shard's function of the same name accepts the
  continuation" for the create-role hand-over: the message the current holder's shard emits is accepted on the next
  holder's shard, whatever that account held.
-/
import Proofs.NetworkNonce
namespace Esdt

/-- total correctness: success guaranteed, postcondition on the result -/
def Tot {α} (P : Ctx → Prop) (m : M α) (Q : α → Ctx → Prop) : Prop :=
  ∀ c, P c → ∃ a c', m c = .ok (a, c') ∧ Q a c'

theorem Tot.pure {α} {P : Ctx → Prop} {a : α} {Q : α → Ctx → Prop} (h : ∀ c, P c → Q a c) : Tot P (pure a : M α) Q :=
  fun c hc => ⟨a, c, rfl, h c hc⟩

theorem Tot.bind {α β} {P : Ctx → Prop} {m : M α} {f : α → M β} {Q : α → Ctx → Prop} {R : β → Ctx → Prop}
    (hm : Tot P m Q) (hf : ∀ a, Tot (Q a) (f a) R) : Tot P (m >>= f) R := by
  intro c hc
  obtain ⟨a, c1, h1, hq⟩ := hm c hc
  obtain ⟨b, c2, h2, hr⟩ := hf a c1 hq
  exact ⟨b, c2, by show M.bind m f c = _; simp [M.bind, h1, h2], hr⟩

theorem Tot.weaken {α} {P P' : Ctx → Prop} {m : M α} {Q Q' : α → Ctx → Prop} (h : Tot P m Q) (hp : ∀ c, P' c → P c)
    (hq : ∀ a c, Q a c → Q' a c) : Tot P' m Q' := by
  intro c hc
  obtain ⟨a, c', h1, h2⟩ := h c (hp c hc)
  exact ⟨a, c', h1, hq a c' h2⟩

/-- "no fault is planned" — the only way a dependency call fails in the model -/
def NoFault (c : Ctx) : Prop := c.failAt = none

theorem Tot.tick (d : Dep) (I : Accts → Prop) :
    Tot (fun c => NoFault c ∧ I c.accts) (tick d) (fun _ c' => NoFault c' ∧ I c'.accts) := by
  intro c ⟨hn, hi⟩
  refine ⟨(), { c with deps := d :: c.deps }, ?_, hn, hi⟩
  unfold Esdt.tick NoFault at *
  simp [hn]

theorem Tot.guardE (cond : Bool) (e : ErrKind) (h : cond = false) (P : Ctx → Prop) :
    Tot P (guardE cond e) (fun _ c' => P c') := by
  intro c hc
  exact ⟨(), c, by simp [Esdt.guardE, h, Pure.pure, M.pure], hc⟩

theorem Tot.argAt (args : List Bytes) (i : Nat) (x : Bytes) (h : args[i]? = some x) (P : Ctx → Prop) :
    Tot P (argAt args i) (fun a c' => a = x ∧ P c') := by
  intro c hc
  exact ⟨x, c, by simp [Esdt.argAt, deref, h, Pure.pure, M.pure], rfl, hc⟩

theorem Tot.readKey (a k : Bytes) (P : Ctx → Prop) :
    Tot P (readKey a k) (fun v c' => v = c'.accts.read a k ∧ P c') := by
  intro c hc
  exact ⟨_, c, rfl, rfl, hc⟩

theorem Tot.writeKey (a k v : Bytes) (A : Accts) :
    Tot (fun c => NoFault c ∧ c.accts = A) (writeKey a k v) (fun _ c' => NoFault c' ∧ c'.accts = A.write a k v) := by
  intro c ⟨hn, ha⟩
  unfold NoFault at hn
  refine ⟨(), { c with deps := .w :: c.deps, accts := c.accts.write a k v }, ?_, hn, by rw [← ha]⟩
  simp [Esdt.writeKey, Esdt.tick, hn, Bind.bind, M.bind, Accts.write]

end Esdt

namespace Esdt

/-- the next-holder step of the create-role hand-over SUCCEEDS on every state of the destination shard: no gate, no
    payability, no balance is consulted; the only things that can stop it are a role list that does not decode (or would
    not fit a Go slice once extended) and an injected dependency fault -/
theorem handover_delivery_accepted (env : Env) (c : Call) (ctx : Ctx) (tok nb : Bytes)
    (hnf : ctx.failAt = none) (hval : c.callValue = 0) (hargs : c.args = [tok, nb])
    (hsys : c.caller ≠ esdtSCAddress)
    (hsnd : present env.nshards env.self c.caller = false) (hdst : present env.nshards env.self c.rcv = true)
    (roles : List Bytes)
    (hroles : rolesOf (ctx.accts.read c.rcv (roleKeyPrefix ++ tok)) = some roles)
    (hlen : (encRoles (roles ++ [roleNFTCreate])).length < two63) :
    ∃ out ctx', esdtNFTCreateRoleTransfer env c ctx = .ok (out, ctx') ∧ out.rc = 0 := by
  unfold esdtNFTCreateRoleTransfer checkBasic
  simp only [hsnd, hdst, hsys, if_false, hval, hargs, Esdt.guardE, Esdt.argAt, deref, saveLatestNonce, Esdt.writeKey,
    Esdt.tick, addCreateRole, getRoles, Esdt.readKey, Bind.bind, M.bind, Pure.pure, M.pure, hnf,
    List.length_cons, List.length_nil, List.getElem?_cons_zero, List.getElem?_cons_succ, ne_eq, not_true_eq_false,
    decide_false, decide_true, Bool.not_true, Bool.false_eq_true, if_true, reduceCtorEq, Nat.reduceAdd, Nat.reduceLT]
  have hr : ((ctx.accts.set c.rcv
        { store := (ctx.accts.get c.rcv).store.put (nonceKeyPrefix ++ tok) (beBytes (u64 (beNat nb))),
          balance := (ctx.accts.get c.rcv).balance, reward := (ctx.accts.get c.rcv).reward,
          owner := (ctx.accts.get c.rcv).owner, name := (ctx.accts.get c.rcv).name }).get c.rcv).store.get
        (roleKeyPrefix ++ tok) = ctx.accts.read c.rcv (roleKeyPrefix ++ tok) := by
    have := Accts.read_write ctx.accts c.rcv (nonceKeyPrefix ++ tok) (beBytes (u64 (beNat nb))) c.rcv (roleKeyPrefix ++ tok)
    rw [if_neg (fun h => role_ne_nonce _ _ h.2.symm)] at this
    exact this
  rw [hr]
  unfold rolesOf at hroles
  by_cases hraw : ctx.accts.read c.rcv (roleKeyPrefix ++ tok) = []
  · rw [if_pos hraw] at hroles
    cases hroles
    simp only [hraw, if_true, M.pure, List.nil_append] at hlen ⊢
    have hc : ([] : List Bytes).contains roleNFTCreate = false := rfl
    simp only [hc, Bool.false_eq_true, if_false, saveRoles, marshalRoles, Esdt.tick, Esdt.writeKey, Bind.bind, M.bind,
      Pure.pure, M.pure, hnf, hlen, if_true, List.length_cons, reduceCtorEq]
    exact ⟨_, _, rfl, rfl⟩
  · rw [if_neg hraw] at hroles
    simp only [hraw, if_false, unmarshalRoles, Esdt.tick, Bind.bind, M.bind, Pure.pure, M.pure, hnf, hroles,
      List.length_cons, reduceCtorEq]
    by_cases hc : roles.contains roleNFTCreate = true
    · simp only [hc, if_true, M.pure]
      exact ⟨_, _, rfl, rfl⟩
    · simp only [hc, if_false, saveRoles, marshalRoles, Esdt.tick, Esdt.writeKey, Bind.bind, M.bind, Pure.pure, M.pure,
        hnf, hlen, if_true, List.length_cons, reduceCtorEq, Bool.false_eq_true]
      exact ⟨_, _, rfl, rfl⟩

end Esdt

namespace Esdt

/-! ### "a refund is never rejected" (ESDTTransfer) -/

/-- `saveESDTData` succeeds when the entry carries a value and its encoding fits -/
theorem saveESDTData_accepts (a k : Bytes) (t : Token) (v : Int) (ctx : Ctx) (hnf : ctx.failAt = none)
    (hv : t.value = some v) (hlen : (encToken t).length < two63) :
    ∃ ctx', saveESDTData a t k ctx = .ok ((), ctx') ∧ ctx'.failAt = none ∧
      ctx'.accts = ctx.accts.write a k (storedForm t) := by
  unfold saveESDTData storedForm
  by_cases hz : v = 0 ∧ allZero t.properties = true
  · have hz' : t.value = some 0 ∧ allZero t.properties = true := ⟨by rw [hv, hz.1], hz.2⟩
    rw [if_pos hz']
    simp only [deref, hv, Bind.bind, M.bind, Pure.pure, M.pure, hz, and_self, if_true, Esdt.writeKey, Esdt.tick, hnf,
      List.length_cons, reduceCtorEq, if_false]
    exact ⟨_, rfl, rfl, rfl⟩
  · have hz' : ¬ (t.value = some 0 ∧ allZero t.properties = true) := by
      rintro ⟨h1, h2⟩; rw [hv] at h1; cases h1; exact hz ⟨rfl, h2⟩
    rw [if_neg hz']
    simp only [deref, hv, Bind.bind, M.bind, Pure.pure, M.pure, hz, if_false, marshalToken, Esdt.writeKey, Esdt.tick, hnf,
      hlen, if_true, List.length_cons, reduceCtorEq]
    exact ⟨_, rfl, rfl, rfl⟩


/-- reading an entry through `getESDTDataFromKey` succeeds whenever the slot is empty or decodes -/
theorem getESDTDataFromKey_accepts (a k : Bytes) (t : Token) (ctx : Ctx) (hnf : ctx.failAt = none)
    (ht : tokenOf (ctx.accts.read a k) = some t) :
    ∃ ctx', getESDTDataFromKey a k ctx = .ok (t, ctx') ∧ ctx'.failAt = none ∧ ctx'.accts = ctx.accts := by
  unfold getESDTDataFromKey
  unfold tokenOf at ht
  have hread : (ctx.accts.get a).store.get k = ctx.accts.read a k := rfl
  by_cases hraw : ctx.accts.read a k = []
  · rw [if_pos hraw] at ht
    cases ht
    simp only [Esdt.readKey, Bind.bind, M.bind, hread, hraw, if_true, Pure.pure, M.pure]
    exact ⟨_, rfl, hnf, rfl⟩
  · rw [if_neg hraw] at ht
    simp only [Esdt.readKey, Bind.bind, M.bind, hread, hraw, if_false, unmarshalToken, Esdt.tick, hnf, ht, Pure.pure,
      M.pure, List.length_cons, reduceCtorEq]
    exact ⟨_, rfl, rfl, rfl⟩

/-- the credit of a return-after-error call succeeds on every well-formed fungible entry: no gate is consulted -/
theorem addToESDTBalance_rae_accepts (a k : Bytes) (d : Int) (ctx : Ctx) (hnf : ctx.failAt = none)
    (t : Token) (v : Int) (ht : tokenOf (ctx.accts.read a k) = some t) (hty : t.type = 0)
    (hv : t.value = some v) (h0 : 0 ≤ v + d)
    (hlen : (encToken { t with value := some (v + d) }).length < two63) :
    ∃ ctx', addToESDTBalance a k d true ctx = .ok ((), ctx') ∧ ctx'.failAt = none ∧
      ctx'.accts = ctx.accts.write a k (storedForm { t with value := some (v + d) }) := by
  obtain ⟨c1, h1, hnf1, ha1⟩ := getESDTDataFromKey_accepts a k t ctx hnf ht
  obtain ⟨c2, h2, hnf2, ha2⟩ := saveESDTData_accepts a k { t with value := some (v + d) } (v + d) c1 hnf1 rfl hlen
  have hneg : ¬ (v + d < 0) := by omega
  refine ⟨c2, ?_, hnf2, by rw [ha2, ha1]⟩
  unfold addToESDTBalance checkFrozeAndPause
  simp only [Bind.bind, M.bind, h1, Esdt.guardE, hty, ne_eq, not_true_eq_false, decide_false, Bool.false_eq_true, if_false,
    if_true, Pure.pure, M.pure, deref, hv, hneg]
  rw [hty] at h2
  exact h2

/-- the refund of an ESDTTransfer (callback call type, return-after-error flag, transfer arguments only, executed on the
    origin shard) succeeds on every state where the origin's entry is a well-formed fungible entry -/
theorem esdtTransfer_refund_accepted (env : Env) (c : Call) (ctx : Ctx) (tok amt : Bytes)
    (hct : c.callType = 2) (hrae : c.rae = true) (hargs : c.args = [tok, amt]) (hamt : beNat amt ≠ 0)
    (hval : c.callValue = 0)
    (hsnd : present env.nshards env.self c.caller = false) (hdst : present env.nshards env.self c.rcv = true)
    (hmeta : shardOf env.nshards c.rcv ≠ metaShard) (hnf : ctx.failAt = none)
    (t : Token) (v : Int) (ht : tokenOf (ctx.accts.read c.rcv (esdtKeyPrefix ++ tok)) = some t) (hty : t.type = 0)
    (hv : t.value = some v) (hv0 : 0 ≤ v)
    (hlen : (encToken { t with value := some (v + (beNat amt : Int)) }).length < two63) :
    ∃ out ctx', esdtTransfer env c ctx = .ok (out, ctx') ∧ out.rc = 0 ∧
      ctx'.accts = ctx.accts.write c.rcv (esdtKeyPrefix ++ tok) (storedForm { t with value := some (v + (beNat amt : Int)) }) := by
  have hmv : mustVerifyPayable c 2 = false := by simp [mustVerifyPayable, hct]
  have hsc : (isSmartContractAddress c.rcv && decide (c.args.length > 2)) = false := by simp [hargs]
  obtain ⟨c1, h1, _, ha1⟩ := addToESDTBalance_rae_accepts c.rcv (esdtKeyPrefix ++ tok) (beNat amt) ctx hnf t v ht hty hv
    (by omega) hlen
  unfold esdtTransfer checkBasic
  simp only [hsnd, hdst, hval, hargs, hmv, hsc, Esdt.guardE, Esdt.argAt, deref, Bind.bind, M.bind, Pure.pure, M.pure,
    List.length_cons, List.length_nil, List.getElem?_cons_zero, List.getElem?_cons_succ, ne_eq, not_true_eq_false,
    decide_false, Bool.false_eq_true, if_false, if_true, hmeta, hamt, verifyPayableIf, Nat.reduceAdd, Nat.reduceLT,
    reduceCtorEq, decide_true, hrae, h1, Bool.and_false, gt_iff_lt, Nat.lt_irrefl, hct, Bool.not_false, and_self]
  exact ⟨_, _, rfl, rfl, ha1⟩


/-! ### "a refund is never rejected" (ESDTNFTTransfer) -/

/-- the credit of a return-after-error call on the NFT path: no payability question, no gate; it succeeds when the
    destination's entry under the payload's key is empty or decodes, carries — if it carries metadata at all — the
    payload's hash (C08: every copy of an NFT has the same metadata), and the merged entry's encoding fits -/
theorem addNFTToDestination_rae_accepts (env : Env) (dst tk : Bytes) (t cur : Token) (m : MetaData) (tv cv : Int)
    (ctx : Ctx) (hnf : ctx.failAt = none) (hmd : t.md = some m)
    (hcur : tokenOf (ctx.accts.read dst (nftKey tk m.nonce)) = some cur)
    (hhash : ∀ cm, cur.md = some cm → cm.hash = m.hash)
    (htv : t.value = some tv) (hcv : cur.value = some cv) (hpos : 0 < tv + cv)
    (hlen : (encToken { t with value := some (tv + cv) }).length < two63) :
    ∃ ctx', addNFTToDestination env dst t tk false true ctx = .ok ({ t with value := some (tv + cv) }, ctx') ∧
      ctx'.failAt = none ∧
      ctx'.accts = ctx.accts.write dst (nftKey tk m.nonce) (encToken { t with value := some (tv + cv) }) := by
  obtain ⟨ty, val, props, md, res⟩ := t
  simp only at hmd htv hlen ⊢
  subst hmd; subst htv
  have hread : (ctx.accts.get dst).store.get (nftKey tk m.nonce) = ctx.accts.read dst (nftKey tk m.nonce) := rfl
  have hle : ¬ (tv + cv ≤ 0) := by omega
  -- the lookup
  have hget : ∃ c1, getNFTOnDestination dst tk m.nonce ctx = .ok ((cur, decide (ctx.accts.read dst (nftKey tk m.nonce) = [])), c1) ∧
      c1.failAt = none ∧ c1.accts = ctx.accts := by
    unfold getNFTOnDestination
    unfold tokenOf at hcur
    by_cases hraw : ctx.accts.read dst (nftKey tk m.nonce) = []
    · rw [if_pos hraw] at hcur
      cases hcur
      simp only [Esdt.readKey, Bind.bind, M.bind, hread, hraw, if_true, Pure.pure, M.pure, decide_true]
      exact ⟨_, rfl, hnf, rfl⟩
    · rw [if_neg hraw] at hcur
      simp only [Esdt.readKey, Bind.bind, M.bind, hread, hraw, if_false, unmarshalToken, Esdt.tick, hnf, hcur, Pure.pure,
        M.pure, List.length_cons, reduceCtorEq, decide_false]
      exact ⟨_, rfl, rfl, rfl⟩
  obtain ⟨c1, h1, hnf1, ha1⟩ := hget
  -- the hash comparison
  have hsame : checkSameHash cur ⟨ty, some tv, props, some m, res⟩ c1 = .ok ((), c1) := by
    unfold checkSameHash
    cases hc : cur.md with
    | none => rfl
    | some cm =>
      simp only [Esdt.guardE, hhash cm hc, ne_eq, not_true_eq_false, decide_false, Bool.false_eq_true, if_false,
        Pure.pure, M.pure]
  unfold addNFTToDestination saveNFT checkFrozeAndPause verifyPayableIf
  simp only [Bind.bind, M.bind, h1, hsame, Pure.pure, M.pure, Bool.false_eq_true, if_false, if_true, deref,
    hcv, hle, marshalToken, Esdt.tick, hnf1, hlen, Esdt.writeKey, List.length_cons, reduceCtorEq, ha1]
  exact ⟨_, rfl, rfl, rfl⟩

/-- the refund of an ESDTNFTTransfer (callback call type, return-after-error flag, the four transfer arguments of the
    message that was refused, executed on the origin shard) succeeds whenever the payload decodes to an entry with metadata
    and a positive quantity, the origin's slot under that key is empty or decodes, and — if the origin still holds pieces
    — their hash is the payload's.  The last two are what the world invariants give (C15 `Canon`, C08 `UMdInv`); the
    size bound is the physical one (Go slices). -/
theorem esdtNFTTransfer_refund_accepted (env : Env) (c : Call) (ctx : Ctx) (tok nb qb payload : Bytes)
    (hct : c.callType = 2) (hrae : c.rae = true) (hargs : c.args = [tok, nb, qb, payload]) (hval : c.callValue = 0)
    (hne : c.caller ≠ c.rcv)
    (hsnd : present env.nshards env.self c.caller = false) (hdst : present env.nshards env.self c.rcv = true)
    (hnf : ctx.failAt = none)
    (t cur : Token) (m : MetaData) (tv cv : Int) (hdec : decToken payload = some t) (hmd : t.md = some m)
    (hcur : tokenOf (ctx.accts.read c.rcv (nftKey (esdtKeyPrefix ++ tok) m.nonce)) = some cur)
    (hhash : ∀ cm, cur.md = some cm → cm.hash = m.hash)
    (htv : t.value = some tv) (hcv : cur.value = some cv) (hpos : 0 < tv + cv)
    (hlen : (encToken { t with value := some (tv + cv) }).length < two63) :
    ∃ out ctx', esdtNFTTransfer env c ctx = .ok (out, ctx') ∧ out.rc = 0 ∧
      ctx'.accts = ctx.accts.write c.rcv (nftKey (esdtKeyPrefix ++ tok) m.nonce)
        (encToken { t with value := some (tv + cv) }) := by
  have hmv : mustVerifyPayable c 4 = false := by simp [mustVerifyPayable, hct]
  obtain ⟨ty, val, props, md, res⟩ := t
  simp only at hmd htv hlen ⊢
  subst hmd; subst htv
  -- decoding the payload counts one dependency call
  have hun : unmarshalToken payload ctx = .ok (⟨ty, some tv, props, some m, res⟩, { ctx with deps := Dep.u :: ctx.deps }) := by
    simp only [unmarshalToken, Esdt.tick, hnf, Bind.bind, M.bind, hdec, Pure.pure, M.pure, List.length_cons, reduceCtorEq]
    rfl
  obtain ⟨c2, h2, _, ha2⟩ := addNFTToDestination_rae_accepts env c.rcv (esdtKeyPrefix ++ tok)
    ⟨ty, some tv, props, some m, res⟩ cur m tv cv
    { ctx with deps := Dep.u :: ctx.deps } hnf rfl hcur hhash rfl hcv hpos hlen
  unfold esdtNFTTransfer checkBasic
  simp only [hsnd, hdst, hval, hargs, hmv, hne, Esdt.guardE, Esdt.argAt, deref, Bind.bind, M.bind, Pure.pure, M.pure,
    List.length_cons, List.length_nil, List.getElem?_cons_zero, List.getElem?_cons_succ, ne_eq, not_true_eq_false,
    decide_false, Bool.false_eq_true, if_false, if_true, Nat.reduceAdd, Nat.reduceLT, reduceCtorEq, decide_true, hrae,
    hun, h2, Bool.and_false, gt_iff_lt, Nat.lt_irrefl, Bool.not_false, Bool.not_true, and_self, Bool.false_and]
  exact ⟨_, _, rfl, rfl, ha2⟩

end Esdt
