/-
  Proofs/Linearizable.lean — C19: operations on a shared object each performed as ONE critical section of a readers-writer
  lock (the shape the lock discipline `D` of Props/C19 establishes for `MutexMap` and for the priced function objects) are
  LINEARIZABLE: for any number of threads and any interleaving, the accesses — in the order they happen — form a legal
  sequential history of the object's specification that yields the current state and every returned output, and each
  access lies between its operation's call and its return.  Threads are explicit here (Props/C19's lock model is the
  counter abstraction of this one).
-/
import Model.MapSpec
namespace Lin

/-- where a thread is: idle; has called `op`; holds the lock; has performed the access (still holding the lock); has
    released the lock (about to return `out`) -/
inductive Pc (ι ο : Type)
  | idle
  | called (op : ι)
  | locked (op : ι)
  | accessed (op : ι) (out : ο)
  | released (op : ι) (out : ο)

inductive Ev (ι ο : Type)
  | call (t : Nat) (op : ι)
  | lin (t : Nat) (op : ι) (out : ο)      -- the access: the linearization point
  | ret (t : Nat) (op : ι) (out : ο)

def Ev.tid {ι ο : Type} : Ev ι ο → Nat
  | .call t _ => t | .lin t _ _ => t | .ret t _ _ => t

structure St (σ ι ο : Type) where
  data : σ
  pcs : Nat → Pc ι ο
  evs : List (Ev ι ο)         -- oldest first

variable {σ ι ο : Type}

def Pc.holds : Pc ι ο → Bool
  | .locked _ | .accessed _ _ => true
  | _ => false

def Pc.holdsW (S : Spec σ ι ο) : Pc ι ο → Bool
  | .locked op | .accessed op _ => S.isWrite op
  | _ => false

def upd (f : Nat → Pc ι ο) (t : Nat) (p : Pc ι ο) : Nat → Pc ι ο := fun u => if u = t then p else f u

inductive Step (S : Spec σ ι ο) : St σ ι ο → St σ ι ο → Prop
  | call (s : St σ ι ο) (t : Nat) (op : ι) : s.pcs t = .idle →
      Step S s { s with pcs := upd s.pcs t (.called op), evs := s.evs ++ [.call t op] }
  /-- the read lock is granted while no thread holds the write lock -/
  | acquireR (s : St σ ι ο) (t : Nat) (op : ι) : s.pcs t = .called op → S.isWrite op = false →
      (∀ u, (s.pcs u).holdsW S = false) → Step S s { s with pcs := upd s.pcs t (.locked op) }
  /-- the write lock is granted while no thread holds the lock at all -/
  | acquireW (s : St σ ι ο) (t : Nat) (op : ι) : s.pcs t = .called op → S.isWrite op = true →
      (∀ u, (s.pcs u).holds = false) → Step S s { s with pcs := upd s.pcs t (.locked op) }
  /-- the access, inside the critical section -/
  | access (s : St σ ι ο) (t : Nat) (op : ι) : s.pcs t = .locked op →
      Step S s { data := (S.apply s.data op).1, pcs := upd s.pcs t (.accessed op (S.apply s.data op).2),
                 evs := s.evs ++ [.lin t op (S.apply s.data op).2] }
  | release (s : St σ ι ο) (t : Nat) (op : ι) (out : ο) : s.pcs t = .accessed op out →
      Step S s { s with pcs := upd s.pcs t (.released op out) }
  | ret (s : St σ ι ο) (t : Nat) (op : ι) (out : ο) : s.pcs t = .released op out →
      Step S s { s with pcs := upd s.pcs t .idle, evs := s.evs ++ [.ret t op out] }

inductive Reach (S : Spec σ ι ο) (d0 : σ) : St σ ι ο → Prop
  | init : Reach S d0 { data := d0, pcs := fun _ => .idle, evs := [] }
  | step {s s' : St σ ι ο} : Reach S d0 s → Step S s s' → Reach S d0 s'

/-! ### mutual exclusion with explicit threads -/

def Excl (S : Spec σ ι ο) (s : St σ ι ο) : Prop :=
  ∀ t u, t ≠ u → (s.pcs t).holdsW S = true → (s.pcs u).holds = false

theorem upd_same (f : Nat → Pc ι ο) (t : Nat) (p : Pc ι ο) : upd f t p t = p := by simp [upd]
theorem upd_other (f : Nat → Pc ι ο) (t u : Nat) (p : Pc ι ο) (h : u ≠ t) : upd f t p u = f u := by simp [upd, h]

theorem holds_of_holdsW (S : Spec σ ι ο) (p : Pc ι ο) (h : p.holdsW S = true) : p.holds = true := by
  cases p <;> simp [Pc.holdsW, Pc.holds] at h ⊢

theorem excl_step (S : Spec σ ι ο) (s s' : St σ ι ο) (h : Excl S s) (st : Step S s s') : Excl S s' := by
  -- a step that changes only thread `t0`'s pc to `p`, where `p` holds (as writer) only if the old pc did, or where
  -- the grant condition excludes the conflict
  have keep : ∀ (t0 : Nat) (p : Pc ι ο), (p.holds = true → (s.pcs t0).holds = true) →
      (p.holdsW S = true → (s.pcs t0).holdsW S = true) → Excl S { s with pcs := upd s.pcs t0 p } := by
    intro t0 p h1 h2 t u htu hw
    dsimp only at hw ⊢
    by_cases ht : t = t0
    · subst ht
      rw [upd_same] at hw
      rw [upd_other _ _ _ _ (Ne.symm htu)]
      exact h t u htu (h2 hw)
    · rw [upd_other _ _ _ _ ht] at hw
      by_cases hu : u = t0
      · subst hu
        rw [upd_same]
        cases hp : p.holds with
        | false => rfl
        | true => have := h t u htu hw; rw [h1 hp] at this; cases this
      · rw [upd_other _ _ _ _ hu]; exact h t u htu hw
  cases st with
  | call t op hi =>
    exact keep t (.called op) (fun hh => by simp [Pc.holds] at hh) (fun hh => by simp [Pc.holdsW] at hh)
  | acquireR t op hc hr hnone =>
    intro a u hau hw
    dsimp only at hw ⊢
    by_cases ha : a = t
    · subst ha; rw [upd_same] at hw; simp [Pc.holdsW, hr] at hw
    · rw [upd_other _ _ _ _ ha] at hw
      rw [hnone a] at hw; cases hw
  | acquireW t op hc hwr hnone =>
    intro a u hau hw
    dsimp only at hw ⊢
    by_cases hu : u = t
    · subst hu
      have ha : a ≠ u := hau
      rw [upd_other _ _ _ _ ha] at hw
      have := hnone a
      rw [holds_of_holdsW S _ hw] at this; cases this
    · rw [upd_other _ _ _ _ hu]; exact hnone u
  | access t op hl =>
    have := keep t (.accessed op (S.apply s.data op).2) (fun _ => by rw [hl]; rfl)
      (fun hh => by rw [hl]; simpa [Pc.holdsW] using hh)
    intro a u hau hw
    exact this a u hau hw
  | release t op out ha =>
    exact keep t (.released op out) (fun hh => by simp [Pc.holds] at hh) (fun hh => by simp [Pc.holdsW] at hh)
  | ret t op out hr =>
    have := keep t (.idle) (fun hh => by simp [Pc.holds] at hh) (fun hh => by simp [Pc.holdsW] at hh)
    intro a u hau hw
    exact this a u hau hw

theorem excl_reach (S : Spec σ ι ο) (d0 : σ) (s : St σ ι ο) (h : Reach S d0 s) : Excl S s := by
  induction h with
  | init => intro t u _ hw; simp [Pc.holdsW] at hw
  | step _ st ih => exact excl_step S _ _ ih st

/-! ### the accesses form a legal sequential history -/

/-- `Legal S d l d'`: performing the operations of `l` one after the other from `d` yields exactly the recorded outputs
    and ends in `d'` -/
inductive Legal (S : Spec σ ι ο) : σ → List (ι × ο) → σ → Prop
  | nil (d : σ) : Legal S d [] d
  | cons (d : σ) (op : ι) (rest : List (ι × ο)) (d' : σ) :
      Legal S (S.apply d op).1 rest d' → Legal S d ((op, (S.apply d op).2) :: rest) d'

theorem Legal.snoc (S : Spec σ ι ο) (d : σ) (l : List (ι × ο)) (d' : σ) (h : Legal S d l d') (op : ι) :
    Legal S d (l ++ [(op, (S.apply d' op).2)]) (S.apply d' op).1 := by
  induction h with
  | nil d => exact Legal.cons d op [] _ (Legal.nil _)
  | cons d op' rest d' _ ih => exact Legal.cons d op' _ _ ih

/-- the sequential history: the accesses in the order they happened -/
def lins : List (Ev ι ο) → List (ι × ο)
  | [] => []
  | .lin _ op out :: rest => (op, out) :: lins rest
  | _ :: rest => lins rest

theorem lins_append (l1 l2 : List (Ev ι ο)) : lins (l1 ++ l2) = lins l1 ++ lins l2 := by
  induction l1 with
  | nil => rfl
  | cons e rest ih => cases e <;> simp [lins, ih]

theorem legal_reach (S : Spec σ ι ο) (d0 : σ) (s : St σ ι ο) (h : Reach S d0 s) : Legal S d0 (lins s.evs) s.data := by
  induction h with
  | init => exact Legal.nil d0
  | step _ st ih =>
    cases st with
    | call t op _ => simpa [lins_append, lins] using ih
    | acquireR t op _ _ _ => exact ih
    | acquireW t op _ _ _ => exact ih
    | access t op _ =>
      simp only [lins_append, lins]
      exact Legal.snoc S d0 _ _ ih op
    | release t op out _ => exact ih
    | ret t op out _ => simpa [lins_append, lins] using ih

/-! ### every access lies between its operation's call and its return -/

/-- the events of one thread, read from the start: `idle` after complete call · access · return triples, `called op`
    after a call, `accessed op out` after the access of that call; anything else is not a thread's history -/
def parse (t : Nat) : List (Ev ι ο) → Pc ι ο → Option (Pc ι ο)
  | [], p => some p
  | e :: rest, p =>
    if e.tid ≠ t then parse t rest p else
    match e, p with
    | .call _ op, .idle => parse t rest (.called op)
    | .lin _ op out, .called _ => parse t rest (.accessed op out)
    | .ret _ _ _, .accessed _ _ => parse t rest .idle
    | _, _ => none

/-- the thread-local view of a pc: holding or not holding the lock makes no event -/
def Pc.view : Pc ι ο → Pc ι ο
  | .locked op => .called op
  | .released op out => .accessed op out
  | p => p

theorem parse_append (t : Nat) (l1 l2 : List (Ev ι ο)) (p : Pc ι ο) :
    parse t (l1 ++ l2) p = (parse t l1 p).bind (parse t l2) := by
  induction l1 generalizing p with
  | nil => simp [parse]
  | cons e rest ih =>
    simp only [List.cons_append, parse]
    split
    · exact ih p
    · split <;> first | exact ih _ | rfl

theorem parse_other (t : Nat) (e : Ev ι ο) (p : Pc ι ο) (h : e.tid ≠ t) : parse t [e] p = some p := by
  simp [parse, h]

theorem order_reach (S : Spec σ ι ο) (d0 : σ) (s : St σ ι ο) (h : Reach S d0 s) (t : Nat) :
    parse t s.evs .idle = some (s.pcs t).view := by
  induction h with
  | init => rfl
  | step _ st ih =>
    cases st with
    | call t0 op hi =>
      dsimp only
      rw [parse_append, ih]
      by_cases ht : t = t0
      · subst ht
        rw [upd_same, hi]
        simp [parse, Ev.tid, Pc.view, Option.bind]
      · rw [upd_other _ _ _ _ ht]
        exact parse_other t _ _ (fun he => ht he.symm)
    | acquireR t0 op hc _ _ =>
      dsimp only
      rw [ih]
      by_cases ht : t = t0
      · subst ht; rw [upd_same, hc]; rfl
      · rw [upd_other _ _ _ _ ht]
    | acquireW t0 op hc _ _ =>
      dsimp only
      rw [ih]
      by_cases ht : t = t0
      · subst ht; rw [upd_same, hc]; rfl
      · rw [upd_other _ _ _ _ ht]
    | access t0 op hl =>
      dsimp only
      rw [parse_append, ih]
      by_cases ht : t = t0
      · subst ht
        rw [upd_same, hl]
        simp [parse, Ev.tid, Pc.view, Option.bind]
      · rw [upd_other _ _ _ _ ht]
        exact parse_other t _ _ (fun he => ht he.symm)
    | release t0 op out ha =>
      dsimp only
      rw [ih]
      by_cases ht : t = t0
      · subst ht; rw [upd_same, ha]; rfl
      · rw [upd_other _ _ _ _ ht]
    | ret t0 op out hr =>
      dsimp only
      rw [parse_append, ih]
      by_cases ht : t = t0
      · subst ht
        rw [upd_same, hr]
        simp [parse, Ev.tid, Pc.view, Option.bind]
      · rw [upd_other _ _ _ _ ht]
        exact parse_other t _ _ (fun he => ht he.symm)

/-- LINEARIZABILITY of one-critical-section-per-operation objects: in every reachable state of every execution (any
    number of threads, any interleaving)
    (1) the accesses, in the order they happened, are a legal sequential history of the specification from the initial
        state — it yields the current state and exactly the outputs the operations return;
    (2) every thread's events read call · access · return, call · access · return, … — each access lies between its
        operation's call and its return, so the sequential history respects the real-time order of the operations;
    (3) a thread inside a WRITE section is alone inside any section. -/
theorem linearizable (S : Spec σ ι ο) (d0 : σ) (s : St σ ι ο) (h : Reach S d0 s) :
    Legal S d0 (lins s.evs) s.data ∧ (∀ t, parse t s.evs .idle = some (s.pcs t).view) ∧ Excl S s :=
  ⟨legal_reach S d0 s h, order_reach S d0 s h, excl_reach S d0 s h⟩

/-! ### two instances: the map beneath the container, and a priced function object -/

/-- a priced function object: `SetNewGasConfig` installs a schedule under the write lock, an execution reads the
    schedule (its own cost and the base costs) inside ONE read section -/
inductive CfgOp (γ : Type) | install (g : γ) | read
def cfgSpec (γ : Type) : Spec γ (CfgOp γ) γ where
  apply g
    | .install g' => (g', g')
    | .read => (g, g)
  isWrite
    | .install _ => true
    | .read => false

/-- what an execution reads is ONE schedule: the initial one or one some `SetNewGasConfig` installed — never a mixture -/
theorem legal_cfg_outputs {γ : Type} (d0 d : γ) (l : List (CfgOp γ × γ)) (h : Legal (cfgSpec γ) d0 l d) :
    ∀ p ∈ l, p.2 = d0 ∨ ∃ q ∈ l, q.1 = .install p.2 := by
  induction h with
  | nil d => intro p hp; cases hp
  | cons d op rest d' hrest ih =>
    intro p hp
    simp only [List.mem_cons] at hp
    rcases hp with rfl | hp
    · cases op with
      | install g' => exact Or.inr ⟨_, List.mem_cons_self, rfl⟩
      | read => exact Or.inl rfl
    · rcases ih p hp with h1 | ⟨q, hq, hq'⟩
      · cases op with
        | install g' =>
          -- the rest starts from g': an output equal to g' was installed by this very operation
          exact Or.inr ⟨_, List.mem_cons_self, by show CfgOp.install g' = CfgOp.install p.2; rw [h1]; rfl⟩
        | read => exact Or.inl (by simpa [cfgSpec] using h1)
      · exact Or.inr ⟨q, List.mem_cons_of_mem _ hq, hq'⟩

/-- the operations that take only the READ lock do not change the object — which is why they may overlap: between two
    accesses of readers inside one read phase the state is the same -/
theorem mapSpec_reads_pure {κ ν : Type} [DecidableEq κ] (m : List (κ × ν)) (op : MapOp κ ν)
    (h : (mapSpec (κ := κ) (ν := ν)).isWrite op = false) : (mapSpec.apply m op).1 = m := by
  cases op <;> simp [mapSpec] at h ⊢

theorem cfgSpec_reads_pure {γ : Type} (g : γ) (op : CfgOp γ) (h : (cfgSpec γ).isWrite op = false) :
    ((cfgSpec γ).apply g op).1 = g := by
  cases op <;> simp [cfgSpec] at h ⊢

/-- an access by a reader leaves the data as it is (for any object whose read operations are pure) -/
theorem reader_access_keeps_data {σ ι ο : Type} (S : Spec σ ι ο)
    (hpure : ∀ d op, S.isWrite op = false → (S.apply d op).1 = d) (s s' : St σ ι ο) (st : Step S s s')
    (hchg : s'.data ≠ s.data) : ∃ t op, s.pcs t = .locked op ∧ S.isWrite op = true := by
  cases st with
  | call t op _ => exact absurd rfl hchg
  | acquireR t op _ _ _ => exact absurd rfl hchg
  | acquireW t op _ _ _ => exact absurd rfl hchg
  | access t op hl =>
    refine ⟨t, op, hl, ?_⟩
    cases hw : S.isWrite op with
    | true => rfl
    | false => exact absurd (hpure s.data op hw) hchg
  | release t op out _ => exact absurd rfl hchg
  | ret t op out _ => exact absurd rfl hchg

end Lin
