/-
  Proofs/Charge2.lean — C16: closed charge formulas with per-byte components of the NFT payload
  (ESDTNFTTransfer sender side; MultiESDTNFTTransfer sender side).
-/
import Proofs.Charge
import Proofs.Metadata
namespace Esdt

/-- ESDTNFTTransfer, sender side, destination on another shard: the charge is the function's own cost plus
    DataCopyPerByte × the length of the NFT payload put on the wire (the encoding of the sender's whole entry with
    `Value := quantity`), whether or not gas is forwarded to an attached call -/
theorem charge_nftTransferSender_crossShard (env : Env) (c : Call) (ctx : Ctx)
    (hs : present env.nshards env.self c.caller = true)
    (hx : ∀ d, c.args[3]? = some d → env.self ≠ shardOf env.nshards d) :
    Post (esdtNFTTransferSender env c) ctx (fun out _ => ∃ tok nb qb t, c.args[0]? = some tok ∧ c.args[1]? = some nb ∧
      c.args[2]? = some qb ∧
      decToken (ctx.accts.read c.caller (nftKey (esdtKeyPrefix ++ tok) (u64 (beNat nb)))) = some t ∧
      charge c.gas out = env.gas.fn.esdtNFTTransfer +
        u64 ((encToken { t with value := some (beNat qb : Int) }).length * env.gas.base.dataCopyPerByte)) := by
  unfold esdtNFTTransferSender
  simp only [hs, Bool.not_true, Bool.false_eq_true, if_false]
  xsteps
  rename_i tok h0 dst hdst _ _ _ hgas nb h1 _
  apply Post.mono (spec_getNFTOnSender _ _ _ ctx)
  intro t c1 ⟨_, _, hdec, _, _⟩
  xstep; xstep; xstep; xstep; xstep; xstep; xstep
  rename_i qb h2 v hv hlt
  xsteps
  apply Post.mono (spec_saveNFT _ _ _ _ c1)
  intro _ c2 _
  have hxx := hx _ hdst
  simp only [hxx, decide_false, Bool.false_eq_true, if_false, Bool.not_false, if_true]
  xsteps
  apply Post.pure
  xsteps
  apply Post.mono (spec_marshalToken _ c2)
  intro b c3 ⟨_, hb⟩
  xsteps
  rename_i hguard
  apply Post.pure
  xsteps
  apply Post.pure
  refine ⟨tok, nb, qb, t, h0, h1, h2, hdec, ?_⟩
  subst hb
  have hg1 : ¬ c.gas < env.gas.fn.esdtNFTTransfer := of_decide_eq_false hgas
  have hg2 : ¬ (u64 ((encToken { t with value := some (beNat qb : Int) }).length * env.gas.base.dataCopyPerByte) >
      c.gas - env.gas.fn.esdtNFTTransfer) := of_decide_eq_false hguard
  cases hsc : (decide (c.args.length > 4) && isSmartContractAddress dst) <;>
    simp only [hsc, charge, fwd, addNFTTransfer, List.flatMap_cons, List.flatMap_nil, List.map_cons, List.map_nil,
      List.sum_cons, List.sum_nil, List.append_nil, if_true, if_false, Bool.false_eq_true] <;> omega

end Esdt

namespace Esdt

/-- per-byte component of a multi transfer: DataCopyPerByte × encoded length, for every transferred token that carries
    metadata (fungible items travel as plain amounts and cost nothing extra) -/
def payloadCost (env : Env) (toks : List (Bytes × Token)) : Nat :=
  (toks.map fun p => match p.2.md with
    | some _ => u64 ((encToken p.2).length * env.gas.base.dataCopyPerByte)
    | none => 0).sum

theorem multiPayloadLoop_cost (env : Env) : ∀ (toks : List (Bytes × Token)) (g : Nat) (ctx : Ctx),
    Post (multiPayloadLoop env toks g) ctx (fun r _ => r.2 + payloadCost env toks = g) := by
  intro toks
  induction toks with
  | nil => intro g ctx; unfold multiPayloadLoop; exact Post.pure (by simp [payloadCost])
  | cons p rest ih =>
    intro g ctx
    obtain ⟨tokenID, t⟩ := p
    unfold multiPayloadLoop
    split
    · rename_i m hm
      apply Post.bind
      apply Post.mono (spec_marshalToken t ctx)
      intro b c1 ⟨_, hb⟩
      apply Post.bind; apply Post.guardE; intro hg
      apply Post.bind
      apply Post.mono (ih _ _)
      intro r c2 hr
      obtain ⟨args, gr⟩ := r
      apply Post.pure
      have hg' : ¬ (u64 (b.length * env.gas.base.dataCopyPerByte) > g) := of_decide_eq_false hg
      simp only [payloadCost, List.map_cons, List.sum_cons, hm] at hr ⊢
      subst hb
      omega
    · rename_i hm
      apply Post.bind; apply Post.deref; intro v _
      apply Post.bind
      apply Post.mono (ih _ _)
      intro r c2 hr
      obtain ⟨args, gr⟩ := r
      apply Post.pure
      simp only [payloadCost, List.map_cons, List.sum_cons, hm] at hr ⊢
      omega

theorem multiSenderLoop_length (env : Env) (c : Call) (l : Bool) (dst : Bytes) (v : Bool) :
    ∀ n idx ctx, Post (multiSenderLoop env c l dst v n idx) ctx (fun r _ => r.1.length = n) := by
  intro n
  induction n with
  | zero => intro idx ctx; unfold multiSenderLoop; exact Post.pure rfl
  | succ n ih =>
    intro idx ctx
    unfold multiSenderLoop
    xsteps
    apply Post.intro; intro t c1
    xsteps
    apply Post.mono (ih _ _)
    intro r c2 hr
    obtain ⟨ts, logs⟩ := r
    exact Post.pure (by simp [hr])

/-- MultiESDTNFTTransfer, sender side (destination on the same or on another shard): the charge is the function's cost
    times the number of tokens plus DataCopyPerByte × encoded length of every NFT payload -/
theorem charge_multiTransferSender (env : Env) (c : Call) (ctx : Ctx)
    (hs : present env.nshards env.self c.caller = true) :
    Post (multiTransferSender env c) ctx (fun out _ => ∃ a1 toks, c.args[1]? = some a1 ∧
      toks.length = u64 (beNat a1) ∧
      charge c.gas out = u64 (u64 (beNat a1) * env.gas.fn.esdtNFTMultiTransfer) + payloadCost env toks) := by
  unfold multiTransferSender
  simp only [hs, Bool.not_true, Bool.false_eq_true, if_false]
  xsteps
  rename_i a1 h1 _ _ _ hgas
  have hg1 : ¬ c.gas < u64 (u64 (beNat a1) * env.gas.fn.esdtNFTMultiTransfer) := of_decide_eq_false hgas
  repeat' (first
    | xstep
    | (apply Post.mono (ro_loadAcct _); intro _ _ _)
    | (apply Post.mono (ro_saveAcct _); intro _ _ _)
    | (apply Post.mono (multiSenderLoop_length env c _ _ _ _ _ _); intro r _ hlen)
    | (apply Post.mono (multiPayloadLoop_cost env _ _ _); intro pr _ hcost)
    | (show Post _ _ _; split))
  all_goals
    apply Post.pure
    refine ⟨a1, _, h1, hlen, ?_⟩
    simp only [charge, fwd, addNFTTransfer, addOutputTransfer, List.flatMap_cons, List.flatMap_nil, List.map_cons,
      List.map_nil, List.sum_cons, List.sum_nil, List.append_nil]
    (repeat' split) <;> omega

end Esdt

namespace Esdt

/-- SaveKeyValue's per-byte components: PersistPerByte × (key + value) for every pair, plus StorePerByte × growth of the
    stored value for every pair that changes it (the value found when the pair is processed: earlier pairs count) -/
def skvCost (env : Env) (a : Bytes) : Nat → Accts → List Bytes → Nat
  | 0, _, _ => 0
  | fuel + 1, A, k :: v :: rest =>
    (v.length + k.length) * env.gas.base.persistPerByte +
    (if A.read a k = v then skvCost env a fuel A rest
     else env.gas.base.storePerByte * (v.length - (A.read a k).length) + skvCost env a fuel (A.write a k v) rest)
  | _ + 1, _, _ => 0

theorem skvLoop_cost (env : Env) (c : Call) : ∀ (n : Nat) (l : List Bytes) (g : Nat) (ctx : Ctx), l.length ≤ 2 * n →
    g + skvCost env c.caller n ctx.accts l < two64 →
    Post (skvLoop env c l g) ctx (fun r _ => r = g + skvCost env c.caller n ctx.accts l) := by
  intro n
  induction n with
  | zero =>
    intro l g ctx hl _
    have : l = [] := List.eq_nil_of_length_eq_zero (by omega)
    subst this; unfold skvLoop; exact Post.pure (by simp [skvCost])
  | succ n ih =>
    intro l g ctx hl hb
    match l, hl, hb with
    | [], _, _ => unfold skvLoop; exact Post.pure (by simp [skvCost])
    | [_], _, _ => unfold skvLoop; exact Post.goPanic
    | k :: v :: rest, hl, hb =>
      have hr : rest.length ≤ 2 * n := by simp at hl; omega
      unfold skvLoop
      simp only [skvCost] at hb ⊢
      xsteps
      apply Post.mono (spec_readKey _ _ ctx)
      intro old c1 ⟨h1, hold⟩
      subst hold
      have hp : (v.length + k.length) * env.gas.base.persistPerByte < two64 := by
        split at hb <;> omega
      have e1 : u64 (g + u64 ((v.length + k.length) * env.gas.base.persistPerByte)) =
          g + (v.length + k.length) * env.gas.base.persistPerByte := by
        rw [u64_of_lt _ hp, u64_of_lt]
        split at hb <;> omega
      split
      · rename_i heq
        rw [if_pos heq] at hb
        rw [e1]
        have := ih rest (g + (v.length + k.length) * env.gas.base.persistPerByte) c1 hr (by rw [h1]; omega)
        rw [h1] at this
        apply Post.mono this
        intro r _ hrr; rw [hrr]; omega
      · rename_i hneq
        rw [if_neg hneq] at hb
        have hch : (if (ctx.accts.read c.caller k).length < v.length then v.length - (ctx.accts.read c.caller k).length else 0) =
            v.length - (ctx.accts.read c.caller k).length := by split <;> omega
        rw [hch, e1]
        have hs : env.gas.base.storePerByte * (v.length - (ctx.accts.read c.caller k).length) < two64 := by omega
        have e2 : u64 (g + (v.length + k.length) * env.gas.base.persistPerByte +
            u64 (env.gas.base.storePerByte * (v.length - (ctx.accts.read c.caller k).length))) =
            g + (v.length + k.length) * env.gas.base.persistPerByte +
              env.gas.base.storePerByte * (v.length - (ctx.accts.read c.caller k).length) := by
          rw [u64_of_lt _ hs, u64_of_lt]; omega
        rw [e2]
        xsteps
        apply Post.mono (spec_writeKey _ _ _ c1)
        intro _ c2 h2
        have hA : c2.accts = ctx.accts.write c.caller k v := by rw [h2, h1]
        have := ih rest (g + (v.length + k.length) * env.gas.base.persistPerByte +
              env.gas.base.storePerByte * (v.length - (ctx.accts.read c.caller k).length)) c2 hr (by rw [hA]; omega)
        rw [hA] at this
        apply Post.mono this
        intro r _ hrr; rw [hrr]; omega

/-- SaveKeyValue: the charge is the function's own cost plus the per-byte components of `skvCost` (no 64-bit wrap) -/
theorem charge_saveKeyValue (env : Env) (c : Call) (ctx : Ctx)
    (hb : env.gas.fn.saveKeyValue + skvCost env c.caller c.args.length ctx.accts c.args < two64) :
    Post (saveKeyValue env c) ctx (fun out _ =>
      charge c.gas out = env.gas.fn.saveKeyValue + skvCost env c.caller c.args.length ctx.accts c.args) := by
  unfold saveKeyValue
  xsteps
  apply Post.mono (skvLoop_cost env c c.args.length c.args _ ctx (by omega) hb)
  intro r c1 hr
  xsteps
  rename_i hg
  apply Post.pure
  have : ¬ c.gas < r := of_decide_eq_false hg
  simp only [charge, fwd, List.flatMap_nil, List.map_nil, List.sum_nil]
  omega

end Esdt

namespace Esdt

/-- ESDTNFTTransfer, sender side, destination on the executing shard: own cost + DataCopyPerByte × length of the encoding of
    the entry as merged into the destination (`Value := quantity + existing`) — the code marshals it although no message
    leaves the shard; the charge is still priced by one schedule -/
theorem charge_nftTransferSender_sameShard (env : Env) (c : Call) (ctx : Ctx)
    (hs : present env.nshards env.self c.caller = true)
    (hx : ∀ d, c.args[3]? = some d → env.self = shardOf env.nshards d) :
    Post (esdtNFTTransferSender env c) ctx (fun out _ => ∃ t' : Token,
      charge c.gas out = env.gas.fn.esdtNFTTransfer + u64 ((encToken t').length * env.gas.base.dataCopyPerByte)) := by
  unfold esdtNFTTransferSender
  simp only [hs, Bool.not_true, Bool.false_eq_true, if_false]
  xsteps
  rename_i tok h0 dst hdst _ _ _ hgas nb h1 _
  have hg1 : ¬ c.gas < env.gas.fn.esdtNFTTransfer := of_decide_eq_false hgas
  apply Post.mono (spec_getNFTOnSender _ _ _ ctx)
  intro t c1 _
  xsteps
  apply Post.mono (spec_saveNFT _ _ _ _ c1)
  intro _ c2 _
  have hxx := hx _ hdst
  simp only [hxx, decide_true, if_true, Bool.not_true, Bool.false_eq_true, if_false]
  xsteps
  apply Post.mono (ro_loadAcct c2)
  intro _ c3 _
  xsteps
  apply Post.mono (spec_addNFTToDestination env _ _ _ _ _ c3)
  intro t' c4 _
  xsteps
  apply Post.mono (ro_saveAcct c4)
  intro _ c5 _
  xsteps
  apply Post.pure
  xsteps
  apply Post.mono (spec_marshalToken _ c5)
  intro b c6 ⟨_, hb⟩
  xsteps
  rename_i hguard
  have hg2 : ¬ (u64 (b.length * env.gas.base.dataCopyPerByte) > c.gas - env.gas.fn.esdtNFTTransfer) :=
    of_decide_eq_false hguard
  subst hb
  repeat' (first | xstep | (show Post _ _ _; split) | apply Post.pure)
  all_goals
    refine ⟨t', ?_⟩
    simp only [charge, fwd, addOutputTransfer, List.flatMap_cons, List.flatMap_nil, List.map_cons, List.map_nil,
      List.sum_cons, List.sum_nil, List.append_nil]
    omega

end Esdt
