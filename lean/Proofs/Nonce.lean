/-
  Proofs/Nonce.lean — C07 / C08: exact effect of ESDTNFTCreate and of the create-role hand-over.
-/
import Proofs.Ledger
import Proofs.Authority
namespace Esdt

/-- the NFT-create counter stored under ELRONDnonce‖token (0 when absent) -/
def counterOf (raw : Bytes) : Nat := if raw = [] then 0 else u64 (beNat raw)

theorem spec_getLatestNonce (a tok : Bytes) (c : Ctx) :
    Post (getLatestNonce a tok) c (fun n c' => c'.accts = c.accts ∧ n = counterOf (c.accts.read a (nonceKeyPrefix ++ tok))) := by
  unfold getLatestNonce
  apply Post.bind
  apply Post.mono (spec_readKey a _ c)
  intro raw c1 ⟨h1, hraw⟩
  subst hraw
  exact Post.pure ⟨h1, rfl⟩

theorem spec_saveLatestNonce (a tok : Bytes) (n : Nat) (c : Ctx) :
    Post (saveLatestNonce a tok n) c (fun _ c' => c'.accts = c.accts.write a (nonceKeyPrefix ++ tok) (beBytes n)) := by
  unfold saveLatestNonce
  exact spec_writeKey _ _ _ c

/-- reading back a stored counter -/
theorem counterOf_beBytes (n : Nat) (h : n < two64) : counterOf (beBytes n) = n := by
  unfold counterOf
  by_cases h0 : n = 0
  · subst h0; simp [beBytes_zero]
  · simp [beBytes_ne_nil n h0, beNat_beBytes, u64_of_lt n h]

/-- the entry ESDTNFTCreate stores -/
def createdToken (c : Call) (qb name roy hash attrs : Bytes) (n : Nat) : Token :=
  let m : MetaData :=
    { nonce := n, name := name, creator := c.caller, royalties := u32 (u64 (beNat roy)), hash := hash,
      attributes := attrs, uris := c.args.drop 6 }
  { type := 1, value := some (beNat qb : Int), md := some m }

/-- ESDTNFTCreate: the new nonce is the stored counter + 1; it is returned, stored as the new counter, recorded in the
    metadata and used as the key suffix; the new entry holds the given quantity and the given metadata -/
theorem nftCreate_effect (env : Env) (c : Call) (ctx : Ctx) :
    Post (esdtNFTCreate env c) ctx (fun out ctx' => ∃ tok qb name roy hash attrs n A1,
      c.args[0]? = some tok ∧ c.args[1]? = some qb ∧ c.args[2]? = some name ∧ c.args[3]? = some roy ∧
      c.args[4]? = some hash ∧ c.args[5]? = some attrs ∧
      n = u64 (counterOf (ctx.accts.read c.caller (nonceKeyPrefix ++ tok)) + 1) ∧
      beNat qb ≠ 0 ∧ u32 (u64 (beNat roy)) ≤ maxRoyalty ∧
      out.ret = [beBytes n] ∧
      A1 = ctx.accts.write c.caller (nftKey (esdtKeyPrefix ++ tok) n)
        (nftStoredForm (createdToken c qb name roy hash attrs n)) ∧
      ctx'.accts = A1.write c.caller (nonceKeyPrefix ++ tok) (beBytes n)) := by
  unfold esdtNFTCreate checkCreateBurnAdd checkBasic
  xsteps
  apply Post.mono (ro_checkAllowed _ _ _ ctx)
  intro _ c1 h1
  xsteps
  apply Post.mono (spec_getLatestNonce _ _ c1)
  intro nonce c2 ⟨h2, hn⟩
  xsteps
  apply Post.mono (ro_checkAllowedIf _ _ _ _ c2)
  intro _ c3 h3
  xsteps
  apply Post.mono (spec_saveNFT _ _ _ _ c3)
  intro bytes c4 ⟨_, _, _, _, h4⟩
  xsteps
  apply Post.mono (spec_saveLatestNonce _ _ _ c4)
  intro _ c5 h5
  apply Post.pure
  refine ⟨_, _, _, _, _, _, _, _, ‹c.args[0]? = some _›, ‹c.args[1]? = some _›, ‹c.args[2]? = some _›,
    ‹c.args[3]? = some _›, ‹c.args[4]? = some _›, ‹c.args[5]? = some _›, rfl,
    of_decide_eq_false ‹decide (beNat _ = 0) = false›, by simpa using ‹decide (u32 (u64 (beNat _)) > maxRoyalty) = false›,
    ?_, rfl, ?_⟩
  · rw [hn, h1]
  · rw [h5, h4, h3, h2, h1, hn, h1]; rfl

end Esdt

namespace Esdt

/-- role list stored under a role key (empty when absent) -/
def rolesOf (raw : Bytes) : Option (List Bytes) := if raw = [] then some [] else decRoles raw

theorem spec_getRoles (a k : Bytes) (c : Ctx) :
    Post (getRoles a k) c (fun r c' => c'.accts = c.accts ∧ rolesOf (c.accts.read a k) = some r.1) := by
  unfold getRoles
  apply Post.bind
  apply Post.mono (spec_readKey a k c)
  intro raw c1 ⟨h1, hraw⟩
  subst hraw
  split
  · rename_i he; exact Post.pure ⟨h1, by simp [rolesOf, he]⟩
  · rename_i he
    apply Post.bind
    apply Post.mono (spec_unmarshalRoles _ c1)
    intro r c2 ⟨h2, hd⟩
    exact Post.pure ⟨by rw [h2, h1], by simp [rolesOf, he, hd]⟩

theorem spec_saveRoles (a k : Bytes) (r : List Bytes) (c : Ctx) :
    Post (saveRoles a k r) c (fun _ c' => c'.accts = c.accts.write a k (encRoles r)) := by
  unfold saveRoles marshalRoles
  apply Post.bind
  apply Post.bind
  apply Post.mono (RO.tick .m c)
  intro _ c1 h1
  split
  · apply Post.pure
    apply Post.mono (spec_writeKey a k _ c1)
    intro _ c2 h2
    rw [h2, h1]
  · exact Post.fail

theorem args_eq_pair (args : List Bytes) (x y : Bytes) (hl : args.length = 2) (h0 : args[0]? = some x)
    (h1 : args[1]? = some y) : args = [x, y] := by
  match args, hl with
  | [a, b], _ => simp at h0 h1; rw [h0, h1]

/-- hand-over, step at the current holder on another shard than the next holder: the holder's counter is zeroed, the
    create role removed from its list, and the emitted message carries the token and the OLD counter -/
theorem handover_currentOwner_crossShard (env : Env) (c : Call) (ctx : Ctx) (hsys : c.caller = esdtSCAddress) :
    Post (esdtNFTCreateRoleTransfer env c) ctx (fun out ctx' => ∃ tok dest roles n A1,
      c.args = [tok, dest] ∧ n = counterOf (ctx.accts.read c.rcv (nonceKeyPrefix ++ tok)) ∧
      A1 = ctx.accts.write c.rcv (nonceKeyPrefix ++ tok) (beBytes 0) ∧
      rolesOf (A1.read c.rcv (roleKeyPrefix ++ tok)) = some roles ∧
      (shardOf env.nshards dest ≠ env.self →
        ctx'.accts = A1.write c.rcv (roleKeyPrefix ++ tok) (encRoles (deleteRoles roles [roleNFTCreate]))) ∧
      ∃ tr, out.outAccts = [{ addr := dest, balance := some 0, delta := some 0, transfers := [tr] }] ∧
        tr.data = encodeCall fnESDTNFTCreateRoleTransfer [tok, beBytes n]) := by
  unfold esdtNFTCreateRoleTransfer checkBasic
  simp only [hsys, if_true]
  xsteps
  apply Post.mono (spec_getLatestNonce _ _ ctx)
  intro n c1 ⟨h1, hn⟩
  xsteps
  apply Post.mono (spec_saveLatestNonce _ _ _ c1)
  intro _ c2 h2
  xsteps
  apply Post.mono (spec_getRoles _ _ c2)
  intro r c3 ⟨h3, hr⟩
  obtain ⟨roles, isNew⟩ := r
  simp only at hr ⊢
  xsteps
  apply Post.mono (spec_saveRoles _ _ _ c3)
  intro _ c4 h4
  have hargs := args_eq_pair c.args _ _ (by simpa using ‹decide (c.args.length ≠ 2) = false›)
    ‹c.args[0]? = some _› ‹c.args[1]? = some _›
  xsteps
  split
  · rename_i hsame
    repeat' (first | xstep | wp_forget | apply Post.pure)
    refine ⟨_, _, roles, n, _, hargs, by rw [hn], rfl, by rw [h2, h1] at hr; exact hr, fun hne => absurd hsame hne, _, rfl, by rw [hn]⟩
  · rename_i hdiff
    repeat' (first | xstep | apply Post.pure)
    refine ⟨_, _, roles, n, _, hargs, by rw [hn], rfl, by rw [h2, h1] at hr; exact hr, fun _ => ?_, _, rfl, by rw [hn]⟩
    rw [h4, h3, h2, h1]

/-- hand-over, step at the next holder (delivery of the message): the counter from the message is installed and the
    create role added (once) -/
theorem handover_nextOwner (env : Env) (c : Call) (ctx : Ctx) (hsys : c.caller ≠ esdtSCAddress) :
    Post (esdtNFTCreateRoleTransfer env c) ctx (fun _ ctx' => ∃ tok nb A1 roles,
      c.args = [tok, nb] ∧ A1 = ctx.accts.write c.rcv (nonceKeyPrefix ++ tok) (beBytes (u64 (beNat nb))) ∧
      rolesOf (A1.read c.rcv (roleKeyPrefix ++ tok)) = some roles ∧
      ctx'.accts = (if roles.contains roleNFTCreate then A1
                    else A1.write c.rcv (roleKeyPrefix ++ tok) (encRoles (roles ++ [roleNFTCreate])))) := by
  unfold esdtNFTCreateRoleTransfer checkBasic
  simp only [hsys, if_false]
  xsteps
  apply Post.mono (spec_saveLatestNonce _ _ _ ctx)
  intro _ c1 h1
  unfold addCreateRole
  xsteps
  apply Post.mono (spec_getRoles _ _ c1)
  intro r c2 ⟨h2, hr⟩
  obtain ⟨roles, isNew⟩ := r
  simp only at hr ⊢
  have hargs := args_eq_pair c.args _ _ (by simpa using ‹decide (c.args.length ≠ 2) = false›)
    ‹c.args[0]? = some _› ‹c.args[1]? = some _›
  split
  · rename_i hhas
    repeat' (first | xstep | apply Post.pure)
    refine ⟨_, _, _, roles, hargs, rfl, by rw [h1] at hr; exact hr, ?_⟩
    simp only [hhas, if_true]; rw [h2, h1]
  · rename_i hhas
    xsteps
    apply Post.mono (spec_saveRoles _ _ _ c2)
    intro _ c3 h3
    repeat' (first | xstep | apply Post.pure)
    refine ⟨_, _, _, roles, hargs, rfl, by rw [h1] at hr; exact hr, ?_⟩
    simp only [hhas]; rw [h3, h2, h1]; rfl

end Esdt
