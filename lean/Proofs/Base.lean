/-
  Proofs/Base.lean — the three parts of the shard invariant that EVERY successful call of EVERY function keeps:
  one record per address (Proofs/SetClosed), well-formed token entries (Proofs/WF) and short stored values (Proofs/Short).
  Stated once here so that both the property files and the world models can use it.
-/
import Proofs.SetClosed
namespace Esdt

theorem canon_short_step (f : FnId) (env : Env) (c : Call) (ctx ctx' : Ctx) (out : VMOutput)
    (hC : Canon ctx.accts) (hS0 : Short ctx.accts) (ha : ArgsShort c)
    (hreach : c.caller = c.rcv → present env.nshards env.self c.caller = true)
    (h : exec env f c ctx = .ok (out, ctx')) : Canon ctx'.accts ∧ Short ctx'.accts := by
  have hS : Short ctx'.accts := short_step f env c ctx ctx' out ha hS0 h
  refine ⟨?_, hS⟩
  unfold exec at h
  cases f <;> simp only [runFn] at h
  · exact (canon_claimDeveloperRewards env c ctx ctx' out hC h).toCanon hS
  · exact (canon_changeOwnerAddress env c ctx ctx' out hC h).toCanon hS
  · exact (canon_setUserName env c ctx ctx' out hC h).toCanon hS
  · exact (canon_saveKeyValue env c ctx ctx' out hC h).toCanon hS
  · exact (canon_esdtPause env c ctx ctx' out true hC h).toCanon hS
  · exact (canon_esdtPause env c ctx ctx' out false hC h).toCanon hS
  · exact (canon_esdtTransfer_all env c ctx ctx' out hC hS0 h).toCanon hS
  · exact (canon_esdtBurn env c ctx ctx' out hC h).toCanon hS
  · exact (canon_toggleFreeze env c ctx ctx' out .freeze (by decide) hC h).toCanon hS
  · exact (canon_toggleFreeze env c ctx ctx' out .unfreeze (by decide) hC h).toCanon hS
  · exact (canon_wipe env c ctx ctx' out hC h).toCanon hS
  · exact (canon_esdtRoles env c ctx ctx' out false hC h).toCanon hS
  · exact (canon_esdtRoles env c ctx ctx' out true hC h).toCanon hS
  · exact (canon_localBurn env c ctx ctx' out hC h).toCanon hS
  · exact (canon_localMint env c ctx ctx' out hC h).toCanon hS
  · exact (canon_addQuantity env c ctx ctx' out hC h).toCanon hS
  · exact (canon_nftBurn env c ctx ctx' out hC h).toCanon hS
  · exact (canon_nftCreate env c ctx ctx' out hC h).toCanon hS
  · exact (canon_nftTransfer env c ctx ctx' out hC hreach h).toCanon hS
  · exact (canon_createRoleTransfer env c ctx ctx' out hC h).toCanon hS
  · exact (canon_updateAttributes env c ctx ctx' out hC h).toCanon hS
  · exact (canon_addURI env c ctx ctx' out hC h).toCanon hS
  · exact (canon_multiTransfer env c ctx hC hS0).elim h

theorem C15base (f : FnId) (env : Env) (c : Call) (ctx ctx' : Ctx) (out : VMOutput)
    (hN : ctx.accts.Nodup) (hC : Canon ctx.accts) (hS0 : Short ctx.accts) (ha : ArgsShort c)
    (hreach : c.caller = c.rcv → present env.nshards env.self c.caller = true)
    (h : exec env f c ctx = .ok (out, ctx')) : ctx'.accts.Nodup ∧ Canon ctx'.accts ∧ Short ctx'.accts :=
  ⟨nodup_step f env c ctx ctx' out hN h, canon_short_step f env c ctx ctx' out hC hS0 ha hreach h⟩

end Esdt
