/-
  Proofs/NetworkNonce.lean — C07 over histories WITH hand-overs of the create role.

  World: the account states of all shards, the hand-over messages in flight, and (ghost) every nonce a successful
  ESDTNFTCreate of the token ever returned.  Steps: any built-in call by anyone on any shard (all 23 functions, failed calls
  rolled back), and the delivery of a hand-over message at the shard of its destination.  Invariant: the create authority of
  the token is at exactly one place — one account that lists the role exactly once, or one message in flight, or nowhere —
  and every issued nonce is at most the counter stored at that place.  Hence the issued nonces are strictly increasing over
  the whole history, across any number of hand-overs.
-/
import Proofs.NonceHistory
import Proofs.Sizes
import Proofs.Hex
namespace Esdt

/-! ### role lists -/

theorem rolesOK_of_length (r : List Bytes) (h : (encRoles r).length < two63) : RolesOK r := by
  induction r with
  | nil => intro x hx; cases hx
  | cons a r ih =>
    have e : encRoles (a :: r) = encLenDelim 0x0a a ++ encRoles r := by simp [encRoles]
    rw [e, List.length_append] at h
    have := encLenDelim_length 0x0a a
    intro x hx
    rcases List.mem_cons.mp hx with rfl | hx
    · omega
    · exact ih (by omega) x hx

/-- a role list that passed the marshal guard reads back as itself -/
theorem rolesOf_encRoles (r : List Bytes) (h : (encRoles r).length < two63) : rolesOf (encRoles r) = some r := by
  unfold rolesOf
  split
  · rename_i he
    have := encRoles_length r
    rw [he] at this
    have : r = [] := List.eq_nil_of_length_eq_zero (by simpa using this)
    rw [this]
  · exact decRoles_encRoles r (rolesOK_of_length r h)

theorem spec_saveRoles_len (a k : Bytes) (r : List Bytes) (c : Ctx) :
    Post (saveRoles a k r) c (fun _ c' => c'.accts = c.accts.write a k (encRoles r) ∧ (encRoles r).length < two63) := by
  unfold saveRoles marshalRoles
  apply Post.bind
  apply Post.bind
  apply Post.mono (RO.tick .m c)
  intro _ c1 h1
  split
  · rename_i hl
    apply Post.pure
    apply Post.mono (spec_writeKey a k _ c1)
    intro _ c2 h2
    exact ⟨by rw [h2, h1], hl⟩
  · exact Post.fail

/-- how many times the create role is listed for (a, tok) -/
def crCnt (A : Accts) (a tok : Bytes) : Nat :=
  match rolesOf (A.read a (roleKeyPrefix ++ tok)) with
  | some r => r.count roleNFTCreate
  | none => 0

theorem crCnt_of_roles {A : Accts} {a tok : Bytes} {r : List Bytes}
    (h : rolesOf (A.read a (roleKeyPrefix ++ tok)) = some r) : crCnt A a tok = r.count roleNFTCreate := by
  simp [crCnt, h]

theorem hasRole_crCnt {A : Accts} {a tok : Bytes} (h : HasRole A a tok roleNFTCreate) : 0 < crCnt A a tok := by
  obtain ⟨hne, roles, hd, hm⟩ := h
  have : rolesOf (A.read a (roleKeyPrefix ++ tok)) = some roles := by simp [rolesOf, hne, hd]
  rw [crCnt_of_roles this]
  exact List.count_pos_iff.mpr hm

theorem crCnt_congr {A A' : Accts} {a tok : Bytes}
    (h : A'.read a (roleKeyPrefix ++ tok) = A.read a (roleKeyPrefix ++ tok)) : crCnt A' a tok = crCnt A a tok := by
  simp [crCnt, h]

theorem ctr_congr {A A' : Accts} {a tok : Bytes}
    (h : A'.read a (nonceKeyPrefix ++ tok) = A.read a (nonceKeyPrefix ++ tok)) : ctr A' a tok = ctr A a tok := by
  simp [ctr, h]

theorem role_ne_nonce (t t' : Bytes) : roleKeyPrefix ++ t ≠ nonceKeyPrefix ++ t' := by
  intro he
  have := congrArg (List.take 7) he
  simp [nonceKeyPrefix, roleKeyPrefix, ascii] at this

theorem count_deleteRoles_other (del roles : List Bytes) (h : roleNFTCreate ∉ del) :
    (deleteRoles roles del).count roleNFTCreate = roles.count roleNFTCreate := by
  unfold deleteRoles
  induction del generalizing roles with
  | nil => rfl
  | cons d del ih =>
    simp only [List.foldl_cons]
    rw [ih _ (fun hm => h (List.mem_cons_of_mem _ hm))]
    have hne : d ≠ roleNFTCreate := fun e => h (by rw [e]; exact List.mem_cons_self)
    rw [List.count_erase_of_ne hne.symm]

theorem count_deleteRoles_create (roles : List Bytes) :
    (deleteRoles roles [roleNFTCreate]).count roleNFTCreate = roles.count roleNFTCreate - 1 := by
  simp [deleteRoles, List.count_erase_self]

/-! ### exact effects -/

/-- ESDTSetRole / ESDTUnSetRole: the role list of (destination, token) is extended by / stripped of the given roles -/
theorem esdtRoles_effect (set : Bool) (env : Env) (c : Call) (ctx : Ctx) :
    Post (esdtRoles set env c) ctx (fun _ ctx' => ∃ tok' roles, c.args[0]? = some tok' ∧
      rolesOf (ctx.accts.read c.rcv (roleKeyPrefix ++ tok')) = some roles ∧
      ctx'.accts = ctx.accts.write c.rcv (roleKeyPrefix ++ tok')
        (encRoles (if set then roles ++ c.args.drop 1 else deleteRoles roles (c.args.drop 1))) ∧
      (encRoles (if set then roles ++ c.args.drop 1 else deleteRoles roles (c.args.drop 1))).length < two63) := by
  unfold esdtRoles checkBasic
  xsteps
  apply Post.mono (spec_getRoles _ _ ctx)
  intro r c1 ⟨h1, hr⟩
  obtain ⟨roles, isNew⟩ := r
  simp only at hr ⊢
  xsteps
  apply Post.mono (spec_saveRoles_len _ _ _ c1)
  intro _ c2 ⟨h2, hl⟩
  apply Post.pure
  exact ⟨_, roles, ‹c.args[0]? = some _›, hr, by rw [h2, h1], hl⟩

/-- hand-over at the current holder, next holder on another shard -/
theorem handover_current_x (env : Env) (c : Call) (ctx : Ctx) (hsys : c.caller = esdtSCAddress) :
    Post (esdtNFTCreateRoleTransfer env c) ctx (fun out ctx' => ∃ tok dest roles,
      c.args = [tok, dest] ∧ rolesOf (ctx.accts.read c.rcv (roleKeyPrefix ++ tok)) = some roles ∧
      (shardOf env.nshards dest ≠ env.self →
        ctx'.accts = (ctx.accts.write c.rcv (nonceKeyPrefix ++ tok) (beBytes 0)).write c.rcv (roleKeyPrefix ++ tok)
          (encRoles (deleteRoles roles [roleNFTCreate])) ∧
        (encRoles (deleteRoles roles [roleNFTCreate])).length < two63) ∧
      (shardOf env.nshards dest = env.self → ∃ A3 roles2,
        A3 = (((ctx.accts.write c.rcv (nonceKeyPrefix ++ tok) (beBytes 0)).write c.rcv (roleKeyPrefix ++ tok)
          (encRoles (deleteRoles roles [roleNFTCreate]))).write dest (nonceKeyPrefix ++ tok)
            (beBytes (ctr ctx.accts c.rcv tok))) ∧
        (encRoles (deleteRoles roles [roleNFTCreate])).length < two63 ∧
        rolesOf (A3.read dest (roleKeyPrefix ++ tok)) = some roles2 ∧
        (roles2.contains roleNFTCreate = true → ctx'.accts = A3) ∧
        (roles2.contains roleNFTCreate = false →
          ctx'.accts = A3.write dest (roleKeyPrefix ++ tok) (encRoles (roles2 ++ [roleNFTCreate])) ∧
          (encRoles (roles2 ++ [roleNFTCreate])).length < two63)) ∧
      ∃ tr, out.outAccts = [{ addr := dest, balance := some 0, delta := some 0, transfers := [tr] }] ∧
        tr.data = encodeCall fnESDTNFTCreateRoleTransfer [tok, beBytes (ctr ctx.accts c.rcv tok)]) := by
  unfold esdtNFTCreateRoleTransfer checkBasic
  simp only [hsys, if_true]
  xsteps
  apply Post.mono (spec_getLatestNonce _ _ ctx)
  intro n c1 ⟨h1, hn⟩
  xsteps
  apply Post.mono (spec_saveLatestNonce _ _ _ c1)
  intro _ c2 h2
  xsteps
  apply Post.mono (spec_getRoles _ _ c2)
  intro r c3 ⟨h3, hr⟩
  obtain ⟨roles, isNew⟩ := r
  simp only at hr ⊢
  xsteps
  apply Post.mono (spec_saveRoles_len _ _ _ c3)
  intro _ c4 ⟨h4, hl⟩
  have hargs := args_eq_pair c.args _ _ (by simpa using ‹decide (c.args.length ≠ 2) = false›)
    ‹c.args[0]? = some _› ‹c.args[1]? = some _›
  have hroles := hr
  rw [h2, h1, Accts.read_write, if_neg (fun h => role_ne_nonce _ _ h.2.symm)] at hroles
  xsteps
  split
  · rename_i hsame
    xsteps
    apply Post.mono (RO.tick .l c4)
    intro _ c5 h5
    xsteps
    apply Post.mono (spec_saveLatestNonce _ _ _ c5)
    intro _ c6 h6
    unfold addCreateRole
    xsteps
    apply Post.mono (spec_getRoles _ _ c6)
    intro r2 c7 ⟨h7, hr2⟩
    obtain ⟨roles2, isNew2⟩ := r2
    simp only at hr2 ⊢
    have hA3 := h6
    rw [h5, h4, h3, h2, h1] at hA3
    have hn' := hn
    change n = ctr ctx.accts c.rcv _ at hn'
    split
    · rename_i hhas
      apply Post.pure
      xsteps
      apply Post.mono (RO.tick .s c7)
      intro _ c8 h8
      repeat' (first | xstep | apply Post.pure)
      refine ⟨_, _, roles, hargs, hroles, fun hne => absurd hsame hne, fun _ => ⟨_, roles2, rfl, hl, ?_, ?_, ?_⟩, _, rfl,
        by rw [hn']⟩
      · rw [← hn', ← hA3]; exact hr2
      · intro _; rw [h8, h7, hA3, hn']
      · intro hf; rw [hhas] at hf; cases hf
    · rename_i hhas
      xsteps
      apply Post.mono (spec_saveRoles_len _ _ _ c7)
      intro _ c8 ⟨h8, hl8⟩
      xsteps
      apply Post.mono (RO.tick .s c8)
      intro _ c9 h9
      repeat' (first | xstep | apply Post.pure)
      refine ⟨_, _, roles, hargs, hroles, fun hne => absurd hsame hne, fun _ => ⟨_, roles2, rfl, hl, ?_, ?_, ?_⟩, _, rfl,
        by rw [hn']⟩
      · rw [← hn', ← hA3]; exact hr2
      · intro ht; exact absurd ht hhas
      · intro _; exact ⟨by rw [h9, h8, h7, hA3, hn'], hl8⟩
  · rename_i hdiff
    repeat' (first | xstep | apply Post.pure)
    exact ⟨_, _, roles, hargs, hroles, fun _ => ⟨by rw [h4, h3, h2, h1], hl⟩, fun h => absurd h hdiff, _, rfl,
      by rw [hn]; rfl⟩

/-- hand-over, delivery at the next holder -/
theorem handover_next_x (env : Env) (c : Call) (ctx : Ctx) (hsys : c.caller ≠ esdtSCAddress) :
    Post (esdtNFTCreateRoleTransfer env c) ctx (fun _ ctx' => ∃ tok nb roles,
      c.args = [tok, nb] ∧ rolesOf (ctx.accts.read c.rcv (roleKeyPrefix ++ tok)) = some roles ∧
      (roles.contains roleNFTCreate = true →
        ctx'.accts = ctx.accts.write c.rcv (nonceKeyPrefix ++ tok) (beBytes (u64 (beNat nb)))) ∧
      (roles.contains roleNFTCreate = false →
        ctx'.accts = (ctx.accts.write c.rcv (nonceKeyPrefix ++ tok) (beBytes (u64 (beNat nb)))).write c.rcv
          (roleKeyPrefix ++ tok) (encRoles (roles ++ [roleNFTCreate])) ∧
        (encRoles (roles ++ [roleNFTCreate])).length < two63)) := by
  unfold esdtNFTCreateRoleTransfer checkBasic
  simp only [hsys, if_false]
  xsteps
  apply Post.mono (spec_saveLatestNonce _ _ _ ctx)
  intro _ c1 h1
  unfold addCreateRole
  xsteps
  apply Post.mono (spec_getRoles _ _ c1)
  intro r c2 ⟨h2, hr⟩
  obtain ⟨roles, isNew⟩ := r
  simp only at hr ⊢
  have hargs := args_eq_pair c.args _ _ (by simpa using ‹decide (c.args.length ≠ 2) = false›)
    ‹c.args[0]? = some _› ‹c.args[1]? = some _›
  have hroles := hr
  rw [h1, Accts.read_write, if_neg (fun h => role_ne_nonce _ _ h.2.symm)] at hroles
  split
  · rename_i hhas
    repeat' (first | xstep | apply Post.pure)
    refine ⟨_, _, roles, hargs, hroles, fun _ => by rw [h2, h1], fun hf => ?_⟩
    rw [hhas] at hf; cases hf
  · rename_i hhas
    xsteps
    apply Post.mono (spec_saveRoles_len _ _ _ c2)
    intro _ c3 ⟨h3, hl⟩
    repeat' (first | xstep | apply Post.pure)
    refine ⟨_, _, roles, hargs, hroles, fun ht => absurd ht hhas, fun _ => ⟨by rw [h3, h2, h1], hl⟩⟩

end Esdt

namespace Esdt

/-! ### the world -/

structure HMsg where
  prev : Bytes
  dest : Bytes
  nb : Bytes

structure CWorld where
  shards : List Accts
  flight : List HMsg
  /-- ghost: every nonce a successful ESDTNFTCreate of the token returned, newest first -/
  issued : List Nat

inductive CStep
  | call (s : Nat) (f : FnId) (c : Call)
  | deliver (i : Nat)

/-- the hand-over message a successful call leaves for another shard, read off its output transfer -/
def hmsgOf (e : Env) (s : Nat) (tok : Bytes) (f : FnId) (c : Call) (out : VMOutput) : List HMsg :=
  if f == .nftCreateRoleTransfer && c.args[0]? == some tok then
    match out.outAccts with
    | [oa] =>
      -- a transfer to the executing shard itself is not a message: the call has already done both halves, and its
      -- delivery would be refused anyway (`same_shard_message_dead`)
      if shardOf e.nshards oa.addr = s then []
      else
        match oa.transfers with
        | [tr] =>
          match parseCall tr.data with
          | .ok (_, [_, nb]) => [{ prev := c.rcv, dest := oa.addr, nb := nb }]
          | _ => []
        | _ => []
    | _ => []
  else []

def deliverCall (tok : Bytes) (m : HMsg) : Call :=
  { fn := fnESDTNFTCreateRoleTransfer, caller := m.prev, rcv := m.dest, args := [tok, m.nb] }

def cstep (e : Env) (tok : Bytes) (w : CWorld) : CStep → CWorld
  | .call s f c =>
    match w.shards[s]? with
    | none => w
    | some A =>
      match exec { e with self := s } f c { accts := A } with
      | .ok (out, ctx') =>
        { shards := w.shards.set s ctx'.accts,
          flight := w.flight ++ hmsgOf e s tok f c out,
          issued := if f == .nftCreate && c.args[0]? == some tok then nonceOfRet out :: w.issued else w.issued }
      | _ => w
  | .deliver i =>
    match w.flight[i]? with
    | none => w
    | some m =>
      match w.shards[shardOf e.nshards m.dest]? with
      | none => w
      | some A =>
        match exec { e with self := shardOf e.nshards m.dest } .nftCreateRoleTransfer (deliverCall tok m) { accts := A } with
        | .ok (_, ctx') =>
          { shards := w.shards.set (shardOf e.nshards m.dest) ctx'.accts, flight := w.flight.eraseIdx i, issued := w.issued }
        | _ => w

def crun (e : Env) (tok : Bytes) : List CStep → CWorld → CWorld
  | [], w => w
  | st :: rest, w => crun e tok rest (cstep e tok w st)

/-- where the create authority of `tok` is -/
inductive Loc (e : Env) (tok : Bytes) (w : CWorld) : Prop
  | held (s : Nat) (h : Bytes) (A : Accts) :
      w.shards[s]? = some A → crCnt A h tok = 1 →
      (∀ (s' : Nat) (A' : Accts) (a : Bytes), w.shards[s']? = some A' → ¬ (s' = s ∧ a = h) → crCnt A' a tok = 0) →
      w.flight = [] → (∀ n ∈ w.issued, n ≤ ctr A h tok) → Loc e tok w
  | flying (m : HMsg) :
      w.flight = [m] → (∀ (s' : Nat) (A' : Accts) (a : Bytes), w.shards[s']? = some A' → crCnt A' a tok = 0) →
      (∀ n ∈ w.issued, n ≤ u64 (beNat m.nb)) →
      m.prev ≠ esdtSCAddress → present e.nshards (shardOf e.nshards m.dest) m.prev = false → Loc e tok w
  | nowhere :
      w.flight = [] → (∀ (s' : Nat) (A' : Accts) (a : Bytes), w.shards[s']? = some A' → crCnt A' a tok = 0) → Loc e tok w

structure CInv (e : Env) (tok : Bytes) (w : CWorld) : Prop where
  loc : Loc e tok w
  sorted : w.issued.Pairwise (· > ·)

/-- what the environment is assumed to respect (single-creator discipline, DESIGN App. C) -/
def CStepOK (e : Env) (tok : Bytes) (w : CWorld) : CStep → Prop
  | .call s f c =>
    -- a transaction runs where its sender lives; the only foreign caller is the system contract
    (c.caller = esdtSCAddress ∨ present e.nshards s c.caller = true) ∧
    -- the create role of `tok` is never passed to ESDTSetRole / ESDTUnSetRole: it moves by hand-over only
    ((f = .setRole ∨ f = .unSetRole) → c.args[0]? = some tok → roleNFTCreate ∉ c.args.drop 1) ∧
    -- a hand-over of `tok` is issued at its current holder (next holder on any shard); other hand-overs do not mention `tok`
    (f = .nftCreateRoleTransfer → c.caller = esdtSCAddress →
      tok ∉ c.args ∨ (∃ dest A, c.args = [tok, dest] ∧ w.shards[s]? = some A ∧ crCnt A c.rcv tok = 1 ∧
        c.rcv ≠ systemAccountAddress)) ∧
    -- 2^64 creates do not happen
    (∀ A, w.shards[s]? = some A → ctr A c.caller tok + 1 < 2 ^ 64)
  | .deliver _ => True

def CStepsOK (e : Env) (tok : Bytes) : List CStep → CWorld → Prop
  | [], _ => True
  | st :: rest, w => CStepOK e tok w st ∧ CStepsOK e tok rest (cstep e tok w st)

theorem getElem?_set_of {α} {l : List α} {i : Nat} {a : α} (h : l[i]? = some a) (b : α) (j : Nat) :
    (l.set i b)[j]? = if j = i then some b else l[j]? := by
  rw [List.getElem?_set]
  have hi : i < l.length := by
    rcases Nat.lt_or_ge i l.length with h' | h'
    · exact h'
    · rw [List.getElem?_eq_none h'] at h; cases h
  by_cases hj : j = i
  · subst hj; simp [hi]
  · have : ¬ i = j := fun e => hj e.symm
    simp [hj, this]

/-- a step on shard `s0` that leaves every create-role count and every counter of `tok` as it was keeps the location -/
theorem loc_unchanged (e : Env) (tok : Bytes) (w : CWorld) (s0 : Nat) (A A' : Accts) (hs : w.shards[s0]? = some A)
    (hc : ∀ a, crCnt A' a tok = crCnt A a tok) (hn : ∀ a, ctr A' a tok = ctr A a tok)
    (hl : Loc e tok w) : Loc e tok { w with shards := w.shards.set s0 A' } := by
  have hoth : ∀ (P : Nat → Bytes → Prop), (∀ (s' : Nat) (A2 : Accts) (a : Bytes), w.shards[s']? = some A2 → P s' a → crCnt A2 a tok = 0) →
      ∀ s' A2 a, (w.shards.set s0 A')[s']? = some A2 → P s' a → crCnt A2 a tok = 0 := by
    intro P hP s' A2 a hs' hp
    rw [getElem?_set_of hs] at hs'
    by_cases h0 : s' = s0
    · simp only [h0, if_true] at hs'
      cases hs'
      rw [hc]
      exact hP s0 A a hs (h0 ▸ hp)
    · simp only [h0, if_false] at hs'
      exact hP s' A2 a hs' hp
  cases hl with
  | held s h Ah hsh hc1 ho hfl hiss =>
    by_cases h0 : s = s0
    · subst h0
      rw [hs] at hsh; cases hsh
      exact Loc.held s h A' (by simp [getElem?_set_of hs]) (by rw [hc]; exact hc1)
        (hoth (fun s' a => ¬ (s' = s ∧ a = h)) ho) hfl (by intro n hn'; rw [hn]; exact hiss n hn')
    · exact Loc.held s h Ah (by simp only [getElem?_set_of hs, h0, if_false]; exact hsh) hc1
        (hoth (fun s' a => ¬ (s' = s ∧ a = h)) ho) hfl hiss
  | flying m hfl ho hiss hp hpr =>
    exact Loc.flying m hfl (fun s' A2 a hs' => hoth (fun _ _ => True) (fun s' A2 a h _ => ho s' A2 a h) s' A2 a hs' trivial)
      hiss hp hpr
  | nowhere hfl ho =>
    exact Loc.nowhere hfl (fun s' A2 a hs' => hoth (fun _ _ => True) (fun s' A2 a h _ => ho s' A2 a h) s' A2 a hs' trivial)

end Esdt

namespace Esdt

/-! ### counts and counters across writes -/

theorem crCnt_write_role (A : Accts) (a t : Bytes) (r : List Bytes) (hl : (encRoles r).length < two63) (a' t' : Bytes) :
    crCnt (A.write a (roleKeyPrefix ++ t) (encRoles r)) a' t' =
      if a = a' ∧ t = t' then r.count roleNFTCreate else crCnt A a' t' := by
  by_cases h : a = a' ∧ t = t'
  · obtain ⟨rfl, rfl⟩ := h
    rw [if_pos ⟨rfl, rfl⟩]
    apply crCnt_of_roles
    rw [Accts.read_write, if_pos ⟨rfl, rfl⟩]
    exact rolesOf_encRoles _ hl
  · rw [if_neg h]
    apply crCnt_congr
    rw [Accts.read_write, if_neg (fun hh => h ⟨hh.1, List.append_cancel_left hh.2⟩)]

theorem crCnt_write_nonce (A : Accts) (a t v a' t' : Bytes) :
    crCnt (A.write a (nonceKeyPrefix ++ t) v) a' t' = crCnt A a' t' := by
  apply crCnt_congr
  rw [Accts.read_write, if_neg (fun h => role_ne_nonce _ _ h.2.symm)]

theorem ctr_write_role (A : Accts) (a t v a' t' : Bytes) :
    ctr (A.write a (roleKeyPrefix ++ t) v) a' t' = ctr A a' t' := by
  apply ctr_congr
  rw [Accts.read_write, if_neg (fun h => role_ne_nonce _ _ h.2)]

theorem ctr_write_nonce (A : Accts) (a t : Bytes) (n : Nat) (hn : n < two64) (a' t' : Bytes) :
    ctr (A.write a (nonceKeyPrefix ++ t) (beBytes n)) a' t' = if a = a' ∧ t = t' then n else ctr A a' t' := by
  by_cases h : a = a' ∧ t = t'
  · obtain ⟨rfl, rfl⟩ := h
    rw [if_pos ⟨rfl, rfl⟩]
    unfold ctr
    rw [Accts.read_write, if_pos ⟨rfl, rfl⟩]
    exact counterOf_beBytes n hn
  · rw [if_neg h]
    apply ctr_congr
    rw [Accts.read_write, if_neg (fun hh => h ⟨hh.1, List.append_cancel_left hh.2⟩)]

/-! ### one step -/

/-- set-role / unset-role under the discipline leave every create-role count of `tok` as it was -/
theorem setRole_crCnt (set : Bool) (env : Env) (c : Call) (A : Accts) (out : VMOutput) (ctx' : Ctx) (tok : Bytes)
    (he : esdtRoles set env c { accts := A } = .ok (out, ctx'))
    (hd : c.args[0]? = some tok → roleNFTCreate ∉ c.args.drop 1) (a : Bytes) :
    crCnt ctx'.accts a tok = crCnt A a tok := by
  obtain ⟨tok', roles, h0, hroles, hw, hl⟩ := (esdtRoles_effect set env c { accts := A }).elim he
  simp only at hroles hw
  by_cases hk : c.rcv = a ∧ roleKeyPrefix ++ tok' = roleKeyPrefix ++ tok
  · obtain ⟨ha, hk⟩ := hk
    have ht : tok' = tok := List.append_cancel_left hk
    subst ht; subst ha
    have hnot := hd h0
    have hread : rolesOf (ctx'.accts.read c.rcv (roleKeyPrefix ++ tok')) =
        some (if set then roles ++ c.args.drop 1 else deleteRoles roles (c.args.drop 1)) := by
      rw [hw, Accts.read_write, if_pos ⟨rfl, rfl⟩]; exact rolesOf_encRoles _ hl
    rw [crCnt_of_roles hread, crCnt_of_roles hroles]
    cases set
    · simp only [Bool.false_eq_true, if_false]; exact count_deleteRoles_other _ _ hnot
    · simp only [if_true]; rw [List.count_append, List.count_eq_zero.mpr hnot]; rfl
  · apply crCnt_congr; rw [hw, Accts.read_write, if_neg hk]

/-- a hand-over that does not mention `tok` leaves its role lists and counters as they were -/
theorem handover_other (env : Env) (c : Call) (A : Accts) (out : VMOutput) (ctx' : Ctx) (tok : Bytes)
    (he : esdtNFTCreateRoleTransfer env c { accts := A } = .ok (out, ctx')) (hnot : tok ∉ c.args) (a : Bytes) :
    crCnt ctx'.accts a tok = crCnt A a tok ∧ ctr ctx'.accts a tok = ctr A a tok := by
  have hf := (frame_esdtNFTCreateRoleTransfer env c { accts := A } _ (Frame.refl _ _)).elim he
  constructor
  · apply crCnt_congr
    apply hf a (.key _)
    rintro ⟨_, t, ht, ⟨s, hs⟩ | ⟨_, hr⟩ | ⟨_, hn⟩⟩
    · have := congrArg (List.take 7) hs
      simp [esdtKeyPrefix, roleKeyPrefix, ascii] at this
    · rw [List.append_cancel_left hr] at hnot; exact hnot ht
    · exact role_ne_nonce _ _ hn
  · apply ctr_congr
    apply hf a (.key _)
    rintro ⟨_, t, ht, ⟨s, hs⟩ | ⟨_, hr⟩ | ⟨_, hn⟩⟩
    · have := congrArg (List.take 7) hs
      simp [esdtKeyPrefix, nonceKeyPrefix, ascii] at this
    · exact role_ne_nonce _ _ hr.symm
    · rw [List.append_cancel_left hn] at hnot; exact hnot ht

theorem hmsgOf_nil_of_ne (e : Env) (s : Nat) (tok : Bytes) (f : FnId) (c : Call) (out : VMOutput)
    (h : f ≠ .nftCreateRoleTransfer) : hmsgOf e s tok f c out = [] := by
  unfold hmsgOf
  have : (f == FnId.nftCreateRoleTransfer) = false := by cases f <;> first | rfl | exact absurd rfl h
  simp [this]

theorem hmsgOf_nil_of_notin (e : Env) (s : Nat) (tok : Bytes) (f : FnId) (c : Call) (out : VMOutput)
    (h : tok ∉ c.args) : hmsgOf e s tok f c out = [] := by
  unfold hmsgOf
  have : (c.args[0]? == some tok) = false := by
    cases hc : c.args with
    | nil => simp
    | cons x xs =>
      rw [hc] at h
      have : x ≠ tok := fun e => h (by rw [e]; exact List.mem_cons_self)
      simp [this]
  simp [this]

end Esdt

namespace Esdt

theorem ctr_lt (A : Accts) (a tok : Bytes) : ctr A a tok < two64 := by
  unfold ctr counterOf
  split
  · decide
  · exact u64_lt _

theorem present_false_of (n s s' : Nat) (a : Bytes) (ha : a ≠ systemAccountAddress) (hp : present n s a = true)
    (hne : s' ≠ s) : present n s' a = false := by
  unfold present at *
  have h1 : (a == systemAccountAddress) = false := by simpa using ha
  rw [h1, Bool.false_or] at hp ⊢
  have : shardOf n a = s := by simpa using hp
  rw [this]
  simpa using fun e => hne e.symm

/-- a call step keeps the invariant -/
theorem cstep_call_inv (e : Env) (tok : Bytes) (w : CWorld) (s : Nat) (f : FnId) (c : Call) (hI : CInv e tok w)
    (hok : CStepOK e tok w (.call s f c)) : CInv e tok (cstep e tok w (.call s f c)) := by
  obtain ⟨hcaller, hD1, hD2, hwrap⟩ := hok
  simp only [cstep]
  cases hs : w.shards[s]? with
  | none => exact hI
  | some A =>
    simp only []
    cases he : exec { e with self := s } f c { accts := A } with
    | err _ => exact hI
    | panic => exact hI
    | ok p =>
      obtain ⟨out, ctx'⟩ := p
      simp only []
      have unchanged : (∀ a, crCnt ctx'.accts a tok = crCnt A a tok) → (∀ a, ctr ctx'.accts a tok = ctr A a tok) →
          hmsgOf e s tok f c out = [] → (f == .nftCreate && c.args[0]? == some tok) = false →
          CInv e tok { shards := w.shards.set s ctx'.accts, flight := w.flight ++ hmsgOf e s tok f c out,
                       issued := if (f == .nftCreate && c.args[0]? == some tok) = true then nonceOfRet out :: w.issued
                                 else w.issued } := by
        intro hc hn hm hcr
        rw [hm, hcr]
        simp only [List.append_nil, Bool.false_eq_true, if_false]
        exact ⟨loc_unchanged e tok w s A ctx'.accts hs hc hn hI.loc, hI.sorted⟩
      by_cases hho : f = .nftCreateRoleTransfer
      · subst hho
        have he' : esdtNFTCreateRoleTransfer { e with self := s } c { accts := A } = .ok (out, ctx') := by
          unfold exec at he; simpa [runFn] using he
        have hg := (handover_guard { e with self := s } c { accts := A }).elim he'
        simp only at hg
        by_cases hsys : c.caller = esdtSCAddress
        · rcases hD2 rfl hsys with hnot | ⟨dest, A2, hargs, hs2, hcnt, hnsys⟩
          · exact unchanged (fun a => (handover_other _ c A out ctx' tok he' hnot a).1)
              (fun a => (handover_other _ c A out ctx' tok he' hnot a).2) (hmsgOf_nil_of_notin _ _ _ _ _ _ hnot) rfl
          · rw [hs] at hs2; cases hs2
            obtain ⟨tok1, dest1, roles, hargs1, hroles, hx, hx2, tr, hout, hdata⟩ :=
              (handover_current_x { e with self := s } c { accts := A } hsys).elim he'
            rw [hargs] at hargs1
            injection hargs1 with e1 e2
            injection e2 with e2 _
            subst e1; subst e2
            simp only at hroles hx hx2 hdata
            have hrc : roles.count roleNFTCreate = 1 := by rw [← crCnt_of_roles hroles]; exact hcnt
            have hrcv : c.rcv ≠ esdtSCAddress := by
              intro e; rw [e, ← hsys, hg.1] at hg; cases hg.2.1
            cases hI.loc with
            | flying m hfl ho _ _ _ => have := ho s A c.rcv hs; omega
            | nowhere hfl ho => have := ho s A c.rcv hs; omega
            | held s1 h Ah hsh hc1 ho hfl hiss =>
              have hsame : s = s1 ∧ c.rcv = h := by
                apply Classical.byContradiction
                intro hne
                have := ho s A c.rcv hs hne
                omega
              obtain ⟨rfl, rfl⟩ := hsame
              rw [hs] at hsh; cases hsh
              have hoA : ∀ a, a ≠ c.rcv → crCnt A a tok = 0 := fun a ha => ho s A a hs (fun h => ha h.2)
              by_cases hshard : shardOf e.nshards dest = s
              · -- next holder on the same shard: the call does both halves
                obtain ⟨A3, roles2, hA3, hl, hr2, _, hno⟩ := hx2 hshard
                have hcA3 : ∀ a, crCnt A3 a tok = 0 := by
                  intro a
                  rw [hA3, crCnt_write_nonce, crCnt_write_role _ _ _ _ hl, crCnt_write_nonce]
                  split
                  · rw [count_deleteRoles_create, hrc]
                  · rename_i hne; exact hoA a (fun h => hne ⟨h.symm, rfl⟩)
                have hz : roles2.count roleNFTCreate = 0 := by rw [← crCnt_of_roles hr2]; exact hcA3 dest
                have hcf : roles2.contains roleNFTCreate = false := by
                  have := List.count_eq_zero.mp hz
                  simpa using this
                obtain ⟨hw, hl2⟩ := hno hcf
                have hmsg : hmsgOf e s tok .nftCreateRoleTransfer c out = [] := by
                  simp [hmsgOf, hargs, hout, hshard]
                rw [hmsg]
                simp only [List.append_nil]
                refine ⟨Loc.held s dest ctx'.accts (by simp [getElem?_set_of hs]) ?_ ?_ hfl ?_, by simpa using hI.sorted⟩
                · rw [hw, crCnt_write_role _ _ _ _ hl2, if_pos ⟨rfl, rfl⟩, List.count_append, hz]; rfl
                · intro s' A2 a hs' hne
                  simp only at hs'
                  rw [getElem?_set_of hs] at hs'
                  by_cases h0 : s' = s
                  · simp only [h0, if_true] at hs'
                    cases hs'
                    have ha : ¬ (dest = a ∧ tok = tok) := fun h => hne ⟨h0, h.1.symm⟩
                    rw [hw, crCnt_write_role _ _ _ _ hl2, if_neg ha]
                    exact hcA3 a
                  · simp only [h0, if_false] at hs'
                    exact ho s' A2 a hs' (fun h => h0 h.1)
                · intro n hn
                  have : ctr ctx'.accts dest tok = ctr A c.rcv tok := by
                    rw [hw, ctr_write_role, hA3, ctr_write_nonce _ _ _ _ (ctr_lt A c.rcv tok), if_pos ⟨rfl, rfl⟩]
                  rw [this]
                  exact hiss n (by simpa using hn)
              · -- next holder on another shard: strip here, ship the counter
                obtain ⟨hw, hl⟩ := hx hshard
                have hparse : parseCall tr.data = .ok (fnESDTNFTCreateRoleTransfer, [tok, beBytes (ctr A c.rcv tok)]) := by
                  rw [hdata, parseCall_encodeCall _ _ (by decide) (by decide)]
                have hmsg : hmsgOf e s tok .nftCreateRoleTransfer c out =
                    [{ prev := c.rcv, dest := dest, nb := beBytes (ctr A c.rcv tok) }] := by
                  simp [hmsgOf, hargs, hout, hparse, hshard]
                rw [hmsg]
                refine ⟨Loc.flying { prev := c.rcv, dest := dest, nb := beBytes (ctr A c.rcv tok) } (by simp [hfl]) ?_ ?_ hrcv
                  ?_, by simpa using hI.sorted⟩
                · intro s' A2 a hs'
                  simp only at hs'
                  rw [getElem?_set_of hs] at hs'
                  by_cases h0 : s' = s
                  · simp only [h0, if_true] at hs'
                    cases hs'
                    rw [hw, crCnt_write_role _ _ _ _ hl, crCnt_write_nonce]
                    split
                    · rw [count_deleteRoles_create, hrc]
                    · rename_i hne; exact hoA a (fun h => hne ⟨h.symm, rfl⟩)
                  · simp only [h0, if_false] at hs'
                    exact ho s' A2 a hs' (fun h => h0 h.1)
                · intro n hn
                  simp only [beNat_beBytes, u64_of_lt _ (ctr_lt A c.rcv tok)]
                  simpa using hiss n (by simpa using hn)
                · exact present_false_of _ s _ c.rcv hnsys hg.2.1 hshard
        · rcases hcaller with h | h
          · exact absurd h hsys
          · rw [hg.1] at h; cases h
      · have hm : hmsgOf e s tok f c out = [] := hmsgOf_nil_of_ne _ _ _ _ _ _ hho
        by_cases hsr : f = .setRole ∨ f = .unSetRole
        · have hcn : ∀ a, ctr ctx'.accts a tok = ctr A a tok := fun a =>
            ctr_congr (counters_only_through f ⟨by rcases hsr with rfl | rfl <;> decide, hho⟩ _ c _ ctx' out he a tok)
          have hcr : (f == .nftCreate && c.args[0]? == some tok) = false := by rcases hsr with rfl | rfl <;> rfl
          refine unchanged (fun a => ?_) hcn hm hcr
          rcases hsr with rfl | rfl
          · exact setRole_crCnt true _ c A out ctx' tok (by unfold exec at he; simpa [runFn] using he) (hD1 (Or.inl rfl)) a
          · exact setRole_crCnt false _ c A out ctx' tok (by unfold exec at he; simpa [runFn] using he) (hD1 (Or.inr rfl)) a
        · have hroles : ∀ a, crCnt ctx'.accts a tok = crCnt A a tok := fun a =>
            crCnt_congr (roles_only_through f ⟨fun h => hsr (Or.inl h), fun h => hsr (Or.inr h), hho⟩ _ c _ ctx' out he a tok)
          by_cases hcr : f = .nftCreate
          · subst hcr
            have he' : esdtNFTCreate { e with self := s } c { accts := A } = .ok (out, ctx') := by
              unfold exec at he; simpa [runFn] using he
            by_cases h0 : c.args[0]? = some tok
            · obtain ⟨tok1, h01, hrole⟩ := (gate_nftCreate { e with self := s } c { accts := A }).elim he'
              rw [h0] at h01; cases h01
              have hpos := hasRole_crCnt hrole
              simp only at hpos
              cases hI.loc with
              | held s1 h Ah hsh hc1 ho hfl hiss =>
                have hsame : s = s1 ∧ c.caller = h := by
                  apply Classical.byContradiction
                  intro hne
                  have := ho s A c.caller hs hne
                  omega
                obtain ⟨rfl, rfl⟩ := hsame
                rw [hs] at hsh; cases hsh
                have hstep := hstep_counter c.caller tok ⟨.nftCreate, { e with self := s }, c⟩ (fun h => by cases h) A out ctx' he
                  (hwrap A hs)
                have hisc : HStep.isCreate ⟨.nftCreate, { e with self := s }, c⟩ c.caller tok = true := by
                  simp [HStep.isCreate, h0]
                rcases hstep with ⟨hf, _⟩ | ⟨_, hinc, hret⟩
                · rw [hisc] at hf; cases hf
                · rw [hm]
                  have hcond : (FnId.nftCreate == FnId.nftCreate && c.args[0]? == some tok) = true := by simp [h0]
                  rw [hcond]
                  simp only [List.append_nil, if_true]
                  refine ⟨Loc.held s c.caller ctx'.accts (by simp [getElem?_set_of hs]) (by rw [hroles]; exact hc1) ?_ hfl ?_, ?_⟩
                  · intro s' A2 a hs' hne
                    simp only at hs'
                    rw [getElem?_set_of hs] at hs'
                    by_cases h1 : s' = s
                    · simp only [h1, if_true] at hs'
                      cases hs'
                      rw [hroles]
                      exact ho s A a hs (fun h => hne ⟨h1, h.2⟩)
                    · simp only [h1, if_false] at hs'
                      exact ho s' A2 a hs' hne
                  · intro n hn
                    rcases List.mem_cons.mp hn with rfl | hn
                    · omega
                    · have := hiss n hn; omega
                  · refine List.pairwise_cons.mpr ⟨?_, hI.sorted⟩
                    intro n hn
                    have := hiss n hn
                    omega
              | flying m hfl ho _ _ _ => have := ho s A c.caller hs; omega
              | nowhere hfl ho => have := ho s A c.caller hs; omega
            · have hcond : (FnId.nftCreate == FnId.nftCreate && c.args[0]? == some tok) = false := by simp [h0]
              refine unchanged hroles (fun a => ?_) hm hcond
              by_cases ha : a = c.caller
              · subst ha
                rcases hstep_counter c.caller tok ⟨.nftCreate, { e with self := s }, c⟩ (fun h => by cases h) A out ctx' he
                  (hwrap A hs) with ⟨_, hsame⟩ | ⟨hf, _, _⟩
                · exact hsame
                · simp [HStep.isCreate, h0] at hf
              · exact ctr_congr (create_touches_only_own_counter _ c _ ctx' out he' a tok ha)
          · have hcond : (f == .nftCreate && c.args[0]? == some tok) = false := by
              have : (f == FnId.nftCreate) = false := by cases f <;> first | rfl | exact absurd rfl hcr
              simp [this]
            exact unchanged hroles
              (fun a => ctr_congr (counters_only_through f ⟨hcr, hho⟩ _ c _ ctx' out he a tok)) hm hcond

end Esdt

namespace Esdt

/-- delivering a hand-over message keeps the invariant -/
theorem cstep_deliver_inv (e : Env) (tok : Bytes) (w : CWorld) (i : Nat) (hI : CInv e tok w) :
    CInv e tok (cstep e tok w (.deliver i)) := by
  simp only [cstep]
  cases hm : w.flight[i]? with
  | none => exact hI
  | some m =>
    simp only []
    cases hs : w.shards[shardOf e.nshards m.dest]? with
    | none => exact hI
    | some A =>
      simp only []
      cases he : exec { e with self := shardOf e.nshards m.dest } .nftCreateRoleTransfer (deliverCall tok m)
          { accts := A } with
      | err _ => exact hI
      | panic => exact hI
      | ok p =>
        obtain ⟨out, ctx'⟩ := p
        simp only []
        cases hI.loc with
        | held s1 h Ah hsh hc1 ho hfl hiss => rw [hfl] at hm; simp at hm
        | nowhere hfl ho => rw [hfl] at hm; simp at hm
        | flying m0 hfl ho hiss hp hpr =>
          rw [hfl] at hm
          cases i with
          | succ j => simp at hm
          | zero =>
            simp only [List.getElem?_cons_zero, Option.some.injEq] at hm
            subst hm
            have he' : esdtNFTCreateRoleTransfer { e with self := shardOf e.nshards m0.dest } (deliverCall tok m0)
                { accts := A } = .ok (out, ctx') := by
              unfold exec at he; simpa [runFn] using he
            obtain ⟨tok1, nb1, roles, hargs, hroles, _, hno⟩ :=
              (handover_next_x _ (deliverCall tok m0) { accts := A } hp).elim he'
            simp only [deliverCall] at hargs hroles hno
            injection hargs with e1 e2
            injection e2 with e2 _
            subst e1; subst e2
            have hz : roles.count roleNFTCreate = 0 := by
              rw [← crCnt_of_roles hroles]; exact ho _ A m0.dest hs
            have hcf : roles.contains roleNFTCreate = false := by
              have := List.count_eq_zero.mp hz
              simpa using this
            obtain ⟨hw, hl⟩ := hno hcf
            have hread : rolesOf (ctx'.accts.read m0.dest (roleKeyPrefix ++ tok)) = some (roles ++ [roleNFTCreate]) := by
              rw [hw, Accts.read_write, if_pos ⟨rfl, rfl⟩]; exact rolesOf_encRoles _ hl
            have hctr : ctr ctx'.accts m0.dest tok = u64 (beNat m0.nb) := by
              unfold ctr
              rw [hw, Accts.read_write, if_neg (fun h => role_ne_nonce _ _ h.2), Accts.read_write, if_pos ⟨rfl, rfl⟩]
              exact counterOf_beBytes _ (u64_lt _)
            refine ⟨Loc.held (shardOf e.nshards m0.dest) m0.dest ctx'.accts (by simp [getElem?_set_of hs]) ?_ ?_
              (by simp [hfl]) ?_, hI.sorted⟩
            · rw [crCnt_of_roles hread, List.count_append, hz]; rfl
            · intro s' A2 a hs' hne
              simp only at hs'
              rw [getElem?_set_of hs] at hs'
              by_cases h1 : s' = shardOf e.nshards m0.dest
              · simp only [h1, if_true] at hs'
                cases hs'
                have ha : ¬ a = m0.dest := fun h => hne ⟨h1, h⟩
                have : crCnt ctx'.accts a tok = crCnt A a tok := by
                  apply crCnt_congr
                  rw [hw, Accts.read_write, if_neg (fun h => ha h.1.symm), Accts.read_write, if_neg (fun h => ha h.1.symm)]
                rw [this]
                exact ho _ A a hs
              · simp only [h1, if_false] at hs'
                exact ho s' A2 a hs'
            · intro n hn
              rw [hctr]
              exact hiss n hn

theorem cstep_inv (e : Env) (tok : Bytes) (w : CWorld) (st : CStep) (hI : CInv e tok w) (hok : CStepOK e tok w st) :
    CInv e tok (cstep e tok w st) := by
  cases st with
  | call s f c => exact cstep_call_inv e tok w s f c hI hok
  | deliver i => exact cstep_deliver_inv e tok w i hI

theorem crun_inv (e : Env) (tok : Bytes) : ∀ (steps : List CStep) (w : CWorld), CInv e tok w → CStepsOK e tok steps w →
    CInv e tok (crun e tok steps w)
  | [], _, hI, _ => hI
  | st :: rest, w, hI, hok => crun_inv e tok rest _ (cstep_inv e tok w st hI hok.1) hok.2

/-- the ghost list only grows, at its head -/
theorem cstep_issued_suffix (e : Env) (tok : Bytes) (w : CWorld) (st : CStep) :
    w.issued <:+ (cstep e tok w st).issued := by
  cases st with
  | call s f c =>
    simp only [cstep]
    split
    · exact List.suffix_refl _
    · split
      · simp only []
        split
        · exact List.suffix_cons _ _
        · exact List.suffix_refl _
      · exact List.suffix_refl _
  | deliver i =>
    simp only [cstep]
    split
    · exact List.suffix_refl _
    · split
      · exact List.suffix_refl _
      · split <;> exact List.suffix_refl _

end Esdt

namespace Esdt

/-! ### an executable form of the discipline (for non-vacuity examples) -/

def cstepOKb (e : Env) (tok : Bytes) (w : CWorld) : CStep → Bool
  | .call s f c =>
    decide (c.caller = esdtSCAddress ∨ present e.nshards s c.caller = true) &&
    decide ((f = .setRole ∨ f = .unSetRole) → c.args[0]? = some tok → roleNFTCreate ∉ c.args.drop 1) &&
    (decide (f = .nftCreateRoleTransfer → c.caller = esdtSCAddress → tok ∉ c.args) ||
      (match c.args, w.shards[s]? with
       | [t, dest], some A =>
         decide (t = tok ∧ crCnt A c.rcv tok = 1 ∧ c.rcv ≠ systemAccountAddress)
       | _, _ => false)) &&
    (match w.shards[s]? with
     | some A => decide (ctr A c.caller tok + 1 < 2 ^ 64)
     | none => true)
  | .deliver _ => true

theorem cstepOKb_sound (e : Env) (tok : Bytes) (w : CWorld) (st : CStep) (h : cstepOKb e tok w st = true) :
    CStepOK e tok w st := by
  cases st with
  | deliver i => trivial
  | call s f c =>
    simp only [cstepOKb, Bool.and_eq_true, Bool.or_eq_true, decide_eq_true_eq] at h
    obtain ⟨⟨⟨h1, h2⟩, h3⟩, h4⟩ := h
    refine ⟨h1, h2, ?_, ?_⟩
    · intro hf hs
      rcases h3 with h3 | h3
      · exact Or.inl (h3 hf hs)
      · right
        split at h3
        · rename_i t dest A hargs hsh
          simp only [decide_eq_true_eq] at h3
          exact ⟨dest, A, by rw [hargs, h3.1], hsh, h3.2.1, h3.2.2⟩
        · cases h3
    · intro A hA
      rw [hA] at h4
      simpa using h4

def cstepsOKb (e : Env) (tok : Bytes) : List CStep → CWorld → Bool
  | [], _ => true
  | st :: rest, w => cstepOKb e tok w st && cstepsOKb e tok rest (cstep e tok w st)

theorem cstepsOKb_sound (e : Env) (tok : Bytes) : ∀ (steps : List CStep) (w : CWorld),
    cstepsOKb e tok steps w = true → CStepsOK e tok steps w
  | [], _, _ => trivial
  | st :: rest, w, h => by
    simp only [cstepsOKb, Bool.and_eq_true] at h
    exact ⟨cstepOKb_sound e tok w st h.1, cstepsOKb_sound e tok rest _ h.2⟩

end Esdt

namespace Esdt

/-- why an output transfer to the executing shard itself is not a message of the world: delivered there with the old holder
    as caller it is refused, whatever the state (the sender account is local) -/
theorem same_shard_message_dead (e : Env) (tok : Bytes) (m : HMsg) (A : Accts) (out : VMOutput) (ctx' : Ctx)
    (hp : present e.nshards (shardOf e.nshards m.dest) m.prev = true) :
    exec { e with self := shardOf e.nshards m.dest } .nftCreateRoleTransfer (deliverCall tok m) { accts := A } ≠
      .ok (out, ctx') := by
  intro he
  have he' : esdtNFTCreateRoleTransfer { e with self := shardOf e.nshards m.dest } (deliverCall tok m) { accts := A } =
      .ok (out, ctx') := by
    unfold exec at he; simpa [runFn] using he
  have hg := (handover_guard _ _ _).elim he'
  simp only [deliverCall] at hg
  rw [hp] at hg
  cases hg.1

end Esdt
