/-
  Proofs/Emit.lean — C10: every data string emitted in an output transfer is produced by the one message
  encoder, with a protocol function name or the attached function name taken from the call's arguments.
-/
import Proofs.Wp
namespace Esdt

def protoNames : List Bytes :=
  [fnESDTTransfer, fnESDTBurn, fnESDTNFTTransfer, fnMultiESDTNFTTransfer, fnESDTNFTCreateRoleTransfer, fnSetUserName]

def DataOK (c : Call) (d : Bytes) : Prop :=
  d = [] ∨ ∃ fn args, d = encodeCall fn args ∧ (fn ∈ protoNames ∨ fn ∈ c.args)

def EmittedOK (c : Call) (out : VMOutput) : Prop :=
  ∀ oa ∈ out.outAccts, ∀ tr ∈ oa.transfers, DataOK c tr.data

macro "emit_close" : tactic => `(tactic| (
  unfold EmittedOK
  try simp only [addOutputTransfer, addNFTTransfer]
  (repeat' split) <;> (
    intro oa hoa tr htr
    first
    | (simp at hoa; done)
    | (simp only [List.mem_cons, List.mem_singleton, List.not_mem_nil, or_false] at hoa
       subst hoa
       simp only [List.mem_cons, List.mem_singleton, List.not_mem_nil, or_false] at htr
       subst htr
       first
       | (left; rfl)
       | (right; refine ⟨_, _, rfl, ?_⟩
          first
          | (left; decide)
          | (right; exact List.mem_of_getElem? ‹_›)
          | (right; apply List.mem_of_getElem?; assumption))))))

theorem emit_esdtTransfer (env : Env) (c : Call) (ctx : Ctx) :
    Post (esdtTransfer env c) ctx (fun out _ => EmittedOK c out) := by
  unfold esdtTransfer checkBasic
  wp
  all_goals emit_close

theorem emit_esdtBurn (env : Env) (c : Call) (ctx : Ctx) :
    Post (esdtBurn env c) ctx (fun out _ => EmittedOK c out) := by
  unfold esdtBurn checkBasic
  wp
  all_goals emit_close

theorem emit_esdtNFTTransfer (env : Env) (c : Call) (ctx : Ctx) :
    Post (esdtNFTTransfer env c) ctx (fun out _ => EmittedOK c out) := by
  unfold esdtNFTTransfer esdtNFTTransferSender checkBasic
  wp
  all_goals emit_close

theorem emit_multiTransfer (env : Env) (c : Call) (ctx : Ctx) :
    Post (multiTransfer env c) ctx (fun out _ => EmittedOK c out) := by
  unfold multiTransfer multiTransferSender checkBasic
  wp
  all_goals emit_close

theorem emit_esdtNFTCreateRoleTransfer (env : Env) (c : Call) (ctx : Ctx) :
    Post (esdtNFTCreateRoleTransfer env c) ctx (fun out _ => EmittedOK c out) := by
  unfold esdtNFTCreateRoleTransfer checkBasic
  wp
  all_goals emit_close

theorem emit_setUserName (env : Env) (c : Call) (ctx : Ctx) :
    Post (setUserName env c) ctx (fun out _ => EmittedOK c out) := by
  unfold setUserName
  wp
  all_goals emit_close

theorem emit_claimDeveloperRewards (env : Env) (c : Call) (ctx : Ctx) :
    Post (claimDeveloperRewards env c) ctx (fun out _ => EmittedOK c out) := by
  unfold claimDeveloperRewards
  wp
  all_goals emit_close

/-- the functions that never emit an output transfer -/
def NoOutput (out : VMOutput) : Prop := out.outAccts = []

macro "noout" : tactic => `(tactic| (wp; all_goals (first | rfl | (unfold NoOutput; rfl))))

theorem noout_esdtLocalMint (env : Env) (c : Call) (ctx : Ctx) : Post (esdtLocalMint env c) ctx (fun out _ => NoOutput out) := by
  unfold esdtLocalMint checkLocalAction checkBasic; noout
theorem noout_esdtLocalBurn (env : Env) (c : Call) (ctx : Ctx) : Post (esdtLocalBurn env c) ctx (fun out _ => NoOutput out) := by
  unfold esdtLocalBurn checkLocalAction checkBasic; noout
theorem noout_esdtNFTCreate (env : Env) (c : Call) (ctx : Ctx) : Post (esdtNFTCreate env c) ctx (fun out _ => NoOutput out) := by
  unfold esdtNFTCreate checkCreateBurnAdd checkBasic; noout
theorem noout_esdtNFTAddQuantity (env : Env) (c : Call) (ctx : Ctx) : Post (esdtNFTAddQuantity env c) ctx (fun out _ => NoOutput out) := by
  unfold esdtNFTAddQuantity checkCreateBurnAdd checkBasic; noout
theorem noout_esdtNFTBurn (env : Env) (c : Call) (ctx : Ctx) : Post (esdtNFTBurn env c) ctx (fun out _ => NoOutput out) := by
  unfold esdtNFTBurn checkCreateBurnAdd checkBasic; noout
theorem noout_esdtNFTAddURI (env : Env) (c : Call) (ctx : Ctx) : Post (esdtNFTAddURI env c) ctx (fun out _ => NoOutput out) := by
  unfold esdtNFTAddURI checkCreateBurnAdd checkBasic; noout
theorem noout_esdtNFTUpdateAttributes (env : Env) (c : Call) (ctx : Ctx) : Post (esdtNFTUpdateAttributes env c) ctx (fun out _ => NoOutput out) := by
  unfold esdtNFTUpdateAttributes checkCreateBurnAdd checkBasic; noout
theorem noout_esdtFreezeWipe (k : FreezeKind) (env : Env) (c : Call) (ctx : Ctx) : Post (esdtFreezeWipe k env c) ctx (fun out _ => NoOutput out) := by
  unfold esdtFreezeWipe; noout
theorem noout_esdtPause (p : Bool) (env : Env) (c : Call) (ctx : Ctx) : Post (esdtPause p env c) ctx (fun out _ => NoOutput out) := by
  unfold esdtPause; noout
theorem noout_esdtRoles (s : Bool) (env : Env) (c : Call) (ctx : Ctx) : Post (esdtRoles s env c) ctx (fun out _ => NoOutput out) := by
  unfold esdtRoles checkBasic; noout
theorem noout_saveKeyValue (env : Env) (c : Call) (ctx : Ctx) : Post (saveKeyValue env c) ctx (fun out _ => NoOutput out) := by
  unfold saveKeyValue; noout
theorem noout_changeOwnerAddress (env : Env) (c : Call) (ctx : Ctx) : Post (changeOwnerAddress env c) ctx (fun out _ => NoOutput out) := by
  unfold changeOwnerAddress; noout

theorem EmittedOK.of_noOutput (c : Call) (out : VMOutput) (h : NoOutput out) : EmittedOK c out := by
  intro oa hoa; rw [h] at hoa; simp at hoa

end Esdt
