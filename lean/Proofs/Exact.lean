/-
  Proofs/Exact.lean — exact effects of the storage helpers on the byte-level state, stated on views
  of the account map (what the later ledger theorems of C01 / C02 / C04 / C09 are composed from).
-/
import Proofs.Frame
namespace Esdt

/-! ### views of the account map -/

def Accts.read (A : Accts) (a k : Bytes) : Bytes := (A.get a).store.get k

/-- the account map after one data-trie write -/
def Accts.write (A : Accts) (a k v : Bytes) : Accts :=
  A.set a { A.get a with store := (A.get a).store.put k v }

theorem Accts.read_write (A : Accts) (a k v a2 k2 : Bytes) :
    (A.write a k v).read a2 k2 = if a = a2 ∧ k = k2 then v else A.read a2 k2 := by
  unfold Accts.write Accts.read
  by_cases ha : a = a2
  · subst ha
    rw [Accts.get_set_same]
    simp only [true_and]
    exact Store.get_put _ _ _ _
  · rw [Accts.get_set_ne _ _ _ _ ha]
    simp [ha]

/-- what `getESDTDataFromKey` yields for a stored value (`none`: the value does not decode) -/
def tokenOf (raw : Bytes) : Option Token := if raw = [] then some fungibleDefault else decToken raw

/-- what `saveESDTData` stores for a token (its `Value` is present) -/
def storedForm (t : Token) : Bytes :=
  if t.value = some 0 ∧ allZero t.properties = true then [] else encToken t

/-- what `saveESDTNFTToken` stores -/
def nftStoredForm (t : Token) : Bytes :=
  match t.value with
  | some v => if v ≤ 0 then [] else encToken t
  | none => []

/-- pause flag of the storage-level key `k` on this shard -/
def pausedIn (A : Accts) (k : Bytes) : Bool :=
  let v := A.read systemAccountAddress k
  v.length = 2 && pausedOf v

/-- the freeze / pause gate: what a passed `checkFrozeAndPause` establishes -/
def GateOpen (A : Accts) (addr key : Bytes) (t : Token) (rae : Bool) : Prop :=
  rae = false → addr ≠ esdtSCAddress → frozenOf t.properties = false ∧ pausedIn A key = false

/-! ### primitive specifications -/

theorem spec_readKey (a k : Bytes) (c : Ctx) :
    Post (readKey a k) c (fun v c' => c'.accts = c.accts ∧ v = c.accts.read a k) := by
  apply Post.of_forall; intro v c' h; simp [readKey] at h; obtain ⟨rfl, rfl⟩ := h; exact ⟨rfl, rfl⟩

theorem spec_writeKey (a k v : Bytes) (c : Ctx) :
    Post (writeKey a k v) c (fun _ c' => c'.accts = c.accts.write a k v) := by
  unfold writeKey
  apply Post.bind
  apply Post.mono (RO.tick .w c)
  intro _ c1 h1
  apply Post.of_forall
  intro u c2 he
  simp at he
  rw [← he]
  simp only [Accts.write, h1]

theorem spec_unmarshalToken (b : Bytes) (c : Ctx) :
    Post (unmarshalToken b) c (fun t c' => c'.accts = c.accts ∧ decToken b = some t) := by
  unfold unmarshalToken
  apply Post.bind
  apply Post.mono (RO.tick .u c)
  intro _ c1 h1
  split
  · rename_i t ht; exact Post.pure ⟨h1, ht⟩
  · exact Post.fail

/-- marshalling: the canonical encoding, shorter than 2^63 bytes (a Go slice) -/
theorem spec_marshalToken_len (t : Token) (c : Ctx) :
    Post (marshalToken t) c (fun b c' => c'.accts = c.accts ∧ b = encToken t ∧ b.length < two63) := by
  unfold marshalToken
  apply Post.bind
  apply Post.mono (RO.tick .m c)
  intro _ c1 h1
  split
  · rename_i hl; exact Post.pure ⟨h1, rfl, hl⟩
  · exact Post.fail

theorem spec_marshalToken (t : Token) (c : Ctx) :
    Post (marshalToken t) c (fun b c' => c'.accts = c.accts ∧ b = encToken t) :=
  Post.mono (spec_marshalToken_len t c) (fun _ _ ⟨h1, h2, _⟩ => ⟨h1, h2⟩)

theorem spec_getESDTDataFromKey (a k : Bytes) (c : Ctx) :
    Post (getESDTDataFromKey a k) c (fun t c' => c'.accts = c.accts ∧ tokenOf (c.accts.read a k) = some t) := by
  unfold getESDTDataFromKey
  apply Post.bind
  apply Post.mono (spec_readKey a k c)
  intro raw c1 ⟨h1, hraw⟩
  subst hraw
  split
  · rename_i he; exact Post.pure ⟨h1, by simp [tokenOf, he]⟩
  · rename_i he
    apply Post.mono (spec_unmarshalToken _ c1)
    intro t c2 ⟨h2, hd⟩
    exact ⟨by rw [h2, h1], by simp [tokenOf, he, hd]⟩

theorem spec_isPaused (k : Bytes) (c : Ctx) :
    Post (isPaused k) c (fun p c' => c'.accts = c.accts ∧ p = pausedIn c.accts k) := by
  unfold isPaused
  apply Post.bind
  apply Post.mono (spec_readKey _ _ c)
  intro v c1 ⟨h1, hv⟩
  subst hv
  exact Post.pure ⟨h1, rfl⟩

theorem spec_checkFrozeAndPause (addr key : Bytes) (t : Token) (rae : Bool) (c : Ctx) :
    Post (checkFrozeAndPause addr key t rae) c (fun _ c' => c'.accts = c.accts ∧ GateOpen c.accts addr key t rae) := by
  unfold checkFrozeAndPause
  split
  · rename_i hr; exact Post.pure ⟨rfl, fun h => by simp [hr] at h⟩
  · split
    · rename_i ha; exact Post.pure ⟨rfl, fun _ h => absurd ha h⟩
    · apply Post.bind
      apply Post.guardE
      intro hfro
      apply Post.bind
      apply Post.mono (spec_isPaused key c)
      intro p c1 ⟨h1, hp⟩
      apply Post.guardE
      intro hp2
      refine ⟨h1, fun _ _ => ⟨hfro, ?_⟩⟩
      rw [← hp]; exact hp2

theorem spec_saveESDTData (a : Bytes) (t : Token) (k : Bytes) (c : Ctx) :
    Post (saveESDTData a t k) c (fun _ c' => t.value.isSome = true ∧ c'.accts = c.accts.write a k (storedForm t)) := by
  unfold saveESDTData
  apply Post.bind
  apply Post.deref
  intro v hv
  split
  · rename_i hz
    apply Post.mono (spec_writeKey a k [] c)
    intro _ c1 h1
    refine ⟨by simp [hv], ?_⟩
    rw [h1]; simp [storedForm, hv, hz.1, hz.2]
  · rename_i hz
    apply Post.bind
    apply Post.mono (spec_marshalToken t c)
    intro b c1 ⟨h1, hb⟩
    apply Post.mono (spec_writeKey a k b c1)
    intro _ c2 h2
    refine ⟨by simp [hv], ?_⟩
    rw [h2, h1, hb]
    have : ¬ (t.value = some 0 ∧ allZero t.properties = true) := by
      intro h; apply hz; rw [hv] at h; exact ⟨by simpa using h.1, h.2⟩
    simp [storedForm, this]

/-- `addToESDTBalance`: the entry must be fungible, the gate open, the new value non-negative; the entry is replaced by
    the stored form of the old token with `Value := old + delta`; nothing else changes -/
theorem spec_addToESDTBalance (a k : Bytes) (d : Int) (rae : Bool) (c : Ctx) :
    Post (addToESDTBalance a k d rae) c (fun _ c' =>
      ∃ t v, tokenOf (c.accts.read a k) = some t ∧ t.type = 0 ∧ t.value = some v ∧ 0 ≤ v + d ∧
        GateOpen c.accts a k t rae ∧
        c'.accts = c.accts.write a k (storedForm { t with value := some (v + d) })) := by
  unfold addToESDTBalance
  apply Post.bind
  apply Post.mono (spec_getESDTDataFromKey a k c)
  intro t c1 ⟨h1, ht⟩
  apply Post.bind
  apply Post.guardE
  intro hty
  apply Post.bind
  apply Post.mono (spec_checkFrozeAndPause a k t rae c1)
  intro _ c2 ⟨h2, hgate⟩
  apply Post.bind
  apply Post.deref
  intro v hv
  apply Post.bind
  apply Post.guardE
  intro hneg
  apply Post.mono (spec_saveESDTData a _ k c2)
  intro _ c3 ⟨_, h3⟩
  refine ⟨t, v, ht, by simpa using hty, hv, by simpa using hneg, by rw [← h1]; exact hgate, ?_⟩
  rw [h3, h2, h1]

end Esdt

namespace Esdt

def mdNonce (t : Token) : Nat := match t.md with | some m => m.nonce | none => 0

theorem spec_getNFTOnDestination (a tk : Bytes) (n : Nat) (c : Ctx) :
    Post (getNFTOnDestination a tk n) c (fun r c' => c'.accts = c.accts ∧
      tokenOf (c.accts.read a (nftKey tk n)) = some r.1 ∧ r.2 = decide (c.accts.read a (nftKey tk n) = [])) := by
  unfold getNFTOnDestination
  apply Post.bind
  apply Post.mono (spec_readKey a _ c)
  intro raw c1 ⟨h1, hraw⟩
  subst hraw
  split
  · rename_i he; exact Post.pure ⟨h1, by simp [tokenOf, he], by simp [he]⟩
  · rename_i he
    apply Post.bind
    apply Post.mono (spec_unmarshalToken _ c1)
    intro t c2 ⟨h2, hd⟩
    exact Post.pure ⟨by rw [h2, h1], by simp [tokenOf, he, hd], by simp [he]⟩

/-- sender-side lookup: the entry exists, decodes, and belongs to the nonce that was asked for -/
theorem spec_getNFTOnSender (a tk : Bytes) (n : Nat) (c : Ctx) :
    Post (getNFTOnSender a tk n) c (fun t c' => c'.accts = c.accts ∧
      c.accts.read a (nftKey tk n) ≠ [] ∧ decToken (c.accts.read a (nftKey tk n)) = some t ∧
      (0 < n → t.md.isSome = true) ∧ (∀ m, t.md = some m → m.nonce = 0 ∨ m.nonce = n)) := by
  unfold getNFTOnSender
  apply Post.bind
  apply Post.mono (spec_getNFTOnDestination a tk n c)
  intro r c1 ⟨h1, ht, hnew⟩
  obtain ⟨t, isNew⟩ := r
  simp only at ht hnew
  apply Post.bind
  apply Post.guardE
  intro hn
  subst hnew
  have hne : c.accts.read a (nftKey tk n) ≠ [] := by simpa using hn
  apply Post.bind
  apply Post.guardE
  intro hmd
  have hdec : decToken (c.accts.read a (nftKey tk n)) = some t := by simpa [tokenOf, hne] using ht
  apply Post.bind
  apply Post.guardE
  intro hnon
  refine Post.pure ⟨h1, hne, hdec, ?_, ?_⟩
  · intro hpos
    simp only [decide_eq_false_iff_not, not_and] at hmd
    have := hmd hpos
    cases hmdv : t.md with
    | none => simp [hmdv] at this
    | some m => rfl
  · intro m hm
    rw [hm] at hnon
    simp only [ne_eq, decide_eq_false_iff_not, not_and, Decidable.not_not] at hnon
    by_cases h0 : m.nonce = 0
    · exact Or.inl h0
    · exact Or.inr (hnon h0)

/-- `saveESDTNFTToken`: both gates (token key and nonce key) open, the entry under token‖nonce replaced by the stored form -/
theorem spec_saveNFT (a tk : Bytes) (t : Token) (rae : Bool) (c : Ctx) :
    Post (saveNFT a tk t rae) c (fun b c' =>
      t.value.isSome = true ∧ GateOpen c.accts a tk t rae ∧ GateOpen c.accts a (nftKey tk (mdNonce t)) t rae ∧
      b = nftStoredForm t ∧ c'.accts = c.accts.write a (nftKey tk (mdNonce t)) (nftStoredForm t)) := by
  unfold saveNFT
  apply Post.bind
  apply Post.mono (spec_checkFrozeAndPause a tk t rae c)
  intro _ c1 ⟨h1, hg1⟩
  show Post (do
      checkFrozeAndPause a (nftKey tk (mdNonce t)) t rae
      let v ← deref t.value
      if v ≤ 0 then do writeKey a (nftKey tk (mdNonce t)) []; pure []
      else do let b ← marshalToken t; writeKey a (nftKey tk (mdNonce t)) b; pure b) c1 _
  apply Post.bind
  apply Post.mono (spec_checkFrozeAndPause a _ t rae c1)
  intro _ c2 ⟨h2, hg2⟩
  rw [h1] at hg2
  apply Post.bind
  apply Post.deref
  intro v hv
  split
  · rename_i hle
    apply Post.bind
    apply Post.mono (spec_writeKey a _ [] c2)
    intro _ c3 h3
    refine Post.pure ⟨by simp [hv], hg1, hg2, by simp [nftStoredForm, hv, hle], ?_⟩
    rw [h3, h2, h1]; simp [nftStoredForm, hv, hle]
  · rename_i hle
    apply Post.bind
    apply Post.mono (spec_marshalToken t c2)
    intro b c3 ⟨h3, hb⟩
    apply Post.bind
    apply Post.mono (spec_writeKey a _ b c3)
    intro _ c4 h4
    refine Post.pure ⟨by simp [hv], hg1, hg2, by simp [nftStoredForm, hv, hle, hb], ?_⟩
    rw [h4, h3, h2, h1, hb]; simp [nftStoredForm, hv, hle]

theorem spec_verifyPayable (env : Env) (a : Bytes) (c : Ctx) :
    Post (verifyPayable env a) c (fun _ c' => c'.accts = c.accts ∧ env.payable a = .yes) := by
  unfold verifyPayable
  apply Post.bind
  apply Post.mono (RO.tick .p c)
  intro _ c1 h1
  split
  · rename_i h; exact Post.pure ⟨h1, h⟩
  · exact Post.fail
  · exact Post.fail

theorem spec_verifyPayableIf (env : Env) (mv : Bool) (a : Bytes) (c : Ctx) :
    Post (verifyPayableIf env mv a) c (fun _ c' => c'.accts = c.accts ∧ (mv = true → env.payable a = .yes)) := by
  unfold verifyPayableIf
  split
  · exact Post.mono (spec_verifyPayable env a c) (fun _ _ ⟨x, y⟩ => ⟨x, fun _ => y⟩)
  · rename_i h; exact Post.pure ⟨rfl, fun h' => absurd h' h⟩

theorem spec_checkSameHash (cur t : Token) (c : Ctx) :
    Post (checkSameHash cur t) c (fun _ c' => c' = c ∧ ∀ cm, cur.md = some cm → ∃ tm, t.md = some tm ∧ cm.hash = tm.hash) := by
  unfold checkSameHash
  split
  · rename_i cm hcm
    split
    · rename_i tm htm
      apply Post.guardE
      intro hh
      refine ⟨rfl, fun cm' hcm' => ?_⟩
      rw [hcm] at hcm'
      cases hcm'
      exact ⟨tm, htm, by simpa using hh⟩
    · exact Post.fail
  · rename_i hcm
    exact Post.pure ⟨rfl, fun cm' hcm' => by rw [hcm] at hcm'; cases hcm'⟩

/-- `addNFTToDestination`: payability verified when required, the destination's current entry under
    token‖nonce read, gate open, same hash if it carries metadata; the entry is replaced by the transferred token with
    `Value := transferred + existing` -/
theorem spec_addNFTToDestination (env : Env) (dst : Bytes) (t : Token) (tk : Bytes) (mv rae : Bool) (c : Ctx) :
    Post (addNFTToDestination env dst t tk mv rae) c (fun t' c' =>
      ∃ cur tv cv, tokenOf (c.accts.read dst (nftKey tk (mdNonce t))) = some cur ∧
        (mv = true → env.payable dst = .yes) ∧ GateOpen c.accts dst tk cur rae ∧
        (∀ cm, cur.md = some cm → ∃ tm, t.md = some tm ∧ cm.hash = tm.hash) ∧
        t.value = some tv ∧ cur.value = some cv ∧ t' = { t with value := some (tv + cv) } ∧
        GateOpen c.accts dst tk t' rae ∧
        c'.accts = c.accts.write dst (nftKey tk (mdNonce t)) (nftStoredForm t')) := by
  unfold addNFTToDestination
  apply Post.bind
  apply Post.mono (spec_verifyPayableIf env mv dst c)
  intro _ c1 ⟨h1, hp⟩
  show Post (do
      let r ← getNFTOnDestination dst tk (mdNonce t)
      match r with
      | (cur, _) => do
        checkFrozeAndPause dst tk cur rae
        checkSameHash cur t
        let tv ← deref t.value
        let cv ← deref cur.value
        let _ ← saveNFT dst tk { t with value := some (tv + cv) } rae
        pure { t with value := some (tv + cv) }) c1 _
  apply Post.bind
  apply Post.mono (spec_getNFTOnDestination dst tk (mdNonce t) c1)
  intro r c2 ⟨h2, hcur, _⟩
  obtain ⟨cur, isNew⟩ := r
  simp only at hcur ⊢
  rw [h1] at hcur
  apply Post.bind
  apply Post.mono (spec_checkFrozeAndPause dst tk cur rae c2)
  intro _ c3 ⟨h3, hg⟩
  rw [h2, h1] at hg
  apply Post.bind
  apply Post.mono (spec_checkSameHash cur t c3)
  intro _ c4 ⟨h4, hhs⟩
  subst h4
  apply Post.bind
  apply Post.deref
  intro tv htv
  apply Post.bind
  apply Post.deref
  intro cv hcv
  apply Post.bind
  apply Post.mono (spec_saveNFT dst tk _ rae c4)
  intro _ c5 ⟨_, hg1, _, _, h5⟩
  apply Post.pure
  refine ⟨cur, tv, cv, hcur, hp, hg, hhs, htv, hcv, rfl, ?_, ?_⟩
  · rw [h3, h2, h1] at hg1; exact hg1
  · rw [h5, h3, h2, h1]
    rfl

end Esdt
