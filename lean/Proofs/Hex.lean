/-
  Proofs/Hex.lean — hex round trip, '@'-tokenisation of encoded calls.
-/
import Model.Parsers
namespace Esdt

theorem hexVal_hexDigit : ∀ n : Fin 16, hexVal (hexDigit n.val) = some n.val := by decide

theorem hexVal_hexDigit' (n : Nat) (h : n < 16) : hexVal (hexDigit n) = some n :=
  hexVal_hexDigit ⟨n, h⟩

theorem hexDigit_ne_at : ∀ n : Fin 16, hexDigit n.val ≠ at' := by decide

theorem hexDigit_ne_at' (n : Nat) (h : n < 16) : hexDigit n ≠ at' := hexDigit_ne_at ⟨n, h⟩

theorem byte_recompose (b : UInt8) : UInt8.ofNat (b.toNat / 16 * 16 + b.toNat % 16) = b := by
  rw [Nat.div_add_mod']
  exact UInt8.ofNat_toNat

theorem byte_div_lt (b : UInt8) : b.toNat / 16 < 16 := by
  have := b.toNat_lt
  omega

@[simp] theorem hexDecode_hexEncode (b : Bytes) : hexDecode (hexEncode b) = some b := by
  induction b with
  | nil => rfl
  | cons x rest ih =>
    simp only [hexEncode, hexDecode]
    rw [hexVal_hexDigit' _ (byte_div_lt x), hexVal_hexDigit' _ (Nat.mod_lt _ (by decide))]
    simp only [ih, byte_recompose]

/-- no '@' inside a hex-encoded argument -/
theorem at_not_mem_hexEncode (b : Bytes) : at' ∉ hexEncode b := by
  induction b with
  | nil => simp [hexEncode]
  | cons x rest ih =>
    simp only [hexEncode, List.mem_cons, not_or]
    exact ⟨fun h => hexDigit_ne_at' _ (byte_div_lt x) h.symm,
           fun h => hexDigit_ne_at' _ (Nat.mod_lt _ (by decide)) h.symm, ih⟩

theorem splitAt_ne_nil (s : Bytes) : splitAt s ≠ [] := by
  induction s with
  | nil => simp [splitAt]
  | cons c rest ih =>
    simp only [splitAt]
    split
    · simp
    · split <;> simp

/-- a separator-free prefix stays in the first token -/
theorem splitAt_append_noAt (p : Bytes) (hp : at' ∉ p) (rest : Bytes) :
    splitAt (p ++ at' :: rest) = p :: splitAt rest := by
  induction p with
  | nil => simp [splitAt]
  | cons c p ih =>
    have hc : c ≠ at' := fun h => hp (by simp [h])
    have hp' : at' ∉ p := fun h => hp (by simp [h])
    simp only [List.cons_append, splitAt, hc, if_false, ih hp']

theorem splitAt_noAt (p : Bytes) (hp : at' ∉ p) : splitAt p = [p] := by
  induction p with
  | nil => simp [splitAt]
  | cons c p ih =>
    have hc : c ≠ at' := fun h => hp (by simp [h])
    have hp' : at' ∉ p := fun h => hp (by simp [h])
    simp only [splitAt, hc, if_false, ih hp']

def argsTail (args : List Bytes) : Bytes := args.flatMap fun a => at' :: hexEncode a

theorem splitAt_tokens (p : Bytes) (hp : at' ∉ p) (args : List Bytes) :
    splitAt (p ++ argsTail args) = p :: args.map hexEncode := by
  induction args generalizing p with
  | nil => simp [argsTail, splitAt_noAt p hp]
  | cons a rest ih =>
    have : p ++ argsTail (a :: rest) = p ++ at' :: (hexEncode a ++ argsTail rest) := by
      simp [argsTail]
    rw [this, splitAt_append_noAt p hp, ih (hexEncode a) (at_not_mem_hexEncode a)]
    simp

theorem decodeAll_map_hexEncode (args : List Bytes) : decodeAll (args.map hexEncode) = some args := by
  induction args with
  | nil => rfl
  | cons a rest ih => simp [decodeAll, ih]

/-- C12 / C10: parsing what the builder (and the built-ins' own encoder) produced gives back
    exactly the function name and the arguments. -/
theorem parseCall_encodeCall (fn : Bytes) (args : List Bytes) (hne : fn ≠ []) (hat : at' ∉ fn) :
    parseCall (encodeCall fn args) = .ok (fn, args) := by
  have h : splitAt (encodeCall fn args) = fn :: args.map hexEncode := splitAt_tokens fn hat args
  simp [parseCall, tokenize, h, hne, decodeAll_map_hexEncode]

end Esdt
