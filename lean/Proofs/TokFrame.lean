/-
  Proofs/TokFrame.lean — the functions that are NOT about balances leave every per-key sum of balances alone.
  `J A0 A` ("A still has the token ledger of A0"): one record per address, metadata nonces positive, and for every token key
  the shard's sum of balances is what it was in `A0`.  It is preserved by every primitive except a storage write under a
  token key; so ClaimDeveloperRewards, ChangeOwnerAddress, SetUserName, SaveKeyValue (protected keys refused), ESDTSetRole /
  ESDTUnSetRole (role key only), ESDTNFTCreateRoleTransfer (role and counter keys only) preserve it — whoever calls them
  with whatever arguments.  ESDTNFTAddURI / ESDTNFTUpdateAttributes rewrite an entry with its value kept (exact-effect
  lemmas), ESDTPause / ESDTUnPause write the flag pair into the system account (worth 0 as a balance).
  Used by the one world that mixes all 23 functions (Proofs/Unified.lean).
-/
import Proofs.Base
import Proofs.SupplyHistory
namespace Esdt

/-- replacing one account's record by one with the same storage does not move any sum of balances -/
theorem balAt_set_store (A : Accts) (hn : A.Nodup) (a : Bytes) (x : Acct) (hx : x.store = (A.get a).store) (k : Bytes) :
    balAt (A.set a x) k = balAt A k := by
  have h1 := balAt_split A hn a k
  have h2 := balAt_split (A.set a x) (Accts.set_nodup A hn a x) a k
  have hf : (A.set a x).filter (fun p => p.1 ≠ a) = A.filter (fun p => p.1 ≠ a) := by
    unfold Accts.set
    simp only [List.filter]
    have : decide (a ≠ a) = false := by simp
    rw [this, List.filter_filter]
    simp
  rw [hf, Accts.get_set_same, hx] at h2
  omega

theorem mdpos_set_store {A : Accts} (a : Bytes) (x : Acct) (hx : x.store = (A.get a).store) (hA : MdPos A) :
    MdPos (A.set a x) := by
  intro a2 k2 t m hk hne hdec hm
  rw [read_set_fields A a x hx] at hne hdec
  exact hA a2 k2 t m hk hne hdec hm

/-- `A` still has the token ledger of `A0` -/
def J (A0 A : Accts) : Prop := A.Nodup ∧ MdPos A ∧ ∀ k, TokKey k → balAt A k = balAt A0 k

theorem J.refl {A : Accts} (hn : A.Nodup) (hm : MdPos A) : J A A := ⟨hn, hm, fun _ _ => rfl⟩

theorem J.write {A0 A : Accts} (h : J A0 A) (a k v : Bytes) (hk : ¬ TokKey k) : J A0 (A.write a k v) := by
  obtain ⟨hn, hm, hb⟩ := h
  refine ⟨Accts.write_nodup A hn a k v, mdpos_write_nontok a k v hm hk, fun k2 hk2 => ?_⟩
  have hne : ¬ k = k2 := fun he => hk (by rw [he]; exact hk2)
  rw [balAt_write A hn, if_neg hne, hb k2 hk2]; omega

theorem J.set {A0 A : Accts} (h : J A0 A) (a : Bytes) (x : Acct) (hx : x.store = (A.get a).store) : J A0 (A.set a x) := by
  obtain ⟨hn, hm, hb⟩ := h
  exact ⟨Accts.set_nodup A hn a x, mdpos_set_store a x hx hm, fun k hk => by rw [balAt_set_store A hn a x hx, hb k hk]⟩

/-- `I` survives every storage write under a key that is not a token key, and every change of account-level fields -/
structure NTC (I : Accts → Prop) : Prop where
  write : ∀ A a k v, ¬ TokKey k → I A → I (A.write a k v)
  set : ∀ A a x, x.store = (A.get a).store → I A → I (A.set a x)

theorem ntc_J (A0 : Accts) : NTC (J A0) := ⟨fun _ a k v hk h => h.write a k v hk, fun _ a x hx h => h.set a x hx⟩

section
variable {I : Accts → Prop}

theorem NTC.writeKey (hI : NTC I) (a k v : Bytes) (hk : ¬ TokKey k) : Pres I (writeKey a k v) := by
  unfold Esdt.writeKey
  refine Pres.bind (Pres.of_ro (RO.tick _)) (fun _ => ?_)
  intro c hs
  unfold Post; intro x' c' h
  simp only [Res.ok.injEq, Prod.mk.injEq] at h
  rw [← h.2]; exact hI.write _ a k v hk hs

theorem NTC.setOwner (hI : NTC I) (a v : Bytes) : Pres I (setOwner a v) := by
  intro c hs
  unfold Post; intro x' c' h
  simp only [Esdt.setOwner, Res.ok.injEq, Prod.mk.injEq] at h
  rw [← h.2]; exact hI.set _ a _ rfl hs
theorem NTC.setName (hI : NTC I) (a v : Bytes) : Pres I (setName a v) := by
  intro c hs
  unfold Post; intro x' c' h
  simp only [Esdt.setName, Res.ok.injEq, Prod.mk.injEq] at h
  rw [← h.2]; exact hI.set _ a _ rfl hs
theorem NTC.setReward (hI : NTC I) (a : Bytes) (v : Int) : Pres I (setReward a v) := by
  intro c hs
  unfold Post; intro x' c' h
  simp only [Esdt.setReward, Res.ok.injEq, Prod.mk.injEq] at h
  rw [← h.2]; exact hI.set _ a _ rfl hs
theorem NTC.setBalance (hI : NTC I) (a : Bytes) (v : Int) : Pres I (setBalance a v) := by
  intro c hs
  unfold Post; intro x' c' h
  simp only [Esdt.setBalance, Res.ok.injEq, Prod.mk.injEq] at h
  rw [← h.2]; exact hI.set _ a _ rfl hs
end

macro_rules | `(tactic| pz_spec) => `(tactic| exact NTC.setOwner ‹NTC _› _ _)
macro_rules | `(tactic| pz_spec) => `(tactic| exact NTC.setName ‹NTC _› _ _)
macro_rules | `(tactic| pz_spec) => `(tactic| exact NTC.setReward ‹NTC _› _ _)
macro_rules | `(tactic| pz_spec) => `(tactic| exact NTC.setBalance ‹NTC _› _ _)
macro_rules | `(tactic| pz_spec) => `(tactic| exact NTC.writeKey ‹NTC _› _ _ _ (not_tokKey_role _))
macro_rules | `(tactic| pz_spec) => `(tactic| exact NTC.writeKey ‹NTC _› _ _ _ (not_tokKey_nonce _))

section
variable {I : Accts → Prop} (hI : NTC I)
include hI

theorem NTC.saveRoles (a tok : Bytes) (r : List Bytes) : Pres I (saveRoles a (roleKeyPrefix ++ tok) r) := by
  unfold Esdt.saveRoles; pz
theorem NTC.saveLatestNonce (a tok : Bytes) (n : Nat) : Pres I (saveLatestNonce a tok n) := by
  unfold Esdt.saveLatestNonce; pz
end
macro_rules | `(tactic| pz_spec) => `(tactic| exact NTC.saveRoles ‹NTC _› _ _ _)
macro_rules | `(tactic| pz_spec) => `(tactic| exact NTC.saveLatestNonce ‹NTC _› _ _ _)

theorem NTC.addCreateRole {I : Accts → Prop} (hI : NTC I) (a tok : Bytes) :
    Pres I (addCreateRole a (roleKeyPrefix ++ tok)) := by
  unfold Esdt.addCreateRole; pz
macro_rules | `(tactic| pz_spec) => `(tactic| exact NTC.addCreateRole ‹NTC _› _ _)

theorem Pres.guard_bind {I : Accts → Prop} {β} {b : Bool} {e : ErrKind} {f : Unit → M β}
    (hf : b = false → Pres I (f ())) : Pres I (guardE b e >>= f) := by
  intro c hs
  apply Post.bind
  apply Post.guardE
  intro hb
  exact hf hb c hs

section
variable {I : Accts → Prop} (hI : NTC I)
include hI

theorem NTC.claimDeveloperRewards (env : Env) (c : Call) : Pres I (claimDeveloperRewards env c) := by
  unfold Esdt.claimDeveloperRewards; pz
theorem NTC.changeOwnerAddress (env : Env) (c : Call) : Pres I (changeOwnerAddress env c) := by
  unfold Esdt.changeOwnerAddress; pz
theorem NTC.setUserName (env : Env) (c : Call) : Pres I (setUserName env c) := by
  unfold Esdt.setUserName; pz
theorem NTC.esdtRoles (s : Bool) (env : Env) (c : Call) : Pres I (esdtRoles s env c) := by
  unfold Esdt.esdtRoles; pz
theorem NTC.esdtNFTCreateRoleTransfer (env : Env) (c : Call) : Pres I (esdtNFTCreateRoleTransfer env c) := by
  unfold Esdt.esdtNFTCreateRoleTransfer; pz

/-! SaveKeyValue: a key that passes the guard is not a token key -/
theorem NTC.skvLoop (env : Env) (c : Call) : ∀ (n : Nat) (l : List Bytes) (g : Nat), l.length ≤ n →
    Pres I (skvLoop env c l g) := by
  intro n
  induction n with
  | zero =>
    intro l g hl
    have : l = [] := List.eq_nil_of_length_eq_zero (by omega)
    subst this; unfold Esdt.skvLoop; pz
  | succ n ih =>
    intro l g hl
    match l, hl with
    | [], _ => unfold Esdt.skvLoop; pz
    | [_], _ => unfold Esdt.skvLoop; pz
    | k :: v :: rest, hl =>
      unfold Esdt.skvLoop
      dsimp only
      apply Pres.guard_bind
      intro hal
      have hk : ¬ TokKey k := fun hk => by
        have := tokKey_not_allowed k hk
        rw [this] at hal; cases hal
      pz
      all_goals first
        | exact ih _ _ (by simp at hl; omega)
        | exact NTC.writeKey hI _ _ _ hk

theorem NTC.saveKeyValue (env : Env) (c : Call) : Pres I (saveKeyValue env c) := by
  unfold Esdt.saveKeyValue; pz
  exact NTC.skvLoop hI env c _ _ _ (Nat.le_refl _)
end

/-- the seven functions that never write under a token key -/
inductive PlainFn : FnId → Prop
  | claim : PlainFn .claimDeveloperRewards
  | owner : PlainFn .changeOwnerAddress
  | name : PlainFn .setUserName
  | skv : PlainFn .saveKeyValue
  | setRole : PlainFn .setRole
  | unSetRole : PlainFn .unSetRole
  | handOver : PlainFn .nftCreateRoleTransfer

/-- a successful call of one of them preserves every invariant that survives non-token writes -/
theorem plain_pres {I : Accts → Prop} (hI : NTC I) {f : FnId} (hf : PlainFn f) (env : Env) (c : Call) (ctx ctx' : Ctx)
    (out : VMOutput) (h0 : I ctx.accts) (h : exec env f c ctx = .ok (out, ctx')) : I ctx'.accts := by
  unfold exec at h
  cases hf <;> simp only [runFn] at h
  · exact (NTC.claimDeveloperRewards hI env c _ h0).elim h
  · exact (NTC.changeOwnerAddress hI env c _ h0).elim h
  · exact (NTC.setUserName hI env c _ h0).elim h
  · exact (NTC.saveKeyValue hI env c _ h0).elim h
  · exact (NTC.esdtRoles hI true env c _ h0).elim h
  · exact (NTC.esdtRoles hI false env c _ h0).elim h
  · exact (NTC.esdtNFTCreateRoleTransfer hI env c _ h0).elim h

/-- a successful call of one of them leaves every per-key sum of balances (and the metadata-nonce invariant) alone -/
theorem plain_step {f : FnId} (hf : PlainFn f) (env : Env) (c : Call) (A : Accts) (out : VMOutput) (ctx' : Ctx)
    (hn : A.Nodup) (hm : MdPos A) (h : exec env f c { accts := A } = .ok (out, ctx')) :
    MdPos ctx'.accts ∧ ∀ k, TokKey k → balAt ctx'.accts k = balAt A k := by
  have key : J A ctx'.accts := plain_pres (ntc_J A) hf env c { accts := A } ctx' out (J.refl hn hm) h
  exact ⟨key.2.1, key.2.2⟩

/-! ### ESDTNFTAddURI / ESDTNFTUpdateAttributes: the entry is rewritten with its value kept -/

theorem addURI_nonce (env : Env) (c : Call) (ctx : Ctx) :
    Post (esdtNFTAddURI env c) ctx (fun _ _ => ∀ tok nb t m, c.args[0]? = some tok → c.args[1]? = some nb →
      decToken (ctx.accts.read c.caller (nftKey (esdtKeyPrefix ++ tok) (u64 (beNat nb)))) = some t → t.md = some m →
      m.nonce = 0 ∨ m.nonce = u64 (beNat nb)) := by
  unfold esdtNFTAddURI checkCreateBurnAdd checkBasic
  xsteps
  rename_i tok0 ha0
  apply Post.mono (ro_checkAllowed _ _ _ ctx)
  intro _ c1 h1
  xsteps
  rename_i nb0 ha1 _
  apply Post.mono (spec_getNFTOnSender _ _ _ c1)
  intro t c2 ⟨_, _, hdec, _, hnon⟩
  apply Post.intro
  intro _ _ tok nb t' m h0 h1' hdec' hm
  rw [ha0] at h0; cases h0
  rw [ha1] at h1'; cases h1'
  rw [h1, hdec'] at hdec; cases hdec
  exact hnon m hm

theorem updateAttributes_nonce (env : Env) (c : Call) (ctx : Ctx) :
    Post (esdtNFTUpdateAttributes env c) ctx (fun _ _ => ∀ tok nb t m, c.args[0]? = some tok → c.args[1]? = some nb →
      decToken (ctx.accts.read c.caller (nftKey (esdtKeyPrefix ++ tok) (u64 (beNat nb)))) = some t → t.md = some m →
      m.nonce = 0 ∨ m.nonce = u64 (beNat nb)) := by
  unfold esdtNFTUpdateAttributes checkCreateBurnAdd checkBasic
  xsteps
  rename_i tok0 ha0
  apply Post.mono (ro_checkAllowed _ _ _ ctx)
  intro _ c1 h1
  xsteps
  rename_i nb0 ha1 _
  apply Post.mono (spec_getNFTOnSender _ _ _ c1)
  intro t c2 ⟨_, _, hdec, _, hnon⟩
  apply Post.intro
  intro _ _ tok nb t' m h0 h1' hdec' hm
  rw [ha0] at h0; cases h0
  rw [ha1] at h1'; cases h1'
  rw [h1, hdec'] at hdec; cases hdec
  exact hnon m hm

/-- a metadata rewrite keeps the per-key sums and the metadata-nonce invariant -/
theorem metaWrite_step {A A' : Accts} {a tok : Bytes} {n : Nat} {t : Token} {m m' : MetaData}
    (hw : MetaWrite A A' a (esdtKeyPrefix ++ tok) n t m m') (hn : A.Nodup) (hC : Canon A) (hM : MdPos A) (hS' : Short A')
    (hsys : a ≠ systemAccountAddress) (hnon : m.nonce = 0 ∨ m.nonce = n)
    (hroy : m'.royalties = m.royalties) :
    MdPos A' ∧ ∀ k, balAt A' k = balAt A k := by
  have hpos : m.nonce ≠ 0 := hM _ _ t m (tokKey_nft _ _) hw.present hw.old hw.hasMeta
  have hmn : m.nonce = n := by
    rcases hnon with h | h
    · exact absurd h hpos
    · exact h
  have hnum : NumOK t := decToken_num _ _ hw.old
  have hnum' : NumOK { t with md := some m' } := by
    refine ⟨hnum.type, fun m1 hm1 => ?_⟩
    have : m1 = m' := by simpa using hm1.symm
    subst this
    have := hnum.md m hw.hasMeta
    rw [hw.sameNonce, hroy]; exact this
  have hwr : A' = A.write a (nftKey (esdtKeyPrefix ++ tok) n) (nftStoredForm { t with md := some m' }) := by
    rw [hw.written, hmn]
  have hl := hS' a (nftKey (esdtKeyPrefix ++ tok) n)
  rw [hwr, Accts.read_write, if_pos ⟨rfl, rfl⟩] at hl
  refine ⟨?_, fun k => ?_⟩
  · rw [hwr]
    exact mdpos_write_nft _ _ _ hM hnum' hl (fun md hmd => by
      have : md = m' := by simpa using hmd.symm
      subst this
      rw [hw.sameNonce]; exact hpos)
  · rw [hwr, balAt_write A hn]
    split
    · rename_i hk
      rcases hC a _ (tokKey_nft tok n) hsys with he | ⟨t1, hd1, hwf⟩
      · exact absurd he hw.present
      · rw [hw.old] at hd1; cases hd1
        obtain ⟨v, hv, hvv⟩ := hwf.value
        have h0 : 0 ≤ v := by rcases hvv with h | ⟨h, _⟩ <;> omega
        rw [balOf_nftStoredForm_len _ v (by simpa using hv) h0 hnum' hl, balOf_dec hw.present hw.old hv]
        omega
    · omega

/-! ### ESDTPause / ESDTUnPause: the flag pair goes into the system account -/

theorem pause_effect (p : Bool) (env : Env) (c : Call) (ctx : Ctx) :
    Post (esdtPause p env c) ctx (fun _ ctx' => ∃ tok, c.args[0]? = some tok ∧
      ctx'.accts = ctx.accts.write systemAccountAddress (esdtKeyPrefix ++ tok) (flagBytes p)) := by
  unfold esdtPause loadAcct saveAcct
  xsteps
  apply Post.mono (RO.tick _ ctx)
  intro _ c1 h1
  xsteps
  apply Post.mono (spec_writeKey _ _ _ c1)
  intro _ c2 h2
  xsteps
  apply Post.mono (RO.tick _ c2)
  intro _ c3 h3
  apply Post.pure
  exact ⟨_, ‹c.args[0]? = some _›, by rw [h3, h2, h1]⟩

theorem balOf_flagBytes (p : Bool) : balOf (flagBytes p) = 0 := by cases p <;> decide
theorem decToken_flagBytes (p : Bool) : decToken (flagBytes p) = none := by cases p <;> decide

/-- pausing / un-pausing replaces whatever the system account stored under the token's key by the flag pair: as a
    balance that is worth 0 — the per-key sum of the shard falls by what the system account's slot was worth before
    (nothing, unless somebody had sent tokens to the system account itself) -/
theorem pause_step (p : Bool) (env : Env) (c : Call) (A : Accts) (out : VMOutput) (ctx' : Ctx)
    (hn : A.Nodup) (hM : MdPos A) (h : esdtPause p env c { accts := A } = .ok (out, ctx')) :
    ∃ tok, c.args[0]? = some tok ∧ MdPos ctx'.accts ∧
      ∀ k, balAt ctx'.accts k = balAt A k -
        (if esdtKeyPrefix ++ tok = k then balOf (A.read systemAccountAddress k) else 0) := by
  obtain ⟨tok, h0, hw⟩ := (pause_effect p env c { accts := A }).elim h
  simp only at hw
  refine ⟨tok, h0, ?_, fun k => ?_⟩
  · rw [hw]
    intro a2 k2 t m hk2 hne hdec hm
    rw [Accts.read_write] at hne hdec
    split at hne
    · rename_i he
      rw [if_pos he, decToken_flagBytes] at hdec
      cases hdec
    · rename_i he
      rw [if_neg he] at hdec
      exact hM a2 k2 t m hk2 hne hdec hm
  · rw [hw, balAt_write A hn, balOf_flagBytes]
    split
    · rename_i hk; subst hk; omega
    · omega

end Esdt
