/-
  Proofs/Metadata.lean — exact effect of the metadata-changing functions and of the sender side of ESDTNFTTransfer.
-/
import Proofs.Nonce
namespace Esdt

/-- the caller's entry under token‖nonce rewritten with new metadata, everything else of the entry kept -/
structure MetaWrite (A A' : Accts) (a tk : Bytes) (n : Nat) (t : Token) (m m' : MetaData) : Prop where
  present : A.read a (nftKey tk n) ≠ []
  old : decToken (A.read a (nftKey tk n)) = some t
  hasMeta : t.md = some m
  sameNonce : m'.nonce = m.nonce
  written : A' = A.write a (nftKey tk m.nonce) (nftStoredForm { t with md := some m' })

/-- ESDTNFTAddURI: the caller holds the add-URI role, owns the entry, and the entry is rewritten with the given URIs
    appended to its list; no other field of the entry changes -/
theorem addURI_effect (env : Env) (c : Call) (ctx : Ctx) :
    Post (esdtNFTAddURI env c) ctx (fun _ ctx' => ∃ tok nb t m, c.args[0]? = some tok ∧ c.args[1]? = some nb ∧
      u64 (beNat nb) ≠ 0 ∧
      MetaWrite ctx.accts ctx'.accts c.caller (esdtKeyPrefix ++ tok) (u64 (beNat nb)) t m
        { m with uris := m.uris ++ c.args.drop 2 }) := by
  unfold esdtNFTAddURI checkCreateBurnAdd checkBasic
  xsteps
  apply Post.mono (ro_checkAllowed _ _ _ ctx)
  intro _ c1 h1
  xsteps
  apply Post.mono (spec_getNFTOnSender _ _ _ c1)
  intro t c2 ⟨h2, hne, hdec, _, _⟩
  xsteps
  apply Post.mono (spec_saveNFT _ _ _ _ c2)
  intro _ c3 ⟨_, _, _, _, h3⟩
  apply Post.pure
  rw [h1] at hne hdec
  have hn0 := of_decide_eq_false ‹decide (u64 (beNat _) = 0) = false›
  refine ⟨_, _, t, _, ‹c.args[0]? = some _›, ‹c.args[1]? = some _›, hn0, ⟨hne, hdec, ‹t.md = some _›, rfl, ?_⟩⟩
  rw [h3, h2, h1]; rfl

/-- ESDTNFTUpdateAttributes: the attributes are replaced by the third argument; no other field changes -/
theorem updateAttributes_effect (env : Env) (c : Call) (ctx : Ctx) :
    Post (esdtNFTUpdateAttributes env c) ctx (fun _ ctx' => ∃ tok nb attrs t m, c.args[0]? = some tok ∧
      c.args[1]? = some nb ∧ c.args[2]? = some attrs ∧ u64 (beNat nb) ≠ 0 ∧
      MetaWrite ctx.accts ctx'.accts c.caller (esdtKeyPrefix ++ tok) (u64 (beNat nb)) t m
        { m with attributes := attrs }) := by
  unfold esdtNFTUpdateAttributes checkCreateBurnAdd checkBasic
  xsteps
  apply Post.mono (ro_checkAllowed _ _ _ ctx)
  intro _ c1 h1
  xsteps
  apply Post.mono (spec_getNFTOnSender _ _ _ c1)
  intro t c2 ⟨h2, hne, hdec, _, _⟩
  xsteps
  apply Post.mono (spec_saveNFT _ _ _ _ c2)
  intro _ c3 ⟨_, _, _, _, h3⟩
  apply Post.pure
  rw [h1] at hne hdec
  have hn0 := of_decide_eq_false ‹decide (u64 (beNat _) = 0) = false›
  refine ⟨_, _, _, t, _, ‹c.args[0]? = some _›, ‹c.args[1]? = some _›, ‹c.args[2]? = some _›, hn0,
    ⟨hne, hdec, ‹t.md = some _›, rfl, ?_⟩⟩
  rw [h3, h2, h1]; rfl

/-- sender side of a cross-shard ESDTNFTTransfer: the sender's entry is rewritten with the value lowered by the
    quantity (all other fields kept), and the message to the destination carries, as its 4th argument, the encoding of the
    WHOLE entry with only `Value` replaced by the quantity; the first three arguments and everything after the 4th are the
    call's own -/
theorem nftTransferSender_crossShard_effect (env : Env) (c : Call) (ctx : Ctx)
    (hs : present env.nshards env.self c.caller = true)
    (hx : ∀ d, c.args[3]? = some d → env.self ≠ shardOf env.nshards d) :
    Post (esdtNFTTransferSender env c) ctx (fun out ctx' => ∃ tok nb qb dst t v, c.args[0]? = some tok ∧
      c.args[1]? = some nb ∧ c.args[2]? = some qb ∧ c.args[3]? = some dst ∧ u64 (beNat nb) ≠ 0 ∧ (beNat qb : Int) ≤ v ∧
      NftWrite ctx.accts ctx'.accts c.caller (esdtKeyPrefix ++ tok) (u64 (beNat nb)) t v (v - beNat qb) ∧
      ∃ tr, out.outAccts = [{ addr := dst, transfers := [tr] }] ∧
        tr.data = encodeCall fnESDTNFTTransfer (c.args.take 3 ++ [encToken { t with value := some (beNat qb : Int) }] ++
          (if c.args.length > 4 then c.args.drop 4 else []))) := by
  unfold esdtNFTTransferSender
  simp only [hs, Bool.not_true, Bool.false_eq_true, if_false]
  xsteps
  apply Post.mono (spec_getNFTOnSender _ _ _ ctx)
  intro t c1 ⟨h1, hne, hdec, hmd, _⟩
  xsteps
  apply Post.mono (spec_saveNFT _ _ _ _ c1)
  intro _ c2 ⟨_, _, _, _, h2⟩
  have hxx := hx _ ‹c.args[3]? = some _›
  simp only [hxx, decide_false, Bool.false_eq_true, if_false, Bool.not_false, if_true]
  xsteps
  apply Post.pure
  xsteps
  apply Post.mono (spec_marshalToken _ c2)
  intro b c3 ⟨h3, hb⟩
  xsteps
  apply Post.pure
  xsteps
  apply Post.pure
  have hn0 := of_decide_eq_false ‹decide (u64 (beNat _) = 0) = false›
  refine ⟨_, _, _, _, t, _, ‹c.args[0]? = some _›, ‹c.args[1]? = some _›, ‹c.args[2]? = some _›, ‹c.args[3]? = some _›,
    hn0, by simpa using ‹decide (_ < (beNat _ : Int)) = false›,
    ⟨hne, hdec, hmd (Nat.pos_of_ne_zero hn0), ‹t.value = some _›, ?_⟩, ?_⟩
  · rw [h3, h2, h1]; rfl
  · subst hb
    split <;> exact ⟨_, rfl, rfl⟩

end Esdt

namespace Esdt

/-- one item of the sender side of a multi transfer (`transferOneTokenOnSenderShard`): the sender's entry is rewritten
    with the value lowered by the quantity; what travels on is the WHOLE entry with only `Value` replaced — directly
    (destination on another shard) or merged into the destination's holding (same shard) -/
theorem transferOne_effect (env : Env) (c : Call) (l : Bool) (dst tok : Bytes) (n q : Nat) (verify : Bool) (ctx : Ctx) :
    Post (transferOne env c l dst tok n q verify) ctx (fun t' ctx' => ∃ t v A1, q ≠ 0 ∧ (q : Int) ≤ v ∧
      ctx.accts.read c.caller (nftKey (esdtKeyPrefix ++ tok) n) ≠ [] ∧
      decToken (ctx.accts.read c.caller (nftKey (esdtKeyPrefix ++ tok) n)) = some t ∧ t.value = some v ∧
      A1 = ctx.accts.write c.caller (nftKey (esdtKeyPrefix ++ tok) (mdNonce t)) (nftStoredForm { t with value := some (v - q) }) ∧
      (l = false → t' = { t with value := some (q : Int) } ∧ ctx'.accts = A1) ∧
      (l = true → ∃ cur cv, tokenOf (A1.read dst (nftKey (esdtKeyPrefix ++ tok) (mdNonce t))) = some cur ∧
        (∀ cm, cur.md = some cm → ∃ tm, t.md = some tm ∧ cm.hash = tm.hash) ∧ cur.value = some cv ∧
        t' = { t with value := some ((q : Int) + cv) } ∧
        ctx'.accts = A1.write dst (nftKey (esdtKeyPrefix ++ tok) (mdNonce t)) (nftStoredForm t'))) := by
  unfold transferOne
  xsteps
  apply Post.mono (spec_getNFTOnSender _ _ _ ctx)
  intro t c1 ⟨h1, hne, hdec, _, _⟩
  xstep; xstep; xstep; xstep; xstep
  rename_i v hv hlt
  xsteps
  apply Post.mono (spec_saveNFT _ _ _ _ c1)
  intro _ c2 ⟨_, _, _, _, h2⟩
  have hq := of_decide_eq_false ‹decide (q = 0) = false›
  have hle : (q : Int) ≤ v := by simpa using hlt
  have hA : c2.accts = ctx.accts.write c.caller (nftKey (esdtKeyPrefix ++ tok) (mdNonce t))
      (nftStoredForm { t with value := some (v - (q : Int)) }) := by rw [h2, h1]; rfl
  cases l
  · simp only [Bool.false_eq_true, if_false]
    apply Post.pure
    exact ⟨t, _, _, hq, hle, hne, hdec, ‹t.value = some _›, rfl, fun _ => ⟨rfl, hA⟩, fun h => by cases h⟩
  · simp only [if_true]
    apply Post.mono (spec_addNFTToDestination env dst _ _ _ _ c2)
    intro t' c3 ⟨cur, tv, cv, hcur, _, _, hh, htv, hcv, ht', _, hw⟩
    have : tv = (q : Int) := by simpa using htv.symm
    subst this
    refine ⟨t, _, _, hq, hle, hne, hdec, ‹t.value = some _›, rfl, fun h => (by cases h), fun _ => ⟨cur, cv, ?_, hh, hcv, ht', ?_⟩⟩
    · rw [← hA]; exact hcur
    · rw [← hA]; exact hw

/-- the payload built for the destination shard: an NFT item is sent as (token, nonce of its metadata, encoding of the
    whole token) -/
theorem multiPayloadLoop_head (env : Env) (tok : Bytes) (t : Token) (m : MetaData) (hm : t.md = some m)
    (rest : List (Bytes × Token)) (g : Nat) (ctx : Ctx) :
    Post (multiPayloadLoop env ((tok, t) :: rest) g) ctx (fun r _ =>
      ∃ args, r.1 = tok :: beBytes m.nonce :: encToken t :: args) := by
  unfold multiPayloadLoop
  simp only [hm]
  xsteps
  apply Post.mono (spec_marshalToken _ ctx)
  intro b c1 ⟨_, hb⟩
  xsteps
  apply Post.of_forall
  intro r c2 _
  obtain ⟨args, gr⟩ := r
  apply Post.pure
  exact ⟨args, by rw [hb]⟩

end Esdt

namespace Esdt

/-- ESDTNFTTransfer with the destination on the executing shard: the sender's entry is rewritten with the value lowered,
    then the destination's entry (read AFTER the debit) is replaced by the sender's whole entry with
    `Value := quantity + existing`, provided the destination holds no different hash under the same token and nonce -/
theorem nftTransferSender_sameShard_effect (env : Env) (c : Call) (ctx : Ctx)
    (hs : present env.nshards env.self c.caller = true)
    (hx : ∀ d, c.args[3]? = some d → env.self = shardOf env.nshards d) :
    Post (esdtNFTTransferSender env c) ctx (fun _ ctx' => ∃ tok nb qb dst t v A1 cur cv, c.args[0]? = some tok ∧
      c.args[1]? = some nb ∧ c.args[2]? = some qb ∧ c.args[3]? = some dst ∧ u64 (beNat nb) ≠ 0 ∧ (beNat qb : Int) ≤ v ∧
      NftWrite ctx.accts A1 c.caller (esdtKeyPrefix ++ tok) (u64 (beNat nb)) t v (v - beNat qb) ∧
      tokenOf (A1.read dst (nftKey (esdtKeyPrefix ++ tok) (mdNonce t))) = some cur ∧
      (∀ cm, cur.md = some cm → ∃ tm, t.md = some tm ∧ cm.hash = tm.hash) ∧ cur.value = some cv ∧
      ctx'.accts = A1.write dst (nftKey (esdtKeyPrefix ++ tok) (mdNonce t))
        (nftStoredForm { t with value := some ((beNat qb : Int) + cv) })) := by
  unfold esdtNFTTransferSender
  simp only [hs, Bool.not_true, Bool.false_eq_true, if_false]
  xsteps
  rename_i tok _ dst _ _ _ _ _ nb _ _
  apply Post.mono (spec_getNFTOnSender _ _ _ ctx)
  intro t c1 ⟨h1, hne, hdec, hmd, _⟩
  xstep; xstep; xstep; xstep; xstep; xstep; xstep
  rename_i qb _ v hv hlt
  xsteps
  apply Post.mono (spec_saveNFT _ _ _ _ c1)
  intro _ c2 ⟨_, _, _, _, h2⟩
  have hxx := hx _ ‹c.args[3]? = some _›
  simp only [hxx, decide_true, if_true, Bool.not_true, Bool.false_eq_true, if_false]
  xsteps
  apply Post.mono (ro_loadAcct c2)
  intro _ c3 h3a
  xsteps
  apply Post.mono (spec_addNFTToDestination env _ _ _ _ _ c3)
  intro t' c4 ⟨cur, tv, cv, hcur, _, _, hh, htv, hcv, ht', _, hw⟩
  injection htv with htv
  subst htv
  xsteps
  apply Post.mono (ro_saveAcct c4)
  intro _ c5 h5a
  xsteps
  apply Post.pure
  xsteps
  apply Post.mono (ro_marshalToken _ c5)
  intro b c6 h6
  have hn0 := of_decide_eq_false ‹decide (u64 (beNat _) = 0) = false›
  have hA : c2.accts = ctx.accts.write c.caller (nftKey (esdtKeyPrefix ++ tok) (mdNonce t))
      (nftStoredForm { t with value := some (v - (beNat qb : Int)) }) := by rw [h2, h1]; rfl
  have fin : ∃ tok nb qb dst t v A1 cur cv, c.args[0]? = some tok ∧
      c.args[1]? = some nb ∧ c.args[2]? = some qb ∧ c.args[3]? = some dst ∧ u64 (beNat nb) ≠ 0 ∧ (beNat qb : Int) ≤ v ∧
      NftWrite ctx.accts A1 c.caller (esdtKeyPrefix ++ tok) (u64 (beNat nb)) t v (v - beNat qb) ∧
      tokenOf (A1.read dst (nftKey (esdtKeyPrefix ++ tok) (mdNonce t))) = some cur ∧
      (∀ cm, cur.md = some cm → ∃ tm, t.md = some tm ∧ cm.hash = tm.hash) ∧ cur.value = some cv ∧
      c6.accts = A1.write dst (nftKey (esdtKeyPrefix ++ tok) (mdNonce t))
        (nftStoredForm { t with value := some ((beNat qb : Int) + cv) }) := by
    refine ⟨tok, nb, qb, dst, t, v, _, cur, cv, ‹c.args[0]? = some _›, ‹c.args[1]? = some _›, ‹c.args[2]? = some _›,
      ‹c.args[3]? = some _›, hn0, by simpa using hlt, ⟨hne, hdec, hmd (Nat.pos_of_ne_zero hn0), hv, hA⟩, ?_, hh, hcv, ?_⟩
    · rw [← h3a]; exact hcur
    · rw [h6, h5a, hw, h3a, ht']; rfl
  repeat' (first | xstep | apply Post.pure | split)
  all_goals exact fin

end Esdt

namespace Esdt

/-- with caller = receiver, ESDTNFTTransfer is its sender-side path behind two guards -/
theorem nftTransfer_sender_path (env : Env) (c : Call) (ctx : Ctx) (hself : c.caller = c.rcv) :
    Post (esdtNFTTransfer env c) ctx (fun out ctx' => esdtNFTTransferSender env c ctx = .ok (out, ctx')) := by
  unfold esdtNFTTransfer checkBasic
  simp only [hself, if_true]
  xsteps
  exact Post.of_forall (fun _ _ h => h)

end Esdt
