/-
  Proofs/Authority.lean — C03: role gates, system-only functions, owner / DNS checks, and the
  namespaces each function may write (refined footprints).
-/
import Proofs.FrameFn
import Proofs.Ledger
namespace Esdt

/-- the account holds `role` for `tok`: its stored role list decodes and contains the role -/
def HasRole (A : Accts) (a tok role : Bytes) : Prop :=
  A.read a (roleKeyPrefix ++ tok) ≠ [] ∧ ∃ roles, decRoles (A.read a (roleKeyPrefix ++ tok)) = some roles ∧ role ∈ roles

theorem spec_unmarshalRoles (b : Bytes) (c : Ctx) :
    Post (unmarshalRoles b) c (fun r c' => c'.accts = c.accts ∧ decRoles b = some r) := by
  unfold unmarshalRoles
  apply Post.bind
  apply Post.mono (RO.tick .u c)
  intro _ c1 h1
  split
  · rename_i t ht; exact Post.pure ⟨h1, ht⟩
  · exact Post.fail

theorem spec_checkAllowed (a tok role : Bytes) (c : Ctx) :
    Post (checkAllowed a tok role) c (fun _ c' => c'.accts = c.accts ∧ HasRole c.accts a tok role) := by
  unfold checkAllowed getRoles
  apply Post.bind
  apply Post.bind
  apply Post.mono (spec_readKey a _ c)
  intro raw c1 ⟨h1, hraw⟩
  subst hraw
  split
  · rename_i he
    apply Post.pure
    apply Post.bind
    apply Post.guardE
    intro h; simp at h
  · rename_i he
    apply Post.bind
    apply Post.mono (spec_unmarshalRoles _ c1)
    intro roles c2 ⟨h2, hd⟩
    apply Post.pure
    apply Post.bind
    apply Post.guardE
    intro _
    apply Post.guardE
    intro hc
    refine ⟨by rw [h2, h1], he, roles, hd, ?_⟩
    simpa using hc

/-- a role-gated function succeeded ⇒ the caller held the role for the token named in argument 0, in the pre-state -/
def RoleGated (role : Bytes) (c : Call) (ctx : Ctx) : VMOutput → Ctx → Prop :=
  fun _ _ => ∃ tok, c.args[0]? = some tok ∧ HasRole ctx.accts c.caller tok role

macro "role_gate" : tactic => `(tactic| (
  xsteps
  apply Post.mono (spec_checkAllowed _ _ _ _)
  intro _ _ hr
  apply Post.intro
  intro _ _
  exact ⟨_, ‹_ = some _›, hr.2⟩))

theorem gate_localMint (env : Env) (c : Call) (ctx : Ctx) :
    Post (esdtLocalMint env c) ctx (RoleGated roleLocalMint c ctx) := by
  unfold esdtLocalMint checkLocalAction checkBasic; role_gate
theorem gate_localBurn (env : Env) (c : Call) (ctx : Ctx) :
    Post (esdtLocalBurn env c) ctx (RoleGated roleLocalBurn c ctx) := by
  unfold esdtLocalBurn checkLocalAction checkBasic; role_gate
theorem gate_nftCreate (env : Env) (c : Call) (ctx : Ctx) :
    Post (esdtNFTCreate env c) ctx (RoleGated roleNFTCreate c ctx) := by
  unfold esdtNFTCreate checkCreateBurnAdd checkBasic; role_gate
theorem gate_nftAddQuantity (env : Env) (c : Call) (ctx : Ctx) :
    Post (esdtNFTAddQuantity env c) ctx (RoleGated roleNFTAddQuantity c ctx) := by
  unfold esdtNFTAddQuantity checkCreateBurnAdd checkBasic; role_gate
theorem gate_nftBurn (env : Env) (c : Call) (ctx : Ctx) :
    Post (esdtNFTBurn env c) ctx (RoleGated roleNFTBurn c ctx) := by
  unfold esdtNFTBurn checkCreateBurnAdd checkBasic; role_gate
theorem gate_nftAddURI (env : Env) (c : Call) (ctx : Ctx) :
    Post (esdtNFTAddURI env c) ctx (RoleGated roleNFTAddURI c ctx) := by
  unfold esdtNFTAddURI checkCreateBurnAdd checkBasic; role_gate
theorem gate_nftUpdateAttributes (env : Env) (c : Call) (ctx : Ctx) :
    Post (esdtNFTUpdateAttributes env c) ctx (RoleGated roleNFTUpdateAttributes c ctx) := by
  unfold esdtNFTUpdateAttributes checkCreateBurnAdd checkBasic; role_gate

theorem spec_checkAllowedIf (b : Bool) (a tok role : Bytes) (c : Ctx) :
    Post (checkAllowedIf b a tok role) c (fun _ c' => c'.accts = c.accts ∧ (b = true → HasRole c.accts a tok role)) := by
  unfold checkAllowedIf
  split
  · exact Post.mono (spec_checkAllowed a tok role c) (fun _ _ ⟨x, y⟩ => ⟨x, fun _ => y⟩)
  · rename_i h; exact Post.pure ⟨rfl, fun h' => absurd h' h⟩

/-- NFT create with quantity > 1 additionally needs the add-quantity role -/
theorem gate_nftCreate_quantity (env : Env) (c : Call) (ctx : Ctx) :
    Post (esdtNFTCreate env c) ctx (fun _ _ => ∀ q, c.args[1]? = some q → 1 < beNat q →
      ∃ tok, c.args[0]? = some tok ∧ HasRole ctx.accts c.caller tok roleNFTAddQuantity) := by
  unfold esdtNFTCreate checkCreateBurnAdd checkBasic
  xsteps
  apply Post.mono (spec_checkAllowed _ _ _ ctx)
  intro _ c1 ⟨h1, _⟩
  xsteps
  apply Post.mono (ro_getLatestNonce _ _ c1)
  intro raw c2 h2
  xsteps
  apply Post.mono (spec_checkAllowedIf _ _ _ _ c2)
  intro _ c3 ⟨_, hr⟩
  have h1' := ‹c.args[1]? = some _›
  apply Post.intro
  intro _ _ q hq hgt
  rw [hq] at h1'; cases h1'
  rw [h2, h1] at hr
  exact ⟨_, ‹c.args[0]? = some _›, hr (by simpa using hgt)⟩

/-- system-only functions -/
theorem sys_esdtRoles (s : Bool) (env : Env) (c : Call) (ctx : Ctx) :
    Post (esdtRoles s env c) ctx (fun _ _ => c.caller = esdtSCAddress) := by
  unfold esdtRoles checkBasic; wp
  all_goals simpa using ‹decide (c.caller ≠ esdtSCAddress) = false›
theorem sys_esdtFreezeWipe (k : FreezeKind) (env : Env) (c : Call) (ctx : Ctx) :
    Post (esdtFreezeWipe k env c) ctx (fun _ _ => c.caller = esdtSCAddress) := by
  unfold esdtFreezeWipe; wp
  all_goals simpa using ‹decide (c.caller ≠ esdtSCAddress) = false›
theorem sys_esdtPause (p : Bool) (env : Env) (c : Call) (ctx : Ctx) :
    Post (esdtPause p env c) ctx (fun _ _ => c.caller = esdtSCAddress) := by
  unfold esdtPause; wp
  all_goals simpa using ‹decide (c.caller ≠ esdtSCAddress) = false›

/-- hand-over: refused when the sender account is local; the current-owner branch only for the system contract -/
theorem handover_guard (env : Env) (c : Call) (ctx : Ctx) :
    Post (esdtNFTCreateRoleTransfer env c) ctx (fun out _ =>
      present env.nshards env.self c.caller = false ∧ present env.nshards env.self c.rcv = true ∧
      (out.outAccts ≠ [] → c.caller = esdtSCAddress)) := by
  unfold esdtNFTCreateRoleTransfer checkBasic; wp
  all_goals (refine ⟨‹present env.nshards env.self c.caller = false›, by simpa using ‹(!present env.nshards env.self c.rcv) = false›, ?_⟩)
  all_goals first
    | (intro _; assumption)
    | (intro h; exact absurd rfl h)

/-- owner / DNS checks -/
theorem owner_changeOwner (env : Env) (c : Call) (ctx : Ctx) :
    Post (changeOwnerAddress env c) ctx (fun _ ctx' =>
      present env.nshards env.self c.rcv = true → c.caller = (ctx.accts.get c.rcv).owner) := by
  unfold changeOwnerAddress
  xsteps
  split
  · rename_i h; apply Post.pure; intro hp; simp [hp] at h
  · xsteps
    apply Post.of_forall
    intro acct c1 he
    simp [getAcct] at he
    obtain ⟨rfl, rfl⟩ := he
    apply Post.bind
    apply Post.guardE
    intro hown
    apply Post.intro
    intro _ _ _
    simpa using hown

theorem owner_claim (env : Env) (c : Call) (ctx : Ctx) :
    Post (claimDeveloperRewards env c) ctx (fun _ ctx' =>
      present env.nshards env.self c.rcv = true → c.caller = (ctx.accts.get c.rcv).owner) := by
  unfold claimDeveloperRewards
  xsteps
  split
  · rename_i h; apply Post.pure; intro hp; simp [hp] at h
  · xsteps
    apply Post.of_forall
    intro acct c1 he
    simp [getAcct] at he
    obtain ⟨rfl, rfl⟩ := he
    apply Post.bind
    apply Post.guardE
    intro hown
    apply Post.intro
    intro _ _ _
    simpa using hown

theorem dns_setUserName (env : Env) (c : Call) (ctx : Ctx) :
    Post (setUserName env c) ctx (fun _ _ => c.caller ∈ env.dns) := by
  unfold setUserName; wp
  all_goals simpa using ‹(!List.contains env.dns c.caller) = false›

end Esdt
