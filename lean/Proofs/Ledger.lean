/-
  Proofs/Ledger.lean — exact ledger effect of the supply-changing functions and of ESDTTransfer,
  composed from the helper specifications of Proofs/Exact.lean.
-/
import Proofs.Exact
import Proofs.Codec
namespace Esdt

/-- guard / argument steps only: stops at every helper call -/
macro "xstep" : tactic => `(tactic| with_reducible first
  | apply Post.bind
  | apply Post.fail
  | apply Post.goPanic
  | (apply Post.guardE; intro _)
  | (apply Post.argAt; intro _ _)
  | (apply Post.deref; intro _ _)
  | (show Post _ _ _; dsimp only))
macro "xsteps" : tactic => `(tactic| repeat' xstep)

/-- decoded balance of a stored value (0 when absent; undecodable / nil never arise from the code's own writes) -/
def balOf (raw : Bytes) : Int :=
  match tokenOf raw with
  | some t => t.value.getD 0
  | none => 0

theorem balOf_nil : balOf [] = 0 := by simp [balOf, tokenOf, fungibleDefault]

theorem tokenOf_encToken (t : Token) (h : TokenOK t) : tokenOf (encToken t) = some t := by
  simp [tokenOf, encToken_ne_nil, decToken_encToken t h]

/-- reading back what `saveESDTData` stored -/
theorem balOf_storedForm (t : Token) (v : Int) (hv : t.value = some v) (h : TokenOK t) : balOf (storedForm t) = v := by
  unfold storedForm
  split
  · rename_i hz; rw [hv] at hz; rw [balOf_nil]; have := hz.1; simp at this; omega
  · simp [balOf, tokenOf_encToken t h, hv]

theorem balOf_nftStoredForm (t : Token) (v : Int) (hv : t.value = some v) (hnn : 0 ≤ v) (h : TokenOK t) :
    balOf (nftStoredForm t) = v := by
  unfold nftStoredForm
  rw [hv]
  simp only
  split
  · rw [balOf_nil]; omega
  · simp [balOf, tokenOf_encToken t h, hv]

/-- result of the local-action functions: exactly one storage slot rewritten -/
structure OneWrite (A A' : Accts) (a k : Bytes) (t : Token) (v d : Int) : Prop where
  old : tokenOf (A.read a k) = some t
  fungible : t.type = 0
  value : t.value = some v
  nonneg : 0 ≤ v + d
  written : A' = A.write a k (storedForm { t with value := some (v + d) })

/-- every other slot of every account is untouched, and the balance of the slot moves by exactly `d` -/
theorem OneWrite.others {A A' : Accts} {a k : Bytes} {t : Token} {v d : Int} (h : OneWrite A A' a k t v d)
    (a2 k2 : Bytes) (hne : ¬ (a = a2 ∧ k = k2)) : A'.read a2 k2 = A.read a2 k2 := by
  rw [h.written, Accts.read_write]; simp [hne]

theorem OneWrite.balance {A A' : Accts} {a k : Bytes} {t : Token} {v d : Int} (h : OneWrite A A' a k t v d)
    (hok : TokenOK { t with value := some (v + d) }) :
    balOf (A'.read a k) = balOf (A.read a k) + d := by
  rw [h.written, Accts.read_write]
  simp only [and_self, if_true]
  rw [balOf_storedForm _ (v + d) rfl hok]
  simp [balOf, h.old, h.value]

/-- ESDTLocalMint: the caller's entry of the token rises by exactly the given amount -/
theorem localMint_effect (env : Env) (c : Call) (ctx : Ctx) :
    Post (esdtLocalMint env c) ctx (fun _ ctx' => ∃ tok amt t v, c.args[0]? = some tok ∧ c.args[1]? = some amt ∧
      OneWrite ctx.accts ctx'.accts c.caller (esdtKeyPrefix ++ tok) t v (beNat amt) ∧
      GateOpen ctx.accts c.caller (esdtKeyPrefix ++ tok) t c.rae) := by
  unfold esdtLocalMint checkLocalAction checkBasic
  xsteps
  apply Post.mono (ro_checkAllowed _ _ _ ctx)
  intro _ c1 h1
  xsteps
  apply Post.mono (spec_addToESDTBalance _ _ _ _ c1)
  intro _ c2 ⟨t, v, ht, hty, hv, hnn, hg, hw⟩
  apply Post.pure
  rw [h1] at ht hg hw
  exact ⟨_, _, t, v, ‹c.args[0]? = some _›, ‹c.args[1]? = some _›, ⟨ht, hty, hv, hnn, hw⟩, hg⟩

/-- ESDTLocalBurn: falls by exactly the amount; an amount above the holding is refused (`0 ≤ v − amount`) -/
theorem localBurn_effect (env : Env) (c : Call) (ctx : Ctx) :
    Post (esdtLocalBurn env c) ctx (fun _ ctx' => ∃ tok amt t v, c.args[0]? = some tok ∧ c.args[1]? = some amt ∧
      OneWrite ctx.accts ctx'.accts c.caller (esdtKeyPrefix ++ tok) t v (- (beNat amt : Int)) ∧
      GateOpen ctx.accts c.caller (esdtKeyPrefix ++ tok) t c.rae) := by
  unfold esdtLocalBurn checkLocalAction checkBasic
  xsteps
  apply Post.mono (ro_checkAllowed _ _ _ ctx)
  intro _ c1 h1
  xsteps
  apply Post.mono (spec_addToESDTBalance _ _ _ _ c1)
  intro _ c2 ⟨t, v, ht, hty, hv, hnn, hg, hw⟩
  apply Post.pure
  rw [h1] at ht hg hw
  exact ⟨_, _, t, v, ‹c.args[0]? = some _›, ‹c.args[1]? = some _›, ⟨ht, hty, hv, hnn, hw⟩, hg⟩

/-- ESDTBurn (global burn through the system contract address) -/
theorem esdtBurn_effect (env : Env) (c : Call) (ctx : Ctx) :
    Post (esdtBurn env c) ctx (fun _ ctx' => ∃ tok amt t v, c.args[0]? = some tok ∧ c.args[1]? = some amt ∧
      OneWrite ctx.accts ctx'.accts c.caller (esdtKeyPrefix ++ tok) t v (- (beNat amt : Int)) ∧
      GateOpen ctx.accts c.caller (esdtKeyPrefix ++ tok) t c.rae) := by
  unfold esdtBurn checkBasic
  xsteps
  apply Post.mono (spec_addToESDTBalance _ _ _ _ ctx)
  intro _ c2 ⟨t, v, ht, hty, hv, hnn, hg, hw⟩
  xsteps
  apply Post.pure
  exact ⟨_, _, t, v, ‹c.args[0]? = some _›, ‹c.args[1]? = some _›, ⟨ht, hty, hv, hnn, hw⟩, hg⟩

/-- ESDTWipe: removes exactly the frozen account's fungible entry — and only when it is frozen -/
theorem wipe_effect (env : Env) (c : Call) (ctx : Ctx) :
    Post (esdtFreezeWipe .wipe env c) ctx (fun _ ctx' => ∃ tok t, c.args[0]? = some tok ∧ c.caller = esdtSCAddress ∧
      tokenOf (ctx.accts.read c.rcv (esdtKeyPrefix ++ tok)) = some t ∧ frozenOf t.properties = true ∧
      ctx'.accts = ctx.accts.write c.rcv (esdtKeyPrefix ++ tok) []) := by
  unfold esdtFreezeWipe
  xsteps
  apply Post.mono (spec_getESDTDataFromKey _ _ ctx)
  intro t c1 ⟨h1, ht⟩
  xsteps
  apply Post.mono (spec_writeKey _ _ _ c1)
  intro _ c2 h2
  apply Post.pure
  refine ⟨_, t, ‹c.args[0]? = some _›, by simpa using ‹decide (c.caller ≠ esdtSCAddress) = false›, ht, by simpa using ‹(!frozenOf t.properties) = false›, ?_⟩
  rw [h2, h1]

/-- ESDTFreeze / ESDTUnFreeze: only the flag bytes change, the value is preserved -/
theorem toggleFreeze_effect (kind : FreezeKind) (hk : kind ≠ .wipe) (env : Env) (c : Call) (ctx : Ctx) :
    Post (esdtFreezeWipe kind env c) ctx (fun _ ctx' => ∃ tok t, c.args[0]? = some tok ∧ c.caller = esdtSCAddress ∧
      tokenOf (ctx.accts.read c.rcv (esdtKeyPrefix ++ tok)) = some t ∧ t.value.isSome = true ∧
      ctx'.accts = ctx.accts.write c.rcv (esdtKeyPrefix ++ tok)
        (storedForm { t with properties := flagBytes (kind == .freeze) })) := by
  unfold esdtFreezeWipe
  xsteps
  cases kind with
  | wipe => exact absurd rfl hk
  | freeze =>
    simp only
    apply Post.bind
    apply Post.mono (spec_getESDTDataFromKey _ _ ctx)
    intro t c1 ⟨h1, ht⟩
    apply Post.bind
    apply Post.mono (spec_saveESDTData _ _ _ c1)
    intro _ c2 ⟨hv, h2⟩
    apply Post.pure
    exact ⟨_, t, ‹c.args[0]? = some _›, by simpa using ‹decide (c.caller ≠ esdtSCAddress) = false›, ht, hv, by rw [h2, h1]⟩
  | unfreeze =>
    simp only
    apply Post.bind
    apply Post.mono (spec_getESDTDataFromKey _ _ ctx)
    intro t c1 ⟨h1, ht⟩
    apply Post.bind
    apply Post.mono (spec_saveESDTData _ _ _ c1)
    intro _ c2 ⟨hv, h2⟩
    apply Post.pure
    exact ⟨_, t, ‹c.args[0]? = some _›, by simpa using ‹decide (c.caller ≠ esdtSCAddress) = false›, ht, hv, by rw [h2, h1]⟩

end Esdt

namespace Esdt

/-- result of the NFT quantity functions: the caller's entry under token‖nonce rewritten with a new value -/
structure NftWrite (A A' : Accts) (a tk : Bytes) (n : Nat) (t : Token) (v v' : Int) : Prop where
  present : A.read a (nftKey tk n) ≠ []
  old : decToken (A.read a (nftKey tk n)) = some t
  hasMeta : t.md.isSome = true
  value : t.value = some v
  written : A' = A.write a (nftKey tk (mdNonce t)) (nftStoredForm { t with value := some v' })

/-- ESDTNFTAddQuantity: the caller's own holding of (token, nonce) rises by exactly the given amount;
    metadata and every other field of the entry are kept -/
theorem addQuantity_effect (env : Env) (c : Call) (ctx : Ctx) :
    Post (esdtNFTAddQuantity env c) ctx (fun _ ctx' => ∃ tok nb qb t v, c.args[0]? = some tok ∧ c.args[1]? = some nb ∧
      c.args[2]? = some qb ∧ u64 (beNat nb) ≠ 0 ∧
      NftWrite ctx.accts ctx'.accts c.caller (esdtKeyPrefix ++ tok) (u64 (beNat nb)) t v (v + beNat qb) ∧
      GateOpen ctx.accts c.caller (esdtKeyPrefix ++ tok) { t with value := some (v + beNat qb) } c.rae) := by
  unfold esdtNFTAddQuantity checkCreateBurnAdd checkBasic
  xsteps
  apply Post.mono (ro_checkAllowed _ _ _ ctx)
  intro _ c1 h1
  xsteps
  apply Post.mono (spec_getNFTOnSender _ _ _ c1)
  intro t c2 ⟨h2, hne, hdec, hmd, _⟩
  xsteps
  apply Post.mono (spec_saveNFT _ _ _ _ c2)
  intro _ c3 ⟨_, hgate, _, _, h3⟩
  apply Post.pure
  rw [h1] at hne hdec
  rw [h2, h1] at hgate
  have hn0 := of_decide_eq_false ‹decide (u64 (beNat _) = 0) = false›
  refine ⟨_, _, _, t, _, ‹c.args[0]? = some _›, ‹c.args[1]? = some _›, ‹c.args[2]? = some _›, hn0,
    ⟨hne, hdec, hmd (Nat.pos_of_ne_zero hn0), ‹t.value = some _›, ?_⟩, hgate⟩
  rw [h3, h2, h1]; rfl

/-- ESDTNFTBurn: falls by exactly the amount, never below zero -/
theorem nftBurn_effect (env : Env) (c : Call) (ctx : Ctx) :
    Post (esdtNFTBurn env c) ctx (fun _ ctx' => ∃ tok nb qb t v, c.args[0]? = some tok ∧ c.args[1]? = some nb ∧
      c.args[2]? = some qb ∧ u64 (beNat nb) ≠ 0 ∧ (beNat qb : Int) ≤ v ∧
      NftWrite ctx.accts ctx'.accts c.caller (esdtKeyPrefix ++ tok) (u64 (beNat nb)) t v (v - beNat qb) ∧
      GateOpen ctx.accts c.caller (esdtKeyPrefix ++ tok) { t with value := some (v - beNat qb) } c.rae) := by
  unfold esdtNFTBurn checkCreateBurnAdd checkBasic
  xsteps
  apply Post.mono (ro_checkAllowed _ _ _ ctx)
  intro _ c1 h1
  xsteps
  apply Post.mono (spec_getNFTOnSender _ _ _ c1)
  intro t c2 ⟨h2, hne, hdec, hmd, _⟩
  xsteps
  apply Post.mono (spec_saveNFT _ _ _ _ c2)
  intro _ c3 ⟨_, hgate, _, _, h3⟩
  apply Post.pure
  rw [h1] at hne hdec
  rw [h2, h1] at hgate
  have hn0 := of_decide_eq_false ‹decide (u64 (beNat _) = 0) = false›
  refine ⟨_, _, _, t, _, ‹c.args[0]? = some _›, ‹c.args[1]? = some _›, ‹c.args[2]? = some _›, hn0,
    by simpa using ‹decide (_ < (beNat _ : Int)) = false›,
    ⟨hne, hdec, hmd (Nat.pos_of_ne_zero hn0), ‹t.value = some _›, ?_⟩, hgate⟩
  rw [h3, h2, h1]; rfl

/-- ESDTTransfer with both accounts on the executing shard: the sender's entry falls and the destination's entry
    rises by exactly the same amount; the destination read happens after the debit (self-transfers included) -/
theorem esdtTransfer_sameShard_effect (env : Env) (c : Call) (ctx : Ctx)
    (hs : present env.nshards env.self c.caller = true) (hd : present env.nshards env.self c.rcv = true) :
    Post (esdtTransfer env c) ctx (fun _ ctx' => ∃ tok amt t v A1 t2 v2, c.args[0]? = some tok ∧ c.args[1]? = some amt ∧
      beNat amt ≠ 0 ∧
      OneWrite ctx.accts A1 c.caller (esdtKeyPrefix ++ tok) t v (- (beNat amt : Int)) ∧
      OneWrite A1 ctx'.accts c.rcv (esdtKeyPrefix ++ tok) t2 v2 (beNat amt) ∧
      (mustVerifyPayable c 2 = true → env.payable c.rcv = .yes)) := by
  unfold esdtTransfer checkBasic
  simp only [hs, hd, if_true, ↓reduceIte]
  xsteps
  apply Post.mono (spec_addToESDTBalance _ _ _ _ ctx)
  intro _ c1 ⟨t, v, ht, hty, hv, hnn, hg, hw⟩
  xsteps
  apply Post.mono (spec_verifyPayableIf env _ c.rcv c1)
  intro _ c2 ⟨h2, hp⟩
  xsteps
  apply Post.mono (spec_addToESDTBalance _ _ _ _ c2)
  intro _ c3 ⟨t2, v2, ht2, hty2, hv2, hnn2, hg2, hw2⟩
  have hamt := of_decide_eq_false ‹decide (beNat _ = 0) = false›
  rw [h2] at ht2 hw2
  have fin : ∃ tok amt t v A1 t2 v2, c.args[0]? = some tok ∧ c.args[1]? = some amt ∧ beNat amt ≠ 0 ∧
      OneWrite ctx.accts A1 c.caller (esdtKeyPrefix ++ tok) t v (- (beNat amt : Int)) ∧
      OneWrite A1 c3.accts c.rcv (esdtKeyPrefix ++ tok) t2 v2 (beNat amt) ∧
      (mustVerifyPayable c 2 = true → env.payable c.rcv = .yes) :=
    ⟨_, _, t, v, c1.accts, t2, v2, ‹c.args[0]? = some _›, ‹c.args[1]? = some _›, hamt,
      ⟨ht, hty, hv, hnn, hw⟩, ⟨ht2, hty2, hv2, hnn2, hw2⟩, hp⟩
  split
  · xsteps
    exact Post.pure fin
  · exact Post.pure fin

end Esdt

namespace Esdt

/-- ESDTTransfer executed on the destination shard only (cross-shard arrival, refund, system-contract transfer) -/
theorem esdtTransfer_destOnly_effect (env : Env) (c : Call) (ctx : Ctx)
    (hs : present env.nshards env.self c.caller = false) (hd : present env.nshards env.self c.rcv = true) :
    Post (esdtTransfer env c) ctx (fun _ ctx' => ∃ tok amt t2 v2, c.args[0]? = some tok ∧ c.args[1]? = some amt ∧
      beNat amt ≠ 0 ∧
      OneWrite ctx.accts ctx'.accts c.rcv (esdtKeyPrefix ++ tok) t2 v2 (beNat amt) ∧
      GateOpen ctx.accts c.rcv (esdtKeyPrefix ++ tok) t2 c.rae ∧
      (mustVerifyPayable c 2 = true → env.payable c.rcv = .yes)) := by
  unfold esdtTransfer checkBasic
  simp only [hs, hd, if_true, ↓reduceIte, Bool.false_eq_true, if_false]
  xsteps
  apply Post.mono (spec_verifyPayableIf env _ c.rcv ctx)
  intro _ c2 ⟨h2, hp⟩
  xsteps
  apply Post.mono (spec_addToESDTBalance _ _ _ _ c2)
  intro _ c3 ⟨t2, v2, ht2, hty2, hv2, hnn2, hg2, hw2⟩
  have hamt := of_decide_eq_false ‹decide (beNat _ = 0) = false›
  rw [h2] at ht2 hw2 hg2
  have fin : ∃ tok amt t2 v2, c.args[0]? = some tok ∧ c.args[1]? = some amt ∧ beNat amt ≠ 0 ∧
      OneWrite ctx.accts c3.accts c.rcv (esdtKeyPrefix ++ tok) t2 v2 (beNat amt) ∧
      GateOpen ctx.accts c.rcv (esdtKeyPrefix ++ tok) t2 c.rae ∧
      (mustVerifyPayable c 2 = true → env.payable c.rcv = .yes) :=
    ⟨_, _, t2, v2, ‹c.args[0]? = some _›, ‹c.args[1]? = some _›, hamt, ⟨ht2, hty2, hv2, hnn2, hw2⟩, hg2, hp⟩
  split
  · xsteps
    exact Post.pure fin
  · exact Post.pure fin

/-- ESDTTransfer executed on the sender shard only (destination elsewhere): exactly the debit, and — for a contract
    caller — the continuation message carrying the same arguments -/
theorem esdtTransfer_senderOnly_effect (env : Env) (c : Call) (ctx : Ctx)
    (hs : present env.nshards env.self c.caller = true) (hd : present env.nshards env.self c.rcv = false) :
    Post (esdtTransfer env c) ctx (fun out ctx' => ∃ tok amt t v, c.args[0]? = some tok ∧ c.args[1]? = some amt ∧
      beNat amt ≠ 0 ∧
      OneWrite ctx.accts ctx'.accts c.caller (esdtKeyPrefix ++ tok) t v (- (beNat amt : Int)) ∧
      GateOpen ctx.accts c.caller (esdtKeyPrefix ++ tok) t c.rae ∧
      (isSmartContractAddress c.caller = true →
        ∃ tr, out.outAccts = [{ addr := c.rcv, transfers := [tr] }] ∧ tr.data = encodeCall fnESDTTransfer c.args)) := by
  unfold esdtTransfer checkBasic
  simp only [hs, hd, if_true, ↓reduceIte, Bool.false_eq_true, if_false]
  xsteps
  apply Post.mono (spec_addToESDTBalance _ _ _ _ ctx)
  intro _ c1 ⟨t, v, ht, hty, hv, hnn, hg, hw⟩
  have hamt := of_decide_eq_false ‹decide (beNat _ = 0) = false›
  apply Post.pure
  refine ⟨_, _, t, v, ‹c.args[0]? = some _›, ‹c.args[1]? = some _›, hamt, ⟨ht, hty, hv, hnn, hw⟩, hg, ?_⟩
  intro hsc
  simp only [hsc, if_true, addOutputTransfer]
  exact ⟨_, rfl, rfl⟩

/-- destination rejections of the three transfer functions (guards) -/
theorem esdtTransfer_not_to_metachain (env : Env) (c : Call) (ctx : Ctx) :
    Post (esdtTransfer env c) ctx (fun _ _ => shardOf env.nshards c.rcv ≠ metaShard) := by
  unfold esdtTransfer checkBasic
  wp
  all_goals (exact of_decide_eq_false ‹decide (shardOf env.nshards c.rcv = metaShard) = false›)

theorem nftTransferSender_destination_ok (env : Env) (c : Call) (ctx : Ctx) :
    Post (esdtNFTTransferSender env c) ctx (fun _ _ => ∃ dst, c.args[3]? = some dst ∧
      dst.length = c.caller.length ∧ dst ≠ c.caller ∧ shardOf env.nshards dst ≠ metaShard) := by
  unfold esdtNFTTransferSender
  wp
  all_goals (exact ⟨_, ‹c.args[3]? = some _›, by simpa using ‹decide (List.length _ ≠ List.length c.caller) = false›,
    of_decide_eq_false ‹decide (_ = c.caller) = false›, of_decide_eq_false ‹decide (shardOf env.nshards _ = metaShard) = false›⟩)

theorem multiTransferSender_destination_ok (env : Env) (c : Call) (ctx : Ctx) :
    Post (multiTransferSender env c) ctx (fun _ _ => ∃ dst, c.args[0]? = some dst ∧
      dst.length = c.caller.length ∧ dst ≠ c.caller ∧ shardOf env.nshards dst ≠ metaShard) := by
  unfold multiTransferSender
  wp
  all_goals (exact ⟨_, ‹c.args[0]? = some _›, by simpa using ‹decide (List.length _ ≠ List.length c.caller) = false›,
    of_decide_eq_false ‹decide (_ = c.caller) = false›, of_decide_eq_false ‹decide (shardOf env.nshards _ = metaShard) = false›⟩)

end Esdt

namespace Esdt

/-- ESDTNFTTransfer on the destination shard: the payload is decoded, payability verified when required, and the
    destination entry under token‖nonce(payload) becomes the payload with `Value := carried + existing` -/
theorem nftTransfer_dest_effect (env : Env) (c : Call) (ctx : Ctx) (hne : c.caller ≠ c.rcv) :
    Post (esdtNFTTransfer env c) ctx (fun _ ctx' => ∃ tok payload t cur tv cv, c.args[0]? = some tok ∧
      c.args[3]? = some payload ∧ decToken payload = some t ∧
      present env.nshards env.self c.caller = false ∧ present env.nshards env.self c.rcv = true ∧
      tokenOf (ctx.accts.read c.rcv (nftKey (esdtKeyPrefix ++ tok) (mdNonce t))) = some cur ∧
      (mustVerifyPayable c 4 = true → env.payable c.rcv = .yes) ∧
      GateOpen ctx.accts c.rcv (esdtKeyPrefix ++ tok) cur c.rae ∧
      (∀ cm, cur.md = some cm → ∃ tm, t.md = some tm ∧ cm.hash = tm.hash) ∧
      t.value = some tv ∧ cur.value = some cv ∧
      ctx'.accts = ctx.accts.write c.rcv (nftKey (esdtKeyPrefix ++ tok) (mdNonce t))
        (nftStoredForm { t with value := some (tv + cv) })) := by
  unfold esdtNFTTransfer checkBasic
  simp only [hne, if_false]
  xsteps
  apply Post.mono (spec_unmarshalToken _ ctx)
  intro t c1 ⟨h1, hdec⟩
  xsteps
  apply Post.mono (spec_addNFTToDestination env c.rcv t _ _ _ c1)
  intro t' c2 ⟨cur, tv, cv, hcur, hp, hg, hh, htv, hcv, ht', _, hw⟩
  rw [h1] at hcur hg hw
  have fin : ∃ tok payload t cur tv cv, c.args[0]? = some tok ∧
      c.args[3]? = some payload ∧ decToken payload = some t ∧
      present env.nshards env.self c.caller = false ∧ present env.nshards env.self c.rcv = true ∧
      tokenOf (ctx.accts.read c.rcv (nftKey (esdtKeyPrefix ++ tok) (mdNonce t))) = some cur ∧
      (mustVerifyPayable c 4 = true → env.payable c.rcv = .yes) ∧
      GateOpen ctx.accts c.rcv (esdtKeyPrefix ++ tok) cur c.rae ∧
      (∀ cm, cur.md = some cm → ∃ tm, t.md = some tm ∧ cm.hash = tm.hash) ∧
      t.value = some tv ∧ cur.value = some cv ∧
      c2.accts = ctx.accts.write c.rcv (nftKey (esdtKeyPrefix ++ tok) (mdNonce t))
        (nftStoredForm { t with value := some (tv + cv) }) :=
    ⟨_, _, t, cur, tv, cv, ‹c.args[0]? = some _›, ‹c.args[3]? = some _›, hdec,
      ‹present env.nshards env.self c.caller = false›,
      by simpa using ‹(!present env.nshards env.self c.rcv) = false›, hcur, hp, hg, hh, htv, hcv, by rw [hw, ht']⟩
  split
  · repeat' (first | xstep | apply Post.pure)
    exact fin
  · repeat' (first | xstep | apply Post.pure)
    exact fin

end Esdt
