/-
  Proofs/Monad.lean — storage / account-map lemmas, the execution monad's equations,
  a weakest-precondition style predicate `Post` with one rule per primitive.
-/
import Model.Fn
namespace Esdt

/-! ### Store -/

theorem Store.get_erase_same (s : Store) (k : Bytes) : (s.erase k).get k = [] := by
  induction s with
  | nil => rfl
  | cons p rest ih =>
    obtain ⟨k', v⟩ := p
    simp only [Store.erase, List.filter]
    by_cases h : k' = k
    · simp [h]; simpa [Store.erase] using ih
    · simp [h, Store.get]; simpa [Store.erase] using ih

theorem Store.get_erase_ne (s : Store) (k k2 : Bytes) (h : k ≠ k2) : (s.erase k).get k2 = s.get k2 := by
  induction s with
  | nil => rfl
  | cons p rest ih =>
    obtain ⟨k', v⟩ := p
    simp only [Store.erase, List.filter]
    by_cases h1 : k' = k
    · subst h1; simp [Store.get, h]; simpa [Store.erase] using ih
    · simp [h1, Store.get]
      by_cases h2 : k' = k2
      · simp [h2]
      · simp [h2]; simpa [Store.erase] using ih

@[simp] theorem Store.get_put_same (s : Store) (k v : Bytes) : (s.put k v).get k = v := by
  unfold Store.put
  split
  · rename_i h; rw [h]; exact Store.get_erase_same s k
  · simp [Store.get]

theorem Store.get_put_ne (s : Store) (k k2 v : Bytes) (h : k ≠ k2) : (s.put k v).get k2 = s.get k2 := by
  unfold Store.put
  split
  · exact Store.get_erase_ne s k k2 h
  · simp [Store.get, h]; exact Store.get_erase_ne s k k2 h

theorem Store.get_put (s : Store) (k k2 v : Bytes) :
    (s.put k v).get k2 = if k = k2 then v else s.get k2 := by
  by_cases h : k = k2
  · subst h; simp
  · simp [h, Store.get_put_ne _ _ _ _ h]

/-! ### Accts -/

theorem Accts.get_filter_ne (s : Accts) (a a2 : Bytes) (h : a ≠ a2) :
    Accts.get (s.filter (fun p => p.1 ≠ a)) a2 = s.get a2 := by
  induction s with
  | nil => rfl
  | cons p rest ih =>
    obtain ⟨a', x⟩ := p
    simp only [List.filter]
    by_cases h1 : a' = a
    · subst h1; simp [Accts.get, h]; simpa using ih
    · simp [h1, Accts.get]
      by_cases h2 : a' = a2
      · simp [h2]
      · simp [h2]; simpa using ih

@[simp] theorem Accts.get_set_same (s : Accts) (a : Bytes) (x : Acct) : (s.set a x).get a = x := by
  simp [Accts.set, Accts.get]

theorem Accts.get_set_ne (s : Accts) (a a2 : Bytes) (x : Acct) (h : a ≠ a2) :
    (s.set a x).get a2 = s.get a2 := by
  have := Accts.get_filter_ne s a a2 h
  simp [Accts.set, Accts.get, h]; simpa using this

theorem Accts.get_set (s : Accts) (a a2 : Bytes) (x : Acct) :
    (s.set a x).get a2 = if a = a2 then x else s.get a2 := by
  by_cases h : a = a2
  · subst h; simp
  · simp [h, Accts.get_set_ne _ _ _ _ h]

/-- the storage view of a context: value of storage key `k` of account `a` -/
def Ctx.read (c : Ctx) (a k : Bytes) : Bytes := (c.accts.get a).store.get k

/-! ### monad equations -/

@[simp] theorem pure_apply {α} (a : α) (c : Ctx) : (pure a : M α) c = .ok (a, c) := rfl

theorem bind_apply {α β} (m : M α) (f : α → M β) (c : Ctx) :
    (m >>= f) c = match m c with
      | .ok (a, c') => f a c'
      | .err e => .err e
      | .panic => .panic := rfl

@[simp] theorem fail_apply {α} (e : ErrKind) (c : Ctx) : (fail e : M α) c = .err e := rfl
@[simp] theorem goPanic_apply {α} (c : Ctx) : (goPanic : M α) c = .panic := rfl

theorem bind_ok {α β} (m : M α) (f : α → M β) (c : Ctx) (r : β × Ctx) :
    (m >>= f) c = .ok r ↔ ∃ a c1, m c = .ok (a, c1) ∧ f a c1 = .ok r := by
  rw [bind_apply]
  cases h : m c with
  | ok p =>
    obtain ⟨a, c1⟩ := p
    constructor
    · intro hf; exact ⟨a, c1, rfl, hf⟩
    · rintro ⟨a', c1', he, hf⟩
      cases he; exact hf
  | err e => simp
  | panic => simp

theorem bind_panic {α β} (m : M α) (f : α → M β) (c : Ctx) :
    (m >>= f) c = .panic ↔ m c = .panic ∨ ∃ a c1, m c = .ok (a, c1) ∧ f a c1 = .panic := by
  rw [bind_apply]
  cases h : m c with
  | ok p =>
    obtain ⟨a, c1⟩ := p
    constructor
    · intro hf; exact Or.inr ⟨a, c1, rfl, hf⟩
    · rintro (hp | ⟨a', c1', he, hf⟩)
      · cases hp
      · cases he; exact hf
  | err e => simp
  | panic => simp

/-! ### `Post`: what holds of every successful result -/

def Post {α} (m : M α) (c : Ctx) (Q : α → Ctx → Prop) : Prop :=
  ∀ a c', m c = .ok (a, c') → Q a c'

theorem Post.pure {α} {a : α} {c : Ctx} {Q : α → Ctx → Prop} (h : Q a c) : Post (pure a : M α) c Q := by
  intro a' c' he
  simp at he
  obtain ⟨rfl, rfl⟩ := he
  exact h

theorem Post.bind {α β} {m : M α} {f : α → M β} {c : Ctx} {Q : β → Ctx → Prop}
    (h : Post m c (fun a c1 => Post (f a) c1 Q)) : Post (m >>= f) c Q := by
  intro b c' he
  rw [bind_ok] at he
  obtain ⟨a, c1, h1, h2⟩ := he
  exact h a c1 h1 b c' h2

theorem Post.fail {α} {e : ErrKind} {c : Ctx} {Q : α → Ctx → Prop} : Post (fail e : M α) c Q := by
  intro a c' he; simp at he

theorem Post.goPanic {α} {c : Ctx} {Q : α → Ctx → Prop} : Post (goPanic : M α) c Q := by
  intro a c' he; simp at he

theorem Post.guardE {b : Bool} {e : ErrKind} {c : Ctx} {Q : Unit → Ctx → Prop}
    (h : b = false → Q () c) : Post (guardE b e) c Q := by
  intro a c' he
  unfold Esdt.guardE at he
  cases b with
  | true => simp at he
  | false =>
    simp at he
    obtain ⟨-, rfl⟩ := he
    exact h rfl

theorem Post.mono {α} {m : M α} {c : Ctx} {R Q : α → Ctx → Prop}
    (h : Post m c R) (hq : ∀ a c', R a c' → Q a c') : Post m c Q :=
  fun a c' he => hq a c' (h a c' he)

theorem Post.intro {α} {m : M α} {c : Ctx} {Q : α → Ctx → Prop} (h : ∀ a c', Q a c') : Post m c Q :=
  fun a c' _ => h a c'

theorem Post.and {α} {m : M α} {c : Ctx} {R Q : α → Ctx → Prop}
    (h1 : Post m c R) (h2 : Post m c Q) : Post m c (fun a c' => R a c' ∧ Q a c') :=
  fun a c' he => ⟨h1 a c' he, h2 a c' he⟩

theorem Post.deref {α} {o : Option α} {c : Ctx} {Q : α → Ctx → Prop}
    (h : ∀ a, o = some a → Q a c) : Post (deref o) c Q := by
  intro a c' he
  cases o with
  | none => simp [Esdt.deref] at he
  | some x =>
    simp [Esdt.deref] at he
    obtain ⟨rfl, rfl⟩ := he
    exact h x rfl

theorem Post.argAt {args : List Bytes} {i : Nat} {c : Ctx} {Q : Bytes → Ctx → Prop}
    (h : ∀ a, args[i]? = some a → Q a c) : Post (argAt args i) c Q :=
  Post.deref h

theorem Post.ite {α} {p : Prop} [Decidable p] {A B : M α} {c : Ctx} {Q : α → Ctx → Prop}
    (h1 : p → Post A c Q) (h2 : ¬ p → Post B c Q) : Post (if p then A else B) c Q := by
  split
  · exact h1 ‹_›
  · exact h2 ‹_›

theorem Post.elim {α} {m : M α} {c : Ctx} {Q : α → Ctx → Prop} (h : Post m c Q) {a : α} {c' : Ctx}
    (he : m c = .ok (a, c')) : Q a c' := h a c' he

theorem Post.of_forall {α} {m : M α} {c : Ctx} {Q : α → Ctx → Prop} (h : ∀ a c', m c = .ok (a, c') → Q a c') :
    Post m c Q := h

attribute [irreducible] Post

end Esdt
