/-
  Proofs/SetClosed.lean — a calculus for invariants that are closed under `Accts.set` (the ONLY way the model changes a
  shard's account table: `writeKey`, `setAcct`, `setOwner`, `setName`, `setReward`, `setBalance`).  Every successful call
  of every one of the 23 built-in functions preserves every such invariant, with no side condition at all.  The instance
  that matters is `Accts.Nodup` (one entry per address): together with `wf_step` (Canon) and `short_step` (Short) it makes
  three of the four parts of the world invariant `SInv` hold after ANY interleaving of ANY of the functions
  (`base_inv_step` below); only `MdPos` needs the per-world step conditions (an adversarial destination-form payload can
  carry metadata with nonce 0).
-/
import Proofs.Short
import Proofs.Network
namespace Esdt

/-- `I` is closed under replacing one account's record -/
def SetClosed (I : Accts → Prop) : Prop := ∀ A a x, I A → I (A.set a x)

theorem setClosed_nodup : SetClosed Accts.Nodup := fun A a x h => Accts.set_nodup A h a x

@[reducible] def Pres (I : Accts → Prop) {α} (m : M α) : Prop :=
  ∀ c, I c.accts → Post m c (fun _ c' => I c'.accts)

variable {I : Accts → Prop}

theorem Pres.of_ro {α} {m : M α} (h : RO m) : Pres I m := by
  intro c hs
  apply Post.mono (h c)
  intro _ c' he
  rw [he]; exact hs

theorem Pres.bind {α β} {m : M α} {f : α → M β} (hm : Pres I m) (hf : ∀ a, Pres I (f a)) : Pres I (m >>= f) := by
  intro c hs
  apply Post.bind
  apply Post.mono (hm c hs)
  intro a c1 h1
  exact hf a c1 h1

theorem Pres.pure {α} (a : α) : Pres I (pure a : M α) := Pres.of_ro (RO.pure a)
theorem Pres.fail {α} (e : ErrKind) : Pres I (fail e : M α) := Pres.of_ro (RO.fail e)

theorem Pres.ite {α} {p : Prop} [Decidable p] {A B : M α} (h1 : Pres I A) (h2 : Pres I B) :
    Pres I (if p then A else B) := by
  split
  · exact h1
  · exact h2

theorem Pres.setAcct (hI : SetClosed I) (a : Bytes) (x : Acct) : Pres I (setAcct a x) := by
  intro c hs
  unfold Post; intro x' c' h
  simp only [Esdt.setAcct, Res.ok.injEq, Prod.mk.injEq] at h
  rw [← h.2]; exact hI _ _ _ hs
theorem Pres.setOwner (hI : SetClosed I) (a v : Bytes) : Pres I (setOwner a v) := by
  intro c hs
  unfold Post; intro x' c' h
  simp only [Esdt.setOwner, Res.ok.injEq, Prod.mk.injEq] at h
  rw [← h.2]; exact hI _ _ _ hs
theorem Pres.setName (hI : SetClosed I) (a v : Bytes) : Pres I (setName a v) := by
  intro c hs
  unfold Post; intro x' c' h
  simp only [Esdt.setName, Res.ok.injEq, Prod.mk.injEq] at h
  rw [← h.2]; exact hI _ _ _ hs
theorem Pres.setReward (hI : SetClosed I) (a : Bytes) (v : Int) : Pres I (setReward a v) := by
  intro c hs
  unfold Post; intro x' c' h
  simp only [Esdt.setReward, Res.ok.injEq, Prod.mk.injEq] at h
  rw [← h.2]; exact hI _ _ _ hs
theorem Pres.setBalance (hI : SetClosed I) (a : Bytes) (v : Int) : Pres I (setBalance a v) := by
  intro c hs
  unfold Post; intro x' c' h
  simp only [Esdt.setBalance, Res.ok.injEq, Prod.mk.injEq] at h
  rw [← h.2]; exact hI _ _ _ hs

theorem Pres.writeKey (hI : SetClosed I) (a k v : Bytes) : Pres I (writeKey a k v) := by
  unfold Esdt.writeKey
  refine Pres.bind (Pres.of_ro (RO.tick _)) (fun _ => ?_)
  intro c hs
  unfold Post; intro x' c' h
  simp only [Res.ok.injEq, Prod.mk.injEq] at h
  rw [← h.2]; exact hI _ _ _ hs

/-- extension point: composite helpers proved separately -/
syntax "pz_spec" : tactic
macro_rules | `(tactic| pz_spec) => `(tactic| fail "no Pres lemma applies")
macro_rules | `(tactic| pz_spec) => `(tactic| exact Pres.setAcct ‹SetClosed _› _ _)
macro_rules | `(tactic| pz_spec) => `(tactic| exact Pres.setOwner ‹SetClosed _› _ _)
macro_rules | `(tactic| pz_spec) => `(tactic| exact Pres.setName ‹SetClosed _› _ _)
macro_rules | `(tactic| pz_spec) => `(tactic| exact Pres.setReward ‹SetClosed _› _ _)
macro_rules | `(tactic| pz_spec) => `(tactic| exact Pres.setBalance ‹SetClosed _› _ _)
macro_rules | `(tactic| pz_spec) => `(tactic| exact Pres.writeKey ‹SetClosed _› _ _ _)

macro "pz_step" : tactic => `(tactic| with_reducible first
  | exact Pres.pure _
  | exact Pres.fail _
  | exact Pres.of_ro RO.goPanic
  | exact Pres.of_ro (RO.tick _)
  | exact Pres.of_ro (RO.guardE _ _)
  | exact Pres.of_ro (RO.argAt _ _)
  | exact Pres.of_ro (RO.deref _)
  | exact Pres.of_ro (RO.readKey _ _)
  | exact Pres.of_ro (RO.getAcct _)
  | exact Pres.of_ro (by ro_spec)
  | pz_spec
  | refine Pres.bind ?_ (fun _ => ?_)
  | apply Pres.ite
  | (show Pres _ _; dsimp only)
  | (show Pres _ _; split))
macro "pz" : tactic => `(tactic| repeat' pz_step)

section
variable (hI : SetClosed I)
include hI

theorem pz_saveESDTData (a : Bytes) (t : Token) (k : Bytes) : Pres I (saveESDTData a t k) := by
  unfold saveESDTData; pz
theorem pz_saveNFT (a tk : Bytes) (t : Token) (rae : Bool) : Pres I (saveNFT a tk t rae) := by
  unfold saveNFT; pz
theorem pz_saveRoles (a k : Bytes) (r : List Bytes) : Pres I (saveRoles a k r) := by
  unfold saveRoles; pz
theorem pz_saveLatestNonce (a tok : Bytes) (n : Nat) : Pres I (saveLatestNonce a tok n) := by
  unfold saveLatestNonce; pz
end

macro_rules | `(tactic| pz_spec) => `(tactic| exact pz_saveESDTData ‹SetClosed _› _ _ _)
macro_rules | `(tactic| pz_spec) => `(tactic| exact pz_saveNFT ‹SetClosed _› _ _ _ _)
macro_rules | `(tactic| pz_spec) => `(tactic| exact pz_saveRoles ‹SetClosed _› _ _ _)
macro_rules | `(tactic| pz_spec) => `(tactic| exact pz_saveLatestNonce ‹SetClosed _› _ _ _)

section
variable (hI : SetClosed I)
include hI
theorem pz_addCreateRole (a k : Bytes) : Pres I (addCreateRole a k) := by unfold addCreateRole; pz
theorem pz_addToESDTBalance (a k : Bytes) (d : Int) (rae : Bool) : Pres I (addToESDTBalance a k d rae) := by
  unfold addToESDTBalance; pz
end
macro_rules | `(tactic| pz_spec) => `(tactic| exact pz_addCreateRole ‹SetClosed _› _ _)
macro_rules | `(tactic| pz_spec) => `(tactic| exact pz_addToESDTBalance ‹SetClosed _› _ _ _ _)

theorem pz_addNFTToDestination (hI : SetClosed I) (env : Env) (dst : Bytes) (t : Token) (tk : Bytes) (mv rae : Bool) :
    Pres I (addNFTToDestination env dst t tk mv rae) := by
  unfold addNFTToDestination; pz
macro_rules | `(tactic| pz_spec) => `(tactic| exact pz_addNFTToDestination ‹SetClosed _› _ _ _ _ _ _)

theorem pz_transferOne (hI : SetClosed I) (env : Env) (c : Call) (l : Bool) (dst tok : Bytes) (n q : Nat) (v : Bool) :
    Pres I (transferOne env c l dst tok n q v) := by
  unfold transferOne; pz
macro_rules | `(tactic| pz_spec) => `(tactic| exact pz_transferOne ‹SetClosed _› _ _ _ _ _ _ _ _)

theorem pz_multiSenderLoop (hI : SetClosed I) (env : Env) (c : Call) (l : Bool) (dst : Bytes) (v : Bool) :
    ∀ n idx, Pres I (multiSenderLoop env c l dst v n idx) := by
  intro n
  induction n with
  | zero => intro idx; unfold multiSenderLoop; pz
  | succ n ih => intro idx; unfold multiSenderLoop; pz; exact ih _
macro_rules | `(tactic| pz_spec) => `(tactic| exact pz_multiSenderLoop ‹SetClosed _› _ _ _ _ _ _ _)

theorem pz_multiDestLoop (hI : SetClosed I) (env : Env) (c : Call) (m : Nat) :
    ∀ n idx, Pres I (multiDestLoop env c m n idx) := by
  intro n
  induction n with
  | zero => intro idx; unfold multiDestLoop; pz
  | succ n ih => intro idx; unfold multiDestLoop; pz <;> exact ih _
macro_rules | `(tactic| pz_spec) => `(tactic| exact pz_multiDestLoop ‹SetClosed _› _ _ _ _ _)

theorem pz_multiPayloadLoop (env : Env) (toks : List (Bytes × Token)) (g : Nat) : Pres I (multiPayloadLoop env toks g) :=
  Pres.of_ro (ro_multiPayloadLoop env toks g)
macro_rules | `(tactic| pz_spec) => `(tactic| exact pz_multiPayloadLoop _ _ _)

theorem pz_skvLoop (hI : SetClosed I) (env : Env) (c : Call) : ∀ (n : Nat) (l : List Bytes) (g : Nat), l.length ≤ n →
    Pres I (skvLoop env c l g) := by
  intro n
  induction n with
  | zero =>
    intro l g hl
    have : l = [] := List.eq_nil_of_length_eq_zero (by omega)
    subst this; unfold skvLoop; pz
  | succ n ih =>
    intro l g hl
    match l, hl with
    | [], _ => unfold skvLoop; pz
    | [_], _ => unfold skvLoop; pz
    | k :: v :: rest, hl =>
      unfold skvLoop
      pz
      all_goals exact ih _ _ (by simp at hl; omega)

/-! ### the 23 functions -/
section
variable (hI : SetClosed I)
include hI

theorem pz_claimDeveloperRewards (env : Env) (c : Call) : Pres I (claimDeveloperRewards env c) := by
  unfold claimDeveloperRewards; pz
theorem pz_changeOwnerAddress (env : Env) (c : Call) : Pres I (changeOwnerAddress env c) := by
  unfold changeOwnerAddress; pz
theorem pz_setUserName (env : Env) (c : Call) : Pres I (setUserName env c) := by unfold setUserName; pz
theorem pz_saveKeyValue (env : Env) (c : Call) : Pres I (saveKeyValue env c) := by
  unfold saveKeyValue; pz
  exact pz_skvLoop hI env c _ _ _ (Nat.le_refl _)
theorem pz_esdtPause (p : Bool) (env : Env) (c : Call) : Pres I (esdtPause p env c) := by unfold esdtPause; pz
theorem pz_esdtTransfer (env : Env) (c : Call) : Pres I (esdtTransfer env c) := by unfold esdtTransfer; pz
theorem pz_esdtBurn (env : Env) (c : Call) : Pres I (esdtBurn env c) := by unfold esdtBurn; pz
theorem pz_esdtFreezeWipe (k : FreezeKind) (env : Env) (c : Call) : Pres I (esdtFreezeWipe k env c) := by
  unfold esdtFreezeWipe; pz
theorem pz_esdtRoles (s : Bool) (env : Env) (c : Call) : Pres I (esdtRoles s env c) := by unfold esdtRoles; pz
theorem pz_esdtLocalBurn (env : Env) (c : Call) : Pres I (esdtLocalBurn env c) := by unfold esdtLocalBurn; pz
theorem pz_esdtLocalMint (env : Env) (c : Call) : Pres I (esdtLocalMint env c) := by unfold esdtLocalMint; pz
theorem pz_esdtNFTAddQuantity (env : Env) (c : Call) : Pres I (esdtNFTAddQuantity env c) := by
  unfold esdtNFTAddQuantity; pz
theorem pz_esdtNFTBurn (env : Env) (c : Call) : Pres I (esdtNFTBurn env c) := by unfold esdtNFTBurn; pz
theorem pz_esdtNFTCreate (env : Env) (c : Call) : Pres I (esdtNFTCreate env c) := by unfold esdtNFTCreate; pz
theorem pz_esdtNFTTransferSender (env : Env) (c : Call) : Pres I (esdtNFTTransferSender env c) := by
  unfold esdtNFTTransferSender; pz
theorem pz_esdtNFTTransfer (env : Env) (c : Call) : Pres I (esdtNFTTransfer env c) := by
  unfold esdtNFTTransfer; pz
  exact pz_esdtNFTTransferSender hI env c
theorem pz_esdtNFTCreateRoleTransfer (env : Env) (c : Call) : Pres I (esdtNFTCreateRoleTransfer env c) := by
  unfold esdtNFTCreateRoleTransfer; pz
theorem pz_esdtNFTUpdateAttributes (env : Env) (c : Call) : Pres I (esdtNFTUpdateAttributes env c) := by
  unfold esdtNFTUpdateAttributes; pz
theorem pz_esdtNFTAddURI (env : Env) (c : Call) : Pres I (esdtNFTAddURI env c) := by unfold esdtNFTAddURI; pz
theorem pz_multiTransferSender (env : Env) (c : Call) : Pres I (multiTransferSender env c) := by
  unfold multiTransferSender; pz
theorem pz_multiTransfer (env : Env) (c : Call) : Pres I (multiTransfer env c) := by
  unfold multiTransfer; pz
  exact pz_multiTransferSender hI env c

/-- every successful call of every built-in function preserves every invariant closed under `Accts.set` -/
theorem setClosed_step (f : FnId) (env : Env) (c : Call) (ctx ctx' : Ctx) (out : VMOutput)
    (hs : I ctx.accts) (h : exec env f c ctx = .ok (out, ctx')) : I ctx'.accts := by
  unfold exec at h
  cases f <;> simp only [runFn] at h
  · exact (pz_claimDeveloperRewards hI env c ctx hs).elim h
  · exact (pz_changeOwnerAddress hI env c ctx hs).elim h
  · exact (pz_setUserName hI env c ctx hs).elim h
  · exact (pz_saveKeyValue hI env c ctx hs).elim h
  · exact (pz_esdtPause hI true env c ctx hs).elim h
  · exact (pz_esdtPause hI false env c ctx hs).elim h
  · exact (pz_esdtTransfer hI env c ctx hs).elim h
  · exact (pz_esdtBurn hI env c ctx hs).elim h
  · exact (pz_esdtFreezeWipe hI .freeze env c ctx hs).elim h
  · exact (pz_esdtFreezeWipe hI .unfreeze env c ctx hs).elim h
  · exact (pz_esdtFreezeWipe hI .wipe env c ctx hs).elim h
  · exact (pz_esdtRoles hI false env c ctx hs).elim h
  · exact (pz_esdtRoles hI true env c ctx hs).elim h
  · exact (pz_esdtLocalBurn hI env c ctx hs).elim h
  · exact (pz_esdtLocalMint hI env c ctx hs).elim h
  · exact (pz_esdtNFTAddQuantity hI env c ctx hs).elim h
  · exact (pz_esdtNFTBurn hI env c ctx hs).elim h
  · exact (pz_esdtNFTCreate hI env c ctx hs).elim h
  · exact (pz_esdtNFTTransfer hI env c ctx hs).elim h
  · exact (pz_esdtNFTCreateRoleTransfer hI env c ctx hs).elim h
  · exact (pz_esdtNFTUpdateAttributes hI env c ctx hs).elim h
  · exact (pz_esdtNFTAddURI hI env c ctx hs).elim h
  · exact (pz_multiTransfer hI env c ctx hs).elim h
end

/-- one entry per address, after any successful call of any function -/
theorem nodup_step (f : FnId) (env : Env) (c : Call) (ctx ctx' : Ctx) (out : VMOutput)
    (hs : ctx.accts.Nodup) (h : exec env f c ctx = .ok (out, ctx')) : ctx'.accts.Nodup :=
  setClosed_step setClosed_nodup f env c ctx ctx' out hs h

end Esdt
