/-
  Proofs/Gas.lean — C06: no built-in function creates gas.  One lemma per function:
  every successful result satisfies  GasRemaining + Σ gasLimit(output transfers) ≤ GasProvided.
-/
import Proofs.Wp
namespace Esdt

theorem computeGasRemaining_le (p : Bool) (g c : Nat) : computeGasRemaining p g c ≤ g := by
  unfold computeGasRemaining; split <;> (try split) <;> omega

theorem safeSub_getD_le (g c : Nat) : (safeSubUint64 g c).getD 0 ≤ g := by
  unfold safeSubUint64; split <;> simp

/-- the per-token payload loop of the multi-transfer only ever lowers the remaining gas -/
theorem multiPayloadLoop_gas (env : Env) (toks : List (Bytes × Token)) : ∀ (g : Nat) (ctx : Ctx),
    Post (multiPayloadLoop env toks g) ctx (fun r _ => r.2 ≤ g) := by
  induction toks with
  | nil => intro g ctx; unfold multiPayloadLoop; exact Post.pure (Nat.le_refl _)
  | cons p rest ih =>
    intro g ctx
    obtain ⟨tokenID, t⟩ := p
    unfold multiPayloadLoop
    split
    · apply Post.bind; apply Post.intro; intro bytes c1
      apply Post.bind; apply Post.guardE; intro hg
      apply Post.bind
      apply Post.mono (ih _ _)
      intro r c2 hr
      obtain ⟨args, gr⟩ := r
      apply Post.pure
      simp at hg hr ⊢; omega
    · apply Post.bind; apply Post.intro; intro v c1
      apply Post.bind
      apply Post.mono (ih _ _)
      intro r c2 hr
      obtain ⟨args, gr⟩ := r
      apply Post.pure
      simpa using hr

macro_rules | `(tactic| wp_spec) => `(tactic| (apply Post.mono (multiPayloadLoop_gas _ _ _ _); intro _ _ _))

macro "gas_fin" : tactic => `(tactic| (
  try simp only [fwd_addOutputTransfer, gasRemaining_addOutputTransfer, fwd_addNFTTransfer, gasRemaining_addNFTTransfer]
  try simp only [addOutputTransfer, addNFTTransfer]
  try simp only [fwd, List.flatMap_nil, List.flatMap_cons, List.map_nil, List.map_cons, List.map_append, List.sum_nil,
    List.sum_cons, List.sum_append, List.append_nil, List.nil_append, Nat.add_zero, Nat.zero_add]
  first
  | omega
  | exact computeGasRemaining_le _ _ _
  | exact safeSub_getD_le _ _
  | exact Nat.le_refl _
  | exact Nat.le_trans (u64_le _) (Nat.sub_le _ _)
  | (simp only [decide_eq_false_iff_not, decide_eq_true_eq, Bool.not_eq_true', Nat.not_lt, gt_iff_lt] at *; omega)))

/-- closes the arithmetic side conditions left by `wp` -/
macro "gas_close" : tactic => `(tactic| (simp only [GasOK] <;> (repeat' split) <;> gas_fin))

theorem gas_esdtTransfer (env : Env) (c : Call) (ctx : Ctx) :
    Post (esdtTransfer env c) ctx (fun out _ => GasOK c.gas out) := by
  unfold esdtTransfer checkBasic
  wp
  all_goals gas_close

theorem gas_esdtLocalMint (env : Env) (c : Call) (ctx : Ctx) :
    Post (esdtLocalMint env c) ctx (fun out _ => GasOK c.gas out) := by
  unfold esdtLocalMint checkLocalAction checkBasic
  wp
  all_goals gas_close

theorem gas_esdtLocalBurn (env : Env) (c : Call) (ctx : Ctx) :
    Post (esdtLocalBurn env c) ctx (fun out _ => GasOK c.gas out) := by
  unfold esdtLocalBurn checkLocalAction checkBasic
  wp
  all_goals gas_close

theorem gas_esdtBurn (env : Env) (c : Call) (ctx : Ctx) :
    Post (esdtBurn env c) ctx (fun out _ => GasOK c.gas out) := by
  unfold esdtBurn checkBasic
  wp
  all_goals gas_close

theorem gas_esdtNFTCreate (env : Env) (c : Call) (ctx : Ctx) :
    Post (esdtNFTCreate env c) ctx (fun out _ => GasOK c.gas out) := by
  unfold esdtNFTCreate checkCreateBurnAdd checkBasic
  wp
  all_goals gas_close

theorem gas_esdtNFTAddQuantity (env : Env) (c : Call) (ctx : Ctx) :
    Post (esdtNFTAddQuantity env c) ctx (fun out _ => GasOK c.gas out) := by
  unfold esdtNFTAddQuantity checkCreateBurnAdd checkBasic
  wp
  all_goals gas_close

theorem gas_esdtNFTBurn (env : Env) (c : Call) (ctx : Ctx) :
    Post (esdtNFTBurn env c) ctx (fun out _ => GasOK c.gas out) := by
  unfold esdtNFTBurn checkCreateBurnAdd checkBasic
  wp
  all_goals gas_close

/-- `gas − cost − store` computed with two wrapping subtractions equals the exact difference when the
    guard `gas ≥ cost + store` was evaluated without wrap-around -/
theorem two_sub_le (gas cost store : Nat) (hg : gas < two64) (hsum : cost + store < two64)
    (hguard : ¬ gas < u64 (cost + u64 store)) : u64 (u64 (gas - cost) + two64 - u64 store) ≤ gas := by
  have hs : store < two64 := by omega
  rw [u64_of_lt _ hs] at hguard ⊢
  rw [u64_of_lt _ hsum] at hguard
  have h1 : u64 (gas - cost) = gas - cost := u64_of_lt _ (by omega)
  rw [h1]
  have e : gas - cost + two64 - store = two64 + (gas - cost - store) := by omega
  rw [e]
  unfold u64
  unfold two64 at *
  omega

theorem gas_esdtNFTAddURI (env : Env) (c : Call) (ctx : Ctx) (hg : c.gas < two64)
    (hsum : env.gas.fn.esdtNFTAddURI + totalLen (c.args.drop 2) * env.gas.base.storePerByte < two64) :
    Post (esdtNFTAddURI env c) ctx (fun out _ => GasOK c.gas out) := by
  unfold esdtNFTAddURI checkCreateBurnAdd checkBasic
  wp
  all_goals
    simp only [GasOK, fwd, List.flatMap_nil, List.map_nil, List.sum_nil]
    rw [Nat.add_zero]
    apply two_sub_le _ _ _ hg hsum
    have hgd := ‹decide (c.gas < u64 (_ + u64 _)) = false›
    simpa using hgd

theorem gas_esdtNFTUpdateAttributes (env : Env) (c : Call) (ctx : Ctx) (hg : c.gas < two64)
    (hsum : ∀ a2, c.args[2]? = some a2 →
      env.gas.fn.esdtNFTUpdateAttributes + a2.length * env.gas.base.storePerByte < two64) :
    Post (esdtNFTUpdateAttributes env c) ctx (fun out _ => GasOK c.gas out) := by
  unfold esdtNFTUpdateAttributes checkCreateBurnAdd checkBasic
  wp
  all_goals
    simp only [GasOK, fwd, List.flatMap_nil, List.map_nil, List.sum_nil]
    rw [Nat.add_zero]
    apply two_sub_le _ _ _ hg (hsum _ ‹_›)
    have hgd := ‹decide (c.gas < u64 (_ + u64 _)) = false›
    simpa using hgd

theorem gas_esdtFreezeWipe (k : FreezeKind) (env : Env) (c : Call) (ctx : Ctx) :
    Post (esdtFreezeWipe k env c) ctx (fun out _ => GasOK c.gas out) := by
  unfold esdtFreezeWipe
  wp
  all_goals gas_close

theorem gas_esdtPause (p : Bool) (env : Env) (c : Call) (ctx : Ctx) :
    Post (esdtPause p env c) ctx (fun out _ => GasOK c.gas out) := by
  unfold esdtPause
  wp
  all_goals gas_close

theorem gas_esdtRoles (s : Bool) (env : Env) (c : Call) (ctx : Ctx) :
    Post (esdtRoles s env c) ctx (fun out _ => GasOK c.gas out) := by
  unfold esdtRoles checkBasic
  wp
  all_goals gas_close

theorem gas_esdtNFTCreateRoleTransfer (env : Env) (c : Call) (ctx : Ctx) :
    Post (esdtNFTCreateRoleTransfer env c) ctx (fun out _ => GasOK c.gas out) := by
  unfold esdtNFTCreateRoleTransfer checkBasic
  wp
  all_goals gas_close

theorem gas_saveKeyValue (env : Env) (c : Call) (ctx : Ctx) :
    Post (saveKeyValue env c) ctx (fun out _ => GasOK c.gas out) := by
  unfold saveKeyValue
  wp
  all_goals gas_close

theorem gas_changeOwnerAddress (env : Env) (c : Call) (ctx : Ctx) :
    Post (changeOwnerAddress env c) ctx (fun out _ => GasOK c.gas out) := by
  unfold changeOwnerAddress
  wp
  all_goals gas_close

theorem gas_claimDeveloperRewards (env : Env) (c : Call) (ctx : Ctx) :
    Post (claimDeveloperRewards env c) ctx (fun out _ => GasOK c.gas out) := by
  unfold claimDeveloperRewards
  wp
  all_goals gas_close

theorem gas_setUserName (env : Env) (c : Call) (ctx : Ctx) :
    Post (setUserName env c) ctx (fun out _ => GasOK c.gas out) := by
  unfold setUserName
  wp
  all_goals gas_close

theorem gas_esdtNFTTransfer (env : Env) (c : Call) (ctx : Ctx) :
    Post (esdtNFTTransfer env c) ctx (fun out _ => GasOK c.gas out) := by
  unfold esdtNFTTransfer esdtNFTTransferSender checkBasic
  wp
  all_goals gas_close

theorem gas_multiTransfer (env : Env) (c : Call) (ctx : Ctx) :
    Post (multiTransfer env c) ctx (fun out _ => GasOK c.gas out) := by
  unfold multiTransfer multiTransferSender checkBasic
  wp
  all_goals gas_close

end Esdt
