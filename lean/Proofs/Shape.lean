/-
  Proofs/Shape.lean — result shape: every successful result carries return code Ok (0).
-/
import Proofs.Wp
namespace Esdt

macro "rc_fin" : tactic => `(tactic| all_goals (first | rfl | (simp [addOutputTransfer, addNFTTransfer]; done) | (repeat' split) <;> first | rfl | (simp [addOutputTransfer, addNFTTransfer]; done)))

theorem rc_claimDeveloperRewards (env : Env) (c : Call) (ctx : Ctx) : Post (claimDeveloperRewards env c) ctx (fun out _ => out.rc = 0) := by
  unfold claimDeveloperRewards; wp; rc_fin
theorem rc_changeOwnerAddress (env : Env) (c : Call) (ctx : Ctx) : Post (changeOwnerAddress env c) ctx (fun out _ => out.rc = 0) := by
  unfold changeOwnerAddress; wp; rc_fin
theorem rc_setUserName (env : Env) (c : Call) (ctx : Ctx) : Post (setUserName env c) ctx (fun out _ => out.rc = 0) := by
  unfold setUserName; wp; rc_fin
theorem rc_saveKeyValue (env : Env) (c : Call) (ctx : Ctx) : Post (saveKeyValue env c) ctx (fun out _ => out.rc = 0) := by
  unfold saveKeyValue; wp; rc_fin
theorem rc_esdtPause (p : Bool) (env : Env) (c : Call) (ctx : Ctx) : Post (esdtPause p env c) ctx (fun out _ => out.rc = 0) := by
  unfold esdtPause; wp; rc_fin
theorem rc_esdtTransfer (env : Env) (c : Call) (ctx : Ctx) : Post (esdtTransfer env c) ctx (fun out _ => out.rc = 0) := by
  unfold esdtTransfer checkBasic; wp; rc_fin
theorem rc_esdtBurn (env : Env) (c : Call) (ctx : Ctx) : Post (esdtBurn env c) ctx (fun out _ => out.rc = 0) := by
  unfold esdtBurn checkBasic; wp; rc_fin
theorem rc_esdtFreezeWipe (k : FreezeKind) (env : Env) (c : Call) (ctx : Ctx) : Post (esdtFreezeWipe k env c) ctx (fun out _ => out.rc = 0) := by
  unfold esdtFreezeWipe; wp; rc_fin
theorem rc_esdtRoles (s : Bool) (env : Env) (c : Call) (ctx : Ctx) : Post (esdtRoles s env c) ctx (fun out _ => out.rc = 0) := by
  unfold esdtRoles checkBasic; wp; rc_fin
theorem rc_esdtLocalBurn (env : Env) (c : Call) (ctx : Ctx) : Post (esdtLocalBurn env c) ctx (fun out _ => out.rc = 0) := by
  unfold esdtLocalBurn checkLocalAction checkBasic; wp; rc_fin
theorem rc_esdtLocalMint (env : Env) (c : Call) (ctx : Ctx) : Post (esdtLocalMint env c) ctx (fun out _ => out.rc = 0) := by
  unfold esdtLocalMint checkLocalAction checkBasic; wp; rc_fin
theorem rc_esdtNFTAddQuantity (env : Env) (c : Call) (ctx : Ctx) : Post (esdtNFTAddQuantity env c) ctx (fun out _ => out.rc = 0) := by
  unfold esdtNFTAddQuantity checkCreateBurnAdd checkBasic; wp; rc_fin
theorem rc_esdtNFTBurn (env : Env) (c : Call) (ctx : Ctx) : Post (esdtNFTBurn env c) ctx (fun out _ => out.rc = 0) := by
  unfold esdtNFTBurn checkCreateBurnAdd checkBasic; wp; rc_fin
theorem rc_esdtNFTCreate (env : Env) (c : Call) (ctx : Ctx) : Post (esdtNFTCreate env c) ctx (fun out _ => out.rc = 0) := by
  unfold esdtNFTCreate checkCreateBurnAdd checkBasic; wp; rc_fin
theorem rc_esdtNFTTransfer (env : Env) (c : Call) (ctx : Ctx) : Post (esdtNFTTransfer env c) ctx (fun out _ => out.rc = 0) := by
  unfold esdtNFTTransfer esdtNFTTransferSender checkBasic; wp; rc_fin
theorem rc_esdtNFTCreateRoleTransfer (env : Env) (c : Call) (ctx : Ctx) : Post (esdtNFTCreateRoleTransfer env c) ctx (fun out _ => out.rc = 0) := by
  unfold esdtNFTCreateRoleTransfer checkBasic; wp; rc_fin
theorem rc_esdtNFTUpdateAttributes (env : Env) (c : Call) (ctx : Ctx) : Post (esdtNFTUpdateAttributes env c) ctx (fun out _ => out.rc = 0) := by
  unfold esdtNFTUpdateAttributes checkCreateBurnAdd checkBasic; wp; rc_fin
theorem rc_esdtNFTAddURI (env : Env) (c : Call) (ctx : Ctx) : Post (esdtNFTAddURI env c) ctx (fun out _ => out.rc = 0) := by
  unfold esdtNFTAddURI checkCreateBurnAdd checkBasic; wp; rc_fin
theorem rc_multiTransfer (env : Env) (c : Call) (ctx : Ctx) : Post (multiTransfer env c) ctx (fun out _ => out.rc = 0) := by
  unfold multiTransfer multiTransferSender checkBasic; wp; rc_fin

end Esdt
