/-
  Proofs/Safe.lean — absence of panics.  `NP m c`: running `m` from `c` does not reach a panic outcome
  (Go: index out of range, nil dereference, makeslice).  Compositional rules; the facts about intermediate results
  come from the `Post` specifications already proved.
-/
import Proofs.Metadata
namespace Esdt

def NP {α} (m : M α) (c : Ctx) : Prop := m c ≠ .panic

theorem NP.pure {α} {a : α} {c : Ctx} : NP (pure a : M α) c := by intro h; cases h
theorem NP.fail {α} {e : ErrKind} {c : Ctx} : NP (fail e : M α) c := by intro h; cases h
theorem NP.guardE {b : Bool} {e : ErrKind} {c : Ctx} : NP (guardE b e) c := by
  unfold Esdt.guardE; split
  · exact NP.fail
  · exact NP.pure

/-- the general rule: the first part does not panic, and after any successful first part the rest does not -/
theorem NP.bind_of {α β} {m : M α} {f : α → M β} {c : Ctx}
    (h1 : NP m c) (h2 : Post m c (fun a c1 => NP (f a) c1)) : NP (m >>= f) c := by
  intro hp
  rcases (bind_panic m f c).mp hp with h | ⟨a, c1, he, hf⟩
  · exact h1 h
  · exact h2.elim he hf

theorem NP.bind_any {α β} {m : M α} {f : α → M β} {c : Ctx}
    (h1 : NP m c) (h2 : ∀ a c1, NP (f a) c1) : NP (m >>= f) c :=
  NP.bind_of h1 (Post.intro h2)

/-- read-only first part: the rest runs on the same accounts -/
theorem NP.bind_ro {α β} {m : M α} {f : α → M β} {c : Ctx}
    (h1 : NP m c) (hro : RO m) (h2 : ∀ a c1, c1.accts = c.accts → NP (f a) c1) : NP (m >>= f) c :=
  NP.bind_of h1 (Post.mono (hro c) h2)

theorem NP.bind_pure {α β} {a : α} {f : α → M β} {c : Ctx} (h : NP (f a) c) : NP ((Pure.pure a : M α) >>= f) c := h

theorem NP.bind_guardE {β} {b : Bool} {e : ErrKind} {f : Unit → M β} {c : Ctx}
    (h : b = false → NP (f ()) c) : NP (Esdt.guardE b e >>= f) c :=
  NP.bind_of NP.guardE (Post.guardE h)

theorem NP.deref {α} {o : Option α} {c : Ctx} (hs : o.isSome = true) : NP (deref o) c := by
  cases o with
  | none => cases hs
  | some a => exact NP.pure

theorem NP.bind_deref {α β} {o : Option α} {f : α → M β} {c : Ctx} (hs : o.isSome = true)
    (h : ∀ a, o = some a → NP (f a) c) : NP (Esdt.deref o >>= f) c :=
  NP.bind_of (NP.deref hs) (Post.deref h)

theorem NP.argAt {args : List Bytes} {i : Nat} {c : Ctx} (hi : i < args.length) : NP (argAt args i) c :=
  NP.deref (by simp [List.getElem?_eq_getElem hi])

theorem NP.bind_argAt {β} {args : List Bytes} {i : Nat} {f : Bytes → M β} {c : Ctx} (hi : i < args.length)
    (h : ∀ a, args[i]? = some a → NP (f a) c) : NP (Esdt.argAt args i >>= f) c :=
  NP.bind_of (NP.argAt hi) (Post.argAt h)

theorem NP.ite {α} {p : Prop} [Decidable p] {A B : M α} {c : Ctx}
    (h1 : p → NP A c) (h2 : ¬ p → NP B c) : NP (if p then A else B) c := by
  split
  · exact h1 ‹_›
  · exact h2 ‹_›

theorem NP.bind_assoc {α β γ} {m : M α} {g : α → M β} {f : β → M γ} {c : Ctx}
    (h : NP (m >>= fun a => g a >>= f) c) : NP ((m >>= g) >>= f) c := by
  intro hp; apply h
  rw [bind_apply] at hp ⊢
  rw [bind_apply] at hp
  cases hm : m c with
  | ok p => obtain ⟨a, c1⟩ := p; rw [hm] at hp; simpa [bind_apply] using hp
  | err e => rw [hm] at hp; simp at hp
  | panic => rfl

theorem NP.of_ne {α} {m : M α} {c : Ctx} (h : m c ≠ .panic) : NP m c := h
theorem NP.elim {α} {m : M α} {c : Ctx} (h : NP m c) : m c ≠ .panic := h

/-! ### primitives never panic -/

theorem np_tick (d : Dep) (c : Ctx) : NP (tick d) c := by
  intro h; unfold tick at h; split at h <;> cases h
theorem np_readKey (a k : Bytes) (c : Ctx) : NP (readKey a k) c := by intro h; cases h
theorem np_getAcct (a : Bytes) (c : Ctx) : NP (getAcct a) c := by intro h; cases h
theorem np_setAcct (a : Bytes) (x : Acct) (c : Ctx) : NP (setAcct a x) c := by intro h; cases h
theorem np_setOwner (a v : Bytes) (c : Ctx) : NP (setOwner a v) c := by intro h; cases h
theorem np_setName (a v : Bytes) (c : Ctx) : NP (setName a v) c := by intro h; cases h
theorem np_setReward (a : Bytes) (v : Int) (c : Ctx) : NP (setReward a v) c := by intro h; cases h
theorem np_setBalance (a : Bytes) (v : Int) (c : Ctx) : NP (setBalance a v) c := by intro h; cases h
theorem np_loadAcct (c : Ctx) : NP loadAcct c := np_tick _ c
theorem np_saveAcct (c : Ctx) : NP saveAcct c := np_tick _ c

attribute [irreducible] NP

/-- extension point: helper functions that never panic / whose no-panic lemma needs no side condition -/
syntax "np_spec" : tactic
macro_rules | `(tactic| np_spec) => `(tactic| fail "no no-panic lemma applies")
macro_rules | `(tactic| np_spec) => `(tactic| exact np_tick _ _)
macro_rules | `(tactic| np_spec) => `(tactic| exact np_readKey _ _ _)
macro_rules | `(tactic| np_spec) => `(tactic| exact np_getAcct _ _)
macro_rules | `(tactic| np_spec) => `(tactic| exact np_setAcct _ _ _)
macro_rules | `(tactic| np_spec) => `(tactic| exact np_setOwner _ _ _)
macro_rules | `(tactic| np_spec) => `(tactic| exact np_setName _ _ _)
macro_rules | `(tactic| np_spec) => `(tactic| exact np_setReward _ _ _)
macro_rules | `(tactic| np_spec) => `(tactic| exact np_setBalance _ _ _)
macro_rules | `(tactic| np_spec) => `(tactic| exact np_loadAcct _)
macro_rules | `(tactic| np_spec) => `(tactic| exact np_saveAcct _)

/-- index bound from the length guards in context -/
macro "np_bound" : tactic => `(tactic|
  ((try simp only [decide_eq_false_iff_not, Nat.not_lt, Nat.not_le, ne_eq, Decidable.not_not, decide_not, Bool.not_eq_eq_eq_not,
     Bool.not_false, Bool.not_true, decide_eq_true_eq, gt_iff_lt, Bool.and_eq_true, Bool.or_eq_true] at *); omega))

/-- one step: guards, argument reads (bound from context), unconditional helpers (result forgotten) -/
macro "np_step" : tactic => `(tactic| with_reducible first
  | exact NP.pure
  | exact NP.fail
  | exact NP.guardE
  | (apply NP.bind_guardE; intro _)
  | (apply NP.bind_assoc)
  | (apply NP.bind_pure)
  | (apply NP.bind_argAt (by np_bound); intro _ _)
  | (exact NP.argAt (by np_bound))
  | np_spec
  | (apply NP.bind_ro (by np_spec) (by first | ro_spec | exact RO.tick _ | exact RO.readKey _ _ | exact RO.getAcct _); intro _ _ _)
  | (apply NP.bind_any (by np_spec); intro _ _)
  | (show NP _ _; dsimp only))
macro "np" : tactic => `(tactic| repeat' np_step)

/-- guards and argument reads only: stops at every helper call -/
macro "npg_step" : tactic => `(tactic| with_reducible first
  | exact NP.pure
  | exact NP.fail
  | exact NP.guardE
  | (apply NP.bind_guardE; intro _)
  | (apply NP.bind_assoc)
  | (apply NP.bind_pure)
  | (apply NP.bind_argAt (by np_bound); intro _ _)
  | (exact NP.argAt (by np_bound))
  | (show NP _ _; dsimp only))
macro "npg" : tactic => `(tactic| repeat' npg_step)

theorem np_writeKey (a k v : Bytes) (c : Ctx) : NP (writeKey a k v) c := by
  unfold writeKey
  apply NP.bind_any (np_tick _ _); intro _ c1
  apply NP.of_ne; intro h; cases h
macro_rules | `(tactic| np_spec) => `(tactic| exact np_writeKey _ _ _ _)

theorem np_marshalToken (t : Token) (c : Ctx) : NP (marshalToken t) c := by unfold marshalToken; np; split <;> np
theorem np_marshalRoles (r : List Bytes) (c : Ctx) : NP (marshalRoles r) c := by unfold marshalRoles; np; split <;> np
theorem np_unmarshalToken (b : Bytes) (c : Ctx) : NP (unmarshalToken b) c := by
  unfold unmarshalToken; np; split <;> np
theorem np_unmarshalRoles (b : Bytes) (c : Ctx) : NP (unmarshalRoles b) c := by
  unfold unmarshalRoles; np; split <;> np
macro_rules | `(tactic| np_spec) => `(tactic| exact np_marshalToken _ _)
macro_rules | `(tactic| np_spec) => `(tactic| exact np_marshalRoles _ _)
macro_rules | `(tactic| np_spec) => `(tactic| exact np_unmarshalToken _ _)
macro_rules | `(tactic| np_spec) => `(tactic| exact np_unmarshalRoles _ _)

theorem np_checkBasic (c : Call) (ctx : Ctx) : NP (checkBasic c) ctx := by unfold checkBasic; np
theorem np_verifyPayable (env : Env) (a : Bytes) (c : Ctx) : NP (verifyPayable env a) c := by
  unfold verifyPayable; np; split <;> np
theorem np_verifyPayableIf (env : Env) (b : Bool) (a : Bytes) (c : Ctx) : NP (verifyPayableIf env b a) c := by
  unfold verifyPayableIf; split
  · exact np_verifyPayable _ _ _
  · np
theorem np_isPaused (k : Bytes) (c : Ctx) : NP (isPaused k) c := by unfold isPaused; np
macro_rules | `(tactic| np_spec) => `(tactic| exact np_checkBasic _ _)
macro_rules | `(tactic| np_spec) => `(tactic| exact np_verifyPayable _ _ _)
macro_rules | `(tactic| np_spec) => `(tactic| exact np_verifyPayableIf _ _ _ _)
macro_rules | `(tactic| np_spec) => `(tactic| exact np_isPaused _ _)

theorem np_checkFrozeAndPause (addr key : Bytes) (t : Token) (rae : Bool) (c : Ctx) :
    NP (checkFrozeAndPause addr key t rae) c := by
  unfold checkFrozeAndPause
  split
  · np
  · split <;> np
macro_rules | `(tactic| np_spec) => `(tactic| exact np_checkFrozeAndPause _ _ _ _ _)

theorem np_getESDTDataFromKey (a k : Bytes) (c : Ctx) : NP (getESDTDataFromKey a k) c := by
  unfold getESDTDataFromKey; np; split <;> np
theorem np_getNFTOnDestination (a tk : Bytes) (n : Nat) (c : Ctx) : NP (getNFTOnDestination a tk n) c := by
  unfold getNFTOnDestination; np; split <;> np
theorem np_getNFTOnSender (a tk : Bytes) (n : Nat) (c : Ctx) : NP (getNFTOnSender a tk n) c := by
  unfold getNFTOnSender
  apply NP.bind_any (np_getNFTOnDestination _ _ _ _); intro r _
  obtain ⟨t, isNew⟩ := r
  np
theorem np_getRoles (a k : Bytes) (c : Ctx) : NP (getRoles a k) c := by
  unfold getRoles; np; split <;> np
theorem np_saveRoles (a k : Bytes) (r : List Bytes) (c : Ctx) : NP (saveRoles a k r) c := by unfold saveRoles; np
theorem np_checkAllowed (a tok role : Bytes) (c : Ctx) : NP (checkAllowed a tok role) c := by
  unfold checkAllowed
  apply NP.bind_any (np_getRoles _ _ _); intro r _
  obtain ⟨roles, isNew⟩ := r
  np
theorem np_checkAllowedIf (b : Bool) (a tok role : Bytes) (c : Ctx) : NP (checkAllowedIf b a tok role) c := by
  unfold checkAllowedIf; split
  · exact np_checkAllowed _ _ _ _
  · np
theorem np_getLatestNonce (a tok : Bytes) (c : Ctx) : NP (getLatestNonce a tok) c := by unfold getLatestNonce; np
theorem np_saveLatestNonce (a tok : Bytes) (n : Nat) (c : Ctx) : NP (saveLatestNonce a tok n) c := by
  unfold saveLatestNonce; np
macro_rules | `(tactic| np_spec) => `(tactic| exact np_getRoles _ _ _)
macro_rules | `(tactic| np_spec) => `(tactic| exact np_saveRoles _ _ _ _)
macro_rules | `(tactic| np_spec) => `(tactic| exact np_checkAllowed _ _ _ _)
macro_rules | `(tactic| np_spec) => `(tactic| exact np_checkAllowedIf _ _ _ _ _)
macro_rules | `(tactic| np_spec) => `(tactic| exact np_getLatestNonce _ _ _)
macro_rules | `(tactic| np_spec) => `(tactic| exact np_saveLatestNonce _ _ _ _)

/-! ### helpers that dereference: side conditions -/

theorem np_saveESDTData (a : Bytes) (t : Token) (k : Bytes) (c : Ctx) (hv : t.value.isSome = true) :
    NP (saveESDTData a t k) c := by
  unfold saveESDTData
  apply NP.bind_deref hv; intro v _
  split <;> np

theorem np_saveNFT (a tk : Bytes) (t : Token) (rae : Bool) (c : Ctx) (hv : t.value.isSome = true) :
    NP (saveNFT a tk t rae) c := by
  unfold saveNFT
  np
  apply NP.bind_deref hv; intro v _
  split <;> np

theorem np_checkSameHash (cur t : Token) (c : Ctx) : NP (checkSameHash cur t) c := by
  unfold checkSameHash
  split
  · split <;> np
  · np

end Esdt
