/-
  Proofs/NoPanicMulti.lean — MultiESDTNFTTransfer does not panic on a well-formed, short state: the concrete state
  invariant for the per-item helpers (`ItemsSafe` / `DestItemsSafe` of Proofs/NoPanic.lean).
-/
import Proofs.NoPanic
import Proofs.Short
namespace Esdt

/-- one kind per key between sender and destination: where the sender holds an entry WITHOUT metadata, the destination
    holds none with metadata under the same key (token identifiers do not alias: system-contract discipline) -/
def Kind (A : Accts) (a b : Bytes) : Prop :=
  ∀ k t, A.read a k ≠ [] → decToken (A.read a k) = some t → t.md = none →
    ∀ cur, tokenOf (A.read b k) = some cur → cur.md = none

/-- invariant of the sender-side item loop -/
structure MInv (c : Call) (A : Accts) : Prop where
  canon : Canon A
  short : Short A
  kind : ∀ dst, c.args[0]? = some dst → Kind A c.caller dst

theorem Canon.acctVal {A : Accts} (h : Canon A) {a : Bytes} (ha : a ≠ systemAccountAddress) : AcctVal A a := by
  intro s t ht
  obtain ⟨⟨v, hv, _⟩, _⟩ := h.read ⟨s, rfl⟩ ha ht
  simp [hv]

theorem transferOne_md (env : Env) (c : Call) (l : Bool) (dst tok : Bytes) (n q : Nat) (v : Bool) (ctx : Ctx) :
    Post (transferOne env c l dst tok n q v) ctx (fun _ _ =>
      ∀ t, decToken (ctx.accts.read c.caller (nftKey (esdtKeyPrefix ++ tok) n)) = some t → 0 < n → t.md.isSome = true) := by
  unfold transferOne
  xsteps
  apply Post.mono (spec_getNFTOnSender _ _ _ ctx)
  intro t c1 ⟨_, _, hdec, hmd, _⟩
  apply Post.intro
  intro _ _ t' hdec' hn
  rw [hdec] at hdec'; cases hdec'
  exact hmd hn

theorem nftKey_zero (tk : Bytes) : nftKey tk 0 = tk := by simp [nftKey, beBytes_zero]

theorem mdNonce_none {t : Token} (h : t.md = none) : mdNonce t = 0 := by simp [mdNonce, h]

theorem nftStoredForm_cases (t : Token) : nftStoredForm t = [] ∨ nftStoredForm t = encToken t := by
  unfold nftStoredForm
  split
  · split
    · exact Or.inl rfl
    · exact Or.inr rfl
  · exact Or.inl rfl

theorem tokenOf_nftStoredForm_md (t : Token) (cur : Token) (hn : NumOK t) (hl : (nftStoredForm t).length < two63)
    (h : tokenOf (nftStoredForm t) = some cur) : cur.md = none ∨ cur.md = t.md := by
  rcases nftStoredForm_cases t with he | he
  · rw [he] at h; simp [tokenOf] at h; subst h; exact Or.inl rfl
  · rw [he] at h hl
    rw [tokenOf, if_neg (encToken_ne_nil t), roundtrip_of_length t hn hl] at h
    cases h; exact Or.inr rfl

theorem itemsSafe_minv (env : Env) (c : Call) (hc : c.caller ≠ systemAccountAddress)
    (hd : ∀ dst, c.args[0]? = some dst → dst ≠ systemAccountAddress) : ItemsSafe env c (MInv c) := by
  constructor
  · -- no panic
    intro l dst tok n q v ctx hne h0 hI
    refine np_transferOne env c l dst tok n q v ctx (hI.canon.acctVal hc) hne
      (fun _ => hI.canon.acctVal (hd dst h0)) ?_
    intro _ t cur hne1 hdec hmdn hcur hcm
    cases hmd : t.md with
    | some m => rfl
    | none =>
      exfalso
      have hn0 : n = 0 := by
        cases n with
        | zero => rfl
        | succ n => have := hmdn (Nat.succ_pos n); rw [hmd] at this; cases this
      subst hn0
      rw [mdNonce_none hmd] at hcur
      have := hI.kind dst h0 _ t hne1 hdec hmd cur hcur
      rw [this] at hcm; cases hcm
  · -- invariant
    intro l dst tok n q v ctx hne h0 hI
    apply Post.mono (Post.and (Post.and (transferOne_effect env c l dst tok n q v ctx)
      (Post.and (canon_transferOne env c l dst tok n q v ctx hI.canon.toM) (sp_transferOne env c l dst tok n q v ctx hI.short)))
      (transferOne_md env c l dst tok n q v ctx))
    intro t' c' ⟨⟨⟨t, x, A1, _, _, hne1, hdec, hv, hA1, hf, ht⟩, hCM, hS'⟩, hmdn⟩
    have hC' : Canon c'.accts := hCM.toCanon hS'
    refine ⟨hC', hS', ?_⟩
    intro dst' h0'
    rw [h0] at h0'; cases h0'
    have hnum : NumOK t := decToken_num _ _ hdec
    -- the written key
    intro k t0 hk0 hdec0 hmd0 cur0 hcur0
    by_cases hkW : k = nftKey (esdtKeyPrefix ++ tok) (mdNonce t)
    · subst hkW
      -- the sender's slot after the step holds the debited entry
      have hread : c'.accts.read c.caller (nftKey (esdtKeyPrefix ++ tok) (mdNonce t)) =
          nftStoredForm { t with value := some (x - q) } := by
        cases l
        · rw [(hf rfl).2, hA1, Accts.read_write, if_pos ⟨rfl, rfl⟩]
        · obtain ⟨_, _, _, _, _, _, hw⟩ := ht rfl
          rw [hw, Accts.read_write, if_neg (fun ⟨e, _⟩ => hne e), hA1, Accts.read_write, if_pos ⟨rfl, rfl⟩]
      have hl := hS' c.caller (nftKey (esdtKeyPrefix ++ tok) (mdNonce t))
      rw [hread] at hk0 hdec0 hl
      have hmdt : t.md = none := by
        rcases nftStoredForm_cases { t with value := some (x - q) } with he | he
        · exact absurd he hk0
        · rw [he] at hdec0 hl
          rw [roundtrip_of_length _ (hnum.withValue _) hl] at hdec0
          cases hdec0; exact hmd0
      -- the sender's entry before the step was under the same key (nonce 0) and had no metadata
      have hn0 : n = 0 := by
        cases n with
        | zero => rfl
        | succ n => have := hmdn t hdec (Nat.succ_pos n); rw [hmdt] at this; cases this
      subst hn0
      rw [mdNonce_none hmdt] at hcur0
      cases l
      · rw [(hf rfl).2, hA1, Accts.read_write, if_neg (fun ⟨e, _⟩ => hne e.symm)] at hcur0
        exact hI.kind dst h0 _ t hne1 hdec hmdt cur0 hcur0
      · obtain ⟨cur, cv, _, _, _, e, hw⟩ := ht rfl
        rw [mdNonce_none hmdt] at hw
        rw [hw, Accts.read_write, if_pos ⟨rfl, rfl⟩] at hcur0
        have hl2 := hS' dst (nftKey (esdtKeyPrefix ++ tok) 0)
        rw [hw, Accts.read_write, if_pos ⟨rfl, rfl⟩] at hl2
        have hnum' : NumOK t' := by rw [e]; exact hnum.withValue _
        rcases tokenOf_nftStoredForm_md t' cur0 hnum' hl2 hcur0 with h | h
        · exact h
        · rw [h, e]; exact hmdt
    · -- another key: both reads are as before the step
      have hr1 : c'.accts.read c.caller k = ctx.accts.read c.caller k := by
        cases l
        · rw [(hf rfl).2, hA1, Accts.read_write, if_neg (fun ⟨_, e⟩ => hkW e.symm)]
        · obtain ⟨_, _, _, _, _, _, hw⟩ := ht rfl
          rw [hw, Accts.read_write, if_neg (fun ⟨_, e⟩ => hkW e.symm), hA1, Accts.read_write,
            if_neg (fun ⟨_, e⟩ => hkW e.symm)]
      have hr2 : c'.accts.read dst k = ctx.accts.read dst k := by
        cases l
        · rw [(hf rfl).2, hA1, Accts.read_write, if_neg (fun ⟨_, e⟩ => hkW e.symm)]
        · obtain ⟨_, _, _, _, _, _, hw⟩ := ht rfl
          rw [hw, Accts.read_write, if_neg (fun ⟨_, e⟩ => hkW e.symm), hA1, Accts.read_write,
            if_neg (fun ⟨_, e⟩ => hkW e.symm)]
      rw [hr1] at hk0 hdec0
      rw [hr2] at hcur0
      exact hI.kind dst h0 k t0 hk0 hdec0 hmd0 cur0 hcur0

end Esdt

namespace Esdt

/-- the invariant used for both sides: the kind clause only matters (and is only required) on the sender side -/
def MInv2 (c : Call) (A : Accts) : Prop :=
  Canon A ∧ Short A ∧ (c.caller = c.rcv → ∀ dst, c.args[0]? = some dst → Kind A c.caller dst)

theorem MInv2.of_minv {c : Call} {A : Accts} (h : MInv c A) : MInv2 c A := ⟨h.canon, h.short, fun _ => h.kind⟩
theorem MInv2.to_minv {c : Call} {A : Accts} (h : MInv2 c A) (hs : c.caller = c.rcv) : MInv c A :=
  ⟨h.1, h.2.1, h.2.2 hs⟩

theorem itemsSafe2 (env : Env) (c : Call) (hs : c.caller = c.rcv) (hc : c.caller ≠ systemAccountAddress)
    (hd : ∀ dst, c.args[0]? = some dst → dst ≠ systemAccountAddress) : ItemsSafe env c (MInv2 c) := by
  have base := itemsSafe_minv env c hc hd
  constructor
  · intro l dst tok n q v ctx hne h0 hI
    exact base.one_np l dst tok n q v ctx hne h0 (hI.to_minv hs)
  · intro l dst tok n q v ctx hne h0 hI
    apply Post.mono (base.one_inv l dst tok n q v ctx hne h0 (hI.to_minv hs))
    intro _ _ h; exact MInv2.of_minv h

theorem destItemsSafe2 (env : Env) (c : Call) (hs : c.caller ≠ c.rcv) (hr : c.rcv ≠ systemAccountAddress) :
    DestItemsSafe env c (MInv2 c) := by
  constructor
  · intro t tok mv ctx hI hv hmd
    refine np_addNFTToDestination env c.rcv t _ mv c.rae ctx hv ?_
    intro cur hcur
    exact ⟨(hI.1.acctVal hr).nft tok _ cur hcur, fun _ => hmd⟩
  · intro t tok mv ctx hI ⟨b, hdec⟩
    apply Post.mono (Post.and (spec_addNFTToDestination env c.rcv t _ mv c.rae ctx)
      (sp_addNFTToDestination env c.rcv t _ mv c.rae ctx hI.2.1))
    intro _ c' ⟨⟨cur, tv, cv, _, _, _, _, _, _, ht', _, hw⟩, hS'⟩
    refine ⟨CanonM.toCanon ?_ hS', hS', fun e => absurd e hs⟩
    rw [hw]
    apply canon_write _ _ _ hI.1.toM
    intro _ _
    rw [ht']
    exact entryWF_nftStoredForm _ _ (nftKey_matches tok t) ((decToken_num _ _ hdec).withValue _)
  · intro tok d ctx hI
    exact np_addToESDTBalance _ _ _ _ _ (hI.1.acctVal hr tok)
  · intro tok d ctx hI
    apply Post.mono (Post.and (spec_addToESDTBalance c.rcv _ d c.rae ctx) (sp_addToESDTBalance c.rcv _ d c.rae ctx hI.2.1))
    intro _ c' ⟨⟨t, v, ht, hty, hv, hnn, _, hw⟩, hS'⟩
    exact ⟨(OneWrite.canon ⟨ht, hty, hv, hnn, hw⟩ hI.1 (tokKey_esdt tok)).toCanon hS', hS', fun e => absurd e hs⟩

end Esdt
