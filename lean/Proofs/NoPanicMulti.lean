/-
  Proofs/NoPanicMulti.lean — MultiESDTNFTTransfer does not panic on a well-formed, short state: the concrete state
  invariant for the per-item helpers (`ItemsSafe` / `DestItemsSafe` of Proofs/NoPanic.lean).
-/
import Proofs.NoPanic
import Proofs.Short
namespace Esdt

/-- invariant of the sender-side item loop -/
structure MInv (c : Call) (A : Accts) : Prop where
  canon : Canon A
  short : Short A

theorem Canon.acctVal {A : Accts} (h : Canon A) {a : Bytes} (ha : a ≠ systemAccountAddress) : AcctVal A a := by
  intro s t ht
  obtain ⟨⟨v, hv, _⟩, _⟩ := h.read ⟨s, rfl⟩ ha ht
  simp [hv]

theorem transferOne_md (env : Env) (c : Call) (l : Bool) (dst tok : Bytes) (n q : Nat) (v : Bool) (ctx : Ctx) :
    Post (transferOne env c l dst tok n q v) ctx (fun _ _ =>
      ∀ t, decToken (ctx.accts.read c.caller (nftKey (esdtKeyPrefix ++ tok) n)) = some t → 0 < n → t.md.isSome = true) := by
  unfold transferOne
  xsteps
  apply Post.mono (spec_getNFTOnSender _ _ _ ctx)
  intro t c1 ⟨_, _, hdec, hmd, _⟩
  apply Post.intro
  intro _ _ t' hdec' hn
  rw [hdec] at hdec'; cases hdec'
  exact hmd hn

theorem nftKey_zero (tk : Bytes) : nftKey tk 0 = tk := by simp [nftKey, beBytes_zero]

theorem mdNonce_none {t : Token} (h : t.md = none) : mdNonce t = 0 := by simp [mdNonce, h]

theorem nftStoredForm_cases (t : Token) : nftStoredForm t = [] ∨ nftStoredForm t = encToken t := by
  unfold nftStoredForm
  split
  · split
    · exact Or.inl rfl
    · exact Or.inr rfl
  · exact Or.inl rfl

theorem tokenOf_nftStoredForm_md (t : Token) (cur : Token) (hn : NumOK t) (hl : (nftStoredForm t).length < two63)
    (h : tokenOf (nftStoredForm t) = some cur) : cur.md = none ∨ cur.md = t.md := by
  rcases nftStoredForm_cases t with he | he
  · rw [he] at h; simp [tokenOf] at h; subst h; exact Or.inl rfl
  · rw [he] at h hl
    rw [tokenOf, if_neg (encToken_ne_nil t), roundtrip_of_length t hn hl] at h
    cases h; exact Or.inr rfl

theorem itemsSafe_minv (env : Env) (c : Call) (hc : c.caller ≠ systemAccountAddress)
    (hd : ∀ dst, c.args[0]? = some dst → dst ≠ systemAccountAddress) : ItemsSafe env c (MInv c) := by
  constructor
  · -- no panic
    intro l dst tok n q v ctx hne h0 hI
    exact np_transferOne env c l dst tok n q v ctx (hI.canon.acctVal hc) hne (fun _ => hI.canon.acctVal (hd dst h0))
  · -- invariant
    intro l dst tok n q v ctx hne h0 hI
    apply Post.mono (Post.and (canon_transferOne env c l dst tok n q v ctx hI.canon.toM)
      (sp_transferOne env c l dst tok n q v ctx hI.short))
    intro t' c' ⟨hCM, hS'⟩
    exact ⟨hCM.toCanon hS', hS'⟩

end Esdt

namespace Esdt

/-- the invariant used for both sides -/
def MInv2 (_c : Call) (A : Accts) : Prop := Canon A ∧ Short A

theorem MInv2.of_minv {c : Call} {A : Accts} (h : MInv c A) : MInv2 c A := ⟨h.canon, h.short⟩
theorem MInv2.to_minv {c : Call} {A : Accts} (h : MInv2 c A) : MInv c A := ⟨h.1, h.2⟩

theorem itemsSafe2 (env : Env) (c : Call) (hs : c.caller = c.rcv) (hc : c.caller ≠ systemAccountAddress)
    (hd : ∀ dst, c.args[0]? = some dst → dst ≠ systemAccountAddress) : ItemsSafe env c (MInv2 c) := by
  have base := itemsSafe_minv env c hc hd
  constructor
  · intro l dst tok n q v ctx hne h0 hI
    exact base.one_np l dst tok n q v ctx hne h0 hI.to_minv
  · intro l dst tok n q v ctx hne h0 hI
    apply Post.mono (base.one_inv l dst tok n q v ctx hne h0 hI.to_minv)
    intro _ _ h; exact MInv2.of_minv h

theorem destItemsSafe2 (env : Env) (c : Call) (hs : c.caller ≠ c.rcv) (hr : c.rcv ≠ systemAccountAddress) :
    DestItemsSafe env c (MInv2 c) := by
  constructor
  · intro t tok mv ctx hI hv hmd
    refine np_addNFTToDestination env c.rcv t _ mv c.rae ctx hv ?_
    intro cur hcur
    exact (hI.1.acctVal hr).nft tok _ cur hcur
  · intro t tok mv ctx hI ⟨b, hdec⟩
    apply Post.mono (Post.and (spec_addNFTToDestination env c.rcv t _ mv c.rae ctx)
      (sp_addNFTToDestination env c.rcv t _ mv c.rae ctx hI.2))
    intro _ c' ⟨⟨cur, tv, cv, _, _, _, _, _, _, ht', _, hw⟩, hS'⟩
    refine ⟨CanonM.toCanon ?_ hS', hS'⟩
    rw [hw]
    apply canon_write _ _ _ hI.1.toM
    intro _ _
    rw [ht']
    exact entryWF_nftStoredForm _ _ (nftKey_matches tok t) ((decToken_num _ _ hdec).withValue _)
  · intro tok d ctx hI
    exact np_addToESDTBalance _ _ _ _ _ (hI.1.acctVal hr tok)
  · intro tok d ctx hI
    apply Post.mono (Post.and (spec_addToESDTBalance c.rcv _ d c.rae ctx) (sp_addToESDTBalance c.rcv _ d c.rae ctx hI.2))
    intro _ c' ⟨⟨t, v, ht, hty, hv, hnn, _, hw⟩, hS'⟩
    exact ⟨(OneWrite.canon ⟨ht, hty, hv, hnn, hw⟩ hI.1 (tokKey_esdt tok)).toCanon hS', hS'⟩

end Esdt
