/-
  Proofs/SkvExact.lean — C05: SaveKeyValue writes exactly the listed key/value pairs.
  The loop `skvLoop` (which skips the trie write when the stored value already equals the listed one, and
  interleaves gas guards) leaves the caller's storage equal — as a map from keys to values — to the plain left fold
  of `put` over the pairs.
-/
import Proofs.Ledger
namespace Esdt

/-- spec: write the listed pairs one after the other, left to right (an empty value deletes; a later pair for the
    same key overrides an earlier one); a dangling last element is ignored (the function rejects odd counts) -/
def putPairs : Store → List Bytes → Store
  | s, k :: v :: rest => putPairs (s.put k v) rest
  | s, _ => s

theorem skvLoop_exact (env : Env) (c : Call) : ∀ (n : Nat) (l : List Bytes) (g : Nat) (ctx : Ctx) (s : Store),
    l.length ≤ 2 * n → (∀ k, ctx.accts.read c.caller k = s.get k) →
    Post (skvLoop env c l g) ctx (fun _ c' => ∀ k, c'.accts.read c.caller k = (putPairs s l).get k) := by
  intro n
  induction n with
  | zero =>
    intro l g ctx s hl hs
    have : l = [] := List.eq_nil_of_length_eq_zero (by omega)
    subst this; unfold skvLoop; exact Post.pure (by simpa [putPairs] using hs)
  | succ n ih =>
    intro l g ctx s hl hs
    match l, hl with
    | [], _ => unfold skvLoop; exact Post.pure (by simpa [putPairs] using hs)
    | [_], _ => unfold skvLoop; exact Post.goPanic
    | k :: v :: rest, hl =>
      have hr : rest.length ≤ 2 * n := by simp at hl; omega
      unfold skvLoop
      simp only [putPairs]
      xsteps
      apply Post.mono (spec_readKey _ _ ctx)
      intro old c1 ⟨h1, hold⟩
      subst hold
      split
      · rename_i heq
        refine ih rest _ c1 (s.put k v) hr ?_
        intro k'
        rw [h1, Store.get_put]
        split
        · rename_i hk; subst hk; exact heq
        · exact hs k'
      · xsteps
        apply Post.mono (spec_writeKey _ _ _ c1)
        intro _ c2 h2
        refine ih rest _ c2 (s.put k v) hr ?_
        intro k'
        rw [h2, h1, Accts.read_write, Store.get_put]
        by_cases hk : k = k'
        · simp [hk]
        · simp [hk, hs k']

/-- SaveKeyValue: on success the caller's storage is the listed pairs written in order over the previous storage -/
theorem saveKeyValue_exact (env : Env) (c : Call) (ctx : Ctx) :
    Post (saveKeyValue env c) ctx (fun _ c' =>
      ∀ k, c'.accts.read c.caller k = (putPairs (ctx.accts.get c.caller).store c.args).get k) := by
  unfold saveKeyValue
  xsteps
  apply Post.mono (skvLoop_exact env c c.args.length c.args _ ctx _ (by omega) (fun _ => rfl))
  intro r c1 hr
  xsteps
  apply Post.pure
  exact hr

end Esdt
