/-
  Proofs/NetworkMeta.lean — C08 at history level: in the NFT world (Proofs/NetworkNFT.lean) every copy of an NFT — every
  entry stored under its key in any account of any shard, and every payload in flight for it — carries the same metadata,
  along any history of transfers, deliveries and refunds.
-/
import Proofs.NetworkNFT
namespace Esdt

/-- every non-empty entry under key `k` has metadata `m0` -/
def AllMd (m0 : MetaData) (k : Bytes) (A : Accts) : Prop :=
  ∀ a t, A.read a k ≠ [] → decToken (A.read a k) = some t → t.md = some m0

/-- … and so has every payload in flight for that key -/
def MsgMd (m0 : MetaData) (k : Bytes) (m : NMsg) : Prop :=
  m.key = k → ∀ t, decToken m.payload = some t → t.md = some m0

theorem allMd_write_nft {m0 : MetaData} {k : Bytes} {A : Accts} (a k1 : Bytes) (t' : Token) (hA : AllMd m0 k A)
    (hn : NumOK t') (hl : (nftStoredForm t').length < two63) (hmd : k1 = k → t'.md = some m0) :
    AllMd m0 k (A.write a k1 (nftStoredForm t')) := by
  intro a2 t0 hne hdec
  rw [Accts.read_write] at hne hdec
  split at hne
  · rename_i he
    rw [if_pos he] at hdec
    rcases nftStoredForm_cases' t' with ⟨he0, _⟩ | he1
    · exact absurd he0 hne
    · rw [he1] at hdec hl
      rw [roundtrip_of_length t' hn hl] at hdec
      cases hdec
      exact hmd he.2
  · rename_i he
    rw [if_neg he] at hdec
    exact hA a2 t0 hne hdec

/-- sender side, destination on another shard -/
theorem md_user_cross (m0 : MetaData) (k : Bytes) (env : Env) (c : Call) (A A' : Accts) (out : VMOutput) (ctx' : Ctx)
    (hI : SInv A) (hM : AllMd m0 k A)
    (hs : present env.nshards env.self c.caller = true)
    (hx : ∀ d, c.args[3]? = some d → env.self ≠ shardOf env.nshards d)
    (h : esdtNFTTransferSender env c { accts := A } = .ok (out, ctx')) (hA' : ctx'.accts = A') (hS' : Short A') :
    AllMd m0 k A' ∧ ∀ m, msgOf c out = some m → MsgMd m0 k m := by
  obtain ⟨tok, nb, qb, dst, t, v, h0, h1, h2, h3, hn0, hle, hw, hnon, hlen, tr, hout, hdata⟩ :=
    (nftTransferSender_crossShard_effect_len env c { accts := A } hs hx).elim h
  rw [hA'] at hw
  obtain ⟨rest, hargs⟩ := args_cons4 h0 h1 h2 h3
  have hnum : NumOK t := decToken_num _ _ hw.old
  obtain ⟨mt, hmt⟩ := Option.isSome_iff_exists.mp hw.hasMeta
  have hpos : mt.nonce ≠ 0 := hI.mdpos _ _ t mt (tokKey_nft _ _) hw.present hw.old hmt
  have hnonce : mdNonce t = u64 (beNat nb) := by
    rcases hnon mt hmt with h | h
    · exact absurd h hpos
    · simp [mdNonce, hmt, h]
  -- the entry read is under the key it is written back to; if that key is k its metadata is m0
  have hk : nftKey (esdtKeyPrefix ++ tok) (mdNonce t) = k → t.md = some m0 := by
    intro hk
    rw [hnonce] at hk
    have := hM c.caller t (by rw [← hk]; exact hw.present) (by rw [← hk]; exact hw.old)
    exact this
  have hl := hS' c.caller (nftKey (esdtKeyPrefix ++ tok) (mdNonce t))
  rw [hw.written, Accts.read_write, if_pos ⟨rfl, rfl⟩] at hl
  constructor
  · rw [hw.written]
    exact allMd_write_nft _ _ _ hM (hnum.withValue _) hl hk
  · intro m hm
    have hparse : parseCall tr.data = .ok (fnESDTNFTTransfer,
        tok :: nb :: qb :: encToken { t with value := some (beNat qb : Int) } :: rest) := by
      rw [hdata, parseCall_encodeCall _ _ (by decide) (by decide), hargs]
      simp
    simp only [msgOf, hout, hparse] at hm
    cases hm
    intro hkey t2 hdec2
    have hrt : decToken (encToken { t with value := some (beNat qb : Int) }) = some { t with value := some (beNat qb : Int) } :=
      roundtrip_of_length _ (hnum.withValue _) hlen
    simp only [NMsg.key, hrt] at hkey
    rw [hrt] at hdec2
    cases hdec2
    exact hk hkey

/-- sender side, destination on the same shard -/
theorem md_user_same (m0 : MetaData) (k : Bytes) (env : Env) (c : Call) (A A' : Accts) (out : VMOutput) (ctx' : Ctx)
    (hI : SInv A) (hM : AllMd m0 k A)
    (hs : present env.nshards env.self c.caller = true)
    (hx : ∀ d, c.args[3]? = some d → env.self = shardOf env.nshards d)
    (h : esdtNFTTransferSender env c { accts := A } = .ok (out, ctx')) (hA' : ctx'.accts = A') (hS' : Short A') :
    AllMd m0 k A' := by
  obtain ⟨tok, nb, qb, dst, t, v, A1, cur, cv, h0, h1, h2, h3, hn0, hle, hw, hcur, _, hcv, hfin⟩ :=
    (nftTransferSender_sameShard_effect env c { accts := A } hs hx).elim h
  obtain ⟨dst', h3', _, hne, _⟩ := (nftTransferSender_destination_ok env c { accts := A }).elim h
  rw [h3] at h3'; cases h3'
  rw [hA'] at hfin
  have hnum : NumOK t := decToken_num _ _ hw.old
  obtain ⟨mt, hmt⟩ := Option.isSome_iff_exists.mp hw.hasMeta
  have hpos : mt.nonce ≠ 0 := hI.mdpos _ _ t mt (tokKey_nft _ _) hw.present hw.old hmt
  have hnonce : mdNonce t = u64 (beNat nb) := by
    rcases (nftSender_nonce env c { accts := A } hs).elim h tok nb t mt h0 h1 hw.old hmt with hz | hz
    · exact absurd hz hpos
    · simp [mdNonce, hmt, hz]
  have hk : nftKey (esdtKeyPrefix ++ tok) (mdNonce t) = k → t.md = some m0 := by
    intro hk
    rw [hnonce] at hk
    exact hM c.caller t (by rw [← hk]; exact hw.present) (by rw [← hk]; exact hw.old)
  have hA1 : A1 = A.write c.caller (nftKey (esdtKeyPrefix ++ tok) (mdNonce t))
      (nftStoredForm { t with value := some (v - beNat qb) }) := hw.written
  have hl1 := hS' c.caller (nftKey (esdtKeyPrefix ++ tok) (mdNonce t))
  rw [hfin, Accts.read_write, if_neg (fun ⟨e, _⟩ => hne e), hA1, Accts.read_write, if_pos ⟨rfl, rfl⟩] at hl1
  have hl2 := hS' dst (nftKey (esdtKeyPrefix ++ tok) (mdNonce t))
  rw [hfin, Accts.read_write, if_pos ⟨rfl, rfl⟩] at hl2
  rw [hfin]
  apply allMd_write_nft _ _ _ _ (hnum.withValue _) hl2 hk
  rw [hA1]
  exact allMd_write_nft _ _ _ hM (hnum.withValue _) hl1 hk

/-- destination side -/
theorem md_dest (m0 : MetaData) (k : Bytes) (env : Env) (c : Call) (A A' : Accts) (out : VMOutput) (ctx' : Ctx)
    (hM : AllMd m0 k A) (hne : c.caller ≠ c.rcv)
    (tok nb qb payload : Bytes) (hargs : c.args = [tok, nb, qb, payload])
    (t : Token) (hdec : decToken payload = some t)
    (hmsg : nftKey (esdtKeyPrefix ++ tok) (mdNonce t) = k → t.md = some m0)
    (h : esdtNFTTransfer env c { accts := A } = .ok (out, ctx')) (hA' : ctx'.accts = A') (hS' : Short A') :
    AllMd m0 k A' := by
  obtain ⟨tok', payload', t', cur, tv, cv, h0, h3, hdec', _, _, hcur, _, _, _, htv, hcv, hw⟩ :=
    (nftTransfer_dest_effect env c { accts := A } hne).elim h
  rw [hargs] at h0 h3
  simp at h0 h3
  subst h0; subst h3
  rw [hdec] at hdec'; cases hdec'
  rw [hA'] at hw
  have hl := hS' c.rcv (nftKey (esdtKeyPrefix ++ tok) (mdNonce t))
  rw [hw, Accts.read_write, if_pos ⟨rfl, rfl⟩] at hl
  rw [hw]
  exact allMd_write_nft _ _ _ hM ((decToken_num _ _ hdec).withValue _) hl hmsg

end Esdt

namespace Esdt

/-- the metadata invariant of the world for one NFT (key `k`, metadata `m0`) -/
structure MdInv (m0 : MetaData) (k : Bytes) (w : NFTWorld) : Prop where
  shards : ∀ A ∈ w.shards, AllMd m0 k A
  msgs : ∀ m ∈ w.inflight, MsgMd m0 k m

theorem nftStep_md (m0 : MetaData) (k : Bytes) (e : Env) (w : NFTWorld) (st : NStep) (hI : NWorldInv e w)
    (hM : MdInv m0 k w) (hok : NFTStepOK st) : MdInv m0 k (nftStep e w st) := by
  cases st with
  | user c =>
    obtain ⟨hself, hsys, hdsys⟩ := hok
    simp only [nftStep]
    cases hr : runNFT e w.shards (shardOf e.nshards c.caller) c with
    | none => exact hM
    | some p =>
      obtain ⟨out, A'⟩ := p
      simp only []
      obtain ⟨A, ctx', hA, hex, hA'⟩ := runNFT_some hr
      have hIA : SInv A := hI.shards A (List.mem_of_getElem? hA)
      have hMA : AllMd m0 k A := hM.shards A (List.mem_of_getElem? hA)
      let env : Env := { e with self := shardOf e.nshards c.caller }
      have hs : present env.nshards env.self c.caller = true := present_self _ _
      have hS' : Short A' := by rw [← hA']; exact (sp_esdtNFTTransfer env c { accts := A } hIA.short).elim hex
      have hsend : esdtNFTTransferSender env c { accts := A } = .ok (out, ctx') :=
        (nftTransfer_sender_path env c { accts := A } hself).elim hex
      cases h3 : c.args[3]? with
      | none =>
        exfalso
        obtain ⟨dst', h3', _⟩ := (nftTransferSender_destination_ok env c { accts := A }).elim hsend
        rw [h3] at h3'; cases h3'
      | some dst =>
        simp only []
        by_cases hx : shardOf e.nshards c.caller = shardOf e.nshards dst
        · simp only [hx, if_true]
          have hx' : ∀ d, c.args[3]? = some d → env.self = shardOf env.nshards d := by
            intro d hd; rw [h3] at hd; cases hd; exact hx
          have := md_user_same m0 k env c A A' out ctx' hIA hMA hs hx' hsend hA' hS'
          exact ⟨by rw [← hx]; exact mem_set_of _ _ _ _ hM.shards this, hM.msgs⟩
        · simp only [hx, if_false]
          have hx' : ∀ d, c.args[3]? = some d → env.self ≠ shardOf env.nshards d := by
            intro d hd; rw [h3] at hd; cases hd; exact hx
          obtain ⟨h1, h2⟩ := md_user_cross m0 k env c A A' out ctx' hIA hMA hs hx' hsend hA' hS'
          refine ⟨mem_set_of _ _ _ _ hM.shards h1, ?_⟩
          intro m' hm'
          rcases List.mem_append.mp hm' with h' | h'
          · exact hM.msgs m' h'
          · cases hmo : msgOf c out with
            | none => rw [hmo] at h'; simp at h'
            | some m => rw [hmo] at h'; simp at h'; rw [h']; exact h2 m hmo
  | deliver i =>
    simp only [nftStep]
    cases hm : w.inflight[i]? with
    | none => exact hM
    | some m =>
      simp only []
      have hmok := hI.msgs m (List.mem_of_getElem? hm)
      have hmm := hM.msgs m (List.mem_of_getElem? hm)
      cases hrf : m.refund
      · simp only [Bool.false_eq_true, if_false]
        cases hr : runNFT e w.shards (shardOf e.nshards m.rcv) (nDeliveryCall m) with
        | none =>
          simp only []
          exact ⟨hM.shards, mem_set_of _ _ _ _ hM.msgs hmm⟩
        | some p =>
          obtain ⟨out, A'⟩ := p
          simp only []
          obtain ⟨A, ctx', hA, hex, hA'⟩ := runNFT_some hr
          have hIA : SInv A := hI.shards A (List.mem_of_getElem? hA)
          have hMA : AllMd m0 k A := hM.shards A (List.mem_of_getElem? hA)
          let env : Env := { e with self := shardOf e.nshards m.rcv }
          obtain ⟨t, q, hdec, _⟩ := hmok.payload
          have hne : (nDeliveryCall m).caller ≠ (nDeliveryCall m).rcv := hmok.ne
          have hS' : Short A' := by
            rw [← hA']; exact (sp_esdtNFTTransfer env (nDeliveryCall m) { accts := A } hIA.short).elim hex
          have := md_dest m0 k env (nDeliveryCall m) A A' out ctx' hMA hne m.tok m.nb m.qb m.payload rfl t hdec
            (fun hk => hmm (by simp only [NMsg.key, hdec]; exact hk) t hdec) hex hA' hS'
          exact ⟨mem_set_of _ _ _ _ hM.shards this, fun m' hm' => hM.msgs m' (List.mem_of_mem_eraseIdx hm')⟩
      · simp only [if_true]; exact hM
  | refund i =>
    simp only [nftStep]
    cases hm : w.inflight[i]? with
    | none => exact hM
    | some m =>
      simp only []
      have hmok := hI.msgs m (List.mem_of_getElem? hm)
      have hmm := hM.msgs m (List.mem_of_getElem? hm)
      cases hrf : m.refund
      · simp only [Bool.not_false, if_true]; exact hM
      · simp only [Bool.not_true, Bool.false_eq_true, if_false]
        cases hr : runNFT e w.shards (shardOf e.nshards m.caller) (nRefundCall m) with
        | none => exact hM
        | some p =>
          obtain ⟨out, A'⟩ := p
          simp only []
          obtain ⟨A, ctx', hA, hex, hA'⟩ := runNFT_some hr
          have hIA : SInv A := hI.shards A (List.mem_of_getElem? hA)
          have hMA : AllMd m0 k A := hM.shards A (List.mem_of_getElem? hA)
          let env : Env := { e with self := shardOf e.nshards m.caller }
          obtain ⟨t, q, hdec, _⟩ := hmok.payload
          have hne : (nRefundCall m).caller ≠ (nRefundCall m).rcv := fun h => hmok.ne h.symm
          have hS' : Short A' := by
            rw [← hA']; exact (sp_esdtNFTTransfer env (nRefundCall m) { accts := A } hIA.short).elim hex
          have := md_dest m0 k env (nRefundCall m) A A' out ctx' hMA hne m.tok m.nb m.qb m.payload rfl t hdec
            (fun hk => hmm (by simp only [NMsg.key, hdec]; exact hk) t hdec) hex hA' hS'
          exact ⟨mem_set_of _ _ _ _ hM.shards this, fun m' hm' => hM.msgs m' (List.mem_of_mem_eraseIdx hm')⟩

theorem nftRun_md (m0 : MetaData) (k : Bytes) (e : Env) : ∀ (steps : List NStep) (w : NFTWorld), NWorldInv e w →
    MdInv m0 k w → (∀ s ∈ steps, NFTStepOK s) → MdInv m0 k (nftRun e steps w) := by
  intro steps
  induction steps with
  | nil => intro w _ hM _; exact hM
  | cons s rest ih =>
    intro w hI hM hok
    have hok1 := hok s (by simp)
    have hI1 := (nftStep_supply e w s hI hok1 []).2
    have hM1 := nftStep_md m0 k e w s hI hM hok1
    exact ih (nftStep e w s) hI1 hM1 (fun s' hs' => hok s' (by simp [hs']))

end Esdt
