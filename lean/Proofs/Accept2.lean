/-
  Proofs/Accept2.lean — total correctness of DELIVERIES: the destination half of ESDTTransfer / ESDTNFTTransfer SUCCEEDS
  on the destination shard and credits exactly the carried amount, unless one of the refusals the property names applies
  (destination entry frozen, token paused, account not payable, — for NFTs — another hash on the destination).
  Together with the gate theorems (C04: those refusals DO refuse) this makes "accepted unless frozen / paused / not
  payable" an equivalence on well-formed destination states.
-/
import Proofs.Accept
namespace Esdt

/-- the gate as the property words it: open for return-after-error executions and for the system contract's own
    account, otherwise open iff the entry is not frozen and the token not paused on this shard -/
theorem M.pure_apply {α} (a : α) (c : Ctx) : M.pure a c = .ok (a, c) := rfl

def GatePasses (A : Accts) (addr key : Bytes) (t : Token) (rae : Bool) : Prop :=
  rae = true ∨ addr = esdtSCAddress ∨ (frozenOf t.properties = false ∧ pausedIn A key = false)

theorem checkFrozeAndPause_accepts (a k : Bytes) (t : Token) (rae : Bool) (ctx : Ctx)
    (hg : GatePasses ctx.accts a k t rae) : checkFrozeAndPause a k t rae ctx = .ok ((), ctx) := by
  unfold checkFrozeAndPause
  by_cases hr : rae = true
  · simp [hr, Pure.pure, M.pure]
  · by_cases ha : a = esdtSCAddress
    · simp [hr, ha, Pure.pure, M.pure]
    · rcases hg with h | h | ⟨hf, hp⟩
      · exact absurd h hr
      · exact absurd h ha
      · have hp' : ((ctx.accts.get systemAccountAddress).store.get k).length = 2 →
            pausedOf ((ctx.accts.get systemAccountAddress).store.get k) = false := by
          intro hl
          have := hp
          simp only [pausedIn, Accts.read, hl, decide_true, Bool.true_and] at this
          exact this
        simp only [hr, ha, if_false, Bool.false_eq_true, isPaused, Esdt.readKey, Esdt.guardE, hf, Bind.bind, M.bind,
          Pure.pure, M.pure]
        by_cases hl : ((ctx.accts.get systemAccountAddress).store.get k).length = 2
        · simp [hl, hp' hl, M.pure_apply]
        · simp [hl, M.pure_apply]

/-- a credit / debit through `addToESDTBalance` succeeds on every well-formed fungible entry whose gate passes, when the
    result is not negative and still fits -/
theorem addToESDTBalance_accepts (a k : Bytes) (d : Int) (rae : Bool) (ctx : Ctx) (hnf : ctx.failAt = none)
    (t : Token) (v : Int) (ht : tokenOf (ctx.accts.read a k) = some t) (hty : t.type = 0)
    (hv : t.value = some v) (h0 : 0 ≤ v + d) (hg : GatePasses ctx.accts a k t rae)
    (hlen : (encToken { t with value := some (v + d) }).length < two63) :
    ∃ ctx', addToESDTBalance a k d rae ctx = .ok ((), ctx') ∧ ctx'.failAt = none ∧
      ctx'.accts = ctx.accts.write a k (storedForm { t with value := some (v + d) }) := by
  obtain ⟨c1, h1, hnf1, ha1⟩ := getESDTDataFromKey_accepts a k t ctx hnf ht
  obtain ⟨c2, h2, hnf2, ha2⟩ := saveESDTData_accepts a k { t with value := some (v + d) } (v + d) c1 hnf1 rfl hlen
  have hneg : ¬ (v + d < 0) := by omega
  have hgate := checkFrozeAndPause_accepts a k t rae c1 (by rw [ha1]; exact hg)
  refine ⟨c2, ?_, hnf2, by rw [ha2, ha1]⟩
  unfold addToESDTBalance
  simp only [Bind.bind, M.bind, h1, Esdt.guardE, hty, ne_eq, not_true_eq_false, decide_false, Bool.false_eq_true, if_false,
    Pure.pure, M.pure, deref, hv, hneg, hgate]
  rw [hty] at h2
  exact h2

/-- the answer of the payability oracle that lets a credit through: asked only when `must`, and then it said yes -/
theorem verifyPayableIf_accepts (env : Env) (must : Bool) (a : Bytes) (ctx : Ctx) (hnf : ctx.failAt = none)
    (hp : must = true → env.payable a = .yes) :
    ∃ ctx', verifyPayableIf env must a ctx = .ok ((), ctx') ∧ ctx'.failAt = none ∧ ctx'.accts = ctx.accts := by
  unfold verifyPayableIf
  cases must with
  | false => exact ⟨ctx, rfl, hnf, rfl⟩
  | true =>
    simp only [if_true, verifyPayable, Esdt.tick, hnf, Bind.bind, M.bind, hp rfl, Pure.pure, M.pure,
      List.length_cons, reduceCtorEq, if_false]
    exact ⟨_, rfl, rfl, rfl⟩

/-- DELIVERY of an ESDTTransfer (the destination half: sender not on this shard, destination here; any call type, any gas,
    with or without an attached call): it SUCCEEDS and credits exactly the carried amount whenever the destination's entry
    is a well-formed fungible entry, the gate passes (not frozen, not paused — or a flagged refund / the system contract's
    own account) and, where payability must be verified, the oracle says yes. -/
theorem esdtTransfer_delivery_accepted (env : Env) (c : Call) (ctx : Ctx) (tok amt : Bytes) (rest : List Bytes)
    (hargs : c.args = tok :: amt :: rest) (hamt : beNat amt ≠ 0) (hval : c.callValue = 0)
    (hsnd : present env.nshards env.self c.caller = false) (hdst : present env.nshards env.self c.rcv = true)
    (hmeta : shardOf env.nshards c.rcv ≠ metaShard) (hnf : ctx.failAt = none)
    (t : Token) (v : Int) (ht : tokenOf (ctx.accts.read c.rcv (esdtKeyPrefix ++ tok)) = some t) (hty : t.type = 0)
    (hv : t.value = some v) (hv0 : 0 ≤ v)
    (hg : GatePasses ctx.accts c.rcv (esdtKeyPrefix ++ tok) t c.rae)
    (hpay : mustVerifyPayable c 2 = true → env.payable c.rcv = .yes)
    (hlen : (encToken { t with value := some (v + (beNat amt : Int)) }).length < two63) :
    ∃ out ctx', esdtTransfer env c ctx = .ok (out, ctx') ∧ out.rc = 0 ∧
      ctx'.accts = ctx.accts.write c.rcv (esdtKeyPrefix ++ tok) (storedForm { t with value := some (v + (beNat amt : Int)) }) := by
  obtain ⟨c0, h0, hnf0, ha0⟩ := verifyPayableIf_accepts env (mustVerifyPayable c 2) c.rcv ctx hnf hpay
  obtain ⟨c1, h1, _, ha1⟩ := addToESDTBalance_accepts c.rcv (esdtKeyPrefix ++ tok) (beNat amt) c.rae c0 hnf0 t v
    (by rw [ha0]; exact ht) hty hv (by omega) (by rw [ha0]; exact hg) hlen
  rw [ha0] at ha1
  unfold esdtTransfer checkBasic
  simp only [hsnd, hdst, hval, hargs, Esdt.guardE, Esdt.argAt, deref, Bind.bind, M.bind, Pure.pure, M.pure,
    List.length_cons, List.getElem?_cons_zero, List.getElem?_cons_succ, ne_eq, not_true_eq_false,
    decide_false, Bool.false_eq_true, if_false, if_true, hmeta, hamt, reduceCtorEq, decide_true, M.pure_apply]
  have hl : ¬ (rest.length + 1 + 1 < 2) := by omega
  simp only [hl, decide_false, Bool.false_eq_true, if_false]
  rw [show (M.pure () ctx : Res (Unit × Ctx)) = .ok ((), ctx) from rfl]
  try dsimp only
  rw [h0]
  try dsimp only
  rw [h1]
  try dsimp only
  cases hsc : (isSmartContractAddress c.rcv && decide (rest.length + 1 + 1 > 2))
  · simp only [Bool.false_eq_true, if_false]
    exact ⟨_, _, rfl, by split <;> rfl, ha1⟩
  · simp only [if_true]
    have hlen2 : rest.length + 1 + 1 > 2 := by
      have := hsc; simp only [Bool.and_eq_true, decide_eq_true_eq] at this; exact this.2
    match rest, hlen2 with
    | f :: rest', _ =>
      simp only [List.getElem?_cons_zero, M.bind, M.pure_apply]
      exact ⟨_, _, rfl, rfl, ha1⟩

/-- the NFT credit succeeds when payability (if it has to be verified) is confirmed, the destination's entry under the
    payload's key is empty or decodes, the gate passes for the destination's entry and for the arriving entry (at the
    token key and at the NFT's own key), the destination holds no OTHER hash, and the merged entry is positive and fits -/
theorem addNFTToDestination_accepts (env : Env) (dst tk : Bytes) (t cur : Token) (m : MetaData) (tv cv : Int)
    (must rae : Bool) (ctx : Ctx) (hnf : ctx.failAt = none) (hmd : t.md = some m)
    (hpay : must = true → env.payable dst = .yes)
    (hcur : tokenOf (ctx.accts.read dst (nftKey tk m.nonce)) = some cur)
    (hhash : ∀ cm, cur.md = some cm → cm.hash = m.hash)
    (hg1 : GatePasses ctx.accts dst tk cur rae) (hg2 : GatePasses ctx.accts dst tk t rae)
    (hg3 : GatePasses ctx.accts dst (nftKey tk m.nonce) t rae)
    (htv : t.value = some tv) (hcv : cur.value = some cv) (hpos : 0 < tv + cv)
    (hlen : (encToken { t with value := some (tv + cv) }).length < two63) :
    ∃ ctx', addNFTToDestination env dst t tk must rae ctx = .ok ({ t with value := some (tv + cv) }, ctx') ∧
      ctx'.failAt = none ∧
      ctx'.accts = ctx.accts.write dst (nftKey tk m.nonce) (encToken { t with value := some (tv + cv) }) := by
  obtain ⟨ty, val, props, md, res⟩ := t
  simp only at hmd htv hlen hg2 hg3 ⊢
  subst hmd; subst htv
  obtain ⟨c0, h0, hnf0, ha0⟩ := verifyPayableIf_accepts env must dst ctx hnf hpay
  have hread : (c0.accts.get dst).store.get (nftKey tk m.nonce) = ctx.accts.read dst (nftKey tk m.nonce) := by
    rw [ha0]; rfl
  have hle : ¬ (tv + cv ≤ 0) := by omega
  have hget : ∃ c1, getNFTOnDestination dst tk m.nonce c0 = .ok ((cur, decide (ctx.accts.read dst (nftKey tk m.nonce) = [])), c1) ∧
      c1.failAt = none ∧ c1.accts = ctx.accts := by
    unfold getNFTOnDestination
    unfold tokenOf at hcur
    by_cases hraw : ctx.accts.read dst (nftKey tk m.nonce) = []
    · rw [if_pos hraw] at hcur
      cases hcur
      simp only [Esdt.readKey, Bind.bind, M.bind, hread, hraw, if_true, Pure.pure, M.pure, decide_true]
      exact ⟨_, rfl, hnf0, ha0⟩
    · rw [if_neg hraw] at hcur
      simp only [Esdt.readKey, Bind.bind, M.bind, hread, hraw, if_false, unmarshalToken, Esdt.tick, hnf0, hcur, Pure.pure,
        M.pure, List.length_cons, reduceCtorEq, decide_false]
      exact ⟨_, rfl, rfl, ha0⟩
  obtain ⟨c1, h1, hnf1, ha1⟩ := hget
  have hsame : checkSameHash cur ⟨ty, some tv, props, some m, res⟩ c1 = .ok ((), c1) := by
    unfold checkSameHash
    cases hc : cur.md with
    | none => rfl
    | some cm =>
      simp only [Esdt.guardE, hhash cm hc, ne_eq, not_true_eq_false, decide_false, Bool.false_eq_true, if_false,
        Pure.pure, M.pure]
  have hgate1 := checkFrozeAndPause_accepts dst tk cur rae c1 (by rw [ha1]; exact hg1)
  have hgate2 := checkFrozeAndPause_accepts dst tk ⟨ty, some (tv + cv), props, some m, res⟩ rae c1 (by rw [ha1]; exact hg2)
  have hgate3 := checkFrozeAndPause_accepts dst (nftKey tk m.nonce) ⟨ty, some (tv + cv), props, some m, res⟩ rae c1
    (by rw [ha1]; exact hg3)
  unfold addNFTToDestination saveNFT
  simp only [Bind.bind, M.bind, h0, h1, hgate1, hsame, Pure.pure, M.pure, deref, hcv, hgate2, hgate3, hle, if_false,
    marshalToken, Esdt.tick, hnf1, hlen, if_true, Esdt.writeKey, List.length_cons, reduceCtorEq, ha1]
  exact ⟨_, rfl, rfl, rfl⟩

/-- DELIVERY of an ESDTNFTTransfer message (destination half: sender elsewhere, destination on this shard; any call type,
    with or without an attached call): it SUCCEEDS and stores the payload with `Value := carried + held` whenever the
    payload decodes to an entry with metadata, the destination's slot is empty or decodes, the gates pass, payability is
    confirmed where it has to be, and the destination does not hold the same nonce with ANOTHER hash -/
theorem esdtNFTTransfer_delivery_accepted (env : Env) (c : Call) (ctx : Ctx) (tok nb qb payload : Bytes)
    (rest : List Bytes) (hargs : c.args = tok :: nb :: qb :: payload :: rest) (hval : c.callValue = 0)
    (hne : c.caller ≠ c.rcv)
    (hsnd : present env.nshards env.self c.caller = false) (hdst : present env.nshards env.self c.rcv = true)
    (hnf : ctx.failAt = none)
    (t cur : Token) (m : MetaData) (tv cv : Int) (hdec : decToken payload = some t) (hmd : t.md = some m)
    (hpay : mustVerifyPayable c 4 = true → env.payable c.rcv = .yes)
    (hcur : tokenOf (ctx.accts.read c.rcv (nftKey (esdtKeyPrefix ++ tok) m.nonce)) = some cur)
    (hhash : ∀ cm, cur.md = some cm → cm.hash = m.hash)
    (hg1 : GatePasses ctx.accts c.rcv (esdtKeyPrefix ++ tok) cur c.rae)
    (hg2 : GatePasses ctx.accts c.rcv (esdtKeyPrefix ++ tok) t c.rae)
    (hg3 : GatePasses ctx.accts c.rcv (nftKey (esdtKeyPrefix ++ tok) m.nonce) t c.rae)
    (htv : t.value = some tv) (hcv : cur.value = some cv) (hpos : 0 < tv + cv)
    (hlen : (encToken { t with value := some (tv + cv) }).length < two63) :
    ∃ out ctx', esdtNFTTransfer env c ctx = .ok (out, ctx') ∧ out.rc = 0 ∧
      ctx'.accts = ctx.accts.write c.rcv (nftKey (esdtKeyPrefix ++ tok) m.nonce)
        (encToken { t with value := some (tv + cv) }) := by
  have hun : unmarshalToken payload ctx = .ok (t, { ctx with deps := Dep.u :: ctx.deps }) := by
    simp only [unmarshalToken, Esdt.tick, hnf, Bind.bind, M.bind, hdec, Pure.pure, M.pure, List.length_cons, reduceCtorEq]
    rfl
  obtain ⟨c2, h2, _, ha2⟩ := addNFTToDestination_accepts env c.rcv (esdtKeyPrefix ++ tok) t cur m tv cv
    (mustVerifyPayable c 4) c.rae { ctx with deps := Dep.u :: ctx.deps } hnf hmd hpay hcur hhash hg1 hg2 hg3 htv hcv hpos hlen
  have ha2' : c2.accts = ctx.accts.write c.rcv (nftKey (esdtKeyPrefix ++ tok) m.nonce)
      (encToken { t with value := some (tv + cv), md := some m }) := by rw [ha2, hmd]
  unfold esdtNFTTransfer checkBasic
  simp only [hsnd, hdst, hval, hargs, hne, Esdt.guardE, Esdt.argAt, deref, Bind.bind, M.bind, Pure.pure, M.pure,
    List.length_cons, List.getElem?_cons_zero, List.getElem?_cons_succ, ne_eq, not_true_eq_false,
    decide_false, Bool.false_eq_true, if_false, if_true, reduceCtorEq, decide_true, hun, Bool.not_false, Bool.not_true]
  have hl1 : ¬ (rest.length + 1 + 1 + 1 + 1 < 2) := by omega
  have hl2 : ¬ (rest.length + 1 + 1 + 1 + 1 < 4) := by omega
  simp only [hl1, hl2, decide_false, Bool.false_eq_true, if_false]
  rw [show (M.pure () ctx : Res (Unit × Ctx)) = .ok ((), ctx) from rfl]
  try dsimp only
  rw [show (M.pure () ctx : Res (Unit × Ctx)) = .ok ((), ctx) from rfl]
  try dsimp only
  rw [hun]
  try dsimp only
  rw [h2]
  try dsimp only
  cases hsc : (decide (rest.length + 1 + 1 + 1 + 1 > 4) && isSmartContractAddress c.rcv)
  · simp only [Bool.false_eq_true, if_false, hmd, M.pure_apply]
    exact ⟨_, _, rfl, rfl, ha2'⟩
  · simp only [if_true]
    have hlen2 : rest.length + 1 + 1 + 1 + 1 > 4 := by
      have := hsc; simp only [Bool.and_eq_true, decide_eq_true_eq] at this; exact this.1
    match rest, hlen2 with
    | f :: rest', _ =>
      simp only [List.getElem?_cons_zero, M.bind, M.pure_apply, hmd]
      exact ⟨_, _, rfl, rfl, ha2'⟩

end Esdt
