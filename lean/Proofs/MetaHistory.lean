/-
  Proofs/MetaHistory.lean — C08, "no other function rewrites metadata": along any sequence of the supply operations
  (Proofs/SupplyHistory.lean) every copy of an NFT stored under its key keeps its metadata.  (ESDTNFTAddURI and
  ESDTNFTUpdateAttributes are the two functions that change metadata — `addURI_exact`, `updateAttributes_exact`; the
  transfer functions: Proofs/NetworkMeta.lean, NetworkMultiMeta.lean.)
-/
import Proofs.SupplyHistory
import Proofs.NetworkMultiMeta
namespace Esdt

theorem allMd_write_nil {m0 : MetaData} {k : Bytes} {A : Accts} (a k1 : Bytes) (hA : AllMd m0 k A) :
    AllMd m0 k (A.write a k1 []) := by
  intro a2 t0 hne hdec
  rw [Accts.read_write] at hne hdec
  split at hne
  · exact absurd rfl hne
  · rename_i he
    rw [if_neg he] at hdec
    exact hA a2 t0 hne hdec

/-- what is assumed of an operation for the NFT stored under key `k`: `k` is an NFT key, not the fungible key of the
    token a fungible operation names (token identifiers do not alias), and a create does not issue a nonce whose key is
    `k` (nonces are fresh: C07) -/
def MStepOK (k : Bytes) (s : SStep) : Prop :=
  ((s.op = .mint ∨ s.op = .localBurn ∨ s.op = .burn ∨ s.op = .wipe ∨ s.op = .freeze ∨ s.op = .unfreeze) →
    ∀ tok', s.c.args[0]? = some tok' → esdtKeyPrefix ++ tok' ≠ k) ∧
  (s.op = .create → ∀ tok' n, s.c.args[0]? = some tok' → nftKey (esdtKeyPrefix ++ tok') n ≠ k)

/-- one supply operation keeps the metadata of every entry stored under `k` -/
theorem meta_step (m0 : MetaData) (k : Bytes) (op : SupplyOp) (env : Env) (c : Call) (A : Accts) (out : VMOutput)
    (ctx' : Ctx) (hk : TokKey k) (hI : SInv A) (hM : AllMd m0 k A) (hok : MStepOK k ⟨op, env, c⟩)
    (h : op.run env c { accts := A } = .ok (out, ctx')) : AllMd m0 k ctx'.accts := by
  obtain ⟨hfung, hcreate⟩ := hok
  simp only at hfung hcreate
  have one : ∀ {tok' : Bytes} {t : Token} {v d : Int}, c.args[0]? = some tok' →
      OneWrite A ctx'.accts c.caller (esdtKeyPrefix ++ tok') t v d →
      (∀ tok', c.args[0]? = some tok' → esdtKeyPrefix ++ tok' ≠ k) → AllMd m0 k ctx'.accts := by
    intro tok' t v d h0 hw hkk
    rw [hw.written]; exact allMd_write_other _ _ _ hM (hkk tok' h0)
  have nft : ∀ {tok' : Bytes} {n : Nat} {t : Token} {v v' : Int},
      NftWrite A ctx'.accts c.caller (esdtKeyPrefix ++ tok') n t v v' → Short ctx'.accts →
      (∀ m, t.md = some m → m.nonce = 0 ∨ m.nonce = n) → AllMd m0 k ctx'.accts := by
    intro tok' n t v v' hw hS' hnon
    obtain ⟨mm, hmm⟩ := Option.isSome_iff_exists.mp hw.hasMeta
    have hpos : mm.nonce ≠ 0 := hI.mdpos _ _ t mm (tokKey_nft _ _) hw.present hw.old hmm
    have hnonce : mdNonce t = n := by
      rcases hnon mm hmm with h | h
      · exact absurd h hpos
      · simp [mdNonce, hmm, h]
    have hl := hS' c.caller (nftKey (esdtKeyPrefix ++ tok') (mdNonce t))
    rw [hw.written, Accts.read_write, if_pos ⟨rfl, rfl⟩] at hl
    rw [hw.written]
    apply allMd_write_nft _ _ _ hM ((decToken_num _ _ hw.old).withValue _) hl
    intro hkk
    rw [hnonce] at hkk
    exact hM c.caller t (by rw [← hkk]; exact hw.present) (by rw [← hkk]; exact hw.old)
  cases op with
  | mint =>
    obtain ⟨tok', _, t, v, h0, _, hw, _⟩ := (localMint_effect env c { accts := A }).elim h
    exact one h0 hw (hfung (Or.inl rfl))
  | localBurn =>
    obtain ⟨tok', _, t, v, h0, _, hw, _⟩ := (localBurn_effect env c { accts := A }).elim h
    exact one h0 hw (hfung (Or.inr (Or.inl rfl)))
  | burn =>
    obtain ⟨tok', _, t, v, h0, _, hw, _⟩ := (esdtBurn_effect env c { accts := A }).elim h
    exact one h0 hw (hfung (Or.inr (Or.inr (Or.inl rfl))))
  | addQty =>
    have hS' : Short ctx'.accts := (sp_esdtNFTAddQuantity env c { accts := A } hI.short).elim h
    obtain ⟨tok', nb, qb, t, v, h0, h1, _, _, hw, _⟩ := (addQuantity_effect env c { accts := A }).elim h
    exact nft hw hS' (fun m hm => (addQuantity_nonce env c { accts := A }).elim h tok' nb t m h0 h1 hw.old hm)
  | nftBurn =>
    have hS' : Short ctx'.accts := (sp_esdtNFTBurn env c { accts := A } hI.short).elim h
    obtain ⟨tok', nb, qb, t, v, h0, h1, _, _, _, hw, _⟩ := (nftBurn_effect env c { accts := A }).elim h
    exact nft hw hS' (fun m hm => (nftBurn_nonce env c { accts := A }).elim h tok' nb t m h0 h1 hw.old hm)
  | wipe =>
    obtain ⟨tok', t, h0, _, _, _, hw⟩ := (wipe_effect env c { accts := A }).elim h
    simp only at hw
    rw [hw]; exact allMd_write_nil _ _ hM
  | freeze =>
    obtain ⟨tok', t, h0, _, _, _, hw⟩ := (toggleFreeze_effect .freeze (by decide) env c { accts := A }).elim h
    simp only at hw
    rw [hw]; exact allMd_write_other _ _ _ hM (hfung (Or.inr (Or.inr (Or.inr (Or.inr (Or.inl rfl))))) tok' h0)
  | unfreeze =>
    obtain ⟨tok', t, h0, _, _, _, hw⟩ := (toggleFreeze_effect .unfreeze (by decide) env c { accts := A }).elim h
    simp only at hw
    rw [hw]; exact allMd_write_other _ _ _ hM (hfung (Or.inr (Or.inr (Or.inr (Or.inr (Or.inr rfl))))) tok' h0)
  | create =>
    obtain ⟨tok', qb, name, roy, hash, attrs, n, A1, h0, _, _, _, _, _, _, _, _, _, hA1, hw⟩ :=
      (nftCreate_effect env c { accts := A }).elim h
    simp only at hA1 hw
    rw [hw, hA1]
    exact allMd_write_other _ _ _ (allMd_write_other _ _ _ hM (hcreate rfl tok' n h0)) (tokKey_not_nonce tok' k hk)

end Esdt

namespace Esdt

theorem meta_history_run (m0 : MetaData) (k : Bytes) (hk : TokKey k) : ∀ (steps : List SStep) (A : Accts), SInv A →
    SStepsOK steps A → (∀ s ∈ steps, MStepOK k s) → AllMd m0 k A → AllMd m0 k (srun steps A).1 := by
  intro steps
  induction steps with
  | nil => intro A _ _ _ hM; exact hM
  | cons s rest ih =>
    intro A hI hok hms hM
    obtain ⟨⟨hc, hr, hw⟩, hrest⟩ := hok
    have hms' : ∀ s' ∈ rest, MStepOK k s' := fun s' hs' => hms s' (List.mem_cons_of_mem _ hs')
    simp only [srun]
    cases he : s.op.run s.env s.c { accts := A } with
    | ok p =>
      obtain ⟨out, ctx'⟩ := p
      simp only [he] at hrest ⊢
      obtain ⟨hI1, _⟩ := supply_step s.op s.env s.c A out ctx' hI hc hr hw he
      exact ih ctx'.accts hI1 hrest hms' (meta_step m0 k s.op s.env s.c A out ctx' hk hI hM (hms s List.mem_cons_self) he)
    | err e =>
      simp only [he] at hrest ⊢
      exact ih A hI hrest hms' hM
    | panic =>
      simp only [he] at hrest ⊢
      exact ih A hI hrest hms' hM

end Esdt
