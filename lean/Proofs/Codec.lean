/-
  Proofs/Codec.lean — big-endian integers, the amount codec, varints and the protobuf
  encode/decode round trips (C14), size = length.
-/
import Model.Codec
namespace Esdt

/-! ### big-endian integers -/

theorem toNat_ofNat_lt (n : Nat) (h : n < 256) : (UInt8.ofNat n).toNat = n := by
  simp [UInt8.toNat_ofNat']; omega

theorem leBytes_zero : leBytes 0 = [] := by unfold leBytes; simp

theorem leBytes_pos (n : Nat) (h : n ≠ 0) : leBytes n = UInt8.ofNat (n % 256) :: leBytes (n / 256) := by
  rw [leBytes]; simp [h]

theorem foldr_leBytes (n : Nat) : (leBytes n).foldr (fun x acc => acc * 256 + x.toNat) 0 = n := by
  induction n using Nat.strongRecOn with
  | _ n ih =>
    by_cases h : n = 0
    · subst h; simp [leBytes_zero]
    · rw [leBytes_pos n h]
      simp only [List.foldr_cons]
      rw [ih (n / 256) (by omega), toNat_ofNat_lt _ (Nat.mod_lt _ (by decide))]
      omega

@[simp] theorem beNat_beBytes (n : Nat) : beNat (beBytes n) = n := by
  unfold beNat beBytes
  rw [List.foldl_reverse]
  exact foldr_leBytes n

theorem beBytes_zero : beBytes 0 = [] := by simp [beBytes, leBytes_zero]

theorem beBytes_ne_nil (n : Nat) (h : n ≠ 0) : beBytes n ≠ [] := by
  intro he
  have := beNat_beBytes n
  rw [he] at this
  simp [beNat] at this
  omega

theorem beBytes_eq_nil_iff (n : Nat) : beBytes n = [] ↔ n = 0 := by
  constructor
  · intro h; by_cases h0 : n = 0
    · exact h0
    · exact absurd h (beBytes_ne_nil n h0)
  · intro h; subst h; exact beBytes_zero

/-! ### BigIntCaster -/

theorem beNat_singleton (b : UInt8) : beNat [b] = b.toNat := by simp [beNat]

/-- C14: the amount codec is lossless for every value, including nil, zero and negatives. -/
theorem decBigInt_encBigInt (v : Option Int) : decBigInt (encBigInt v) = some v := by
  cases v with
  | none => rfl
  | some i =>
    by_cases h0 : i = 0
    · subst h0; rfl
    · have hn : i.natAbs ≠ 0 := by omega
      have hne := beBytes_ne_nil _ hn
      have hval := beNat_beBytes i.natAbs
      simp only [encBigInt, h0, if_false]
      cases hb : beBytes i.natAbs with
      | nil => exact absurd hb hne
      | cons b rest =>
        rw [hb] at hval
        cases rest with
        | nil =>
          rw [beNat_singleton] at hval
          have hb0 : b ≠ 0 := by
            intro h; subst h; simp at hval; omega
          by_cases hneg : i < 0
          · simp [decBigInt, hneg, hb0, hval]; omega
          · simp [decBigInt, hneg, hb0, hval]; omega
        | cons b2 rest2 =>
          by_cases hneg : i < 0
          · simp [decBigInt, hneg, hval]; omega
          · simp [decBigInt, hneg, hval]; omega

/-- C14: the reported size equals the encoded length. -/
theorem sizeBigInt_eq_length (v : Option Int) : sizeBigInt v = (encBigInt v).length := by
  cases v with
  | none => rfl
  | some i =>
    by_cases h0 : i = 0
    · subst h0; rfl
    · simp [sizeBigInt, encBigInt, h0]

theorem encBigInt_length_pos (v : Option Int) : 0 < (encBigInt v).length := by
  rw [← sizeBigInt_eq_length]
  cases v with
  | none => simp [sizeBigInt]
  | some i => simp [sizeBigInt]; split <;> omega

/-! ### varints -/

theorem decVarintAux_enc (n : Nat) : ∀ (shift acc : Nat) (rest : Bytes),
    shift < 64 → acc + n * 2 ^ shift < two64 →
    decVarintAux shift acc (encVarint n ++ rest) = some (acc + n * 2 ^ shift, rest) := by
  induction n using Nat.strongRecOn with
  | _ n ih =>
    intro shift acc rest hs hlt
    unfold encVarint
    split
    · rename_i h
      have hge : ¬ shift ≥ 64 := by omega
      simp only [List.cons_append, List.nil_append, decVarintAux, hge, if_false]
      rw [toNat_ofNat_lt n (by omega), Nat.mod_eq_of_lt h, Nat.mod_eq_of_lt hlt]
      simp [h]
    · rename_i h
      have hge : ¬ shift ≥ 64 := by omega
      simp only [List.cons_append, decVarintAux, hge, if_false]
      have hb : (UInt8.ofNat (n % 128 + 128)).toNat = n % 128 + 128 := toNat_ofNat_lt _ (by omega)
      rw [hb]
      have h1 : ¬ (n % 128 + 128 < 128) := by omega
      have h2 : (n % 128 + 128) % 128 = n % 128 := by omega
      simp only [h1, if_false, h2]
      have hsplit : n * 2 ^ shift = (n % 128) * 2 ^ shift + (n / 128) * 2 ^ (shift + 7) := by
        rw [Nat.pow_add]
        have : (2:Nat) ^ 7 = 128 := by decide
        rw [this]
        have hn' : n = n % 128 + 128 * (n / 128) := (Nat.mod_add_div n 128).symm
        generalize 2 ^ shift = p at *
        conv => lhs; rw [hn']
        rw [Nat.add_mul]
        congr 1
        rw [Nat.mul_comm 128, Nat.mul_assoc, Nat.mul_comm p 128]
      have hacc : (acc + n % 128 * 2 ^ shift) % two64 = acc + n % 128 * 2 ^ shift := by
        apply Nat.mod_eq_of_lt; omega
      rw [hacc]
      have hs' : shift + 7 < 64 := by
        have h128 : 128 ≤ n := by omega
        have : 128 * 2 ^ shift ≤ n * 2 ^ shift := Nat.mul_le_mul_right _ h128
        have hp : 2 ^ (shift + 7) < 2 ^ 64 := by
          rw [Nat.pow_add, Nat.mul_comm]
          have : (2:Nat) ^ 7 = 128 := by decide
          rw [this]
          have : two64 = 2 ^ 64 := by decide
          omega
        exact (Nat.pow_lt_pow_iff_right (by decide)).mp hp
      rw [ih (n / 128) (by omega) (shift + 7) _ rest hs' (by omega)]
      congr 2
      omega

theorem decVarint_encVarint (n : Nat) (rest : Bytes) (h : n < two64) :
    decVarint (encVarint n ++ rest) = some (n, rest) := by
  have := decVarintAux_enc n 0 0 rest (by decide) (by simpa using h)
  simpa [decVarint] using this

/-- a one-byte tag -/
theorem decVarint_tag (t : UInt8) (rest : Bytes) (h : t.toNat < 128) :
    decVarint (t :: rest) = some (t.toNat, rest) := by
  have h64 : t.toNat % two64 = t.toNat := Nat.mod_eq_of_lt (by unfold two64; omega)
  simp [decVarint, decVarintAux, h, Nat.mod_eq_of_lt h, h64]

theorem decLenDelim_enc (b rest : Bytes) (h : b.length < two63) :
    decLenDelim (encVarint b.length ++ (b ++ rest)) = some (b, rest) := by
  have h64 : b.length < two64 := by unfold two63 at h; unfold two64; omega
  unfold decLenDelim
  rw [decVarint_encVarint _ _ h64]
  have h1 : ¬ b.length ≥ two63 := by omega
  simp [h1]

theorem encVarint_length_pos (n : Nat) : 0 < (encVarint n).length := by
  unfold encVarint; split <;> simp

/-! ### the generic field loop -/

theorem decLoop_mono {σ : Type} (step : Bytes → σ → Option (Bytes × σ)) :
    ∀ (f : Nat) (bs : Bytes) (s r : σ), decLoop step f bs s = some r →
      ∀ f', f ≤ f' → decLoop step f' bs s = some r := by
  intro f
  induction f with
  | zero => intro bs s r h; simp [decLoop] at h
  | succ f ih =>
    intro bs s r h f' hf
    cases f' with
    | zero => omega
    | succ f' =>
      simp only [decLoop] at h ⊢
      split
      · rename_i hb; simpa [hb] using h
      · rename_i hb
        simp only [hb, if_false] at h
        cases hs : step bs s with
        | none => simp [hs] at h
        | some p =>
          obtain ⟨rest, s'⟩ := p
          simp only [hs] at h ⊢
          exact ih rest s' r h f' (by omega)

def cnt (b : Bytes) : Nat := if b = [] then 0 else 1

theorem cnt_le_length (b : Bytes) : cnt b ≤ b.length := by
  unfold cnt; split
  · omega
  · rename_i h; cases b with
    | nil => exact absurd rfl h
    | cons x xs => simp

/-- consuming one (possibly absent) field -/
theorem decLoop_field {σ : Type} (step : Bytes → σ → Option (Bytes × σ)) (F rest : Bytes) (s s' r : σ) (fuel : Nat)
    (hstep : F ≠ [] → step (F ++ rest) s = some (rest, s')) (habs : F = [] → s' = s)
    (h : decLoop step fuel rest s' = some r) :
    decLoop step (cnt F + fuel) (F ++ rest) s = some r := by
  by_cases hF : F = []
  · subst hF; simp [cnt]; rw [← habs rfl]; exact h
  · have hne : F ++ rest ≠ [] := by simp [hF]
    simp only [cnt, hF, if_false]
    rw [Nat.add_comm]
    simp only [decLoop, hne, if_false, hstep hF]
    exact h

theorem decTag_tag (t : UInt8) (rest : Bytes) (f : Nat) (h : t.toNat < 128) (hwt : t.toNat % 8 ≠ 4)
    (hf : fieldNum t.toNat = some f) : decTag (t :: rest) = some (f, t.toNat % 8, rest) := by
  simp [decTag, decVarint_tag t rest h, hwt, hf]

/-! ### roles -/

def RolesOK (rs : List Bytes) : Prop := ∀ r ∈ rs, r.length < two63

theorem decRolesStep_enc (r rest : Bytes) (acc : List Bytes) (h : r.length < two63) :
    decRolesStep (encLenDelim 0x0a r ++ rest) acc = some (rest, acc ++ [r]) := by
  have htag := decTag_tag 0x0a (encVarint r.length ++ (r ++ rest)) 1 (by decide) (by decide) (by decide)
  simp only [encLenDelim, List.cons_append, List.append_assoc, decRolesStep, htag]
  have : (0x0a : UInt8).toNat % 8 = 2 := by decide
  simp [this, decLenDelim_enc r rest h]

theorem encLenDelim_ne_nil (tag : UInt8) (b : Bytes) : encLenDelim tag b ≠ [] := by simp [encLenDelim]

theorem decLoop_roles (rs : List Bytes) (h : RolesOK rs) : ∀ (fuel : Nat) (acc r : List Bytes) (rest : Bytes),
    decLoop decRolesStep fuel rest (acc ++ rs) = some r →
    decLoop decRolesStep (rs.length + fuel) (encRoles rs ++ rest) acc = some r := by
  induction rs with
  | nil => intro fuel acc r rest hh; simpa [encRoles] using hh
  | cons x rs ih =>
    intro fuel acc r rest hh
    have e : encRoles (x :: rs) ++ rest = encLenDelim 0x0a x ++ (encRoles rs ++ rest) := by simp [encRoles]
    have hx : x.length < two63 := h x (by simp)
    have := decLoop_field decRolesStep (encLenDelim 0x0a x) (encRoles rs ++ rest) acc (acc ++ [x]) r (rs.length + fuel)
      (fun _ => decRolesStep_enc x _ acc hx) (fun he => absurd he (encLenDelim_ne_nil _ _))
      (ih (fun y hy => h y (by simp [hy])) fuel (acc ++ [x]) r rest (by simpa using hh))
    rw [e]
    have hc : cnt (encLenDelim 0x0a x) = 1 := by simp [cnt, encLenDelim_ne_nil]
    rw [hc] at this
    have e2 : (x :: rs).length + fuel = 1 + (rs.length + fuel) := by simp; omega
    rw [e2]; exact this

theorem encLenDelim_length (tag : UInt8) (b : Bytes) : b.length + 2 ≤ (encLenDelim tag b).length := by
  have := encVarint_length_pos b.length
  simp [encLenDelim]; omega

theorem encRoles_length (rs : List Bytes) : rs.length ≤ (encRoles rs).length := by
  induction rs with
  | nil => simp
  | cons r rs ih =>
    have e : encRoles (r :: rs) = encLenDelim 0x0a r ++ encRoles rs := by simp [encRoles]
    have := encLenDelim_length 0x0a r
    rw [e]; simp; omega

/-- C14: role lists are lossless. -/
theorem decRoles_encRoles (rs : List Bytes) (h : RolesOK rs) : decRoles (encRoles rs) = some rs := by
  unfold decRoles
  have h1 := decLoop_roles rs h 1 [] rs [] (by simp [decLoop])
  simp only [List.append_nil] at h1
  exact decLoop_mono _ _ _ _ _ h1 _ (by have := encRoles_length rs; omega)

/-! ### metadata -/

structure MetaOK (m : MetaData) : Prop where
  nonce : m.nonce < two64
  royalties : m.royalties < two32
  name : m.name.length < two63
  creator : m.creator.length < two63
  hash : m.hash.length < two63
  attributes : m.attributes.length < two63
  uris : ∀ u ∈ m.uris, u.length < two63

theorem two32_lt_two64 : two32 < two64 := by decide

theorem decMetaStep_varint (tag : UInt8) (f v : Nat) (rest : Bytes) (m : MetaData)
    (h : tag.toNat < 128) (hwt : tag.toNat % 8 = 0) (hf : fieldNum tag.toNat = some f) (hv : v < two64) :
    decTag (tag :: (encVarint v ++ rest)) = some (f, 0, encVarint v ++ rest) ∧
    decVarint (encVarint v ++ rest) = some (v, rest) := by
  refine ⟨?_, decVarint_encVarint v rest hv⟩
  have := decTag_tag tag (encVarint v ++ rest) f h (by omega) hf
  rw [hwt] at this; exact this

theorem decMetaStep_nonce (v : Nat) (rest : Bytes) (m : MetaData) (hv : v < two64) :
    decMetaStep ((0x08 : UInt8) :: encVarint v ++ rest) m = some (rest, { m with nonce := v }) := by
  obtain ⟨h1, h2⟩ := decMetaStep_varint 0x08 1 v rest m (by decide) (by decide) (by decide) hv
  simp [decMetaStep, h1, h2]

theorem decMetaStep_royalties (v : Nat) (rest : Bytes) (m : MetaData) (hv : v < two32) :
    decMetaStep ((0x20 : UInt8) :: encVarint v ++ rest) m = some (rest, { m with royalties := v }) := by
  obtain ⟨h1, h2⟩ := decMetaStep_varint 0x20 4 v rest m (by decide) (by decide) (by decide)
    (Nat.lt_trans hv two32_lt_two64)
  simp [decMetaStep, h1, h2, Nat.mod_eq_of_lt hv]

theorem decTag_len (tag : UInt8) (f : Nat) (b rest : Bytes)
    (h : tag.toNat < 128) (hwt : tag.toNat % 8 = 2) (hf : fieldNum tag.toNat = some f) :
    decTag (encLenDelim tag b ++ rest) = some (f, 2, encVarint b.length ++ (b ++ rest)) := by
  have := decTag_tag tag (encVarint b.length ++ (b ++ rest)) f h (by omega) hf
  rw [hwt] at this
  simpa [encLenDelim] using this

theorem decMetaStep_name (b rest : Bytes) (m : MetaData) (hb : b.length < two63) :
    decMetaStep (encLenDelim 0x12 b ++ rest) m = some (rest, { m with name := b }) := by
  simp [decMetaStep, decTag_len 0x12 2 b rest (by decide) (by decide) (by decide), decLenDelim_enc b rest hb]

theorem decMetaStep_creator (b rest : Bytes) (m : MetaData) (hb : b.length < two63) :
    decMetaStep (encLenDelim 0x1a b ++ rest) m = some (rest, { m with creator := b }) := by
  simp [decMetaStep, decTag_len 0x1a 3 b rest (by decide) (by decide) (by decide), decLenDelim_enc b rest hb]

theorem decMetaStep_hash (b rest : Bytes) (m : MetaData) (hb : b.length < two63) :
    decMetaStep (encLenDelim 0x2a b ++ rest) m = some (rest, { m with hash := b }) := by
  simp [decMetaStep, decTag_len 0x2a 5 b rest (by decide) (by decide) (by decide), decLenDelim_enc b rest hb]

theorem decMetaStep_uri (b rest : Bytes) (m : MetaData) (hb : b.length < two63) :
    decMetaStep (encLenDelim 0x32 b ++ rest) m = some (rest, { m with uris := m.uris ++ [b] }) := by
  simp [decMetaStep, decTag_len 0x32 6 b rest (by decide) (by decide) (by decide), decLenDelim_enc b rest hb]

theorem decMetaStep_attributes (b rest : Bytes) (m : MetaData) (hb : b.length < two63) :
    decMetaStep (encLenDelim 0x3a b ++ rest) m = some (rest, { m with attributes := b }) := by
  simp [decMetaStep, decTag_len 0x3a 7 b rest (by decide) (by decide) (by decide), decLenDelim_enc b rest hb]

theorem decLoop_uris (us : List Bytes) (h : ∀ u ∈ us, u.length < two63) :
    ∀ (fuel : Nat) (m r : MetaData) (rest : Bytes),
    decLoop decMetaStep fuel rest { m with uris := m.uris ++ us } = some r →
    decLoop decMetaStep (us.length + fuel) ((us.flatMap fun u => encLenDelim 0x32 u) ++ rest) m = some r := by
  induction us with
  | nil => intro fuel m r rest hh; simpa using hh
  | cons x us ih =>
    intro fuel m r rest hh
    have e : ((x :: us).flatMap fun u => encLenDelim 0x32 u) ++ rest =
        encLenDelim 0x32 x ++ ((us.flatMap fun u => encLenDelim 0x32 u) ++ rest) := by simp
    have hx : x.length < two63 := h x (by simp)
    have := decLoop_field decMetaStep (encLenDelim 0x32 x) ((us.flatMap fun u => encLenDelim 0x32 u) ++ rest)
      m { m with uris := m.uris ++ [x] } r (us.length + fuel)
      (fun _ => decMetaStep_uri x _ m hx) (fun he => absurd he (encLenDelim_ne_nil _ _))
      (ih (fun y hy => h y (by simp [hy])) fuel _ r rest (by simpa using hh))
    rw [e]
    have hc : cnt (encLenDelim 0x32 x) = 1 := by simp [cnt, encLenDelim_ne_nil]
    rw [hc] at this
    have e2 : (x :: us).length + fuel = 1 + (us.length + fuel) := by simp; omega
    rw [e2]; exact this

theorem encVarintField_eq_nil (tag : UInt8) (v : Nat) : encVarintField tag v = [] ↔ v = 0 := by
  unfold encVarintField; split <;> simp_all

theorem encBytesField_eq_nil (tag : UInt8) (b : Bytes) : encBytesField tag b = [] ↔ b = [] := by
  unfold encBytesField; split <;> simp_all [encLenDelim]

theorem flatMap_uris_length (us : List Bytes) :
    us.length ≤ (us.flatMap fun u => encLenDelim 0x32 u).length := by
  induction us with
  | nil => simp
  | cons x us ih =>
    have := encLenDelim_length 0x32 x
    rw [List.flatMap_cons, List.length_append, List.length_cons]; omega

/-- decoding an encoded metadata record on top of the empty record, followed by `rest` -/
theorem decLoop_meta (m : MetaData) (hm : MetaOK m) (fuel : Nat) (r : MetaData) (rest : Bytes)
    (h : decLoop decMetaStep fuel rest m = some r) :
    ∃ n, n ≤ (encMeta m).length ∧ decLoop decMetaStep (n + fuel) (encMeta m ++ rest) {} = some r := by
  -- fields from the last to the first
  have e7 := decLoop_field decMetaStep (encBytesField 0x3a m.attributes) rest
    { m with attributes := [] } m r fuel
    (fun hne => by
      have hb : m.attributes ≠ [] := fun he => hne ((encBytesField_eq_nil _ _).mpr he)
      have e : encBytesField 0x3a m.attributes = encLenDelim 0x3a m.attributes := by simp [encBytesField, hb]
      rw [e]
      exact decMetaStep_attributes _ _ _ hm.attributes)
    (fun he => by
      have hb := (encBytesField_eq_nil _ _).mp he
      cases m; simp_all)
    h
  have e6 := decLoop_uris m.uris hm.uris _ { m with attributes := [], uris := [] } r _
    (by simpa using e7)
  have e5 := decLoop_field decMetaStep (encBytesField 0x2a m.hash) _
    { m with attributes := [], uris := [], hash := [] } { m with attributes := [], uris := [] } r _
    (fun hne => by
      have hb : m.hash ≠ [] := fun he => hne ((encBytesField_eq_nil _ _).mpr he)
      have e : encBytesField 0x2a m.hash = encLenDelim 0x2a m.hash := by simp [encBytesField, hb]
      rw [e]
      exact decMetaStep_hash _ _ _ hm.hash)
    (fun he => by
      have hb := (encBytesField_eq_nil _ _).mp he
      cases m; simp_all)
    e6
  have e4 := decLoop_field decMetaStep (encVarintField 0x20 m.royalties) _
    { m with attributes := [], uris := [], hash := [], royalties := 0 }
    { m with attributes := [], uris := [], hash := [] } r _
    (fun hne => by
      have hb : m.royalties ≠ 0 := fun he => hne ((encVarintField_eq_nil _ _).mpr he)
      have e : encVarintField 0x20 m.royalties = 0x20 :: encVarint m.royalties := by simp [encVarintField, hb]
      rw [e]
      exact decMetaStep_royalties _ _ _ hm.royalties)
    (fun he => by
      have hb := (encVarintField_eq_nil _ _).mp he
      cases m; simp_all)
    e5
  have e3 := decLoop_field decMetaStep (encBytesField 0x1a m.creator) _
    { m with attributes := [], uris := [], hash := [], royalties := 0, creator := [] }
    { m with attributes := [], uris := [], hash := [], royalties := 0 } r _
    (fun hne => by
      have hb : m.creator ≠ [] := fun he => hne ((encBytesField_eq_nil _ _).mpr he)
      have e : encBytesField 0x1a m.creator = encLenDelim 0x1a m.creator := by simp [encBytesField, hb]
      rw [e]
      exact decMetaStep_creator _ _ _ hm.creator)
    (fun he => by
      have hb := (encBytesField_eq_nil _ _).mp he
      cases m; simp_all)
    e4
  have e2 := decLoop_field decMetaStep (encBytesField 0x12 m.name) _
    { m with attributes := [], uris := [], hash := [], royalties := 0, creator := [], name := [] }
    { m with attributes := [], uris := [], hash := [], royalties := 0, creator := [] } r _
    (fun hne => by
      have hb : m.name ≠ [] := fun he => hne ((encBytesField_eq_nil _ _).mpr he)
      have e : encBytesField 0x12 m.name = encLenDelim 0x12 m.name := by simp [encBytesField, hb]
      rw [e]
      exact decMetaStep_name _ _ _ hm.name)
    (fun he => by
      have hb := (encBytesField_eq_nil _ _).mp he
      cases m; simp_all)
    e3
  have e1 := decLoop_field decMetaStep (encVarintField 0x08 m.nonce) _
    {} { m with attributes := [], uris := [], hash := [], royalties := 0, creator := [], name := [] } r _
    (fun hne => by
      have hb : m.nonce ≠ 0 := fun he => hne ((encVarintField_eq_nil _ _).mpr he)
      have e : encVarintField 0x08 m.nonce = 0x08 :: encVarint m.nonce := by simp [encVarintField, hb]
      rw [e]
      exact decMetaStep_nonce _ _ _ hm.nonce)
    (fun he => by
      have hb := (encVarintField_eq_nil _ _).mp he
      cases m; simp_all)
    e2
  refine ⟨cnt (encVarintField 0x08 m.nonce) + (cnt (encBytesField 0x12 m.name) + (cnt (encBytesField 0x1a m.creator) +
    (cnt (encVarintField 0x20 m.royalties) + (cnt (encBytesField 0x2a m.hash) + (m.uris.length +
      cnt (encBytesField 0x3a m.attributes)))))), ?_, ?_⟩
  · have c1 := cnt_le_length (encVarintField 0x08 m.nonce)
    have c2 := cnt_le_length (encBytesField 0x12 m.name)
    have c3 := cnt_le_length (encBytesField 0x1a m.creator)
    have c4 := cnt_le_length (encVarintField 0x20 m.royalties)
    have c5 := cnt_le_length (encBytesField 0x2a m.hash)
    have c6 := flatMap_uris_length m.uris
    have c7 := cnt_le_length (encBytesField 0x3a m.attributes)
    simp only [encMeta, List.length_append]
    omega
  · simp only [encMeta, List.append_assoc]
    simp only [Nat.add_assoc] at e1 ⊢
    exact e1

/-- C14: NFT metadata is lossless. -/
theorem decMeta_encMeta (m : MetaData) (hm : MetaOK m) : decMeta (encMeta m) = some m := by
  obtain ⟨n, hn, h⟩ := decLoop_meta m hm 1 m [] (by simp [decLoop])
  simp only [List.append_nil] at h
  exact decLoop_mono _ _ _ _ _ h _ (by omega)

theorem decMetaInto_encMeta (m : MetaData) (hm : MetaOK m) : decMetaInto (encMeta m) {} = some m :=
  decMeta_encMeta m hm

/-! ### token -/

structure TokenOK (t : Token) : Prop where
  type : t.type < two32
  value : (encBigInt t.value).length < two63
  properties : t.properties.length < two63
  reserved : t.reserved.length < two63
  md : ∀ m, t.md = some m → MetaOK m ∧ (encMeta m).length < two63

theorem decTokenStep_type (v : Nat) (rest : Bytes) (t : Token) (hv : v < two32) :
    decTokenStep ((0x08 : UInt8) :: encVarint v ++ rest) t = some (rest, { t with type := v }) := by
  have h2 := decVarint_encVarint v rest (Nat.lt_trans hv two32_lt_two64)
  have h1 := decTag_tag 0x08 (encVarint v ++ rest) 1 (by decide) (by decide) (by decide)
  have : (0x08 : UInt8).toNat % 8 = 0 := by decide
  rw [this] at h1
  simp [decTokenStep, h1, h2, Nat.mod_eq_of_lt hv]

theorem decTokenStep_value (v : Option Int) (rest : Bytes) (t : Token) (hb : (encBigInt v).length < two63) :
    decTokenStep (encLenDelim 0x12 (encBigInt v) ++ rest) t = some (rest, { t with value := v }) := by
  simp [decTokenStep, decTag_len 0x12 2 _ rest (by decide) (by decide) (by decide),
    decLenDelim_enc _ rest hb, decBigInt_encBigInt]

theorem decTokenStep_properties (b rest : Bytes) (t : Token) (hb : b.length < two63) :
    decTokenStep (encLenDelim 0x1a b ++ rest) t = some (rest, { t with properties := b }) := by
  simp [decTokenStep, decTag_len 0x1a 3 b rest (by decide) (by decide) (by decide), decLenDelim_enc b rest hb]

theorem decTokenStep_reserved (b rest : Bytes) (t : Token) (hb : b.length < two63) :
    decTokenStep (encLenDelim 0x2a b ++ rest) t = some (rest, { t with reserved := b }) := by
  simp [decTokenStep, decTag_len 0x2a 5 b rest (by decide) (by decide) (by decide), decLenDelim_enc b rest hb]

theorem decTokenStep_md (m : MetaData) (rest : Bytes) (t : Token) (hm : MetaOK m)
    (hl : (encMeta m).length < two63) (ht : t.md = none) :
    decTokenStep (encLenDelim 0x22 (encMeta m) ++ rest) t = some (rest, { t with md := some m }) := by
  simp [decTokenStep, decTag_len 0x22 4 _ rest (by decide) (by decide) (by decide),
    decLenDelim_enc _ rest hl, ht, decMetaInto_encMeta m hm]

def encMdField (o : Option MetaData) : Bytes :=
  match o with
  | none => []
  | some m => encLenDelim 0x22 (encMeta m)

theorem encToken_eq (t : Token) : encToken t =
    encVarintField 0x08 t.type ++ (encLenDelim 0x12 (encBigInt t.value) ++ (encBytesField 0x1a t.properties ++
      (encMdField t.md ++ encBytesField 0x2a t.reserved))) := by
  unfold encToken encMdField
  cases t.md <;> simp

theorem decLoop_token (t : Token) (ht : TokenOK t) (fuel : Nat) (r : Token) (rest : Bytes)
    (h : decLoop decTokenStep fuel rest t = some r) :
    ∃ n, n ≤ (encToken t).length ∧ decLoop decTokenStep (n + fuel) (encToken t ++ rest) {} = some r := by
  have e5 := decLoop_field decTokenStep (encBytesField 0x2a t.reserved) rest
    { t with reserved := [] } t r fuel
    (fun hne => by
      have hb : t.reserved ≠ [] := fun he => hne ((encBytesField_eq_nil _ _).mpr he)
      have e : encBytesField 0x2a t.reserved = encLenDelim 0x2a t.reserved := by simp [encBytesField, hb]
      rw [e]
      exact decTokenStep_reserved _ _ _ ht.reserved)
    (fun he => by
      have hb := (encBytesField_eq_nil _ _).mp he
      cases t; simp_all)
    h
  have e4 := decLoop_field decTokenStep (encMdField t.md) _
    { t with reserved := [], md := none } { t with reserved := [] } r _
    (fun hne => by
      cases hmd : t.md with
      | none => simp [encMdField, hmd] at hne
      | some m =>
        obtain ⟨hm, hl⟩ := ht.md m hmd
        simp only [encMdField]
        have := decTokenStep_md m (encBytesField 0x2a t.reserved ++ rest) { t with reserved := [], md := none } hm hl rfl
        simpa [hmd] using this)
    (fun he => by
      cases hmd : t.md with
      | none => cases t; simp_all
      | some m => simp [encMdField, hmd, encLenDelim] at he)
    e5
  have e3 := decLoop_field decTokenStep (encBytesField 0x1a t.properties) _
    { t with reserved := [], md := none, properties := [] } { t with reserved := [], md := none } r _
    (fun hne => by
      have hb : t.properties ≠ [] := fun he => hne ((encBytesField_eq_nil _ _).mpr he)
      have e : encBytesField 0x1a t.properties = encLenDelim 0x1a t.properties := by simp [encBytesField, hb]
      rw [e]
      exact decTokenStep_properties _ _ _ ht.properties)
    (fun he => by
      have hb := (encBytesField_eq_nil _ _).mp he
      cases t; simp_all)
    e4
  have e2 := decLoop_field decTokenStep (encLenDelim 0x12 (encBigInt t.value)) _
    { t with reserved := [], md := none, properties := [], value := none }
    { t with reserved := [], md := none, properties := [] } r _
    (fun _ => decTokenStep_value _ _ _ ht.value)
    (fun he => absurd he (encLenDelim_ne_nil _ _))
    e3
  have e1 := decLoop_field decTokenStep (encVarintField 0x08 t.type) _
    {} { t with reserved := [], md := none, properties := [], value := none } r _
    (fun hne => by
      have hb : t.type ≠ 0 := fun he => hne ((encVarintField_eq_nil _ _).mpr he)
      have e : encVarintField 0x08 t.type = 0x08 :: encVarint t.type := by simp [encVarintField, hb]
      rw [e]
      exact decTokenStep_type _ _ _ ht.type)
    (fun he => by
      have hb := (encVarintField_eq_nil _ _).mp he
      cases t; simp_all)
    e2
  refine ⟨cnt (encVarintField 0x08 t.type) + (cnt (encLenDelim 0x12 (encBigInt t.value)) +
    (cnt (encBytesField 0x1a t.properties) + (cnt (encMdField t.md) + cnt (encBytesField 0x2a t.reserved)))), ?_, ?_⟩
  · have c1 := cnt_le_length (encVarintField 0x08 t.type)
    have c2 := cnt_le_length (encLenDelim 0x12 (encBigInt t.value))
    have c3 := cnt_le_length (encBytesField 0x1a t.properties)
    have c4 := cnt_le_length (encMdField t.md)
    have c5 := cnt_le_length (encBytesField 0x2a t.reserved)
    rw [encToken_eq]
    simp only [List.length_append]
    omega
  · rw [encToken_eq]
    simp only [List.append_assoc]
    simp only [Nat.add_assoc] at e1 ⊢
    exact e1

/-- C14: token data is lossless — every value, including nil / zero / negative amounts,
    absent and empty fields. -/
theorem decToken_encToken (t : Token) (ht : TokenOK t) : decToken (encToken t) = some t := by
  obtain ⟨n, hn, h⟩ := decLoop_token t ht 1 t [] (by simp [decLoop])
  simp only [List.append_nil] at h
  exact decLoop_mono _ _ _ _ _ h _ (by omega)

/-- the encoding of a token is never empty (`Value` is always emitted) -/
theorem encToken_ne_nil (t : Token) : encToken t ≠ [] := by
  rw [encToken_eq]
  intro h
  have := congrArg List.length h
  have h2 := encLenDelim_length 0x12 (encBigInt t.value)
  simp only [List.length_append, List.length_nil] at this
  omega

end Esdt
