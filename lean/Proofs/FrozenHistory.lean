/-
  Proofs/FrozenHistory.lean — C04 over operation sequences (the supply operations of Proofs/SupplyHistory.lean): while an
  account is frozen for a fungible token, no mint / burn / NFT create / add-quantity / NFT burn / re-freeze — by anyone,
  with any arguments — changes that account's balance of the token, and the account stays frozen; only wipe and unfreeze
  (system contract) do.
-/
import Proofs.SupplyHistory
import Proofs.Gates
namespace Esdt

/-- the account's fungible entry of `tok` carries the frozen flag -/
def FrozenAt (A : Accts) (a tok : Bytes) : Prop :=
  ∃ t, tokenOf (A.read a (esdtKeyPrefix ++ tok)) = some t ∧ frozenOf t.properties = true

theorem frozenAt_congr {A A' : Accts} {a tok : Bytes}
    (h : A'.read a (esdtKeyPrefix ++ tok) = A.read a (esdtKeyPrefix ++ tok)) (hf : FrozenAt A a tok) :
    balOf (A'.read a (esdtKeyPrefix ++ tok)) = balOf (A.read a (esdtKeyPrefix ++ tok)) ∧ FrozenAt A' a tok := by
  obtain ⟨t, ht, hfr⟩ := hf
  exact ⟨by rw [h], t, by rw [h]; exact ht, hfr⟩

/-- one supply operation other than wipe / unfreeze, not flagged return-after-error, on a state where `a` is frozen for
    `tok`: `a`'s balance of `tok` is as before and `a` is still frozen.  (NFT create writes a FRESH entry without looking at
    what its key held: the hypothesis `hnoalias` says that key is not the fungible key — token identifiers do not alias.) -/
theorem frozen_step (op : SupplyOp) (hop : op ≠ .wipe ∧ op ≠ .unfreeze) (env : Env) (c : Call) (A : Accts) (out : VMOutput)
    (ctx' : Ctx) (hI : SInv A) (hrsys : c.rcv ≠ systemAccountAddress)
    (h : op.run env c { accts := A } = .ok (out, ctx')) (a tok : Bytes) (hfz : FrozenAt A a tok)
    (hrae : c.rae = false) (hsc : a ≠ esdtSCAddress)
    (hnoalias : op = .create → ∀ tok' n, c.args[0]? = some tok' →
      nftKey (esdtKeyPrefix ++ tok') n ≠ esdtKeyPrefix ++ tok) :
    balOf (ctx'.accts.read a (esdtKeyPrefix ++ tok)) = balOf (A.read a (esdtKeyPrefix ++ tok)) ∧
      FrozenAt ctx'.accts a tok := by
  obtain ⟨tf, htf, hfr⟩ := hfz
  -- a fungible slot rewritten through the gate cannot be the frozen one
  have one : ∀ {tok' : Bytes} {t : Token} {v d : Int},
      OneWrite A ctx'.accts c.caller (esdtKeyPrefix ++ tok') t v d →
      GateOpen A c.caller (esdtKeyPrefix ++ tok') t c.rae →
      balOf (ctx'.accts.read a (esdtKeyPrefix ++ tok)) = balOf (A.read a (esdtKeyPrefix ++ tok)) ∧
        FrozenAt ctx'.accts a tok := by
    intro tok' t v d hw hg
    by_cases he : c.caller = a ∧ esdtKeyPrefix ++ tok' = esdtKeyPrefix ++ tok
    · exfalso
      obtain ⟨ha, hk⟩ := he
      have ht := hw.old
      rw [ha, hk, htf] at ht
      cases ht
      have := (hg hrae (ha ▸ hsc)).1
      rw [this] at hfr; cases hfr
    · exact frozenAt_congr (hw.others a _ he) ⟨tf, htf, hfr⟩
  -- an NFT slot rewritten through the gate cannot be the frozen one either (aliasing keys included)
  have nft : ∀ {tok' : Bytes} {n : Nat} {t : Token} {v v' : Int},
      NftWrite A ctx'.accts c.caller (esdtKeyPrefix ++ tok') n t v v' → n ≠ 0 →
      (∀ m, t.md = some m → m.nonce = 0 ∨ m.nonce = n) →
      GateOpen A c.caller (esdtKeyPrefix ++ tok') { t with value := some v' } c.rae →
      balOf (ctx'.accts.read a (esdtKeyPrefix ++ tok)) = balOf (A.read a (esdtKeyPrefix ++ tok)) ∧
        FrozenAt ctx'.accts a tok := by
    intro tok' n t v v' hw hn0 hnon hg
    obtain ⟨m0, hm0⟩ := Option.isSome_iff_exists.mp hw.hasMeta
    have hpos : m0.nonce ≠ 0 := hI.mdpos _ _ t m0 (tokKey_nft _ _) hw.present hw.old hm0
    have hnonce : mdNonce t = n := by
      rcases hnon m0 hm0 with h | h
      · exact absurd h hpos
      · simp [mdNonce, hm0, h]
    by_cases he : c.caller = a ∧ nftKey (esdtKeyPrefix ++ tok') n = esdtKeyPrefix ++ tok
    · exfalso
      obtain ⟨ha, hk⟩ := he
      have ht : tokenOf (A.read c.caller (nftKey (esdtKeyPrefix ++ tok') n)) = some t := by
        simp [tokenOf, hw.present, hw.old]
      rw [ha, hk, htf] at ht
      cases ht
      have := (hg hrae (ha ▸ hsc)).1
      rw [this] at hfr; cases hfr
    · apply frozenAt_congr _ ⟨tf, htf, hfr⟩
      rw [hw.written, hnonce, Accts.read_write, if_neg he]
  cases op with
  | wipe => exact absurd rfl hop.1
  | unfreeze => exact absurd rfl hop.2
  | mint =>
    obtain ⟨tok', _, t, v, _, _, hw, hg⟩ := (localMint_effect env c { accts := A }).elim h
    exact one hw hg
  | localBurn =>
    obtain ⟨tok', _, t, v, _, _, hw, hg⟩ := (localBurn_effect env c { accts := A }).elim h
    exact one hw hg
  | burn =>
    obtain ⟨tok', _, t, v, _, _, hw, hg⟩ := (esdtBurn_effect env c { accts := A }).elim h
    exact one hw hg
  | addQty =>
    obtain ⟨tok', nb, qb, t, v, h0, h1, _, hn0, hw, hg⟩ := (addQuantity_effect env c { accts := A }).elim h
    exact nft hw hn0 (fun m hm => (addQuantity_nonce env c { accts := A }).elim h tok' nb t m h0 h1 hw.old hm) hg
  | nftBurn =>
    obtain ⟨tok', nb, qb, t, v, h0, h1, _, hn0, _, hw, hg⟩ := (nftBurn_effect env c { accts := A }).elim h
    exact nft hw hn0 (fun m hm => (nftBurn_nonce env c { accts := A }).elim h tok' nb t m h0 h1 hw.old hm) hg
  | create =>
    obtain ⟨tok', qb, name, roy, hash, attrs, n, A1, h0, _, _, _, _, _, _, _, _, _, hA1, hw⟩ :=
      (nftCreate_effect env c { accts := A }).elim h
    simp only at hA1 hw
    apply frozenAt_congr _ ⟨tf, htf, hfr⟩
    have h1 : ¬ (c.caller = a ∧ nonceKeyPrefix ++ tok' = esdtKeyPrefix ++ tok) := fun hh =>
      not_tokKey_nonce tok' (hh.2 ▸ tokKey_esdt tok)
    have h2 : ¬ (c.caller = a ∧ nftKey (esdtKeyPrefix ++ tok') n = esdtKeyPrefix ++ tok) := fun hh =>
      hnoalias rfl tok' n h0 hh.2
    rw [hw, Accts.read_write, if_neg h1, hA1, Accts.read_write, if_neg h2]
  | freeze =>
    have hS' : Short ctx'.accts := (sp_esdtFreezeWipe .freeze env c { accts := A } hI.short).elim h
    obtain ⟨tok', t, _, _, ht, _, hw⟩ := (toggleFreeze_effect .freeze (by decide) env c { accts := A }).elim h
    simp only at hw ht
    by_cases he : c.rcv = a ∧ esdtKeyPrefix ++ tok' = esdtKeyPrefix ++ tok
    · obtain ⟨ha, hk⟩ := he
      obtain ⟨⟨v, hv, _⟩, _⟩ := hI.canon.read (tokKey_esdt tok') hrsys ht
      have hl := hS' c.rcv (esdtKeyPrefix ++ tok')
      rw [hw, Accts.read_write, if_pos ⟨rfl, rfl⟩] at hl
      have hread : ctx'.accts.read a (esdtKeyPrefix ++ tok) =
          storedForm { t with properties := flagBytes (FreezeKind.freeze == FreezeKind.freeze) } := by
        rw [hw, ← ha, ← hk, Accts.read_write, if_pos ⟨rfl, rfl⟩]
      have hbs := balOf_storedForm_len { t with properties := flagBytes (FreezeKind.freeze == FreezeKind.freeze) } v hv
        ((tokenOf_num ht).withProps _) hl
      refine ⟨by rw [hread, hbs, ← ha, ← hk, balOf_old ht hv], ?_⟩
      -- the rewritten entry is not deleted (its flag bytes are not all zero) and reads back frozen
      have hne : ¬ (({ t with properties := flagBytes (FreezeKind.freeze == FreezeKind.freeze) } : Token).value = some 0 ∧
          allZero ({ t with properties := flagBytes (FreezeKind.freeze == FreezeKind.freeze) } : Token).properties = true) := by
        rintro ⟨_, hz⟩
        have : allZero (flagBytes (FreezeKind.freeze == FreezeKind.freeze)) = false := by decide
        rw [show ({ t with properties := flagBytes (FreezeKind.freeze == FreezeKind.freeze) } : Token).properties =
          flagBytes (FreezeKind.freeze == FreezeKind.freeze) from rfl, this] at hz
        cases hz
      have hsf : storedForm { t with properties := flagBytes (FreezeKind.freeze == FreezeKind.freeze) } =
          encToken { t with properties := flagBytes (FreezeKind.freeze == FreezeKind.freeze) } := by
        unfold storedForm; rw [if_neg hne]
      rw [hsf] at hl hread
      refine ⟨{ t with properties := flagBytes (FreezeKind.freeze == FreezeKind.freeze) }, ?_,
        (by show frozenOf (flagBytes (FreezeKind.freeze == FreezeKind.freeze)) = true; decide)⟩
      rw [hread, tokenOf, if_neg (encToken_ne_nil _), roundtrip_of_length _ ((tokenOf_num ht).withProps _) hl]
    · apply frozenAt_congr _ ⟨tf, htf, hfr⟩
      rw [hw, Accts.read_write, if_neg he]

end Esdt

namespace Esdt

/-- what is assumed of every operation of a history in which `a` stays frozen for `tok`: it is not a wipe or an unfreeze,
    is not flagged return-after-error, does not address the system account, and an NFT create does not alias the
    fungible key -/
def FStepOK (tok : Bytes) (s : SStep) : Prop :=
  (s.op ≠ .wipe ∧ s.op ≠ .unfreeze) ∧ s.c.rae = false ∧ s.c.caller ≠ systemAccountAddress ∧
  s.c.rcv ≠ systemAccountAddress ∧
  (s.op = .create → ∀ tok' n, s.c.args[0]? = some tok' → nftKey (esdtKeyPrefix ++ tok') n ≠ esdtKeyPrefix ++ tok)

theorem frozen_history_run (a tok : Bytes) (hsc : a ≠ esdtSCAddress) : ∀ (steps : List SStep) (A : Accts), SInv A →
    SStepsOK steps A → (∀ s ∈ steps, FStepOK tok s) → FrozenAt A a tok →
    balOf ((srun steps A).1.read a (esdtKeyPrefix ++ tok)) = balOf (A.read a (esdtKeyPrefix ++ tok)) ∧
      FrozenAt (srun steps A).1 a tok := by
  intro steps
  induction steps with
  | nil => intro A _ _ _ hf; exact ⟨rfl, hf⟩
  | cons s rest ih =>
    intro A hI hok hfs hf
    obtain ⟨⟨hc, hr, hw⟩, hrest⟩ := hok
    obtain ⟨hop, hrae, _, hrs, hna⟩ := hfs s List.mem_cons_self
    have hfs' : ∀ s' ∈ rest, FStepOK tok s' := fun s' hs' => hfs s' (List.mem_cons_of_mem _ hs')
    simp only [srun]
    cases he : s.op.run s.env s.c { accts := A } with
    | ok p =>
      obtain ⟨out, ctx'⟩ := p
      simp only [he] at hrest ⊢
      obtain ⟨hI1, _⟩ := supply_step s.op s.env s.c A out ctx' hI hc hr hw he
      obtain ⟨hb1, hf1⟩ := frozen_step s.op hop s.env s.c A out ctx' hI hrs he a tok hf hrae hsc hna
      obtain ⟨hb2, hf2⟩ := ih ctx'.accts hI1 hrest hfs' hf1
      exact ⟨by rw [hb2, hb1], hf2⟩
    | err e =>
      simp only [he] at hrest ⊢
      exact ih A hI hrest hfs' hf
    | panic =>
      simp only [he] at hrest ⊢
      exact ih A hI hrest hfs' hf

end Esdt
