/-
  Proofs/Accept3.lean — total correctness of the destination half of MultiESDTNFTTransfer (delivery and refund): the
  loop over the items SUCCEEDS — and leaves exactly the stated storage — whenever every item, at the state it meets
  (earlier items of the same call included), satisfies the conditions the property names: the payload decodes, the gates
  pass (or the call is a flagged refund), payability is confirmed where it has to be verified, no other hash is held.
-/
import Proofs.Accept2
namespace Esdt

/-- one item of a destination-side multi transfer, accepted at account state `A`, leaving `A'` -/
inductive DestItemOK (env : Env) (c : Call) (must : Bool) (tok a1 a2 : Bytes) (A : Accts) : Accts → Prop
  /-- an NFT / SFT item: the third element is the serialised entry -/
  | nft (t cur : Token) (m : MetaData) (tv cv : Int)
      (hn : u64 (beNat a1) > 0) (hdec : decToken a2 = some t) (hmd : t.md = some m)
      (hpay : must = true → env.payable c.rcv = .yes)
      (hcur : tokenOf (A.read c.rcv (nftKey (esdtKeyPrefix ++ tok) m.nonce)) = some cur)
      (hhash : ∀ cm, cur.md = some cm → cm.hash = m.hash)
      (hg1 : GatePasses A c.rcv (esdtKeyPrefix ++ tok) cur c.rae)
      (hg2 : GatePasses A c.rcv (esdtKeyPrefix ++ tok) t c.rae)
      (hg3 : GatePasses A c.rcv (nftKey (esdtKeyPrefix ++ tok) m.nonce) t c.rae)
      (htv : t.value = some tv) (hcv : cur.value = some cv) (hpos : 0 < tv + cv)
      (hlen : (encToken { t with value := some (tv + cv) }).length < two63) :
      DestItemOK env c must tok a1 a2 A
        (A.write c.rcv (nftKey (esdtKeyPrefix ++ tok) m.nonce) (encToken { t with value := some (tv + cv) }))
  /-- a fungible item: the third element is the amount -/
  | fungible (t : Token) (v : Int)
      (hn : ¬ u64 (beNat a1) > 0)
      (hpay : must = true → env.payable c.rcv = .yes)
      (ht : tokenOf (A.read c.rcv (esdtKeyPrefix ++ tok)) = some t) (hty : t.type = 0)
      (hv : t.value = some v) (hv0 : 0 ≤ v)
      (hg : GatePasses A c.rcv (esdtKeyPrefix ++ tok) t c.rae)
      (hlen : (encToken { t with value := some (v + (beNat a2 : Int)) }).length < two63) :
      DestItemOK env c must tok a1 a2 A
        (A.write c.rcv (esdtKeyPrefix ++ tok) (storedForm { t with value := some (v + (beNat a2 : Int)) }))

/-- the items `idx, idx+3, …` (n of them), accepted one after the other from `A`, leaving `A'` -/
inductive DestItemsOK (env : Env) (c : Call) (must : Bool) : Nat → Nat → Accts → Accts → Prop
  | done (idx : Nat) (A : Accts) : DestItemsOK env c must 0 idx A A
  | item (n idx : Nat) (tok a1 a2 : Bytes) (A A1 A' : Accts)
      (h0 : c.args[idx]? = some tok) (h1 : c.args[idx + 1]? = some a1) (h2 : c.args[idx + 2]? = some a2)
      (hitem : DestItemOK env c must tok a1 a2 A A1) (hrest : DestItemsOK env c must n (idx + 3) A1 A') :
      DestItemsOK env c must (n + 1) idx A A'

theorem unmarshalToken_accepts (b : Bytes) (t : Token) (ctx : Ctx) (hnf : ctx.failAt = none) (hdec : decToken b = some t) :
    unmarshalToken b ctx = .ok (t, { ctx with deps := Dep.u :: ctx.deps }) := by
  simp only [unmarshalToken, Esdt.tick, hnf, Bind.bind, M.bind, hdec, Pure.pure, M.pure, reduceCtorEq]
  rfl

theorem multiDestLoop_accepts (env : Env) (c : Call) (minArgs : Nat) :
    ∀ (n idx : Nat) (ctx : Ctx) (A' : Accts), ctx.failAt = none →
      DestItemsOK env c (mustVerifyPayable c minArgs) n idx ctx.accts A' →
      ∃ logs ctx', multiDestLoop env c minArgs n idx ctx = .ok (logs, ctx') ∧ ctx'.failAt = none ∧ ctx'.accts = A' := by
  intro n
  induction n with
  | zero =>
    intro idx ctx A' hnf h
    cases h
    exact ⟨[], ctx, rfl, hnf, rfl⟩
  | succ n ih =>
    intro idx ctx A' hnf h
    cases h with
    | item _ _ tok a1 a2 _ A1 _ h0 h1 h2 hitem hrest =>
      unfold multiDestLoop
      simp only [Esdt.argAt, deref, h0, h1, h2, Bind.bind, M.bind, Pure.pure, M.pure_apply]
      cases hitem with
      | nft t cur m tv cv hn hdec hmd hpay hcur hhash hg1 hg2 hg3 htv hcv hpos hlen =>
        have hun := unmarshalToken_accepts a2 t ctx hnf hdec
        obtain ⟨c2, h2', hnf2, ha2⟩ := addNFTToDestination_accepts env c.rcv (esdtKeyPrefix ++ tok) t cur m tv cv
          (mustVerifyPayable c minArgs) c.rae { ctx with deps := Dep.u :: ctx.deps } hnf hmd hpay hcur hhash hg1 hg2 hg3
          htv hcv hpos hlen
        obtain ⟨logs, ctx', hl, hnf', ha'⟩ := ih (idx + 3) c2 A' hnf2 (by rw [ha2]; exact hrest)
        rw [if_pos hn]
        simp only [M.bind, hun, h2', hl, M.pure_apply]
        exact ⟨_, ctx', rfl, hnf', ha'⟩
      | fungible t v hn hpay ht hty hv hv0 hg hlen =>
        obtain ⟨c0, h0', hnf0, ha0⟩ := verifyPayableIf_accepts env (mustVerifyPayable c minArgs) c.rcv ctx hnf hpay
        obtain ⟨c1, h1', hnf1, ha1⟩ := addToESDTBalance_accepts c.rcv (esdtKeyPrefix ++ tok) (beNat a2) c.rae c0 hnf0 t v
          (by rw [ha0]; exact ht) hty hv (by omega) (by rw [ha0]; exact hg) hlen
        rw [ha0] at ha1
        obtain ⟨logs, ctx', hl, hnf', ha'⟩ := ih (idx + 3) c1 A' hnf1 (by rw [ha1]; exact hrest)
        rw [if_neg hn]
        simp only [M.bind, h0', h1', hl, M.pure_apply]
        exact ⟨_, ctx', rfl, hnf', ha'⟩

/-- DELIVERY / REFUND of a MultiESDTNFTTransfer message (destination half): it SUCCEEDS, with exactly the storage the items
    state, whenever the count fits the argument list and every item is accepted at the state it meets -/
theorem multiTransfer_delivery_accepted (env : Env) (c : Call) (ctx : Ctx) (cnt : Bytes)
    (h0 : c.args[0]? = some cnt) (hval : c.callValue = 0) (hne : c.caller ≠ c.rcv)
    (hsnd : present env.nshards env.self c.caller = false) (hdst : present env.nshards env.self c.rcv = true)
    (hnf : ctx.failAt = none)
    (n : Nat) (hn : n = u64 (beNat cnt)) (hn0 : n ≠ 0) (hfit : 3 * n + 1 ≤ c.args.length) (hphys : c.args.length < two64)
    (A' : Accts) (hitems : DestItemsOK env c (mustVerifyPayable c (3 * n + 1)) n 1 ctx.accts A') :
    ∃ out ctx', multiTransfer env c ctx = .ok (out, ctx') ∧ out.rc = 0 ∧ ctx'.accts = A' := by
  have hmin : u64 (u64 (n * 3) + 1) = 3 * n + 1 := by
    have h1 : n * 3 < two64 := by omega
    rw [u64_of_lt _ h1, u64_of_lt _ (by omega)]; omega
  obtain ⟨logs, c1, hl, _, ha⟩ := multiDestLoop_accepts env c (3 * n + 1) n 1 ctx A' hnf hitems
  have g1 : ¬ (c.args.length < 2) := by omega
  have g2 : ¬ (c.args.length < 4) := by omega
  have g3 : ¬ (n > c.args.length / 3) := by omega
  have g4 : ¬ (c.args.length < 3 * n + 1) := by omega
  unfold multiTransfer checkBasic
  simp only [hsnd, hdst, hval, hne, h0, ← hn, hmin, Esdt.guardE, Esdt.argAt, deref, Bind.bind, M.bind, Pure.pure,
    M.pure_apply, ne_eq, not_true_eq_false, decide_false, Bool.false_eq_true, if_false, g1, g2, g3, g4, hn0,
    Bool.not_false, Bool.not_true, hl]
  by_cases hsc : (decide (c.args.length > 3 * n + 1) && isSmartContractAddress c.rcv) = true
  · have hgt : c.args.length > 3 * n + 1 := by
      simp only [Bool.and_eq_true, decide_eq_true_eq] at hsc; exact hsc.1
    obtain ⟨f, hf⟩ : ∃ f, c.args[3 * n + 1]? = some f := ⟨_, List.getElem?_eq_getElem hgt⟩
    simp only [hsc, if_true, hf, M.bind, M.pure_apply]
    exact ⟨_, _, rfl, rfl, ha⟩
  · simp only [hsc, Bool.false_eq_true, if_false, M.pure_apply]
    exact ⟨_, _, rfl, rfl, ha⟩

end Esdt
