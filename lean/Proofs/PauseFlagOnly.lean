/-
  Proofs/PauseFlagOnly.lean — C03: the global settings of a token (the pause flag: the system account's slot under the
  token key) change ONLY through ESDTPause / ESDTUnPause (which only the system contract can call: `C03.system_only`).
  Every other function — all 21, any caller, any arguments, transfers with any number of items included — leaves every
  token-key slot of the system account exactly as it was, provided the system account is not itself used as an
  ordinary account (App. C E6: it is the global-settings store, never a caller, receiver or destination).
-/
import Proofs.UnifiedPausedMulti
namespace Esdt

/-- the system account's slot under key `k` holds `raw` -/
def Sz (k raw : Bytes) (A : Accts) : Prop := A.read systemAccountAddress k = raw

variable {k raw : Bytes}

theorem Sz.write_other {A : Accts} (h : Sz k raw A) (a1 k1 v : Bytes) (ha : a1 ≠ systemAccountAddress) :
    Sz k raw (A.write a1 k1 v) := by
  unfold Sz at *
  rw [Accts.read_write, if_neg (fun (hh : a1 = systemAccountAddress ∧ k1 = k) => ha hh.1)]; exact h

theorem ntc_sz (hk : TokKey k) (raw : Bytes) : NTC (Sz k raw) := by
  refine ⟨fun A a1 k1 v hk1 h => ?_, fun A a1 x hx h => ?_⟩
  · unfold Sz at *
    rw [Accts.read_write, if_neg (fun (hh : a1 = systemAccountAddress ∧ k1 = k) => hk1 (hh.2 ▸ hk))]; exact h
  · unfold Sz at *
    rw [read_set_fields A a1 x hx]; exact h

/-- E6: the system account is not used as an ordinary account by this call -/
def SysUntouched (c : Call) : Prop :=
  c.caller ≠ systemAccountAddress ∧ c.rcv ≠ systemAccountAddress ∧ ∀ a ∈ c.args, a ≠ systemAccountAddress

theorem sz_addTo (a1 k1 : Bytes) (d : Int) (rae : Bool) (ha : a1 ≠ systemAccountAddress) :
    Pres (Sz k raw) (addToESDTBalance a1 k1 d rae) := by
  intro c hf
  apply Post.mono (spec_addToESDTBalance a1 k1 d rae c)
  intro _ c' ⟨t, v0, _, _, _, _, _, hw⟩
  rw [hw]; exact hf.write_other _ _ _ ha

theorem sz_saveNFT (a1 tk : Bytes) (t : Token) (rae : Bool) (ha : a1 ≠ systemAccountAddress) :
    Pres (Sz k raw) (saveNFT a1 tk t rae) := by
  intro c hf
  apply Post.mono (spec_saveNFT a1 tk t rae c)
  intro b c' ⟨_, _, _, _, hw⟩
  rw [hw]; exact hf.write_other _ _ _ ha

theorem sz_addNFT (env : Env) (dst tk : Bytes) (t : Token) (mv rae : Bool) (ha : dst ≠ systemAccountAddress) :
    Pres (Sz k raw) (addNFTToDestination env dst t tk mv rae) := by
  intro c hf
  apply Post.mono (spec_addNFTToDestination env dst t tk mv rae c)
  intro t' c' ⟨cur, tv, cv, _, _, _, _, _, _, _, _, hw⟩
  rw [hw]; exact hf.write_other _ _ _ ha

theorem sz_esdtTransfer (env : Env) (c : Call) (hs : SysUntouched c) : Pres (Sz k raw) (esdtTransfer env c) := by
  unfold Esdt.esdtTransfer
  pz
  all_goals first
    | exact sz_addTo _ _ _ _ hs.1
    | exact sz_addTo _ _ _ _ hs.2.1

theorem sz_nftTransferSender (env : Env) (c : Call) (hs : SysUntouched c) :
    Pres (Sz k raw) (esdtNFTTransferSender env c) := by
  unfold esdtNFTTransferSender
  refine Pres.bind (Pres.of_ro (RO.argAt _ _)) (fun _ => ?_)
  apply Pres.argAt_bind
  intro dst h3
  have hd := hs.2.2 dst (List.mem_of_getElem? h3)
  pz
  all_goals first
    | exact sz_saveNFT _ _ _ _ hs.1
    | exact sz_addNFT _ _ _ _ _ _ hd

theorem sz_nftTransfer (env : Env) (c : Call) (hs : SysUntouched c) : Pres (Sz k raw) (esdtNFTTransfer env c) := by
  unfold esdtNFTTransfer
  pz
  all_goals first
    | exact sz_nftTransferSender env c hs
    | exact sz_addNFT _ _ _ _ _ _ hs.2.1

theorem sz_transferOne (env : Env) (c : Call) (hs : SysUntouched c) (l : Bool) (dst tokenID : Bytes) (n q : Nat)
    (v : Bool) (hd : dst ≠ systemAccountAddress) : Pres (Sz k raw) (transferOne env c l dst tokenID n q v) := by
  unfold transferOne
  pz
  all_goals first
    | exact sz_saveNFT _ _ _ _ hs.1
    | exact sz_addNFT _ _ _ _ _ _ hd

theorem sz_multiSenderLoop (env : Env) (c : Call) (hs : SysUntouched c) (l : Bool) (dst : Bytes) (v : Bool)
    (hd : dst ≠ systemAccountAddress) : ∀ n idx, Pres (Sz k raw) (multiSenderLoop env c l dst v n idx) := by
  intro n
  induction n with
  | zero => intro idx; unfold multiSenderLoop; pz
  | succ n ih =>
    intro idx
    unfold multiSenderLoop
    pz
    all_goals first
      | exact ih _
      | exact sz_transferOne env c hs _ _ _ _ _ _ hd

theorem sz_multiDestLoop (env : Env) (c : Call) (hs : SysUntouched c) (m : Nat) :
    ∀ n idx, Pres (Sz k raw) (multiDestLoop env c m n idx) := by
  intro n
  induction n with
  | zero => intro idx; unfold multiDestLoop; pz
  | succ n ih =>
    intro idx
    unfold multiDestLoop
    pz
    all_goals first
      | exact ih _
      | exact sz_addNFT _ _ _ _ _ _ hs.2.1
      | exact sz_addTo _ _ _ _ hs.2.1

theorem sz_multiTransferSender (env : Env) (c : Call) (hs : SysUntouched c) :
    Pres (Sz k raw) (multiTransferSender env c) := by
  unfold multiTransferSender
  apply Pres.argAt_bind
  intro dst h0
  have hd := hs.2.2 dst (List.mem_of_getElem? h0)
  pz
  all_goals first
    | exact sz_multiSenderLoop env c hs _ _ _ hd _ _
    | exact Pres.of_ro (ro_multiPayloadLoop env _ _)

theorem sz_multiTransfer (env : Env) (c : Call) (hs : SysUntouched c) : Pres (Sz k raw) (multiTransfer env c) := by
  unfold multiTransfer
  pz
  all_goals first
    | exact sz_multiTransferSender env c hs
    | exact sz_multiDestLoop env c hs _ _ _

/-- every function other than ESDTPause / ESDTUnPause leaves the system account's slot under every token key alone -/
theorem sys_slot_step (fn : FnId) (hfn : fn ≠ .esdtPause ∧ fn ≠ .esdtUnPause) (env : Env) (c : Call) (A : Accts)
    (out : VMOutput) (ctx' : Ctx) (hs : SysUntouched c) (hk : TokKey k) (hf : Sz k raw A)
    (h : exec env fn c { accts := A } = .ok (out, ctx')) : Sz k raw ctx'.accts := by
  have plainCase : PlainFn fn → Sz k raw ctx'.accts := fun hp =>
    plain_pres (ntc_sz hk raw) hp env c { accts := A } ctx' out hf h
  have wr : ∀ (a1 k1 v : Bytes), a1 ≠ systemAccountAddress → ctx'.accts = A.write a1 k1 v → Sz k raw ctx'.accts :=
    fun a1 k1 v ha hw => by rw [hw]; exact hf.write_other _ _ _ ha
  unfold exec at h
  cases fn <;> simp only [runFn] at h
  · exact plainCase .claim
  · exact plainCase .owner
  · exact plainCase .name
  · exact plainCase .skv
  · exact absurd rfl hfn.1
  · exact absurd rfl hfn.2
  · exact (sz_esdtTransfer env c hs _ hf).elim h
  · obtain ⟨_, _, _, _, _, _, hw, _⟩ := (esdtBurn_effect env c { accts := A }).elim h
    exact wr _ _ _ hs.1 hw.written
  · obtain ⟨_, _, _, _, _, _, hw⟩ := (toggleFreeze_effect .freeze (by decide) env c { accts := A }).elim h
    exact wr _ _ _ hs.2.1 hw
  · obtain ⟨_, _, _, _, _, _, hw⟩ := (toggleFreeze_effect .unfreeze (by decide) env c { accts := A }).elim h
    exact wr _ _ _ hs.2.1 hw
  · obtain ⟨_, _, _, _, _, _, hw⟩ := (wipe_effect env c { accts := A }).elim h
    exact wr _ _ _ hs.2.1 hw
  · exact plainCase .unSetRole
  · exact plainCase .setRole
  · obtain ⟨_, _, _, _, _, _, hw, _⟩ := (localBurn_effect env c { accts := A }).elim h
    exact wr _ _ _ hs.1 hw.written
  · obtain ⟨_, _, _, _, _, _, hw, _⟩ := (localMint_effect env c { accts := A }).elim h
    exact wr _ _ _ hs.1 hw.written
  · obtain ⟨_, _, _, _, _, _, _, _, _, hw, _⟩ := (addQuantity_effect env c { accts := A }).elim h
    exact wr _ _ _ hs.1 hw.written
  · obtain ⟨_, _, _, _, _, _, _, _, _, _, hw, _⟩ := (nftBurn_effect env c { accts := A }).elim h
    exact wr _ _ _ hs.1 hw.written
  · obtain ⟨_, _, _, _, _, _, _, A1, _, _, _, _, _, _, _, _, _, _, hA1, hw⟩ := (nftCreate_effect env c { accts := A }).elim h
    simp only at hA1 hw
    rw [hw, hA1]
    exact (hf.write_other _ _ _ hs.1).write_other _ _ _ hs.1
  · exact (sz_nftTransfer env c hs _ hf).elim h
  · exact plainCase .handOver
  · obtain ⟨_, _, _, _, _, _, _, _, _, hw⟩ := (updateAttributes_effect env c { accts := A }).elim h
    exact wr _ _ _ hs.1 hw.written
  · obtain ⟨_, _, _, _, _, _, _, hw⟩ := (addURI_effect env c { accts := A }).elim h
    exact wr _ _ _ hs.1 hw.written
  · exact (sz_multiTransfer env c hs _ hf).elim h

end Esdt
