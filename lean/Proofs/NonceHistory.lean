/-
  Proofs/NonceHistory.lean — C07: the create step read off `nftCreate_effect`, and histories of arbitrary calls seen from one
  role holder (no hand-over in the history).  The world with hand-overs is Proofs/NetworkNonce.lean.
-/
import Proofs.Nonce
import Proofs.Only
namespace Esdt

/-- FULL (create): each successful ESDTNFTCreate returns nonce = stored counter + 1, stores it as the new counter, records
    it in the metadata and uses it as the key suffix of the new entry -/
theorem create_succ (env : Env) (c : Call) (ctx ctx' : Ctx) (out : VMOutput)
    (h : esdtNFTCreate env c ctx = .ok (out, ctx')) :
    ∃ tok n, c.args[0]? = some tok ∧ n = u64 (counterOf (ctx.accts.read c.caller (nonceKeyPrefix ++ tok)) + 1) ∧
      out.ret = [beBytes n] ∧
      ctx'.accts.read c.caller (nonceKeyPrefix ++ tok) = beBytes n ∧
      ∃ qb name roy hash attrs, ctx'.accts.read c.caller (nftKey (esdtKeyPrefix ++ tok) n) =
        nftStoredForm (createdToken c qb name roy hash attrs n) ∧ mdNonce (createdToken c qb name roy hash attrs n) = n := by
  obtain ⟨tok, qb, name, roy, hash, attrs, n, A1, h0, _, _, _, _, _, hn, _, _, hret, hA1, hw⟩ := (nftCreate_effect env c ctx).elim h
  refine ⟨tok, n, h0, hn, hret, ?_, qb, name, roy, hash, attrs, ?_, rfl⟩
  · rw [hw, Accts.read_write]; simp
  · have hne : ¬ (c.caller = c.caller ∧ nonceKeyPrefix ++ tok = nftKey (esdtKeyPrefix ++ tok) n) := by
      rintro ⟨_, he⟩
      have := congrArg (List.take 7) he
      simp [nonceKeyPrefix, esdtKeyPrefix, nftKey, ascii] at this
    rw [hw, Accts.read_write, if_neg hne, hA1, Accts.read_write, if_pos ⟨rfl, rfl⟩]

/-- strictly increasing: below the 64-bit limit the new counter is exactly old + 1 and reads back as such -/
theorem create_increments (env : Env) (c : Call) (ctx ctx' : Ctx) (out : VMOutput)
    (h : esdtNFTCreate env c ctx = .ok (out, ctx')) (tok : Bytes) (h0 : c.args[0]? = some tok)
    (hlim : counterOf (ctx.accts.read c.caller (nonceKeyPrefix ++ tok)) + 1 < 2 ^ 64) :
    counterOf (ctx'.accts.read c.caller (nonceKeyPrefix ++ tok)) =
      counterOf (ctx.accts.read c.caller (nonceKeyPrefix ++ tok)) + 1 := by
  obtain ⟨tok', n, h0', hn, _, hread, _⟩ := create_succ env c ctx ctx' out h
  rw [h0] at h0'; cases h0'
  have hlt : counterOf (ctx.accts.read c.caller (nonceKeyPrefix ++ tok)) + 1 < two64 := by simpa [two64] using hlim
  rw [hread, hn, u64_of_lt _ hlt, counterOf_beBytes _ hlt]

/-- a create only moves the creator's OWN counter of the token it names -/
theorem create_touches_only_own_counter (env : Env) (c : Call) (ctx ctx' : Ctx) (out : VMOutput)
    (h : esdtNFTCreate env c ctx = .ok (out, ctx')) (a tok : Bytes) (hne : a ≠ c.caller) :
    ctx'.accts.read a (nonceKeyPrefix ++ tok) = ctx.accts.read a (nonceKeyPrefix ++ tok) := by
  obtain ⟨tok', qb, name, roy, hash, attrs, n, A1, _, _, _, _, _, _, _, _, _, _, hA1, hw⟩ := (nftCreate_effect env c ctx).elim h
  have h1 : ¬ (c.caller = a ∧ nonceKeyPrefix ++ tok' = nonceKeyPrefix ++ tok) := fun ⟨e, _⟩ => hne e.symm
  have h2 : ¬ (c.caller = a ∧ nftKey (esdtKeyPrefix ++ tok') n = nonceKeyPrefix ++ tok) := fun ⟨e, _⟩ => hne e.symm
  rw [hw, Accts.read_write, if_neg h1, hA1, Accts.read_write, if_neg h2]

structure HStep where
  f : FnId
  env : Env
  c : Call

/-- is this step a create by `h` for `tok`? -/
def HStep.isCreate (s : HStep) (h tok : Bytes) : Bool :=
  s.f == .nftCreate && s.c.caller == h && s.c.args[0]? == some tok

def nonceOfRet (out : VMOutput) : Nat := match out.ret with | [b] => beNat b | _ => 0

/-- run the steps from `A`; collect the nonces returned to `h` for `tok` (oldest first) -/
def hrun (h tok : Bytes) : List HStep → Accts → List Nat × Accts
  | [], A => ([], A)
  | s :: rest, A =>
    match exec s.env s.f s.c { accts := A } with
    | .ok (out, ctx') =>
      let r := hrun h tok rest ctx'.accts
      if s.isCreate h tok then (nonceOfRet out :: r.1, r.2) else r
    | _ => hrun h tok rest A

def ctr (A : Accts) (h tok : Bytes) : Nat := counterOf (A.read h (nonceKeyPrefix ++ tok))

/-- no counter of `h` for `tok` reaches 2^64 − 1 along the run (Go's uint64 would wrap to 0 there) -/
def NoWrapAlong (h tok : Bytes) : List HStep → Accts → Prop
  | [], A => ctr A h tok + 1 < 2 ^ 64
  | s :: rest, A =>
    ctr A h tok + 1 < 2 ^ 64 ∧
    match exec s.env s.f s.c { accts := A } with
    | .ok (_, ctx') => NoWrapAlong h tok rest ctx'.accts
    | _ => NoWrapAlong h tok rest A

theorem NoWrapAlong.head {h tok : Bytes} {steps : List HStep} {A : Accts} (hw : NoWrapAlong h tok steps A) :
    ctr A h tok + 1 < 2 ^ 64 := by
  cases steps with
  | nil => exact hw
  | cons s rest => exact hw.1

/-- one successful step: the counter of (h, tok) is unchanged, or the step is a create by `h` for `tok`, the counter rose
    by exactly one and the returned nonce is the new counter -/
theorem hstep_counter (h tok : Bytes) (s : HStep) (hno : s.f ≠ .nftCreateRoleTransfer) (A : Accts) (out : VMOutput)
    (ctx' : Ctx) (he : exec s.env s.f s.c { accts := A } = .ok (out, ctx')) (hw : ctr A h tok + 1 < 2 ^ 64) :
    (s.isCreate h tok = false ∧ ctr ctx'.accts h tok = ctr A h tok) ∨
    (s.isCreate h tok = true ∧ ctr ctx'.accts h tok = ctr A h tok + 1 ∧ nonceOfRet out = ctr A h tok + 1) := by
  by_cases hc : s.f = .nftCreate
  · have he' : esdtNFTCreate s.env s.c { accts := A } = .ok (out, ctx') := by
      unfold exec at he; rw [hc] at he; simpa [runFn] using he
    by_cases hcaller : s.c.caller = h
    · obtain ⟨tok', n, h0, hn, hret, hread, _⟩ := create_succ s.env s.c { accts := A } ctx' out he'
      by_cases htok : tok' = tok
      · subst htok
        refine Or.inr ⟨by simp [HStep.isCreate, hc, hcaller, h0], ?_, ?_⟩
        · have := create_increments s.env s.c { accts := A } ctx' out he' tok' h0 (by rw [hcaller]; exact hw)
          rw [hcaller] at this; exact this
        · have hlt : counterOf (A.read s.c.caller (nonceKeyPrefix ++ tok')) + 1 < two64 := by
            rw [hcaller]; simpa [two64, ctr] using hw
          simp only [nonceOfRet, hret, beNat_beBytes, hn, u64_of_lt _ hlt]
          rw [hcaller]; rfl
      · refine Or.inl ⟨by simp [HStep.isCreate, h0, htok], ?_⟩
        -- a create for another token writes (caller, nftKey tok' n) and (caller, nonce‖tok') only
        obtain ⟨tok2, qb, name, roy, hash, attrs, n2, A1, h0', _, _, _, _, _, _, _, _, _, hA1, hwr⟩ :=
          (nftCreate_effect s.env s.c { accts := A }).elim he'
        rw [h0] at h0'; cases h0'
        simp only [ctr]
        rw [hwr, Accts.read_write, hA1, Accts.read_write]
        have h1 : ¬ (s.c.caller = h ∧ nonceKeyPrefix ++ tok' = nonceKeyPrefix ++ tok) := by
          rintro ⟨_, e⟩; exact htok (List.append_cancel_left e)
        have h2 : ¬ (s.c.caller = h ∧ nftKey (esdtKeyPrefix ++ tok') n2 = nonceKeyPrefix ++ tok) := by
          rintro ⟨_, e⟩
          have := congrArg (List.take 7) e
          simp [nonceKeyPrefix, esdtKeyPrefix, nftKey, ascii] at this
        rw [if_neg h1, if_neg h2]
    · refine Or.inl ⟨by simp [HStep.isCreate, hcaller], ?_⟩
      simp only [ctr]
      rw [create_touches_only_own_counter s.env s.c { accts := A } ctx' out he' h tok (fun e => hcaller e.symm)]
  · refine Or.inl ⟨by simp [HStep.isCreate, hc], ?_⟩
    simp only [ctr]
    rw [counters_only_through s.f ⟨hc, hno⟩ s.env s.c { accts := A } ctx' out he h tok]

/-- FULL (history level, one holder, no hand-over in the history): the nonces returned to `h` for `tok` are all above the
    initial counter, strictly increasing, and bounded by the final counter -/
theorem hrun_increasing (h tok : Bytes) : ∀ (steps : List HStep) (A : Accts),
    (∀ s ∈ steps, s.f ≠ .nftCreateRoleTransfer) → NoWrapAlong h tok steps A →
    List.Pairwise (· < ·) (hrun h tok steps A).1 ∧
    (∀ n ∈ (hrun h tok steps A).1, ctr A h tok < n ∧ n ≤ ctr (hrun h tok steps A).2 h tok) ∧
    ctr A h tok ≤ ctr (hrun h tok steps A).2 h tok := by
  intro steps
  induction steps with
  | nil => intro A _ _; simp [hrun]
  | cons s rest ih =>
    intro A hno hw
    have hno' : ∀ s' ∈ rest, s'.f ≠ .nftCreateRoleTransfer := fun s' hs' => hno s' (by simp [hs'])
    obtain ⟨hw0, hwrest⟩ := hw
    simp only [hrun]
    cases he : exec s.env s.f s.c { accts := A } with
    | ok p =>
      obtain ⟨out, ctx'⟩ := p
      simp only [he] at hwrest ⊢
      obtain ⟨ih1, ih2, ih3⟩ := ih ctx'.accts hno' hwrest
      rcases hstep_counter h tok s (hno s (by simp)) A out ctx' he hw0 with ⟨hc, hsame⟩ | ⟨hc, hinc, hret⟩
      · simp only [hc, Bool.false_eq_true, if_false]
        rw [hsame] at ih2 ih3
        exact ⟨ih1, ih2, ih3⟩
      · simp only [hc, if_true]
        refine ⟨?_, ?_, by omega⟩
        · refine List.pairwise_cons.mpr ⟨?_, ih1⟩
          intro n hn
          have := (ih2 n hn).1
          omega
        · intro n hn
          rcases List.mem_cons.mp hn with rfl | hn
          · omega
          · have := ih2 n hn
            omega
    | err e' =>
      simp only [he] at hwrest ⊢
      exact ih A hno' hwrest
    | panic =>
      simp only [he] at hwrest ⊢
      exact ih A hno' hwrest

end Esdt
