/-
  Proofs/UnifiedPaused.lean — C04, pause half, in the mixed world (Proofs/Unified.lean): while a token is paused on a shard,
  no entry of the token (fungible or any nonce; value, flags, metadata: byte for byte) of any account of that shard other
  than the ESDT system contract's own changes, and the token stays paused, along ANY history that interleaves ESDTTransfer
  traffic (user transactions, deliveries, refusals, refunds) with calls of the 20 functions that are not transfers — by
  anybody, with any arguments. Excluded, as the property words it: wipe / freeze / unfreeze / (un)pause of that very token
  by the system contract, refunds of that token (flagged return-after-error), and aliasing token identifiers.
-/
import Proofs.UnifiedFrozen
import Proofs.PausedHistory
namespace Esdt

/-- `tok` is paused and every entry of it reads what `f` says -/
def Pz (tok : Bytes) (f : Bytes → Nat → Bytes) (A : Accts) : Prop :=
  PausedAt A tok ∧ ∀ a n, a ≠ esdtSCAddress → A.read a (nftKey (esdtKeyPrefix ++ tok) n) = f a n

variable {tok : Bytes} {f : Bytes → Nat → Bytes}

theorem esdtSC_ne_sys : esdtSCAddress ≠ systemAccountAddress := by decide

theorem Pz.write_other {A : Accts} (hf : Pz tok f A) (a1 k1 val : Bytes)
    (hne : ∀ n, k1 ≠ nftKey (esdtKeyPrefix ++ tok) n) : Pz tok f (A.write a1 k1 val) := by
  refine ⟨pausedAt_congr ?_ hf.1, fun a n ha => ?_⟩
  · rw [Accts.read_write, if_neg (fun hh => hne 0 (by rw [nftKey_zero]; exact hh.2))]
  · rw [Accts.read_write, if_neg (fun hh => hne n hh.2)]; exact hf.2 a n ha

/-- a write into the ESDT system contract's own account -/
theorem Pz.write_sc {A : Accts} (hf : Pz tok f A) (k1 val : Bytes) : Pz tok f (A.write esdtSCAddress k1 val) := by
  refine ⟨pausedAt_congr ?_ hf.1, fun a n ha => ?_⟩
  · rw [Accts.read_write, if_neg (fun hh => esdtSC_ne_sys hh.1)]
  · rw [Accts.read_write, if_neg (fun hh => ha hh.1.symm)]; exact hf.2 a n ha

theorem ntc_pz (tok : Bytes) (f : Bytes → Nat → Bytes) : NTC (Pz tok f) := by
  refine ⟨fun A a1 k1 val hk h => h.write_other a1 k1 val (fun n he => hk (he ▸ tokKey_nft tok n)), fun A a1 x hx h => ?_⟩
  refine ⟨pausedAt_congr (read_set_fields A a1 x hx _ _) h.1, fun a n ha => ?_⟩
  rw [read_set_fields A a1 x hx]; exact h.2 a n ha

/-- a token identifier that does not alias `tok`: it is `tok` itself, or none of its keys is a key of `tok` -/
def NoAliasTok (tok tok' : Bytes) : Prop :=
  tok' ≠ tok → ∀ n n', nftKey (esdtKeyPrefix ++ tok') n' ≠ nftKey (esdtKeyPrefix ++ tok) n

theorem NoAliasTok.key0 {tok' : Bytes} (h : NoAliasTok tok tok') (hne : tok' ≠ tok) (n : Nat) :
    esdtKeyPrefix ++ tok' ≠ nftKey (esdtKeyPrefix ++ tok) n := by
  have := h hne n 0; rwa [nftKey_zero] at this

/-! ### ESDTTransfer -/

/-- a balance change through the gate cannot hit an entry of the paused token -/
theorem pa_addTo (a1 tokenID : Bytes) (d : Int) (hna : NoAliasTok tok tokenID) :
    Pres (Pz tok f) (addToESDTBalance a1 (esdtKeyPrefix ++ tokenID) d false) := by
  intro c hf
  apply Post.mono (spec_addToESDTBalance a1 (esdtKeyPrefix ++ tokenID) d false c)
  intro _ c' ⟨t, v0, _, _, _, _, hg, hw⟩
  rw [hw]
  by_cases hsc : a1 = esdtSCAddress
  · rw [hsc]; exact hf.write_sc _ _
  · by_cases ht : tokenID = tok
    · exfalso
      have := (hg rfl hsc).2
      rw [ht] at this
      have hp := hf.1
      unfold PausedAt at hp; rw [this] at hp; cases hp
    · exact hf.write_other _ _ _ (fun n => hna.key0 ht n)

/-- … and one aimed at another token does not touch it, whatever its flag -/
theorem pa_addTo_other (a1 tokenID : Bytes) (d : Int) (rae : Bool) (hne : tokenID ≠ tok) (hna : NoAliasTok tok tokenID) :
    Pres (Pz tok f) (addToESDTBalance a1 (esdtKeyPrefix ++ tokenID) d rae) := by
  intro c hf
  apply Post.mono (spec_addToESDTBalance a1 (esdtKeyPrefix ++ tokenID) d rae c)
  intro _ c' ⟨t, v0, _, _, _, _, _, hw⟩
  rw [hw]; exact hf.write_other _ _ _ (fun n => hna.key0 hne n)

/-- an ESDTTransfer that is not flagged return-after-error (every user transaction, every delivery) -/
theorem pa_esdtTransfer (env : Env) (c : Call) (hrae : c.rae = false)
    (hna : ∀ t0, c.args[0]? = some t0 → NoAliasTok tok t0) : Pres (Pz tok f) (esdtTransfer env c) := by
  unfold Esdt.esdtTransfer
  simp only [hrae]
  refine Pres.bind (Pres.of_ro (ro_checkBasic _)) (fun _ => ?_)
  refine Pres.bind (Pres.of_ro (RO.guardE _ _)) (fun _ => ?_)
  apply Pres.argAt_bind
  intro tokenID h0
  pz
  all_goals exact pa_addTo _ _ _ (hna tokenID h0)

/-- an ESDTTransfer (flagged or not) of another token -/
theorem pa_esdtTransfer_other (env : Env) (c : Call)
    (hoth : ∀ t0, c.args[0]? = some t0 → t0 ≠ tok ∧ NoAliasTok tok t0) : Pres (Pz tok f) (esdtTransfer env c) := by
  unfold Esdt.esdtTransfer
  refine Pres.bind (Pres.of_ro (ro_checkBasic _)) (fun _ => ?_)
  refine Pres.bind (Pres.of_ro (RO.guardE _ _)) (fun _ => ?_)
  apply Pres.argAt_bind
  intro tokenID h0
  pz
  all_goals exact pa_addTo_other _ _ _ _ (hoth tokenID h0).1 (hoth tokenID h0).2

/-! ### the 20 functions that are not transfers -/

/-- what is assumed of a call for the paused token: it is not flagged return-after-error; it names `tok` itself or a token
    that does not alias it; and it is none of the system contract's exempt operations ON `tok` (wipe / freeze / unfreeze /
    pause / un-pause of that very token) -/
structure LocalPzOK (tok : Bytes) (f : FnId) (c : Call) : Prop where
  rae : c.rae = false
  noAlias : ∀ t0, c.args[0]? = some t0 → NoAliasTok tok t0
  notTarget : (f = .esdtWipe ∨ f = .esdtFreeze ∨ f = .esdtUnFreeze ∨ f = .esdtPause ∨ f = .esdtUnPause) →
    ∀ t0, c.args[0]? = some t0 → t0 ≠ tok

theorem noAliasCall_of {c : Call} (h : ∀ t0, c.args[0]? = some t0 → NoAliasTok tok t0) : NoAliasCall tok c :=
  fun tok' h0 hne n n' => h tok' h0 hne n n'

theorem local_pz_step (fn : FnId) (env : Env) (c : Call) (A : Accts) (out : VMOutput) (ctx' : Ctx)
    (ok : LocalOK env fn c A) (okp : LocalPzOK tok fn c)
    (hf : Pz tok f A) (h : exec env fn c { accts := A } = .ok (out, ctx')) : Pz tok f ctx'.accts := by
  have supplyCase : ∀ op : SupplyOp, op ≠ .wipe ∧ op ≠ .freeze ∧ op ≠ .unfreeze → isPauseFn fn = false →
      op.run env c { accts := A } = .ok (out, ctx') → Pz tok f ctx'.accts := by
    intro op hop hp hrun
    obtain ⟨hcs, _⟩ := ok.notSys hp
    obtain ⟨hr, hpa⟩ := paused_step op hop env c A out ctx' hrun tok hf.1 okp.rae hcs (noAliasCall_of okp.noAlias)
    exact ⟨hpa, fun a n ha => by rw [hr a n ha]; exact hf.2 a n ha⟩
  have plainCase : PlainFn fn → Pz tok f ctx'.accts := fun hp =>
    plain_pres (ntc_pz tok f) hp env c { accts := A } ctx' out hf h
  -- a write under the fungible key of ANOTHER token (wipe / freeze / unfreeze / pause / un-pause aimed elsewhere)
  have otherTok : ∀ (a1 t0 val : Bytes), c.args[0]? = some t0 →
      (fn = .esdtWipe ∨ fn = .esdtFreeze ∨ fn = .esdtUnFreeze ∨ fn = .esdtPause ∨ fn = .esdtUnPause) →
      ctx'.accts = A.write a1 (esdtKeyPrefix ++ t0) val → Pz tok f ctx'.accts := by
    intro a1 t0 val h0 hfn hw
    rw [hw]
    exact hf.write_other _ _ _ (fun n => (okp.noAlias t0 h0).key0 (okp.notTarget hfn t0 h0) n)
  -- a metadata rewrite made through the pause gate
  have metaCase : ∀ {tok' nb : Bytes} {t : Token} {m m' : MetaData}, c.args[0]? = some tok' →
      PauseOpen A c c.caller tok' →
      MetaWrite A ctx'.accts c.caller (esdtKeyPrefix ++ tok') (u64 (beNat nb)) t m m' → Pz tok f ctx'.accts := by
    intro tok' nb t m m' h0 hgate hw
    rw [hw.written]
    by_cases hsc : c.caller = esdtSCAddress
    · rw [hsc]; exact hf.write_sc _ _
    · by_cases ht : tok' = tok
      · exfalso
        have := hgate okp.rae hsc
        rw [ht] at this
        have hp := hf.1
        unfold PausedAt at hp; rw [this] at hp; cases hp
      · exact hf.write_other _ _ _ (fun n => (okp.noAlias tok' h0) ht n m.nonce)
  have hnt := ok.notTransfer
  unfold exec at h
  cases fn <;> simp only [runFn] at h
  · exact plainCase .claim
  · exact plainCase .owner
  · exact plainCase .name
  · exact plainCase .skv
  · obtain ⟨t0, h0, hw⟩ := (pause_effect true env c { accts := A }).elim h
    exact otherTok _ t0 _ h0 (Or.inr (Or.inr (Or.inr (Or.inl rfl)))) hw
  · obtain ⟨t0, h0, hw⟩ := (pause_effect false env c { accts := A }).elim h
    exact otherTok _ t0 _ h0 (Or.inr (Or.inr (Or.inr (Or.inr rfl)))) hw
  · cases hnt
  · exact supplyCase .burn (by decide) rfl h
  · obtain ⟨t0, t, h0, _, _, _, hw⟩ := (toggleFreeze_effect .freeze (by decide) env c { accts := A }).elim h
    exact otherTok _ t0 _ h0 (Or.inr (Or.inl rfl)) hw
  · obtain ⟨t0, t, h0, _, _, _, hw⟩ := (toggleFreeze_effect .unfreeze (by decide) env c { accts := A }).elim h
    exact otherTok _ t0 _ h0 (Or.inr (Or.inr (Or.inl rfl))) hw
  · obtain ⟨t0, t, h0, _, _, _, hw⟩ := (wipe_effect env c { accts := A }).elim h
    exact otherTok _ t0 _ h0 (Or.inl rfl) hw
  · exact plainCase .unSetRole
  · exact plainCase .setRole
  · exact supplyCase .localBurn (by decide) rfl h
  · exact supplyCase .mint (by decide) rfl h
  · exact supplyCase .addQty (by decide) rfl h
  · exact supplyCase .nftBurn (by decide) rfl h
  · exact supplyCase .create (by decide) rfl h
  · cases hnt
  · exact plainCase .handOver
  · obtain ⟨tok', nb, attrs, t, m, h0, _, _, _, hw⟩ := (updateAttributes_effect env c { accts := A }).elim h
    obtain ⟨tok'', h0', hg⟩ := (pause_updateAttributes env c { accts := A }).elim h
    rw [h0] at h0'; cases h0'
    exact metaCase h0 hg hw
  · obtain ⟨tok', nb, t, m, h0, _, _, hw⟩ := (addURI_effect env c { accts := A }).elim h
    obtain ⟨tok'', h0', hg⟩ := (pause_addURI env c { accts := A }).elim h
    rw [h0] at h0'; cases h0'
    exact metaCase h0 hg hw
  · cases hnt

/-! ### the world: ESDTTransfer traffic mixed with the 20 other functions -/

/-- `tok` is paused on shard `i`, whose entries of `tok` read `f` -/
def PzW (tok : Bytes) (f : Bytes → Nat → Bytes) (i : Nat) (w : UWorld) : Prop := ∃ A, w.shards[i]? = some A ∧ Pz tok f A

/-- what is assumed of a step for the paused token -/
def UPzStepOK (tok : Bytes) (w : UWorld) : UStep → Prop
  | .ft (.user c) => c.rae = false ∧ ∀ t0, c.args[0]? = some t0 → NoAliasTok tok t0
  | .ft (.deliver j) => ∀ m, w.ft[j]? = some m → NoAliasTok tok m.tok
  | .ft (.refund j) => ∀ m, w.ft[j]? = some m → m.tok ≠ tok ∧ NoAliasTok tok m.tok
  | .call _ fn c => LocalPzOK tok fn c
  | .nft _ => False
  | .multi _ => False

theorem ustep_pz (e : Env) (w : UWorld) (st : UStep) (i : Nat) (hok : UStepOK e w st)
    (hpz : UPzStepOK tok w st) (hF : PzW tok f i w) : PzW tok f i (ustep e w st) := by
  obtain ⟨A, hA, hf⟩ := hF
  have hrunOn : ∀ {s : Nat} {c : Call} {A1 : Accts}, runOn e w.toN s c = some A1 →
      (∀ env, Pres (Pz tok f) (esdtTransfer env c)) → ∃ A', (w.shards.set s A1)[i]? = some A' ∧ Pz tok f A' := by
    intro s c A1 hr hp
    obtain ⟨A0, out, ctx', hA0, hex, hA1⟩ := runOn_some hr
    apply getElem?_set_pres hA hf
    intro A0' hA0' hs
    subst hs
    have : A0 = A := by
      have h1 : w.toN.shards[s]? = some A0 := hA0
      simp only [UWorld.toN] at h1
      rw [hA] at h1; cases h1; rfl
    subst this
    rw [← hA1]
    exact (hp _ { accts := A0 } hf).elim hex
  cases st with
  | nft st => exact absurd hpz (by simp [UPzStepOK])
  | multi st => exact absurd hpz (by simp [UPzStepOK])
  | call s fn c =>
    simp only [ustep]
    cases hAs : w.shards[s]? with
    | none => exact ⟨A, hA, hf⟩
    | some A0 =>
      simp only []
      cases hex : exec { e with self := s } fn c { accts := A0 } with
      | ok p =>
        obtain ⟨out, ctx'⟩ := p
        simp only []
        apply getElem?_set_pres hA hf
        intro A0' hA0' hs
        subst hs
        have : A0 = A := by rw [hA] at hAs; cases hAs; rfl
        subst this
        exact local_pz_step fn _ c A0 out ctx' (hok A0 hA) hpz hf hex
      | err er => exact ⟨A, hA, hf⟩
      | panic => exact ⟨A, hA, hf⟩
  | ft st =>
    simp only [ustep]
    show ∃ A', (nstep e w.toN st).shards[i]? = some A' ∧ Pz tok f A'
    have keep : ∃ A', w.toN.shards[i]? = some A' ∧ Pz tok f A' := ⟨A, hA, hf⟩
    cases st with
    | user c =>
      obtain ⟨hrae, hna⟩ : c.rae = false ∧ ∀ t0, c.args[0]? = some t0 → NoAliasTok tok t0 := hpz
      simp only [nstep]
      cases hr : runOn e w.toN (shardOf e.nshards c.caller) c with
      | none => exact keep
      | some A1 =>
        simp only []
        have := hrunOn hr (fun env => pa_esdtTransfer env c hrae hna)
        split
        · exact this
        · split <;> exact this
    | deliver j =>
      simp only [nstep]
      cases hm : w.toN.inflight[j]? with
      | none => exact keep
      | some m =>
        simp only []
        split
        · exact keep
        · cases hr : runOn e w.toN (shardOf e.nshards m.rcv) (deliveryCall m) with
          | none => exact keep
          | some A1 =>
            have hcond : NoAliasTok tok m.tok := hpz m hm
            refine hrunOn hr (fun env => pa_esdtTransfer env (deliveryCall m) rfl (fun t0 ht0 => ?_))
            simp [deliveryCall] at ht0
            subst ht0
            exact hcond
    | refund j =>
      simp only [nstep]
      cases hm : w.toN.inflight[j]? with
      | none => exact keep
      | some m =>
        simp only []
        split
        · exact keep
        · cases hr : runOn e w.toN (shardOf e.nshards m.caller) (refundCall m) with
          | none => exact keep
          | some A1 =>
            have hcond := hpz m hm
            refine hrunOn hr (fun env => pa_esdtTransfer_other env (refundCall m) (fun t0 ht0 => ?_))
            simp [refundCall] at ht0
            subst ht0
            exact hcond

/-- every step is admissible for the paused token, on the world it runs on -/
def UPzStepsOK (e : Env) (tok : Bytes) : List UStep → UWorld → Prop
  | [], _ => True
  | st :: rest, w => UPzStepOK tok w st ∧ UPzStepsOK e tok rest (ustep e w st)

/-- FULL over histories of ESDTTransfer traffic mixed with the 20 non-transfer functions -/
theorem unified_pz_history (e : Env) (i : Nat) :
    ∀ (steps : List UStep) (w : UWorld), UInv e w → UStepsOK e steps w → UPzStepsOK e tok steps w →
      PzW tok f i w → PzW tok f i (urun e steps w).1 := by
  intro steps
  induction steps with
  | nil => intro w _ _ _ hF; exact hF
  | cons st rest ih =>
    intro w hI hok hpz hF
    obtain ⟨h1, hrest⟩ := hok
    obtain ⟨f1, frest⟩ := hpz
    have hI1 := (ustep_ledger e w st hI h1).2
    have hF1 := ustep_pz e w st i h1 f1 hF
    simp only [urun]
    exact ih (ustep e w st) hI1 hrest frest hF1

end Esdt
