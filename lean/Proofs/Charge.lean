/-
  Proofs/Charge.lean — C16: a successful sender-side execution consumes exactly the function's own
  configured cost plus its per-byte components priced by the same schedule.
-/
import Proofs.Gas
namespace Esdt

/-- gas consumed by a result: provided − remaining − forwarded -/
def charge (gas : Nat) (out : VMOutput) : Nat := gas - out.gasRemaining - fwd out

macro "charge_fin" : tactic => `(tactic| (
  try simp only [addOutputTransfer, addNFTTransfer]
  try simp only [fwd, List.flatMap_nil, List.flatMap_cons, List.map_nil, List.map_cons, List.map_append, List.sum_nil,
    List.sum_cons, List.sum_append, List.append_nil, List.nil_append]
  simp only [decide_eq_false_iff_not, decide_eq_true_eq, Bool.not_eq_true', Bool.not_eq_false', Nat.not_lt, gt_iff_lt,
    Bool.not_eq_eq_eq_not, Bool.not_true, Bool.not_false, Option.getD_some, Option.getD_none] at *
  first
  | omega
  | (unfold u64 two64 at *; omega)
  | (exfalso; simp_all; done)
  | (simp_all; done)
  | (simp_all <;> omega)))

macro "charge_close" : tactic => `(tactic| (
  simp only [charge]
  try simp only [computeGasRemaining, safeSubUint64]
  (repeat' split) <;> charge_fin))

theorem charge_esdtLocalMint (env : Env) (c : Call) (ctx : Ctx) (hg : c.gas < two64) :
    Post (esdtLocalMint env c) ctx (fun out _ => charge c.gas out = env.gas.fn.esdtLocalMint) := by
  unfold esdtLocalMint checkLocalAction checkBasic
  wp
  all_goals charge_close

theorem charge_esdtLocalBurn (env : Env) (c : Call) (ctx : Ctx) (hg : c.gas < two64) :
    Post (esdtLocalBurn env c) ctx (fun out _ => charge c.gas out = env.gas.fn.esdtLocalBurn) := by
  unfold esdtLocalBurn checkLocalAction checkBasic
  wp
  all_goals charge_close

theorem charge_esdtBurn (env : Env) (c : Call) (ctx : Ctx) (hg : c.gas < two64) :
    Post (esdtBurn env c) ctx (fun out _ => charge c.gas out = env.gas.fn.esdtBurn) := by
  unfold esdtBurn checkBasic
  wp
  all_goals charge_close

theorem charge_esdtNFTAddQuantity (env : Env) (c : Call) (ctx : Ctx) (hg : c.gas < two64) :
    Post (esdtNFTAddQuantity env c) ctx (fun out _ => charge c.gas out = env.gas.fn.esdtNFTAddQuantity) := by
  unfold esdtNFTAddQuantity checkCreateBurnAdd checkBasic
  wp
  all_goals charge_close

theorem charge_esdtNFTBurn (env : Env) (c : Call) (ctx : Ctx) (hg : c.gas < two64) :
    Post (esdtNFTBurn env c) ctx (fun out _ => charge c.gas out = env.gas.fn.esdtNFTBurn) := by
  unfold esdtNFTBurn checkCreateBurnAdd checkBasic
  wp
  all_goals charge_close

theorem charge_esdtNFTCreate (env : Env) (c : Call) (ctx : Ctx) (hg : c.gas < two64) (hlen : totalLen c.args < two64)
    (hsum : totalLen c.args * env.gas.base.storePerByte + env.gas.fn.esdtNFTCreate < two64) :
    Post (esdtNFTCreate env c) ctx (fun out _ =>
      charge c.gas out = env.gas.fn.esdtNFTCreate + totalLen c.args * env.gas.base.storePerByte) := by
  unfold esdtNFTCreate checkCreateBurnAdd checkBasic
  wp
  all_goals
    simp only [charge, fwd, List.flatMap_nil, List.map_nil, List.sum_nil]
    have hgd := ‹decide (c.gas < u64 (u64 (u64 (totalLen c.args) * _) + _)) = false›
    have h0 : totalLen c.args * env.gas.base.storePerByte < two64 := by omega
    rw [u64_of_lt _ hlen, u64_of_lt _ h0, u64_of_lt _ hsum] at hgd ⊢
    simp only [decide_eq_false_iff_not, Nat.not_lt] at hgd
    rw [u64_of_lt _ (by omega)]
    omega

theorem charge_setUserName (env : Env) (c : Call) (ctx : Ctx)
    (hdst : present env.nshards env.self c.rcv = true) :
    Post (setUserName env c) ctx (fun out _ => charge c.gas out = env.gas.fn.saveUserName) := by
  unfold setUserName
  wp
  all_goals charge_close

theorem charge_changeOwnerAddress (env : Env) (c : Call) (ctx : Ctx)
    (hsnd : present env.nshards env.self c.caller = true) :
    Post (changeOwnerAddress env c) ctx (fun out _ => charge c.gas out = env.gas.fn.changeOwnerAddress) := by
  unfold changeOwnerAddress
  wp
  all_goals charge_close

/-- (a contract that claims through an asynchronous call on the rewards contract's own shard has its
    forwarded gas dropped together with the output account: it then consumes everything — see
    `claim_async_contract_consumes_all` in Props/C16) -/
theorem charge_claimDeveloperRewards (env : Env) (c : Call) (ctx : Ctx)
    (hsnd : present env.nshards env.self c.caller = true) (hdst : present env.nshards env.self c.rcv = true)
    (hnot : ¬ (c.callType = 1 ∧ isSmartContractAddress c.caller = true)) :
    Post (claimDeveloperRewards env c) ctx (fun out _ => charge c.gas out = env.gas.fn.claimDeveloperRewards) := by
  unfold claimDeveloperRewards
  wp
  all_goals charge_close

theorem charge_esdtTransfer (env : Env) (c : Call) (ctx : Ctx)
    (hsnd : present env.nshards env.self c.caller = true) :
    Post (esdtTransfer env c) ctx (fun out _ => charge c.gas out = env.gas.fn.esdtTransfer) := by
  unfold esdtTransfer checkBasic
  wp
  all_goals charge_close

end Esdt

namespace Esdt

theorem two_sub_eq (gas cost store : Nat) (hg : gas < two64) (hsum : cost + store < two64)
    (hguard : ¬ gas < u64 (cost + u64 store)) : gas - u64 (u64 (gas - cost) + two64 - u64 store) = cost + store := by
  have hs : store < two64 := by omega
  rw [u64_of_lt _ hs] at hguard ⊢
  rw [u64_of_lt _ hsum] at hguard
  have h1 : u64 (gas - cost) = gas - cost := u64_of_lt _ (by omega)
  rw [h1]
  have e : gas - cost + two64 - store = two64 + (gas - cost - store) := by omega
  rw [e]
  unfold u64
  unfold two64 at *
  omega

theorem charge_esdtNFTAddURI (env : Env) (c : Call) (ctx : Ctx) (hg : c.gas < two64)
    (hsum : env.gas.fn.esdtNFTAddURI + totalLen (c.args.drop 2) * env.gas.base.storePerByte < two64) :
    Post (esdtNFTAddURI env c) ctx (fun out _ =>
      charge c.gas out = env.gas.fn.esdtNFTAddURI + totalLen (c.args.drop 2) * env.gas.base.storePerByte) := by
  unfold esdtNFTAddURI checkCreateBurnAdd checkBasic
  wp
  all_goals
    simp only [charge, fwd, List.flatMap_nil, List.map_nil, List.sum_nil]
    rw [Nat.sub_zero]
    apply two_sub_eq _ _ _ hg hsum
    have hgd := ‹decide (c.gas < u64 (_ + u64 _)) = false›
    simpa using hgd

theorem charge_esdtNFTUpdateAttributes (env : Env) (c : Call) (ctx : Ctx) (hg : c.gas < two64)
    (hsum : ∀ a2, c.args[2]? = some a2 →
      env.gas.fn.esdtNFTUpdateAttributes + a2.length * env.gas.base.storePerByte < two64) :
    Post (esdtNFTUpdateAttributes env c) ctx (fun out _ =>
      ∃ a2, c.args[2]? = some a2 ∧
        charge c.gas out = env.gas.fn.esdtNFTUpdateAttributes + a2.length * env.gas.base.storePerByte) := by
  unfold esdtNFTUpdateAttributes checkCreateBurnAdd checkBasic
  wp
  all_goals
    refine ⟨_, ‹c.args[2]? = some _›, ?_⟩
    simp only [charge, fwd, List.flatMap_nil, List.map_nil, List.sum_nil]
    rw [Nat.sub_zero]
    apply two_sub_eq _ _ _ hg (hsum _ ‹_›)
    have hgd := ‹decide (c.gas < u64 (_ + u64 _)) = false›
    simpa using hgd

end Esdt

namespace Esdt

/-- K1 (known finding, the point `charge_claimDeveloperRewards` excludes): claimed by a smart contract through an
    asynchronous call, with both accounts on the executing shard, a successful ClaimDeveloperRewards returns GasRemaining 0
    and no output account at all — the transfer that carried the remaining gas is dropped — so the whole provided gas is
    consumed, whatever the schedule says -/
theorem charge_claim_async_contract (env : Env) (c : Call) (ctx : Ctx)
    (hsnd : present env.nshards env.self c.caller = true) (hdst : present env.nshards env.self c.rcv = true)
    (hct : c.callType = 1) (hsc : isSmartContractAddress c.caller = true) :
    Post (claimDeveloperRewards env c) ctx (fun out _ => out.gasRemaining = 0 ∧ out.outAccts = [] ∧ charge c.gas out = c.gas) := by
  unfold claimDeveloperRewards
  simp only [hsnd, hdst, hct, hsc, Bool.not_true, Bool.false_eq_true, if_false, if_true]
  wp
  all_goals simp [charge, fwd]

end Esdt
