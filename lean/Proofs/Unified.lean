/-
  Proofs/Unified.lean — ONE world in which all 23 built-in functions are interleaved: any number of shards, the three
  kinds of cross-shard messages in flight (ESDTTransfer, ESDTNFTTransfer, MultiESDTNFTTransfer: sent, delivered, refused
  and refunded in any order), and on any shard, between any two of those steps, calls of the 20 other functions by
  anybody.  The per-key ledger

      Σ_shards balAt + in flight (all three kinds)  =  what it was  +  Σ stated amounts of the supply operations

  holds after every history (induction over the step list).  The step functions of the three transfer worlds
  (Proofs/Network*, shared shards, each its own in-flight list) are reused as they are: a step of one family leaves the
  other families' messages alone and keeps the shard invariant `SInv` they all rely on.
-/
import Proofs.TokFrame
import Proofs.NetworkMulti
namespace Esdt

/-! ### every ESDTTransfer call keeps the shard invariant -/

/-- short values and positive metadata nonces, together (the second needs the first for what was just written) -/
def SM (A : Accts) : Prop := Short A ∧ MdPos A

theorem SM.addToESDTBalance (a k : Bytes) (d : Int) (rae : Bool) : Pres SM (addToESDTBalance a k d rae) := by
  intro c hsm
  obtain ⟨hS, hM⟩ := hsm
  apply Post.mono (Post.and (spec_addToESDTBalance a k d rae c) (sp_addToESDTBalance a k d rae c hS))
  intro _ c' ⟨⟨t, v, hold, _, _, _, _, hw⟩, hS'⟩
  refine ⟨hS', ?_⟩
  have hl := hS' a k
  rw [hw, Accts.read_write, if_pos ⟨rfl, rfl⟩] at hl
  rw [hw]
  exact mdpos_write_stored _ _ _ _ hM hold hl
macro_rules | `(tactic| pz_spec) => `(tactic| exact SM.addToESDTBalance _ _ _ _)

theorem SM.esdtTransfer (env : Env) (c : Call) : Pres SM (esdtTransfer env c) := by
  unfold Esdt.esdtTransfer; pz

theorem esdtTransfer_sinv (env : Env) (c : Call) (A : Accts) (out : VMOutput) (ctx' : Ctx) (hI : SInv A)
    (h : esdtTransfer env c { accts := A } = .ok (out, ctx')) : SInv ctx'.accts := by
  obtain ⟨hS', hM'⟩ := (SM.esdtTransfer env c { accts := A } ⟨hI.short, hI.mdpos⟩).elim h
  exact ⟨nodup_step .esdtTransfer env c { accts := A } ctx' out hI.nodup h,
    (canon_esdtTransfer_all env c { accts := A } ctx' out hI.canon hI.short h).toCanon hS', hS', hM'⟩

theorem runOn_sinv {e : Env} {w : NWorld} {s : Nat} {c : Call} {A' : Accts} (hW : ∀ A ∈ w.shards, SInv A)
    (h : runOn e w s c = some A') : SInv A' := by
  obtain ⟨A, out, ctx', hA, hex, hA'⟩ := runOn_some h
  rw [← hA']
  exact esdtTransfer_sinv _ c A out ctx' (hW A (List.mem_of_getElem? hA)) hex

/-- a step of the ESDTTransfer world keeps the shard invariant on every shard -/
theorem nstep_sinv (e : Env) (w : NWorld) (st : NStep) (hW : ∀ A ∈ w.shards, SInv A) :
    ∀ A ∈ (nstep e w st).shards, SInv A := by
  have hset : ∀ (s : Nat) (A' : Accts), SInv A' → ∀ A ∈ w.shards.set s A', SInv A :=
    fun s A' hA' => mem_set_of _ _ _ _ hW hA'
  cases st with
  | user c =>
    simp only [nstep]
    cases hr : runOn e w (shardOf e.nshards c.caller) c with
    | none => exact hW
    | some A' =>
      simp only []
      split
      · exact hset _ _ (runOn_sinv hW hr)
      · split <;> exact hset _ _ (runOn_sinv hW hr)
  | deliver i =>
    simp only [nstep]
    cases hm : w.inflight[i]? with
    | none => exact hW
    | some m =>
      simp only []
      split
      · exact hW
      · cases hr : runOn e w (shardOf e.nshards m.rcv) (deliveryCall m) with
        | none => exact hW
        | some A' => exact hset _ _ (runOn_sinv hW hr)
  | refund i =>
    simp only [nstep]
    cases hm : w.inflight[i]? with
    | none => exact hW
    | some m =>
      simp only []
      split
      · exact hW
      · cases hr : runOn e w (shardOf e.nshards m.caller) (refundCall m) with
        | none => exact hW
        | some A' => exact hset _ _ (runOn_sinv hW hr)

/-! ### the 20 functions that are not transfers: what one call does to the ledger of its shard -/

def supplyOpOf : FnId → Option SupplyOp
  | .localMint => some .mint
  | .localBurn => some .localBurn
  | .esdtBurn => some .burn
  | .nftCreate => some .create
  | .nftAddQuantity => some .addQty
  | .nftBurn => some .nftBurn
  | .esdtWipe => some .wipe
  | .esdtFreeze => some .freeze
  | .esdtUnFreeze => some .unfreeze
  | _ => none

def isTransferFn : FnId → Bool
  | .esdtTransfer | .nftTransfer | .multiTransfer => true
  | _ => false

def isPauseFn : FnId → Bool
  | .esdtPause | .esdtUnPause => true
  | _ => false

/-- the amount by which a successful call of a non-transfer function moves the shard's sum of balances under key `k`:
    the stated amount of a supply operation (C02); for pause / un-pause what the system account's own slot was worth
    (it is overwritten by the flag pair — nothing, unless tokens had been sent to the system account itself); 0 for the
    nine other functions -/
def localDelta (f : FnId) (c : Call) (A : Accts) (out : VMOutput) (k : Bytes) : Int :=
  match supplyOpOf f with
  | some op => supplyDelta op c A out k
  | none =>
    if isPauseFn f then
      match c.args[0]? with
      | some tok => if esdtKeyPrefix ++ tok = k then - balOf (A.read systemAccountAddress k) else 0
      | none => 0
    else 0

/-- what is assumed of a call of one of the 20 functions: its arguments are Go slices; a call to oneself runs where the
    caller lives; the system account (the global-settings store) is neither caller nor recipient except for pause /
    un-pause, whose recipient it has to be; an NFT create does not find its counter at 2^64 − 1 -/
structure LocalOK (env : Env) (f : FnId) (c : Call) (A : Accts) : Prop where
  notTransfer : isTransferFn f = false
  argsShort : ArgsShort c
  reach : c.caller = c.rcv → present env.nshards env.self c.caller = true
  notSys : isPauseFn f = false → c.caller ≠ systemAccountAddress ∧ c.rcv ≠ systemAccountAddress
  noWrap : f = .nftCreate → ∀ tok, c.args[0]? = some tok →
    counterOf (A.read c.caller (nonceKeyPrefix ++ tok)) + 1 < two64

theorem local_step (f : FnId) (env : Env) (c : Call) (A : Accts) (out : VMOutput) (ctx' : Ctx) (hI : SInv A)
    (ok : LocalOK env f c A) (h : exec env f c { accts := A } = .ok (out, ctx')) :
    SInv ctx'.accts ∧ ∀ k, TokKey k → balAt ctx'.accts k = balAt A k + localDelta f c A out k := by
  obtain ⟨hN', hC', hS'⟩ :=
    C15base f env c { accts := A } ctx' out hI.nodup hI.canon hI.short ok.argsShort ok.reach h
  have supplyCase : ∀ op, supplyOpOf f = some op → op.run env c { accts := A } = .ok (out, ctx') →
      (op = .create → f = .nftCreate) →
      SInv ctx'.accts ∧ ∀ k, TokKey k → balAt ctx'.accts k = balAt A k + localDelta f c A out k := by
    intro op hop hrun hcr
    have hp : isPauseFn f = false := by cases f <;> simp [supplyOpOf] at hop <;> rfl
    obtain ⟨hcs, hrs⟩ := ok.notSys hp
    obtain ⟨hI', hb⟩ := supply_step op env c A out ctx' hI hcs hrs (fun ho => ok.noWrap (hcr ho)) hrun
    refine ⟨hI', fun k hk => ?_⟩
    rw [hb k hk]; simp only [localDelta, hop]
  have plainCase : PlainFn f →
      SInv ctx'.accts ∧ ∀ k, TokKey k → balAt ctx'.accts k = balAt A k + localDelta f c A out k := by
    intro hf
    obtain ⟨hM', hb⟩ := plain_step hf env c A out ctx' hI.nodup hI.mdpos h
    refine ⟨⟨hN', hC', hS', hM'⟩, fun k hk => ?_⟩
    rw [hb k hk]
    have : localDelta f c A out k = 0 := by cases hf <;> simp [localDelta, supplyOpOf, isPauseFn]
    omega
  have pauseCase : ∀ p, isPauseFn f = true → esdtPause p env c { accts := A } = .ok (out, ctx') →
      SInv ctx'.accts ∧ ∀ k, TokKey k → balAt ctx'.accts k = balAt A k + localDelta f c A out k := by
    intro p hp hrun
    obtain ⟨tok, h0, hM', hb⟩ := pause_step p env c A out ctx' hI.nodup hI.mdpos hrun
    refine ⟨⟨hN', hC', hS', hM'⟩, fun k _ => ?_⟩
    rw [hb k]
    have hnone : supplyOpOf f = none := by cases f <;> simp [isPauseFn] at hp <;> rfl
    simp only [localDelta, hnone, hp, if_true, h0]
    split <;> omega
  have metaCase : ∀ (m' : MetaData → List Bytes → MetaData),
      (∀ m l, (m' m l).royalties = m.royalties) →
      isPauseFn f = false → supplyOpOf f = none →
      (∃ tok nb t m l, c.args[0]? = some tok ∧ c.args[1]? = some nb ∧ u64 (beNat nb) ≠ 0 ∧
        MetaWrite A ctx'.accts c.caller (esdtKeyPrefix ++ tok) (u64 (beNat nb)) t m (m' m l) ∧
        (m.nonce = 0 ∨ m.nonce = u64 (beNat nb))) →
      SInv ctx'.accts ∧ ∀ k, TokKey k → balAt ctx'.accts k = balAt A k + localDelta f c A out k := by
    intro m' hroy hp hnone ⟨tok, nb, t, m, l, _, _, _, hw, hnon⟩
    obtain ⟨hcs, _⟩ := ok.notSys hp
    obtain ⟨hM', hb⟩ := metaWrite_step hw hI.nodup hI.canon hI.mdpos hS' hcs hnon (hroy m l)
    refine ⟨⟨hN', hC', hS', hM'⟩, fun k _ => ?_⟩
    rw [hb k]; simp only [localDelta, hnone, hp]; simp
  have hnt := ok.notTransfer
  unfold exec at h
  cases f <;> simp only [runFn] at h
  · exact plainCase .claim
  · exact plainCase .owner
  · exact plainCase .name
  · exact plainCase .skv
  · exact pauseCase true rfl h
  · exact pauseCase false rfl h
  · cases hnt
  · exact supplyCase .burn rfl h (fun ho => by cases ho)
  · exact supplyCase .freeze rfl h (fun ho => by cases ho)
  · exact supplyCase .unfreeze rfl h (fun ho => by cases ho)
  · exact supplyCase .wipe rfl h (fun ho => by cases ho)
  · exact plainCase .unSetRole
  · exact plainCase .setRole
  · exact supplyCase .localBurn rfl h (fun ho => by cases ho)
  · exact supplyCase .mint rfl h (fun ho => by cases ho)
  · exact supplyCase .addQty rfl h (fun ho => by cases ho)
  · exact supplyCase .nftBurn rfl h (fun ho => by cases ho)
  · exact supplyCase .create rfl h (fun _ => rfl)
  · cases hnt
  · exact plainCase .handOver
  · -- update attributes
    refine metaCase (fun m l => { m with attributes := l.headD [] }) (fun _ _ => rfl) rfl rfl ?_
    obtain ⟨⟨tok, nb, attrs, t, m, h0, h1, h2, hn0, hw⟩, hnon⟩ :=
      (Post.and (updateAttributes_effect env c { accts := A }) (updateAttributes_nonce env c { accts := A })).elim h
    exact ⟨tok, nb, t, m, [attrs], h0, h1, hn0, hw, hnon tok nb t m h0 h1 hw.old hw.hasMeta⟩
  · -- add URI
    refine metaCase (fun m l => { m with uris := m.uris ++ l }) (fun _ _ => rfl) rfl rfl ?_
    obtain ⟨⟨tok, nb, t, m, h0, h1, hn0, hw⟩, hnon⟩ :=
      (Post.and (addURI_effect env c { accts := A }) (addURI_nonce env c { accts := A })).elim h
    exact ⟨tok, nb, t, m, c.args.drop 2, h0, h1, hn0, hw, hnon tok nb t m h0 h1 hw.old hw.hasMeta⟩
  · cases hnt

/-! ### the world -/

structure UWorld where
  shards : List Accts          -- index = shard id
  ft : List Msg                -- ESDTTransfer messages in flight
  nft : List NMsg              -- ESDTNFTTransfer messages in flight
  multi : List MMsg            -- MultiESDTNFTTransfer messages in flight

def UWorld.toN (w : UWorld) : NWorld := { shards := w.shards, inflight := w.ft }
def UWorld.toNFT (w : UWorld) : NFTWorld := { shards := w.shards, inflight := w.nft }
def UWorld.toM (w : UWorld) : MWorld := { shards := w.shards, inflight := w.multi }

inductive UStep
  | ft (st : NStep)                      -- ESDTTransfer: a user transaction / a delivery / a refund
  | nft (st : NStep)                     -- ESDTNFTTransfer: the same three
  | multi (st : NStep)                   -- MultiESDTNFTTransfer: the same three
  | call (s : Nat) (f : FnId) (c : Call) -- any other function, called by anybody on shard `s`

/-- one step; a failed call changes nothing (node rollback) -/
def ustep (e : Env) (w : UWorld) : UStep → UWorld
  | .ft st => let w' := nstep e w.toN st; { w with shards := w'.shards, ft := w'.inflight }
  | .nft st => let w' := nftStep e w.toNFT st; { w with shards := w'.shards, nft := w'.inflight }
  | .multi st => let w' := multiStep e w.toM st; { w with shards := w'.shards, multi := w'.inflight }
  | .call s f c =>
    match w.shards[s]? with
    | none => w
    | some A =>
      match exec { e with self := s } f c { accts := A } with
      | .ok (_, ctx') => { w with shards := w.shards.set s ctx'.accts }
      | _ => w

/-- what the step adds to the ledger under key `k` (0 for every transfer step and every failed call) -/
def issued (e : Env) (w : UWorld) : UStep → Bytes → Int
  | .call s f c, k =>
    match w.shards[s]? with
    | none => 0
    | some A =>
      match exec { e with self := s } f c { accts := A } with
      | .ok (out, _) => localDelta f c A out k
      | _ => 0
  | _, _ => 0

/-- the per-key ledger of the world: every balance on every shard plus everything in flight -/
def usupply (w : UWorld) (k : Bytes) : Int :=
  (w.shards.map (balAt · k)).sum + flightAt w.ft k + nflightAt w.nft k + mflightAt w.multi k

structure UInv (e : Env) (w : UWorld) : Prop where
  shards : ∀ A ∈ w.shards, SInv A
  ft : ∀ m ∈ w.ft, MsgOK e m
  nft : ∀ m ∈ w.nft, NMsgOK e m
  multi : ∀ m ∈ w.multi, MMsgOK e m

/-- what is assumed of a step, on the world it runs on -/
def UStepOK (e : Env) (w : UWorld) : UStep → Prop
  | .ft st => NStepOK st
  | .nft st => NFTStepOK st
  | .multi st => MultiStepOK st
  | .call s f c => ∀ A, w.shards[s]? = some A → LocalOK { e with self := s } f c A

theorem UInv.toN {e : Env} {w : UWorld} (h : UInv e w) : WorldInv e w.toN :=
  ⟨fun A hA => (h.shards A hA).nodup, h.ft⟩
theorem UInv.toNFT {e : Env} {w : UWorld} (h : UInv e w) : NWorldInv e w.toNFT := ⟨h.shards, h.nft, trivial⟩
theorem UInv.toM {e : Env} {w : UWorld} (h : UInv e w) : MWorldInv e w.toM := ⟨h.shards, h.multi⟩

/-- FULL per step: the ledger moves by exactly what the step issues, and the world invariant is kept -/
theorem ustep_ledger (e : Env) (w : UWorld) (st : UStep) (hI : UInv e w) (hok : UStepOK e w st) :
    (∀ k, TokKey k → usupply (ustep e w st) k = usupply w k + issued e w st k) ∧ UInv e (ustep e w st) := by
  cases st with
  | ft st =>
    have hsh : ∀ A ∈ (nstep e w.toN st).shards, SInv A := nstep_sinv e w.toN st hI.shards
    have hSW : ShortW (nstep e w.toN st) := fun A hA => (hsh A hA).short
    refine ⟨fun k _ => ?_, ?_⟩
    · have := (nstep_supply e w.toN st hI.toN hok hSW k).1
      simp only [supply, UWorld.toN] at this
      simp only [usupply, ustep, issued, UWorld.toN]
      omega
    · exact ⟨hsh, (nstep_supply e w.toN st hI.toN hok hSW []).2.msgs, hI.nft, hI.multi⟩
  | nft st =>
    have h2 := (nftStep_supply e w.toNFT st hI.toNFT hok []).2
    refine ⟨fun k _ => ?_, ?_⟩
    · have := (nftStep_supply e w.toNFT st hI.toNFT hok k).1
      simp only [nsupply, UWorld.toNFT] at this
      simp only [usupply, ustep, issued, UWorld.toNFT]
      omega
    · exact ⟨h2.shards, hI.ft, h2.msgs, hI.multi⟩
  | multi st =>
    have h2 := (multiStep_supply e w.toM st hI.toM hok []).2
    refine ⟨fun k _ => ?_, ?_⟩
    · have := (multiStep_supply e w.toM st hI.toM hok k).1
      simp only [msupply, UWorld.toM] at this
      simp only [usupply, ustep, issued, UWorld.toM]
      omega
    · exact ⟨h2.shards, hI.ft, hI.nft, h2.msgs⟩
  | call s f c =>
    simp only [ustep, issued]
    cases hA : w.shards[s]? with
    | none => exact ⟨fun k _ => by simp, hI⟩
    | some A =>
      simp only []
      cases hex : exec { e with self := s } f c { accts := A } with
      | ok p =>
        obtain ⟨out, ctx'⟩ := p
        simp only []
        obtain ⟨hI', hb⟩ := local_step f { e with self := s } c A out ctx' (hI.shards A (List.mem_of_getElem? hA))
          (hok A hA) hex
        refine ⟨fun k hk => ?_, ⟨mem_set_of _ _ _ _ hI.shards hI', hI.ft, hI.nft, hI.multi⟩⟩
        simp only [usupply]
        rw [sum_map_set (balAt · k) w.shards s A ctx'.accts hA, hb k hk]
        omega
      | err er => exact ⟨fun k _ => by simp, hI⟩
      | panic => exact ⟨fun k _ => by simp, hI⟩

/-! ### histories -/

/-- run the steps in order; returns the final world and, per key, everything the successful calls issued -/
def urun (e : Env) : List UStep → UWorld → UWorld × (Bytes → Int)
  | [], w => (w, fun _ => 0)
  | st :: rest, w =>
    let r := urun e rest (ustep e w st)
    (r.1, fun k => issued e w st k + r.2 k)

/-- every step is admissible on the world it runs on -/
def UStepsOK (e : Env) : List UStep → UWorld → Prop
  | [], _ => True
  | st :: rest, w => UStepOK e w st ∧ UStepsOK e rest (ustep e w st)

/-- FULL over histories: after ANY interleaving of the 23 functions on any number of shards, with the three kinds of
    messages delivered, refused and refunded in any order, the ledger of every token key is what it was plus the stated
    amounts of the supply operations that succeeded — and the world invariant still holds -/
theorem unified_history (e : Env) : ∀ (steps : List UStep) (w : UWorld), UInv e w → UStepsOK e steps w →
    (∀ k, TokKey k → usupply (urun e steps w).1 k = usupply w k + (urun e steps w).2 k) ∧ UInv e (urun e steps w).1 := by
  intro steps
  induction steps with
  | nil => intro w hI _; exact ⟨fun k _ => by simp [urun], hI⟩
  | cons st rest ih =>
    intro w hI hok
    obtain ⟨h1, hrest⟩ := hok
    obtain ⟨hb1, hI1⟩ := ustep_ledger e w st hI h1
    obtain ⟨hb2, hI2⟩ := ih (ustep e w st) hI1 hrest
    refine ⟨fun k hk => ?_, hI2⟩
    simp only [urun]
    rw [hb2 k hk, hb1 k hk]; omega

end Esdt
