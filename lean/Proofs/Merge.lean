/-
  Proofs/Merge.lean — MergeOutputAccounts over the pointer heap: values, and "the merged-in account is
  never mutated, not even through later merges into the same result".
-/
import Model.Merge
namespace Esdt

theorem Heap.get_set_same (h : Heap) (p : Nat) (v : Int) : (h.set p v).get p = v := by
  simp [Heap.set, Heap.get, List.find?]

theorem Heap.get_set_ne (h : Heap) (p q : Nat) (v : Int) (hne : p ≠ q) : (h.set p v).get q = h.get q := by
  have : (p == q) = false := by simp [hne]
  simp [Heap.set, Heap.get, List.find?, this]

theorem Heap.get_alloc_old (h : Heap) (v : Int) (q : Nat) (hq : q < h.next) : (h.alloc v).1.get q = h.get q := by
  have hne : h.next ≠ q := by omega
  have : (h.next == q) = false := by simp [hne]
  simp [Heap.alloc, Heap.get, this]

theorem Heap.get_alloc_new (h : Heap) (v : Int) : (h.alloc v).1.get (h.alloc v).2 = v := by
  simp [Heap.alloc, Heap.get, List.find?]

/-- pointers of an account are allocated (below `next`) -/
def OA.Alloc (o : OA) (h : Heap) : Prop :=
  (∀ p, o.balance = some p → p < h.next) ∧ (∀ p, o.delta = some p → p < h.next)

/-- the result's delta cell is not a cell of `s` (independently constructed accounts) -/
def OA.DeltaSep (o s : OA) : Prop :=
  ∀ p, o.delta = some p → s.delta ≠ some p ∧ s.balance ≠ some p

/-- value view of an account's cells -/
def OA.cells (s : OA) (h : Heap) : Option Int × Option Int := (s.balance.map h.get, s.delta.map h.get)

/-- the pointer of the result's delta after a merge, and the heap bound -/
theorem mergeOA_next (h : Heap) (o src : OA) : h.next ≤ (mergeOA h o src).1.next := by
  unfold mergeOA
  cases o.delta <;> cases src.delta <;> simp [Heap.alloc, Heap.set]

/-- one merge changes no cell below `next` other than the result's own delta cell -/
theorem mergeOA_frame (h : Heap) (o src : OA) (q : Nat) (hq : q < h.next) (hne : o.delta ≠ some q) :
    (mergeOA h o src).1.get q = h.get q := by
  unfold mergeOA
  cases hod : o.delta with
  | none =>
    cases src.delta with
    | none => simp [Heap.get_alloc_old _ _ _ hq]
    | some sq =>
      simp only []
      have hne : (h.alloc 0).2 ≠ q := by simp only [Heap.alloc]; omega
      rw [Heap.get_set_ne _ _ _ _ hne, Heap.get_alloc_old _ _ _ hq]
  | some p =>
    have hpq : p ≠ q := by intro e; subst e; exact hne hod
    cases src.delta with
    | none => simp
    | some sq => simp only []; rw [Heap.get_set_ne _ _ _ _ hpq]

/-- the result's delta pointer after a merge is the old one, or a fresh cell -/
theorem mergeOA_delta_ptr (h : Heap) (o src : OA) :
    ∃ p, (mergeOA h o src).2.delta = some p ∧ (o.delta = some p ∨ (o.delta = none ∧ p = h.next)) := by
  unfold mergeOA
  cases hod : o.delta with
  | none => exact ⟨h.next, by cases src.delta <;> simp [Heap.alloc], Or.inr ⟨rfl, rfl⟩⟩
  | some p => exact ⟨p, by cases src.delta <;> simp, Or.inl rfl⟩

/-- C20: merging `src` into `o` never mutates `src` (its balance and delta cells keep their values) -/
theorem mergeOA_src_unchanged (h : Heap) (o src : OA) (ha : src.Alloc h) (hsep : o.DeltaSep src) :
    src.cells (mergeOA h o src).1 = src.cells h := by
  unfold OA.cells
  have hb : ∀ p, src.balance = some p → (mergeOA h o src).1.get p = h.get p := by
    intro p hp
    exact mergeOA_frame h o src p (ha.1 p hp) (fun he => (hsep p he).2 hp)
  have hd : ∀ p, src.delta = some p → (mergeOA h o src).1.get p = h.get p := by
    intro p hp
    exact mergeOA_frame h o src p (ha.2 p hp) (fun he => (hsep p he).1 hp)
  cases hbal : src.balance <;> cases hdel : src.delta <;> simp [hb, hd, hbal, hdel]

/-- separation is preserved: after a merge the result's delta cell is still no cell of any allocated,
    separate account -/
theorem mergeOA_sep_preserved (h : Heap) (o src s : OA) (ha : s.Alloc h) (hsep : o.DeltaSep s) :
    (mergeOA h o src).2.DeltaSep s := by
  obtain ⟨p, hp, hcase⟩ := mergeOA_delta_ptr h o src
  intro q hq
  rw [hp] at hq
  have hqp : p = q := by cases hq; rfl
  subst hqp
  rcases hcase with hold | ⟨_, hnew⟩
  · exact hsep p hold
  · constructor
    · intro he; have := ha.2 _ he; omega
    · intro he; have := ha.1 _ he; omega

/-- … not even through later merges into the same result -/
theorem mergeSeq_unchanged (srcs : List OA) : ∀ (h : Heap) (o s : OA), s.Alloc h → o.DeltaSep s →
    s.cells (mergeSeq h o srcs).1 = s.cells h := by
  induction srcs with
  | nil => intro h o s _ _; rfl
  | cons x rest ih =>
    intro h o s ha hsep
    simp only [mergeSeq]
    have hnext := mergeOA_next h o x
    have ha' : s.Alloc (mergeOA h o x).1 :=
      ⟨fun p hp => Nat.lt_of_lt_of_le (ha.1 p hp) hnext, fun p hp => Nat.lt_of_lt_of_le (ha.2 p hp) hnext⟩
    rw [ih _ _ s ha' (mergeOA_sep_preserved h o x s ha hsep)]
    -- the first merge
    unfold OA.cells
    have hb : ∀ p, s.balance = some p → (mergeOA h o x).1.get p = h.get p := by
      intro p hp
      exact mergeOA_frame h o x p (ha.1 p hp) (fun he => (hsep p he).2 hp)
    have hd : ∀ p, s.delta = some p → (mergeOA h o x).1.get p = h.get p := by
      intro p hp
      exact mergeOA_frame h o x p (ha.2 p hp) (fun he => (hsep p he).1 hp)
    cases hbal : s.balance <;> cases hdel : s.delta <;> simp [hb, hd, hbal, hdel]

/-! ### values -/

def optGet (h : Heap) (p : Option Nat) : Int := match p with | some q => h.get q | none => 0

/-- balance deltas are added (a nil delta counts as 0) -/
theorem mergeOA_delta_value (h : Heap) (o src : OA) (ha : src.Alloc h) (hsep : o.DeltaSep src) :
    optGet (mergeOA h o src).1 (mergeOA h o src).2.delta = optGet h o.delta + optGet h src.delta := by
  unfold mergeOA optGet
  cases hod : o.delta with
  | none =>
    cases hsd : src.delta with
    | none => simp [Heap.get_alloc_new]
    | some sq =>
      have hsq : sq < h.next := ha.2 sq hsd
      simp only []
      rw [Heap.get_set_same, Heap.get_alloc_new]
      have := Heap.get_alloc_old h 0 sq hsq
      simp [this]
  | some p =>
    cases hsd : src.delta with
    | none => simp
    | some sq => simp only []; rw [Heap.get_set_same]

theorem mergeOA_nonce (h : Heap) (o src : OA) : (mergeOA h o src).2.nonce = max o.nonce src.nonce := by
  unfold mergeOA
  cases o.delta <;> cases src.delta <;> simp <;> split <;> omega

theorem mergeOA_transfers (h : Heap) (o src : OA) :
    (mergeOA h o src).2.transfers = o.transfers ++ src.transfers.drop o.transfers.length := by
  unfold mergeOA
  cases o.delta <;> cases src.delta <;> simp <;> intro hle <;> rw [List.drop_eq_nil_of_le hle] <;> simp

theorem storageLookup_append (a b : List (Bytes × (Bytes × Bytes))) (k : Bytes) :
    storageLookup (a ++ b) k = match storageLookup a k with | some v => some v | none => storageLookup b k := by
  unfold storageLookup
  rw [List.find?_append]
  cases List.find? (fun p => p.1 == k) a <;> simp

theorem find_filter_key (o : List (Bytes × (Bytes × Bytes))) (k : Bytes) (f : Bytes × (Bytes × Bytes) → Bool)
    (hf : ∀ p, p.1 = k → f p = true) :
    List.find? (fun p => p.1 == k) (o.filter f) = List.find? (fun p => p.1 == k) o := by
  induction o with
  | nil => rfl
  | cons p rest ih =>
    by_cases hk : p.1 = k
    · have hfp := hf p hk
      simp [List.filter, hfp, List.find?, hk]
    · have hk' : (p.1 == k) = false := by simp [hk]
      cases hfp : f p
      · simp [List.filter, hfp, List.find?, hk', ih]
      · simp [List.filter, hfp, List.find?, hk', ih]

/-- later storage updates win; keys only in the older account are kept -/
theorem mergeStorage_lookup (o src : List (Bytes × (Bytes × Bytes))) (k : Bytes) :
    storageLookup (mergeStorage o src) k =
      match storageLookup src k with | some v => some v | none => storageLookup o k := by
  unfold mergeStorage
  rw [storageLookup_append]
  cases hs : storageLookup src k with
  | some v => rfl
  | none =>
    simp only []
    have := find_filter_key o k (fun p => (storageLookup src p.1).isNone) (by intro p hp; simp [hp, hs])
    unfold storageLookup at *
    rw [this]

theorem mergeOA_storage (h : Heap) (o src : OA) :
    (mergeOA h o src).2.storage = mergeStorage o.storage src.storage := by
  unfold mergeOA
  cases o.delta <;> cases src.delta <;> rfl

end Esdt
