/-
  Proofs/Short.lean — every value the functions store is shorter than 2^63 bytes (it is a marshalled token / role list,
  a flag pair, a counter, an empty value, or — SaveKeyValue — one of the call's own arguments): `Short` is preserved by
  every call whose arguments are themselves Go slices.
-/
import Proofs.WF
namespace Esdt

/-- the call's arguments are Go slices -/
def ArgsShort (c : Call) : Prop := ∀ a ∈ c.args, a.length < two63

@[reducible] def ShortPres {α} (m : M α) : Prop :=
  ∀ c, Short c.accts → Post m c (fun _ c' => Short c'.accts)

theorem ShortPres.of_ro {α} {m : M α} (h : RO m) : ShortPres m := by
  intro c hs
  apply Post.mono (h c)
  intro _ c' he
  rw [he]; exact hs

theorem ShortPres.bind {α β} {m : M α} {f : α → M β} (hm : ShortPres m) (hf : ∀ a, ShortPres (f a)) :
    ShortPres (m >>= f) := by
  intro c hs
  apply Post.bind
  apply Post.mono (hm c hs)
  intro a c1 h1
  exact hf a c1 h1

theorem ShortPres.pure {α} (a : α) : ShortPres (pure a : M α) := ShortPres.of_ro (RO.pure a)
theorem ShortPres.fail {α} (e : ErrKind) : ShortPres (fail e : M α) := ShortPres.of_ro (RO.fail e)

theorem ShortPres.ite {α} {p : Prop} [Decidable p] {A B : M α} (h1 : ShortPres A) (h2 : ShortPres B) :
    ShortPres (if p then A else B) := by
  split
  · exact h1
  · exact h2

theorem short_write {A : Accts} (h : Short A) (a k v : Bytes) (hv : v.length < two63) : Short (A.write a k v) := by
  intro a2 k2
  rw [Accts.read_write]
  split
  · exact hv
  · exact h a2 k2

theorem ShortPres.writeKey (a k v : Bytes) (hv : v.length < two63) : ShortPres (writeKey a k v) := by
  intro c hs
  apply Post.mono (spec_writeKey a k v c)
  intro _ c' he
  rw [he]; exact short_write hs a k v hv

/-- account-field updates do not touch the storage -/
theorem read_set_fields (A : Accts) (a : Bytes) (x : Acct) (hx : x.store = (A.get a).store) (a2 k : Bytes) :
    (A.set a x).read a2 k = A.read a2 k := by
  unfold Accts.read
  rw [Accts.get_set]
  split
  · rename_i he; subst he; rw [hx]
  · rfl

theorem ShortPres.setOwner (a v : Bytes) : ShortPres (setOwner a v) := by
  intro c hs
  apply Post.of_forall
  intro _ c' he
  simp [Esdt.setOwner] at he
  rw [← he]
  intro a2 k
  have := read_set_fields c.accts a { (c.accts.get a) with owner := v } rfl a2 k
  simp only at this ⊢
  rw [this]; exact hs a2 k
theorem ShortPres.setName (a v : Bytes) : ShortPres (setName a v) := by
  intro c hs
  apply Post.of_forall
  intro _ c' he
  simp [Esdt.setName] at he
  rw [← he]
  intro a2 k
  have := read_set_fields c.accts a { (c.accts.get a) with name := v } rfl a2 k
  simp only at this ⊢
  rw [this]; exact hs a2 k
theorem ShortPres.setReward (a : Bytes) (v : Int) : ShortPres (setReward a v) := by
  intro c hs
  apply Post.of_forall
  intro _ c' he
  simp [Esdt.setReward] at he
  rw [← he]
  intro a2 k
  have := read_set_fields c.accts a { (c.accts.get a) with reward := v } rfl a2 k
  simp only at this ⊢
  rw [this]; exact hs a2 k
theorem ShortPres.setBalance (a : Bytes) (v : Int) : ShortPres (setBalance a v) := by
  intro c hs
  apply Post.of_forall
  intro _ c' he
  simp [Esdt.setBalance] at he
  rw [← he]
  intro a2 k
  have := read_set_fields c.accts a { (c.accts.get a) with balance := v } rfl a2 k
  simp only at this ⊢
  rw [this]; exact hs a2 k

/-- extension point: writers / composite helpers proved separately -/
syntax "sp_spec" : tactic
macro_rules | `(tactic| sp_spec) => `(tactic| fail "no ShortPres lemma applies")
macro_rules | `(tactic| sp_spec) => `(tactic| exact ShortPres.setOwner _ _)
macro_rules | `(tactic| sp_spec) => `(tactic| exact ShortPres.setName _ _)
macro_rules | `(tactic| sp_spec) => `(tactic| exact ShortPres.setReward _ _)
macro_rules | `(tactic| sp_spec) => `(tactic| exact ShortPres.setBalance _ _)

macro "sp_step" : tactic => `(tactic| with_reducible first
  | exact ShortPres.pure _
  | exact ShortPres.fail _
  | exact ShortPres.of_ro RO.goPanic
  | exact ShortPres.of_ro (RO.tick _)
  | exact ShortPres.of_ro (RO.guardE _ _)
  | exact ShortPres.of_ro (RO.argAt _ _)
  | exact ShortPres.of_ro (RO.deref _)
  | exact ShortPres.of_ro (RO.readKey _ _)
  | exact ShortPres.of_ro (RO.getAcct _)
  | exact ShortPres.of_ro (by ro_spec)
  | sp_spec
  | refine ShortPres.bind ?_ (fun _ => ?_)
  | apply ShortPres.ite
  | (show ShortPres _; dsimp only)
  | (show ShortPres _; split))
macro "sp" : tactic => `(tactic| repeat' sp_step)

/-! ### writers -/

theorem sp_saveESDTData (a : Bytes) (t : Token) (k : Bytes) : ShortPres (saveESDTData a t k) := by
  intro c hs
  unfold saveESDTData
  apply Post.bind; apply Post.deref; intro v _
  split
  · exact ShortPres.writeKey a k [] (by decide) c hs
  · apply Post.bind
    apply Post.mono (spec_marshalToken_len t c)
    intro b c1 ⟨h1, _, hl⟩
    exact ShortPres.writeKey a k b hl c1 (by rw [h1]; exact hs)
macro_rules | `(tactic| sp_spec) => `(tactic| exact sp_saveESDTData _ _ _)

theorem sp_saveNFT (a tk : Bytes) (t : Token) (rae : Bool) : ShortPres (saveNFT a tk t rae) := by
  intro c hs
  unfold saveNFT
  apply Post.bind
  apply Post.mono (ro_checkFrozeAndPause a tk t rae c)
  intro _ c1 h1
  show Post (do
      checkFrozeAndPause a (nftKey tk (mdNonce t)) t rae
      let v ← deref t.value
      if v ≤ 0 then do writeKey a (nftKey tk (mdNonce t)) []; pure []
      else do let b ← marshalToken t; writeKey a (nftKey tk (mdNonce t)) b; pure b) c1 _
  apply Post.bind
  apply Post.mono (ro_checkFrozeAndPause a _ t rae c1)
  intro _ c2 h2
  have hs2 : Short c2.accts := by rw [h2, h1]; exact hs
  apply Post.bind; apply Post.deref; intro v _
  split
  · apply Post.bind
    apply Post.mono (ShortPres.writeKey a _ [] (by decide) c2 hs2)
    intro _ c3 h3
    exact Post.pure h3
  · apply Post.bind
    apply Post.mono (spec_marshalToken_len t c2)
    intro b c3 ⟨h3, _, hl⟩
    apply Post.bind
    apply Post.mono (ShortPres.writeKey a _ b hl c3 (by rw [h3]; exact hs2))
    intro _ c4 h4
    exact Post.pure h4
macro_rules | `(tactic| sp_spec) => `(tactic| exact sp_saveNFT _ _ _ _)

theorem sp_saveRoles (a k : Bytes) (r : List Bytes) : ShortPres (saveRoles a k r) := by
  intro c hs
  unfold saveRoles marshalRoles
  apply Post.bind
  apply Post.bind
  apply Post.mono (RO.tick .m c)
  intro _ c1 h1
  split
  · rename_i hl
    apply Post.pure
    exact ShortPres.writeKey a k _ hl c1 (by rw [h1]; exact hs)
  · exact Post.fail
macro_rules | `(tactic| sp_spec) => `(tactic| exact sp_saveRoles _ _ _)

theorem leBytes_length_le : ∀ (k n : Nat), n < 256 ^ k → (leBytes n).length ≤ k := by
  intro k
  induction k with
  | zero => intro n h; have : n = 0 := by simpa using h
            subst this; rw [leBytes_zero]; simp
  | succ k ih =>
    intro n h
    by_cases hn : n = 0
    · subst hn; rw [leBytes_zero]; simp
    · rw [leBytes_pos n hn]
      simp only [List.length_cons]
      have : n / 256 < 256 ^ k := by
        rw [Nat.div_lt_iff_lt_mul (by decide)]
        rw [Nat.pow_succ] at h; exact h
      have := ih _ this
      omega

theorem beBytes_length_le8 (n : Nat) (h : n < two64) : (beBytes n).length ≤ 8 := by
  have := leBytes_length_le 8 n (by simpa [two64] using h)
  simpa [beBytes] using this

theorem sp_saveLatestNonce (a tok : Bytes) (n : Nat) (hn : n < two64) : ShortPres (saveLatestNonce a tok n) := by
  unfold saveLatestNonce
  exact ShortPres.writeKey _ _ _ (by have := beBytes_length_le8 n hn; simp only [two63]; omega)

theorem sp_addCreateRole (a k : Bytes) : ShortPres (addCreateRole a k) := by unfold addCreateRole; sp
macro_rules | `(tactic| sp_spec) => `(tactic| exact sp_addCreateRole _ _)

theorem sp_addToESDTBalance (a k : Bytes) (d : Int) (rae : Bool) : ShortPres (addToESDTBalance a k d rae) := by
  unfold addToESDTBalance; sp
macro_rules | `(tactic| sp_spec) => `(tactic| exact sp_addToESDTBalance _ _ _ _)

theorem sp_addNFTToDestination (env : Env) (dst : Bytes) (t : Token) (tk : Bytes) (mv rae : Bool) :
    ShortPres (addNFTToDestination env dst t tk mv rae) := by
  unfold addNFTToDestination; sp
macro_rules | `(tactic| sp_spec) => `(tactic| exact sp_addNFTToDestination _ _ _ _ _ _)

theorem sp_transferOne (env : Env) (c : Call) (l : Bool) (dst tok : Bytes) (n q : Nat) (v : Bool) :
    ShortPres (transferOne env c l dst tok n q v) := by
  unfold transferOne; sp
macro_rules | `(tactic| sp_spec) => `(tactic| exact sp_transferOne _ _ _ _ _ _ _ _)

end Esdt

namespace Esdt

theorem sp_multiSenderLoop (env : Env) (c : Call) (l : Bool) (dst : Bytes) (v : Bool) :
    ∀ n idx, ShortPres (multiSenderLoop env c l dst v n idx) := by
  intro n
  induction n with
  | zero => intro idx; unfold multiSenderLoop; sp
  | succ n ih => intro idx; unfold multiSenderLoop; sp; exact ih _
macro_rules | `(tactic| sp_spec) => `(tactic| exact sp_multiSenderLoop _ _ _ _ _ _ _)

theorem sp_multiDestLoop (env : Env) (c : Call) (m : Nat) : ∀ n idx, ShortPres (multiDestLoop env c m n idx) := by
  intro n
  induction n with
  | zero => intro idx; unfold multiDestLoop; sp
  | succ n ih => intro idx; unfold multiDestLoop; sp <;> exact ih _
macro_rules | `(tactic| sp_spec) => `(tactic| exact sp_multiDestLoop _ _ _ _ _)

theorem sp_multiPayloadLoop (env : Env) (toks : List (Bytes × Token)) (g : Nat) : ShortPres (multiPayloadLoop env toks g) :=
  ShortPres.of_ro (ro_multiPayloadLoop env toks g)
macro_rules | `(tactic| sp_spec) => `(tactic| exact sp_multiPayloadLoop _ _ _)

theorem sp_skvLoop (env : Env) (c : Call) : ∀ (n : Nat) (l : List Bytes) (g : Nat), l.length ≤ n →
    (∀ x ∈ l, x.length < two63) → ShortPres (skvLoop env c l g) := by
  intro n
  induction n with
  | zero =>
    intro l g hl _
    have : l = [] := List.eq_nil_of_length_eq_zero (by omega)
    subst this; unfold skvLoop; sp
  | succ n ih =>
    intro l g hl hsh
    match l, hl, hsh with
    | [], _, _ => unfold skvLoop; sp
    | [_], _, _ => unfold skvLoop; sp
    | k :: v :: rest, hl, hsh =>
      have hrest : ∀ x ∈ rest, x.length < two63 := fun x hx => hsh x (by simp [hx])
      have hv : v.length < two63 := hsh v (by simp)
      unfold skvLoop
      sp
      all_goals first
        | exact ih _ _ (by simp at hl; omega) hrest
        | exact ShortPres.writeKey _ _ _ hv

/-! ### the 23 functions -/

theorem sp_claimDeveloperRewards (env : Env) (c : Call) : ShortPres (claimDeveloperRewards env c) := by
  unfold claimDeveloperRewards; sp
theorem sp_changeOwnerAddress (env : Env) (c : Call) : ShortPres (changeOwnerAddress env c) := by
  unfold changeOwnerAddress; sp
theorem sp_setUserName (env : Env) (c : Call) : ShortPres (setUserName env c) := by unfold setUserName; sp
theorem sp_saveKeyValue (env : Env) (c : Call) (ha : ArgsShort c) : ShortPres (saveKeyValue env c) := by
  unfold saveKeyValue; sp
  exact sp_skvLoop env c _ _ _ (Nat.le_refl _) ha
theorem sp_esdtPause (p : Bool) (env : Env) (c : Call) : ShortPres (esdtPause p env c) := by
  unfold esdtPause; sp
  exact ShortPres.writeKey _ _ _ (by unfold flagBytes; split <;> decide)
theorem sp_esdtTransfer (env : Env) (c : Call) : ShortPres (esdtTransfer env c) := by unfold esdtTransfer; sp
theorem sp_esdtBurn (env : Env) (c : Call) : ShortPres (esdtBurn env c) := by unfold esdtBurn; sp
theorem sp_esdtFreezeWipe (k : FreezeKind) (env : Env) (c : Call) : ShortPres (esdtFreezeWipe k env c) := by
  unfold esdtFreezeWipe; sp
  exact ShortPres.writeKey _ _ _ (by decide)
theorem sp_esdtRoles (s : Bool) (env : Env) (c : Call) : ShortPres (esdtRoles s env c) := by unfold esdtRoles; sp
theorem sp_esdtLocalBurn (env : Env) (c : Call) : ShortPres (esdtLocalBurn env c) := by unfold esdtLocalBurn; sp
theorem sp_esdtLocalMint (env : Env) (c : Call) : ShortPres (esdtLocalMint env c) := by unfold esdtLocalMint; sp
theorem sp_esdtNFTAddQuantity (env : Env) (c : Call) : ShortPres (esdtNFTAddQuantity env c) := by
  unfold esdtNFTAddQuantity; sp
theorem sp_esdtNFTBurn (env : Env) (c : Call) : ShortPres (esdtNFTBurn env c) := by unfold esdtNFTBurn; sp
theorem sp_esdtNFTCreate (env : Env) (c : Call) : ShortPres (esdtNFTCreate env c) := by
  unfold esdtNFTCreate; sp
  exact sp_saveLatestNonce _ _ _ (u64_lt _)
theorem sp_esdtNFTTransferSender (env : Env) (c : Call) : ShortPres (esdtNFTTransferSender env c) := by
  unfold esdtNFTTransferSender; sp
theorem sp_esdtNFTTransfer (env : Env) (c : Call) : ShortPres (esdtNFTTransfer env c) := by
  unfold esdtNFTTransfer; sp
  exact sp_esdtNFTTransferSender env c
theorem sp_esdtNFTUpdateAttributes (env : Env) (c : Call) : ShortPres (esdtNFTUpdateAttributes env c) := by
  unfold esdtNFTUpdateAttributes; sp
theorem sp_esdtNFTAddURI (env : Env) (c : Call) : ShortPres (esdtNFTAddURI env c) := by unfold esdtNFTAddURI; sp
theorem sp_multiTransferSender (env : Env) (c : Call) : ShortPres (multiTransferSender env c) := by
  unfold multiTransferSender; sp
theorem sp_multiTransfer (env : Env) (c : Call) : ShortPres (multiTransfer env c) := by
  unfold multiTransfer; sp
  exact sp_multiTransferSender env c

end Esdt

namespace Esdt

/-- bind with a fact about the intermediate result -/
theorem ShortPres.bind_post {α β} {m : M α} {f : α → M β} (Q : α → Prop) (hm : ShortPres m)
    (hQ : ∀ c, Post m c (fun a _ => Q a)) (hf : ∀ a, Q a → ShortPres (f a)) : ShortPres (m >>= f) := by
  intro c hs
  apply Post.bind
  apply Post.mono (Post.and (hm c hs) (hQ c))
  intro a c1 ⟨h1, hq⟩
  exact hf a hq c1 h1

theorem counterOf_lt (raw : Bytes) : counterOf raw < two64 := by
  unfold counterOf; split
  · decide
  · exact u64_lt _

theorem sp_esdtNFTCreateRoleTransfer (env : Env) (c : Call) : ShortPres (esdtNFTCreateRoleTransfer env c) := by
  unfold esdtNFTCreateRoleTransfer
  refine ShortPres.bind (ShortPres.of_ro (ro_checkBasic _)) (fun _ => ?_)
  refine ShortPres.bind (ShortPres.of_ro (RO.guardE _ _)) (fun _ => ?_)
  refine ShortPres.bind (ShortPres.of_ro (RO.guardE _ _)) (fun _ => ?_)
  apply ShortPres.ite
  · refine ShortPres.bind (ShortPres.of_ro (RO.guardE _ _)) (fun _ => ?_)
    refine ShortPres.bind (ShortPres.of_ro (RO.argAt _ _)) (fun tokenID => ?_)
    refine ShortPres.bind (ShortPres.of_ro (RO.argAt _ _)) (fun dest => ?_)
    refine ShortPres.bind (ShortPres.of_ro (RO.guardE _ _)) (fun _ => ?_)
    refine ShortPres.bind_post (fun n => n < two64) (ShortPres.of_ro (ro_getLatestNonce _ _)) ?_ (fun nonce hn => ?_)
    · intro ctx
      apply Post.mono (spec_getLatestNonce _ _ ctx)
      intro n _ ⟨_, hn⟩
      rw [hn]; exact counterOf_lt _
    · refine ShortPres.bind (sp_saveLatestNonce _ _ 0 (by decide)) (fun _ => ?_)
      sp
      exact sp_saveLatestNonce _ _ _ hn
  · refine ShortPres.bind (ShortPres.of_ro (RO.guardE _ _)) (fun _ => ?_)
    refine ShortPres.bind (ShortPres.of_ro (RO.argAt _ _)) (fun tokenID => ?_)
    refine ShortPres.bind (ShortPres.of_ro (RO.argAt _ _)) (fun a1 => ?_)
    refine ShortPres.bind (sp_saveLatestNonce _ _ _ (u64_lt _)) (fun _ => ?_)
    sp

/-- every successful call keeps all stored values shorter than 2^63 bytes, provided its arguments are (Go slices) -/
theorem short_step (f : FnId) (env : Env) (c : Call) (ctx ctx' : Ctx) (out : VMOutput) (ha : ArgsShort c)
    (hs : Short ctx.accts) (h : exec env f c ctx = .ok (out, ctx')) : Short ctx'.accts := by
  unfold exec at h
  cases f <;> simp only [runFn] at h
  · exact (sp_claimDeveloperRewards env c ctx hs).elim h
  · exact (sp_changeOwnerAddress env c ctx hs).elim h
  · exact (sp_setUserName env c ctx hs).elim h
  · exact (sp_saveKeyValue env c ha ctx hs).elim h
  · exact (sp_esdtPause true env c ctx hs).elim h
  · exact (sp_esdtPause false env c ctx hs).elim h
  · exact (sp_esdtTransfer env c ctx hs).elim h
  · exact (sp_esdtBurn env c ctx hs).elim h
  · exact (sp_esdtFreezeWipe .freeze env c ctx hs).elim h
  · exact (sp_esdtFreezeWipe .unfreeze env c ctx hs).elim h
  · exact (sp_esdtFreezeWipe .wipe env c ctx hs).elim h
  · exact (sp_esdtRoles false env c ctx hs).elim h
  · exact (sp_esdtRoles true env c ctx hs).elim h
  · exact (sp_esdtLocalBurn env c ctx hs).elim h
  · exact (sp_esdtLocalMint env c ctx hs).elim h
  · exact (sp_esdtNFTAddQuantity env c ctx hs).elim h
  · exact (sp_esdtNFTBurn env c ctx hs).elim h
  · exact (sp_esdtNFTCreate env c ctx hs).elim h
  · exact (sp_esdtNFTTransfer env c ctx hs).elim h
  · exact (sp_esdtNFTCreateRoleTransfer env c ctx hs).elim h
  · exact (sp_esdtNFTUpdateAttributes env c ctx hs).elim h
  · exact (sp_esdtNFTAddURI env c ctx hs).elim h
  · exact (sp_multiTransfer env c ctx hs).elim h

end Esdt

namespace Esdt

/-- the same-shard effect of ESDTTransfer, with the intermediate state (after the debit) known to be short -/
theorem esdtTransfer_sameShard_effect_short (env : Env) (c : Call) (ctx : Ctx) (hS : Short ctx.accts)
    (hs : present env.nshards env.self c.caller = true) (hd : present env.nshards env.self c.rcv = true) :
    Post (esdtTransfer env c) ctx (fun _ ctx' => ∃ tok amt t v A1 t2 v2, c.args[0]? = some tok ∧ c.args[1]? = some amt ∧
      beNat amt ≠ 0 ∧
      OneWrite ctx.accts A1 c.caller (esdtKeyPrefix ++ tok) t v (- (beNat amt : Int)) ∧
      OneWrite A1 ctx'.accts c.rcv (esdtKeyPrefix ++ tok) t2 v2 (beNat amt) ∧ Short A1) := by
  unfold esdtTransfer checkBasic
  simp only [hs, hd, if_true, ↓reduceIte]
  xsteps
  apply Post.mono (Post.and (spec_addToESDTBalance _ _ _ _ ctx) (sp_addToESDTBalance _ _ _ _ ctx hS))
  intro _ c1 ⟨⟨t, v, ht, hty, hv, hnn, hg, hw⟩, hS1⟩
  xsteps
  apply Post.mono (spec_verifyPayableIf env _ c.rcv c1)
  intro _ c2 ⟨h2, hp⟩
  xsteps
  apply Post.mono (spec_addToESDTBalance _ _ _ _ c2)
  intro _ c3 ⟨t2, v2, ht2, hty2, hv2, hnn2, hg2, hw2⟩
  have hamt := of_decide_eq_false ‹decide (beNat _ = 0) = false›
  rw [h2] at ht2 hw2
  have fin : ∃ tok amt t v A1 t2 v2, c.args[0]? = some tok ∧ c.args[1]? = some amt ∧ beNat amt ≠ 0 ∧
      OneWrite ctx.accts A1 c.caller (esdtKeyPrefix ++ tok) t v (- (beNat amt : Int)) ∧
      OneWrite A1 c3.accts c.rcv (esdtKeyPrefix ++ tok) t2 v2 (beNat amt) ∧ Short A1 :=
    ⟨_, _, t, v, c1.accts, t2, v2, ‹c.args[0]? = some _›, ‹c.args[1]? = some _›, hamt,
      ⟨ht, hty, hv, hnn, hw⟩, ⟨ht2, hty2, hv2, hnn2, hw2⟩, hS1⟩
  split
  · xsteps
    exact Post.pure fin
  · exact Post.pure fin

/-- ESDTTransfer preserves the representation invariant — self-transfers included -/
theorem canon_esdtTransfer_all (env : Env) (c : Call) (ctx ctx' : Ctx) (out : VMOutput) (hC : Canon ctx.accts)
    (hS : Short ctx.accts) (h : esdtTransfer env c ctx = .ok (out, ctx')) : CanonM ctx'.accts := by
  by_cases hne : c.caller = c.rcv
  · cases hs : present env.nshards env.self c.caller
    · -- not on this shard at all: nothing is written (caller = rcv is absent)
      have hd : present env.nshards env.self c.rcv = false := by rw [← hne]; exact hs
      rw [(esdtTransfer_noShard_effect env c ctx hs hd).elim h]; exact hC.toM
    · have hd : present env.nshards env.self c.rcv = true := by rw [← hne]; exact hs
      obtain ⟨tok, _, t, v, A1, t2, v2, _, _, _, hw1, hw2, hS1⟩ :=
        (esdtTransfer_sameShard_effect_short env c ctx hS hs hd).elim h
      have hC1 : Canon A1 := (hw1.canon hC (tokKey_esdt tok)).toCanon hS1
      exact hw2.canon hC1 (tokKey_esdt tok)
  · exact canon_esdtTransfer env c ctx ctx' out hC hne h

end Esdt

namespace Esdt

/-- destination-side loop of MultiESDTNFTTransfer: well-formedness and shortness are preserved item by item -/
theorem canon_multiDestLoop (env : Env) (c : Call) (m : Nat) :
    ∀ n idx ctx, Canon ctx.accts → Short ctx.accts →
      Post (multiDestLoop env c m n idx) ctx (fun _ c' => Canon c'.accts ∧ Short c'.accts) := by
  intro n
  induction n with
  | zero => intro idx ctx hC hS; unfold multiDestLoop; exact Post.pure ⟨hC, hS⟩
  | succ n ih =>
    intro idx ctx hC hS
    unfold multiDestLoop
    xsteps
    rename_i tok _ _ _ a2 _
    split
    · xsteps
      apply Post.mono (spec_unmarshalToken _ ctx)
      intro t c1 ⟨h1, hdec⟩
      have hS1 : Short c1.accts := by rw [h1]; exact hS
      xsteps
      apply Post.mono (Post.and (spec_addNFTToDestination env c.rcv t _ _ _ c1) (sp_addNFTToDestination env c.rcv t _ _ _ c1 hS1))
      intro _ c2 ⟨⟨cur, tv, cv, _, _, _, _, _, _, ht', _, hw⟩, hS2⟩
      have hC2 : Canon c2.accts := by
        refine CanonM.toCanon ?_ hS2
        rw [hw, h1]
        apply canon_write _ _ _ hC.toM
        intro _ _
        rw [ht']
        exact entryWF_nftStoredForm _ _ (nftKey_matches tok t) ((decToken_num _ _ hdec).withValue _)
      xsteps
      apply Post.mono (ih _ _ hC2 hS2)
      intro _ c3 h3
      exact Post.pure h3
    · xsteps
      apply Post.mono (ro_verifyPayableIf _ _ _ ctx)
      intro _ c1 h1
      have hS1 : Short c1.accts := by rw [h1]; exact hS
      xsteps
      apply Post.mono (Post.and (spec_addToESDTBalance _ _ _ _ c1) (sp_addToESDTBalance _ _ _ _ c1 hS1))
      intro _ c2 ⟨⟨t, v, ht, hty, hv, hnn, _, hw⟩, hS2⟩
      have hC2 : Canon c2.accts := by
        refine CanonM.toCanon ?_ hS2
        have hC1 : Canon c1.accts := by rw [h1]; exact hC
        exact (OneWrite.canon ⟨ht, hty, hv, hnn, hw⟩ hC1 (tokKey_esdt tok))
      xsteps
      apply Post.mono (ih _ _ hC2 hS2)
      intro _ c3 h3
      exact Post.pure h3

/-- MultiESDTNFTTransfer, both sides -/
theorem canon_multiTransfer (env : Env) (c : Call) (ctx : Ctx) (hC : Canon ctx.accts) (hS : Short ctx.accts) :
    Post (multiTransfer env c) ctx (fun _ c' => Canon c'.accts) := by
  by_cases hself : c.caller = c.rcv
  · apply Post.mono (Post.and (canon_multiTransfer_senderPath env c ctx hC.toM hself) (sp_multiTransfer env c ctx hS))
    intro _ c' ⟨h1, h2⟩
    exact h1.toCanon h2
  · unfold multiTransfer checkBasic
    simp only [hself, if_false]
    xsteps
    apply Post.mono (canon_multiDestLoop env c _ _ _ ctx hC hS)
    intro _ c1 ⟨h1, _⟩
    repeat' (first | (apply Post.pure; assumption) | xstep | (show Post _ _ _; split))

end Esdt
