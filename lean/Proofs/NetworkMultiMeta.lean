/-
  Proofs/NetworkMultiMeta.lean — C08 at history level for MultiESDTNFTTransfer: in the multi-transfer world
  (Proofs/NetworkMulti.lean) every copy of an NFT — every entry stored under its key in any account of any shard, and every
  item in flight for it — carries the same metadata, along any history of multi transfers, deliveries and refunds.
-/
import Proofs.NetworkMulti
import Proofs.NetworkMeta
namespace Esdt

/-- what the items of an argument list carry for key `k`, read the way the destination loop reads them: an NFT / SFT item
    credited under `k` has metadata `m0`; a fungible item is never credited under `k` -/
def loopMd (m0 : MetaData) (k : Bytes) (args : List Bytes) : Nat → Nat → Prop
  | 0, _ => True
  | n + 1, idx =>
    (∀ tok nb pl, args[idx]? = some tok → args[idx + 1]? = some nb → args[idx + 2]? = some pl →
      (u64 (beNat nb) > 0 → ∀ t, decToken pl = some t → nftKey (esdtKeyPrefix ++ tok) (mdNonce t) = k → t.md = some m0) ∧
      (¬ u64 (beNat nb) > 0 → esdtKeyPrefix ++ tok ≠ k)) ∧
    loopMd m0 k args n (idx + 3)

/-- a returned token of the sender loop: if it is stored under `k` it has metadata `m0` (so a token without metadata is
    not under `k`) -/
def TokMd (m0 : MetaData) (k : Bytes) (p : Bytes × Token) : Prop :=
  nftKey (esdtKeyPrefix ++ p.1) (mdNonce p.2) = k → p.2.md = some m0

theorem allMd_write_other {m0 : MetaData} {k : Bytes} {A : Accts} (a k1 v : Bytes) (hA : AllMd m0 k A) (hne : k1 ≠ k) :
    AllMd m0 k (A.write a k1 v) := by
  intro a2 t0 hne2 hdec
  rw [Accts.read_write, if_neg (fun h => hne h.2)] at hne2 hdec
  exact hA a2 t0 hne2 hdec

/-! ### destination side -/

theorem multiDestLoop_md (m0 : MetaData) (k : Bytes) (env : Env) (c : Call) (m : Nat) :
    ∀ n idx ctx, AllMd m0 k ctx.accts → Short ctx.accts → loopMd m0 k c.args n idx →
      Post (multiDestLoop env c m n idx) ctx (fun _ c' => AllMd m0 k c'.accts ∧ Short c'.accts) := by
  intro n
  induction n with
  | zero =>
    intro idx ctx hM hS _
    unfold multiDestLoop
    exact Post.pure ⟨hM, hS⟩
  | succ n ih =>
    intro idx ctx hM hS hok
    obtain ⟨hitem, hrest⟩ := hok
    unfold multiDestLoop
    xsteps
    rename_i tok h0 nb h1 a2 h2
    obtain ⟨hnft, hfun⟩ := hitem tok nb a2 h0 h1 h2
    split
    · rename_i hpos
      xsteps
      apply Post.mono (spec_unmarshalToken _ ctx)
      intro t c1 ⟨h1', hdec⟩
      have hS1 : Short c1.accts := by rw [h1']; exact hS
      xsteps
      apply Post.mono (Post.and (spec_addNFTToDestination env c.rcv t _ _ _ c1)
        (sp_addNFTToDestination env c.rcv t _ _ _ c1 hS1))
      intro _ c2 ⟨⟨cur, tv, cv, _, _, _, _, _, _, ht', _, hw⟩, hS2⟩
      rw [h1'] at hw
      have hl := hS2 c.rcv (nftKey (esdtKeyPrefix ++ tok) (mdNonce t))
      rw [hw, Accts.read_write, if_pos ⟨rfl, rfl⟩] at hl
      rw [ht'] at hw hl
      have hM2 : AllMd m0 k c2.accts := by
        rw [hw]
        exact allMd_write_nft _ _ _ hM ((decToken_num _ _ hdec).withValue _) hl (fun hk => hnft hpos t hdec hk)
      xsteps
      apply Post.mono (ih _ _ hM2 hS2 hrest)
      intro _ c3 h3
      exact Post.pure h3
    · rename_i hpos
      xsteps
      apply Post.mono (ro_verifyPayableIf _ _ _ ctx)
      intro _ c1 h1'
      have hS1 : Short c1.accts := by rw [h1']; exact hS
      xsteps
      apply Post.mono (Post.and (spec_addToESDTBalance _ _ _ _ c1) (sp_addToESDTBalance _ _ _ _ c1 hS1))
      intro _ c2 ⟨⟨t, v, _, _, _, _, _, hw⟩, hS2⟩
      rw [h1'] at hw
      have hM2 : AllMd m0 k c2.accts := by
        rw [hw]
        exact allMd_write_other _ _ _ hM (hfun hpos)
      xsteps
      apply Post.mono (ih _ _ hM2 hS2 hrest)
      intro _ c3 h3
      exact Post.pure h3

theorem multiTransfer_dest_md (m0 : MetaData) (k : Bytes) (env : Env) (c : Call) (ctx : Ctx) (hM : AllMd m0 k ctx.accts)
    (hS : Short ctx.accts) (hne : c.caller ≠ c.rcv) (a0 : Bytes) (h0 : c.args[0]? = some a0)
    (hok : loopMd m0 k c.args (u64 (beNat a0)) 1) :
    Post (multiTransfer env c) ctx (fun _ ctx' => AllMd m0 k ctx'.accts) := by
  unfold multiTransfer checkBasic
  simp only [hne, if_false]
  xsteps
  rename_i a0' h0' _ _ _
  rw [h0] at h0'; cases h0'
  apply Post.mono (multiDestLoop_md m0 k env c _ _ _ ctx hM hS hok)
  intro _ c1 ⟨h1, _⟩
  split
  · xsteps
    exact Post.pure h1
  · exact Post.pure h1

/-! ### sender side -/

theorem transferOne_md_intact (m0 : MetaData) (k : Bytes) (env : Env) (c : Call) (l : Bool) (dst tok : Bytes) (n q : Nat)
    (v : Bool) (ctx : Ctx) (hI : SInv ctx.accts) (hM : AllMd m0 k ctx.accts) (hne : dst ≠ c.caller) :
    Post (transferOne env c l dst tok n q v) ctx (fun t' c' => AllMd m0 k c'.accts ∧ (l = false → TokMd m0 k (tok, t'))) := by
  apply Post.mono (Post.and (transferOne_effect env c l dst tok n q v ctx)
    (Post.and (transferOne_nonce env c l dst tok n q v ctx) (sp_transferOne env c l dst tok n q v ctx hI.short)))
  intro t' c' ⟨⟨t, x, A1, _, _, hpres, hdec, hx, hA1, hf, hts⟩, hnonce, hS'⟩
  obtain ⟨hmdsome, hnon⟩ := hnonce t hdec
  have hnum : NumOK t := decToken_num _ _ hdec
  have hmdt : ∀ md, t.md = some md → md.nonce ≠ 0 := fun md hmd => hI.mdpos _ _ t md (tokKey_nft _ _) hpres hdec hmd
  have hk : mdNonce t = n := by
    cases hm : t.md with
    | none =>
      simp only [mdNonce, hm]
      rcases Nat.eq_zero_or_pos n with h0 | h0
      · exact h0.symm
      · have := hmdsome h0; rw [hm] at this; cases this
    | some mm =>
      rcases hnon mm hm with hz | hz
      · exact absurd hz (hmdt mm hm)
      · simp [mdNonce, hm, hz]
  -- the entry read is under the key it is written back to; if that key is k its metadata is m0
  have hkm : nftKey (esdtKeyPrefix ++ tok) (mdNonce t) = k → t.md = some m0 := by
    intro hkk
    rw [hk] at hkk
    exact hM c.caller t (by rw [← hkk]; exact hpres) (by rw [← hkk]; exact hdec)
  cases l
  · obtain ⟨ht', hc'⟩ := hf rfl
    rw [hc'] at hS' ⊢
    have hl1 := hS' c.caller (nftKey (esdtKeyPrefix ++ tok) (mdNonce t))
    rw [hA1, Accts.read_write, if_pos ⟨rfl, rfl⟩] at hl1
    refine ⟨?_, fun _ => ?_⟩
    · rw [hA1]; exact allMd_write_nft _ _ _ hM (hnum.withValue _) hl1 hkm
    · rw [ht']; exact hkm
  · obtain ⟨cur, cv, _, _, _, ht', hc'⟩ := hts rfl
    have hl1 := hS' c.caller (nftKey (esdtKeyPrefix ++ tok) (mdNonce t))
    rw [hc', Accts.read_write, if_neg (fun ⟨e, _⟩ => hne e), hA1, Accts.read_write, if_pos ⟨rfl, rfl⟩] at hl1
    have hl2 := hS' dst (nftKey (esdtKeyPrefix ++ tok) (mdNonce t))
    rw [hc', Accts.read_write, if_pos ⟨rfl, rfl⟩] at hl2
    rw [ht'] at hc' hl2
    refine ⟨?_, fun h => by cases h⟩
    rw [hc']
    apply allMd_write_nft _ _ _ _ (hnum.withValue _) hl2 hkm
    rw [hA1]
    exact allMd_write_nft _ _ _ hM (hnum.withValue _) hl1 hkm

theorem multiSenderLoop_md (m0 : MetaData) (k : Bytes) (env : Env) (c : Call) (l : Bool) (dst : Bytes) (v : Bool)
    (hne : dst ≠ c.caller) (hdsys : dst ≠ systemAccountAddress) :
    ∀ n idx ctx, SInv ctx.accts → AllMd m0 k ctx.accts →
      Post (multiSenderLoop env c l dst v n idx) ctx (fun r c' => AllMd m0 k c'.accts ∧
        (l = false → ∀ p ∈ r.1, TokMd m0 k p)) := by
  intro n
  induction n with
  | zero =>
    intro idx ctx _ hM
    unfold multiSenderLoop
    exact Post.pure ⟨hM, fun _ p hp => (by cases hp)⟩
  | succ n ih =>
    intro idx ctx hI hM
    unfold multiSenderLoop
    xsteps
    apply Post.mono (Post.and (transferOne_supply _ _ _ _ _ _ _ _ _ hI hne hdsys)
      (transferOne_md_intact m0 k _ _ _ _ _ _ _ _ _ hI hM hne))
    intro t c1 ⟨⟨hI1, _, _⟩, hM1, hT1⟩
    xsteps
    apply Post.mono (ih _ _ hI1 hM1)
    intro r c2 ⟨hM2, hT2⟩
    obtain ⟨ts, logs⟩ := r
    apply Post.pure
    refine ⟨hM2, fun hl p hp => ?_⟩
    rcases List.mem_cons.mp hp with rfl | hp
    · exact hT1 hl
    · exact hT2 hl p hp

/-- the emitted payload, read the way the destination loop reads it, satisfies `loopMd` -/
theorem loopMd_payload (m0 : MetaData) (k : Bytes) : ∀ (toks : List (Bytes × Token)) (pre rest : List Bytes),
    (∀ p ∈ toks, TokOK p.2) → (∀ p ∈ toks, p.2.md.isSome = true → (encToken p.2).length < two63) →
    (∀ p ∈ toks, TokMd m0 k p) →
    loopMd m0 k (pre ++ payloadOf toks ++ rest) toks.length pre.length := by
  intro toks
  induction toks with
  | nil => intro pre rest _ _ _; simp [loopMd]
  | cons p ps ih =>
    intro pre rest hok hlen hmd
    obtain ⟨tok, t⟩ := p
    have hokp := hok (tok, t) List.mem_cons_self
    have hmdp := hmd (tok, t) List.mem_cons_self
    obtain ⟨hnum, ⟨q, hq, hq0⟩, hpos⟩ := hokp
    simp only [TokMd] at hmdp
    simp only at hnum hq hpos
    have ihh := fun a b d => ih (pre ++ [a, b, d]) rest (fun p hp => hok p (List.mem_cons_of_mem _ hp))
      (fun p hp => hlen p (List.mem_cons_of_mem _ hp)) (fun p hp => hmd p (List.mem_cons_of_mem _ hp))
    cases hm : t.md with
    | some m =>
      have hitem : payloadItem (tok, t) = [tok, beBytes m.nonce, encToken t] := by simp [payloadItem, hm]
      have hargs : pre ++ payloadOf ((tok, t) :: ps) ++ rest =
          pre ++ (tok :: beBytes m.nonce :: encToken t :: (payloadOf ps ++ rest)) := by
        simp [payloadOf, List.flatMap_cons, hitem]
      have hargs2 : pre ++ payloadOf ((tok, t) :: ps) ++ rest = (pre ++ [tok, beBytes m.nonce, encToken t]) ++ payloadOf ps ++ rest := by
        simp [payloadOf, List.flatMap_cons, hitem]
      obtain ⟨g0, g1, g2⟩ := getElem?_pre3 pre tok (beBytes m.nonce) (encToken t) (payloadOf ps ++ rest)
      have ih2 := ihh tok (beBytes m.nonce) (encToken t)
      have hl3 : (pre ++ [tok, beBytes m.nonce, encToken t]).length = pre.length + 3 := by simp
      rw [hl3, ← hargs2] at ih2
      have hrt : decToken (encToken t) = some t :=
        roundtrip_of_length t hnum (hlen (tok, t) List.mem_cons_self (by simp [hm]))
      simp only [List.length_cons, loopMd]
      refine ⟨?_, ih2⟩
      intro tok' nb' pl' e0 e1 e2
      rw [hargs] at e0 e1 e2
      rw [g0] at e0; rw [g1] at e1; rw [g2] at e2
      cases e0; cases e1; cases e2
      refine ⟨fun _ t' hdec hkk => ?_, fun hn => ?_⟩
      · rw [hrt] at hdec; cases hdec
        exact hmdp hkk
      · exfalso
        apply hn
        rw [beNat_beBytes, u64_of_lt _ (hnum.md m hm).1]
        exact Nat.pos_of_ne_zero (hpos m hm)
    | none =>
      have hitem : payloadItem (tok, t) = [tok, [0], beBytes (t.value.getD 0).natAbs] := by simp [payloadItem, hm]
      have hargs : pre ++ payloadOf ((tok, t) :: ps) ++ rest =
          pre ++ (tok :: [0] :: beBytes (t.value.getD 0).natAbs :: (payloadOf ps ++ rest)) := by
        simp [payloadOf, List.flatMap_cons, hitem]
      have hargs2 : pre ++ payloadOf ((tok, t) :: ps) ++ rest =
          (pre ++ [tok, [0], beBytes (t.value.getD 0).natAbs]) ++ payloadOf ps ++ rest := by
        simp [payloadOf, List.flatMap_cons, hitem]
      obtain ⟨g0, g1, g2⟩ := getElem?_pre3 pre tok [0] (beBytes (t.value.getD 0).natAbs) (payloadOf ps ++ rest)
      have ih2 := ihh tok [0] (beBytes (t.value.getD 0).natAbs)
      have hl3 : (pre ++ [tok, [0], beBytes (t.value.getD 0).natAbs]).length = pre.length + 3 := by simp
      rw [hl3, ← hargs2] at ih2
      simp only [List.length_cons, loopMd]
      refine ⟨?_, ih2⟩
      intro tok' nb' pl' e0 e1 e2
      rw [hargs] at e0 e1 e2
      rw [g0] at e0; rw [g1] at e1; rw [g2] at e2
      cases e0; cases e1; cases e2
      refine ⟨fun hn => absurd hn (by decide), fun _ hkk => ?_⟩
      -- a token without metadata is not stored under k
      have : t.md = some m0 := hmdp (by simp only [mdNonce, hm, nftKey_nonce0]; exact hkk)
      rw [hm] at this; cases this

end Esdt

namespace Esdt

/-- sender side of MultiESDTNFTTransfer and the metadata under key `k` -/
theorem multiTransferSender_md (m0 : MetaData) (k : Bytes) (env : Env) (c : Call) (ctx : Ctx) (hI : SInv ctx.accts)
    (hM : AllMd m0 k ctx.accts)
    (hs : present env.nshards env.self c.caller = true)
    (hdsys : ∀ d, c.args[0]? = some d → d ≠ systemAccountAddress) :
    Post (multiTransferSender env c) ctx (fun out ctx' => AllMd m0 k ctx'.accts ∧ ∀ dst, c.args[0]? = some dst →
      env.self ≠ shardOf env.nshards dst → ∃ callArgs a0 tr, out.outAccts = [{ addr := dst, transfers := [tr] }] ∧
         tr.data = encodeCall fnMultiESDTNFTTransfer callArgs ∧ callArgs[0]? = some a0 ∧
         loopMd m0 k callArgs (u64 (beNat a0)) 1) := by
  unfold multiTransferSender
  simp only [hs, Bool.not_true, Bool.false_eq_true, if_false]
  xsteps
  rename_i dst h0 _ hnc _ a1 h1 _ _ _ _
  have hne : dst ≠ c.caller := of_decide_eq_false hnc
  have hds := hdsys dst h0
  by_cases hl : env.self = shardOf env.nshards dst
  · simp only [hl, if_true, decide_true, Bool.not_true, Bool.false_eq_true, if_false]
    xsteps
    apply Post.mono (RO.tick .l ctx)
    intro _ c1 h1'
    have hI1 : SInv c1.accts := by rw [h1']; exact hI
    have hM1 : AllMd m0 k c1.accts := by rw [h1']; exact hM
    xsteps
    apply Post.mono (multiSenderLoop_md m0 k env c true dst _ hne hds _ _ c1 hI1 hM1)
    intro r c2 ⟨hM2, _⟩
    xsteps
    apply Post.mono (RO.tick .s c2)
    intro _ c3 h3
    xsteps
    apply Post.mono (ro_multiPayloadLoop env _ _ c3)
    intro r2 c4 h4
    have fin : ∀ (out : VMOutput), AllMd m0 k c4.accts ∧ ∀ dst_1, c.args[0]? = some dst_1 →
        shardOf env.nshards dst ≠ shardOf env.nshards dst_1 → ∃ callArgs a0 tr,
          out.outAccts = [{ addr := dst_1, transfers := [tr] }] ∧
          tr.data = encodeCall fnMultiESDTNFTTransfer callArgs ∧ callArgs[0]? = some a0 ∧
          loopMd m0 k callArgs (u64 (beNat a0)) 1 := by
      intro out
      refine ⟨by rw [h4, h3]; exact hM2, fun d hd hx => ?_⟩
      rw [h0] at hd; cases hd
      exact absurd rfl hx
    split
    · xsteps
      exact Post.pure (fin _)
    · exact Post.pure (fin _)
  · simp only [hl, if_false, decide_false, Bool.not_false, if_true]
    xsteps
    apply Post.mono (Post.and (multiSenderLoop_supply env c false dst _ hne hds _ _ ctx hI)
      (multiSenderLoop_md m0 k env c false dst _ hne hds _ _ ctx hI hM))
    intro r c2 ⟨⟨_, _, hok2, hlen2⟩, hM2, hT2⟩
    xsteps
    apply Post.mono (multiPayloadLoop_shape env _ _ c2 (hok2 rfl))
    intro r2 c4 ⟨h4, hshape, hlens⟩
    apply Post.pure
    refine ⟨by rw [h4]; exact hM2, fun d hd _ => ?_⟩
    rw [h0] at hd; cases hd
    obtain ⟨toks, logs⟩ := r
    obtain ⟨pl, gr⟩ := r2
    simp only at hshape hlens hlen2 hok2 hT2 ⊢
    have hlt : toks.length < two64 := by rw [hlen2]; exact u64_lt _
    have hn : u64 (beNat (beBytes toks.length)) = toks.length := by rw [beNat_beBytes, u64_of_lt _ hlt]
    refine ⟨_, beBytes toks.length, _, rfl, rfl, by simp, ?_⟩
    rw [hn, hshape]
    exact loopMd_payload m0 k toks [beBytes toks.length] _ (hok2 trivial) hlens (hT2 trivial)

/-! ### the world -/

/-- every item in flight for key `k` carries metadata `m0` -/
def MMsgMd (m0 : MetaData) (k : Bytes) (m : MMsg) : Prop :=
  ∀ a0, m.args[0]? = some a0 → loopMd m0 k m.args (u64 (beNat a0)) 1

structure MMdInv (m0 : MetaData) (k : Bytes) (w : MWorld) : Prop where
  shards : ∀ A ∈ w.shards, AllMd m0 k A
  msgs : ∀ m ∈ w.inflight, MMsgMd m0 k m

theorem multiStep_md (m0 : MetaData) (k : Bytes) (e : Env) (w : MWorld) (st : NStep) (hI : MWorldInv e w)
    (hM : MMdInv m0 k w) (hok : MultiStepOK st) : MMdInv m0 k (multiStep e w st) := by
  cases st with
  | user c =>
    obtain ⟨hself, hsys, hdsys⟩ := hok
    simp only [multiStep]
    cases hr : runMulti e w.shards (shardOf e.nshards c.caller) c with
    | none => exact hM
    | some p =>
      obtain ⟨out, A'⟩ := p
      simp only []
      obtain ⟨A, ctx', hA, hex, hA'⟩ := runMulti_some hr
      have hIA : SInv A := hI.shards A (List.mem_of_getElem? hA)
      have hMA : AllMd m0 k A := hM.shards A (List.mem_of_getElem? hA)
      let env : Env := { e with self := shardOf e.nshards c.caller }
      have hs : present env.nshards env.self c.caller = true := present_self _ _
      have hsend : multiTransferSender env c { accts := A } = .ok (out, ctx') :=
        (multiTransfer_sender_path env c { accts := A } hself).elim hex
      obtain ⟨hMA', hmsg⟩ := (multiTransferSender_md m0 k env c { accts := A } hIA hMA hs hdsys).elim hsend
      (try simp only at hMA' hmsg)
      rw [hA'] at hMA'
      cases h0 : c.args[0]? with
      | none => exact ⟨mem_set_of _ _ _ _ hM.shards hMA', hM.msgs⟩
      | some dst =>
        simp only []
        by_cases hx : shardOf e.nshards c.caller = shardOf e.nshards dst
        · simp only [hx, if_true]
          exact ⟨by rw [← hx]; exact mem_set_of _ _ _ _ hM.shards hMA', hM.msgs⟩
        · simp only [hx, if_false]
          obtain ⟨callArgs, a0, tr, hout, hdata, ha0, hlmd⟩ := hmsg dst h0 hx
          have hparse : parseCall tr.data = .ok (fnMultiESDTNFTTransfer, callArgs) := by
            rw [hdata, parseCall_encodeCall _ _ (by decide) (by decide)]
          have hm : mmsgOf c out = some { caller := c.caller, rcv := dst, args := callArgs, refund := false } := by
            simp only [mmsgOf, hout, hparse]
          simp only [hm, Option.toList]
          refine ⟨mem_set_of _ _ _ _ hM.shards hMA', ?_⟩
          intro m' hm'
          rcases List.mem_append.mp hm' with h' | h'
          · exact hM.msgs m' h'
          · simp at h'; subst h'
            intro a0' ha0'
            simp only at ha0'
            rw [ha0] at ha0'; cases ha0'
            exact hlmd
  | deliver i =>
    simp only [multiStep]
    cases hm : w.inflight[i]? with
    | none => exact hM
    | some m =>
      simp only []
      have hmok := hI.msgs m (List.mem_of_getElem? hm)
      have hmmd := hM.msgs m (List.mem_of_getElem? hm)
      cases hrf : m.refund
      · simp only [Bool.false_eq_true, if_false]
        cases hr : runMulti e w.shards (shardOf e.nshards m.rcv) (mDeliveryCall m) with
        | none =>
          simp only []
          exact ⟨hM.shards, mem_set_of _ _ _ _ hM.msgs (fun a0 ha0 => hmmd a0 ha0)⟩
        | some p =>
          obtain ⟨out, A'⟩ := p
          simp only []
          obtain ⟨A, ctx', hA, hex, hA'⟩ := runMulti_some hr
          have hIA : SInv A := hI.shards A (List.mem_of_getElem? hA)
          have hMA : AllMd m0 k A := hM.shards A (List.mem_of_getElem? hA)
          obtain ⟨a0, ha0, _⟩ := hmok.items
          have hne : (mDeliveryCall m).caller ≠ (mDeliveryCall m).rcv := hmok.ne
          have hMA' := (multiTransfer_dest_md m0 k _ (mDeliveryCall m) { accts := A } hMA hIA.short hne a0 ha0
            (hmmd a0 ha0)).elim hex
          rw [hA'] at hMA'
          exact ⟨mem_set_of _ _ _ _ hM.shards hMA', fun m' hm' => hM.msgs m' (List.mem_of_mem_eraseIdx hm')⟩
      · simp only [if_true]; exact hM
  | refund i =>
    simp only [multiStep]
    cases hm : w.inflight[i]? with
    | none => exact hM
    | some m =>
      simp only []
      have hmok := hI.msgs m (List.mem_of_getElem? hm)
      have hmmd := hM.msgs m (List.mem_of_getElem? hm)
      cases hrf : m.refund
      · simp only [Bool.not_false, if_true]; exact hM
      · simp only [Bool.not_true, Bool.false_eq_true, if_false]
        cases hr : runMulti e w.shards (shardOf e.nshards m.caller) (mRefundCall m) with
        | none => exact hM
        | some p =>
          obtain ⟨out, A'⟩ := p
          simp only []
          obtain ⟨A, ctx', hA, hex, hA'⟩ := runMulti_some hr
          have hIA : SInv A := hI.shards A (List.mem_of_getElem? hA)
          have hMA : AllMd m0 k A := hM.shards A (List.mem_of_getElem? hA)
          obtain ⟨a0, ha0, _⟩ := hmok.items
          have hne : (mRefundCall m).caller ≠ (mRefundCall m).rcv := fun h => hmok.ne h.symm
          have hMA' := (multiTransfer_dest_md m0 k _ (mRefundCall m) { accts := A } hMA hIA.short hne a0 ha0
            (hmmd a0 ha0)).elim hex
          rw [hA'] at hMA'
          exact ⟨mem_set_of _ _ _ _ hM.shards hMA', fun m' hm' => hM.msgs m' (List.mem_of_mem_eraseIdx hm')⟩

theorem multiRun_md (m0 : MetaData) (k : Bytes) (e : Env) : ∀ (steps : List NStep) (w : MWorld), MWorldInv e w →
    MMdInv m0 k w → (∀ s ∈ steps, MultiStepOK s) → MMdInv m0 k (multiRun e steps w) := by
  intro steps
  induction steps with
  | nil => intro w _ hM _; exact hM
  | cons s rest ih =>
    intro w hI hM hok
    have hI1 := (multiStep_supply e w s hI (hok s (by simp)) []).2
    have hM1 := multiStep_md m0 k e w s hI hM (hok s (by simp))
    exact ih (multiStep e w s) hI1 hM1 (fun s' hs' => hok s' (by simp [hs']))

end Esdt
