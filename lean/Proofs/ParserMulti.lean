/-
  Proofs/ParserMulti.lean — C10 for MultiESDTNFTTransfer: the message the sender side emits, parsed by the ESDT-transfer
  parser the way a contract on the destination shard is told about it, reports — token by token — exactly what the sender
  side debited (and, by Proofs/NetworkMulti.lean, what the destination side will credit).
-/
import Proofs.NetworkMulti
namespace Esdt

/-- what a parser report is worth under storage key `k` -/
def parsedContrib (trs : List ParsedTransfer) (k : Bytes) : Int :=
  (trs.map fun tr => if nftKey (esdtKeyPrefix ++ tr.token) tr.nonce = k then tr.value else 0).sum

/-- the parser's report for one returned token of the sender loop -/
def reportOf (p : Bytes × Token) : ParsedTransfer :=
  match p.2.md with
  | some m => { value := p.2.value.getD 0, token := p.1, type := 1, nonce := m.nonce }
  | none => { value := p.2.value.getD 0, token := p.1, type := 0, nonce := 0 }

theorem parseOne_payloadItem (p : Bytes × Token) (hok : TokOK p.2)
    (hlen : p.2.md.isSome = true → (encToken p.2).length < two63) :
    ∃ a b d, payloadItem p = [a, b, d] ∧ parseOneTransfer false a b d = .ok (reportOf p) := by
  obtain ⟨tok, t⟩ := p
  obtain ⟨hnum, ⟨q, hq, hq0⟩, hmd⟩ := hok
  simp only at hnum hq hmd hlen ⊢
  cases hm : t.md with
  | some m =>
    have hn64 : m.nonce < two64 := (hnum.md m hm).1
    have hpos : 0 < m.nonce := Nat.pos_of_ne_zero (hmd m hm)
    have hrt : decToken (encToken t) = some t := roundtrip_of_length t hnum (hlen (by rw [hm]; rfl))
    refine ⟨tok, beBytes m.nonce, encToken t, by simp [payloadItem, hm], ?_⟩
    simp [parseOneTransfer, beNat_beBytes, u64_of_lt _ hn64, hpos, hrt, hq, reportOf, hm]
  | none =>
    refine ⟨tok, [0], beBytes (t.value.getD 0).natAbs, by simp [payloadItem, hm], ?_⟩
    have h0 : ¬ (u64 (beNat [0]) > 0) := by decide
    simp only [parseOneTransfer, h0, if_false, reportOf, hm, hq, Option.getD_some, beNat_beBytes]
    have : ((q.natAbs : Nat) : Int) = q := by omega
    rw [this]
    rfl

/-- the parser's loop over the emitted payload returns the reports of the returned tokens, in order -/
theorem parseMultiLoop_payload : ∀ (toks : List (Bytes × Token)) (pre rest : List Bytes),
    (∀ p ∈ toks, TokOK p.2) → (∀ p ∈ toks, p.2.md.isSome = true → (encToken p.2).length < two63) →
    parseMultiLoop (pre ++ payloadOf toks ++ rest) false toks.length pre.length = .ok (toks.map reportOf) := by
  intro toks
  induction toks with
  | nil => intro pre rest _ _; simp [parseMultiLoop]
  | cons p ps ih =>
    intro pre rest hok hlen
    obtain ⟨a, b, d, hitem, hparse⟩ := parseOne_payloadItem p (hok p List.mem_cons_self) (hlen p List.mem_cons_self)
    have hargs : pre ++ payloadOf (p :: ps) ++ rest = pre ++ (a :: b :: d :: (payloadOf ps ++ rest)) := by
      simp [payloadOf, List.flatMap_cons, hitem]
    have hargs2 : pre ++ payloadOf (p :: ps) ++ rest = (pre ++ [a, b, d]) ++ payloadOf ps ++ rest := by
      simp [payloadOf, List.flatMap_cons, hitem]
    obtain ⟨g0, g1, g2⟩ := getElem?_pre3 pre a b d (payloadOf ps ++ rest)
    have ih2 := ih (pre ++ [a, b, d]) rest (fun p hp => hok p (List.mem_cons_of_mem _ hp))
      (fun p hp => hlen p (List.mem_cons_of_mem _ hp))
    have hl3 : (pre ++ [a, b, d]).length = pre.length + 3 := by simp
    rw [hl3, ← hargs2] at ih2
    simp only [List.length_cons, parseMultiLoop, List.map_cons]
    rw [ih2]
    rw [hargs]
    simp only [pArg, g0, g1, g2]
    simp [Bind.bind, PRes.bind, hparse, Pure.pure]

/-- … and is worth, key by key, what the returned tokens carry -/
theorem parsedContrib_reports (toks : List (Bytes × Token)) (k : Bytes) :
    parsedContrib (toks.map reportOf) k = toksContrib toks k := by
  induction toks with
  | nil => simp [parsedContrib, toksContrib]
  | cons p ps ih =>
    have e : parsedContrib ((p :: ps).map reportOf) k =
        (if nftKey (esdtKeyPrefix ++ (reportOf p).token) (reportOf p).nonce = k then (reportOf p).value else 0) +
        parsedContrib (ps.map reportOf) k := by simp [parsedContrib]
    rw [e, ih, toksContrib_cons]
    obtain ⟨tok, t⟩ := p
    cases hm : t.md with
    | some m => simp [reportOf, hm, mdNonce]
    | none => simp [reportOf, hm, mdNonce]

end Esdt

namespace Esdt

theorem payloadOf_length (toks : List (Bytes × Token)) : (payloadOf toks).length = 3 * toks.length := by
  induction toks with
  | nil => simp [payloadOf]
  | cons p ps ih =>
    have : (payloadItem p).length = 3 := by
      obtain ⟨tok, t⟩ := p
      cases hm : t.md <;> simp [payloadItem, hm]
    simp only [payloadOf, List.flatMap_cons, List.length_append, List.length_cons] at ih ⊢
    rw [this, ih]; omega

/-- the ESDT-transfer parser on a message of the form the sender side emits, as seen on the destination shard
    (sender ≠ receiver): accepted, receiver = the destination, one report per transferred token, in order -/
theorem parse_emitted_multi (caller dst : Bytes) (toks : List (Bytes × Token)) (rest : List Bytes) (hne : caller ≠ dst)
    (hpos : toks.length ≠ 0) (hlt : 3 * toks.length + 1 < two64)
    (hok : ∀ p ∈ toks, TokOK p.2) (hlens : ∀ p ∈ toks, p.2.md.isSome = true → (encToken p.2).length < two63) :
    ∃ p, parseESDTTransfers caller dst fnMultiESDTNFTTransfer (beBytes toks.length :: payloadOf toks ++ rest) = .ok p ∧
      p.transfers = toks.map reportOf ∧ p.rcv = dst := by
  have hlen : (beBytes toks.length :: payloadOf toks ++ rest).length = 1 + 3 * toks.length + rest.length := by
    simp [payloadOf_length]; omega
  have hn : u64 (beNat (beBytes toks.length)) = toks.length := by
    rw [beNat_beBytes, u64_of_lt _ (by omega)]
  have hloop := parseMultiLoop_payload toks [beBytes toks.length] rest hok hlens
  have e : [beBytes toks.length] ++ payloadOf toks ++ rest = beBytes toks.length :: payloadOf toks ++ rest := rfl
  rw [e] at hloop
  simp only [List.length_singleton] at hloop
  -- the second argument exists (there is at least one token)
  have h1 : ∃ x, (beBytes toks.length :: payloadOf toks ++ rest)[1]? = some x := by
    have : 1 < (beBytes toks.length :: payloadOf toks ++ rest).length := by rw [hlen]; omega
    exact ⟨_, List.getElem?_eq_getElem this⟩
  obtain ⟨x1, hx1⟩ := h1
  have hmin : u64 (u64 (3 * toks.length) + 1) = 3 * toks.length + 1 := by
    rw [u64_of_lt (3 * toks.length) (by omega), u64_of_lt _ hlt]
  have hf1 : ¬ fnMultiESDTNFTTransfer = ascii "ESDTTransfer" := by decide
  have hf2 : ¬ fnMultiESDTNFTTransfer = ascii "ESDTNFTTransfer" := by decide
  have hf3 : fnMultiESDTNFTTransfer = ascii "MultiESDTNFTTransfer" := by decide
  have eargs : (beBytes toks.length :: payloadOf toks ++ rest) = beBytes toks.length :: (payloadOf toks ++ rest) := rfl
  rw [eargs] at hlen hloop hx1 ⊢
  unfold parseESDTTransfers
  rw [if_neg hf1, if_neg hf2, if_pos hf3]
  have hl4 : ¬ (beBytes toks.length :: (payloadOf toks ++ rest)).length < 4 := by rw [hlen]; omega
  rw [if_neg hl4]
  have hg1 : ¬ toks.length > (beBytes toks.length :: (payloadOf toks ++ rest)).length / 3 := by rw [hlen]; omega
  have hg2 : ¬ (beBytes toks.length :: (payloadOf toks ++ rest)).length < 3 * toks.length + 1 := by rw [hlen]; omega
  have hd : decide (caller = dst) = false := by simpa using hne
  simp only [pArg, List.getElem?_cons_zero, hx1, hd, hn, Bind.bind, PRes.bind, hmin, Pure.pure, Bool.false_eq_true, if_false,
    if_neg hg1, if_neg hg2, hloop, hne]
  have hdf : decide False = false := rfl
  rw [hdf, hloop]
  exact ⟨_, rfl, rfl, rfl⟩

/-- the message of a successful cross-shard sender-side MultiESDTNFTTransfer, with the tokens it was built from -/
theorem multiTransferSender_message (env : Env) (c : Call) (ctx : Ctx) (hI : SInv ctx.accts)
    (hs : present env.nshards env.self c.caller = true)
    (hdsys : ∀ d, c.args[0]? = some d → d ≠ systemAccountAddress) :
    Post (multiTransferSender env c) ctx (fun out ctx' => ∀ dst, c.args[0]? = some dst →
      env.self ≠ shardOf env.nshards dst → dst ≠ c.caller ∧
      ∃ toks rest tr a1, c.args[1]? = some a1 ∧ toks.length = u64 (beNat a1) ∧ u64 (beNat a1) ≠ 0 ∧
        u64 (beNat a1) ≤ c.args.length / 3 ∧
        out.outAccts = [{ addr := dst, transfers := [tr] }] ∧
        tr.data = encodeCall fnMultiESDTNFTTransfer (beBytes toks.length :: payloadOf toks ++ rest) ∧
        (∀ p ∈ toks, TokOK p.2) ∧ (∀ p ∈ toks, p.2.md.isSome = true → (encToken p.2).length < two63) ∧
        ∀ k, balAt ctx'.accts k + toksContrib toks k = balAt ctx.accts k) := by
  unfold multiTransferSender
  simp only [hs, Bool.not_true, Bool.false_eq_true, if_false]
  xsteps
  rename_i dst h0 _ hnc _ a1 h1 hn0 hn3 _ _
  have hne : dst ≠ c.caller := of_decide_eq_false hnc
  have hds := hdsys dst h0
  by_cases hl : env.self = shardOf env.nshards dst
  · apply Post.intro
    intro out ctx' d hd hx
    rw [h0] at hd; cases hd
    exact absurd hl hx
  · simp only [hl, if_false, decide_false, Bool.not_false, if_true]
    xsteps
    apply Post.mono (multiSenderLoop_supply env c false dst _ hne hds _ _ ctx hI)
    intro r c2 ⟨hI2, hb2, hok2, hlen2⟩
    xsteps
    apply Post.mono (multiPayloadLoop_shape env _ _ c2 (hok2 rfl))
    intro r2 c4 ⟨h4, hshape, hlens⟩
    apply Post.pure
    intro d hd _
    rw [h0] at hd; cases hd
    obtain ⟨toks, logs⟩ := r
    obtain ⟨pl, gr⟩ := r2
    simp only at hshape hlens hlen2 hb2 hok2 ⊢
    refine ⟨hne, toks, (if c.args.length > u64 (u64 (u64 (beNat a1) * 3) + 2) then
        List.drop (u64 (u64 (u64 (beNat a1) * 3) + 2)) c.args else []), _, a1, h1, hlen2, of_decide_eq_false hn0,
      by simpa using hn3, rfl, ?_, hok2 trivial, hlens, fun k => ?_⟩
    · rw [hshape]
    · have h2 := hb2 k
      simp only [Bool.false_eq_true, if_false] at h2
      rw [h4]; exact h2

end Esdt
