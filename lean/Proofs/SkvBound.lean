/-
  Proofs/SkvBound.lean — C16: the per-byte components of SaveKeyValue's charge cannot wrap 64 bits under the property's own
  size assumptions (32-bit schedule entries, fewer than 2^31 argument bytes): `skvCost` is bounded by
  (PersistPerByte + StorePerByte) × argument bytes, so the "no wrap" hypothesis of `charge_saveKeyValue` is discharged.
-/
import Proofs.Charge2
namespace Esdt

theorem skvCost_le (env : Env) (a : Bytes) : ∀ (n : Nat) (A : Accts) (l : List Bytes),
    skvCost env a n A l ≤ (env.gas.base.persistPerByte + env.gas.base.storePerByte) * totalLen l := by
  intro n
  induction n with
  | zero => intro A l; simp [skvCost]
  | succ n ih =>
    intro A l
    match l with
    | [] => simp [skvCost]
    | [_] => simp [skvCost]
    | k :: v :: rest =>
      simp only [skvCost]
      have hT : totalLen (k :: v :: rest) = k.length + v.length + totalLen rest := by
        simp [totalLen]; omega
      rw [hT]
      have h1 := ih A rest
      have h2 := ih (A.write a k v) rest
      have hsub : v.length - (A.read a k).length ≤ v.length := Nat.sub_le _ _
      have hm : env.gas.base.storePerByte * (v.length - (A.read a k).length) ≤ env.gas.base.storePerByte * v.length :=
        Nat.mul_le_mul_left _ hsub
      split
      · calc (v.length + k.length) * env.gas.base.persistPerByte + skvCost env a n A rest
            ≤ (v.length + k.length) * env.gas.base.persistPerByte +
                (env.gas.base.persistPerByte + env.gas.base.storePerByte) * totalLen rest := Nat.add_le_add_left h1 _
          _ ≤ (env.gas.base.persistPerByte + env.gas.base.storePerByte) * (k.length + v.length + totalLen rest) := by
              simp only [Nat.add_mul, Nat.mul_add, Nat.mul_comm]; omega
      · calc (v.length + k.length) * env.gas.base.persistPerByte +
              (env.gas.base.storePerByte * (v.length - (A.read a k).length) + skvCost env a n (A.write a k v) rest)
            ≤ (v.length + k.length) * env.gas.base.persistPerByte +
                (env.gas.base.storePerByte * v.length +
                  (env.gas.base.persistPerByte + env.gas.base.storePerByte) * totalLen rest) :=
              Nat.add_le_add_left (Nat.add_le_add hm h2) _
          _ ≤ (env.gas.base.persistPerByte + env.gas.base.storePerByte) * (k.length + v.length + totalLen rest) := by
              simp only [Nat.add_mul, Nat.mul_add, Nat.mul_comm]; omega

/-- under the property's size assumptions the whole charge of SaveKeyValue stays below 2^64 -/
theorem skv_no_wrap (env : Env) (c : Call) (A : Accts) (hp : env.gas.base.persistPerByte < 2 ^ 32)
    (hs : env.gas.base.storePerByte < 2 ^ 32) (hf : env.gas.fn.saveKeyValue < 2 ^ 32) (hargs : totalLen c.args < 2 ^ 31) :
    env.gas.fn.saveKeyValue + skvCost env c.caller c.args.length A c.args < two64 := by
  have h := skvCost_le env c.caller c.args.length A c.args
  have hb : (env.gas.base.persistPerByte + env.gas.base.storePerByte) * totalLen c.args ≤ (2 ^ 33 - 2) * (2 ^ 31 - 1) :=
    Nat.mul_le_mul (by omega) (by omega)
  have : (2 ^ 33 - 2) * (2 ^ 31 - 1) + 2 ^ 32 < two64 := by decide
  omega

end Esdt
