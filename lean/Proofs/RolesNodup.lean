/-
  Proofs/RolesNodup.lean — C15: "role lists hold no duplicates under system-contract discipline", over every function and
  every history. A role list changes only through ESDTSetRole (appends its arguments), ESDTUnSetRole (erases) and the
  create-role hand-over (erases the create role at the old holder, appends it at the new one only if absent); the
  discipline needed is exactly App. C E5: the system contract never sets a role the account already has, nor one twice.
-/
import Proofs.NetworkNonce
import Proofs.Only
namespace Esdt

/-- every role list stored on the shard decodes to a list without duplicates -/
def RolesNodup (A : Accts) : Prop :=
  ∀ a tok roles, rolesOf (A.read a (roleKeyPrefix ++ tok)) = some roles → roles.Nodup

/-- the discipline of a set-role call: what it appends is new and itself free of duplicates -/
def SetRoleDisciplined (f : FnId) (c : Call) (A : Accts) : Prop :=
  f = .setRole → ∀ tok roles, c.args[0]? = some tok → rolesOf (A.read c.rcv (roleKeyPrefix ++ tok)) = some roles →
    (roles ++ c.args.drop 1).Nodup

theorem nodup_deleteRoles (roles del : List Bytes) (h : roles.Nodup) : (deleteRoles roles del).Nodup := by
  unfold deleteRoles
  induction del generalizing roles with
  | nil => simpa using h
  | cons d ds ih => simp only [List.foldl_cons]; exact ih _ (h.erase d)

theorem nodup_append_new (roles : List Bytes) (r : Bytes) (h : roles.Nodup) (hc : roles.contains r = false) :
    (roles ++ [r]).Nodup := by
  rw [List.nodup_append]
  refine ⟨h, by simp, ?_⟩
  intro a ha b hb
  simp only [List.mem_singleton] at hb
  subst hb
  intro he; subst he
  have : roles.contains a = true := List.contains_iff_mem.mpr ha
  rw [this] at hc; cases hc

/-- writing one role list that has no duplicates keeps the invariant -/
theorem RolesNodup.write_role {A : Accts} (h : RolesNodup A) (a1 tok1 : Bytes) (l : List Bytes) (hl : l.Nodup)
    (hlen : (encRoles l).length < two63) : RolesNodup (A.write a1 (roleKeyPrefix ++ tok1) (encRoles l)) := by
  intro a tok roles hr
  rw [Accts.read_write] at hr
  split at hr
  · rw [rolesOf_encRoles l hlen] at hr; cases hr; exact hl
  · exact h a tok roles hr

/-- a write under a key that is not a role key keeps it -/
theorem RolesNodup.write_nonce {A : Accts} (h : RolesNodup A) (a1 tok1 v : Bytes) :
    RolesNodup (A.write a1 (nonceKeyPrefix ++ tok1) v) := by
  intro a tok roles hr
  rw [Accts.read_write, if_neg (fun hh => role_ne_nonce tok tok1 hh.2.symm)] at hr
  exact h a tok roles hr

/-- every call of every function keeps "no duplicates" — given, for ESDTSetRole, the system contract's discipline -/
theorem roles_nodup_step (f : FnId) (env : Env) (c : Call) (A : Accts) (out : VMOutput) (ctx' : Ctx)
    (hI : RolesNodup A) (hd : SetRoleDisciplined f c A) (h : exec env f c { accts := A } = .ok (out, ctx')) :
    RolesNodup ctx'.accts := by
  by_cases hf : f ≠ .setRole ∧ f ≠ .unSetRole ∧ f ≠ .nftCreateRoleTransfer
  · intro a tok roles hr
    rw [roles_only_through f hf env c _ ctx' out h a tok] at hr
    exact hI a tok roles hr
  · have hcases : f = .setRole ∨ f = .unSetRole ∨ f = .nftCreateRoleTransfer := by
      by_cases h1 : f = .setRole
      · exact Or.inl h1
      · by_cases h2 : f = .unSetRole
        · exact Or.inr (Or.inl h2)
        · by_cases h3 : f = .nftCreateRoleTransfer
          · exact Or.inr (Or.inr h3)
          · exact absurd ⟨h1, h2, h3⟩ hf
    unfold exec at h
    rcases hcases with rfl | rfl | rfl <;> simp only [runFn] at h
    · obtain ⟨tok', roles, h0, hr, hw, hlen⟩ := (esdtRoles_effect true env c { accts := A }).elim h
      simp only [if_true] at hw hlen
      rw [hw]
      exact hI.write_role _ _ _ (hd rfl tok' roles h0 hr) hlen
    · obtain ⟨tok', roles, h0, hr, hw, hlen⟩ := (esdtRoles_effect false env c { accts := A }).elim h
      simp only [Bool.false_eq_true, if_false] at hw hlen
      rw [hw]
      exact hI.write_role _ _ _ (nodup_deleteRoles _ _ (hI _ _ _ hr)) hlen
    · by_cases hsys : c.caller = esdtSCAddress
      · obtain ⟨tok', dest, roles, _, hr, hx, hs, _⟩ := (handover_current_x env c { accts := A } hsys).elim h
        have hdel : (deleteRoles roles [roleNFTCreate]).Nodup := nodup_deleteRoles _ _ (hI _ _ _ hr)
        by_cases hsh : shardOf env.nshards dest = env.self
        · obtain ⟨A3, roles2, hA3, hlen, hr2, hin, hout⟩ := hs hsh
          have hI3 : RolesNodup A3 := by
            rw [hA3]
            exact ((hI.write_nonce _ _ _).write_role _ _ _ hdel hlen).write_nonce _ _ _
          cases hc : roles2.contains roleNFTCreate with
          | true => rw [hin hc]; exact hI3
          | false =>
            obtain ⟨hw, hlen2⟩ := hout hc
            rw [hw]
            exact hI3.write_role _ _ _ (nodup_append_new _ _ (hI3 _ _ _ hr2) hc) hlen2
        · obtain ⟨hw, hlen⟩ := hx hsh
          rw [hw]
          exact (hI.write_nonce _ _ _).write_role _ _ _ hdel hlen
      · obtain ⟨tok', nb, roles, _, hr, hin, hout⟩ := (handover_next_x env c { accts := A } hsys).elim h
        cases hc : roles.contains roleNFTCreate with
        | true => rw [hin hc]; exact hI.write_nonce _ _ _
        | false =>
          obtain ⟨hw, hlen⟩ := hout hc
          rw [hw]
          have hI1 := hI.write_nonce c.rcv tok' (beBytes (u64 (beNat nb)))
          exact hI1.write_role _ _ _ (nodup_append_new _ _ (hI _ _ _ hr) hc) hlen

/-- any call list, any functions, any callers (failed calls rolled back): no role list ever holds a duplicate -/
def runCalls (env : Env) : List (FnId × Call) → Accts → Accts
  | [], A => A
  | (f, c) :: rest, A =>
    match exec env f c { accts := A } with
    | .ok (_, ctx') => runCalls env rest ctx'.accts
    | _ => runCalls env rest A

def CallsDisciplined (env : Env) : List (FnId × Call) → Accts → Prop
  | [], _ => True
  | (f, c) :: rest, A =>
    SetRoleDisciplined f c A ∧
    match exec env f c { accts := A } with
    | .ok (_, ctx') => CallsDisciplined env rest ctx'.accts
    | _ => CallsDisciplined env rest A

theorem roles_nodup_history (env : Env) : ∀ (calls : List (FnId × Call)) (A : Accts), RolesNodup A →
    CallsDisciplined env calls A → RolesNodup (runCalls env calls A) := by
  intro calls
  induction calls with
  | nil => intro A h _; exact h
  | cons p rest ih =>
    intro A hI hd
    obtain ⟨f, c⟩ := p
    obtain ⟨hd1, hrest⟩ := hd
    simp only [runCalls]
    cases he : exec env f c { accts := A } with
    | ok q =>
      obtain ⟨out, ctx'⟩ := q
      simp only [he] at hrest ⊢
      exact ih ctx'.accts (roles_nodup_step f env c A out ctx' hI hd1 he) hrest
    | err e => simp only [he] at hrest ⊢; exact ih A hI hrest
    | panic => simp only [he] at hrest ⊢; exact ih A hI hrest

end Esdt
