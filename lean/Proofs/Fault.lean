/-
  Proofs/Fault.lean — C17: a failing dependency is never reported as success.
  `FaultSim m`: running `m` with the k-th counted dependency call failing behaves exactly like the
  unfaulted run up to that call, and returns the injected error as soon as the call is reached.
-/
import Proofs.Monad
namespace Esdt

def Ctx.withFail (c : Ctx) (f : Option Nat) : Ctx := { c with failAt := f }

@[simp] theorem withFail_deps (c : Ctx) (f : Option Nat) : (c.withFail f).deps = c.deps := rfl
@[simp] theorem withFail_accts (c : Ctx) (f : Option Nat) : (c.withFail f).accts = c.accts := rfl
@[simp] theorem withFail_failAt (c : Ctx) (f : Option Nat) : (c.withFail f).failAt = f := rfl

/-- relation between the unfaulted result `r` and the result `r'` under fault plan `k` -/
def SimRes {α} (c : Ctx) (k : Nat) (r r' : Res (α × Ctx)) : Prop :=
  match r with
  | .ok (a, c') =>
      c'.failAt = none ∧ c.deps.length ≤ c'.deps.length ∧
      (if c'.deps.length ≤ k then r' = .ok (a, c'.withFail (some k)) else r' = .err .Injected)
  | .err e => r' = .err e ∨ r' = .err .Injected
  | .panic => True

def FaultSim {α} (m : M α) : Prop :=
  ∀ (c : Ctx) (k : Nat), c.deps.length ≤ k → c.failAt = none → SimRes c k (m c) (m (c.withFail (some k)))

theorem FaultSim.pure {α} (a : α) : FaultSim (pure a : M α) := by
  intro c k hk hf
  simp [SimRes, hf, hk]

theorem FaultSim.fail {α} (e : ErrKind) : FaultSim (fail e : M α) := by
  intro c k _ _; simp [SimRes]

theorem FaultSim.goPanic {α} : FaultSim (goPanic : M α) := by
  intro c k _ _; simp [SimRes]

theorem FaultSim.tick (d : Dep) : FaultSim (tick d) := by
  intro c k hk hf
  unfold Esdt.tick SimRes
  simp only [hf, withFail_failAt, withFail_deps]
  by_cases h : c.deps.length = k
  · subst h; simp [Ctx.withFail]
  · have hlt : c.deps.length < k := by omega
    have hne : ¬ (some k = some c.deps.length) := by intro he; cases he; omega
    simp [hne, Ctx.withFail]; omega

theorem FaultSim.bind {α β} {m : M α} {f : α → M β} (hm : FaultSim m) (hf : ∀ a, FaultSim (f a)) :
    FaultSim (m >>= f) := by
  intro c k hk hfa
  have h1 := hm c k hk hfa
  rw [bind_apply, bind_apply]
  unfold SimRes at h1 ⊢
  cases hmc : m c with
  | panic => simp
  | err e =>
    rw [hmc] at h1
    rcases h1 with h | h <;> simp [h]
  | ok p =>
    obtain ⟨a, c1⟩ := p
    rw [hmc] at h1
    obtain ⟨hf1, hmono, hcase⟩ := h1
    simp only []
    by_cases hc1 : c1.deps.length ≤ k
    · rw [if_pos hc1] at hcase
      rw [hcase]
      simp only []
      have h2 := hf a c1 k hc1 hf1
      unfold SimRes at h2
      cases hfa' : f a c1 with
      | panic => simp
      | err e => rw [hfa'] at h2; exact h2
      | ok q =>
        obtain ⟨b, c2⟩ := q
        rw [hfa'] at h2
        exact ⟨h2.1, Nat.le_trans hmono h2.2.1, h2.2.2⟩
    · rw [if_neg hc1] at hcase
      rw [hcase]
      simp only []
      cases hfa' : f a c1 with
      | panic => simp
      | err e => simp
      | ok q =>
        obtain ⟨b, c2⟩ := q
        -- the continuation only adds dependency calls
        have h2 := hf a c1 (c1.deps.length) (Nat.le_refl _) hf1
        unfold SimRes at h2
        rw [hfa'] at h2
        dsimp only at h2
        refine ⟨h2.1, Nat.le_trans hmono h2.2.1, ?_⟩
        have : ¬ c2.deps.length ≤ k := by have := h2.2.1; omega
        rw [if_neg this]
        trivial

/-- a computation that neither counts dependencies nor looks at the fault plan -/
theorem FaultSim.of_pure_state {α} (m : M α)
    (h : ∀ c f, match m c with
      | .ok (a, c') => c'.deps = c.deps ∧ c'.failAt = c.failAt ∧ m (c.withFail f) = .ok (a, c'.withFail f)
      | .err e => m (c.withFail f) = .err e
      | .panic => True) : FaultSim m := by
  intro c k hk hf
  have := h c (some k)
  unfold SimRes
  cases hm : m c with
  | panic => trivial
  | err e => rw [hm] at this; exact Or.inl this
  | ok p =>
    obtain ⟨a, c'⟩ := p
    rw [hm] at this
    obtain ⟨hd, hfa, he⟩ := this
    refine ⟨by rw [hfa, hf], by rw [hd]; exact Nat.le_refl _, ?_⟩
    rw [hd, if_pos hk]; exact he

theorem FaultSim.readKey (a k : Bytes) : FaultSim (readKey a k) :=
  FaultSim.of_pure_state _ (by intro c f; simp [Esdt.readKey, Ctx.withFail])

theorem FaultSim.getAcct (a : Bytes) : FaultSim (getAcct a) :=
  FaultSim.of_pure_state _ (by intro c f; simp [Esdt.getAcct, Ctx.withFail])

theorem FaultSim.setAcct (a : Bytes) (x : Acct) : FaultSim (setAcct a x) :=
  FaultSim.of_pure_state _ (by intro c f; simp [Esdt.setAcct, Ctx.withFail])

theorem FaultSim.setOwner (a v : Bytes) : FaultSim (setOwner a v) :=
  FaultSim.of_pure_state _ (by intro c f; simp [Esdt.setOwner, Ctx.withFail])
theorem FaultSim.setName (a v : Bytes) : FaultSim (setName a v) :=
  FaultSim.of_pure_state _ (by intro c f; simp [Esdt.setName, Ctx.withFail])
theorem FaultSim.setReward (a : Bytes) (v : Int) : FaultSim (setReward a v) :=
  FaultSim.of_pure_state _ (by intro c f; simp [Esdt.setReward, Ctx.withFail])
theorem FaultSim.setBalance (a : Bytes) (v : Int) : FaultSim (setBalance a v) :=
  FaultSim.of_pure_state _ (by intro c f; simp [Esdt.setBalance, Ctx.withFail])

theorem FaultSim.guardE (b : Bool) (e : ErrKind) : FaultSim (guardE b e) := by
  unfold Esdt.guardE; split
  · exact FaultSim.fail e
  · exact FaultSim.pure ()

theorem FaultSim.deref {α} (o : Option α) : FaultSim (deref o) := by
  unfold Esdt.deref; split
  · exact FaultSim.pure _
  · exact FaultSim.goPanic

theorem FaultSim.argAt (args : List Bytes) (i : Nat) : FaultSim (argAt args i) := FaultSim.deref _

theorem FaultSim.ite {α} {p : Prop} [Decidable p] {A B : M α} (h1 : FaultSim A) (h2 : FaultSim B) :
    FaultSim (if p then A else B) := by
  split
  · exact h1
  · exact h2

/-- the state-writing half of `writeKey` -/
theorem FaultSim.modify (g : Accts → Accts) :
    FaultSim (fun c => Res.ok ((), { c with accts := g c.accts }) : M Unit) := by
  intro c k hk hf
  simp [SimRes, hf, hk, Ctx.withFail]

/-- extension point for composite helpers -/
syntax "fs_spec" : tactic
macro_rules | `(tactic| fs_spec) => `(tactic| fail "no FaultSim lemma applies")

macro "fs_step" : tactic => `(tactic| with_reducible first
  | (apply FaultSim.bind; try (intro _))
  | exact FaultSim.pure _
  | exact FaultSim.fail _
  | exact FaultSim.goPanic
  | exact FaultSim.tick _
  | exact FaultSim.guardE _ _
  | exact FaultSim.argAt _ _
  | exact FaultSim.deref _
  | exact FaultSim.readKey _ _
  | exact FaultSim.getAcct _
  | exact FaultSim.setAcct _ _
  | exact FaultSim.setOwner _ _
  | exact FaultSim.setName _ _
  | exact FaultSim.setReward _ _
  | exact FaultSim.setBalance _ _
  | fs_spec
  | intro _
  | apply FaultSim.ite
  | (show FaultSim _; dsimp only)
  | (show FaultSim _; split))

macro "fs" : tactic => `(tactic| repeat' fs_step)

theorem fs_writeKey (a k v : Bytes) : FaultSim (writeKey a k v) := by
  unfold writeKey
  apply FaultSim.bind (FaultSim.tick _)
  intro _
  exact FaultSim.modify (fun accts => accts.set a { accts.get a with store := (accts.get a).store.put k v })
macro_rules | `(tactic| fs_spec) => `(tactic| exact fs_writeKey _ _ _)

theorem fs_loadAcct : FaultSim loadAcct := FaultSim.tick _
theorem fs_saveAcct : FaultSim saveAcct := FaultSim.tick _
macro_rules | `(tactic| fs_spec) => `(tactic| exact fs_loadAcct)
macro_rules | `(tactic| fs_spec) => `(tactic| exact fs_saveAcct)

theorem fs_marshalToken (t : Token) : FaultSim (marshalToken t) := by unfold marshalToken; fs
theorem fs_marshalRoles (r : List Bytes) : FaultSim (marshalRoles r) := by unfold marshalRoles; fs
theorem fs_unmarshalToken (b : Bytes) : FaultSim (unmarshalToken b) := by unfold unmarshalToken; fs
theorem fs_unmarshalRoles (b : Bytes) : FaultSim (unmarshalRoles b) := by unfold unmarshalRoles; fs
macro_rules | `(tactic| fs_spec) => `(tactic| exact fs_marshalToken _)
macro_rules | `(tactic| fs_spec) => `(tactic| exact fs_marshalRoles _)
macro_rules | `(tactic| fs_spec) => `(tactic| exact fs_unmarshalToken _)
macro_rules | `(tactic| fs_spec) => `(tactic| exact fs_unmarshalRoles _)

theorem fs_checkBasic (c : Call) : FaultSim (checkBasic c) := by unfold checkBasic; fs
macro_rules | `(tactic| fs_spec) => `(tactic| exact fs_checkBasic _)
theorem fs_verifyPayable (env : Env) (a : Bytes) : FaultSim (verifyPayable env a) := by unfold verifyPayable; fs
macro_rules | `(tactic| fs_spec) => `(tactic| exact fs_verifyPayable _ _)
theorem fs_verifyPayableIf (env : Env) (b : Bool) (a : Bytes) : FaultSim (verifyPayableIf env b a) := by
  unfold verifyPayableIf; fs
macro_rules | `(tactic| fs_spec) => `(tactic| exact fs_verifyPayableIf _ _ _)
theorem fs_checkSameHash (cur t : Token) : FaultSim (checkSameHash cur t) := by unfold checkSameHash; fs
macro_rules | `(tactic| fs_spec) => `(tactic| exact fs_checkSameHash _ _)
theorem fs_isPaused (k : Bytes) : FaultSim (isPaused k) := by unfold isPaused; fs
macro_rules | `(tactic| fs_spec) => `(tactic| exact fs_isPaused _)
theorem fs_checkFrozeAndPause (a k : Bytes) (t : Token) (r : Bool) : FaultSim (checkFrozeAndPause a k t r) := by
  unfold checkFrozeAndPause; fs
macro_rules | `(tactic| fs_spec) => `(tactic| exact fs_checkFrozeAndPause _ _ _ _)
theorem fs_getESDTDataFromKey (a k : Bytes) : FaultSim (getESDTDataFromKey a k) := by unfold getESDTDataFromKey; fs
macro_rules | `(tactic| fs_spec) => `(tactic| exact fs_getESDTDataFromKey _ _)
theorem fs_saveESDTData (a : Bytes) (t : Token) (k : Bytes) : FaultSim (saveESDTData a t k) := by unfold saveESDTData; fs
macro_rules | `(tactic| fs_spec) => `(tactic| exact fs_saveESDTData _ _ _)
theorem fs_addToESDTBalance (a k : Bytes) (d : Int) (r : Bool) : FaultSim (addToESDTBalance a k d r) := by
  unfold addToESDTBalance; fs
macro_rules | `(tactic| fs_spec) => `(tactic| exact fs_addToESDTBalance _ _ _ _)
theorem fs_getNFTOnDestination (a k : Bytes) (n : Nat) : FaultSim (getNFTOnDestination a k n) := by
  unfold getNFTOnDestination; fs
macro_rules | `(tactic| fs_spec) => `(tactic| exact fs_getNFTOnDestination _ _ _)
theorem fs_getNFTOnSender (a k : Bytes) (n : Nat) : FaultSim (getNFTOnSender a k n) := by unfold getNFTOnSender; fs
macro_rules | `(tactic| fs_spec) => `(tactic| exact fs_getNFTOnSender _ _ _)
theorem fs_saveNFT (a k : Bytes) (t : Token) (r : Bool) : FaultSim (saveNFT a k t r) := by unfold saveNFT; fs
macro_rules | `(tactic| fs_spec) => `(tactic| exact fs_saveNFT _ _ _ _)
theorem fs_getRoles (a k : Bytes) : FaultSim (getRoles a k) := by unfold getRoles; fs
macro_rules | `(tactic| fs_spec) => `(tactic| exact fs_getRoles _ _)
theorem fs_saveRoles (a k : Bytes) (r : List Bytes) : FaultSim (saveRoles a k r) := by unfold saveRoles; fs
macro_rules | `(tactic| fs_spec) => `(tactic| exact fs_saveRoles _ _ _)
theorem fs_checkAllowed (a t r : Bytes) : FaultSim (checkAllowed a t r) := by unfold checkAllowed; fs
macro_rules | `(tactic| fs_spec) => `(tactic| exact fs_checkAllowed _ _ _)
theorem fs_checkAllowedIf (b : Bool) (a t r : Bytes) : FaultSim (checkAllowedIf b a t r) := by unfold checkAllowedIf; fs
macro_rules | `(tactic| fs_spec) => `(tactic| exact fs_checkAllowedIf _ _ _ _)
theorem fs_getLatestNonce (a t : Bytes) : FaultSim (getLatestNonce a t) := by unfold getLatestNonce; fs
macro_rules | `(tactic| fs_spec) => `(tactic| exact fs_getLatestNonce _ _)
theorem fs_saveLatestNonce (a t : Bytes) (n : Nat) : FaultSim (saveLatestNonce a t n) := by unfold saveLatestNonce; fs
macro_rules | `(tactic| fs_spec) => `(tactic| exact fs_saveLatestNonce _ _ _)
theorem fs_addCreateRole (a k : Bytes) : FaultSim (addCreateRole a k) := by unfold addCreateRole; fs
macro_rules | `(tactic| fs_spec) => `(tactic| exact fs_addCreateRole _ _)
theorem fs_checkLocalAction (p : Bool) (c : Call) (cost : Nat) : FaultSim (checkLocalAction p c cost) := by
  unfold checkLocalAction; fs
macro_rules | `(tactic| fs_spec) => `(tactic| exact fs_checkLocalAction _ _ _)
theorem fs_checkCreateBurnAdd (p : Bool) (c : Call) (cost : Nat) : FaultSim (checkCreateBurnAdd p c cost) := by
  unfold checkCreateBurnAdd; fs
macro_rules | `(tactic| fs_spec) => `(tactic| exact fs_checkCreateBurnAdd _ _ _)
theorem fs_addNFTToDestination (env : Env) (d : Bytes) (t : Token) (k : Bytes) (v r : Bool) :
    FaultSim (addNFTToDestination env d t k v r) := by unfold addNFTToDestination; fs
macro_rules | `(tactic| fs_spec) => `(tactic| exact fs_addNFTToDestination _ _ _ _ _ _)
theorem fs_transferOne (env : Env) (c : Call) (l : Bool) (d t : Bytes) (n q : Nat) (v : Bool) :
    FaultSim (transferOne env c l d t n q v) := by unfold transferOne; fs
macro_rules | `(tactic| fs_spec) => `(tactic| exact fs_transferOne _ _ _ _ _ _ _ _)

theorem fs_multiSenderLoop (env : Env) (c : Call) (l : Bool) (d : Bytes) (v : Bool) :
    ∀ n idx, FaultSim (multiSenderLoop env c l d v n idx) := by
  intro n
  induction n with
  | zero => intro idx; unfold multiSenderLoop; fs
  | succ n ih => intro idx; unfold multiSenderLoop; fs; exact ih _
macro_rules | `(tactic| fs_spec) => `(tactic| exact fs_multiSenderLoop _ _ _ _ _ _ _)

theorem fs_multiDestLoop (env : Env) (c : Call) (m : Nat) : ∀ n idx, FaultSim (multiDestLoop env c m n idx) := by
  intro n
  induction n with
  | zero => intro idx; unfold multiDestLoop; fs
  | succ n ih => intro idx; unfold multiDestLoop; fs <;> exact ih _
macro_rules | `(tactic| fs_spec) => `(tactic| exact fs_multiDestLoop _ _ _ _ _)

theorem fs_multiPayloadLoop (env : Env) : ∀ toks g, FaultSim (multiPayloadLoop env toks g) := by
  intro toks
  induction toks with
  | nil => intro g; unfold multiPayloadLoop; fs
  | cons p rest ih =>
    intro g; obtain ⟨tokenID, t⟩ := p
    unfold multiPayloadLoop; fs <;> exact ih _
macro_rules | `(tactic| fs_spec) => `(tactic| exact fs_multiPayloadLoop _ _ _)

theorem fs_skvLoop (env : Env) (c : Call) : ∀ (n : Nat) (l : List Bytes) (g : Nat), l.length ≤ n → FaultSim (skvLoop env c l g) := by
  intro n
  induction n with
  | zero =>
    intro l g hl
    have : l = [] := List.eq_nil_of_length_eq_zero (by omega)
    subst this; unfold skvLoop; fs
  | succ n ih =>
    intro l g hl
    match l, hl with
    | [], _ => unfold skvLoop; fs
    | [_], _ => unfold skvLoop; fs
    | k :: v :: rest, hl =>
      unfold skvLoop; fs <;> exact ih _ _ (by simp at hl; omega)

/-! ### the 23 functions -/

theorem fs_esdtTransfer (env : Env) (c : Call) : FaultSim (esdtTransfer env c) := by unfold esdtTransfer; fs
theorem fs_esdtLocalMint (env : Env) (c : Call) : FaultSim (esdtLocalMint env c) := by unfold esdtLocalMint; fs
theorem fs_esdtLocalBurn (env : Env) (c : Call) : FaultSim (esdtLocalBurn env c) := by unfold esdtLocalBurn; fs
theorem fs_esdtBurn (env : Env) (c : Call) : FaultSim (esdtBurn env c) := by unfold esdtBurn; fs
theorem fs_esdtNFTCreate (env : Env) (c : Call) : FaultSim (esdtNFTCreate env c) := by unfold esdtNFTCreate; fs
theorem fs_esdtNFTAddQuantity (env : Env) (c : Call) : FaultSim (esdtNFTAddQuantity env c) := by unfold esdtNFTAddQuantity; fs
theorem fs_esdtNFTBurn (env : Env) (c : Call) : FaultSim (esdtNFTBurn env c) := by unfold esdtNFTBurn; fs
theorem fs_esdtNFTAddURI (env : Env) (c : Call) : FaultSim (esdtNFTAddURI env c) := by unfold esdtNFTAddURI; fs
theorem fs_esdtNFTUpdateAttributes (env : Env) (c : Call) : FaultSim (esdtNFTUpdateAttributes env c) := by
  unfold esdtNFTUpdateAttributes; fs
theorem fs_esdtFreezeWipe (k : FreezeKind) (env : Env) (c : Call) : FaultSim (esdtFreezeWipe k env c) := by
  unfold esdtFreezeWipe; fs
theorem fs_esdtPause (p : Bool) (env : Env) (c : Call) : FaultSim (esdtPause p env c) := by unfold esdtPause; fs
theorem fs_esdtRoles (s : Bool) (env : Env) (c : Call) : FaultSim (esdtRoles s env c) := by unfold esdtRoles; fs
theorem fs_esdtNFTCreateRoleTransfer (env : Env) (c : Call) : FaultSim (esdtNFTCreateRoleTransfer env c) := by
  unfold esdtNFTCreateRoleTransfer; fs
theorem fs_saveKeyValue (env : Env) (c : Call) : FaultSim (saveKeyValue env c) := by
  unfold saveKeyValue; fs; exact fs_skvLoop env c _ _ _ (Nat.le_refl _)
theorem fs_changeOwnerAddress (env : Env) (c : Call) : FaultSim (changeOwnerAddress env c) := by
  unfold changeOwnerAddress; fs
theorem fs_claimDeveloperRewards (env : Env) (c : Call) : FaultSim (claimDeveloperRewards env c) := by
  unfold claimDeveloperRewards; fs
theorem fs_setUserName (env : Env) (c : Call) : FaultSim (setUserName env c) := by unfold setUserName; fs
theorem fs_esdtNFTTransferSender (env : Env) (c : Call) : FaultSim (esdtNFTTransferSender env c) := by
  unfold esdtNFTTransferSender; fs
theorem fs_esdtNFTTransfer (env : Env) (c : Call) : FaultSim (esdtNFTTransfer env c) := by
  unfold esdtNFTTransfer; fs; exact fs_esdtNFTTransferSender env c
theorem fs_multiTransferSender (env : Env) (c : Call) : FaultSim (multiTransferSender env c) := by
  unfold multiTransferSender; fs
theorem fs_multiTransfer (env : Env) (c : Call) : FaultSim (multiTransfer env c) := by
  unfold multiTransfer; fs; exact fs_multiTransferSender env c

theorem fs_runFn (f : FnId) (env : Env) (c : Call) : FaultSim (runFn f env c) := by
  cases f <;> simp only [runFn]
  · exact fs_claimDeveloperRewards env c
  · exact fs_changeOwnerAddress env c
  · exact fs_setUserName env c
  · exact fs_saveKeyValue env c
  · exact fs_esdtPause true env c
  · exact fs_esdtPause false env c
  · exact fs_esdtTransfer env c
  · exact fs_esdtBurn env c
  · exact fs_esdtFreezeWipe .freeze env c
  · exact fs_esdtFreezeWipe .unfreeze env c
  · exact fs_esdtFreezeWipe .wipe env c
  · exact fs_esdtRoles false env c
  · exact fs_esdtRoles true env c
  · exact fs_esdtLocalBurn env c
  · exact fs_esdtLocalMint env c
  · exact fs_esdtNFTAddQuantity env c
  · exact fs_esdtNFTBurn env c
  · exact fs_esdtNFTCreate env c
  · exact fs_esdtNFTTransfer env c
  · exact fs_esdtNFTCreateRoleTransfer env c
  · exact fs_esdtNFTUpdateAttributes env c
  · exact fs_esdtNFTAddURI env c
  · exact fs_multiTransfer env c

end Esdt
