/-
  Proofs/Parsers.lean — totality of the tx-data parsers, deploy / storage-update round trips.
-/
import Proofs.Hex
namespace Esdt

/-! ### no parser panics -/

theorem parseCall_no_panic (d : Bytes) : parseCall d ≠ .panic := by
  unfold parseCall
  split
  · simp
  · simp
  · split <;> simp

theorem parseDeploy_no_panic (d : Bytes) : parseDeploy d ≠ .panic := by
  unfold parseDeploy
  repeat (first | split | simp)

theorem parseStorage_no_panic (d : Bytes) : parseStorage d ≠ .panic := by
  unfold parseStorage
  repeat (first | split | simp)

theorem pArg_ok (args : List Bytes) (i : Nat) (h : i < args.length) : pArg args i = .ok args[i] := by
  simp [pArg, h]

theorem PRes_bind_ne_panic {α β} (r : PRes α) (f : α → PRes β)
    (h1 : r ≠ .panic) (h2 : ∀ a, r = .ok a → f a ≠ .panic) : (r >>= f) ≠ .panic := by
  show PRes.bind r f ≠ .panic
  cases r with
  | ok a => exact h2 a rfl
  | err e => simp [PRes.bind]
  | panic => exact absurd rfl h1

theorem parseMultiLoop_no_panic (args : List Bytes) (atSender : Bool) :
    ∀ (n idx : Nat), idx + 3 * n ≤ args.length → parseMultiLoop args atSender n idx ≠ .panic := by
  intro n
  induction n with
  | zero => intro idx _; simp [parseMultiLoop]
  | succ n ih =>
    intro idx h
    unfold parseMultiLoop
    rw [pArg_ok args idx (by omega)]
    apply PRes_bind_ne_panic
    · simp
    · intro tok _
      rw [pArg_ok args (idx + 1) (by omega)]
      apply PRes_bind_ne_panic
      · simp
      · intro a1 _
        rw [pArg_ok args (idx + 2) (by omega)]
        apply PRes_bind_ne_panic
        · simp
        · intro a2 _
          apply PRes_bind_ne_panic
          · -- the transfer record
            unfold parseOneTransfer
            repeat (first | split | simp)
          · intro tr _
            apply PRes_bind_ne_panic
            · exact ih (idx + 3) (by omega)
            · intro rest _; simp [pure]

theorem multi_tail_no_panic (args : List Bytes) (atSender : Bool) (num start : Nat) (rcv : Bytes)
    (hlen : args.length < two63) (hs : start ≤ 2) :
    (if num > args.length / 3 then PRes.err ParseErr.NotEnoughArguments else
      if args.length < u64 (u64 (3 * num) + start) then PRes.err ParseErr.NotEnoughArguments else do
        let trs ← parseMultiLoop args atSender num start
        pure ({ transfers := trs, rcv := rcv, callFn := (args[u64 (u64 (3 * num) + start)]?).getD [],
                callArgs := args.drop (u64 (u64 (3 * num) + start) + 1) } : ParsedTransfers)) ≠ .panic := by
  split
  · simp
  · rename_i hnum
    have h3 : 3 * num ≤ args.length := by
      have := Nat.div_mul_le_self args.length 3
      omega
    have hu1 : u64 (3 * num) = 3 * num := by
      unfold u64; apply Nat.mod_eq_of_lt; unfold two63 at hlen; omega
    have hu2 : u64 (3 * num + start) = 3 * num + start := by
      unfold u64; apply Nat.mod_eq_of_lt; unfold two63 at hlen; omega
    rw [hu1, hu2]
    split
    · simp
    · rename_i hmin
      apply PRes_bind_ne_panic
      · exact parseMultiLoop_no_panic args atSender num start (by omega)
      · intro trs _; simp [pure]

/-- C12: the ESDT-transfer parser returns a result or an error for every input (no index out of
    range, no allocation from an argument-supplied count beyond the argument list). -/
theorem parseESDTTransfers_no_panic (snd rcv fn : Bytes) (args : List Bytes) (hlen : args.length < two63) :
    parseESDTTransfers snd rcv fn args ≠ .panic := by
  unfold parseESDTTransfers
  split
  · split
    · simp
    · rename_i h
      rw [pArg_ok args 0 (by omega), pArg_ok args 1 (by omega)]
      simp [bind, PRes.bind, pure]
  · split
    · split
      · simp
      · rename_i h
        rw [pArg_ok args 0 (by omega), pArg_ok args 1 (by omega), pArg_ok args 2 (by omega), pArg_ok args 3 (by omega)]
        simp [bind, PRes.bind, pure]
    · split
      · split
        · simp
        · rename_i h
          rw [pArg_ok args 0 (by omega), pArg_ok args 1 (by omega)]
          show PRes.bind (PRes.ok args[0]) _ ≠ _
          simp only [PRes.bind]
          by_cases hsr : snd = rcv
          · simp only [hsr, if_true, decide_true]
            exact multi_tail_no_panic args true _ 2 _ hlen (by omega)
          · simp only [hsr, if_false, decide_false]
            exact multi_tail_no_panic args false _ 1 _ hlen (by omega)
      · simp

/-! ### deploy data round trip -/

theorem hexEncode_eq_nil (b : Bytes) : hexEncode b = [] ↔ b = [] := by
  cases b <;> simp [hexEncode]

theorem codeMetadata_roundtrip : ∀ (u p r : Bool),
    codeMetadataFromBytes (CodeMetadata.toBytes { payable := p, upgradeable := u, readable := r }) =
      { payable := p, upgradeable := u, readable := r } := by decide

/-- C12: deploy data survives the encode/parse round trip (code and VM type non-empty). -/
theorem parseDeploy_buildDeploy (d : DeployArgs) (hc : d.code ≠ []) (hv : d.vmType ≠ []) :
    parseDeploy (buildDeploy d) = .ok d := by
  have e : buildDeploy d = hexEncode d.code ++ argsTail (d.vmType :: d.codeMeta.toBytes :: d.args) := by
    simp [buildDeploy, argsTail]
  have h := splitAt_tokens (hexEncode d.code) (at_not_mem_hexEncode _) (d.vmType :: d.codeMeta.toBytes :: d.args)
  have hne : hexEncode d.code ≠ [] := fun h => hc ((hexEncode_eq_nil _).mp h)
  have hvne : hexEncode d.vmType ≠ [] := fun h => hv ((hexEncode_eq_nil _).mp h)
  obtain ⟨code, vm, cm, args⟩ := d
  obtain ⟨p, u, r⟩ := cm
  simp only [parseDeploy, tokenize, e, h, List.map_cons]
  simp [hne, hvne, decodeAll_map_hexEncode, codeMetadata_roundtrip]

/-! ### storage-update round trip -/

def flatPairs : List (Bytes × Bytes) → List Bytes
  | [] => []
  | (o, d) :: rest => o :: d :: flatPairs rest

theorem buildStorage_cons (o d : Bytes) (rest : List (Bytes × Bytes)) :
    buildStorage ((o, d) :: rest) = hexEncode o ++ argsTail (d :: flatPairs rest) := by
  induction rest generalizing o d with
  | nil => simp [buildStorage, argsTail, flatPairs]
  | cons p rest ih =>
    obtain ⟨o2, d2⟩ := p
    simp only [buildStorage, ih o2 d2, flatPairs, argsTail]
    simp

theorem pairsOf_flat (ps : List (Bytes × Bytes)) : pairsOf ((flatPairs ps).map hexEncode) = some ps := by
  induction ps with
  | nil => rfl
  | cons p rest ih =>
    obtain ⟨o, d⟩ := p
    simp [flatPairs, pairsOf, ih]

theorem flatPairs_length (ps : List (Bytes × Bytes)) : (flatPairs ps).length = 2 * ps.length := by
  induction ps with
  | nil => rfl
  | cons p rest ih => obtain ⟨o, d⟩ := p; simp [flatPairs, ih]; omega

/-- C12: a storage-update list survives the encode/parse round trip when it is non-empty and its
    first offset is non-empty. -/
theorem parseStorage_buildStorage (o d : Bytes) (rest : List (Bytes × Bytes)) (ho : o ≠ []) :
    parseStorage (buildStorage ((o, d) :: rest)) = .ok ((o, d) :: rest) := by
  rw [buildStorage_cons]
  have hne : hexEncode o ≠ [] := fun h => ho ((hexEncode_eq_nil _).mp h)
  have htok := splitAt_tokens (hexEncode o) (at_not_mem_hexEncode _) (d :: flatPairs rest)
  -- no leading separator to trim
  have hhead : ∀ c tl, hexEncode o ++ argsTail (d :: flatPairs rest) = c :: tl → c ≠ at' := by
    intro c tl he hc
    have : c ∈ hexEncode o := by
      cases hh : hexEncode o with
      | nil => exact absurd hh hne
      | cons x xs => rw [hh] at he; simp at he; simp [he.1]
    exact at_not_mem_hexEncode o (hc ▸ this)
  unfold parseStorage
  cases hdata : hexEncode o ++ argsTail (d :: flatPairs rest) with
  | nil => simp [hne] at hdata
  | cons c tl =>
    have hc := hhead c tl hdata
    simp only [hc, if_false]
    rw [← hdata]
    simp only [tokenize, htok, hne, if_false]
    have hl : (hexEncode o :: List.map hexEncode (d :: flatPairs rest)).length % 2 = 0 := by
      simp [flatPairs_length]; omega
    simp only [hl]
    have := pairsOf_flat ((o, d) :: rest)
    simp only [flatPairs, List.map_cons] at this
    simp [this]

/-- the two inputs outside that domain are rejected rather than mis-parsed -/
theorem parseStorage_buildStorage_nil : parseStorage (buildStorage []) = .err .TokenizeFailed := by
  simp [buildStorage, parseStorage, tokenize, splitAt]

end Esdt
