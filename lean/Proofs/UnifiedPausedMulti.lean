/-
  Proofs/UnifiedPausedMulti.lean — C04, pause half: MultiESDTNFTTransfer (both halves, any number of items, repeated and
  mixed items) cannot change an entry of a paused token; the mixed-world history theorem extended by the multi-transfer
  steps — with it the pause half covers all 23 functions.
-/
import Proofs.UnifiedPausedNFT
namespace Esdt

variable {tok : Bytes} {f : Bytes → Nat → Bytes}

/-- every argument of the call that could serve as a token identifier is `tok` itself or does not alias it -/
def NoAliasArgs (tok : Bytes) (c : Call) : Prop := ∀ t0 ∈ c.args, NoAliasTok tok t0

theorem pa_transferOne (env : Env) (c : Call) (hrae : c.rae = false) (l : Bool) (dst tokenID : Bytes) (n q : Nat)
    (v : Bool) (hna : NoAliasTok tok tokenID) : Pres (Pz tok f) (transferOne env c l dst tokenID n q v) := by
  unfold transferOne
  simp only [hrae]
  pz
  all_goals first
    | exact pa_saveNFT _ _ _ hna
    | exact pa_addNFT _ _ _ _ _ hna

theorem pa_multiSenderLoop (env : Env) (c : Call) (hrae : c.rae = false) (hna : NoAliasArgs tok c) (l : Bool)
    (dst : Bytes) (v : Bool) : ∀ n idx, Pres (Pz tok f) (multiSenderLoop env c l dst v n idx) := by
  intro n
  induction n with
  | zero => intro idx; unfold multiSenderLoop; pz
  | succ n ih =>
    intro idx
    unfold multiSenderLoop
    apply Pres.argAt_bind
    intro tokenID h0
    have hn := hna tokenID (List.mem_of_getElem? h0)
    pz
    all_goals first
      | exact ih _
      | exact pa_transferOne env c hrae _ _ _ _ _ _ hn

theorem pa_multiDestLoop (env : Env) (c : Call) (hrae : c.rae = false) (hna : NoAliasArgs tok c) (m : Nat) :
    ∀ n idx, Pres (Pz tok f) (multiDestLoop env c m n idx) := by
  intro n
  induction n with
  | zero => intro idx; unfold multiDestLoop; pz
  | succ n ih =>
    intro idx
    unfold multiDestLoop
    simp only [hrae]
    apply Pres.argAt_bind
    intro tokenID h0
    have hn := hna tokenID (List.mem_of_getElem? h0)
    pz
    all_goals first
      | exact ih _
      | exact pa_addNFT _ _ _ _ _ hn
      | exact pa_addTo _ _ _ hn

/-- the destination loop of a flagged refund whose items all name OTHER tokens -/
theorem pa_multiDestLoop_other (env : Env) (c : Call) (hoth : ∀ t0 ∈ c.args, t0 ≠ tok ∧ NoAliasTok tok t0) (m : Nat) :
    ∀ n idx, Pres (Pz tok f) (multiDestLoop env c m n idx) := by
  intro n
  induction n with
  | zero => intro idx; unfold multiDestLoop; pz
  | succ n ih =>
    intro idx
    unfold multiDestLoop
    apply Pres.argAt_bind
    intro tokenID h0
    have hn := hoth tokenID (List.mem_of_getElem? h0)
    pz
    all_goals first
      | exact ih _
      | exact pa_addNFT_other _ _ _ _ _ _ hn.1 hn.2
      | exact pa_addTo_other _ _ _ _ hn.1 hn.2

theorem pa_multiTransferSender (env : Env) (c : Call) (hrae : c.rae = false) (hna : NoAliasArgs tok c) :
    Pres (Pz tok f) (multiTransferSender env c) := by
  unfold multiTransferSender
  pz
  all_goals first
    | exact pa_multiSenderLoop env c hrae hna _ _ _ _ _
    | exact Pres.of_ro (ro_multiPayloadLoop env _ _)

theorem pa_multiTransfer (env : Env) (c : Call) (hrae : c.rae = false) (hna : NoAliasArgs tok c) :
    Pres (Pz tok f) (multiTransfer env c) := by
  unfold multiTransfer
  pz
  all_goals first
    | exact pa_multiTransferSender env c hrae hna
    | exact pa_multiDestLoop env c hrae hna _ _ _

theorem pa_multiTransfer_other (env : Env) (c : Call) (hne : c.caller ≠ c.rcv)
    (hoth : ∀ t0 ∈ c.args, t0 ≠ tok ∧ NoAliasTok tok t0) : Pres (Pz tok f) (multiTransfer env c) := by
  unfold multiTransfer
  refine Pres.bind (Pres.of_ro (ro_checkBasic _)) (fun _ => ?_)
  refine Pres.bind (Pres.of_ro (RO.guardE _ _)) (fun _ => ?_)
  rw [if_neg hne]
  pz
  all_goals exact pa_multiDestLoop_other env c hoth _ _ _

/-! ### the world: all three kinds of transfer traffic mixed with the 20 other functions — all 23 functions -/

/-- what is assumed of a step for the paused token, every kind of step included -/
def UPzStepOK3 (tok : Bytes) (w : UWorld) : UStep → Prop
  | .multi (.user c) => c.rae = false ∧ NoAliasArgs tok c
  | .multi (.deliver j) => ∀ m, w.multi[j]? = some m → ∀ t0 ∈ m.args, NoAliasTok tok t0
  | .multi (.refund j) => ∀ m, w.multi[j]? = some m → m.rcv ≠ m.caller ∧ ∀ t0 ∈ m.args, t0 ≠ tok ∧ NoAliasTok tok t0
  | st => UPzStepOK2 tok w st

theorem ustep_pz3 (e : Env) (w : UWorld) (st : UStep) (i : Nat) (hok : UStepOK e w st)
    (hpz : UPzStepOK3 tok w st) (hF : PzW tok f i w) : PzW tok f i (ustep e w st) := by
  cases st with
  | ft s => exact ustep_pz2 e w (.ft s) i hok hpz hF
  | nft s => exact ustep_pz2 e w (.nft s) i hok hpz hF
  | call s fn c => exact ustep_pz2 e w (.call s fn c) i hok hpz hF
  | multi st =>
    obtain ⟨A, hA, hf⟩ := hF
    have hrun : ∀ {s : Nat} {c : Call} {out : VMOutput} {A1 : Accts}, runMulti e w.toM.shards s c = some (out, A1) →
        (∀ env, Pres (Pz tok f) (multiTransfer env c)) → ∃ A', (w.shards.set s A1)[i]? = some A' ∧ Pz tok f A' := by
      intro s c out A1 hr hp
      obtain ⟨A0, ctx', hA0, hex, hA1⟩ := runMulti_some hr
      apply getElem?_set_pres hA hf
      intro A0' hA0' hs
      subst hs
      have : A0 = A := by
        have h1 : w.shards[s]? = some A0 := hA0
        rw [hA] at h1; cases h1; rfl
      subst this
      rw [← hA1]
      exact (hp _ { accts := A0 } hf).elim hex
    simp only [ustep]
    show ∃ A', (multiStep e w.toM st).shards[i]? = some A' ∧ Pz tok f A'
    have keep : ∃ A', w.toM.shards[i]? = some A' ∧ Pz tok f A' := ⟨A, hA, hf⟩
    cases st with
    | user c =>
      obtain ⟨hrae, hna⟩ : c.rae = false ∧ NoAliasArgs tok c := hpz
      simp only [multiStep]
      cases hr : runMulti e w.toM.shards (shardOf e.nshards c.caller) c with
      | none => exact keep
      | some p =>
        obtain ⟨out, A1⟩ := p
        simp only []
        have := hrun hr (fun env => pa_multiTransfer env c hrae hna)
        split
        · split <;> exact this
        · exact this
    | deliver j =>
      simp only [multiStep]
      cases hm : w.toM.inflight[j]? with
      | none => exact keep
      | some m =>
        simp only []
        split
        · exact keep
        · cases hr : runMulti e w.toM.shards (shardOf e.nshards m.rcv) (mDeliveryCall m) with
          | none => exact keep
          | some p =>
            obtain ⟨out, A1⟩ := p
            exact hrun hr (fun env => pa_multiTransfer env (mDeliveryCall m) rfl (hpz m hm))
    | refund j =>
      simp only [multiStep]
      cases hm : w.toM.inflight[j]? with
      | none => exact keep
      | some m =>
        simp only []
        split
        · exact keep
        · cases hr : runMulti e w.toM.shards (shardOf e.nshards m.caller) (mRefundCall m) with
          | none => exact keep
          | some p =>
            obtain ⟨out, A1⟩ := p
            obtain ⟨h1, h2⟩ := hpz m hm
            exact hrun hr (fun env => pa_multiTransfer_other env (mRefundCall m) h1 h2)

def UPzStepsOK3 (e : Env) (tok : Bytes) : List UStep → UWorld → Prop
  | [], _ => True
  | st :: rest, w => UPzStepOK3 tok w st ∧ UPzStepsOK3 e tok rest (ustep e w st)

/-- FULL over histories of ALL 23 functions: the three kinds of transfer traffic mixed with the 20 other functions -/
theorem unified_pz_history3 (e : Env) (i : Nat) :
    ∀ (steps : List UStep) (w : UWorld), UInv e w → UStepsOK e steps w → UPzStepsOK3 e tok steps w →
      PzW tok f i w → PzW tok f i (urun e steps w).1 := by
  intro steps
  induction steps with
  | nil => intro w _ _ _ hF; exact hF
  | cons st rest ih =>
    intro w hI hok hpz hF
    obtain ⟨h1, hrest⟩ := hok
    obtain ⟨f1, frest⟩ := hpz
    have hI1 := (ustep_ledger e w st hI h1).2
    have hF1 := ustep_pz3 e w st i h1 f1 hF
    simp only [urun]
    exact ih (ustep e w st) hI1 hrest frest hF1

end Esdt
