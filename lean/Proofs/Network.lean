/-
  Proofs/Network.lean — a world of shards with in-flight cross-shard messages (Appendix C: delivery, failed delivery ⇒
  refund message, refund flagged return-after-error, failed calls rolled back), for the fungible transfer function.
  The per-key supply  Σ_shards Σ_accounts balance + Σ_in-flight amount  is invariant under every history.
-/
import Proofs.WF
import Proofs.Short
namespace Esdt

/-! ### sums over an account list -/

/-- decoded balance under storage key `k`, summed over the accounts of one shard -/
def balAt (A : Accts) (k : Bytes) : Int := (A.map fun p => balOf (p.2.store.get k)).sum

def Accts.Nodup (A : Accts) : Prop := (A.map (·.1)).Nodup

theorem Accts.get_of_not_mem (A : Accts) (a : Bytes) (h : a ∉ A.map (·.1)) : A.get a = {} := by
  induction A with
  | nil => rfl
  | cons p rest ih =>
    obtain ⟨a', x⟩ := p
    simp only [List.map_cons, List.mem_cons, not_or] at h
    simp only [Accts.get]
    rw [if_neg (fun e => h.1 e.symm)]
    exact ih h.2

theorem filter_ne_of_not_mem (A : Accts) (a : Bytes) (h : a ∉ A.map (·.1)) : A.filter (fun p => p.1 ≠ a) = A := by
  induction A with
  | nil => rfl
  | cons p rest ih =>
    obtain ⟨a', x⟩ := p
    simp only [List.map_cons, List.mem_cons, not_or] at h
    simp only [List.filter]
    have : decide (a' ≠ a) = true := by simpa using fun e => h.1 e.symm
    rw [this, ih h.2]

/-- splitting off one account -/
theorem balAt_split (A : Accts) (hn : A.Nodup) (a k : Bytes) :
    balAt A k = balOf ((A.get a).store.get k) + balAt (A.filter (fun p => p.1 ≠ a)) k := by
  induction A with
  | nil => simp [balAt, Accts.get, Store.get, balOf_nil]
  | cons p rest ih =>
    obtain ⟨a', x⟩ := p
    have hn' : Accts.Nodup rest := (List.nodup_cons.mp hn).2
    have hnot : a' ∉ rest.map (·.1) := (List.nodup_cons.mp hn).1
    by_cases he : a' = a
    · subst he
      simp only [Accts.get, if_true, List.filter]
      have : decide (a' ≠ a') = false := by simp
      rw [this, filter_ne_of_not_mem rest a' hnot]
      simp [balAt]
    · simp only [Accts.get, if_neg he, List.filter]
      have : decide (a' ≠ a) = true := by simpa using he
      rw [this]
      have := ih hn'
      simp only [balAt, List.map_cons, List.sum_cons] at this ⊢
      omega

theorem Accts.set_nodup (A : Accts) (hn : A.Nodup) (a : Bytes) (x : Acct) : (A.set a x).Nodup := by
  unfold Accts.Nodup Accts.set
  simp only [List.map_cons]
  refine List.nodup_cons.mpr ⟨?_, ?_⟩
  · intro hm
    obtain ⟨p, hp, he⟩ := List.mem_map.mp hm
    have := (List.mem_filter.mp hp).2
    simp at this
    exact this he
  · exact List.Nodup.sublist (List.Sublist.map _ List.filter_sublist) hn

theorem Accts.write_nodup (A : Accts) (hn : A.Nodup) (a k v : Bytes) : (A.write a k v).Nodup :=
  Accts.set_nodup A hn a _

/-- one storage write moves the shard's sum under `k2` by the change of the written slot (if it is under `k2`) -/
theorem balAt_write (A : Accts) (hn : A.Nodup) (a k v k2 : Bytes) :
    balAt (A.write a k v) k2 = balAt A k2 + (if k = k2 then balOf v - balOf (A.read a k) else 0) := by
  have h1 := balAt_split A hn a k2
  have h2 := balAt_split (A.write a k v) (Accts.write_nodup A hn a k v) a k2
  have hf : (A.write a k v).filter (fun p => p.1 ≠ a) = A.filter (fun p => p.1 ≠ a) := by
    unfold Accts.write Accts.set
    simp only [List.filter]
    have : decide (a ≠ a) = false := by simp
    rw [this]
    rw [List.filter_filter]
    simp
  rw [hf] at h2
  have hr : ((A.write a k v).get a).store.get k2 = if k = k2 then v else (A.get a).store.get k2 := by
    have := Accts.read_write A a k v a k2
    simp only [Accts.read, true_and] at this
    exact this
  rw [hr] at h2
  split
  · rename_i he; subst he
    simp only [if_true] at h2
    simp only [Accts.read]
    omega
  · rename_i he
    rw [if_neg he] at h2
    omega

end Esdt

namespace Esdt

theorem balOf_old {A : Accts} {a k : Bytes} {t : Token} {v : Int} (hold : tokenOf (A.read a k) = some t)
    (hv : t.value = some v) : balOf (A.read a k) = v := by
  simp [balOf, hold, hv]

/-- reading back the slot a ledger helper rewrote: the balance moved by exactly `d` (the written value is shorter than
    2^63 bytes, so the production decoder inverts the encoder on it) -/
theorem OneWrite.delta {A A' : Accts} {a k : Bytes} {t : Token} {v d : Int} (h : OneWrite A A' a k t v d)
    (hlen : (A'.read a k).length < two63) : balOf (A'.read a k) = balOf (A.read a k) + d := by
  rw [balOf_old h.old h.value]
  have hr : A'.read a k = storedForm { t with value := some (v + d) } := by
    rw [h.written, Accts.read_write, if_pos ⟨rfl, rfl⟩]
  rw [hr] at hlen ⊢
  unfold storedForm at hlen ⊢
  split
  · rename_i hz
    rw [balOf_nil]
    have := hz.1
    simp at this
    omega
  · rename_i hz
    rw [if_neg hz] at hlen
    have hn : NumOK { t with value := some (v + d) } := (tokenOf_num h.old).withValue _
    have := roundtrip_of_length _ hn hlen
    simp [balOf, tokenOf, encToken_ne_nil, this]

/-- … and the shard's per-key sum moves by `d` under the written key, by nothing under any other key -/
theorem OneWrite.balAt {A A' : Accts} {a k : Bytes} {t : Token} {v d : Int} (h : OneWrite A A' a k t v d)
    (hn : A.Nodup) (hlen : (A'.read a k).length < two63) (k2 : Bytes) :
    Esdt.balAt A' k2 = Esdt.balAt A k2 + (if k = k2 then d else 0) := by
  have hd := h.delta hlen
  have hr : A'.read a k = storedForm { t with value := some (v + d) } := by
    rw [h.written, Accts.read_write, if_pos ⟨rfl, rfl⟩]
  rw [h.written, balAt_write A hn]
  split
  · rw [← hr, hd]; omega
  · rfl

theorem OneWrite.nodup {A A' : Accts} {a k : Bytes} {t : Token} {v d : Int} (h : OneWrite A A' a k t v d)
    (hn : A.Nodup) : A'.Nodup := by rw [h.written]; exact Accts.write_nodup A hn _ _ _

/-! ### the world -/

structure Msg where
  caller : Bytes
  rcv : Bytes
  tok : Bytes
  amt : Bytes
  refund : Bool        -- travelling back to `caller` after a failed delivery
deriving DecidableEq

structure NWorld where
  shards : List Accts  -- index = shard id
  inflight : List Msg

def Msg.key (m : Msg) : Bytes := esdtKeyPrefix ++ m.tok

/-- amount in flight under storage key `k` -/
def flightAt (ms : List Msg) (k : Bytes) : Int :=
  (ms.map fun m => if m.key = k then (beNat m.amt : Int) else 0).sum

/-- the per-key supply of the world -/
def supply (w : NWorld) (k : Bytes) : Int := (w.shards.map (balAt · k)).sum + flightAt w.inflight k

def deliveryCall (m : Msg) : Call :=
  { fn := fnESDTTransfer, caller := m.caller, rcv := m.rcv, args := [m.tok, m.amt] }

def refundCall (m : Msg) : Call :=
  { fn := fnESDTTransfer, caller := m.rcv, rcv := m.caller, args := [m.tok, m.amt], callType := 2, rae := true }

inductive NStep
  | user (c : Call)        -- a transaction: executed on the sender's shard
  | deliver (i : Nat)      -- the i-th in-flight message reaches its destination shard
  | refund (i : Nat)       -- the i-th in-flight message (a refund) reaches the origin shard

/-- run the transfer on shard `s`; failed calls are rolled back (`none`) -/
def runOn (e : Env) (w : NWorld) (s : Nat) (c : Call) : Option Accts :=
  match w.shards[s]? with
  | none => none
  | some A =>
    match esdtTransfer { e with self := s } c { accts := A } with
    | .ok (_, ctx') => some ctx'.accts
    | _ => none

def nstep (e : Env) (w : NWorld) : NStep → NWorld
  | .user c =>
    let s := shardOf e.nshards c.caller
    match runOn e w s c with
    | none => w
    | some A' =>
      let w' : NWorld := { w with shards := w.shards.set s A' }
      if present e.nshards s c.rcv then w'
      else match c.args with
        | tok :: amt :: _ =>
          { w' with inflight := w'.inflight ++ [{ caller := c.caller, rcv := c.rcv, tok := tok, amt := amt, refund := false }] }
        | _ => w'
  | .deliver i =>
    match w.inflight[i]? with
    | none => w
    | some m =>
      if m.refund then w else
      match runOn e w (shardOf e.nshards m.rcv) (deliveryCall m) with
      | some A' => { shards := w.shards.set (shardOf e.nshards m.rcv) A', inflight := w.inflight.eraseIdx i }
      | none => { w with inflight := w.inflight.set i { m with refund := true } }
  | .refund i =>
    match w.inflight[i]? with
    | none => w
    | some m =>
      if !m.refund then w else
      match runOn e w (shardOf e.nshards m.caller) (refundCall m) with
      | some A' => { shards := w.shards.set (shardOf e.nshards m.caller) A', inflight := w.inflight.eraseIdx i }
      | none => w

def nrun (e : Env) : List NStep → NWorld → NWorld
  | [], w => w
  | s :: rest, w => nrun e rest (nstep e w s)

end Esdt

namespace Esdt

/-! ### list bookkeeping -/

theorem sum_map_set {α : Type} (f : α → Int) : ∀ (l : List α) (s : Nat) (x x' : α), l[s]? = some x →
    ((l.set s x').map f).sum = (l.map f).sum - f x + f x' := by
  intro l
  induction l with
  | nil => intro s x x' h; simp at h
  | cons y ys ih =>
    intro s x x' h
    cases s with
    | zero => simp at h; subst h; simp; omega
    | succ s =>
      simp at h
      have := ih s x x' h
      simp only [List.set_cons_succ, List.map_cons, List.sum_cons]
      omega

theorem mem_set_of {α : Type} (l : List α) (s : Nat) (x' : α) (P : α → Prop) (h : ∀ y ∈ l, P y) (hx : P x') :
    ∀ y ∈ l.set s x', P y := by
  intro y hy
  rcases List.mem_or_eq_of_mem_set hy with h1 | h1
  · exact h y h1
  · rw [h1]; exact hx

def Msg.contrib (m : Msg) (k : Bytes) : Int := if m.key = k then (beNat m.amt : Int) else 0

theorem flightAt_eq (ms : List Msg) (k : Bytes) : flightAt ms k = (ms.map (·.contrib k)).sum := rfl

theorem flightAt_append (ms : List Msg) (m : Msg) (k : Bytes) : flightAt (ms ++ [m]) k = flightAt ms k + m.contrib k := by
  simp [flightAt_eq]

theorem flightAt_eraseIdx : ∀ (ms : List Msg) (i : Nat) (m : Msg) (k : Bytes), ms[i]? = some m →
    flightAt (ms.eraseIdx i) k = flightAt ms k - m.contrib k := by
  intro ms
  induction ms with
  | nil => intro i m k h; simp at h
  | cons y ys ih =>
    intro i m k h
    cases i with
    | zero => simp at h; subst h; simp [flightAt_eq]; omega
    | succ i =>
      simp at h
      have := ih i m k h
      simp only [flightAt_eq, List.eraseIdx_cons_succ, List.map_cons, List.sum_cons] at this ⊢
      omega

theorem flightAt_set (ms : List Msg) (i : Nat) (m m' : Msg) (k : Bytes) (h : ms[i]? = some m) :
    flightAt (ms.set i m') k = flightAt ms k - m.contrib k + m'.contrib k := by
  rw [flightAt_eq, flightAt_eq]
  exact sum_map_set (·.contrib k) ms i m m' h

/-! ### the invariant -/

/-- an in-flight message travels between two different shards and was not sent by the system account -/
def MsgOK (e : Env) (m : Msg) : Prop :=
  m.caller ≠ systemAccountAddress ∧ present e.nshards (shardOf e.nshards m.caller) m.rcv = false

structure WorldInv (e : Env) (w : NWorld) : Prop where
  nodup : ∀ A ∈ w.shards, A.Nodup
  msgs : ∀ m ∈ w.inflight, MsgOK e m

/-- every stored value of every shard is shorter than 2^63 bytes -/
def ShortW (w : NWorld) : Prop := ∀ A ∈ w.shards, Short A

/-- user transactions considered: not sent by the system account, not to oneself -/
def NStepOK : NStep → Prop
  | .user c => c.caller ≠ systemAccountAddress ∧ c.caller ≠ c.rcv
  | _ => True

theorem present_self (n : Nat) (a : Bytes) : present n (shardOf n a) a = true := by simp [present]

theorem MsgOK.dest {e : Env} {m : Msg} (h : MsgOK e m) :
    present e.nshards (shardOf e.nshards m.rcv) m.caller = false := by
  obtain ⟨h1, h2⟩ := h
  simp only [present, Bool.or_eq_false_iff, beq_eq_false_iff_ne, ne_eq] at h2 ⊢
  exact ⟨h1, fun e' => h2.2 e'.symm⟩

theorem runOn_some {e : Env} {w : NWorld} {s : Nat} {c : Call} {A' : Accts} (h : runOn e w s c = some A') :
    ∃ A out ctx', w.shards[s]? = some A ∧ esdtTransfer { e with self := s } c { accts := A } = .ok (out, ctx') ∧
      ctx'.accts = A' := by
  unfold runOn at h
  split at h
  · cases h
  · rename_i A hA
    split at h
    · rename_i out ctx' he
      cases h
      exact ⟨A, out, ctx', hA, he, rfl⟩
    · cases h

theorem getElem?_mem {α : Type} {l : List α} {i : Nat} {x : α} (h : l[i]? = some x) : x ∈ l :=
  List.mem_of_getElem? h

end Esdt

namespace Esdt

theorem supply_set_shard (w : NWorld) (s : Nat) (A A' : Accts) (ms : List Msg) (k : Bytes) (h : w.shards[s]? = some A) :
    supply { shards := w.shards.set s A', inflight := ms } k =
      supply w k - balAt A k + balAt A' k - flightAt w.inflight k + flightAt ms k := by
  simp only [supply]
  rw [sum_map_set (balAt · k) w.shards s A A' h]
  omega

theorem shortW_get {w : NWorld} (h : ShortW w) {s : Nat} {A : Accts} (hs : w.shards[s]? = some A) : Short A :=
  h A (List.mem_of_getElem? hs)

theorem getElem?_set_self' {α : Type} (l : List α) (s : Nat) (x y : α) (h : l[s]? = some x) : (l.set s y)[s]? = some y := by
  have hlt : s < l.length := (List.getElem?_eq_some_iff.mp h).1
  simp [List.getElem?_set, hlt]

/-- one step of the world keeps the invariant and the supply of every storage key -/
theorem nstep_supply (e : Env) (w : NWorld) (st : NStep) (hI : WorldInv e w) (hok : NStepOK st)
    (hS : ShortW (nstep e w st)) (k : Bytes) :
    supply (nstep e w st) k = supply w k ∧ WorldInv e (nstep e w st) := by
  cases st with
  | user c =>
    obtain ⟨hsys, hne⟩ := hok
    simp only [nstep] at hS ⊢
    cases hr : runOn e w (shardOf e.nshards c.caller) c with
    | none => simp only [hr]; exact ⟨by first | rfl | trivial, hI⟩
    | some A' =>
      simp only [hr] at hS ⊢
      obtain ⟨A, out, ctx', hA, hex, hA'⟩ := runOn_some hr
      have hnA : A.Nodup := hI.nodup A (List.mem_of_getElem? hA)
      have hs : present ({ e with self := shardOf e.nshards c.caller } : Env).nshards
          ({ e with self := shardOf e.nshards c.caller } : Env).self c.caller = true := present_self _ _
      cases hd : present e.nshards (shardOf e.nshards c.caller) c.rcv
      · -- cross-shard: debit + message
        simp only [hd, Bool.false_eq_true, if_false] at hS ⊢
        obtain ⟨tok, amt, t, v, h0, h1, _, hw, _⟩ :=
          (esdtTransfer_senderOnly_effect { e with self := shardOf e.nshards c.caller } c { accts := A } hs hd).elim hex
        rw [hA'] at hw
        have hargs : ∃ rest, c.args = tok :: amt :: rest := by
          match hc : c.args, h0, h1 with
          | a :: b :: rest, h0, h1 =>
            simp at h0 h1; subst h0; subst h1; exact ⟨rest, rfl⟩
          | [_], _, h1 => simp at h1
          | [], h0, _ => simp at h0
        obtain ⟨rest, hargs⟩ := hargs
        simp only [hargs] at hS ⊢
        have hSA' : Short A' := hS A' (by
          have := getElem?_set_self' w.shards _ A A' hA
          exact List.mem_of_getElem? this)
        have hb := hw.balAt hnA (hSA' _ _) k
        constructor
        · rw [supply_set_shard w _ A A' _ k hA, flightAt_append, hb]
          simp only [Msg.contrib, Msg.key]
          by_cases hk : esdtKeyPrefix ++ tok = k <;> simp only [hk, if_true, if_false] <;> omega
        · refine ⟨mem_set_of _ _ _ _ hI.nodup (hw.nodup hnA), ?_⟩
          intro m hm
          rcases List.mem_append.mp hm with h | h
          · exact hI.msgs m h
          · simp at h; subst h; exact ⟨hsys, hd⟩
      · -- same shard: debit and credit
        simp only [hd, if_true] at hS ⊢
        obtain ⟨tok, amt, t, v, A1, t2, v2, _, _, _, hw1, hw2, _⟩ :=
          (esdtTransfer_sameShard_effect { e with self := shardOf e.nshards c.caller } c { accts := A } hs hd).elim hex
        rw [hA'] at hw2
        have hSA' : Short A' := hS A' (by
          have := getElem?_set_self' w.shards _ A A' hA
          exact List.mem_of_getElem? this)
        have hkeep : A'.read c.caller (esdtKeyPrefix ++ tok) = A1.read c.caller (esdtKeyPrefix ++ tok) :=
          hw2.others _ _ (fun ⟨e', _⟩ => hne e'.symm)
        have hb1 := hw1.balAt hnA (by rw [← hkeep]; exact hSA' _ _) k
        have hb2 := hw2.balAt (hw1.nodup hnA) (hSA' _ _) k
        constructor
        · rw [supply_set_shard w _ A A' _ k hA, hb2, hb1]
          by_cases hk : esdtKeyPrefix ++ tok = k <;> simp only [hk, if_true, if_false] <;> omega
        · exact ⟨mem_set_of _ _ _ _ hI.nodup (hw2.nodup (hw1.nodup hnA)), hI.msgs⟩
  | deliver i =>
    simp only [nstep] at hS ⊢
    cases hm : w.inflight[i]? with
    | none => simp only [hm]; exact ⟨by first | rfl | trivial, hI⟩
    | some m =>
      simp only [hm] at hS ⊢
      have hmok := hI.msgs m (List.mem_of_getElem? hm)
      cases hrf : m.refund
      · simp only [hrf, Bool.false_eq_true, if_false] at hS ⊢
        cases hr : runOn e w (shardOf e.nshards m.rcv) (deliveryCall m) with
        | none =>
          simp only [hr] at hS ⊢
          constructor
          · simp only [supply]
            rw [flightAt_set _ _ m _ _ hm]
            simp only [Msg.contrib, Msg.key]
            by_cases hk : esdtKeyPrefix ++ m.tok = k <;> simp only [hk, if_true, if_false] <;> omega
          · exact ⟨hI.nodup, mem_set_of _ _ _ _ hI.msgs hmok⟩
        | some A' =>
          simp only [hr] at hS ⊢
          obtain ⟨A, out, ctx', hA, hex, hA'⟩ := runOn_some hr
          have hnA : A.Nodup := hI.nodup A (List.mem_of_getElem? hA)
          have hs : present ({ e with self := shardOf e.nshards m.rcv } : Env).nshards
              ({ e with self := shardOf e.nshards m.rcv } : Env).self (deliveryCall m).caller = false := hmok.dest
          have hd : present ({ e with self := shardOf e.nshards m.rcv } : Env).nshards
              ({ e with self := shardOf e.nshards m.rcv } : Env).self (deliveryCall m).rcv = true := present_self _ _
          obtain ⟨tok, amt, t2, v2, h0, h1, _, hw, _⟩ :=
            (esdtTransfer_destOnly_effect { e with self := shardOf e.nshards m.rcv } (deliveryCall m) { accts := A } hs hd).elim hex
          simp [deliveryCall] at h0 h1
          subst h0; subst h1
          rw [hA'] at hw
          have hSA' : Short A' := hS A' (by
            have := getElem?_set_self' w.shards _ A A' hA
            exact List.mem_of_getElem? this)
          have hb := hw.balAt hnA (hSA' _ _) k
          constructor
          · rw [supply_set_shard w _ A A' _ k hA, flightAt_eraseIdx _ _ m _ hm, hb]
            simp only [Msg.contrib, Msg.key, deliveryCall]
            by_cases hk : esdtKeyPrefix ++ m.tok = k <;> simp only [hk, if_true, if_false] <;> omega
          · refine ⟨mem_set_of _ _ _ _ hI.nodup (hw.nodup hnA), ?_⟩
            intro m' hm'
            exact hI.msgs m' (List.mem_of_mem_eraseIdx hm')
      · simp only [hrf, if_true]; exact ⟨by first | rfl | trivial, hI⟩
  | refund i =>
    simp only [nstep] at hS ⊢
    cases hm : w.inflight[i]? with
    | none => simp only [hm]; exact ⟨by first | rfl | trivial, hI⟩
    | some m =>
      simp only [hm] at hS ⊢
      have hmok := hI.msgs m (List.mem_of_getElem? hm)
      cases hrf : m.refund
      · simp only [hrf, Bool.not_false, if_true]; exact ⟨by first | rfl | trivial, hI⟩
      · simp only [hrf, Bool.not_true, Bool.false_eq_true, if_false] at hS ⊢
        cases hr : runOn e w (shardOf e.nshards m.caller) (refundCall m) with
        | none => simp only [hr]; exact ⟨by first | rfl | trivial, hI⟩
        | some A' =>
          simp only [hr] at hS ⊢
          obtain ⟨A, out, ctx', hA, hex, hA'⟩ := runOn_some hr
          have hnA : A.Nodup := hI.nodup A (List.mem_of_getElem? hA)
          have hs : present ({ e with self := shardOf e.nshards m.caller } : Env).nshards
              ({ e with self := shardOf e.nshards m.caller } : Env).self (refundCall m).caller = false := hmok.2
          have hd : present ({ e with self := shardOf e.nshards m.caller } : Env).nshards
              ({ e with self := shardOf e.nshards m.caller } : Env).self (refundCall m).rcv = true := present_self _ _
          obtain ⟨tok, amt, t2, v2, h0, h1, _, hw, _⟩ :=
            (esdtTransfer_destOnly_effect { e with self := shardOf e.nshards m.caller } (refundCall m) { accts := A } hs hd).elim hex
          simp [refundCall] at h0 h1
          subst h0; subst h1
          rw [hA'] at hw
          have hSA' : Short A' := hS A' (by
            have := getElem?_set_self' w.shards _ A A' hA
            exact List.mem_of_getElem? this)
          have hb := hw.balAt hnA (hSA' _ _) k
          constructor
          · rw [supply_set_shard w _ A A' _ k hA, flightAt_eraseIdx _ _ m _ hm, hb]
            simp only [Msg.contrib, Msg.key, refundCall]
            by_cases hk : esdtKeyPrefix ++ m.tok = k <;> simp only [hk, if_true, if_false] <;> omega
          · refine ⟨mem_set_of _ _ _ _ hI.nodup (hw.nodup hnA), ?_⟩
            intro m' hm'
            exact hI.msgs m' (List.mem_of_mem_eraseIdx hm')

end Esdt

namespace Esdt

theorem runOn_short {e : Env} {w : NWorld} {s : Nat} {c : Call} {A' : Accts} (hS : ShortW w)
    (h : runOn e w s c = some A') : Short A' := by
  obtain ⟨A, out, ctx', hA, hex, hA'⟩ := runOn_some h
  rw [← hA']
  exact (sp_esdtTransfer { e with self := s } c { accts := A } (hS A (List.mem_of_getElem? hA))).elim hex

/-- stored values stay shorter than 2^63 bytes (every write is a marshalled token) -/
theorem nstep_short (e : Env) (w : NWorld) (st : NStep) (hS : ShortW w) : ShortW (nstep e w st) := by
  have hset : ∀ (s : Nat) (A' : Accts), Short A' → ∀ A ∈ w.shards.set s A', Short A :=
    fun s A' hA' => mem_set_of _ _ _ _ hS hA'
  cases st with
  | user c =>
    simp only [nstep]
    cases hr : runOn e w (shardOf e.nshards c.caller) c with
    | none => exact hS
    | some A' =>
      simp only []
      split
      · exact hset _ _ (runOn_short hS hr)
      · split <;> exact hset _ _ (runOn_short hS hr)
  | deliver i =>
    simp only [nstep]
    cases hm : w.inflight[i]? with
    | none => exact hS
    | some m =>
      simp only []
      split
      · exact hS
      · cases hr : runOn e w (shardOf e.nshards m.rcv) (deliveryCall m) with
        | none => exact hS
        | some A' => exact hset _ _ (runOn_short hS hr)
  | refund i =>
    simp only [nstep]
    cases hm : w.inflight[i]? with
    | none => exact hS
    | some m =>
      simp only []
      split
      · exact hS
      · cases hr : runOn e w (shardOf e.nshards m.caller) (refundCall m) with
        | none => exact hS
        | some A' => exact hset _ _ (runOn_short hS hr)

theorem nrun_supply (e : Env) : ∀ (steps : List NStep) (w : NWorld), WorldInv e w → (∀ s ∈ steps, NStepOK s) →
    ShortW w → ∀ k, supply (nrun e steps w) k = supply w k ∧ WorldInv e (nrun e steps w) := by
  intro steps
  induction steps with
  | nil => intro w hI _ _ k; exact ⟨rfl, hI⟩
  | cons s rest ih =>
    intro w hI hok hS k
    have hS1 := nstep_short e w s hS
    obtain ⟨h1, hI1⟩ := nstep_supply e w s hI (hok s (by simp)) hS1 k
    obtain ⟨h2, hI2⟩ := ih (nstep e w s) hI1 (fun s' hs' => hok s' (by simp [hs'])) hS1 k
    exact ⟨by simp only [nrun]; rw [h2, h1], hI2⟩

end Esdt
