/-
  Proofs/SupplyHistory.lean — C02 over operation sequences: for the functions that change a token's supply (local mint,
  local burn, burn, NFT create, add quantity, NFT burn, wipe) and the toggles freeze / unfreeze, a successful call on a
  well-formed shard state changes the shard's per-key sum of balances by EXACTLY the stated amount — under the stated key,
  by nothing under any other key — and keeps the state well-formed; hence along any sequence of such calls (failed ones
  rolled back) the sum is the initial sum plus the sum of the stated amounts.
-/
import Proofs.NetworkNFT
import Proofs.NetworkMulti
namespace Esdt

inductive SupplyOp
  | mint | localBurn | burn | create | addQty | nftBurn | wipe | freeze | unfreeze
deriving DecidableEq, Repr

def SupplyOp.run : SupplyOp → Env → Call → M VMOutput
  | .mint => esdtLocalMint
  | .localBurn => esdtLocalBurn
  | .burn => esdtBurn
  | .create => esdtNFTCreate
  | .addQty => esdtNFTAddQuantity
  | .nftBurn => esdtNFTBurn
  | .wipe => esdtFreezeWipe .wipe
  | .freeze => esdtFreezeWipe .freeze
  | .unfreeze => esdtFreezeWipe .unfreeze

/-- the amount the property states for each operation, under the key it states it for (pre-state `A`, result `out`) -/
def supplyDelta (op : SupplyOp) (c : Call) (A : Accts) (out : VMOutput) (k : Bytes) : Int :=
  match op, c.args with
  | .mint, tok :: amt :: _ => if esdtKeyPrefix ++ tok = k then (beNat amt : Int) else 0
  | .localBurn, tok :: amt :: _ => if esdtKeyPrefix ++ tok = k then - (beNat amt : Int) else 0
  | .burn, tok :: amt :: _ => if esdtKeyPrefix ++ tok = k then - (beNat amt : Int) else 0
  | .create, tok :: qty :: _ =>
    -- the given quantity under the fresh nonce (what was stored there before — nothing, under single-creator
    -- discipline — is overwritten)
    (match out.ret with
     | [nb] => if nftKey (esdtKeyPrefix ++ tok) (beNat nb) = k then (beNat qty : Int) - balOf (A.read c.caller k) else 0
     | _ => 0)
  | .addQty, tok :: nb :: qb :: _ => if nftKey (esdtKeyPrefix ++ tok) (u64 (beNat nb)) = k then (beNat qb : Int) else 0
  | .nftBurn, tok :: nb :: qb :: _ => if nftKey (esdtKeyPrefix ++ tok) (u64 (beNat nb)) = k then - (beNat qb : Int) else 0
  | .wipe, tok :: _ => if esdtKeyPrefix ++ tok = k then - balOf (A.read c.rcv k) else 0
  | _, _ => 0

theorem args_cons2' {args : List Bytes} {a b : Bytes} (h0 : args[0]? = some a) (h1 : args[1]? = some b) :
    ∃ rest, args = a :: b :: rest := by
  match args, h0, h1 with
  | _ :: _ :: rest, h0, h1 => simp at h0 h1; subst h0; subst h1; exact ⟨rest, rfl⟩
  | [_], _, h1 => simp at h1
  | [], h0, _ => simp at h0

theorem args_cons3' {args : List Bytes} {a b d : Bytes} (h0 : args[0]? = some a) (h1 : args[1]? = some b)
    (h2 : args[2]? = some d) : ∃ rest, args = a :: b :: d :: rest := by
  match args, h0, h1, h2 with
  | _ :: _ :: _ :: rest, h0, h1, h2 => simp at h0 h1 h2; subst h0; subst h1; subst h2; exact ⟨rest, rfl⟩
  | [_, _], _, _, h2 => simp at h2
  | [_], _, h1, _ => simp at h1
  | [], h0, _, _ => simp at h0

theorem args_cons1' {args : List Bytes} {a : Bytes} (h0 : args[0]? = some a) : ∃ rest, args = a :: rest := by
  match args, h0 with
  | _ :: rest, h0 => simp at h0; subst h0; exact ⟨rest, rfl⟩
  | [], h0 => simp at h0

/-- a fungible slot rewritten through `addToESDTBalance` -/
theorem oneWrite_step {A A' : Accts} {a tok : Bytes} {t : Token} {v d : Int}
    (hw : OneWrite A A' a (esdtKeyPrefix ++ tok) t v d) (hI : SInv A) (hS' : Short A') :
    SInv A' ∧ ∀ k, balAt A' k = balAt A k + (if esdtKeyPrefix ++ tok = k then d else 0) := by
  have hl := hS' a (esdtKeyPrefix ++ tok)
  refine ⟨⟨hw.nodup hI.nodup, (hw.canon hI.canon (tokKey_esdt tok)).toCanon hS', hS', ?_⟩, fun k => hw.balAt hI.nodup hl k⟩
  rw [hw.written]
  apply mdpos_write_stored _ _ _ _ hI.mdpos hw.old
  rw [hw.written, Accts.read_write, if_pos ⟨rfl, rfl⟩] at hl
  exact hl

/-- an NFT / SFT slot rewritten with a new quantity -/
theorem nftWrite_step {A A' : Accts} {a tok : Bytes} {n : Nat} {t : Token} {v v' : Int}
    (hw : NftWrite A A' a (esdtKeyPrefix ++ tok) n t v v') (hI : SInv A) (hS' : Short A') (h0 : 0 ≤ v')
    (hnon : ∀ m, t.md = some m → m.nonce = 0 ∨ m.nonce = n) (hn0 : n ≠ 0) :
    SInv A' ∧ ∀ k, balAt A' k = balAt A k + (if nftKey (esdtKeyPrefix ++ tok) n = k then v' - v else 0) := by
  obtain ⟨m0, hm0⟩ := Option.isSome_iff_exists.mp hw.hasMeta
  have hpos : m0.nonce ≠ 0 := hI.mdpos _ _ t m0 (tokKey_nft _ _) hw.present hw.old hm0
  have hnonce : mdNonce t = n := by
    rcases hnon m0 hm0 with h | h
    · exact absurd h hpos
    · simp [mdNonce, hm0, h]
  have hnum : NumOK t := decToken_num _ _ hw.old
  have hl := hS' a (nftKey (esdtKeyPrefix ++ tok) (mdNonce t))
  rw [hw.written, Accts.read_write, if_pos ⟨rfl, rfl⟩] at hl
  refine ⟨⟨hw.nodup hI.nodup, (hw.canon hI.canon.toM).toCanon hS', hS', ?_⟩, fun k => hw.balAt hI.nodup hnonce h0 hS' k⟩
  rw [hw.written]
  exact mdpos_write_nft _ _ _ hI.mdpos (hnum.withValue _) hl (fun md hmd => by
    have : t.md = some md := hmd
    rw [hm0] at this; cases this; exact hpos)

end Esdt

namespace Esdt

/-- the lookup of add-quantity / burn only accepts an entry whose metadata says the nonce asked for (or nonce 0) -/
theorem addQuantity_nonce (env : Env) (c : Call) (ctx : Ctx) :
    Post (esdtNFTAddQuantity env c) ctx (fun _ _ => ∀ tok nb t m, c.args[0]? = some tok → c.args[1]? = some nb →
      decToken (ctx.accts.read c.caller (nftKey (esdtKeyPrefix ++ tok) (u64 (beNat nb)))) = some t → t.md = some m →
      m.nonce = 0 ∨ m.nonce = u64 (beNat nb)) := by
  unfold esdtNFTAddQuantity checkCreateBurnAdd checkBasic
  xsteps
  rename_i tok0 ha0
  apply Post.mono (ro_checkAllowed _ _ _ ctx)
  intro _ c1 h1
  xsteps
  rename_i nb0 ha1 _
  apply Post.mono (spec_getNFTOnSender _ _ _ c1)
  intro t c2 ⟨_, _, hdec, _, hnon⟩
  apply Post.intro
  intro _ _ tok nb t' m h0 h1' hdec' hm
  rw [ha0] at h0; cases h0
  rw [ha1] at h1'; cases h1'
  rw [h1, hdec'] at hdec; cases hdec
  exact hnon m hm

theorem nftBurn_nonce (env : Env) (c : Call) (ctx : Ctx) :
    Post (esdtNFTBurn env c) ctx (fun _ _ => ∀ tok nb t m, c.args[0]? = some tok → c.args[1]? = some nb →
      decToken (ctx.accts.read c.caller (nftKey (esdtKeyPrefix ++ tok) (u64 (beNat nb)))) = some t → t.md = some m →
      m.nonce = 0 ∨ m.nonce = u64 (beNat nb)) := by
  unfold esdtNFTBurn checkCreateBurnAdd checkBasic
  xsteps
  rename_i tok0 ha0
  apply Post.mono (ro_checkAllowed _ _ _ ctx)
  intro _ c1 h1
  xsteps
  rename_i nb0 ha1 _
  apply Post.mono (spec_getNFTOnSender _ _ _ c1)
  intro t c2 ⟨_, _, hdec, _, hnon⟩
  apply Post.intro
  intro _ _ tok nb t' m h0 h1' hdec' hm
  rw [ha0] at h0; cases h0
  rw [ha1] at h1'; cases h1'
  rw [h1, hdec'] at hdec; cases hdec
  exact hnon m hm

end Esdt

namespace Esdt

theorem mdpos_write_nil {A : Accts} (a k : Bytes) (hA : MdPos A) : MdPos (A.write a k []) := by
  intro a2 k2 t0 m hk2 hne hdec hm
  rw [Accts.read_write] at hne hdec
  split at hne
  · exact absurd rfl hne
  · rename_i he
    rw [if_neg he] at hdec
    exact hA a2 k2 t0 m hk2 hne hdec hm

theorem mdpos_write_nontok {A : Accts} (a k v : Bytes) (hA : MdPos A) (hk : ¬ TokKey k) : MdPos (A.write a k v) := by
  intro a2 k2 t0 m hk2 hne hdec hm
  rw [Accts.read_write] at hne hdec
  have he : ¬ (a = a2 ∧ k = k2) := fun h => hk (h.2 ▸ hk2)
  rw [if_neg he] at hne hdec
  exact hA a2 k2 t0 m hk2 hne hdec hm

theorem mdpos_write_storedP {A : Accts} (a k : Bytes) (t : Token) (p : Bytes) (hA : MdPos A)
    (hold : tokenOf (A.read a k) = some t)
    (hl : (storedForm { t with properties := p }).length < two63) :
    MdPos (A.write a k (storedForm { t with properties := p })) := by
  intro a2 k2 t0 m hk2 hne hdec hm
  rw [Accts.read_write] at hne hdec
  by_cases he : a = a2 ∧ k = k2
  · rw [if_pos he] at hne hdec
    unfold storedForm at hne hdec hl
    split at hne
    · exact absurd rfl hne
    · rename_i hz
      rw [if_neg hz] at hdec hl
      rw [roundtrip_of_length _ ((tokenOf_num hold).withProps _) hl] at hdec
      cases hdec
      have hm' : t.md = some m := hm
      unfold tokenOf at hold
      split at hold
      · cases hold; cases hm'
      · rename_i hraw
        exact hA a k t m (he.2 ▸ hk2) hraw hold hm'
  · rw [if_neg he] at hne hdec
    exact hA a2 k2 t0 m hk2 hne hdec hm

/-- reading back what `saveESDTData` stored -/
theorem balOf_storedForm_len (t : Token) (v : Int) (hv : t.value = some v) (hn : NumOK t)
    (hl : (storedForm t).length < two63) : balOf (storedForm t) = v := by
  unfold storedForm at hl ⊢
  split
  · rename_i hz
    rw [balOf_nil]
    have := hz.1
    rw [hv] at this
    cases this; rfl
  · rename_i hz
    rw [if_neg hz] at hl
    simp [balOf, tokenOf, encToken_ne_nil, roundtrip_of_length t hn hl, hv]

theorem tokKey_not_nonce (tok k : Bytes) (hk : TokKey k) : nonceKeyPrefix ++ tok ≠ k := by
  intro he
  exact not_tokKey_nonce tok (he ▸ hk)

end Esdt

namespace Esdt

/-- FULL per call: each supply operation moves the shard's per-key sum of balances by exactly the stated amount and keeps
    the shard state well-formed -/
theorem supply_step (op : SupplyOp) (env : Env) (c : Call) (A : Accts) (out : VMOutput) (ctx' : Ctx) (hI : SInv A)
    (hcsys : c.caller ≠ systemAccountAddress) (hrsys : c.rcv ≠ systemAccountAddress)
    (hwrap : op = .create → ∀ tok, c.args[0]? = some tok →
      counterOf (A.read c.caller (nonceKeyPrefix ++ tok)) + 1 < two64)
    (h : op.run env c { accts := A } = .ok (out, ctx')) :
    SInv ctx'.accts ∧ ∀ k, TokKey k → balAt ctx'.accts k = balAt A k + supplyDelta op c A out k := by
  cases op with
  | mint =>
    have hS' : Short ctx'.accts := (sp_esdtLocalMint env c { accts := A } hI.short).elim h
    obtain ⟨tok, amt, t, v, h0, h1, hw, _⟩ := (localMint_effect env c { accts := A }).elim h
    obtain ⟨rest, hargs⟩ := args_cons2' h0 h1
    obtain ⟨hI', hb⟩ := oneWrite_step hw hI hS'
    refine ⟨hI', fun k _ => ?_⟩
    rw [hb k]; simp only [supplyDelta, hargs]
  | localBurn =>
    have hS' : Short ctx'.accts := (sp_esdtLocalBurn env c { accts := A } hI.short).elim h
    obtain ⟨tok, amt, t, v, h0, h1, hw, _⟩ := (localBurn_effect env c { accts := A }).elim h
    obtain ⟨rest, hargs⟩ := args_cons2' h0 h1
    obtain ⟨hI', hb⟩ := oneWrite_step hw hI hS'
    refine ⟨hI', fun k _ => ?_⟩
    rw [hb k]; simp only [supplyDelta, hargs]
  | burn =>
    have hS' : Short ctx'.accts := (sp_esdtBurn env c { accts := A } hI.short).elim h
    obtain ⟨tok, amt, t, v, h0, h1, hw, _⟩ := (esdtBurn_effect env c { accts := A }).elim h
    obtain ⟨rest, hargs⟩ := args_cons2' h0 h1
    obtain ⟨hI', hb⟩ := oneWrite_step hw hI hS'
    refine ⟨hI', fun k _ => ?_⟩
    rw [hb k]; simp only [supplyDelta, hargs]
  | addQty =>
    have hS' : Short ctx'.accts := (sp_esdtNFTAddQuantity env c { accts := A } hI.short).elim h
    obtain ⟨tok, nb, qb, t, v, h0, h1, h2, hn0, hw, _⟩ := (addQuantity_effect env c { accts := A }).elim h
    obtain ⟨rest, hargs⟩ := args_cons3' h0 h1 h2
    have hnon := fun m hm => (addQuantity_nonce env c { accts := A }).elim h tok nb t m h0 h1 hw.old hm
    have hv0 : 0 ≤ v := by
      have ht : tokenOf (A.read c.caller (nftKey (esdtKeyPrefix ++ tok) (u64 (beNat nb)))) = some t := by
        simp [tokenOf, hw.present, hw.old]
      obtain ⟨⟨v', hv', h0'⟩, _⟩ := hI.canon.read (tokKey_nft tok _) hcsys ht
      rw [hw.value] at hv'; cases hv'; exact h0'
    obtain ⟨hI', hb⟩ := nftWrite_step hw hI hS' (by omega) hnon hn0
    refine ⟨hI', fun k _ => ?_⟩
    rw [hb k]; simp only [supplyDelta, hargs]
    split <;> omega
  | nftBurn =>
    have hS' : Short ctx'.accts := (sp_esdtNFTBurn env c { accts := A } hI.short).elim h
    obtain ⟨tok, nb, qb, t, v, h0, h1, h2, hn0, hle, hw, _⟩ := (nftBurn_effect env c { accts := A }).elim h
    obtain ⟨rest, hargs⟩ := args_cons3' h0 h1 h2
    have hnon := fun m hm => (nftBurn_nonce env c { accts := A }).elim h tok nb t m h0 h1 hw.old hm
    obtain ⟨hI', hb⟩ := nftWrite_step hw hI hS' (by omega) hnon hn0
    refine ⟨hI', fun k _ => ?_⟩
    rw [hb k]; simp only [supplyDelta, hargs]
    split <;> omega
  | wipe =>
    have hS' : Short ctx'.accts := (sp_esdtFreezeWipe .wipe env c { accts := A } hI.short).elim h
    have hC' := (canon_wipe env c { accts := A } ctx' out hI.canon h).toCanon hS'
    obtain ⟨tok, t, h0, _, _, _, hw⟩ := (wipe_effect env c { accts := A }).elim h
    obtain ⟨rest, hargs⟩ := args_cons1' h0
    simp only at hw
    refine ⟨⟨by rw [hw]; exact Accts.write_nodup _ hI.nodup _ _ _, hC', hS', by rw [hw]; exact mdpos_write_nil _ _ hI.mdpos⟩,
      fun k _ => ?_⟩
    rw [hw, balAt_write A hI.nodup]
    simp only [supplyDelta, hargs, balOf_nil]
    split
    · rename_i hk; rw [← hk]; omega
    · rfl
  | freeze =>
    have hS' : Short ctx'.accts := (sp_esdtFreezeWipe .freeze env c { accts := A } hI.short).elim h
    have hC' := (canon_toggleFreeze env c { accts := A } ctx' out .freeze (by decide) hI.canon h).toCanon hS'
    obtain ⟨tok, t, h0, _, ht, _, hw⟩ := (toggleFreeze_effect .freeze (by decide) env c { accts := A }).elim h
    simp only at hw ht
    obtain ⟨⟨v, hv, _⟩, _⟩ := hI.canon.read (tokKey_esdt tok) hrsys ht
    have hl := hS' c.rcv (esdtKeyPrefix ++ tok)
    rw [hw, Accts.read_write, if_pos ⟨rfl, rfl⟩] at hl
    refine ⟨⟨by rw [hw]; exact Accts.write_nodup _ hI.nodup _ _ _, hC', hS',
      by rw [hw]; exact mdpos_write_storedP _ _ _ _ hI.mdpos ht hl⟩, fun k _ => ?_⟩
    rw [hw, balAt_write A hI.nodup]
    have hd : supplyDelta .freeze c A out k = 0 := by simp [supplyDelta]
    have hbs := balOf_storedForm_len { t with properties := flagBytes (FreezeKind.freeze == FreezeKind.freeze) } v hv
      ((tokenOf_num ht).withProps _) hl
    rw [hd, hbs, balOf_old ht hv]
    split <;> omega
  | unfreeze =>
    have hS' : Short ctx'.accts := (sp_esdtFreezeWipe .unfreeze env c { accts := A } hI.short).elim h
    have hC' := (canon_toggleFreeze env c { accts := A } ctx' out .unfreeze (by decide) hI.canon h).toCanon hS'
    obtain ⟨tok, t, h0, _, ht, _, hw⟩ := (toggleFreeze_effect .unfreeze (by decide) env c { accts := A }).elim h
    simp only at hw ht
    obtain ⟨⟨v, hv, _⟩, _⟩ := hI.canon.read (tokKey_esdt tok) hrsys ht
    have hl := hS' c.rcv (esdtKeyPrefix ++ tok)
    rw [hw, Accts.read_write, if_pos ⟨rfl, rfl⟩] at hl
    refine ⟨⟨by rw [hw]; exact Accts.write_nodup _ hI.nodup _ _ _, hC', hS',
      by rw [hw]; exact mdpos_write_storedP _ _ _ _ hI.mdpos ht hl⟩, fun k _ => ?_⟩
    rw [hw, balAt_write A hI.nodup]
    have hd : supplyDelta .unfreeze c A out k = 0 := by simp [supplyDelta]
    have hbs := balOf_storedForm_len { t with properties := flagBytes (FreezeKind.unfreeze == FreezeKind.freeze) } v hv
      ((tokenOf_num ht).withProps _) hl
    rw [hd, hbs, balOf_old ht hv]
    split <;> omega
  | create =>
    have hS' : Short ctx'.accts := (sp_esdtNFTCreate env c { accts := A } hI.short).elim h
    have hC' := (canon_nftCreate env c { accts := A } ctx' out hI.canon h).toCanon hS'
    obtain ⟨tok, qb, name, roy, hash, attrs, n, A1, h0, h1, _, _, _, _, hn, _, _, hret, hA1, hw⟩ :=
      (nftCreate_effect env c { accts := A }).elim h
    simp only at hn hA1 hw
    obtain ⟨rest, hargs⟩ := args_cons2' h0 h1
    have hnw := hwrap rfl tok h0
    have hn' : n = counterOf (A.read c.caller (nonceKeyPrefix ++ tok)) + 1 := by rw [hn, u64_of_lt _ hnw]
    have hn0 : n ≠ 0 := by omega
    have hnum : NumOK (createdToken c qb name roy hash attrs n) :=
      ⟨by show (1 : Nat) < two32; decide, fun m hm => by
        simp only [createdToken, Option.some.injEq] at hm
        subst hm
        exact ⟨by rw [hn]; exact u64_lt _, Nat.mod_lt _ (by decide)⟩⟩
    have hn1 : A1.Nodup := by rw [hA1]; exact Accts.write_nodup _ hI.nodup _ _ _
    have hkne : ¬ (c.caller = c.caller ∧ nonceKeyPrefix ++ tok = nftKey (esdtKeyPrefix ++ tok) n) := by
      rintro ⟨_, he⟩
      exact not_tokKey_nonce tok (he ▸ tokKey_nft tok n)
    have hl := hS' c.caller (nftKey (esdtKeyPrefix ++ tok) n)
    rw [hw, Accts.read_write, if_neg hkne, hA1, Accts.read_write, if_pos ⟨rfl, rfl⟩] at hl
    have hmdpos1 : MdPos A1 := by
      rw [hA1]
      apply mdpos_write_nft _ _ _ hI.mdpos hnum hl
      intro md hmd
      simp only [createdToken, Option.some.injEq] at hmd
      subst hmd
      exact hn0
    refine ⟨⟨by rw [hw]; exact Accts.write_nodup _ hn1 _ _ _, hC', hS',
      by rw [hw]; exact mdpos_write_nontok _ _ _ hmdpos1 (not_tokKey_nonce tok)⟩, fun k hk => ?_⟩
    rw [hw, balAt_write A1 hn1, if_neg (tokKey_not_nonce tok k hk), hA1, balAt_write A hI.nodup]
    simp only [supplyDelta, hargs, hret, beNat_beBytes]
    split
    · rename_i hkk
      rw [balOf_nftStoredForm_len _ (beNat qb : Int) rfl (by omega) hnum hl, ← hkk]
      omega
    · omega

end Esdt

namespace Esdt

/-! ### operation sequences on one shard -/

structure SStep where
  op : SupplyOp
  env : Env
  c : Call

/-- run the operations from `A` (a failed one changes nothing); returns the final state and, per key, the sum of the
    stated amounts of the successful ones -/
def srun : List SStep → Accts → Accts × (Bytes → Int)
  | [], A => (A, fun _ => 0)
  | s :: rest, A =>
    match s.op.run s.env s.c { accts := A } with
    | .ok (out, ctx') =>
      let r := srun rest ctx'.accts
      (r.1, fun k => supplyDelta s.op s.c A out k + r.2 k)
    | _ => srun rest A

/-- what is assumed of every operation, on the state it runs on: neither account is the system account (the global-settings
    store), and an NFT create does not find its counter at 2^64 − 1 -/
def SStepOK (A : Accts) (s : SStep) : Prop :=
  s.c.caller ≠ systemAccountAddress ∧ s.c.rcv ≠ systemAccountAddress ∧
  (s.op = .create → ∀ tok, s.c.args[0]? = some tok → counterOf (A.read s.c.caller (nonceKeyPrefix ++ tok)) + 1 < two64)

def SStepsOK : List SStep → Accts → Prop
  | [], _ => True
  | s :: rest, A =>
    SStepOK A s ∧
    match s.op.run s.env s.c { accts := A } with
    | .ok (_, ctx') => SStepsOK rest ctx'.accts
    | _ => SStepsOK rest A

theorem supply_history_run : ∀ (steps : List SStep) (A : Accts), SInv A → SStepsOK steps A →
    SInv (srun steps A).1 ∧ ∀ k, TokKey k → balAt (srun steps A).1 k = balAt A k + (srun steps A).2 k := by
  intro steps
  induction steps with
  | nil => intro A hI _; exact ⟨hI, fun k _ => by simp [srun]⟩
  | cons s rest ih =>
    intro A hI hok
    obtain ⟨⟨hc, hr, hw⟩, hrest⟩ := hok
    simp only [srun]
    cases he : s.op.run s.env s.c { accts := A } with
    | ok p =>
      obtain ⟨out, ctx'⟩ := p
      simp only [he] at hrest ⊢
      obtain ⟨hI1, hb1⟩ := supply_step s.op s.env s.c A out ctx' hI hc hr hw he
      obtain ⟨hI2, hb2⟩ := ih ctx'.accts hI1 hrest
      refine ⟨hI2, fun k hk => ?_⟩
      rw [hb2 k hk, hb1 k hk]; omega
    | err e =>
      simp only [he] at hrest ⊢
      exact ih A hI hrest
    | panic =>
      simp only [he] at hrest ⊢
      exact ih A hI hrest

end Esdt
