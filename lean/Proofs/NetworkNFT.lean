/-
  Proofs/NetworkNFT.lean — the world of shards with in-flight messages for ESDTNFTTransfer (single NFT / SFT transfers):
  per storage key, Σ_shards Σ_accounts quantity + Σ_in-flight payload quantity is invariant under every history of
  transfers, deliveries and refunds.
-/
import Proofs.Network
import Proofs.Parsers
namespace Esdt

/-- metadata stored under any token key carries a non-zero nonce (what ESDTNFTCreate produces; an entry whose metadata said
    nonce 0 would be re-saved under the key WITHOUT the nonce suffix) -/
def MdPos (A : Accts) : Prop :=
  ∀ a k t m, TokKey k → A.read a k ≠ [] → decToken (A.read a k) = some t → t.md = some m → m.nonce ≠ 0

/-- the sender-side cross-shard effect with two more facts: the entry belongs to the nonce asked for (or says nonce 0),
    and the payload put on the wire is shorter than 2^63 bytes -/
theorem nftTransferSender_crossShard_effect_len (env : Env) (c : Call) (ctx : Ctx)
    (hs : present env.nshards env.self c.caller = true)
    (hx : ∀ d, c.args[3]? = some d → env.self ≠ shardOf env.nshards d) :
    Post (esdtNFTTransferSender env c) ctx (fun out ctx' => ∃ tok nb qb dst t v, c.args[0]? = some tok ∧
      c.args[1]? = some nb ∧ c.args[2]? = some qb ∧ c.args[3]? = some dst ∧ u64 (beNat nb) ≠ 0 ∧ (beNat qb : Int) ≤ v ∧
      NftWrite ctx.accts ctx'.accts c.caller (esdtKeyPrefix ++ tok) (u64 (beNat nb)) t v (v - beNat qb) ∧
      (∀ m, t.md = some m → m.nonce = 0 ∨ m.nonce = u64 (beNat nb)) ∧
      (encToken { t with value := some (beNat qb : Int) }).length < two63 ∧
      ∃ tr, out.outAccts = [{ addr := dst, transfers := [tr] }] ∧
        tr.data = encodeCall fnESDTNFTTransfer (c.args.take 3 ++ [encToken { t with value := some (beNat qb : Int) }] ++
          (if c.args.length > 4 then c.args.drop 4 else []))) := by
  unfold esdtNFTTransferSender
  simp only [hs, Bool.not_true, Bool.false_eq_true, if_false]
  xsteps
  apply Post.mono (spec_getNFTOnSender _ _ _ ctx)
  intro t c1 ⟨h1, hne, hdec, hmd, hnon⟩
  xsteps
  apply Post.mono (spec_saveNFT _ _ _ _ c1)
  intro _ c2 ⟨_, _, _, _, h2⟩
  have hxx := hx _ ‹c.args[3]? = some _›
  simp only [hxx, decide_false, Bool.false_eq_true, if_false, Bool.not_false, if_true]
  xsteps
  apply Post.pure
  xsteps
  apply Post.mono (spec_marshalToken_len _ c2)
  intro b c3 ⟨h3, hb, hbl⟩
  xsteps
  apply Post.pure
  xsteps
  apply Post.pure
  have hn0 := of_decide_eq_false ‹decide (u64 (beNat _) = 0) = false›
  refine ⟨_, _, _, _, t, _, ‹c.args[0]? = some _›, ‹c.args[1]? = some _›, ‹c.args[2]? = some _›, ‹c.args[3]? = some _›,
    hn0, by simpa using ‹decide (_ < (beNat _ : Int)) = false›,
    ⟨hne, hdec, hmd (Nat.pos_of_ne_zero hn0), ‹t.value = some _›, ?_⟩, hnon, by rw [← hb]; exact hbl, ?_⟩
  · rw [h3, h2, h1]; rfl
  · subst hb
    split <;> exact ⟨_, rfl, rfl⟩

theorem nftStoredForm_cases' (t : Token) :
    (nftStoredForm t = [] ∧ ∀ v, t.value = some v → v ≤ 0) ∨ nftStoredForm t = encToken t := by
  unfold nftStoredForm
  split
  · rename_i v hv
    split
    · rename_i hle; exact Or.inl ⟨rfl, fun v' hv' => by rw [hv] at hv'; cases hv'; exact hle⟩
    · exact Or.inr rfl
  · rename_i hn; exact Or.inl ⟨rfl, fun v' hv' => by rw [hv'] at hn; cases hn⟩

/-- reading back what `saveESDTNFTToken` stored, from the length bound alone -/
theorem balOf_nftStoredForm_len (t : Token) (v : Int) (hv : t.value = some v) (hnn : 0 ≤ v) (hn : NumOK t)
    (hl : (nftStoredForm t).length < two63) : balOf (nftStoredForm t) = v := by
  rcases nftStoredForm_cases' t with ⟨he, hz⟩ | he
  · rw [he, balOf_nil]; have := hz v hv; omega
  · rw [he] at hl ⊢
    simp [balOf, tokenOf, encToken_ne_nil, roundtrip_of_length t hn hl, hv]

theorem balOf_dec {raw : Bytes} {t : Token} {v : Int} (hne : raw ≠ []) (hdec : decToken raw = some t)
    (hv : t.value = some v) : balOf raw = v := by
  simp [balOf, tokenOf, hne, hdec, hv]

end Esdt

namespace Esdt

/-- NftWrite with the entry's nonce pinned: the shard's per-key sum moves by `v' − v` under the entry's key -/
theorem NftWrite.balAt {A A' : Accts} {a tok : Bytes} {n : Nat} {t : Token} {v v' : Int}
    (h : NftWrite A A' a (esdtKeyPrefix ++ tok) n t v v') (hn : A.Nodup) (hnon : mdNonce t = n) (h0 : 0 ≤ v')
    (hS : Short A') (k2 : Bytes) :
    Esdt.balAt A' k2 = Esdt.balAt A k2 + (if nftKey (esdtKeyPrefix ++ tok) n = k2 then v' - v else 0) := by
  have hw := h.written
  rw [hnon] at hw
  have hl := hS a (nftKey (esdtKeyPrefix ++ tok) n)
  rw [hw, Accts.read_write, if_pos ⟨rfl, rfl⟩] at hl
  rw [hw, balAt_write A hn]
  split
  · rw [balOf_nftStoredForm_len _ v' rfl h0 ((decToken_num _ _ h.old).withValue _) hl,
      balOf_dec h.present h.old h.value]
  · rfl

theorem NftWrite.nodup {A A' : Accts} {a tk : Bytes} {n : Nat} {t : Token} {v v' : Int}
    (h : NftWrite A A' a tk n t v v') (hn : A.Nodup) : A'.Nodup := by
  rw [h.written]; exact Accts.write_nodup A hn _ _ _

/-- a credit through `addNFTToDestination` (as its specification describes it): the per-key sum of the shard rises by the
    transferred quantity under the key built from the transferred token's own nonce -/
theorem credit_balAt {A A' : Accts} (hn : A.Nodup) (dst tk : Bytes) (t cur : Token) (tv cv : Int)
    (hcur : tokenOf (A.read dst (nftKey tk (mdNonce t))) = some cur) (hcv : cur.value = some cv) (h0 : 0 ≤ tv + cv)
    (hnum : NumOK t)
    (hw : A' = A.write dst (nftKey tk (mdNonce t)) (nftStoredForm { t with value := some (tv + cv) }))
    (hS : Short A') (k2 : Bytes) :
    balAt A' k2 = balAt A k2 + (if nftKey tk (mdNonce t) = k2 then tv else 0) := by
  have hl := hS dst (nftKey tk (mdNonce t))
  rw [hw, Accts.read_write, if_pos ⟨rfl, rfl⟩] at hl
  rw [hw, balAt_write A hn]
  split
  · rw [balOf_nftStoredForm_len _ (tv + cv) rfl h0 (hnum.withValue _) hl]
    have : balOf (A.read dst (nftKey tk (mdNonce t))) = cv := by simp [balOf, hcur, hcv]
    rw [this]; omega
  · rfl

end Esdt

namespace Esdt

/-! ### the world -/

structure NMsg where
  caller : Bytes
  rcv : Bytes
  tok : Bytes
  nb : Bytes
  qb : Bytes
  payload : Bytes
  refund : Bool

structure NFTWorld where
  shards : List Accts
  inflight : List NMsg

/-- storage key and quantity of the entry a message carries (read off its payload) -/
def NMsg.key (m : NMsg) : Bytes :=
  match decToken m.payload with
  | some t => nftKey (esdtKeyPrefix ++ m.tok) (mdNonce t)
  | none => []
def NMsg.amt (m : NMsg) : Int :=
  match decToken m.payload with
  | some t => t.value.getD 0
  | none => 0
def NMsg.contrib (m : NMsg) (k : Bytes) : Int := if m.key = k then m.amt else 0

def nflightAt (ms : List NMsg) (k : Bytes) : Int := (ms.map (·.contrib k)).sum

def nsupply (w : NFTWorld) (k : Bytes) : Int := (w.shards.map (balAt · k)).sum + nflightAt w.inflight k

def nDeliveryCall (m : NMsg) : Call :=
  { fn := fnESDTNFTTransfer, caller := m.caller, rcv := m.rcv, args := [m.tok, m.nb, m.qb, m.payload] }
def nRefundCall (m : NMsg) : Call :=
  { fn := fnESDTNFTTransfer, caller := m.rcv, rcv := m.caller, args := [m.tok, m.nb, m.qb, m.payload],
    callType := 2, rae := true }

/-- the message a successful sender-side call leaves for another shard, read off its output transfer -/
def msgOf (c : Call) (out : VMOutput) : Option NMsg :=
  match out.outAccts with
  | [oa] =>
    match oa.transfers with
    | [tr] =>
      match parseCall tr.data with
      | .ok (_, tok :: nb :: qb :: payload :: _) =>
        some { caller := c.caller, rcv := oa.addr, tok := tok, nb := nb, qb := qb, payload := payload, refund := false }
      | _ => none
    | _ => none
  | _ => none

def runNFT (e : Env) (shards : List Accts) (s : Nat) (c : Call) : Option (VMOutput × Accts) :=
  match shards[s]? with
  | none => none
  | some A =>
    match esdtNFTTransfer { e with self := s } c { accts := A } with
    | .ok (out, ctx') => some (out, ctx'.accts)
    | _ => none

def nftStep (e : Env) (w : NFTWorld) : NStep → NFTWorld
  | .user c =>
    let s := shardOf e.nshards c.caller
    match runNFT e w.shards s c with
    | none => w
    | some (out, A') =>
      let shards' := w.shards.set s A'
      match c.args[3]? with
      | some dst =>
        if s = shardOf e.nshards dst then { w with shards := shards' }
        else { shards := shards', inflight := w.inflight ++ (msgOf c out).toList }
      | none => { w with shards := shards' }
  | .deliver i =>
    match w.inflight[i]? with
    | none => w
    | some m =>
      if m.refund then w else
      match runNFT e w.shards (shardOf e.nshards m.rcv) (nDeliveryCall m) with
      | some (_, A') => { shards := w.shards.set (shardOf e.nshards m.rcv) A', inflight := w.inflight.eraseIdx i }
      | none => { w with inflight := w.inflight.set i { m with refund := true } }
  | .refund i =>
    match w.inflight[i]? with
    | none => w
    | some m =>
      if !m.refund then w else
      match runNFT e w.shards (shardOf e.nshards m.caller) (nRefundCall m) with
      | some (_, A') => { shards := w.shards.set (shardOf e.nshards m.caller) A', inflight := w.inflight.eraseIdx i }
      | none => w

def nftRun (e : Env) : List NStep → NFTWorld → NFTWorld
  | [], w => w
  | s :: rest, w => nftRun e rest (nftStep e w s)

/-! ### invariants -/

structure SInv (A : Accts) : Prop where
  nodup : A.Nodup
  canon : Canon A
  short : Short A
  mdpos : MdPos A

structure NMsgOK (e : Env) (m : NMsg) : Prop where
  notSys : m.caller ≠ systemAccountAddress
  cross : present e.nshards (shardOf e.nshards m.caller) m.rcv = false
  payload : ∃ t q, decToken m.payload = some t ∧ t.value = some q ∧ 0 ≤ q ∧ ∀ md, t.md = some md → md.nonce ≠ 0

structure NWorldInv (e : Env) (w : NFTWorld) : Prop where
  shards : ∀ A ∈ w.shards, SInv A
  msgs : ∀ m ∈ w.inflight, NMsgOK e m
  sysFree : True

/-- transactions considered: the sender-side form (caller = receiver, destination in the arguments), not from the system
    account, destination not the system account -/
def NFTStepOK : NStep → Prop
  | .user c => c.caller = c.rcv ∧ c.caller ≠ systemAccountAddress ∧ ∀ d, c.args[3]? = some d → d ≠ systemAccountAddress
  | _ => True

theorem runNFT_some {e : Env} {shards : List Accts} {s : Nat} {c : Call} {out : VMOutput} {A' : Accts}
    (h : runNFT e shards s c = some (out, A')) :
    ∃ A ctx', shards[s]? = some A ∧ esdtNFTTransfer { e with self := s } c { accts := A } = .ok (out, ctx') ∧
      ctx'.accts = A' := by
  unfold runNFT at h
  split at h
  · cases h
  · rename_i A hA
    split at h
    · rename_i out' ctx' he
      cases h
      exact ⟨A, ctx', hA, he, rfl⟩
    · cases h

theorem nflightAt_append (ms : List NMsg) (m : NMsg) (k : Bytes) :
    nflightAt (ms ++ [m]) k = nflightAt ms k + m.contrib k := by simp [nflightAt]

theorem nflightAt_eraseIdx : ∀ (ms : List NMsg) (i : Nat) (m : NMsg) (k : Bytes), ms[i]? = some m →
    nflightAt (ms.eraseIdx i) k = nflightAt ms k - m.contrib k := by
  intro ms
  induction ms with
  | nil => intro i m k h; simp at h
  | cons y ys ih =>
    intro i m k h
    cases i with
    | zero => simp at h; subst h; simp [nflightAt]; omega
    | succ i =>
      simp at h
      have := ih i m k h
      simp only [nflightAt, List.eraseIdx_cons_succ, List.map_cons, List.sum_cons] at this ⊢
      omega

theorem nflightAt_set (ms : List NMsg) (i : Nat) (m m' : NMsg) (k : Bytes) (h : ms[i]? = some m) :
    nflightAt (ms.set i m') k = nflightAt ms k - m.contrib k + m'.contrib k := by
  unfold nflightAt
  exact sum_map_set (fun x : NMsg => x.contrib k) ms i m m' h

theorem nsupply_set_shard (w : NFTWorld) (s : Nat) (A A' : Accts) (ms : List NMsg) (k : Bytes) (h : w.shards[s]? = some A) :
    nsupply { shards := w.shards.set s A', inflight := ms } k =
      nsupply w k - balAt A k + balAt A' k - nflightAt w.inflight k + nflightAt ms k := by
  simp only [nsupply]
  rw [sum_map_set (balAt · k) w.shards s A A' h]
  omega

end Esdt

namespace Esdt

theorem mdpos_write_nft {A : Accts} (a k : Bytes) (t' : Token) (hA : MdPos A) (hn : NumOK t')
    (hl : (nftStoredForm t').length < two63) (hmd : ∀ m, t'.md = some m → m.nonce ≠ 0) :
    MdPos (A.write a k (nftStoredForm t')) := by
  intro a2 k2 t0 m hk2 hne hdec hm
  rw [Accts.read_write] at hne hdec
  split at hne
  · rename_i he
    rw [if_pos he] at hdec
    rcases nftStoredForm_cases' t' with ⟨he0, _⟩ | he1
    · exact absurd he0 hne
    · rw [he1] at hdec hl
      rw [roundtrip_of_length t' hn hl] at hdec
      cases hdec
      exact hmd m hm
  · rename_i he
    rw [if_neg he] at hdec
    exact hA a2 k2 t0 m hk2 hne hdec hm

theorem args_cons4 {args : List Bytes} {a b d e : Bytes} (h0 : args[0]? = some a) (h1 : args[1]? = some b)
    (h2 : args[2]? = some d) (h3 : args[3]? = some e) : ∃ rest, args = a :: b :: d :: e :: rest := by
  match args, h0, h1, h2, h3 with
  | _ :: _ :: _ :: _ :: rest, h0, h1, h2, h3 =>
    simp at h0 h1 h2 h3; subst h0; subst h1; subst h2; subst h3; exact ⟨rest, rfl⟩
  | [_, _, _], _, _, _, h3 => simp at h3
  | [_, _], _, _, h2, _ => simp at h2
  | [_], _, h1, _, _ => simp at h1
  | [], h0, _, _, _ => simp at h0

/-- sender side, destination on another shard: what happens to one shard and which message leaves it -/
theorem nft_user_cross (env : Env) (c : Call) (A A' : Accts) (out : VMOutput) (ctx' : Ctx) (hI : SInv A)
    (hs : present env.nshards env.self c.caller = true)
    (hx : ∀ d, c.args[3]? = some d → env.self ≠ shardOf env.nshards d)
    (h : esdtNFTTransferSender env c { accts := A } = .ok (out, ctx')) (hA' : ctx'.accts = A') (hS' : Short A')
    (k : Bytes) :
    ∃ m, msgOf c out = some m ∧ m.caller = c.caller ∧ c.args[3]? = some m.rcv ∧
      (∃ t q, decToken m.payload = some t ∧ t.value = some q ∧ 0 ≤ q ∧ ∀ md, t.md = some md → md.nonce ≠ 0) ∧
      balAt A' k + m.contrib k = balAt A k ∧ A'.Nodup ∧ MdPos A' := by
  obtain ⟨tok, nb, qb, dst, t, v, h0, h1, h2, h3, hn0, hle, hw, hnon, hlen, tr, hout, hdata⟩ :=
    (nftTransferSender_crossShard_effect_len env c { accts := A } hs hx).elim h
  rw [hA'] at hw
  obtain ⟨rest, hargs⟩ := args_cons4 h0 h1 h2 h3
  have hnum : NumOK t := decToken_num _ _ hw.old
  obtain ⟨m0, hm0⟩ := Option.isSome_iff_exists.mp hw.hasMeta
  have hpos : m0.nonce ≠ 0 := hI.mdpos _ _ t m0 (tokKey_nft _ _) hw.present hw.old hm0
  have hnonce : mdNonce t = u64 (beNat nb) := by
    rcases hnon m0 hm0 with h | h
    · exact absurd h hpos
    · simp [mdNonce, hm0, h]
  -- the message
  have hparse : parseCall tr.data = .ok (fnESDTNFTTransfer,
      tok :: nb :: qb :: encToken { t with value := some (beNat qb : Int) } :: rest) := by
    rw [hdata, parseCall_encodeCall _ _ (by decide) (by decide), hargs]
    simp
  let msg : NMsg := { caller := c.caller, rcv := dst, tok := tok, nb := nb, qb := qb,
                      payload := encToken { t with value := some (beNat qb : Int) }, refund := false }
  have hmsg : msgOf c out = some msg := by
    simp only [msgOf, hout, hparse]
    rfl
  have hrt : decToken msg.payload = some { t with value := some (beNat qb : Int) } :=
    roundtrip_of_length _ (hnum.withValue _) hlen
  refine ⟨msg, hmsg, rfl, h3, ⟨_, _, hrt, rfl, by omega, ?_⟩, ?_, hw.nodup hI.nodup, ?_⟩
  · intro md hmd
    have : t.md = some md := hmd
    rw [hm0] at this; cases this; exact hpos
  · have hb := hw.balAt hI.nodup hnonce (by omega) hS' k
    rw [hb]
    simp only [NMsg.contrib, NMsg.key, NMsg.amt, hrt, mdNonce, hm0]
    have : m0.nonce = u64 (beNat nb) := by simpa [mdNonce, hm0] using hnonce
    rw [this]
    simp only [Option.getD_some]
    split <;> omega
  · rw [hw.written]
    have hl := hS' c.caller (nftKey (esdtKeyPrefix ++ tok) (mdNonce t))
    rw [hw.written, Accts.read_write, if_pos ⟨rfl, rfl⟩] at hl
    exact mdpos_write_nft _ _ _ hI.mdpos (hnum.withValue _) hl (fun md hmd => by
      have : t.md = some md := hmd
      rw [hm0] at this; cases this; exact hpos)

end Esdt

namespace Esdt

/-- the sender-side lookup only accepts an entry whose metadata says the nonce asked for (or nonce 0) -/
theorem nftSender_nonce (env : Env) (c : Call) (ctx : Ctx) (hs : present env.nshards env.self c.caller = true) :
    Post (esdtNFTTransferSender env c) ctx (fun _ _ => ∀ tok nb t m, c.args[0]? = some tok → c.args[1]? = some nb →
      decToken (ctx.accts.read c.caller (nftKey (esdtKeyPrefix ++ tok) (u64 (beNat nb)))) = some t → t.md = some m →
      m.nonce = 0 ∨ m.nonce = u64 (beNat nb)) := by
  unfold esdtNFTTransferSender
  simp only [hs, Bool.not_true, Bool.false_eq_true, if_false]
  xsteps
  rename_i tok0 ha0 _ _ _ _ _ _ nb0 ha1 _
  apply Post.mono (spec_getNFTOnSender _ _ _ ctx)
  intro t c1 ⟨_, _, hdec, _, hnon⟩
  apply Post.intro
  intro _ _ tok nb t' m h0 h1 hdec' hm
  rw [ha0] at h0; cases h0
  rw [ha1] at h1; cases h1
  rw [hdec] at hdec'; cases hdec'
  exact hnon m hm

/-- sender side, destination on the same shard: the shard's per-key sums are unchanged -/
theorem nft_user_same (env : Env) (c : Call) (A A' : Accts) (out : VMOutput) (ctx' : Ctx) (hI : SInv A)
    (hs : present env.nshards env.self c.caller = true)
    (hx : ∀ d, c.args[3]? = some d → env.self = shardOf env.nshards d)
    (hdsys : ∀ d, c.args[3]? = some d → d ≠ systemAccountAddress)
    (h : esdtNFTTransferSender env c { accts := A } = .ok (out, ctx')) (hA' : ctx'.accts = A') (hS' : Short A')
    (k : Bytes) : balAt A' k = balAt A k ∧ A'.Nodup ∧ MdPos A' := by
  obtain ⟨tok, nb, qb, dst, t, v, A1, cur, cv, h0, h1, h2, h3, hn0, hle, hw, hcur, _, hcv, hfin⟩ :=
    (nftTransferSender_sameShard_effect env c { accts := A } hs hx).elim h
  obtain ⟨dst', h3', _, hne, _⟩ := (nftTransferSender_destination_ok env c { accts := A }).elim h
  rw [h3] at h3'; cases h3'
  rw [hA'] at hfin
  have hnum : NumOK t := decToken_num _ _ hw.old
  obtain ⟨m0, hm0⟩ := Option.isSome_iff_exists.mp hw.hasMeta
  have hpos : m0.nonce ≠ 0 := hI.mdpos _ _ t m0 (tokKey_nft _ _) hw.present hw.old hm0
  have hmdt : ∀ md, t.md = some md → md.nonce ≠ 0 := fun md hmd => by rw [hm0] at hmd; cases hmd; exact hpos
  -- the two written slots are different accounts
  have hA1 : A1 = A.write c.caller (nftKey (esdtKeyPrefix ++ tok) (mdNonce t))
      (nftStoredForm { t with value := some (v - beNat qb) }) := hw.written
  have hread1 : A'.read c.caller (nftKey (esdtKeyPrefix ++ tok) (mdNonce t)) =
      nftStoredForm { t with value := some (v - beNat qb) } := by
    rw [hfin, Accts.read_write, if_neg (fun ⟨e, _⟩ => hne e), hA1, Accts.read_write, if_pos ⟨rfl, rfl⟩]
  have hl1 := hS' c.caller (nftKey (esdtKeyPrefix ++ tok) (mdNonce t))
  rw [hread1] at hl1
  have hl2 := hS' dst (nftKey (esdtKeyPrefix ++ tok) (mdNonce t))
  rw [hfin, Accts.read_write, if_pos ⟨rfl, rfl⟩] at hl2
  have hcur' : tokenOf (A.read dst (nftKey (esdtKeyPrefix ++ tok) (mdNonce t))) = some cur := by
    rw [hA1, Accts.read_write, if_neg (fun ⟨e, _⟩ => hne e.symm)] at hcur; exact hcur
  have hcv0 : 0 ≤ cv := by
    obtain ⟨⟨v', hv', h0'⟩, _⟩ := hI.canon.read (tokKey_nft tok _) (hdsys dst h3) hcur'
    rw [hcv] at hv'; cases hv'; exact h0'
  -- the nonce of the entry is the one asked for
  have hn1 : A1.Nodup := hw.nodup hI.nodup
  refine ⟨?_, ?_, ?_⟩
  · -- sums
    have hb1 : balAt A1 k = balAt A k + (if nftKey (esdtKeyPrefix ++ tok) (mdNonce t) = k then
        (v - beNat qb) - balOf (A.read c.caller (nftKey (esdtKeyPrefix ++ tok) (mdNonce t))) else 0) := by
      rw [hA1, balAt_write A hI.nodup]
      split
      · rw [balOf_nftStoredForm_len _ (v - beNat qb) rfl (by omega) (hnum.withValue _) hl1]
      · rfl
    have hb2 := credit_balAt hn1 dst (esdtKeyPrefix ++ tok) t cur (beNat qb) cv hcur hcv (by omega) hnum hfin hS' k
    -- the sender's slot before: the entry read is under the key of its own nonce
    have hsame : balOf (A.read c.caller (nftKey (esdtKeyPrefix ++ tok) (mdNonce t))) = v := by
      have hk : mdNonce t = u64 (beNat nb) := by
        rcases (nftSender_nonce env c { accts := A } hs).elim h tok nb t m0 h0 h1 hw.old hm0 with hz | hz
        · exact absurd hz hpos
        · simp [mdNonce, hm0, hz]
      rw [hk]; exact balOf_dec hw.present hw.old hw.value
    rw [hb2, hb1, hsame]
    split <;> omega
  · rw [hfin]; exact Accts.write_nodup _ hn1 _ _ _
  · rw [hfin]
    apply mdpos_write_nft _ _ _ _ (hnum.withValue _) hl2 hmdt
    rw [hA1]
    exact mdpos_write_nft _ _ _ hI.mdpos (hnum.withValue _) hl1 hmdt

end Esdt

namespace Esdt

/-- destination side (a delivery, or a refund on the origin shard): the carried quantity is credited under the key of the
    payload's own nonce -/
theorem nft_dest (env : Env) (c : Call) (A A' : Accts) (out : VMOutput) (ctx' : Ctx) (hI : SInv A)
    (hne : c.caller ≠ c.rcv) (hrsys : c.rcv ≠ systemAccountAddress)
    (tok nb qb payload : Bytes) (hargs : c.args = [tok, nb, qb, payload])
    (t : Token) (q : Int) (hdec : decToken payload = some t) (hq : t.value = some q) (hq0 : 0 ≤ q)
    (hmd : ∀ md, t.md = some md → md.nonce ≠ 0)
    (h : esdtNFTTransfer env c { accts := A } = .ok (out, ctx')) (hA' : ctx'.accts = A') (hS' : Short A') (k : Bytes) :
    balAt A' k = balAt A k + (if nftKey (esdtKeyPrefix ++ tok) (mdNonce t) = k then q else 0) ∧ A'.Nodup ∧ MdPos A' := by
  obtain ⟨tok', payload', t', cur, tv, cv, h0, h3, hdec', _, _, hcur, _, _, _, htv, hcv, hw⟩ :=
    (nftTransfer_dest_effect env c { accts := A } hne).elim h
  rw [hargs] at h0 h3
  simp at h0 h3
  subst h0; subst h3
  rw [hdec] at hdec'; cases hdec'
  rw [hq] at htv; cases htv
  rw [hA'] at hw
  have hnum : NumOK t := decToken_num _ _ hdec
  have hcv0 : 0 ≤ cv := by
    obtain ⟨⟨v', hv', h0'⟩, _⟩ := hI.canon.read (tokKey_nft tok _) hrsys hcur
    rw [hcv] at hv'; cases hv'; exact h0'
  have hl := hS' c.rcv (nftKey (esdtKeyPrefix ++ tok) (mdNonce t))
  rw [hw, Accts.read_write, if_pos ⟨rfl, rfl⟩] at hl
  refine ⟨credit_balAt hI.nodup c.rcv (esdtKeyPrefix ++ tok) t cur q cv hcur hcv (by omega) hnum hw hS' k, ?_, ?_⟩
  · rw [hw]; exact Accts.write_nodup _ hI.nodup _ _ _
  · rw [hw]; exact mdpos_write_nft _ _ _ hI.mdpos (hnum.withValue _) hl hmd

/-- a successful ESDTNFTTransfer keeps the shard invariant (given the facts the three lemmas above return) -/
theorem sinv_of (env : Env) (c : Call) (A A' : Accts) (out : VMOutput) (ctx' : Ctx) (hI : SInv A)
    (hreach : c.caller = c.rcv → present env.nshards env.self c.caller = true)
    (h : esdtNFTTransfer env c { accts := A } = .ok (out, ctx')) (hA' : ctx'.accts = A')
    (hnd : A'.Nodup) (hmp : MdPos A') : SInv A' := by
  have hS' : Short A' := by rw [← hA']; exact (sp_esdtNFTTransfer env c { accts := A } hI.short).elim h
  refine ⟨hnd, ?_, hS', hmp⟩
  rw [← hA'] at hS' ⊢
  exact (canon_nftTransfer env c { accts := A } ctx' out hI.canon hreach h).toCanon hS'

end Esdt

namespace Esdt

theorem NMsgOK.ne {e : Env} {m : NMsg} (h : NMsgOK e m) : m.caller ≠ m.rcv := by
  intro he
  have := h.cross
  rw [← he, present_self] at this
  cases this

theorem NMsgOK.destAbsent {e : Env} {m : NMsg} (h : NMsgOK e m) :
    present e.nshards (shardOf e.nshards m.rcv) m.caller = false := by
  have h2 := h.cross
  simp only [present, Bool.or_eq_false_iff, beq_eq_false_iff_ne, ne_eq] at h2 ⊢
  exact ⟨h.notSys, fun e' => h2.2 e'.symm⟩

theorem NMsgOK.rcvNotSys {e : Env} {m : NMsg} (h : NMsgOK e m) : m.rcv ≠ systemAccountAddress := by
  have h2 := h.cross
  simp only [present, Bool.or_eq_false_iff, beq_eq_false_iff_ne, ne_eq] at h2
  exact h2.1

/-- one step of the NFT world keeps the invariant and the supply of every storage key -/
theorem nftStep_supply (e : Env) (w : NFTWorld) (st : NStep) (hI : NWorldInv e w) (hok : NFTStepOK st) (k : Bytes) :
    nsupply (nftStep e w st) k = nsupply w k ∧ NWorldInv e (nftStep e w st) := by
  cases st with
  | user c =>
    obtain ⟨hself, hsys, hdsys⟩ := hok
    simp only [nftStep]
    cases hr : runNFT e w.shards (shardOf e.nshards c.caller) c with
    | none => exact ⟨rfl, hI⟩
    | some p =>
      obtain ⟨out, A'⟩ := p
      simp only []
      obtain ⟨A, ctx', hA, hex, hA'⟩ := runNFT_some hr
      have hIA : SInv A := hI.shards A (List.mem_of_getElem? hA)
      let env : Env := { e with self := shardOf e.nshards c.caller }
      have hs : present env.nshards env.self c.caller = true := present_self _ _
      have hS' : Short A' := by rw [← hA']; exact (sp_esdtNFTTransfer env c { accts := A } hIA.short).elim hex
      have hsend : esdtNFTTransferSender env c { accts := A } = .ok (out, ctx') :=
        (nftTransfer_sender_path env c { accts := A } hself).elim hex
      cases h3 : c.args[3]? with
      | none =>
        -- impossible: the sender path reads the destination argument
        exfalso
        obtain ⟨dst', h3', _⟩ := (nftTransferSender_destination_ok env c { accts := A }).elim hsend
        rw [h3] at h3'; cases h3'
      | some dst =>
        simp only []
        by_cases hx : shardOf e.nshards c.caller = shardOf e.nshards dst
        · simp only [hx, if_true]
          have hx' : ∀ d, c.args[3]? = some d → env.self = shardOf env.nshards d := by
            intro d hd; rw [h3] at hd; cases hd; exact hx
          obtain ⟨hb, hnd, hmp⟩ := nft_user_same env c A A' out ctx' hIA hs hx' hdsys hsend hA' hS' k
          have hIA' := sinv_of env c A A' out ctx' hIA (fun _ => hs) hex hA' hnd hmp
          refine ⟨?_, ⟨by rw [← hx]; exact mem_set_of _ _ _ _ hI.shards hIA', hI.msgs, trivial⟩⟩
          have := nsupply_set_shard w _ A A' w.inflight k hA
          rw [← hx, this, hb]; omega
        · simp only [hx, if_false]
          have hx' : ∀ d, c.args[3]? = some d → env.self ≠ shardOf env.nshards d := by
            intro d hd; rw [h3] at hd; cases hd; exact hx
          obtain ⟨m, hm, hmc, hmr, hpay, hb, hnd, hmp⟩ := nft_user_cross env c A A' out ctx' hIA hs hx' hsend hA' hS' k
          have hIA' := sinv_of env c A A' out ctx' hIA (fun _ => hs) hex hA' hnd hmp
          rw [h3] at hmr; cases hmr
          simp only [hm, Option.toList]
          refine ⟨?_, ⟨mem_set_of _ _ _ _ hI.shards hIA', ?_, trivial⟩⟩
          · rw [nsupply_set_shard w _ A A' _ k hA, nflightAt_append]; omega
          · intro m' hm'
            rcases List.mem_append.mp hm' with h' | h'
            · exact hI.msgs m' h'
            · simp at h'; subst h'
              refine ⟨by rw [hmc]; exact hsys, ?_, hpay⟩
              rw [hmc]
              simp only [present, Bool.or_eq_false_iff, beq_eq_false_iff_ne, ne_eq]
              exact ⟨hdsys _ h3, fun e' => hx e'.symm⟩
  | deliver i =>
    simp only [nftStep]
    cases hm : w.inflight[i]? with
    | none => exact ⟨rfl, hI⟩
    | some m =>
      simp only []
      have hmok := hI.msgs m (List.mem_of_getElem? hm)
      cases hrf : m.refund
      · simp only [Bool.false_eq_true, if_false]
        cases hr : runNFT e w.shards (shardOf e.nshards m.rcv) (nDeliveryCall m) with
        | none =>
          simp only []
          refine ⟨?_, ⟨hI.shards, mem_set_of _ _ _ _ hI.msgs ⟨hmok.notSys, hmok.cross, hmok.payload⟩, trivial⟩⟩
          simp only [nsupply]
          rw [nflightAt_set _ _ m _ _ hm]
          have : ({ m with refund := true } : NMsg).contrib k = m.contrib k := rfl
          rw [this]
          omega
        | some p =>
          obtain ⟨out, A'⟩ := p
          simp only []
          obtain ⟨A, ctx', hA, hex, hA'⟩ := runNFT_some hr
          have hIA : SInv A := hI.shards A (List.mem_of_getElem? hA)
          let env : Env := { e with self := shardOf e.nshards m.rcv }
          obtain ⟨t, q, hdec, hq, hq0, hmd⟩ := hmok.payload
          have hne : (nDeliveryCall m).caller ≠ (nDeliveryCall m).rcv := hmok.ne
          have hS' : Short A' := by
            rw [← hA']; exact (sp_esdtNFTTransfer env (nDeliveryCall m) { accts := A } hIA.short).elim hex
          obtain ⟨hb, hnd, hmp⟩ := nft_dest env (nDeliveryCall m) A A' out ctx' hIA hne hmok.rcvNotSys
            m.tok m.nb m.qb m.payload rfl t q hdec hq hq0 hmd hex hA' hS' k
          have hIA' := sinv_of env (nDeliveryCall m) A A' out ctx' hIA (fun h => absurd h hne) hex hA' hnd hmp
          refine ⟨?_, ⟨mem_set_of _ _ _ _ hI.shards hIA', fun m' hm' => hI.msgs m' (List.mem_of_mem_eraseIdx hm'), trivial⟩⟩
          rw [nsupply_set_shard w _ A A' _ k hA, nflightAt_eraseIdx _ _ m _ hm, hb]
          simp only [NMsg.contrib, NMsg.key, NMsg.amt, hdec, hq, Option.getD_some]
          split <;> omega
      · simp only [if_true]; exact ⟨by first | rfl | trivial, hI⟩
  | refund i =>
    simp only [nftStep]
    cases hm : w.inflight[i]? with
    | none => exact ⟨rfl, hI⟩
    | some m =>
      simp only []
      have hmok := hI.msgs m (List.mem_of_getElem? hm)
      cases hrf : m.refund
      · simp only [Bool.not_false, if_true]; exact ⟨by first | rfl | trivial, hI⟩
      · simp only [Bool.not_true, Bool.false_eq_true, if_false]
        cases hr : runNFT e w.shards (shardOf e.nshards m.caller) (nRefundCall m) with
        | none => exact ⟨rfl, hI⟩
        | some p =>
          obtain ⟨out, A'⟩ := p
          simp only []
          obtain ⟨A, ctx', hA, hex, hA'⟩ := runNFT_some hr
          have hIA : SInv A := hI.shards A (List.mem_of_getElem? hA)
          let env : Env := { e with self := shardOf e.nshards m.caller }
          obtain ⟨t, q, hdec, hq, hq0, hmd⟩ := hmok.payload
          have hne : (nRefundCall m).caller ≠ (nRefundCall m).rcv := fun h => hmok.ne h.symm
          have hS' : Short A' := by
            rw [← hA']; exact (sp_esdtNFTTransfer env (nRefundCall m) { accts := A } hIA.short).elim hex
          obtain ⟨hb, hnd, hmp⟩ := nft_dest env (nRefundCall m) A A' out ctx' hIA hne hmok.notSys
            m.tok m.nb m.qb m.payload rfl t q hdec hq hq0 hmd hex hA' hS' k
          have hIA' := sinv_of env (nRefundCall m) A A' out ctx' hIA (fun h => absurd h hne) hex hA' hnd hmp
          refine ⟨?_, ⟨mem_set_of _ _ _ _ hI.shards hIA', fun m' hm' => hI.msgs m' (List.mem_of_mem_eraseIdx hm'), trivial⟩⟩
          rw [nsupply_set_shard w _ A A' _ k hA, nflightAt_eraseIdx _ _ m _ hm, hb]
          simp only [NMsg.contrib, NMsg.key, NMsg.amt, hdec, hq, Option.getD_some]
          split <;> omega

theorem nftRun_supply (e : Env) : ∀ (steps : List NStep) (w : NFTWorld), NWorldInv e w → (∀ s ∈ steps, NFTStepOK s) →
    ∀ k, nsupply (nftRun e steps w) k = nsupply w k ∧ NWorldInv e (nftRun e steps w) := by
  intro steps
  induction steps with
  | nil => intro w hI _ k; exact ⟨rfl, hI⟩
  | cons s rest ih =>
    intro w hI hok k
    obtain ⟨h1, hI1⟩ := nftStep_supply e w s hI (hok s (by simp)) k
    obtain ⟨h2, hI2⟩ := ih (nftStep e w s) hI1 (fun s' hs' => hok s' (by simp [hs'])) k
    exact ⟨by simp only [nftRun]; rw [h2, h1], hI2⟩

end Esdt
