/-
  Proofs/Frame.lean — C05: every built-in function has a bounded footprint.
  `Frame F A A'`: accounts `A'` differ from `A` at most in the slots selected by `F`.
  Read-only helpers are handled by `RO`, writers by `FrameStep` lemmas with footprint side conditions.
-/
import Proofs.Wp
namespace Esdt

inductive Slot
  | key (k : Bytes)
  | balance | reward | owner | name
deriving DecidableEq

def SlotSame (x y : Acct) : Slot → Prop
  | .key k => y.store.get k = x.store.get k
  | .balance => y.balance = x.balance
  | .reward => y.reward = x.reward
  | .owner => y.owner = x.owner
  | .name => y.name = x.name

def Frame (F : Bytes → Slot → Prop) (A A' : Accts) : Prop :=
  ∀ a s, ¬ F a s → SlotSame (A.get a) (A'.get a) s

theorem Frame.refl (F : Bytes → Slot → Prop) (A : Accts) : Frame F A A := by
  intro a s _; cases s <;> rfl

theorem SlotSame.trans {x y z : Acct} {s : Slot} (h1 : SlotSame x y s) (h2 : SlotSame y z s) : SlotSame x z s := by
  cases s <;> simp only [SlotSame] at * <;> rw [h2, h1]

theorem Frame.trans {F : Bytes → Slot → Prop} {A B C : Accts} (h1 : Frame F A B) (h2 : Frame F B C) : Frame F A C :=
  fun a s hs => (h1 a s hs).trans (h2 a s hs)

/-! ### read-only computations -/

/-- `m` never changes the accounts -/
@[reducible] def RO {α} (m : M α) : Prop := ∀ c, Post m c (fun _ c' => c'.accts = c.accts)

theorem RO.pure {α} (a : α) : RO (pure a : M α) := fun _ => Post.pure rfl
theorem RO.fail {α} (e : ErrKind) : RO (fail e : M α) := fun _ => Post.fail
theorem RO.goPanic {α} : RO (goPanic : M α) := fun _ => Post.goPanic

theorem RO.bind {α β} {m : M α} {f : α → M β} (hm : RO m) (hf : ∀ a, RO (f a)) : RO (m >>= f) := by
  intro c
  apply Post.bind
  apply Post.mono (hm c)
  intro a c1 h1
  apply Post.mono (hf a c1)
  intro b c2 h2
  rw [h2, h1]

theorem RO.of_eq {α} (m : M α) (h : ∀ c a c', m c = .ok (a, c') → c'.accts = c.accts) : RO m :=
  fun c => Post.of_forall (h c)

theorem RO.tick (d : Dep) : RO (tick d) := RO.of_eq _ (by
  intro c a c' h; unfold Esdt.tick at h; split at h <;> simp at h; rw [← h])
theorem RO.readKey (a k : Bytes) : RO (readKey a k) := RO.of_eq _ (by
  intro c x c' h; simp [Esdt.readKey] at h; rw [← h.2])
theorem RO.getAcct (a : Bytes) : RO (getAcct a) := RO.of_eq _ (by
  intro c x c' h; simp [Esdt.getAcct] at h; rw [← h.2])
theorem RO.guardE (b : Bool) (e : ErrKind) : RO (guardE b e) := by
  unfold Esdt.guardE; split
  · exact RO.fail e
  · exact RO.pure ()
theorem RO.deref {α} (o : Option α) : RO (deref o) := by
  unfold Esdt.deref; split
  · exact RO.pure _
  · exact RO.goPanic
theorem RO.argAt (args : List Bytes) (i : Nat) : RO (argAt args i) := RO.deref _
theorem RO.ite {α} {p : Prop} [Decidable p] {A B : M α} (h1 : RO A) (h2 : RO B) : RO (if p then A else B) := by
  split
  · exact h1
  · exact h2

syntax "ro_spec" : tactic
macro_rules | `(tactic| ro_spec) => `(tactic| fail "no RO lemma applies")

macro "ro_step" : tactic => `(tactic| with_reducible first
  | refine RO.bind ?_ (fun _ => ?_)
  | exact RO.pure _
  | exact RO.fail _
  | exact RO.goPanic
  | exact RO.tick _
  | exact RO.guardE _ _
  | exact RO.argAt _ _
  | exact RO.deref _
  | exact RO.readKey _ _
  | exact RO.getAcct _
  | ro_spec
  | apply RO.ite
  | (show RO _; dsimp only)
  | (show RO _; split))
macro "ro" : tactic => `(tactic| repeat' ro_step)

theorem ro_loadAcct : RO loadAcct := RO.tick _
theorem ro_saveAcct : RO saveAcct := RO.tick _
macro_rules | `(tactic| ro_spec) => `(tactic| exact ro_loadAcct)
macro_rules | `(tactic| ro_spec) => `(tactic| exact ro_saveAcct)
theorem ro_marshalToken (t : Token) : RO (marshalToken t) := by unfold marshalToken; ro
theorem ro_marshalRoles (r : List Bytes) : RO (marshalRoles r) := by unfold marshalRoles; ro
theorem ro_unmarshalToken (b : Bytes) : RO (unmarshalToken b) := by unfold unmarshalToken; ro
theorem ro_unmarshalRoles (b : Bytes) : RO (unmarshalRoles b) := by unfold unmarshalRoles; ro
macro_rules | `(tactic| ro_spec) => `(tactic| exact ro_marshalToken _)
macro_rules | `(tactic| ro_spec) => `(tactic| exact ro_marshalRoles _)
macro_rules | `(tactic| ro_spec) => `(tactic| exact ro_unmarshalToken _)
macro_rules | `(tactic| ro_spec) => `(tactic| exact ro_unmarshalRoles _)
theorem ro_checkBasic (c : Call) : RO (checkBasic c) := by unfold checkBasic; ro
macro_rules | `(tactic| ro_spec) => `(tactic| exact ro_checkBasic _)
theorem ro_verifyPayable (env : Env) (a : Bytes) : RO (verifyPayable env a) := by unfold verifyPayable; ro
macro_rules | `(tactic| ro_spec) => `(tactic| exact ro_verifyPayable _ _)
theorem ro_verifyPayableIf (env : Env) (b : Bool) (a : Bytes) : RO (verifyPayableIf env b a) := by
  unfold verifyPayableIf; ro
macro_rules | `(tactic| ro_spec) => `(tactic| exact ro_verifyPayableIf _ _ _)
theorem ro_checkSameHash (cur t : Token) : RO (checkSameHash cur t) := by unfold checkSameHash; ro
macro_rules | `(tactic| ro_spec) => `(tactic| exact ro_checkSameHash _ _)
theorem ro_isPaused (k : Bytes) : RO (isPaused k) := by unfold isPaused; ro
macro_rules | `(tactic| ro_spec) => `(tactic| exact ro_isPaused _)
theorem ro_checkFrozeAndPause (a k : Bytes) (t : Token) (r : Bool) : RO (checkFrozeAndPause a k t r) := by
  unfold checkFrozeAndPause; ro
macro_rules | `(tactic| ro_spec) => `(tactic| exact ro_checkFrozeAndPause _ _ _ _)
theorem ro_getESDTDataFromKey (a k : Bytes) : RO (getESDTDataFromKey a k) := by unfold getESDTDataFromKey; ro
macro_rules | `(tactic| ro_spec) => `(tactic| exact ro_getESDTDataFromKey _ _)
theorem ro_getNFTOnDestination (a k : Bytes) (n : Nat) : RO (getNFTOnDestination a k n) := by
  unfold getNFTOnDestination; ro
macro_rules | `(tactic| ro_spec) => `(tactic| exact ro_getNFTOnDestination _ _ _)
theorem ro_getNFTOnSender (a k : Bytes) (n : Nat) : RO (getNFTOnSender a k n) := by unfold getNFTOnSender; ro
macro_rules | `(tactic| ro_spec) => `(tactic| exact ro_getNFTOnSender _ _ _)
theorem ro_getRoles (a k : Bytes) : RO (getRoles a k) := by unfold getRoles; ro
macro_rules | `(tactic| ro_spec) => `(tactic| exact ro_getRoles _ _)
theorem ro_checkAllowed (a t r : Bytes) : RO (checkAllowed a t r) := by unfold checkAllowed; ro
macro_rules | `(tactic| ro_spec) => `(tactic| exact ro_checkAllowed _ _ _)
theorem ro_checkAllowedIf (b : Bool) (a t r : Bytes) : RO (checkAllowedIf b a t r) := by unfold checkAllowedIf; ro
macro_rules | `(tactic| ro_spec) => `(tactic| exact ro_checkAllowedIf _ _ _ _)
theorem ro_getLatestNonce (a t : Bytes) : RO (getLatestNonce a t) := by unfold getLatestNonce; ro
macro_rules | `(tactic| ro_spec) => `(tactic| exact ro_getLatestNonce _ _)
theorem ro_checkLocalAction (p : Bool) (c : Call) (cost : Nat) : RO (checkLocalAction p c cost) := by
  unfold checkLocalAction; ro
macro_rules | `(tactic| ro_spec) => `(tactic| exact ro_checkLocalAction _ _ _)
theorem ro_checkCreateBurnAdd (p : Bool) (c : Call) (cost : Nat) : RO (checkCreateBurnAdd p c cost) := by
  unfold checkCreateBurnAdd; ro
macro_rules | `(tactic| ro_spec) => `(tactic| exact ro_checkCreateBurnAdd _ _ _)

/-! ### writers -/

/-- `m` started in `c` only changes slots in `F` -/
@[reducible] def FrameStep (F : Bytes → Slot → Prop) {α} (m : M α) (c : Ctx) : Prop :=
  Post m c (fun _ c' => ∀ A0, Frame F A0 c.accts → Frame F A0 c'.accts)

theorem FrameStep.of_RO {F : Bytes → Slot → Prop} {α} {m : M α} (h : RO m) (c : Ctx) : FrameStep F m c :=
  Post.mono (h c) (fun _ c' he A0 h0 => by rw [he]; exact h0)

theorem Accts.get_set_slot (A : Accts) (a : Bytes) (x : Acct) (b : Bytes) (s : Slot)
    (h : b = a → SlotSame (A.get a) x s) : SlotSame (A.get b) ((A.set a x).get b) s := by
  by_cases hb : a = b
  · subst hb; rw [Accts.get_set_same]; exact h rfl
  · rw [Accts.get_set_ne _ _ _ _ hb]; cases s <;> rfl

theorem FrameStep.writeKey (F : Bytes → Slot → Prop) (a k v : Bytes) (c : Ctx) (hF : F a (.key k)) :
    FrameStep F (writeKey a k v) c := by
  unfold Esdt.writeKey FrameStep
  apply Post.bind
  apply Post.mono (RO.tick .w c)
  intro _ c1 h1
  apply Post.of_forall
  intro u c2 he
  simp at he
  intro A0 h0
  rw [← he]
  simp only
  rw [h1]
  refine Frame.trans h0 ?_
  intro b s hs
  apply Accts.get_set_slot
  intro hb
  subst hb
  cases s with
  | key k2 =>
    simp only [SlotSame]
    have : k ≠ k2 := fun e => hs (e ▸ hF)
    exact Store.get_put_ne _ _ _ _ this
  | balance => rfl
  | reward => rfl
  | owner => rfl
  | name => rfl

theorem FrameStep.setField (F : Bytes → Slot → Prop) (a : Bytes) (g : Acct → Acct) (s0 : Slot) (c : Ctx) (hF : F a s0)
    (hg : ∀ x s, s ≠ s0 → SlotSame x (g x) s) :
    FrameStep F (fun c => Res.ok ((), { c with accts := c.accts.set a (g (c.accts.get a)) }) : M Unit) c := by
  unfold FrameStep
  apply Post.of_forall
  intro u c2 he
  simp at he
  intro A0 h0
  rw [← he]
  simp only
  refine Frame.trans h0 ?_
  intro b s hs
  apply Accts.get_set_slot
  intro hb
  subst hb
  exact hg _ s (fun e => hs (e ▸ hF))

theorem FrameStep.setOwner (F : Bytes → Slot → Prop) (a v : Bytes) (c : Ctx) (hF : F a .owner) :
    FrameStep F (setOwner a v) c :=
  FrameStep.setField F a (fun x => { x with owner := v }) .owner c hF (by intro x s hs; cases s <;> first | rfl | exact absurd rfl hs)
theorem FrameStep.setName (F : Bytes → Slot → Prop) (a v : Bytes) (c : Ctx) (hF : F a .name) :
    FrameStep F (setName a v) c :=
  FrameStep.setField F a (fun x => { x with name := v }) .name c hF (by intro x s hs; cases s <;> first | rfl | exact absurd rfl hs)
theorem FrameStep.setReward (F : Bytes → Slot → Prop) (a : Bytes) (v : Int) (c : Ctx) (hF : F a .reward) :
    FrameStep F (setReward a v) c :=
  FrameStep.setField F a (fun x => { x with reward := v }) .reward c hF (by intro x s hs; cases s <;> first | rfl | exact absurd rfl hs)
theorem FrameStep.setBalance (F : Bytes → Slot → Prop) (a : Bytes) (v : Int) (c : Ctx) (hF : F a .balance) :
    FrameStep F (setBalance a v) c :=
  FrameStep.setField F a (fun x => { x with balance := v }) .balance c hF (by intro x s hs; cases s <;> first | rfl | exact absurd rfl hs)

/-- bind rule for frame steps -/
theorem FrameStep.bind {F : Bytes → Slot → Prop} {α β} {m : M α} {f : α → M β} {c : Ctx}
    (hm : FrameStep F m c) (hf : ∀ a c1, FrameStep F (f a) c1) : FrameStep F (m >>= f) c := by
  unfold FrameStep at *
  apply Post.bind
  apply Post.mono hm
  intro a c1 h1
  apply Post.mono (hf a c1)
  intro b c2 h2 A0 h0
  exact h2 A0 (h1 A0 h0)

end Esdt

namespace Esdt

theorem Frame.of_accts_eq {F : Bytes → Slot → Prop} {A0 : Accts} {c c1 : Ctx} (he : c1.accts = c.accts)
    (h : Frame F A0 c.accts) : Frame F A0 c1.accts := by rw [he]; exact h

/-! ### the footprint of the token functions -/

def addrOK (c : Call) (a : Bytes) : Prop := a = c.caller ∨ a = c.rcv ∨ a = systemAccountAddress ∨ a ∈ c.args

/-- protocol keys of a token named in the input; `r` / `n`: whether the role-list / nonce-counter namespace is included -/
def protoKey (r n : Bool) (c : Call) (k : Bytes) : Prop :=
  ∃ t ∈ c.args, (∃ s, k = esdtKeyPrefix ++ t ++ s) ∨ (r = true ∧ k = roleKeyPrefix ++ t) ∨ (n = true ∧ k = nonceKeyPrefix ++ t)

/-- token functions: only protocol entries (balance / role list / nonce counter / pause flag) of tokens named in
    the input, only in the sender, the destination, the system account or an address given as argument -/
def tokenFootprint (r n : Bool) (c : Call) (a : Bytes) : Slot → Prop
  | .key k => addrOK c a ∧ protoKey r n c k
  | _ => False

theorem fp_esdt (r n : Bool) (c : Call) (a t s : Bytes) (ha : addrOK c a) (ht : t ∈ c.args) :
    tokenFootprint r n c a (.key (esdtKeyPrefix ++ t ++ s)) := ⟨ha, t, ht, Or.inl ⟨s, rfl⟩⟩
theorem fp_esdt0 (r n : Bool) (c : Call) (a t : Bytes) (ha : addrOK c a) (ht : t ∈ c.args) :
    tokenFootprint r n c a (.key (esdtKeyPrefix ++ t)) := ⟨ha, t, ht, Or.inl ⟨[], by simp⟩⟩
theorem fp_nft (r n : Bool) (c : Call) (a t : Bytes) (k : Nat) (ha : addrOK c a) (ht : t ∈ c.args) :
    tokenFootprint r n c a (.key (nftKey (esdtKeyPrefix ++ t) k)) := ⟨ha, t, ht, Or.inl ⟨beBytes k, rfl⟩⟩
theorem fp_role (n : Bool) (c : Call) (a t : Bytes) (ha : addrOK c a) (ht : t ∈ c.args) :
    tokenFootprint true n c a (.key (roleKeyPrefix ++ t)) := ⟨ha, t, ht, Or.inr (Or.inl ⟨rfl, rfl⟩)⟩
theorem fp_nonce (r : Bool) (c : Call) (a t : Bytes) (ha : addrOK c a) (ht : t ∈ c.args) :
    tokenFootprint r true c a (.key (nonceKeyPrefix ++ t)) := ⟨ha, t, ht, Or.inr (Or.inr ⟨rfl, rfl⟩)⟩

theorem addrOK.caller (c : Call) : addrOK c c.caller := Or.inl rfl
theorem addrOK.rcv (c : Call) : addrOK c c.rcv := Or.inr (Or.inl rfl)
theorem addrOK.sys (c : Call) : addrOK c systemAccountAddress := Or.inr (Or.inr (Or.inl rfl))
theorem addrOK.arg (c : Call) (a : Bytes) (h : a ∈ c.args) : addrOK c a := Or.inr (Or.inr (Or.inr h))

macro "fp_aux" : tactic => `(tactic| first
  | exact addrOK.caller _
  | exact addrOK.rcv _
  | exact addrOK.sys _
  | (apply addrOK.arg; first | assumption | exact List.mem_of_getElem? ‹_›)
  | assumption
  | exact List.mem_of_getElem? ‹_›)

-- discharges footprint side conditions (the last alternatives use the hypothesis named `hF` of helper lemmas)
set_option hygiene false in
macro "fp_side" : tactic => `(tactic| (
  try intro _
  first
  | (apply fp_esdt0 <;> fp_aux)
  | (apply fp_esdt <;> fp_aux)
  | (apply fp_nft <;> fp_aux)
  | (apply fp_role <;> fp_aux)
  | (apply fp_nonce <;> fp_aux)
  | assumption
  | exact hF _
  | exact hF))

/-! ### the frame tactic -/

syntax "fr_spec " term : tactic
macro_rules | `(tactic| fr_spec $F) => `(tactic| fail "no frame lemma applies")

/-- leaf: a read-only helper -/
syntax "fr_ro1 " term : tactic
macro_rules | `(tactic| fr_ro1 $t) => `(tactic|
  (refine Post.mono ($t _) ?_; intro _ _ he; have hfr := Frame.of_accts_eq he (by assumption); clear he))

macro "fr_ro" : tactic => `(tactic| first
  | fr_ro1 (RO.tick _) | fr_ro1 (RO.readKey _ _) | fr_ro1 (RO.getAcct _) | fr_ro1 ro_loadAcct | fr_ro1 ro_saveAcct
  | fr_ro1 (ro_marshalToken _) | fr_ro1 (ro_marshalRoles _) | fr_ro1 (ro_unmarshalToken _) | fr_ro1 (ro_unmarshalRoles _)
  | fr_ro1 (ro_checkBasic _) | fr_ro1 (ro_verifyPayable _ _) | fr_ro1 (ro_verifyPayableIf _ _ _) | fr_ro1 (ro_checkSameHash _ _) | fr_ro1 (ro_isPaused _) | fr_ro1 (ro_checkFrozeAndPause _ _ _ _)
  | fr_ro1 (ro_getESDTDataFromKey _ _) | fr_ro1 (ro_getNFTOnDestination _ _ _) | fr_ro1 (ro_getNFTOnSender _ _ _)
  | fr_ro1 (ro_getRoles _ _) | fr_ro1 (ro_checkAllowed _ _ _) | fr_ro1 (ro_checkAllowedIf _ _ _ _) | fr_ro1 (ro_getLatestNonce _ _)
  | fr_ro1 (ro_checkLocalAction _ _ _) | fr_ro1 (ro_checkCreateBurnAdd _ _ _))

/-- leaf: a writer with its footprint side condition(s) -/
syntax "fr_w1 " term : tactic
macro_rules | `(tactic| fr_w1 $t) => `(tactic|
  (refine Post.mono $t ?_; intro _ _ hs; have hfr := hs _ (by assumption); clear hs))

syntax "fr_step " term : tactic
macro_rules | `(tactic| fr_step $F) => `(tactic| with_reducible first
  | (show Frame _ _ _; assumption)
  | apply Post.bind
  | (apply Post.pure; assumption)
  | apply Post.pure
  | apply Post.fail
  | apply Post.goPanic
  | (apply Post.guardE; intro _)
  | (apply Post.argAt; intro _ _)
  | (apply Post.deref; intro _ _)
  | fr_ro
  | fr_spec $F
  | (apply Post.ite <;> intro _)
  | (show Post _ _ _; dsimp only)
  | (show Post _ _ _; split))

syntax "fr " term : tactic
macro_rules | `(tactic| fr $F) => `(tactic| repeat' fr_step $F)

/-- the statement proved for every helper / function: from any frame origin -/
@[reducible] def Framed (F : Bytes → Slot → Prop) {α} (m : M α) : Prop :=
  ∀ c A0, Frame F A0 c.accts → Post m c (fun _ c' => Frame F A0 c'.accts)

theorem Framed.step {F : Bytes → Slot → Prop} {α} {m : M α} (h : Framed F m) (c : Ctx) : FrameStep F m c := by
  unfold FrameStep
  apply Post.of_forall
  intro a c' he A0 h0
  exact (h c A0 h0).elim he

/-! writers -/
macro_rules | `(tactic| fr_spec $F) => `(tactic| fr_w1 (FrameStep.writeKey $F _ _ _ _ (by fp_side)))

theorem fr_saveESDTData (F : Bytes → Slot → Prop) (a : Bytes) (t : Token) (k : Bytes) (hF : F a (.key k)) :
    Framed F (saveESDTData a t k) := by
  intro c A0 h0; unfold saveESDTData; fr F
macro_rules | `(tactic| fr_spec $F) => `(tactic| fr_w1 ((fr_saveESDTData $F _ _ _ (by fp_side)).step _))

theorem fr_addToESDTBalance (F : Bytes → Slot → Prop) (a k : Bytes) (d : Int) (r : Bool) (hF : F a (.key k)) :
    Framed F (addToESDTBalance a k d r) := by
  intro c A0 h0; unfold addToESDTBalance; fr F
macro_rules | `(tactic| fr_spec $F) => `(tactic| fr_w1 ((fr_addToESDTBalance $F _ _ _ _ (by fp_side)).step _))

theorem fr_saveNFT (F : Bytes → Slot → Prop) (a k : Bytes) (t : Token) (r : Bool) (hF : ∀ n, F a (.key (nftKey k n))) :
    Framed F (saveNFT a k t r) := by
  intro c A0 h0; unfold saveNFT
  fr F
macro_rules | `(tactic| fr_spec $F) => `(tactic| fr_w1 ((fr_saveNFT $F _ _ _ _ (by fp_side)).step _))

theorem fr_saveRoles (F : Bytes → Slot → Prop) (a k : Bytes) (r : List Bytes) (hF : F a (.key k)) :
    Framed F (saveRoles a k r) := by
  intro c A0 h0; unfold saveRoles; fr F
macro_rules | `(tactic| fr_spec $F) => `(tactic| fr_w1 ((fr_saveRoles $F _ _ _ (by fp_side)).step _))

theorem fr_saveLatestNonce (F : Bytes → Slot → Prop) (a t : Bytes) (n : Nat) (hF : F a (.key (nonceKeyPrefix ++ t))) :
    Framed F (saveLatestNonce a t n) := by
  intro c A0 h0; unfold saveLatestNonce; fr F
macro_rules | `(tactic| fr_spec $F) => `(tactic| fr_w1 ((fr_saveLatestNonce $F _ _ _ (by fp_side)).step _))

theorem fr_addCreateRole (F : Bytes → Slot → Prop) (a k : Bytes) (hF : F a (.key k)) :
    Framed F (addCreateRole a k) := by
  intro c A0 h0; unfold addCreateRole; fr F
macro_rules | `(tactic| fr_spec $F) => `(tactic| fr_w1 ((fr_addCreateRole $F _ _ (by fp_side)).step _))

theorem fr_addNFTToDestination (F : Bytes → Slot → Prop) (env : Env) (d : Bytes) (t : Token) (k : Bytes) (v r : Bool)
    (hF : ∀ n, F d (.key (nftKey k n))) : Framed F (addNFTToDestination env d t k v r) := by
  intro c A0 h0; unfold addNFTToDestination; fr F
macro_rules | `(tactic| fr_spec $F) => `(tactic| fr_w1 ((fr_addNFTToDestination $F _ _ _ _ _ _ (by fp_side)).step _))

end Esdt
