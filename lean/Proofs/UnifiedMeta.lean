/-
  Proofs/UnifiedMeta.lean — metadata in the ONE world that mixes all 23 functions (Proofs/Unified.lean): every copy of an
  NFT — stored on any shard, in flight as the payload of an ESDTNFTTransfer message or as an item of a
  MultiESDTNFTTransfer message — keeps the metadata `m0` along every history, whatever else happens in between; the only
  steps that may change it are ESDTNFTAddURI / ESDTNFTUpdateAttributes aimed at that very NFT (excluded here; what they do
  is C08.addURI_exact / updateAttributes_exact).  The step theorems of the two transfer worlds (Proofs/NetworkMeta,
  Proofs/NetworkMultiMeta) and of the supply operations (Proofs/MetaHistory) are reused on the shared shards.
-/
import Proofs.Unified
import Proofs.NetworkMeta
import Proofs.NetworkMultiMeta
import Proofs.MetaHistory
namespace Esdt

variable {m0 : MetaData} {k : Bytes}

theorem ntc_allMd (m0 : MetaData) {k : Bytes} (hk : TokKey k) : NTC (AllMd m0 k) := by
  refine ⟨fun A a k1 v hk1 h => allMd_write_other a k1 v h (fun he => hk1 (he ▸ hk)), fun A a x hx h => ?_⟩
  intro a2 t hne hdec
  rw [read_set_fields A a x hx] at hne hdec
  exact h a2 t hne hdec

/-! ### ESDTTransfer of a token whose fungible key is not `k` -/

theorem allMd_writeKey (a k1 v : Bytes) (hne : k1 ≠ k) : Pres (AllMd m0 k) (writeKey a k1 v) := by
  unfold Esdt.writeKey
  refine Pres.bind (Pres.of_ro (RO.tick _)) (fun _ => ?_)
  intro c hs
  unfold Post; intro x' c' h
  simp only [Res.ok.injEq, Prod.mk.injEq] at h
  rw [← h.2]; exact allMd_write_other a k1 v hs hne

theorem allMd_saveESDTData (a : Bytes) (t : Token) (k1 : Bytes) (hne : k1 ≠ k) :
    Pres (AllMd m0 k) (saveESDTData a t k1) := by
  unfold Esdt.saveESDTData; pz
  all_goals exact allMd_writeKey _ _ _ hne

theorem allMd_addToESDTBalance (a k1 : Bytes) (d : Int) (rae : Bool) (hne : k1 ≠ k) :
    Pres (AllMd m0 k) (addToESDTBalance a k1 d rae) := by
  unfold Esdt.addToESDTBalance; pz
  all_goals exact allMd_saveESDTData _ _ _ hne

theorem Pres.argAt_bind {I : Accts → Prop} {β} {args : List Bytes} {i : Nat} {f : Bytes → M β}
    (hf : ∀ t, args[i]? = some t → Pres I (f t)) : Pres I (argAt args i >>= f) := by
  intro c hs
  apply Post.bind
  apply Post.argAt
  intro t ht
  exact hf t ht c hs

theorem allMd_esdtTransfer (env : Env) (c : Call) (hkk : ∀ tok, c.args[0]? = some tok → esdtKeyPrefix ++ tok ≠ k) :
    Pres (AllMd m0 k) (esdtTransfer env c) := by
  unfold Esdt.esdtTransfer
  refine Pres.bind (Pres.of_ro (ro_checkBasic _)) (fun _ => ?_)
  refine Pres.bind (Pres.of_ro (RO.guardE _ _)) (fun _ => ?_)
  apply Pres.argAt_bind
  intro tokenID h0
  have hne : esdtKeyPrefix ++ tokenID ≠ k := hkk tokenID h0
  pz
  all_goals exact allMd_addToESDTBalance _ _ _ _ hne

/-- a step of the ESDTTransfer world keeps `AllMd` on every shard and keeps every message in flight off key `k` -/
theorem nstep_md (m0 : MetaData) (k : Bytes) (e : Env) (w : NWorld) (st : NStep)
    (hW : ∀ A ∈ w.shards, AllMd m0 k A) (hF : ∀ m ∈ w.inflight, m.key ≠ k)
    (hok : ∀ c, st = .user c → ∀ tok, c.args[0]? = some tok → esdtKeyPrefix ++ tok ≠ k) :
    (∀ A ∈ (nstep e w st).shards, AllMd m0 k A) ∧ ∀ m ∈ (nstep e w st).inflight, m.key ≠ k := by
  have hset : ∀ (s : Nat) (A' : Accts), AllMd m0 k A' → ∀ A ∈ w.shards.set s A', AllMd m0 k A :=
    fun s A' hA' => mem_set_of _ _ _ _ hW hA'
  have hrun : ∀ {s : Nat} {c : Call} {A' : Accts}, (∀ tok, c.args[0]? = some tok → esdtKeyPrefix ++ tok ≠ k) →
      runOn e w s c = some A' → AllMd m0 k A' := by
    intro s c A' hkk h
    obtain ⟨A, out, ctx', hA, hex, hA'⟩ := runOn_some h
    rw [← hA']
    exact (allMd_esdtTransfer _ c hkk { accts := A } (hW A (List.mem_of_getElem? hA))).elim hex
  cases st with
  | user c =>
    have hkk := hok c rfl
    simp only [nstep]
    cases hr : runOn e w (shardOf e.nshards c.caller) c with
    | none => exact ⟨hW, hF⟩
    | some A' =>
      simp only []
      split
      · exact ⟨hset _ _ (hrun hkk hr), hF⟩
      · split
        · rename_i tok amt rest hargs
          refine ⟨hset _ _ (hrun hkk hr), fun m hm => ?_⟩
          rcases List.mem_append.mp hm with h | h
          · exact hF m h
          · simp only [List.mem_singleton] at h
            subst h
            exact hkk tok (by rw [hargs]; rfl)
        · exact ⟨hset _ _ (hrun hkk hr), hF⟩
  | deliver i =>
    simp only [nstep]
    cases hm : w.inflight[i]? with
    | none => exact ⟨hW, hF⟩
    | some m =>
      simp only []
      have hmk : m.key ≠ k := hF m (List.mem_of_getElem? hm)
      split
      · exact ⟨hW, hF⟩
      · cases hr : runOn e w (shardOf e.nshards m.rcv) (deliveryCall m) with
        | none =>
          refine ⟨hW, fun m' hm' => ?_⟩
          rcases List.mem_or_eq_of_mem_set hm' with h | h
          · exact hF m' h
          · rw [h]; exact hmk
        | some A' =>
          refine ⟨hset _ _ (hrun (c := deliveryCall m) (fun tok ht => ?_) hr), fun m' hm' => hF m' (List.mem_of_mem_eraseIdx hm')⟩
          simp [deliveryCall] at ht
          rw [← ht]; exact hmk
  | refund i =>
    simp only [nstep]
    cases hm : w.inflight[i]? with
    | none => exact ⟨hW, hF⟩
    | some m =>
      simp only []
      have hmk : m.key ≠ k := hF m (List.mem_of_getElem? hm)
      split
      · exact ⟨hW, hF⟩
      · cases hr : runOn e w (shardOf e.nshards m.caller) (refundCall m) with
        | none => exact ⟨hW, hF⟩
        | some A' =>
          refine ⟨hset _ _ (hrun (c := refundCall m) (fun tok ht => ?_) hr), fun m' hm' => hF m' (List.mem_of_mem_eraseIdx hm')⟩
          simp [refundCall] at ht
          rw [← ht]; exact hmk

/-! ### the 20 other functions -/

theorem allMd_write_undec {A : Accts} (a k1 v : Bytes) (hA : AllMd m0 k A) (hv : decToken v = none) :
    AllMd m0 k (A.write a k1 v) := by
  intro a2 t hne hdec
  rw [Accts.read_write] at hne hdec
  split at hne
  · rename_i he
    rw [if_pos he, hv] at hdec
    cases hdec
  · rename_i he
    rw [if_neg he] at hdec
    exact hA a2 t hne hdec

/-- what is assumed of a call of a non-transfer function for the NFT stored under key `k`: token identifiers do not alias
    (a fungible operation is not aimed at `k`), a create does not issue a nonce whose key is `k` (nonces are fresh: C07),
    and add URI / update attributes are aimed at another entry -/
structure LocalMdOK (k : Bytes) (env : Env) (f : FnId) (c : Call) : Prop where
  supply : ∀ op, supplyOpOf f = some op → MStepOK k ⟨op, env, c⟩
  metaFn : (f = .nftAddURI ∨ f = .nftUpdateAttributes) → ∀ tok nb, c.args[0]? = some tok → c.args[1]? = some nb →
    nftKey (esdtKeyPrefix ++ tok) (u64 (beNat nb)) ≠ k

theorem local_md_step (m0 : MetaData) (k : Bytes) (hk : TokKey k) (f : FnId) (env : Env) (c : Call) (A : Accts)
    (out : VMOutput) (ctx' : Ctx) (hI : SInv A) (hM : AllMd m0 k A) (ok : LocalOK env f c A) (okm : LocalMdOK k env f c)
    (h : exec env f c { accts := A } = .ok (out, ctx')) : AllMd m0 k ctx'.accts := by
  have supplyCase : ∀ op, supplyOpOf f = some op → op.run env c { accts := A } = .ok (out, ctx') →
      AllMd m0 k ctx'.accts := fun op hop hrun =>
    meta_step m0 k op env c A out ctx' hk hI hM (okm.supply op hop) hrun
  have plainCase : PlainFn f → AllMd m0 k ctx'.accts := fun hf =>
    plain_pres (ntc_allMd m0 hk) hf env c { accts := A } ctx' out hM h
  have pauseCase : ∀ p, esdtPause p env c { accts := A } = .ok (out, ctx') → AllMd m0 k ctx'.accts := by
    intro p hrun
    obtain ⟨tok, _, hw⟩ := (pause_effect p env c { accts := A }).elim hrun
    simp only at hw
    rw [hw]; exact allMd_write_undec _ _ _ hM (decToken_flagBytes p)
  have metaCase : ∀ {tok nb : Bytes} {t : Token} {m m' : MetaData}, c.args[0]? = some tok → c.args[1]? = some nb →
      MetaWrite A ctx'.accts c.caller (esdtKeyPrefix ++ tok) (u64 (beNat nb)) t m m' →
      (m.nonce = 0 ∨ m.nonce = u64 (beNat nb)) → (f = .nftAddURI ∨ f = .nftUpdateAttributes) →
      AllMd m0 k ctx'.accts := by
    intro tok nb t m m' h0 h1 hw hnon hf
    have hpos : m.nonce ≠ 0 := hI.mdpos _ _ t m (tokKey_nft _ _) hw.present hw.old hw.hasMeta
    have hmn : m.nonce = u64 (beNat nb) := by
      rcases hnon with h' | h'
      · exact absurd h' hpos
      · exact h'
    rw [hw.written, hmn]
    exact allMd_write_other _ _ _ hM (okm.metaFn hf tok nb h0 h1)
  have hnt := ok.notTransfer
  unfold exec at h
  cases f <;> simp only [runFn] at h
  · exact plainCase .claim
  · exact plainCase .owner
  · exact plainCase .name
  · exact plainCase .skv
  · exact pauseCase true h
  · exact pauseCase false h
  · cases hnt
  · exact supplyCase .burn rfl h
  · exact supplyCase .freeze rfl h
  · exact supplyCase .unfreeze rfl h
  · exact supplyCase .wipe rfl h
  · exact plainCase .unSetRole
  · exact plainCase .setRole
  · exact supplyCase .localBurn rfl h
  · exact supplyCase .mint rfl h
  · exact supplyCase .addQty rfl h
  · exact supplyCase .nftBurn rfl h
  · exact supplyCase .create rfl h
  · cases hnt
  · exact plainCase .handOver
  · obtain ⟨⟨tok, nb, attrs, t, m, h0, h1, h2, hn0, hw⟩, hnon⟩ :=
      (Post.and (updateAttributes_effect env c { accts := A }) (updateAttributes_nonce env c { accts := A })).elim h
    exact metaCase h0 h1 hw (hnon tok nb t m h0 h1 hw.old hw.hasMeta) (Or.inr rfl)
  · obtain ⟨⟨tok, nb, t, m, h0, h1, hn0, hw⟩, hnon⟩ :=
      (Post.and (addURI_effect env c { accts := A }) (addURI_nonce env c { accts := A })).elim h
    exact metaCase h0 h1 hw (hnon tok nb t m h0 h1 hw.old hw.hasMeta) (Or.inl rfl)
  · cases hnt

/-! ### the world -/

/-- the metadata invariant of the mixed world for one NFT (key `k`, metadata `m0`) -/
structure UMdInv (m0 : MetaData) (k : Bytes) (w : UWorld) : Prop where
  shards : ∀ A ∈ w.shards, AllMd m0 k A
  ft : ∀ m ∈ w.ft, m.key ≠ k
  nft : ∀ m ∈ w.nft, MsgMd m0 k m
  multi : ∀ m ∈ w.multi, MMsgMd m0 k m

/-- what is assumed of a step for the NFT under key `k` -/
def UMdStepOK (e : Env) (k : Bytes) : UStep → Prop
  | .ft (.user c) => ∀ tok, c.args[0]? = some tok → esdtKeyPrefix ++ tok ≠ k
  | .call s f c => LocalMdOK k { e with self := s } f c
  | _ => True

theorem ustep_md (m0 : MetaData) (k : Bytes) (hk : TokKey k) (e : Env) (w : UWorld) (st : UStep) (hI : UInv e w)
    (hM : UMdInv m0 k w) (hok : UStepOK e w st) (hmk : UMdStepOK e k st) : UMdInv m0 k (ustep e w st) := by
  cases st with
  | ft st =>
    obtain ⟨h1, h2⟩ := nstep_md m0 k e w.toN st hM.shards hM.ft (fun c hc => by subst hc; exact hmk)
    exact ⟨h1, h2, hM.nft, hM.multi⟩
  | nft st =>
    have h := nftStep_md m0 k e w.toNFT st hI.toNFT ⟨hM.shards, hM.nft⟩ hok
    exact ⟨h.shards, hM.ft, h.msgs, hM.multi⟩
  | multi st =>
    have h := multiStep_md m0 k e w.toM st hI.toM ⟨hM.shards, hM.multi⟩ hok
    exact ⟨h.shards, hM.ft, hM.nft, h.msgs⟩
  | call s f c =>
    simp only [ustep]
    cases hA : w.shards[s]? with
    | none => exact hM
    | some A =>
      simp only []
      cases hex : exec { e with self := s } f c { accts := A } with
      | ok p =>
        obtain ⟨out, ctx'⟩ := p
        simp only []
        have hAm := List.mem_of_getElem? hA
        have := local_md_step m0 k hk f { e with self := s } c A out ctx' (hI.shards A hAm) (hM.shards A hAm)
          (hok A hA) hmk hex
        exact ⟨mem_set_of _ _ _ _ hM.shards this, hM.ft, hM.nft, hM.multi⟩
      | err er => exact hM
      | panic => exact hM

/-- every step is admissible for the NFT under `k` -/
def UMdStepsOK (e : Env) (k : Bytes) (steps : List UStep) : Prop := ∀ st ∈ steps, UMdStepOK e k st

/-- FULL over histories of the mixed world -/
theorem unified_md_history (m0 : MetaData) (k : Bytes) (hk : TokKey k) (e : Env) :
    ∀ (steps : List UStep) (w : UWorld), UInv e w → UStepsOK e steps w → UMdStepsOK e k steps → UMdInv m0 k w →
      UMdInv m0 k (urun e steps w).1 := by
  intro steps
  induction steps with
  | nil => intro w _ _ _ hM; exact hM
  | cons st rest ih =>
    intro w hI hok hmk hM
    obtain ⟨h1, hrest⟩ := hok
    have hI1 := (ustep_ledger e w st hI h1).2
    have hM1 := ustep_md m0 k hk e w st hI hM h1 (hmk st (by simp))
    simp only [urun]
    exact ih (ustep e w st) hI1 hrest (fun s hs => hmk s (by simp [hs])) hM1

end Esdt
