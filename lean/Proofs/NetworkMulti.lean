/-
  Proofs/NetworkMulti.lean — the world of shards with in-flight messages for MultiESDTNFTTransfer (any mix of fungible, SFT
  and NFT items, repeated items included): per storage key, Σ_shards Σ_accounts quantity + Σ_in-flight item quantity is
  invariant under every history of multi transfers, deliveries and refunds.

  The quantity a message carries is read off its arguments exactly the way the destination loop reads them
  (`loopContrib`), so "what the message is worth" is by construction "what a delivery will credit".
-/
import Proofs.NetworkNFT
namespace Esdt

/-! ### what an argument list carries, read the way `multiDestLoop` reads it -/

/-- one item (token, nonce bytes, third argument): the storage key it will be credited under and the quantity -/
def itemContrib (tok nb pl k : Bytes) : Int :=
  if u64 (beNat nb) > 0 then
    match decToken pl with
    | some t => if nftKey (esdtKeyPrefix ++ tok) (mdNonce t) = k then t.value.getD 0 else 0
    | none => 0
  else if esdtKeyPrefix ++ tok = k then (beNat pl : Int) else 0

def loopContrib (args : List Bytes) : Nat → Nat → Bytes → Int
  | 0, _, _ => 0
  | n + 1, idx, k =>
    (match args[idx]?, args[idx + 1]?, args[idx + 2]? with
     | some tok, some nb, some pl => itemContrib tok nb pl k
     | _, _, _ => 0) + loopContrib args n (idx + 3) k

/-- an NFT / SFT item whose payload decodes carries a non-negative quantity and metadata with a non-zero nonce (what the
    sender side puts on the wire: `multiSenderLoop_supply`) -/
def itemOK (nb pl : Bytes) : Prop :=
  u64 (beNat nb) > 0 → ∀ t, decToken pl = some t →
    (∃ q, t.value = some q ∧ 0 ≤ q) ∧ ∀ md, t.md = some md → md.nonce ≠ 0

def loopOK (args : List Bytes) : Nat → Nat → Prop
  | 0, _ => True
  | n + 1, idx =>
    (∀ nb pl, args[idx + 1]? = some nb → args[idx + 2]? = some pl → itemOK nb pl) ∧ loopOK args n (idx + 3)

/-! ### writes through `saveESDTData` keep `MdPos` -/

theorem mdpos_write_stored {A : Accts} (a k : Bytes) (t : Token) (v' : Int) (hA : MdPos A)
    (hold : tokenOf (A.read a k) = some t)
    (hl : (storedForm { t with value := some v' }).length < two63) :
    MdPos (A.write a k (storedForm { t with value := some v' })) := by
  intro a2 k2 t0 m hk2 hne hdec hm
  rw [Accts.read_write] at hne hdec
  by_cases he : a = a2 ∧ k = k2
  · rw [if_pos he] at hne hdec
    unfold storedForm at hne hdec hl
    split at hne
    · exact absurd rfl hne
    · rename_i hz
      rw [if_neg hz] at hdec hl
      rw [roundtrip_of_length _ ((tokenOf_num hold).withValue _) hl] at hdec
      cases hdec
      -- the metadata is the one of the entry read before
      have hm' : t.md = some m := hm
      unfold tokenOf at hold
      split at hold
      · cases hold; cases hm'
      · rename_i hraw
        exact hA a k t m (he.2 ▸ hk2) hraw hold hm'
  · rw [if_neg he] at hne hdec
    exact hA a2 k2 t0 m hk2 hne hdec hm

/-! ### destination side -/

/-- the destination loop credits, item by item, exactly what `loopContrib` reads off the arguments, and keeps the shard
    invariant -/
theorem multiDestLoop_supply (env : Env) (c : Call) (m : Nat) (hrsys : c.rcv ≠ systemAccountAddress) :
    ∀ n idx ctx, SInv ctx.accts → loopOK c.args n idx →
      Post (multiDestLoop env c m n idx) ctx (fun _ c' => SInv c'.accts ∧
        ∀ k, balAt c'.accts k = balAt ctx.accts k + loopContrib c.args n idx k) := by
  intro n
  induction n with
  | zero =>
    intro idx ctx hI _
    unfold multiDestLoop
    exact Post.pure ⟨hI, fun k => by simp [loopContrib]⟩
  | succ n ih =>
    intro idx ctx hI hok
    obtain ⟨hitem, hrest⟩ := hok
    unfold multiDestLoop
    xsteps
    rename_i tok h0 nb h1 a2 h2
    have hio := hitem nb a2 h1 h2
    split
    · rename_i hpos
      xsteps
      apply Post.mono (spec_unmarshalToken _ ctx)
      intro t c1 ⟨h1', hdec⟩
      have hS1 : Short c1.accts := by rw [h1']; exact hI.short
      xsteps
      apply Post.mono (Post.and (spec_addNFTToDestination env c.rcv t _ _ _ c1)
        (sp_addNFTToDestination env c.rcv t _ _ _ c1 hS1))
      intro _ c2 ⟨⟨cur, tv, cv, hcur, _, _, _, htv, hcv, ht', _, hw⟩, hS2⟩
      rw [h1'] at hcur hw
      obtain ⟨⟨q, hq, hq0⟩, hmd⟩ := hio hpos t hdec
      rw [htv] at hq; cases hq
      have hnum : NumOK t := decToken_num _ _ hdec
      have hcv0 : 0 ≤ cv := by
        obtain ⟨⟨v', hv', h0'⟩, _⟩ := hI.canon.read (tokKey_nft tok _) hrsys hcur
        rw [hcv] at hv'; cases hv'; exact h0'
      have hl := hS2 c.rcv (nftKey (esdtKeyPrefix ++ tok) (mdNonce t))
      rw [hw, Accts.read_write, if_pos ⟨rfl, rfl⟩] at hl
      rw [ht'] at hw hl
      have hI2 : SInv c2.accts := by
        refine ⟨by rw [hw]; exact Accts.write_nodup _ hI.nodup _ _ _, CanonM.toCanon ?_ hS2, hS2, ?_⟩
        · rw [hw]
          apply canon_write _ _ _ hI.canon.toM
          intro _ _
          exact entryWF_nftStoredForm _ _ (nftKey_matches tok t) (hnum.withValue _)
        · rw [hw]
          exact mdpos_write_nft _ _ _ hI.mdpos (hnum.withValue _) hl hmd
      have hb := fun k => credit_balAt hI.nodup c.rcv (esdtKeyPrefix ++ tok) t cur tv cv hcur hcv (by omega) hnum hw hS2 k
      xsteps
      apply Post.mono (ih _ _ hI2 hrest)
      intro _ c3 ⟨hI3, hb3⟩
      apply Post.pure
      refine ⟨hI3, fun k => ?_⟩
      rw [hb3 k, hb k]
      simp only [loopContrib, h0, h1, h2, itemContrib, hpos, if_true, hdec, htv, Option.getD_some]
      omega
    · rename_i hpos
      xsteps
      apply Post.mono (ro_verifyPayableIf _ _ _ ctx)
      intro _ c1 h1'
      have hS1 : Short c1.accts := by rw [h1']; exact hI.short
      xsteps
      apply Post.mono (Post.and (spec_addToESDTBalance _ _ _ _ c1) (sp_addToESDTBalance _ _ _ _ c1 hS1))
      intro _ c2 ⟨⟨t, v, ht, hty, hv, hnn, _, hw⟩, hS2⟩
      rw [h1'] at ht hw
      have how : OneWrite ctx.accts c2.accts c.rcv (esdtKeyPrefix ++ tok) t v (beNat a2) := ⟨ht, hty, hv, hnn, hw⟩
      have hl := hS2 c.rcv (esdtKeyPrefix ++ tok)
      have hI2 : SInv c2.accts := by
        refine ⟨how.nodup hI.nodup, CanonM.toCanon (how.canon hI.canon (tokKey_esdt tok)) hS2, hS2, ?_⟩
        rw [hw]
        apply mdpos_write_stored _ _ _ _ hI.mdpos ht
        rw [hw, Accts.read_write, if_pos ⟨rfl, rfl⟩] at hl
        exact hl
      have hb := fun k => how.balAt hI.nodup hl k
      xsteps
      apply Post.mono (ih _ _ hI2 hrest)
      intro _ c3 ⟨hI3, hb3⟩
      apply Post.pure
      refine ⟨hI3, fun k => ?_⟩
      rw [hb3 k, hb k]
      simp only [loopContrib, h0, h1, h2, itemContrib, hpos, if_false]
      omega

end Esdt

namespace Esdt

/-! ### sender side -/

/-- what the sender side puts into a message for one item -/
def TokOK (t : Token) : Prop :=
  NumOK t ∧ (∃ q, t.value = some q ∧ 0 ≤ q) ∧ ∀ md, t.md = some md → md.nonce ≠ 0

def toksContrib (toks : List (Bytes × Token)) (k : Bytes) : Int :=
  (toks.map fun p => if nftKey (esdtKeyPrefix ++ p.1) (mdNonce p.2) = k then p.2.value.getD 0 else 0).sum

/-- the sender-side lookup only accepts an entry whose metadata says the nonce asked for (or nonce 0), and an entry asked
    for with a nonce has metadata -/
theorem transferOne_nonce (env : Env) (c : Call) (l : Bool) (dst tok : Bytes) (n q : Nat) (v : Bool) (ctx : Ctx) :
    Post (transferOne env c l dst tok n q v) ctx (fun _ _ => ∀ t,
      decToken (ctx.accts.read c.caller (nftKey (esdtKeyPrefix ++ tok) n)) = some t →
      (0 < n → t.md.isSome = true) ∧ ∀ m, t.md = some m → m.nonce = 0 ∨ m.nonce = n) := by
  unfold transferOne
  xsteps
  apply Post.mono (spec_getNFTOnSender _ _ _ ctx)
  intro t c1 ⟨_, _, hdec, hmd, hnon⟩
  apply Post.intro
  intro _ _ t' hdec'
  rw [hdec] at hdec'; cases hdec'
  exact ⟨hmd, hnon⟩

theorem mdNonce_withValue (t : Token) (v : Option Int) : mdNonce { t with value := v } = mdNonce t := rfl

/-- one item on the sender side: the shard's per-key sum falls by the quantity under the item's key (cross-shard: it is now
    carried by the returned token) or stays as it was (destination on the same shard); the shard invariant is kept -/
theorem transferOne_supply (env : Env) (c : Call) (l : Bool) (dst tok : Bytes) (n q : Nat) (v : Bool) (ctx : Ctx)
    (hI : SInv ctx.accts) (hne : dst ≠ c.caller) (hdsys : dst ≠ systemAccountAddress) :
    Post (transferOne env c l dst tok n q v) ctx (fun t' c' => SInv c'.accts ∧
      (∀ k, balAt c'.accts k +
        (if l = true then 0 else (if nftKey (esdtKeyPrefix ++ tok) (mdNonce t') = k then t'.value.getD 0 else 0)) =
        balAt ctx.accts k) ∧
      (l = false → TokOK t')) := by
  apply Post.mono (Post.and (transferOne_effect env c l dst tok n q v ctx)
    (Post.and (transferOne_nonce env c l dst tok n q v ctx)
      (Post.and (canon_transferOne env c l dst tok n q v ctx hI.canon.toM) (sp_transferOne env c l dst tok n q v ctx hI.short))))
  intro t' c' ⟨⟨t, x, A1, hq0, hqx, hpres, hdec, hx, hA1, hf, hts⟩, hnonce, hCM, hS'⟩
  have hC' : Canon c'.accts := hCM.toCanon hS'
  obtain ⟨hmdsome, hnon⟩ := hnonce t hdec
  have hnum : NumOK t := decToken_num _ _ hdec
  have hmdt : ∀ md, t.md = some md → md.nonce ≠ 0 := fun md hmd => hI.mdpos _ _ t md (tokKey_nft _ _) hpres hdec hmd
  -- the entry is stored under the key of its own nonce
  have hk : mdNonce t = n := by
    cases hm : t.md with
    | none =>
      simp only [mdNonce, hm]
      rcases Nat.eq_zero_or_pos n with h0 | h0
      · exact h0.symm
      · have := hmdsome h0; rw [hm] at this; cases this
    | some m0 =>
      rcases hnon m0 hm with hz | hz
      · exact absurd hz (hmdt m0 hm)
      · simp [mdNonce, hm, hz]
  rw [hk] at hA1 hts
  have hn1 : A1.Nodup := by rw [hA1]; exact Accts.write_nodup _ hI.nodup _ _ _
  have hold : balOf (ctx.accts.read c.caller (nftKey (esdtKeyPrefix ++ tok) n)) = x := balOf_dec hpres hdec hx
  cases l
  · -- destination on another shard
    obtain ⟨ht', hc'⟩ := hf rfl
    rw [hc'] at hS' hC' ⊢
    have hl1 := hS' c.caller (nftKey (esdtKeyPrefix ++ tok) n)
    rw [hA1, Accts.read_write, if_pos ⟨rfl, rfl⟩] at hl1
    refine ⟨⟨hn1, hC', hS', ?_⟩, fun k => ?_, fun _ => ?_⟩
    · rw [hA1]; exact mdpos_write_nft _ _ _ hI.mdpos (hnum.withValue _) hl1 hmdt
    · rw [hA1, balAt_write ctx.accts hI.nodup, ht', mdNonce_withValue, hk]
      simp only [Bool.false_eq_true, if_false, Option.getD_some]
      split
      · rw [balOf_nftStoredForm_len _ (x - q) rfl (by omega) (hnum.withValue _) hl1, hold]; omega
      · omega
    · rw [ht']
      exact ⟨hnum.withValue _, ⟨q, rfl, by omega⟩, hmdt⟩
  · -- destination on the same shard
    obtain ⟨cur, cv, hcur, _, hcv, ht', hc'⟩ := hts rfl
    have hread1 : c'.accts.read c.caller (nftKey (esdtKeyPrefix ++ tok) n) =
        nftStoredForm { t with value := some (x - q) } := by
      rw [hc', Accts.read_write, if_neg (fun ⟨e, _⟩ => hne e), hA1, Accts.read_write, if_pos ⟨rfl, rfl⟩]
    have hl1 := hS' c.caller (nftKey (esdtKeyPrefix ++ tok) n)
    rw [hread1] at hl1
    have hl2 := hS' dst (nftKey (esdtKeyPrefix ++ tok) n)
    rw [hc', Accts.read_write, if_pos ⟨rfl, rfl⟩] at hl2
    have hcur' : tokenOf (ctx.accts.read dst (nftKey (esdtKeyPrefix ++ tok) n)) = some cur := by
      rw [hA1, Accts.read_write, if_neg (fun ⟨e, _⟩ => hne e.symm)] at hcur; exact hcur
    have hcv0 : 0 ≤ cv := by
      obtain ⟨⟨v', hv', h0'⟩, _⟩ := hI.canon.read (tokKey_nft tok _) hdsys hcur'
      rw [hcv] at hv'; cases hv'; exact h0'
    rw [ht'] at hc' hl2
    have hk' : nftKey (esdtKeyPrefix ++ tok) (mdNonce t) = nftKey (esdtKeyPrefix ++ tok) n := by rw [hk]
    refine ⟨⟨by rw [hc']; exact Accts.write_nodup _ hn1 _ _ _, hC', hS', ?_⟩, fun k => ?_, fun h => by cases h⟩
    · rw [hc']
      apply mdpos_write_nft _ _ _ _ (hnum.withValue _) hl2 hmdt
      rw [hA1]
      exact mdpos_write_nft _ _ _ hI.mdpos (hnum.withValue _) hl1 hmdt
    · have hb1 : balAt A1 k = balAt ctx.accts k + (if nftKey (esdtKeyPrefix ++ tok) n = k then (x - q) - x else 0) := by
        rw [hA1, balAt_write ctx.accts hI.nodup]
        split
        · rw [balOf_nftStoredForm_len _ (x - q) rfl (by omega) (hnum.withValue _) hl1, hold]
        · rfl
      have hb2 := credit_balAt hn1 dst (esdtKeyPrefix ++ tok) t cur q cv (by rw [hk']; exact hcur) hcv (by omega) hnum
        (by rw [hk']; exact hc') hS' k
      rw [hk'] at hb2
      simp only [if_true]
      rw [hb2, hb1]
      split <;> omega

end Esdt

namespace Esdt

theorem toksContrib_cons (p : Bytes × Token) (ps : List (Bytes × Token)) (k : Bytes) :
    toksContrib (p :: ps) k =
      (if nftKey (esdtKeyPrefix ++ p.1) (mdNonce p.2) = k then p.2.value.getD 0 else 0) + toksContrib ps k := by
  simp [toksContrib]

/-- the sender loop: the shard's per-key sums fall by what the returned tokens carry (cross-shard) or stay (same shard) -/
theorem multiSenderLoop_supply (env : Env) (c : Call) (l : Bool) (dst : Bytes) (v : Bool) (hne : dst ≠ c.caller)
    (hdsys : dst ≠ systemAccountAddress) :
    ∀ n idx ctx, SInv ctx.accts →
      Post (multiSenderLoop env c l dst v n idx) ctx (fun r c' => SInv c'.accts ∧
        (∀ k, balAt c'.accts k + (if l = true then 0 else toksContrib r.1 k) = balAt ctx.accts k) ∧
        (l = false → ∀ p ∈ r.1, TokOK p.2) ∧ r.1.length = n) := by
  intro n
  induction n with
  | zero =>
    intro idx ctx hI
    unfold multiSenderLoop
    exact Post.pure ⟨hI, fun k => by simp [toksContrib], fun _ p hp => (by cases hp), rfl⟩
  | succ n ih =>
    intro idx ctx hI
    unfold multiSenderLoop
    xsteps
    apply Post.mono (transferOne_supply _ _ _ _ _ _ _ _ _ hI hne hdsys)
    intro t c1 ⟨hI1, hb1, hok1⟩
    xsteps
    apply Post.mono (ih _ _ hI1)
    intro r c2 ⟨hI2, hb2, hok2, hlen⟩
    obtain ⟨ts, logs⟩ := r
    apply Post.pure
    refine ⟨hI2, fun k => ?_, fun hl p hp => ?_, by simp at hlen ⊢; exact hlen⟩
    · have h1 := hb1 k
      have h2 := hb2 k
      simp only at h2 ⊢
      cases l
      · simp only [Bool.false_eq_true, if_false] at h1 h2 ⊢
        rw [toksContrib_cons]
        simp only
        omega
      · simp only [if_true] at h1 h2 ⊢
        omega
    · rcases List.mem_cons.mp hp with rfl | hp
      · exact hok1 hl
      · exact hok2 hl p hp

/-! ### the payload -/

/-- the three arguments the sender side emits for one transferred token -/
def payloadItem (p : Bytes × Token) : List Bytes :=
  match p.2.md with
  | some m => [p.1, beBytes m.nonce, encToken p.2]
  | none => [p.1, [0], beBytes (p.2.value.getD 0).natAbs]

def payloadOf (toks : List (Bytes × Token)) : List Bytes := toks.flatMap payloadItem

theorem multiPayloadLoop_shape (env : Env) : ∀ (toks : List (Bytes × Token)) (g : Nat) (ctx : Ctx),
    (∀ p ∈ toks, TokOK p.2) →
    Post (multiPayloadLoop env toks g) ctx (fun r c' => c'.accts = ctx.accts ∧ r.1 = payloadOf toks ∧
      ∀ p ∈ toks, p.2.md.isSome = true → (encToken p.2).length < two63) := by
  intro toks
  induction toks with
  | nil =>
    intro g ctx _
    unfold multiPayloadLoop
    exact Post.pure ⟨rfl, rfl, fun p hp => by cases hp⟩
  | cons p rest ih =>
    intro g ctx hok
    obtain ⟨tokenID, t⟩ := p
    have hrest : ∀ p ∈ rest, TokOK p.2 := fun p hp => hok p (List.mem_cons_of_mem _ hp)
    unfold multiPayloadLoop
    cases hm : t.md with
    | some m =>
      simp only []
      xsteps
      apply Post.mono (spec_marshalToken_len t ctx)
      intro b c1 ⟨h1, hb, hbl⟩
      xsteps
      apply Post.mono (ih _ c1 hrest)
      intro r c2 ⟨h2, hr, hlen⟩
      obtain ⟨args, gr⟩ := r
      apply Post.pure
      simp only at hr
      refine ⟨by rw [h2, h1], ?_, ?_⟩
      · simp only [payloadOf, List.flatMap_cons, payloadItem, hm]
        rw [hr, hb]; rfl
      · intro p hp hsome
        rcases List.mem_cons.mp hp with rfl | hp
        · rw [← hb]; exact hbl
        · exact hlen p hp hsome
    | none =>
      simp only []
      obtain ⟨_, ⟨q, hq, _⟩, _⟩ := hok (tokenID, t) List.mem_cons_self
      simp only at hq
      xsteps
      apply Post.mono (ih _ ctx hrest)
      intro r c2 ⟨h2, hr, hlen⟩
      obtain ⟨args, gr⟩ := r
      apply Post.pure
      simp only at hr
      refine ⟨h2, ?_, ?_⟩
      · simp only [payloadOf, List.flatMap_cons, payloadItem, hm]
        rw [hr]
        have : t.value = some _ := ‹t.value = some _›
        rw [this] at hq; cases hq
        simp [payloadOf, this]
      · intro p hp hsome
        rcases List.mem_cons.mp hp with rfl | hp
        · simp only at hsome; rw [hm] at hsome; cases hsome
        · exact hlen p hp hsome

end Esdt

namespace Esdt

/-! ### the message the sender emits is worth what was debited -/

theorem nftKey_nonce0 (k : Bytes) : nftKey k 0 = k := by simp [nftKey, beBytes_zero]

theorem itemContrib_payload (p : Bytes × Token) (hok : TokOK p.2)
    (hlen : p.2.md.isSome = true → (encToken p.2).length < two63) (k : Bytes) :
    ∃ a b d, payloadItem p = [a, b, d] ∧
      itemContrib a b d k = (if nftKey (esdtKeyPrefix ++ p.1) (mdNonce p.2) = k then p.2.value.getD 0 else 0) ∧
      itemOK b d := by
  obtain ⟨tok, t⟩ := p
  obtain ⟨hnum, ⟨q, hq, hq0⟩, hmd⟩ := hok
  simp only at hnum hq hmd hlen ⊢
  cases hm : t.md with
  | some m =>
    have hn64 : m.nonce < two64 := (hnum.md m hm).1
    have hpos : 0 < m.nonce := Nat.pos_of_ne_zero (hmd m hm)
    have hrt : decToken (encToken t) = some t := roundtrip_of_length t hnum (hlen (by rw [hm]; rfl))
    refine ⟨tok, beBytes m.nonce, encToken t, by simp [payloadItem, hm], ?_, ?_⟩
    · simp only [itemContrib, beNat_beBytes, u64_of_lt _ hn64, hpos, if_true, hrt]
    · intro _ t' hdec
      rw [hrt] at hdec; cases hdec
      exact ⟨⟨q, hq, hq0⟩, hmd⟩
  | none =>
    refine ⟨tok, [0], beBytes (t.value.getD 0).natAbs, by simp [payloadItem, hm], ?_, ?_⟩
    · have h0 : ¬ (u64 (beNat [0]) > 0) := by decide
      simp only [itemContrib, h0, if_false, beNat_beBytes, mdNonce, hm, nftKey_nonce0, hq, Option.getD_some]
      split
      · omega
      · rfl
    · intro h; exact absurd h (by decide)

theorem getElem?_pre3 (pre : List Bytes) (a b d : Bytes) (rest : List Bytes) :
    (pre ++ (a :: b :: d :: rest))[pre.length]? = some a ∧ (pre ++ (a :: b :: d :: rest))[pre.length + 1]? = some b ∧
    (pre ++ (a :: b :: d :: rest))[pre.length + 2]? = some d := by
  refine ⟨?_, ?_, ?_⟩
  · rw [List.getElem?_append_right (Nat.le_refl _)]; simp
  · rw [List.getElem?_append_right (by omega)]; simp
  · rw [List.getElem?_append_right (by omega)]; simp

/-- read back the way the destination loop reads it, the emitted payload is worth exactly what the returned tokens carry,
    and every item in it is of the form the destination needs -/
theorem loopContrib_payload : ∀ (toks : List (Bytes × Token)) (pre rest : List Bytes),
    (∀ p ∈ toks, TokOK p.2) → (∀ p ∈ toks, p.2.md.isSome = true → (encToken p.2).length < two63) → ∀ k,
    loopContrib (pre ++ payloadOf toks ++ rest) toks.length pre.length k = toksContrib toks k ∧
    loopOK (pre ++ payloadOf toks ++ rest) toks.length pre.length := by
  intro toks
  induction toks with
  | nil => intro pre rest _ _ k; simp [loopContrib, toksContrib, loopOK]
  | cons p ps ih =>
    intro pre rest hok hlen k
    obtain ⟨a, b, d, hitem, hc, hio⟩ := itemContrib_payload p (hok p List.mem_cons_self) (hlen p List.mem_cons_self) k
    have hargs : pre ++ payloadOf (p :: ps) ++ rest = pre ++ (a :: b :: d :: (payloadOf ps ++ rest)) := by
      simp [payloadOf, List.flatMap_cons, hitem]
    have hargs2 : pre ++ payloadOf (p :: ps) ++ rest = (pre ++ [a, b, d]) ++ payloadOf ps ++ rest := by
      simp [payloadOf, List.flatMap_cons, hitem]
    obtain ⟨g0, g1, g2⟩ := getElem?_pre3 pre a b d (payloadOf ps ++ rest)
    obtain ⟨ih1, ih2⟩ := ih (pre ++ [a, b, d]) rest (fun p hp => hok p (List.mem_cons_of_mem _ hp))
      (fun p hp => hlen p (List.mem_cons_of_mem _ hp)) k
    have hl3 : (pre ++ [a, b, d]).length = pre.length + 3 := by simp
    rw [hl3, ← hargs2] at ih1 ih2
    constructor
    · simp only [List.length_cons, loopContrib]
      rw [ih1, toksContrib_cons, ← hc]
      rw [hargs] at *
      simp only [g0, g1, g2]
    · simp only [List.length_cons, loopOK]
      refine ⟨?_, ih2⟩
      intro nb pl h1 h2
      rw [hargs] at h1 h2
      rw [g1] at h1; rw [g2] at h2
      cases h1; cases h2
      exact hio

end Esdt

namespace Esdt

/-! ### whole calls -/

/-- sender side of MultiESDTNFTTransfer: destination on the same shard — per-key sums unchanged; on another shard — the
    shard's sums fall by exactly what the emitted message is worth when read the way the destination loop reads it -/
theorem multiTransferSender_supply (env : Env) (c : Call) (ctx : Ctx) (hI : SInv ctx.accts)
    (hs : present env.nshards env.self c.caller = true)
    (hdsys : ∀ d, c.args[0]? = some d → d ≠ systemAccountAddress) :
    Post (multiTransferSender env c) ctx (fun out ctx' => SInv ctx'.accts ∧ ∃ dst, c.args[0]? = some dst ∧ dst ≠ c.caller ∧
      (env.self = shardOf env.nshards dst → ∀ k, balAt ctx'.accts k = balAt ctx.accts k) ∧
      (env.self ≠ shardOf env.nshards dst → ∃ callArgs a0 tr, out.outAccts = [{ addr := dst, transfers := [tr] }] ∧
         tr.data = encodeCall fnMultiESDTNFTTransfer callArgs ∧ callArgs[0]? = some a0 ∧
         loopOK callArgs (u64 (beNat a0)) 1 ∧
         ∀ k, balAt ctx'.accts k + loopContrib callArgs (u64 (beNat a0)) 1 k = balAt ctx.accts k)) := by
  unfold multiTransferSender
  simp only [hs, Bool.not_true, Bool.false_eq_true, if_false]
  xsteps
  rename_i dst h0 _ hnc _ a1 h1 _ _ _ _
  have hne : dst ≠ c.caller := of_decide_eq_false hnc
  have hds := hdsys dst h0
  by_cases hl : env.self = shardOf env.nshards dst
  · simp only [hl, if_true, decide_true, Bool.not_true, Bool.false_eq_true, if_false]
    xsteps
    apply Post.mono (RO.tick .l ctx)
    intro _ c1 h1'
    have hI1 : SInv c1.accts := by rw [h1']; exact hI
    xsteps
    apply Post.mono (multiSenderLoop_supply env c true dst _ hne hds _ _ c1 hI1)
    intro r c2 ⟨hI2, hb2, _, _⟩
    xsteps
    apply Post.mono (RO.tick .s c2)
    intro _ c3 h3
    xsteps
    apply Post.mono (ro_multiPayloadLoop env _ _ c3)
    intro r2 c4 h4
    have hfin : SInv c4.accts ∧ ∃ dst', c.args[0]? = some dst' ∧ dst' ≠ c.caller ∧
        (env.self = shardOf env.nshards dst' → ∀ k, balAt c4.accts k = balAt ctx.accts k) := by
      refine ⟨by rw [h4, h3]; exact hI2, dst, h0, hne, fun _ k => ?_⟩
      have := hb2 k
      simp only [if_true] at this
      rw [h4, h3, ← h1']; omega
    obtain ⟨hf1, dst', hf2, hf3, hf4⟩ := hfin
    have fin : ∀ (out : VMOutput), SInv c4.accts ∧ ∃ dst_1, c.args[0]? = some dst_1 ∧ dst_1 ≠ c.caller ∧
        (shardOf env.nshards dst = shardOf env.nshards dst_1 → ∀ k, balAt c4.accts k = balAt ctx.accts k) ∧
        (shardOf env.nshards dst ≠ shardOf env.nshards dst_1 → ∃ callArgs a0 tr,
          out.outAccts = [{ addr := dst_1, transfers := [tr] }] ∧
          tr.data = encodeCall fnMultiESDTNFTTransfer callArgs ∧ callArgs[0]? = some a0 ∧
          loopOK callArgs (u64 (beNat a0)) 1 ∧
          ∀ k, balAt c4.accts k + loopContrib callArgs (u64 (beNat a0)) 1 k = balAt ctx.accts k) := by
      intro out
      rw [h0] at hf2; cases hf2
      exact ⟨hf1, dst, h0, hne, fun _ => hf4 hl, fun h => absurd rfl h⟩
    split
    · xsteps
      exact Post.pure (fin _)
    · exact Post.pure (fin _)
  · simp only [hl, if_false, decide_false, Bool.not_false, if_true]
    xsteps
    apply Post.mono (multiSenderLoop_supply env c false dst _ hne hds _ _ ctx hI)
    intro r c2 ⟨hI2, hb2, hok2, hlen2⟩
    xsteps
    apply Post.mono (multiPayloadLoop_shape env _ _ c2 (hok2 rfl))
    intro r2 c4 ⟨h4, hshape, hlens⟩
    apply Post.pure
    refine ⟨by rw [h4]; exact hI2, dst, h0, hne, fun h => absurd h hl, fun _ => ?_⟩
    obtain ⟨toks, logs⟩ := r
    obtain ⟨pl, gr⟩ := r2
    simp only at hshape hlens hlen2 hb2 hok2 ⊢
    have hlt : toks.length < two64 := by rw [hlen2]; exact u64_lt _
    have hn : u64 (beNat (beBytes toks.length)) = toks.length := by rw [beNat_beBytes, u64_of_lt _ hlt]
    refine ⟨_, beBytes toks.length, _, rfl, rfl, by simp, ?_, fun k => ?_⟩
    · rw [hn, hshape]
      have h1 := (loopContrib_payload toks [beBytes toks.length] (if c.args.length > u64 (u64 (u64 (beNat a1) * 3) + 2) then
            List.drop (u64 (u64 (u64 (beNat a1) * 3) + 2)) c.args else []) (hok2 trivial) hlens []).2
      exact h1
    · rw [hn, hshape]
      have h1 := (loopContrib_payload toks [beBytes toks.length] (if c.args.length > u64 (u64 (u64 (beNat a1) * 3) + 2) then
            List.drop (u64 (u64 (u64 (beNat a1) * 3) + 2)) c.args else []) (hok2 trivial) hlens k).1
      have h2 := hb2 k
      simp only [Bool.false_eq_true, if_false] at h2
      have e : ∀ R : List Bytes, [beBytes toks.length] ++ payloadOf toks ++ R = (beBytes toks.length :: payloadOf toks) ++ R :=
        fun _ => rfl
      rw [e] at h1
      simp only [List.length_singleton] at h1
      rw [h4, h1]
      exact h2

theorem multiTransfer_sender_path (env : Env) (c : Call) (ctx : Ctx) (hself : c.caller = c.rcv) :
    Post (multiTransfer env c) ctx (fun out ctx' => multiTransferSender env c ctx = .ok (out, ctx')) := by
  unfold multiTransfer checkBasic
  simp only [hself, if_true]
  xsteps
  exact Post.of_forall (fun _ _ h => h)

/-- destination side (a delivery, or a refund on the origin shard): every item is credited as `loopContrib` reads it -/
theorem multiTransfer_dest_supply (env : Env) (c : Call) (ctx : Ctx) (hI : SInv ctx.accts) (hne : c.caller ≠ c.rcv)
    (hrsys : c.rcv ≠ systemAccountAddress) (a0 : Bytes) (h0 : c.args[0]? = some a0)
    (hok : loopOK c.args (u64 (beNat a0)) 1) :
    Post (multiTransfer env c) ctx (fun _ ctx' => SInv ctx'.accts ∧
      ∀ k, balAt ctx'.accts k = balAt ctx.accts k + loopContrib c.args (u64 (beNat a0)) 1 k) := by
  unfold multiTransfer checkBasic
  simp only [hne, if_false]
  xsteps
  rename_i a0' h0' _ _ _
  rw [h0] at h0'; cases h0'
  apply Post.mono (multiDestLoop_supply env c _ hrsys _ _ ctx hI hok)
  intro _ c1 h1
  split
  · xsteps
    exact Post.pure h1
  · exact Post.pure h1

end Esdt

namespace Esdt

/-! ### the world -/

structure MMsg where
  caller : Bytes
  rcv : Bytes
  args : List Bytes
  refund : Bool

structure MWorld where
  shards : List Accts
  inflight : List MMsg

/-- what a message in flight is worth under storage key `k`: its items, read the way the destination loop reads them -/
def MMsg.contrib (m : MMsg) (k : Bytes) : Int :=
  match m.args[0]? with
  | some a0 => loopContrib m.args (u64 (beNat a0)) 1 k
  | none => 0

def mflightAt (ms : List MMsg) (k : Bytes) : Int := (ms.map (·.contrib k)).sum

def msupply (w : MWorld) (k : Bytes) : Int := (w.shards.map (balAt · k)).sum + mflightAt w.inflight k

def mDeliveryCall (m : MMsg) : Call :=
  { fn := fnMultiESDTNFTTransfer, caller := m.caller, rcv := m.rcv, args := m.args }
def mRefundCall (m : MMsg) : Call :=
  { fn := fnMultiESDTNFTTransfer, caller := m.rcv, rcv := m.caller, args := m.args, callType := 2, rae := true }

/-- the message a successful sender-side call leaves for another shard, read off its output transfer with the
    call-arguments parser -/
def mmsgOf (c : Call) (out : VMOutput) : Option MMsg :=
  match out.outAccts with
  | [oa] =>
    match oa.transfers with
    | [tr] =>
      match parseCall tr.data with
      | .ok (_, args) => some { caller := c.caller, rcv := oa.addr, args := args, refund := false }
      | _ => none
    | _ => none
  | _ => none

def runMulti (e : Env) (shards : List Accts) (s : Nat) (c : Call) : Option (VMOutput × Accts) :=
  match shards[s]? with
  | none => none
  | some A =>
    match multiTransfer { e with self := s } c { accts := A } with
    | .ok (out, ctx') => some (out, ctx'.accts)
    | _ => none

def multiStep (e : Env) (w : MWorld) : NStep → MWorld
  | .user c =>
    let s := shardOf e.nshards c.caller
    match runMulti e w.shards s c with
    | none => w
    | some (out, A') =>
      let shards' := w.shards.set s A'
      match c.args[0]? with
      | some dst =>
        if s = shardOf e.nshards dst then { w with shards := shards' }
        else { shards := shards', inflight := w.inflight ++ (mmsgOf c out).toList }
      | none => { w with shards := shards' }
  | .deliver i =>
    match w.inflight[i]? with
    | none => w
    | some m =>
      if m.refund then w else
      match runMulti e w.shards (shardOf e.nshards m.rcv) (mDeliveryCall m) with
      | some (_, A') => { shards := w.shards.set (shardOf e.nshards m.rcv) A', inflight := w.inflight.eraseIdx i }
      | none => { w with inflight := w.inflight.set i { m with refund := true } }
  | .refund i =>
    match w.inflight[i]? with
    | none => w
    | some m =>
      if !m.refund then w else
      match runMulti e w.shards (shardOf e.nshards m.caller) (mRefundCall m) with
      | some (_, A') => { shards := w.shards.set (shardOf e.nshards m.caller) A', inflight := w.inflight.eraseIdx i }
      | none => w

def multiRun (e : Env) : List NStep → MWorld → MWorld
  | [], w => w
  | s :: rest, w => multiRun e rest (multiStep e w s)

structure MMsgOK (e : Env) (m : MMsg) : Prop where
  notSys : m.caller ≠ systemAccountAddress
  cross : present e.nshards (shardOf e.nshards m.caller) m.rcv = false
  items : ∃ a0, m.args[0]? = some a0 ∧ loopOK m.args (u64 (beNat a0)) 1

structure MWorldInv (e : Env) (w : MWorld) : Prop where
  shards : ∀ A ∈ w.shards, SInv A
  msgs : ∀ m ∈ w.inflight, MMsgOK e m

/-- transactions considered: the sender-side form (caller = receiver, destination in argument 0), not from the system
    account, destination not the system account -/
def MultiStepOK : NStep → Prop
  | .user c => c.caller = c.rcv ∧ c.caller ≠ systemAccountAddress ∧ ∀ d, c.args[0]? = some d → d ≠ systemAccountAddress
  | _ => True

theorem runMulti_some {e : Env} {shards : List Accts} {s : Nat} {c : Call} {out : VMOutput} {A' : Accts}
    (h : runMulti e shards s c = some (out, A')) :
    ∃ A ctx', shards[s]? = some A ∧ multiTransfer { e with self := s } c { accts := A } = .ok (out, ctx') ∧
      ctx'.accts = A' := by
  unfold runMulti at h
  split at h
  · cases h
  · rename_i A hA
    split at h
    · rename_i out' ctx' he
      cases h
      exact ⟨A, ctx', hA, he, rfl⟩
    · cases h

theorem mflightAt_append (ms : List MMsg) (m : MMsg) (k : Bytes) :
    mflightAt (ms ++ [m]) k = mflightAt ms k + m.contrib k := by simp [mflightAt]

theorem mflightAt_eraseIdx : ∀ (ms : List MMsg) (i : Nat) (m : MMsg) (k : Bytes), ms[i]? = some m →
    mflightAt (ms.eraseIdx i) k = mflightAt ms k - m.contrib k := by
  intro ms
  induction ms with
  | nil => intro i m k h; simp at h
  | cons y ys ih =>
    intro i m k h
    cases i with
    | zero => simp at h; subst h; simp [mflightAt]; omega
    | succ i =>
      simp at h
      have := ih i m k h
      simp only [mflightAt, List.eraseIdx_cons_succ, List.map_cons, List.sum_cons] at this ⊢
      omega

theorem mflightAt_set (ms : List MMsg) (i : Nat) (m m' : MMsg) (k : Bytes) (h : ms[i]? = some m) :
    mflightAt (ms.set i m') k = mflightAt ms k - m.contrib k + m'.contrib k := by
  unfold mflightAt
  exact sum_map_set (fun x : MMsg => x.contrib k) ms i m m' h

theorem msupply_set_shard (w : MWorld) (s : Nat) (A A' : Accts) (ms : List MMsg) (k : Bytes) (h : w.shards[s]? = some A) :
    msupply { shards := w.shards.set s A', inflight := ms } k =
      msupply w k - balAt A k + balAt A' k - mflightAt w.inflight k + mflightAt ms k := by
  simp only [msupply]
  rw [sum_map_set (balAt · k) w.shards s A A' h]
  omega

theorem MMsgOK.ne {e : Env} {m : MMsg} (h : MMsgOK e m) : m.caller ≠ m.rcv := by
  intro he
  have := h.cross
  rw [← he, present_self] at this
  cases this

theorem MMsgOK.rcvNotSys {e : Env} {m : MMsg} (h : MMsgOK e m) : m.rcv ≠ systemAccountAddress := by
  have h2 := h.cross
  simp only [present, Bool.or_eq_false_iff, beq_eq_false_iff_ne, ne_eq] at h2
  exact h2.1

/-- one step of the multi-transfer world keeps the invariant and the supply of every storage key -/
theorem multiStep_supply (e : Env) (w : MWorld) (st : NStep) (hI : MWorldInv e w) (hok : MultiStepOK st) (k : Bytes) :
    msupply (multiStep e w st) k = msupply w k ∧ MWorldInv e (multiStep e w st) := by
  cases st with
  | user c =>
    obtain ⟨hself, hsys, hdsys⟩ := hok
    simp only [multiStep]
    cases hr : runMulti e w.shards (shardOf e.nshards c.caller) c with
    | none => exact ⟨rfl, hI⟩
    | some p =>
      obtain ⟨out, A'⟩ := p
      simp only []
      obtain ⟨A, ctx', hA, hex, hA'⟩ := runMulti_some hr
      have hIA : SInv A := hI.shards A (List.mem_of_getElem? hA)
      let env : Env := { e with self := shardOf e.nshards c.caller }
      have hs : present env.nshards env.self c.caller = true := present_self _ _
      have hsend : multiTransferSender env c { accts := A } = .ok (out, ctx') :=
        (multiTransfer_sender_path env c { accts := A } hself).elim hex
      obtain ⟨hIA', dst, h0, hne, hsame, hcross⟩ := (multiTransferSender_supply env c { accts := A } hIA hs hdsys).elim hsend
      simp only at hIA' hsame hcross
      rw [hA'] at hIA' hsame hcross
      simp only [h0]
      by_cases hx : shardOf e.nshards c.caller = shardOf e.nshards dst
      · simp only [hx, if_true]
        refine ⟨?_, ⟨by rw [← hx]; exact mem_set_of _ _ _ _ hI.shards hIA', hI.msgs⟩⟩
        have := msupply_set_shard w _ A A' w.inflight k hA
        rw [← hx, this, hsame hx k]; omega
      · simp only [hx, if_false]
        obtain ⟨callArgs, a0, tr, hout, hdata, ha0, hlok, hb⟩ := hcross hx
        have hparse : parseCall tr.data = .ok (fnMultiESDTNFTTransfer, callArgs) := by
          rw [hdata, parseCall_encodeCall _ _ (by decide) (by decide)]
        have hm : mmsgOf c out = some { caller := c.caller, rcv := dst, args := callArgs, refund := false } := by
          simp only [mmsgOf, hout, hparse]
        simp only [hm, Option.toList]
        refine ⟨?_, ⟨mem_set_of _ _ _ _ hI.shards hIA', ?_⟩⟩
        · rw [msupply_set_shard w _ A A' _ k hA, mflightAt_append]
          have := hb k
          simp only [MMsg.contrib, ha0]
          omega
        · intro m' hm'
          rcases List.mem_append.mp hm' with h' | h'
          · exact hI.msgs m' h'
          · simp at h'; subst h'
            refine ⟨hsys, ?_, ⟨a0, ha0, hlok⟩⟩
            simp only [present, Bool.or_eq_false_iff, beq_eq_false_iff_ne, ne_eq]
            exact ⟨hdsys _ h0, fun e' => hx e'.symm⟩
  | deliver i =>
    simp only [multiStep]
    cases hm : w.inflight[i]? with
    | none => exact ⟨rfl, hI⟩
    | some m =>
      simp only []
      have hmok := hI.msgs m (List.mem_of_getElem? hm)
      cases hrf : m.refund
      · simp only [Bool.false_eq_true, if_false]
        cases hr : runMulti e w.shards (shardOf e.nshards m.rcv) (mDeliveryCall m) with
        | none =>
          simp only []
          refine ⟨?_, ⟨hI.shards, mem_set_of _ _ _ _ hI.msgs ⟨hmok.notSys, hmok.cross, hmok.items⟩⟩⟩
          simp only [msupply]
          rw [mflightAt_set _ _ m _ _ hm]
          have : ({ m with refund := true } : MMsg).contrib k = m.contrib k := rfl
          rw [this]
          omega
        | some p =>
          obtain ⟨out, A'⟩ := p
          simp only []
          obtain ⟨A, ctx', hA, hex, hA'⟩ := runMulti_some hr
          have hIA : SInv A := hI.shards A (List.mem_of_getElem? hA)
          obtain ⟨a0, ha0, hlok⟩ := hmok.items
          have hne : (mDeliveryCall m).caller ≠ (mDeliveryCall m).rcv := hmok.ne
          obtain ⟨hIA', hb⟩ := (multiTransfer_dest_supply _ (mDeliveryCall m) { accts := A } hIA hne hmok.rcvNotSys a0 ha0
            hlok).elim hex
          rw [hA'] at hIA' hb
          refine ⟨?_, ⟨mem_set_of _ _ _ _ hI.shards hIA', fun m' hm' => hI.msgs m' (List.mem_of_mem_eraseIdx hm')⟩⟩
          rw [msupply_set_shard w _ A A' _ k hA, mflightAt_eraseIdx _ _ m _ hm, hb k]
          simp only [MMsg.contrib, ha0, mDeliveryCall]
          omega
      · simp only [if_true]; exact ⟨by first | rfl | trivial, hI⟩
  | refund i =>
    simp only [multiStep]
    cases hm : w.inflight[i]? with
    | none => exact ⟨rfl, hI⟩
    | some m =>
      simp only []
      have hmok := hI.msgs m (List.mem_of_getElem? hm)
      cases hrf : m.refund
      · simp only [Bool.not_false, if_true]; exact ⟨by first | rfl | trivial, hI⟩
      · simp only [Bool.not_true, Bool.false_eq_true, if_false]
        cases hr : runMulti e w.shards (shardOf e.nshards m.caller) (mRefundCall m) with
        | none => exact ⟨rfl, hI⟩
        | some p =>
          obtain ⟨out, A'⟩ := p
          simp only []
          obtain ⟨A, ctx', hA, hex, hA'⟩ := runMulti_some hr
          have hIA : SInv A := hI.shards A (List.mem_of_getElem? hA)
          obtain ⟨a0, ha0, hlok⟩ := hmok.items
          have hne : (mRefundCall m).caller ≠ (mRefundCall m).rcv := fun h => hmok.ne h.symm
          obtain ⟨hIA', hb⟩ := (multiTransfer_dest_supply _ (mRefundCall m) { accts := A } hIA hne hmok.notSys a0 ha0
            hlok).elim hex
          rw [hA'] at hIA' hb
          refine ⟨?_, ⟨mem_set_of _ _ _ _ hI.shards hIA', fun m' hm' => hI.msgs m' (List.mem_of_mem_eraseIdx hm')⟩⟩
          rw [msupply_set_shard w _ A A' _ k hA, mflightAt_eraseIdx _ _ m _ hm, hb k]
          simp only [MMsg.contrib, ha0, mRefundCall]
          omega

theorem multiRun_supply (e : Env) : ∀ (steps : List NStep) (w : MWorld), MWorldInv e w → (∀ s ∈ steps, MultiStepOK s) →
    ∀ k, msupply (multiRun e steps w) k = msupply w k ∧ MWorldInv e (multiRun e steps w) := by
  intro steps
  induction steps with
  | nil => intro w hI _ k; exact ⟨rfl, hI⟩
  | cons s rest ih =>
    intro w hI hok k
    obtain ⟨h1, hI1⟩ := multiStep_supply e w s hI (hok s (by simp)) k
    obtain ⟨h2, hI2⟩ := ih (multiStep e w s) hI1 (fun s' hs' => hok s' (by simp [hs'])) k
    exact ⟨by simp only [multiRun]; rw [h2, h1], hI2⟩

end Esdt
