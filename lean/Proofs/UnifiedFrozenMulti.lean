/-
  Proofs/UnifiedFrozenMulti.lean — C04, frozen half: ESDTNFTTransfer and MultiESDTNFTTransfer steps in the mixed-world
  history theorem. While account `a` is frozen for the FUNGIBLE token `tok`, neither function — either half, any number of
  items — moves that balance or lifts the freeze. Hypotheses: token identifiers do not alias, and (sender side only) no item
  names `tok` with a non-zero nonce (`tok` is a fungible token: it has no NFTs).
-/
import Proofs.UnifiedPausedMulti
namespace Esdt

variable {a tok : Bytes} {v : Int}

theorem nftKey_ne_fung (tk : Bytes) (n : Nat) (hn : n ≠ 0) : nftKey tk n ≠ tk := by
  intro h
  unfold nftKey at h
  have : beBytes n = [] := by
    have := congrArg List.length h
    simpa using this
  exact hn ((beBytes_eq_nil_iff n).mp this)

/-- a write under a key of ANOTHER token (no aliasing) leaves the frozen pair alone -/
theorem Fz.write_otherTok {A : Accts} (hf : Fz a tok v A) (a1 tokenID val : Bytes) (n : Nat) (hne : tokenID ≠ tok)
    (hna : NoAliasTok tok tokenID) : Fz a tok v (A.write a1 (nftKey (esdtKeyPrefix ++ tokenID) n) val) :=
  hf.write_other _ _ _ (fun hh => hna hne 0 n (by rw [nftKey_zero]; exact hh.2))

theorem fzn_saveNFT_other (a1 tokenID : Bytes) (t : Token) (rae : Bool) (hne : tokenID ≠ tok) (hna : NoAliasTok tok tokenID) :
    Pres (Fz a tok v) (saveNFT a1 (esdtKeyPrefix ++ tokenID) t rae) := by
  intro c hf
  apply Post.mono (spec_saveNFT a1 (esdtKeyPrefix ++ tokenID) t rae c)
  intro b c' ⟨_, _, _, _, hw⟩
  rw [hw]; exact hf.write_otherTok _ _ _ _ hne hna

theorem fzn_addNFT_other (env : Env) (dst tokenID : Bytes) (t : Token) (mv rae : Bool) (hne : tokenID ≠ tok)
    (hna : NoAliasTok tok tokenID) : Pres (Fz a tok v) (addNFTToDestination env dst t (esdtKeyPrefix ++ tokenID) mv rae) := by
  intro c hf
  apply Post.mono (spec_addNFTToDestination env dst t (esdtKeyPrefix ++ tokenID) mv rae c)
  intro t' c' ⟨cur, tv, cv, _, _, _, _, _, _, _, _, hw⟩
  rw [hw]; exact hf.write_otherTok _ _ _ _ hne hna

/-- a credit of `tok` itself through `addNFTToDestination` (whatever the arriving entry's nonce): the gate looks at the
    entry the destination HOLDS — the frozen one, if the destination is `a` and the key is the fungible key -/
theorem fzn_addNFT_tok (env : Env) (dst : Bytes) (t : Token) (mv : Bool) (hsc : a ≠ esdtSCAddress) :
    Pres (Fz a tok v) (addNFTToDestination env dst t (esdtKeyPrefix ++ tok) mv false) := by
  intro c hf
  apply Post.mono (spec_addNFTToDestination env dst t (esdtKeyPrefix ++ tok) mv false c)
  intro t' c' ⟨cur, tv, cv, hcur, _, hg, _, _, _, _, _, hw⟩
  rw [hw]
  by_cases he : dst = a ∧ nftKey (esdtKeyPrefix ++ tok) (mdNonce t) = esdtKeyPrefix ++ tok
  · exfalso
    obtain ⟨hd, hk⟩ := he
    obtain ⟨tf, htf, hfr⟩ := hf.1
    rw [hd, hk, htf] at hcur
    cases hcur
    have := (hg rfl (hd ▸ hsc)).1
    rw [this] at hfr; cases hfr
  · exact hf.write_other _ _ _ he

/-- `transferOne` of `tok` itself as a FUNGIBLE item (nonce 0): the entry read is the entry written, so the gate sees the
    frozen flag -/
theorem fzn_transferOne_tok (env : Env) (c : Call) (hrae : c.rae = false) (hsc : a ≠ esdtSCAddress) (l : Bool)
    (dst : Bytes) (q : Nat) (vf : Bool) : Pres (Fz a tok v) (transferOne env c l dst tok 0 q vf) := by
  intro ctx hf
  unfold transferOne
  simp only [hrae]
  xsteps
  apply Post.mono (spec_getNFTOnSender c.caller (esdtKeyPrefix ++ tok) 0 ctx)
  intro t c1 ⟨h1, hne, hdec, _, hnon⟩
  rw [nftKey_zero] at hne hdec
  have hmd0 : ∀ (val : Option Int), mdNonce { t with value := val } = 0 := by
    intro val
    unfold mdNonce
    cases hm : t.md with
    | none => simp [hm]
    | some m => simp [hm]; rcases hnon m hm with h | h <;> exact h
  xsteps
  apply Post.mono (spec_saveNFT c.caller (esdtKeyPrefix ++ tok) _ false c1)
  intro b c2 ⟨_, hg, _, _, hw⟩
  rw [hmd0, nftKey_zero] at hw
  have hf1 : Fz a tok v c1.accts := by rw [h1]; exact hf
  have hf2 : Fz a tok v c2.accts := by
    rw [hw]
    by_cases he : c.caller = a
    · exfalso
      obtain ⟨tf, htf, hfr⟩ := hf1.1
      have ht : tokenOf (c1.accts.read c.caller (esdtKeyPrefix ++ tok)) = some t := by
        rw [h1]; simp [tokenOf, hne, hdec]
      rw [he, htf] at ht
      cases ht
      have := (hg rfl (he ▸ hsc)).1
      simp only at this
      rw [this] at hfr; cases hfr
    · exact hf1.write_other _ _ _ (fun hh => he hh.1)
  cases l with
  | true => simp only [if_true]; exact (fzn_addNFT_tok env dst _ vf hsc c2 hf2)
  | false => simp only [Bool.false_eq_true, if_false]; apply Post.pure; exact hf2

theorem fzn_transferOne_other (env : Env) (c : Call) (l : Bool) (dst tokenID : Bytes) (n q : Nat) (vf : Bool)
    (hne : tokenID ≠ tok) (hna : NoAliasTok tok tokenID) : Pres (Fz a tok v) (transferOne env c l dst tokenID n q vf) := by
  unfold transferOne
  pz
  all_goals first
    | exact fzn_saveNFT_other _ _ _ _ hne hna
    | exact fzn_addNFT_other _ _ _ _ _ _ hne hna

/-- sender side only: no item names `tok` with a non-zero nonce (`tok` is a fungible token) -/
def FungOnly (tok : Bytes) (c : Call) : Prop :=
  ∀ i t0 nb, c.args[i]? = some t0 → c.args[i + 1]? = some nb → t0 = tok → u64 (beNat nb) = 0

theorem fzn_multiSenderLoop (env : Env) (c : Call) (hrae : c.rae = false) (hsc : a ≠ esdtSCAddress)
    (hna : NoAliasArgs tok c) (hfo : FungOnly tok c) (l : Bool) (dst : Bytes) (vf : Bool) :
    ∀ n idx, Pres (Fz a tok v) (multiSenderLoop env c l dst vf n idx) := by
  intro n
  induction n with
  | zero => intro idx; unfold multiSenderLoop; pz
  | succ n ih =>
    intro idx
    unfold multiSenderLoop
    apply Pres.argAt_bind
    intro tokenID h0
    apply Pres.argAt_bind
    intro a1 h1
    have hn := hna tokenID (List.mem_of_getElem? h0)
    by_cases ht : tokenID = tok
    · have hz := hfo idx tokenID a1 h0 h1 ht
      rw [ht]
      simp only [hz]
      pz
      all_goals first
        | exact ih _
        | exact fzn_transferOne_tok env c hrae hsc _ _ _ _
    · pz
      all_goals first
        | exact ih _
        | exact fzn_transferOne_other env c _ _ _ _ _ _ ht hn

theorem fzn_multiDestLoop (env : Env) (c : Call) (hrae : c.rae = false) (hsc : a ≠ esdtSCAddress)
    (hna : NoAliasArgs tok c) (m : Nat) : ∀ n idx, Pres (Fz a tok v) (multiDestLoop env c m n idx) := by
  intro n
  induction n with
  | zero => intro idx; unfold multiDestLoop; pz
  | succ n ih =>
    intro idx
    unfold multiDestLoop
    simp only [hrae]
    apply Pres.argAt_bind
    intro tokenID h0
    have hn := hna tokenID (List.mem_of_getElem? h0)
    by_cases ht : tokenID = tok
    · rw [ht]
      pz
      all_goals first
        | exact ih _
        | exact fzn_addNFT_tok env _ _ _ hsc
        | exact fz_addTo _ _ _ hsc
    · pz
      all_goals first
        | exact ih _
        | exact fzn_addNFT_other _ _ _ _ _ _ ht hn
        | exact fz_addTo_other _ _ _ _ (fun hh => ht (List.append_cancel_left hh.2))

/-- the destination loop of a flagged refund whose items all name OTHER tokens -/
theorem fzn_multiDestLoop_other (env : Env) (c : Call) (hoth : ∀ t0 ∈ c.args, t0 ≠ tok ∧ NoAliasTok tok t0) (m : Nat) :
    ∀ n idx, Pres (Fz a tok v) (multiDestLoop env c m n idx) := by
  intro n
  induction n with
  | zero => intro idx; unfold multiDestLoop; pz
  | succ n ih =>
    intro idx
    unfold multiDestLoop
    apply Pres.argAt_bind
    intro tokenID h0
    have hn := hoth tokenID (List.mem_of_getElem? h0)
    pz
    all_goals first
      | exact ih _
      | exact fzn_addNFT_other _ _ _ _ _ _ hn.1 hn.2
      | exact fz_addTo_other _ _ _ _ (fun hh => hn.1 (List.append_cancel_left hh.2))

theorem fzn_multiTransferSender (env : Env) (c : Call) (hrae : c.rae = false) (hsc : a ≠ esdtSCAddress)
    (hna : NoAliasArgs tok c) (hfo : FungOnly tok c) : Pres (Fz a tok v) (multiTransferSender env c) := by
  unfold multiTransferSender
  pz
  all_goals first
    | exact fzn_multiSenderLoop env c hrae hsc hna hfo _ _ _ _ _
    | exact Pres.of_ro (ro_multiPayloadLoop env _ _)

theorem fzn_multiTransfer (env : Env) (c : Call) (hrae : c.rae = false) (hsc : a ≠ esdtSCAddress)
    (hna : NoAliasArgs tok c) (hfo : FungOnly tok c) : Pres (Fz a tok v) (multiTransfer env c) := by
  unfold multiTransfer
  pz
  all_goals first
    | exact fzn_multiTransferSender env c hrae hsc hna hfo
    | exact fzn_multiDestLoop env c hrae hsc hna _ _ _

theorem fzn_multiTransfer_other (env : Env) (c : Call) (hne : c.caller ≠ c.rcv)
    (hoth : ∀ t0 ∈ c.args, t0 ≠ tok ∧ NoAliasTok tok t0) : Pres (Fz a tok v) (multiTransfer env c) := by
  unfold multiTransfer
  refine Pres.bind (Pres.of_ro (ro_checkBasic _)) (fun _ => ?_)
  refine Pres.bind (Pres.of_ro (RO.guardE _ _)) (fun _ => ?_)
  rw [if_neg hne]
  pz
  all_goals exact fzn_multiDestLoop_other env c hoth _ _ _

/-! ### ESDTNFTTransfer -/

/-- a successful sender-side ESDTNFTTransfer names a non-zero nonce -/
theorem nftSender_nonce_ne_zero (env : Env) (c : Call) (ctx : Ctx) :
    Post (esdtNFTTransferSender env c) ctx (fun _ _ => ∀ nb, c.args[1]? = some nb → u64 (beNat nb) ≠ 0) := by
  unfold esdtNFTTransferSender
  wp
  all_goals (intro nb hnb; simp_all)

theorem fzn_nftTransferSender (env : Env) (c : Call) (hrae : c.rae = false) (hsc : a ≠ esdtSCAddress)
    (hna : NoAliasArgs tok c) (hfo : FungOnly tok c) : Pres (Fz a tok v) (esdtNFTTransferSender env c) := by
  by_cases ht : c.args[0]? = some tok
  · -- the call names `tok`: its nonce would have to be 0, which the function refuses
    intro ctx hf
    apply Post.of_forall
    intro out ctx' hex
    exfalso
    have hnz := (nftSender_nonce_ne_zero env c ctx).elim hex
    cases h1 : c.args[1]? with
    | none =>
      -- without a second argument the function cannot succeed either
      have : ∀ nb, c.args[1]? = some nb → u64 (beNat nb) ≠ 0 := hnz
      have hlen := (nftTransferSender_destination_ok env c ctx).elim hex
      obtain ⟨dst, h3, _⟩ := hlen
      have h3' := (List.getElem?_eq_some_iff.mp h3).1
      have : c.args[1]? ≠ none := by
        rw [ne_eq, List.getElem?_eq_none_iff]; omega
      exact this h1
    | some nb => exact hnz nb h1 (hfo 0 tok nb ht h1 rfl)
  · unfold esdtNFTTransferSender
    simp only [hrae]
    apply Pres.argAt_bind
    intro tokenID h0
    have hne : tokenID ≠ tok := fun he => ht (he ▸ h0)
    have hn := hna tokenID (List.mem_of_getElem? h0)
    pz
    all_goals first
      | exact fzn_saveNFT_other _ _ _ _ hne hn
      | exact fzn_addNFT_other _ _ _ _ _ _ hne hn

theorem fzn_nftTransfer (env : Env) (c : Call) (hrae : c.rae = false) (hsc : a ≠ esdtSCAddress)
    (hna : NoAliasArgs tok c) (hfo : FungOnly tok c) : Pres (Fz a tok v) (esdtNFTTransfer env c) := by
  unfold esdtNFTTransfer
  simp only [hrae]
  refine Pres.bind (Pres.of_ro (ro_checkBasic _)) (fun _ => ?_)
  refine Pres.bind (Pres.of_ro (RO.guardE _ _)) (fun _ => ?_)
  apply Pres.ite
  · exact fzn_nftTransferSender env c hrae hsc hna hfo
  · refine Pres.bind (Pres.of_ro (RO.guardE _ _)) (fun _ => ?_)
    refine Pres.bind (Pres.of_ro (RO.guardE _ _)) (fun _ => ?_)
    apply Pres.argAt_bind
    intro tokenID h0
    have hn := hna tokenID (List.mem_of_getElem? h0)
    by_cases ht : tokenID = tok
    · rw [ht]
      pz
      all_goals exact fzn_addNFT_tok env _ _ _ hsc
    · pz
      all_goals exact fzn_addNFT_other _ _ _ _ _ _ ht hn

theorem fzn_nftTransfer_other (env : Env) (c : Call) (hne : c.caller ≠ c.rcv)
    (hoth : ∀ t0, c.args[0]? = some t0 → t0 ≠ tok ∧ NoAliasTok tok t0) : Pres (Fz a tok v) (esdtNFTTransfer env c) := by
  unfold esdtNFTTransfer
  refine Pres.bind (Pres.of_ro (ro_checkBasic _)) (fun _ => ?_)
  refine Pres.bind (Pres.of_ro (RO.guardE _ _)) (fun _ => ?_)
  rw [if_neg hne]
  refine Pres.bind (Pres.of_ro (RO.guardE _ _)) (fun _ => ?_)
  refine Pres.bind (Pres.of_ro (RO.guardE _ _)) (fun _ => ?_)
  apply Pres.argAt_bind
  intro tokenID h0
  pz
  all_goals exact fzn_addNFT_other _ _ _ _ _ _ (hoth tokenID h0).1 (hoth tokenID h0).2

/-- destination halves (deliveries): caller ≠ receiver, so the sender-side branch is not taken -/
theorem fzn_nftTransfer_dest (env : Env) (c : Call) (hne : c.caller ≠ c.rcv) (hrae : c.rae = false)
    (hsc : a ≠ esdtSCAddress) (hna : ∀ t0, c.args[0]? = some t0 → NoAliasTok tok t0) :
    Pres (Fz a tok v) (esdtNFTTransfer env c) := by
  unfold esdtNFTTransfer
  simp only [hrae]
  refine Pres.bind (Pres.of_ro (ro_checkBasic _)) (fun _ => ?_)
  refine Pres.bind (Pres.of_ro (RO.guardE _ _)) (fun _ => ?_)
  rw [if_neg hne]
  refine Pres.bind (Pres.of_ro (RO.guardE _ _)) (fun _ => ?_)
  refine Pres.bind (Pres.of_ro (RO.guardE _ _)) (fun _ => ?_)
  apply Pres.argAt_bind
  intro tokenID h0
  by_cases ht : tokenID = tok
  · rw [ht]
    pz
    all_goals exact fzn_addNFT_tok env _ _ _ hsc
  · pz
    all_goals exact fzn_addNFT_other _ _ _ _ _ _ ht (hna tokenID h0)

theorem fzn_multiTransfer_dest (env : Env) (c : Call) (hne : c.caller ≠ c.rcv) (hrae : c.rae = false)
    (hsc : a ≠ esdtSCAddress) (hna : NoAliasArgs tok c) : Pres (Fz a tok v) (multiTransfer env c) := by
  unfold multiTransfer
  refine Pres.bind (Pres.of_ro (ro_checkBasic _)) (fun _ => ?_)
  refine Pres.bind (Pres.of_ro (RO.guardE _ _)) (fun _ => ?_)
  rw [if_neg hne]
  pz
  all_goals exact fzn_multiDestLoop env c hrae hsc hna _ _ _

/-! ### the world: all three kinds of transfer traffic mixed with the 20 other functions -/

/-- what is assumed of a step for the frozen pair, NFT and multi transfer steps included -/
def UFzStepOK2 (a tok : Bytes) (w : UWorld) : UStep → Prop
  | .nft (.user c) => c.rae = false ∧ NoAliasArgs tok c ∧ FungOnly tok c
  | .nft (.deliver j) => ∀ m, w.nft[j]? = some m → m.caller ≠ m.rcv ∧ NoAliasTok tok m.tok
  | .nft (.refund j) => ∀ m, w.nft[j]? = some m → m.tok ≠ tok ∧ NoAliasTok tok m.tok ∧ m.rcv ≠ m.caller
  | .multi (.user c) => c.rae = false ∧ NoAliasArgs tok c ∧ FungOnly tok c
  | .multi (.deliver j) => ∀ m, w.multi[j]? = some m → m.caller ≠ m.rcv ∧ ∀ t0 ∈ m.args, NoAliasTok tok t0
  | .multi (.refund j) => ∀ m, w.multi[j]? = some m → m.rcv ≠ m.caller ∧ ∀ t0 ∈ m.args, t0 ≠ tok ∧ NoAliasTok tok t0
  | st => UFzStepOK a tok w st

theorem ustep_fz2 (e : Env) (w : UWorld) (st : UStep) (i : Nat) (hI : UInv e w) (hok : UStepOK e w st)
    (hfz : UFzStepOK2 a tok w st) (hsc : a ≠ esdtSCAddress) (hsys : a ≠ systemAccountAddress)
    (hF : FzW a tok v i w) : FzW a tok v i (ustep e w st) := by
  cases st with
  | ft s => exact ustep_fz e w (.ft s) i hI hok hfz hsc hsys hF
  | call s fn c => exact ustep_fz e w (.call s fn c) i hI hok hfz hsc hsys hF
  | nft st =>
    obtain ⟨A, hA, hf⟩ := hF
    have hrun : ∀ {s : Nat} {c : Call} {out : VMOutput} {A1 : Accts}, runNFT e w.toNFT.shards s c = some (out, A1) →
        (∀ env, Pres (Fz a tok v) (esdtNFTTransfer env c)) → ∃ A', (w.shards.set s A1)[i]? = some A' ∧ Fz a tok v A' := by
      intro s c out A1 hr hp
      obtain ⟨A0, ctx', hA0, hex, hA1⟩ := runNFT_some hr
      apply getElem?_set_pres hA hf
      intro A0' hA0' hs
      subst hs
      have : A0 = A := by
        have h1 : w.shards[s]? = some A0 := hA0
        rw [hA] at h1; cases h1; rfl
      subst this
      rw [← hA1]
      exact (hp _ { accts := A0 } hf).elim hex
    simp only [ustep]
    show ∃ A', (nftStep e w.toNFT st).shards[i]? = some A' ∧ Fz a tok v A'
    have keep : ∃ A', w.toNFT.shards[i]? = some A' ∧ Fz a tok v A' := ⟨A, hA, hf⟩
    cases st with
    | user c =>
      obtain ⟨hrae, hna, hfo⟩ : c.rae = false ∧ NoAliasArgs tok c ∧ FungOnly tok c := hfz
      simp only [nftStep]
      cases hr : runNFT e w.toNFT.shards (shardOf e.nshards c.caller) c with
      | none => exact keep
      | some p =>
        obtain ⟨out, A1⟩ := p
        simp only []
        have := hrun hr (fun env => fzn_nftTransfer env c hrae hsc hna hfo)
        split
        · split <;> exact this
        · exact this
    | deliver j =>
      simp only [nftStep]
      cases hm : w.toNFT.inflight[j]? with
      | none => exact keep
      | some m =>
        simp only []
        split
        · exact keep
        · cases hr : runNFT e w.toNFT.shards (shardOf e.nshards m.rcv) (nDeliveryCall m) with
          | none => exact keep
          | some p =>
            obtain ⟨out, A1⟩ := p
            obtain ⟨hne, hcond⟩ := hfz m hm
            refine hrun hr (fun env => fzn_nftTransfer_dest env (nDeliveryCall m) hne rfl hsc (fun t0 ht0 => ?_))
            simp [nDeliveryCall] at ht0
            subst ht0
            exact hcond
    | refund j =>
      simp only [nftStep]
      cases hm : w.toNFT.inflight[j]? with
      | none => exact keep
      | some m =>
        simp only []
        split
        · exact keep
        · cases hr : runNFT e w.toNFT.shards (shardOf e.nshards m.caller) (nRefundCall m) with
          | none => exact keep
          | some p =>
            obtain ⟨out, A1⟩ := p
            obtain ⟨h1, h2, h3⟩ := hfz m hm
            refine hrun hr (fun env => fzn_nftTransfer_other env (nRefundCall m) h3 (fun t0 ht0 => ?_))
            simp [nRefundCall] at ht0
            subst ht0
            exact ⟨h1, h2⟩
  | multi st =>
    obtain ⟨A, hA, hf⟩ := hF
    have hrun : ∀ {s : Nat} {c : Call} {out : VMOutput} {A1 : Accts}, runMulti e w.toM.shards s c = some (out, A1) →
        (∀ env, Pres (Fz a tok v) (multiTransfer env c)) → ∃ A', (w.shards.set s A1)[i]? = some A' ∧ Fz a tok v A' := by
      intro s c out A1 hr hp
      obtain ⟨A0, ctx', hA0, hex, hA1⟩ := runMulti_some hr
      apply getElem?_set_pres hA hf
      intro A0' hA0' hs
      subst hs
      have : A0 = A := by
        have h1 : w.shards[s]? = some A0 := hA0
        rw [hA] at h1; cases h1; rfl
      subst this
      rw [← hA1]
      exact (hp _ { accts := A0 } hf).elim hex
    simp only [ustep]
    show ∃ A', (multiStep e w.toM st).shards[i]? = some A' ∧ Fz a tok v A'
    have keep : ∃ A', w.toM.shards[i]? = some A' ∧ Fz a tok v A' := ⟨A, hA, hf⟩
    cases st with
    | user c =>
      obtain ⟨hrae, hna, hfo⟩ : c.rae = false ∧ NoAliasArgs tok c ∧ FungOnly tok c := hfz
      simp only [multiStep]
      cases hr : runMulti e w.toM.shards (shardOf e.nshards c.caller) c with
      | none => exact keep
      | some p =>
        obtain ⟨out, A1⟩ := p
        simp only []
        have := hrun hr (fun env => fzn_multiTransfer env c hrae hsc hna hfo)
        split
        · split <;> exact this
        · exact this
    | deliver j =>
      simp only [multiStep]
      cases hm : w.toM.inflight[j]? with
      | none => exact keep
      | some m =>
        simp only []
        split
        · exact keep
        · cases hr : runMulti e w.toM.shards (shardOf e.nshards m.rcv) (mDeliveryCall m) with
          | none => exact keep
          | some p =>
            obtain ⟨out, A1⟩ := p
            obtain ⟨hne, hna⟩ := hfz m hm
            exact hrun hr (fun env => fzn_multiTransfer_dest env (mDeliveryCall m) hne rfl hsc hna)
    | refund j =>
      simp only [multiStep]
      cases hm : w.toM.inflight[j]? with
      | none => exact keep
      | some m =>
        simp only []
        split
        · exact keep
        · cases hr : runMulti e w.toM.shards (shardOf e.nshards m.caller) (mRefundCall m) with
          | none => exact keep
          | some p =>
            obtain ⟨out, A1⟩ := p
            obtain ⟨h1, h2⟩ := hfz m hm
            exact hrun hr (fun env => fzn_multiTransfer_other env (mRefundCall m) h1 h2)

def UFzStepsOK2 (e : Env) (a tok : Bytes) : List UStep → UWorld → Prop
  | [], _ => True
  | st :: rest, w => UFzStepOK2 a tok w st ∧ UFzStepsOK2 e a tok rest (ustep e w st)

/-- FULL over histories of ALL 23 functions, frozen half -/
theorem unified_fz_history2 (e : Env) (i : Nat) (hsc : a ≠ esdtSCAddress) (hsys : a ≠ systemAccountAddress) :
    ∀ (steps : List UStep) (w : UWorld), UInv e w → UStepsOK e steps w → UFzStepsOK2 e a tok steps w →
      FzW a tok v i w → FzW a tok v i (urun e steps w).1 := by
  intro steps
  induction steps with
  | nil => intro w _ _ _ hF; exact hF
  | cons st rest ih =>
    intro w hI hok hfz hF
    obtain ⟨h1, hrest⟩ := hok
    obtain ⟨f1, frest⟩ := hfz
    have hI1 := (ustep_ledger e w st hI h1).2
    have hF1 := ustep_fz2 e w st i hI h1 f1 hsc hsys hF
    simp only [urun]
    exact ih (ustep e w st) hI1 hrest frest hF1

end Esdt
