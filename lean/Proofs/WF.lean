/-
  Proofs/WF.lean — the representation invariant of token entries (C15) and its preservation, function by function.
-/
import Proofs.Metadata
import Proofs.FrameFn
import Proofs.Sizes
namespace Esdt

def TokKey (k : Bytes) : Prop := ∃ s, k = esdtKeyPrefix ++ s

/-- a well-formed token entry under key `k`: a strictly positive balance, or zero only to carry a flag; metadata only
    with a nonce that is the key's suffix -/
structure TokWF (k : Bytes) (t : Token) : Prop where
  value : ∃ v, t.value = some v ∧ (0 < v ∨ (v = 0 ∧ allZero t.properties = false))
  key : ∀ m, t.md = some m → ∃ tok, k = esdtKeyPrefix ++ tok ++ beBytes m.nonce

/-- decoded form: the slot is empty or decodes to a well-formed token (what C15 states) -/
def EntryD (k raw : Bytes) : Prop := raw = [] ∨ ∃ t, decToken raw = some t ∧ TokWF k t

/-- encoded form: the slot holds the canonical encoding of a well-formed token with in-range numeric fields (what a write
    of the protocol produces; it is the decoded form as soon as the entry is within Go's size limits) -/
def EntryE (k raw : Bytes) : Prop := ∃ t, raw = encToken t ∧ TokWF k t ∧ NumOK t

/-- every token-keyed slot of every account (the system account's token-keyed slots hold pause flags) -/
def Canon (A : Accts) : Prop := ∀ a k, TokKey k → a ≠ systemAccountAddress → EntryD k (A.read a k)

/-- the same with freshly written slots allowed in encoded form -/
def CanonM (A : Accts) : Prop := ∀ a k, TokKey k → a ≠ systemAccountAddress → EntryD k (A.read a k) ∨ EntryE k (A.read a k)

/-- every stored value is shorter than 2^63 bytes (a physical bound: Go slices cannot be longer) -/
def Short (A : Accts) : Prop := ∀ a k, (A.read a k).length < two63

theorem Canon.toM {A : Accts} (h : Canon A) : CanonM A := fun a k hk ha => Or.inl (h a k hk ha)

/-- within the size limits the encoded form IS the decoded form -/
theorem CanonM.toCanon {A : Accts} (h : CanonM A) (hs : Short A) : Canon A := by
  intro a k hk ha
  rcases h a k hk ha with hd | ⟨t, he, hwf, hn⟩
  · exact hd
  · have hl := hs a k
    rw [he] at hl
    exact Or.inr ⟨t, by rw [he]; exact roundtrip_of_length t hn hl, hwf⟩

theorem canon_write {A : Accts} (a k v : Bytes) (h : CanonM A)
    (hv : TokKey k → a ≠ systemAccountAddress → EntryD k v ∨ EntryE k v) : CanonM (A.write a k v) := by
  intro a2 k2 hk ha
  rw [Accts.read_write]
  split
  · rename_i he; obtain ⟨rfl, rfl⟩ := he; exact hv hk ha
  · exact h a2 k2 hk ha

theorem canon_of_read_eq {A A' : Accts} (h : Canon A)
    (he : ∀ a k, TokKey k → a ≠ systemAccountAddress → A'.read a k = A.read a k) : CanonM A' := by
  intro a k hk ha; rw [he a k hk ha]; exact Or.inl (h a k hk ha)

theorem entryWF_storedForm (k : Bytes) (t : Token) (v : Int) (hv : t.value = some v) (h0 : 0 ≤ v)
    (hk : ∀ m, t.md = some m → ∃ tok, k = esdtKeyPrefix ++ tok ++ beBytes m.nonce) (hn : NumOK t) :
    EntryD k (storedForm t) ∨ EntryE k (storedForm t) := by
  unfold storedForm
  split
  · exact Or.inl (Or.inl rfl)
  · rename_i hc
    refine Or.inr ⟨t, rfl, ⟨⟨v, hv, ?_⟩, hk⟩, hn⟩
    by_cases hz : v = 0
    · subst hz
      refine Or.inr ⟨rfl, ?_⟩
      cases hp : allZero t.properties
      · rfl
      · exact absurd ⟨hv, hp⟩ hc
    · exact Or.inl (by omega)

theorem entryWF_nftStoredForm (k : Bytes) (t : Token)
    (hk : ∀ m, t.md = some m → ∃ tok, k = esdtKeyPrefix ++ tok ++ beBytes m.nonce) (hn : NumOK t) :
    EntryD k (nftStoredForm t) ∨ EntryE k (nftStoredForm t) := by
  unfold nftStoredForm
  split
  · rename_i v hv
    split
    · exact Or.inl (Or.inl rfl)
    · exact Or.inr ⟨t, rfl, ⟨⟨v, hv, Or.inl (by omega)⟩, hk⟩, hn⟩
  · exact Or.inl (Or.inl rfl)

/-- the key built by `saveESDTNFTToken` matches the metadata's nonce by construction -/
theorem nftKey_matches (tok : Bytes) (t : Token) :
    ∀ m, t.md = some m → ∃ tok', nftKey (esdtKeyPrefix ++ tok) (mdNonce t) = esdtKeyPrefix ++ tok' ++ beBytes m.nonce := by
  intro m hm
  exact ⟨tok, by simp [nftKey, mdNonce, hm]⟩

theorem numOK_fungibleDefault : NumOK fungibleDefault := ⟨by decide, fun m hm => by cases hm⟩

theorem tokenOf_num {raw : Bytes} {t : Token} (ht : tokenOf raw = some t) : NumOK t := by
  unfold tokenOf at ht
  split at ht
  · cases ht; exact numOK_fungibleDefault
  · exact decToken_num raw t ht

theorem NumOK.withValue {t : Token} (h : NumOK t) (v : Option Int) : NumOK { t with value := v } := ⟨h.type, h.md⟩
theorem NumOK.withProps {t : Token} (h : NumOK t) (p : Bytes) : NumOK { t with properties := p } := ⟨h.type, h.md⟩

/-- what a read through `getESDTDataFromKey` yields on a well-formed state -/
theorem Canon.read {A : Accts} (hC : Canon A) {a k : Bytes} (hk : TokKey k)
    (ha : a ≠ systemAccountAddress) {t : Token} (ht : tokenOf (A.read a k) = some t) :
    (∃ v, t.value = some v ∧ 0 ≤ v) ∧ ∀ m, t.md = some m → ∃ tok, k = esdtKeyPrefix ++ tok ++ beBytes m.nonce := by
  unfold tokenOf at ht
  split at ht
  · cases ht
    exact ⟨⟨0, rfl, Int.le_refl _⟩, fun m hm => by cases hm⟩
  · rename_i hne
    rcases hC a k hk ha with h | ⟨t0, h, hwf⟩
    · exact absurd h hne
    · rw [h] at ht; cases ht
      obtain ⟨v, hv, hpos⟩ := hwf.value
      exact ⟨⟨v, hv, by omega⟩, hwf.key⟩

theorem tokKey_esdt (tok : Bytes) : TokKey (esdtKeyPrefix ++ tok) := ⟨tok, rfl⟩
theorem tokKey_nft (tok : Bytes) (n : Nat) : TokKey (nftKey (esdtKeyPrefix ++ tok) n) :=
  ⟨tok ++ beBytes n, by simp [nftKey, List.append_assoc]⟩

theorem not_tokKey_nonce (tok : Bytes) : ¬ TokKey (nonceKeyPrefix ++ tok) := by
  rintro ⟨s, he⟩
  have := congrArg (List.take 7) he
  simp [esdtKeyPrefix, nonceKeyPrefix, ascii] at this
theorem not_tokKey_role (tok : Bytes) : ¬ TokKey (roleKeyPrefix ++ tok) := by
  rintro ⟨s, he⟩
  have := congrArg (List.take 7) he
  simp [esdtKeyPrefix, roleKeyPrefix, ascii] at this

/-! ### preservation by the shapes of write the functions perform -/

theorem OneWrite.canon {A A' : Accts} {a k : Bytes} {t : Token} {v d : Int} (h : OneWrite A A' a k t v d)
    (hC : Canon A) (hk : TokKey k) : CanonM A' := by
  rw [h.written]
  apply canon_write _ _ _ hC.toM
  intro _ ha
  exact entryWF_storedForm k _ (v + d) rfl h.nonneg (hC.read hk ha h.old).2 ((tokenOf_num h.old).withValue _)

theorem NftWrite.canon {A A' : Accts} {a tok : Bytes} {n : Nat} {t : Token} {v v' : Int}
    (h : NftWrite A A' a (esdtKeyPrefix ++ tok) n t v v') (hC : CanonM A) : CanonM A' := by
  rw [h.written]
  apply canon_write _ _ _ hC
  intro _ _
  exact entryWF_nftStoredForm _ _ (nftKey_matches tok t) ((decToken_num _ _ h.old).withValue _)

end Esdt

namespace Esdt

theorem Frame.read_eq {F : Bytes → Slot → Prop} {A A' : Accts} (h : Frame F A A') (a k : Bytes) (hn : ¬ F a (.key k)) :
    A'.read a k = A.read a k := h a (.key k) hn

/-- only role-list and nonce-counter keys -/
def rnFootprint (_a : Bytes) : Slot → Prop
  | .key k => ∃ t, k = roleKeyPrefix ++ t ∨ k = nonceKeyPrefix ++ t
  | _ => False
theorem rn_role (a t : Bytes) : rnFootprint a (.key (roleKeyPrefix ++ t)) := ⟨t, Or.inl rfl⟩
theorem rn_nonce (a t : Bytes) : rnFootprint a (.key (nonceKeyPrefix ++ t)) := ⟨t, Or.inr rfl⟩
macro_rules | `(tactic| fp_side) => `(tactic| ((try intro _); first | exact rn_role _ _ | exact rn_nonce _ _))

theorem frame_rn_esdtRoles (s : Bool) (env : Env) (c : Call) : Framed rnFootprint (esdtRoles s env c) := by
  intro ctx A0 h0; unfold esdtRoles; fr rnFootprint
theorem frame_rn_createRoleTransfer (env : Env) (c : Call) : Framed rnFootprint (esdtNFTCreateRoleTransfer env c) := by
  intro ctx A0 h0; unfold esdtNFTCreateRoleTransfer; fr rnFootprint

theorem rn_not_tokKey (a k : Bytes) (hk : TokKey k) : ¬ rnFootprint a (.key k) := by
  rintro ⟨t, rfl | rfl⟩
  · exact not_tokKey_role t hk
  · exact not_tokKey_nonce t hk

/-- only the system account -/
def sysFootprint (a : Bytes) : Slot → Prop := fun _ => a = systemAccountAddress
theorem sys_fp (s : Slot) : sysFootprint systemAccountAddress s := rfl
macro_rules | `(tactic| fp_side) => `(tactic| ((try intro _); exact sys_fp _))
theorem frame_sys_esdtPause (p : Bool) (env : Env) (c : Call) : Framed sysFootprint (esdtPause p env c) := by
  intro ctx A0 h0; unfold esdtPause; fr sysFootprint

theorem tokKey_not_allowed (k : Bytes) (hk : TokKey k) : isAllowedToSaveUnderKey k = false := by
  obtain ⟨s, rfl⟩ := hk
  simp [isAllowedToSaveUnderKey, protectedPrefix, esdtKeyPrefix, ascii]

/-! ### one theorem per function -/

section
variable (env : Env) (c : Call) (ctx ctx' : Ctx) (out : VMOutput)

theorem canon_localMint (hC : Canon ctx.accts)
    (h : esdtLocalMint env c ctx = .ok (out, ctx')) : CanonM ctx'.accts := by
  obtain ⟨tok, _, t, v, _, _, hw, _⟩ := (localMint_effect env c ctx).elim h
  exact hw.canon hC (tokKey_esdt tok)

theorem canon_localBurn (hC : Canon ctx.accts)
    (h : esdtLocalBurn env c ctx = .ok (out, ctx')) : CanonM ctx'.accts := by
  obtain ⟨tok, _, t, v, _, _, hw, _⟩ := (localBurn_effect env c ctx).elim h
  exact hw.canon hC (tokKey_esdt tok)

theorem canon_esdtBurn (hC : Canon ctx.accts)
    (h : esdtBurn env c ctx = .ok (out, ctx')) : CanonM ctx'.accts := by
  obtain ⟨tok, _, t, v, _, _, hw, _⟩ := (esdtBurn_effect env c ctx).elim h
  exact hw.canon hC (tokKey_esdt tok)

theorem canon_wipe (hC : Canon ctx.accts)
    (h : esdtFreezeWipe .wipe env c ctx = .ok (out, ctx')) : CanonM ctx'.accts := by
  obtain ⟨tok, t, _, _, _, _, hw⟩ := (wipe_effect env c ctx).elim h
  rw [hw]; exact canon_write _ _ _ hC.toM (fun _ _ => Or.inl (Or.inl rfl))

theorem canon_toggleFreeze (kind : FreezeKind) (hk : kind ≠ .wipe) (hC : Canon ctx.accts)
    (h : esdtFreezeWipe kind env c ctx = .ok (out, ctx')) : CanonM ctx'.accts := by
  obtain ⟨tok, t, _, _, ht, _, hw⟩ := (toggleFreeze_effect kind hk env c ctx).elim h
  rw [hw]
  apply canon_write _ _ _ hC.toM
  intro hkk ha
  obtain ⟨⟨v, hv, h0⟩, hkey⟩ := hC.read hkk ha ht
  exact entryWF_storedForm _ _ v hv h0 hkey ((tokenOf_num ht).withProps _)

theorem canon_addQuantity (hC : Canon ctx.accts)
    (h : esdtNFTAddQuantity env c ctx = .ok (out, ctx')) : CanonM ctx'.accts := by
  obtain ⟨tok, _, _, t, v, _, _, _, _, hw, _⟩ := (addQuantity_effect env c ctx).elim h
  exact hw.canon hC.toM

theorem canon_nftBurn (hC : Canon ctx.accts)
    (h : esdtNFTBurn env c ctx = .ok (out, ctx')) : CanonM ctx'.accts := by
  obtain ⟨tok, _, _, t, v, _, _, _, _, _, hw, _⟩ := (nftBurn_effect env c ctx).elim h
  exact hw.canon hC.toM

theorem canon_nftCreate (hC : Canon ctx.accts)
    (h : esdtNFTCreate env c ctx = .ok (out, ctx')) : CanonM ctx'.accts := by
  obtain ⟨tok, qb, name, roy, hash, attrs, n, A1, _, _, _, _, _, _, hn, _, _, _, hA1, hw⟩ := (nftCreate_effect env c ctx).elim h
  rw [hw, hA1]
  apply canon_write
  · apply canon_write _ _ _ hC.toM
    intro _ _
    apply entryWF_nftStoredForm
    · intro m hm
      simp only [createdToken] at hm
      cases hm
      exact ⟨tok, by simp [nftKey]⟩
    · refine ⟨by simp [createdToken, two32], ?_⟩
      intro m hm
      simp only [createdToken] at hm
      cases hm
      exact ⟨by rw [hn]; exact u64_lt _, Nat.mod_lt _ (by decide)⟩
  · intro hk; exact absurd hk (not_tokKey_nonce tok)

theorem MetaWrite.canon {A A' : Accts} {a tok : Bytes} {n : Nat} {t : Token} {m m' : MetaData}
    (h : MetaWrite A A' a (esdtKeyPrefix ++ tok) n t m m') (hC : CanonM A)
    (hr : m'.royalties = m.royalties) : CanonM A' := by
  rw [h.written]
  apply canon_write _ _ _ hC
  intro _ _
  have hnum := decToken_num _ _ h.old
  apply entryWF_nftStoredForm
  · intro m2 hm2
    cases hm2
    exact ⟨tok, by simp [nftKey, h.sameNonce]⟩
  · refine ⟨hnum.type, ?_⟩
    intro m2 hm2
    cases hm2
    have := hnum.md m h.hasMeta
    rw [h.sameNonce, hr]; exact this

theorem canon_addURI (hC : Canon ctx.accts)
    (h : esdtNFTAddURI env c ctx = .ok (out, ctx')) : CanonM ctx'.accts := by
  obtain ⟨tok, _, t, m, _, _, _, hw⟩ := (addURI_effect env c ctx).elim h
  exact hw.canon hC.toM rfl

theorem canon_updateAttributes (hC : Canon ctx.accts)
    (h : esdtNFTUpdateAttributes env c ctx = .ok (out, ctx')) : CanonM ctx'.accts := by
  obtain ⟨tok, _, _, t, m, _, _, _, _, hw⟩ := (updateAttributes_effect env c ctx).elim h
  exact hw.canon hC.toM rfl

end
end Esdt

namespace Esdt
section
variable (env : Env) (c : Call) (ctx ctx' : Ctx) (out : VMOutput)

theorem esdtTransfer_noShard_effect (hs : present env.nshards env.self c.caller = false)
    (hd : present env.nshards env.self c.rcv = false) :
    Post (esdtTransfer env c) ctx (fun _ ctx' => ctx'.accts = ctx.accts) := by
  unfold esdtTransfer checkBasic
  simp only [hs, hd, Bool.false_eq_true, if_false]
  xsteps
  exact Post.pure rfl

/-- ESDTTransfer (self-transfers on one shard excepted: the destination read would need the round trip of the entry
    written a moment earlier in the same call) -/
theorem canon_esdtTransfer (hC : Canon ctx.accts) (hne : c.caller ≠ c.rcv)
    (h : esdtTransfer env c ctx = .ok (out, ctx')) : CanonM ctx'.accts := by
  cases hs : present env.nshards env.self c.caller <;> cases hd : present env.nshards env.self c.rcv
  · rw [(esdtTransfer_noShard_effect env c ctx hs hd).elim h]; exact hC.toM
  · obtain ⟨tok, _, t2, v2, _, _, _, hw, _⟩ := (esdtTransfer_destOnly_effect env c ctx hs hd).elim h
    exact hw.canon hC (tokKey_esdt tok)
  · obtain ⟨tok, _, t, v, _, _, _, hw, _⟩ := (esdtTransfer_senderOnly_effect env c ctx hs hd).elim h
    exact hw.canon hC (tokKey_esdt tok)
  · obtain ⟨tok, _, t, v, A1, t2, v2, _, _, _, hw1, hw2, _⟩ := (esdtTransfer_sameShard_effect env c ctx hs hd).elim h
    have hC1 := hw1.canon hC (tokKey_esdt tok)
    -- the destination slot is another account's slot: it reads as in the pre-state
    rw [hw2.written]
    apply canon_write _ _ _ hC1
    intro hk ha
    have hold := hw2.old
    rw [hw1.written, Accts.read_write, if_neg (fun ⟨e, _⟩ => hne e)] at hold
    exact entryWF_storedForm _ _ _ rfl hw2.nonneg (hC.read hk ha hold).2 ((tokenOf_num hold).withValue _)

/-- ESDTNFTTransfer on any side: every written entry is `saveESDTNFTToken`'s stored form under the key built from its own
    metadata nonce — well-formed by construction -/
theorem canon_nftTransfer (hC : Canon ctx.accts) (hpres : c.caller = c.rcv → present env.nshards env.self c.caller = true)
    (h : esdtNFTTransfer env c ctx = .ok (out, ctx')) : CanonM ctx'.accts := by
  by_cases hself : c.caller = c.rcv
  · have hS := (nftTransfer_sender_path env c ctx hself).elim h
    by_cases hx : ∀ d, c.args[3]? = some d → env.self ≠ shardOf env.nshards d
    · obtain ⟨tok, _, _, _, t, v, _, _, _, _, _, _, hw, _⟩ :=
        (nftTransferSender_crossShard_effect env c ctx (hpres hself) hx).elim hS
      exact hw.canon hC.toM
    · have hx' : ∀ d, c.args[3]? = some d → env.self = shardOf env.nshards d := by
        intro d hd
        apply Classical.byContradiction
        intro hn
        apply hx
        intro d' hd'
        rw [hd] at hd'; cases hd'; exact hn
      obtain ⟨tok, _, _, dst, t, v, A1, cur, cv, _, _, _, _, _, _, hw, _, _, _, hfin⟩ :=
        (nftTransferSender_sameShard_effect env c ctx (hpres hself) hx').elim hS
      rw [hfin]
      apply canon_write _ _ _ (hw.canon hC.toM)
      intro _ _
      exact entryWF_nftStoredForm _ _ (nftKey_matches tok t) ((decToken_num _ _ hw.old).withValue _)
  · obtain ⟨tok, _, t, cur, tv, cv, _, _, hdec, _, _, _, _, _, _, _, _, hw⟩ := (nftTransfer_dest_effect env c ctx hself).elim h
    rw [hw]
    apply canon_write _ _ _ hC.toM
    intro _ _
    exact entryWF_nftStoredForm _ _ (nftKey_matches tok t) ((decToken_num _ _ hdec).withValue _)

/-! functions that write no token-keyed slot outside the system account -/

theorem canon_esdtRoles (s : Bool) (hC : Canon ctx.accts)
    (h : esdtRoles s env c ctx = .ok (out, ctx')) : CanonM ctx'.accts :=
  canon_of_read_eq hC (fun a k hk _ =>
    ((frame_rn_esdtRoles s env c ctx _ (Frame.refl _ _)).elim h).read_eq a k (rn_not_tokKey a k hk))

theorem canon_createRoleTransfer (hC : Canon ctx.accts)
    (h : esdtNFTCreateRoleTransfer env c ctx = .ok (out, ctx')) : CanonM ctx'.accts :=
  canon_of_read_eq hC (fun a k hk _ =>
    ((frame_rn_createRoleTransfer env c ctx _ (Frame.refl _ _)).elim h).read_eq a k (rn_not_tokKey a k hk))

theorem canon_esdtPause (p : Bool) (hC : Canon ctx.accts)
    (h : esdtPause p env c ctx = .ok (out, ctx')) : CanonM ctx'.accts :=
  canon_of_read_eq hC (fun a k _ ha =>
    ((frame_sys_esdtPause p env c ctx _ (Frame.refl _ _)).elim h).read_eq a k ha)

theorem canon_claimDeveloperRewards (hC : Canon ctx.accts)
    (h : claimDeveloperRewards env c ctx = .ok (out, ctx')) : CanonM ctx'.accts :=
  canon_of_read_eq hC (fun a k _ _ =>
    ((frame_claimDeveloperRewards env c ctx _ (Frame.refl _ _)).elim h).read_eq a k (by simp [acctFootprint]))

theorem canon_changeOwnerAddress (hC : Canon ctx.accts)
    (h : changeOwnerAddress env c ctx = .ok (out, ctx')) : CanonM ctx'.accts :=
  canon_of_read_eq hC (fun a k _ _ =>
    ((frame_changeOwnerAddress env c ctx _ (Frame.refl _ _)).elim h).read_eq a k (by simp [acctFootprint]))

theorem canon_setUserName (hC : Canon ctx.accts)
    (h : setUserName env c ctx = .ok (out, ctx')) : CanonM ctx'.accts :=
  canon_of_read_eq hC (fun a k _ _ =>
    ((frame_setUserName env c ctx _ (Frame.refl _ _)).elim h).read_eq a k (by simp [acctFootprint]))

theorem canon_saveKeyValue (hC : Canon ctx.accts)
    (h : saveKeyValue env c ctx = .ok (out, ctx')) : CanonM ctx'.accts :=
  canon_of_read_eq hC (fun a k hk _ =>
    ((frame_saveKeyValue env c ctx _ (Frame.refl _ _)).elim h).read_eq a k (by
      simp only [skvFootprint]; rintro ⟨_, _, hal⟩; rw [tokKey_not_allowed k hk] at hal; cases hal))

end
end Esdt

namespace Esdt

/-! ### MultiESDTNFTTransfer, sender side: every item writes through `saveESDTNFTToken` -/

theorem canon_transferOne (env : Env) (c : Call) (l : Bool) (dst tok : Bytes) (n q : Nat) (v : Bool) (ctx : Ctx)
    (hC : CanonM ctx.accts) :
    Post (transferOne env c l dst tok n q v) ctx (fun _ c' => CanonM c'.accts) := by
  apply Post.mono (transferOne_effect env c l dst tok n q v ctx)
  intro t' c' ⟨t, x, A1, _, _, _, hdec, _, hA1, hf, ht⟩
  have hnum := decToken_num _ _ hdec
  have hC1 : CanonM A1 := by
    rw [hA1]
    apply canon_write _ _ _ hC
    intro _ _
    exact entryWF_nftStoredForm _ _ (nftKey_matches tok t) (hnum.withValue _)
  cases l
  · rw [(hf rfl).2]; exact hC1
  · obtain ⟨cur, cv, _, _, _, e, hw⟩ := ht rfl
    rw [hw]
    apply canon_write _ _ _ hC1
    intro _ _
    rw [e]
    exact entryWF_nftStoredForm _ _ (nftKey_matches tok t) (hnum.withValue _)

theorem canon_multiSenderLoop (env : Env) (c : Call) (l : Bool) (dst : Bytes) (v : Bool) :
    ∀ n idx ctx, CanonM ctx.accts → Post (multiSenderLoop env c l dst v n idx) ctx (fun _ c' => CanonM c'.accts) := by
  intro n
  induction n with
  | zero => intro idx ctx h; unfold multiSenderLoop; exact Post.pure h
  | succ n ih =>
    intro idx ctx h
    unfold multiSenderLoop
    xsteps
    apply Post.mono (canon_transferOne _ _ _ _ _ _ _ _ _ h)
    intro t c1 h1
    xsteps
    apply Post.mono (ih _ _ h1)
    intro r c2 h2
    obtain ⟨ts, logs⟩ := r
    exact Post.pure h2

theorem canon_multiTransferSender (env : Env) (c : Call) (ctx : Ctx) (hC : CanonM ctx.accts) :
    Post (multiTransferSender env c) ctx (fun _ c' => CanonM c'.accts) := by
  unfold multiTransferSender
  xsteps
  repeat' (first
    | (apply Post.pure; assumption)
    | xstep
    | (apply Post.mono (ro_loadAcct _); intro _ c1 he; have hC : CanonM c1.accts := by rw [he]; assumption)
    | (apply Post.mono (ro_saveAcct _); intro _ c1 he; have hC : CanonM c1.accts := by rw [he]; assumption)
    | (apply Post.mono (canon_multiSenderLoop env c _ _ _ _ _ _ (by assumption)); intro _ _ hC)
    | (apply Post.mono (ro_multiPayloadLoop env _ _ _); intro _ c1 he; have hC : CanonM c1.accts := by rw [he]; assumption)
    | (show Post _ _ _; split))

/-- the sender-side path of MultiESDTNFTTransfer as reached from the function itself -/
theorem canon_multiTransfer_senderPath (env : Env) (c : Call) (ctx : Ctx) (hC : CanonM ctx.accts) (hself : c.caller = c.rcv) :
    Post (multiTransfer env c) ctx (fun _ c' => CanonM c'.accts) := by
  unfold multiTransfer checkBasic
  simp only [hself, if_true]
  xsteps
  have := canon_multiTransferSender env c ctx hC
  simpa [hself] using this

end Esdt
