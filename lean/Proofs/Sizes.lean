/-
  Proofs/Sizes.lean — (A) a token whose numeric fields are in range and whose encoding is shorter than 2^63 bytes is in
  the codec's domain (every field is embedded literally in the encoding); (B) whatever the decoder returns has its
  numeric fields in range.
-/
import Proofs.Codec
namespace Esdt

/-- numeric fields in their Go ranges (uint32 type / royalties, uint64 nonce) -/
structure NumOK (t : Token) : Prop where
  type : t.type < two32
  md : ∀ m, t.md = some m → m.nonce < two64 ∧ m.royalties < two32

theorem encBytesField_length (tag : UInt8) (b : Bytes) : b.length ≤ (encBytesField tag b).length := by
  unfold encBytesField
  split
  · rename_i h; simp [h]
  · have := encLenDelim_length tag b; omega

theorem uris_length (us : List Bytes) : ∀ u ∈ us, u.length ≤ (us.flatMap fun u => encLenDelim 0x32 u).length := by
  induction us with
  | nil => intro u hu; cases hu
  | cons x xs ih =>
    intro u hu
    simp only [List.flatMap_cons, List.length_append]
    rcases List.mem_cons.mp hu with rfl | h
    · have := encLenDelim_length 0x32 u; omega
    · have := ih u h; omega

theorem metaOK_of_length (m : MetaData) (hn : m.nonce < two64) (hr : m.royalties < two32)
    (hl : (encMeta m).length < two63) : MetaOK m := by
  have h1 := encBytesField_length 0x12 m.name
  have h2 := encBytesField_length 0x1a m.creator
  have h3 := encBytesField_length 0x2a m.hash
  have h4 := encBytesField_length 0x3a m.attributes
  have h5 := uris_length m.uris
  simp only [encMeta, List.length_append] at hl
  refine ⟨hn, hr, by omega, by omega, by omega, by omega, ?_⟩
  intro u hu
  have := h5 u hu
  omega

/-- (A) -/
theorem tokenOK_of_length (t : Token) (hn : NumOK t) (hl : (encToken t).length < two63) : TokenOK t := by
  rw [encToken_eq] at hl
  simp only [List.length_append] at hl
  have h2 := encLenDelim_length 0x12 (encBigInt t.value)
  have h3 := encBytesField_length 0x1a t.properties
  have h5 := encBytesField_length 0x2a t.reserved
  refine ⟨hn.type, by omega, by omega, by omega, ?_⟩
  intro m hm
  have hmd : (encMeta m).length + 2 ≤ (encMdField t.md).length := by
    rw [hm]; exact encLenDelim_length 0x22 (encMeta m)
  exact ⟨metaOK_of_length m (hn.md m hm).1 (hn.md m hm).2 (by omega), by omega⟩

theorem roundtrip_of_length (t : Token) (hn : NumOK t) (hl : (encToken t).length < two63) :
    decToken (encToken t) = some t := decToken_encToken t (tokenOK_of_length t hn hl)

end Esdt

namespace Esdt

/-! ### (B) decoded numeric fields are in range -/

theorem decLoop_inv {σ : Type} (step : Bytes → σ → Option (Bytes × σ)) (P : σ → Prop)
    (hstep : ∀ bs s rest s', step bs s = some (rest, s') → P s → P s') :
    ∀ fuel bs s r, P s → decLoop step fuel bs s = some r → P r := by
  intro fuel
  induction fuel with
  | zero => intro bs s r _ h; simp [decLoop] at h
  | succ n ih =>
    intro bs s r hP h
    unfold decLoop at h
    split at h
    · cases h; exact hP
    · split at h
      · cases h
      · rename_i rest s' he
        exact ih rest s' r (hstep _ _ _ _ he hP) h

theorem decVarintAux_lt : ∀ (bs : Bytes) (shift acc v : Nat) (rest : Bytes),
    decVarintAux shift acc bs = some (v, rest) → v < two64 := by
  intro bs
  induction bs with
  | nil => intro shift acc v rest h; simp [decVarintAux] at h
  | cons b bs ih =>
    intro shift acc v rest h
    unfold decVarintAux at h
    split at h
    · cases h
    · simp only at h
      split at h
      · cases h
        exact Nat.mod_lt _ (by decide)
      · exact ih _ _ _ _ h

theorem decVarint_lt (bs : Bytes) (v : Nat) (rest : Bytes) (h : decVarint bs = some (v, rest)) : v < two64 :=
  decVarintAux_lt bs 0 0 v rest h

def MetaNum (m : MetaData) : Prop := m.nonce < two64 ∧ m.royalties < two32

theorem decMetaStep_num (bs : Bytes) (m : MetaData) (rest : Bytes) (m' : MetaData)
    (h : decMetaStep bs m = some (rest, m')) (hm : MetaNum m) : MetaNum m' := by
  unfold decMetaStep at h
  split at h
  · cases h
  · rename_i f wt r _
    split at h
    · split at h
      · cases h
      · split at h
        · cases h
        · rename_i v r' hv
          cases h
          exact ⟨decVarint_lt _ _ _ hv, hm.2⟩
    · split at h
      · split at h
        · cases h
        · split at h
          · cases h
          · cases h
            exact ⟨hm.1, Nat.mod_lt _ (by decide)⟩
      · split at h
        · split at h
          · cases h
          · split at h
            · cases h
            · cases h
              (repeat' split) <;> exact hm
        · split at h
          · cases h
          · cases h; exact hm

theorem decMetaInto_num (bs : Bytes) (m0 m : MetaData) (h : decMetaInto bs m0 = some m) (h0 : MetaNum m0) : MetaNum m :=
  decLoop_inv decMetaStep MetaNum decMetaStep_num _ _ _ _ h0 h

theorem numOK_default : NumOK ({} : Token) := ⟨by decide, fun m hm => by cases hm⟩

theorem decTokenStep_num (bs : Bytes) (t : Token) (rest : Bytes) (t' : Token)
    (h : decTokenStep bs t = some (rest, t')) (ht : NumOK t) : NumOK t' := by
  unfold decTokenStep at h
  split at h
  · cases h
  · rename_i f wt r _
    split at h
    · split at h
      · cases h
      · split at h
        · cases h
        · cases h
          exact ⟨Nat.mod_lt _ (by decide), ht.md⟩
    · split at h
      · split at h
        · cases h
        · split at h
          · cases h
          · split at h
            · cases h
            · cases h; exact ⟨ht.type, ht.md⟩
      · split at h
        · split at h
          · cases h
          · split at h
            · cases h
            · cases h; exact ⟨ht.type, ht.md⟩
        · split at h
          · split at h
            · cases h
            · split at h
              · cases h
              · split at h
                · cases h
                · rename_i b r' _ m hmeta
                  cases h
                  refine ⟨ht.type, ?_⟩
                  intro m2 hm2
                  cases hm2
                  have h0 : MetaNum (t.md.getD {}) := by
                    cases hmd : t.md with
                    | none => exact ⟨by decide, by decide⟩
                    | some m0 => exact ht.md m0 hmd
                  exact decMetaInto_num _ _ _ hmeta h0
          · split at h
            · split at h
              · cases h
              · split at h
                · cases h
                · cases h; exact ⟨ht.type, ht.md⟩
            · split at h
              · cases h
              · cases h; exact ht

/-- (B) -/
theorem decToken_num (raw : Bytes) (t : Token) (h : decToken raw = some t) : NumOK t :=
  decLoop_inv decTokenStep NumOK decTokenStep_num _ _ _ _ numOK_default h

end Esdt
