/-
  Proofs/UnifiedPausedNFT.lean — C04, pause half: ESDTNFTTransfer (both halves) cannot change an entry of a paused token
  either; the mixed-world history theorem of Proofs/UnifiedPaused.lean extended by the NFT-transfer steps (user
  transactions, deliveries, refusals, refunds of NFT / SFT transfers).
-/
import Proofs.UnifiedPaused
namespace Esdt

variable {tok : Bytes} {f : Bytes → Nat → Bytes}

/-- a write through `saveESDTNFTToken` (not flagged) cannot hit an entry of the paused token -/
theorem pa_saveNFT (a tokenID : Bytes) (t : Token) (hna : NoAliasTok tok tokenID) :
    Pres (Pz tok f) (saveNFT a (esdtKeyPrefix ++ tokenID) t false) := by
  intro c hf
  apply Post.mono (spec_saveNFT a (esdtKeyPrefix ++ tokenID) t false c)
  intro b c' ⟨_, hg, _, _, hw⟩
  rw [hw]
  by_cases hsc : a = esdtSCAddress
  · rw [hsc]; exact hf.write_sc _ _
  · by_cases ht : tokenID = tok
    · exfalso
      have := (hg rfl hsc).2
      rw [ht] at this
      have hp := hf.1
      unfold PausedAt at hp; rw [this] at hp; cases hp
    · exact hf.write_other _ _ _ (fun n => hna ht n (mdNonce t))

/-- … whatever its flag when the token is another one -/
theorem pa_saveNFT_other (a tokenID : Bytes) (t : Token) (rae : Bool) (hne : tokenID ≠ tok) (hna : NoAliasTok tok tokenID) :
    Pres (Pz tok f) (saveNFT a (esdtKeyPrefix ++ tokenID) t rae) := by
  intro c hf
  apply Post.mono (spec_saveNFT a (esdtKeyPrefix ++ tokenID) t rae c)
  intro b c' ⟨_, _, _, _, hw⟩
  rw [hw]; exact hf.write_other _ _ _ (fun n => hna hne n (mdNonce t))

theorem pa_addNFT (env : Env) (dst tokenID : Bytes) (t : Token) (mv : Bool) (hna : NoAliasTok tok tokenID) :
    Pres (Pz tok f) (addNFTToDestination env dst t (esdtKeyPrefix ++ tokenID) mv false) := by
  intro c hf
  apply Post.mono (spec_addNFTToDestination env dst t (esdtKeyPrefix ++ tokenID) mv false c)
  intro t' c' ⟨cur, tv, cv, _, _, hg, _, _, _, _, _, hw⟩
  rw [hw]
  by_cases hsc : dst = esdtSCAddress
  · rw [hsc]; exact hf.write_sc _ _
  · by_cases ht : tokenID = tok
    · exfalso
      have := (hg rfl hsc).2
      rw [ht] at this
      have hp := hf.1
      unfold PausedAt at hp; rw [this] at hp; cases hp
    · exact hf.write_other _ _ _ (fun n => hna ht n (mdNonce t))

theorem pa_addNFT_other (env : Env) (dst tokenID : Bytes) (t : Token) (mv rae : Bool) (hne : tokenID ≠ tok)
    (hna : NoAliasTok tok tokenID) : Pres (Pz tok f) (addNFTToDestination env dst t (esdtKeyPrefix ++ tokenID) mv rae) := by
  intro c hf
  apply Post.mono (spec_addNFTToDestination env dst t (esdtKeyPrefix ++ tokenID) mv rae c)
  intro t' c' ⟨cur, tv, cv, _, _, _, _, _, _, _, _, hw⟩
  rw [hw]; exact hf.write_other _ _ _ (fun n => hna hne n (mdNonce t))

/-- ESDTNFTTransfer, not flagged return-after-error (every user transaction, every delivery) -/
theorem pa_nftTransferSender (env : Env) (c : Call) (hrae : c.rae = false)
    (hna : ∀ t0, c.args[0]? = some t0 → NoAliasTok tok t0) : Pres (Pz tok f) (esdtNFTTransferSender env c) := by
  unfold esdtNFTTransferSender
  simp only [hrae]
  apply Pres.argAt_bind
  intro tokenID h0
  pz
  all_goals first
    | exact pa_saveNFT _ _ _ (hna tokenID h0)
    | exact pa_addNFT _ _ _ _ _ (hna tokenID h0)

theorem pa_nftTransfer (env : Env) (c : Call) (hrae : c.rae = false)
    (hna : ∀ t0, c.args[0]? = some t0 → NoAliasTok tok t0) : Pres (Pz tok f) (esdtNFTTransfer env c) := by
  unfold esdtNFTTransfer
  simp only [hrae]
  refine Pres.bind (Pres.of_ro (ro_checkBasic _)) (fun _ => ?_)
  refine Pres.bind (Pres.of_ro (RO.guardE _ _)) (fun _ => ?_)
  apply Pres.ite
  · exact pa_nftTransferSender env c hrae hna
  · refine Pres.bind (Pres.of_ro (RO.guardE _ _)) (fun _ => ?_)
    refine Pres.bind (Pres.of_ro (RO.guardE _ _)) (fun _ => ?_)
    apply Pres.argAt_bind
    intro tokenID h0
    pz
    all_goals exact pa_addNFT _ _ _ _ _ (hna tokenID h0)

/-- a flagged refund of ANOTHER token -/
theorem pa_nftTransfer_other (env : Env) (c : Call) (hne : c.caller ≠ c.rcv)
    (hoth : ∀ t0, c.args[0]? = some t0 → t0 ≠ tok ∧ NoAliasTok tok t0) : Pres (Pz tok f) (esdtNFTTransfer env c) := by
  unfold esdtNFTTransfer
  refine Pres.bind (Pres.of_ro (ro_checkBasic _)) (fun _ => ?_)
  refine Pres.bind (Pres.of_ro (RO.guardE _ _)) (fun _ => ?_)
  rw [if_neg hne]
  refine Pres.bind (Pres.of_ro (RO.guardE _ _)) (fun _ => ?_)
  refine Pres.bind (Pres.of_ro (RO.guardE _ _)) (fun _ => ?_)
  apply Pres.argAt_bind
  intro tokenID h0
  pz
  all_goals exact pa_addNFT_other _ _ _ _ _ _ (hoth tokenID h0).1 (hoth tokenID h0).2

/-! ### the world: ESDTTransfer AND ESDTNFTTransfer traffic mixed with the 20 other functions -/

/-- what is assumed of a step for the paused token, NFT-transfer steps included -/
def UPzStepOK2 (tok : Bytes) (w : UWorld) : UStep → Prop
  | .nft (.user c) => c.rae = false ∧ ∀ t0, c.args[0]? = some t0 → NoAliasTok tok t0
  | .nft (.deliver j) => ∀ m, w.nft[j]? = some m → NoAliasTok tok m.tok
  | .nft (.refund j) => ∀ m, w.nft[j]? = some m → m.tok ≠ tok ∧ NoAliasTok tok m.tok ∧ m.rcv ≠ m.caller
  | st => UPzStepOK tok w st

theorem ustep_pz2 (e : Env) (w : UWorld) (st : UStep) (i : Nat) (hok : UStepOK e w st)
    (hpz : UPzStepOK2 tok w st) (hF : PzW tok f i w) : PzW tok f i (ustep e w st) := by
  cases st with
  | ft s => exact ustep_pz e w (.ft s) i hok hpz hF
  | multi s => exact ustep_pz e w (.multi s) i hok hpz hF
  | call s fn c => exact ustep_pz e w (.call s fn c) i hok hpz hF
  | nft st =>
    obtain ⟨A, hA, hf⟩ := hF
    have hrun : ∀ {s : Nat} {c : Call} {out : VMOutput} {A1 : Accts}, runNFT e w.toNFT.shards s c = some (out, A1) →
        (∀ env, Pres (Pz tok f) (esdtNFTTransfer env c)) → ∃ A', (w.shards.set s A1)[i]? = some A' ∧ Pz tok f A' := by
      intro s c out A1 hr hp
      obtain ⟨A0, ctx', hA0, hex, hA1⟩ := runNFT_some hr
      apply getElem?_set_pres hA hf
      intro A0' hA0' hs
      subst hs
      have : A0 = A := by
        have h1 : w.shards[s]? = some A0 := hA0
        rw [hA] at h1; cases h1; rfl
      subst this
      rw [← hA1]
      exact (hp _ { accts := A0 } hf).elim hex
    simp only [ustep]
    show ∃ A', (nftStep e w.toNFT st).shards[i]? = some A' ∧ Pz tok f A'
    have keep : ∃ A', w.toNFT.shards[i]? = some A' ∧ Pz tok f A' := ⟨A, hA, hf⟩
    cases st with
    | user c =>
      obtain ⟨hrae, hna⟩ : c.rae = false ∧ ∀ t0, c.args[0]? = some t0 → NoAliasTok tok t0 := hpz
      simp only [nftStep]
      cases hr : runNFT e w.toNFT.shards (shardOf e.nshards c.caller) c with
      | none => exact keep
      | some p =>
        obtain ⟨out, A1⟩ := p
        simp only []
        have := hrun hr (fun env => pa_nftTransfer env c hrae hna)
        split
        · split <;> exact this
        · exact this
    | deliver j =>
      simp only [nftStep]
      cases hm : w.toNFT.inflight[j]? with
      | none => exact keep
      | some m =>
        simp only []
        split
        · exact keep
        · cases hr : runNFT e w.toNFT.shards (shardOf e.nshards m.rcv) (nDeliveryCall m) with
          | none => exact keep
          | some p =>
            obtain ⟨out, A1⟩ := p
            have hcond : NoAliasTok tok m.tok := hpz m hm
            refine hrun hr (fun env => pa_nftTransfer env (nDeliveryCall m) rfl (fun t0 ht0 => ?_))
            simp [nDeliveryCall] at ht0
            subst ht0
            exact hcond
    | refund j =>
      simp only [nftStep]
      cases hm : w.toNFT.inflight[j]? with
      | none => exact keep
      | some m =>
        simp only []
        split
        · exact keep
        · cases hr : runNFT e w.toNFT.shards (shardOf e.nshards m.caller) (nRefundCall m) with
          | none => exact keep
          | some p =>
            obtain ⟨out, A1⟩ := p
            obtain ⟨h1, h2, h3⟩ := hpz m hm
            refine hrun hr (fun env => pa_nftTransfer_other env (nRefundCall m) h3 (fun t0 ht0 => ?_))
            simp [nRefundCall] at ht0
            subst ht0
            exact ⟨h1, h2⟩

def UPzStepsOK2 (e : Env) (tok : Bytes) : List UStep → UWorld → Prop
  | [], _ => True
  | st :: rest, w => UPzStepOK2 tok w st ∧ UPzStepsOK2 e tok rest (ustep e w st)

/-- FULL over histories of ESDTTransfer and ESDTNFTTransfer traffic mixed with the 20 non-transfer functions -/
theorem unified_pz_history2 (e : Env) (i : Nat) :
    ∀ (steps : List UStep) (w : UWorld), UInv e w → UStepsOK e steps w → UPzStepsOK2 e tok steps w →
      PzW tok f i w → PzW tok f i (urun e steps w).1 := by
  intro steps
  induction steps with
  | nil => intro w _ _ _ hF; exact hF
  | cons st rest ih =>
    intro w hI hok hpz hF
    obtain ⟨h1, hrest⟩ := hok
    obtain ⟨f1, frest⟩ := hpz
    have hI1 := (ustep_ledger e w st hI h1).2
    have hF1 := ustep_pz2 e w st i h1 f1 hF
    simp only [urun]
    exact ih (ustep e w st) hI1 hrest frest hF1

end Esdt
